import QcelVerif.Lemmas.MunkresTerm.Basic
/-!
C14 — termination of the Munkres model, part 2: steps 3 and 6.

* `step3_more` — when `_step3` hands over to `_step4`, fewer than `n` rows hold a star;
* `step6_flag` — `_step6` changes only `C`, and afterwards there is an uncovered zero, so the
  next `_step4` makes progress.
-/
namespace QcelVerif.Munkres
open QcelVerif.Assign

/-! ### step 3 -/

theorem foldl_add_ge {α : Type} (f : α → Nat) (l : List α) (h1 : ∀ r ∈ l, 1 ≤ f r) (a : Nat) :
    a + l.length ≤ l.foldl (fun a r => a + f r) a := by
  induction l generalizing a with
  | nil => simp
  | cons x l ih =>
    simp only [List.foldl_cons, List.length_cons]
    have := ih (fun r hr => h1 r (List.mem_cons_of_mem _ hr)) (a + f x)
    have := h1 x (List.mem_cons_self ..)
    omega

/-- a row holding a star has a positive star count -/
theorem countP_pos_of_star (M : Mat Nat) (i j : Nat) (hi : i < M.size) (h : Star M i j) :
    1 ≤ M[i].countP (· == 1) := by
  obtain ⟨_, hj⟩ := (star_iff M i j).1 h
  have hjlt : j < M[i].size := by
    by_cases hjlt : j < M[i].size
    · exact hjlt
    · exfalso
      simp [Array.getD_eq_getD_getElem?, Array.getElem?_eq_none (Nat.le_of_not_lt hjlt)] at hj
  have hj' : M[i][j] = 1 := by simpa [Array.getD_eq_getD_getElem?, hjlt] using hj
  show 0 < M[i].countP (· == 1)
  rw [Array.countP_pos_iff]
  exact ⟨M[i][j], Array.getElem_mem hjlt, by simp [hj']⟩

/-- all rows hold a star when `starRows` is full -/
theorem starRows_full {n : Nat} {M : Mat Nat} (hcard : (starRows n M).card = n) :
    ∀ i, i < n → ∃ j, Star M i j := by
  classical
  have heq : starRows n M = Finset.range n := by
    apply Finset.eq_of_subset_of_card_le
    · unfold starRows
      exact Finset.filter_subset _ _
    · rw [hcard, Finset.card_range]
  intro i hi
  have : i ∈ starRows n M := by rw [heq]; exact Finset.mem_range.2 hi
  exact (mem_starRows.1 this).2

/-- when step 3 goes on to step 4, fewer than `n` rows hold a star -/
theorem step3_more {n m : Nat} {cost : Nat → Nat → Rat} {s : State} (h : Inv3 n m cost s)
    (h4 : (step3 s).2 = some .s4) : (starRows n s.marked).card < n := by
  have hsh := h.base.shape
  by_contra hlt
  have hcard : (starRows n s.marked).card = n :=
    le_antisymm (starRows_card_le _ _) (Nat.le_of_not_lt hlt)
  have hall := starRows_full hcard
  have hge : s.marked.toList.length ≤
      s.marked.toList.foldl (fun a r => a + r.countP (· == 1)) 0 := by
    have := foldl_add_ge (fun r : Array Nat => r.countP (· == 1)) s.marked.toList (by
      intro r hr
      obtain ⟨i, hi, rfl⟩ := List.mem_iff_getElem.1 hr
      have hi' : i < s.marked.size := by simpa using hi
      obtain ⟨j, hj⟩ := hall i (hsh.Msz ▸ hi')
      have := countP_pos_of_star s.marked i j hi' hj
      simpa using this) 0
    simpa using this
  rw [Array.foldl_toList, Array.length_toList] at hge
  unfold step3 at h4
  simp only at h4
  by_cases hlt2 : s.marked.foldl (fun a r => a + r.countP (· == 1)) 0 < s.C.size
  · have h1 := hsh.Csz
    have h2 := hsh.Msz
    omega
  · rw [if_neg hlt2] at h4
    exact absurd h4 (by simp)

/-! ### step 6 -/

theorem foldl_minR_mem (l : List Rat) (a : Rat) : l.foldl minR a = a ∨ l.foldl minR a ∈ l := by
  induction l generalizing a with
  | nil => exact Or.inl rfl
  | cons x l ih =>
    simp only [List.foldl_cons]
    rcases ih (minR a x) with h | h
    · rw [h]
      unfold minR
      by_cases hx : x < a
      · rw [if_pos hx]; exact Or.inr (List.mem_cons_self ..)
      · rw [if_neg hx]; exact Or.inl rfl
    · exact Or.inr (List.mem_cons_of_mem _ h)

/-- `r.min()` of a non-empty row is one of its elements -/
theorem rowMin_mem (r : Array Rat) (h : 0 < r.size) : rowMin r ∈ r := by
  have h0 : r.getD 0 0 = r[0] := by simp [Array.getD_eq_getD_getElem?, h]
  unfold rowMin
  rw [← Array.foldl_toList, h0]
  rcases foldl_minR_mem r.toList r[0] with e | e
  · rw [e]; exact Array.getElem_mem h
  · exact Array.mem_def.2 e

theorem any_id_of_getD (a : Array Bool) (i : Nat) (h : a.getD i false = true) :
    a.any id = true := by
  have hi := getD_true_lt a i h
  rw [Array.any_eq_true]
  refine ⟨i, hi, ?_⟩
  simpa [Array.getD_eq_getD_getElem?, hi] using h

/-- with fewer than `n` starred rows some row is uncovered -/
theorem exists_RU {n m : Nat} {cost : Nat → Nat → Rat} {s : State} (h : Loop n m cost s)
    (hS : (starRows n s.marked).card < n) : ∃ i, i < n ∧ RU s i := by
  classical
  have hlt : (starRows n s.marked).card < (Finset.range n).card := by
    rw [Finset.card_range]; exact hS
  obtain ⟨i, hi, hni⟩ := Finset.exists_mem_notMem_of_card_lt_card hlt
  have hi' : i < n := Finset.mem_range.1 hi
  refine ⟨i, hi', ?_⟩
  by_contra hru
  exact hni (mem_starRows.2 ⟨hi', (h.l2 i hi' hru).1⟩)

/-- with fewer than `n ≤ m` starred rows some column is uncovered -/
theorem exists_CU {n m : Nat} {cost : Nat → Nat → Rat} {s : State} (h : Loop n m cost s)
    (hnm : n ≤ m) (hS : (starRows n s.marked).card < n) : ∃ j, j < m ∧ CU s j := by
  classical
  have hsh := h.base.shape
  let cc : Finset Nat := (Finset.range m).filter (fun j => ¬ CU s j)
  have hcc : ∀ j, j ∈ cc ↔ j < m ∧ ¬ CU s j := by
    intro j; simp [cc]
  let f : Nat → Nat := fun j =>
    if hj : j < m ∧ ¬ CU s j then Classical.choose (h.l3 j hj.1 hj.2) else 0
  have hf : ∀ j, j < m ∧ ¬ CU s j → Star s.marked (f j) j := by
    intro j hj
    simp only [f, dif_pos hj]
    exact Classical.choose_spec (h.l3 j hj.1 hj.2)
  have hle : cc.card ≤ (starRows n s.marked).card := by
    apply Finset.card_le_card_of_injOn f
    · intro j hj
      have hj' := (hcc j).1 (by simpa using hj)
      have hst := hf j hj'
      have : f j ∈ starRows n s.marked := mem_starRows.2 ⟨(Star.lt hsh hst).1, j, hst⟩
      simpa using this
    · intro j hj j' hj' e
      have h1 := hf j ((hcc j).1 (by simpa using hj))
      have h2 := hf j' ((hcc j').1 (by simpa using hj'))
      rw [← e] at h2
      exact h.base.starRow (f j) j j' h1 h2
  have hlt : cc.card < (Finset.range m).card := by
    rw [Finset.card_range]; omega
  obtain ⟨j, hj, hnj⟩ := Finset.exists_mem_notMem_of_card_lt_card hlt
  have hj' : j < m := Finset.mem_range.1 hj
  refine ⟨j, hj', ?_⟩
  by_contra hcu
  exact hnj ((hcc j).2 ⟨hj', hcu⟩)

/-- step 6 changes only `C`, and afterwards there is an uncovered zero (so the next step 4 makes
progress) -/
theorem step6_flag {n m : Nat} {cost : Nat → Nat → Rat} {s : State} (h : Loop n m cost s)
    (hnm : n ≤ m) (hS : (starRows n s.marked).card < n) :
    UncZero (step6 s).1 ∧ (step6 s).1.marked = s.marked ∧ (step6 s).1.rowUnc = s.rowUnc
    ∧ (step6 s).1.colUnc = s.colUnc ∧ (step6 s).1.path = s.path := by
  have hsh := h.base.shape
  obtain ⟨i, hi, hru⟩ := exists_RU h hS
  obtain ⟨j, hj, hcu⟩ := exists_CU h hnm hS
  have hany : (s.rowUnc.any id && s.colUnc.any id) = true := by
    rw [any_id_of_getD s.rowUnc i hru, any_id_of_getD s.colUnc j hcu]
    rfl
  rw [step6_eq, if_pos hany]
  refine ⟨?_, rfl, rfl, rfl, rfl⟩
  have hmem : get2 s.C i j ∈ vals6 s :=
    (vals6_mem s _).2 ⟨i, j, hsh.Csz ▸ hi, hru, by rw [hsh.Crow i hi]; exact hj, hcu, rfl⟩
  have hpos : 0 < (vals6 s).size := by
    obtain ⟨k, hk, _⟩ := Array.mem_iff_getElem.1 hmem
    omega
  obtain ⟨i0, j0, hi0, hr0, hj0, hc0, hmv⟩ := (vals6_mem s _).1 (rowMin_mem (vals6 s) hpos)
  refine ⟨i0, j0, ?_, hr0, hc0⟩
  show get2 (C6 s (rowMin (vals6 s))) i0 j0 = 0
  have hr0' : s.rowUnc.getD i0 false = true := hr0
  have hc0' : s.colUnc.getD j0 false = true := hc0
  rw [get2_C6 s _ i0 j0 hi0 hj0, if_pos hr0', if_pos hc0', hmv]
  simp

end QcelVerif.Munkres
