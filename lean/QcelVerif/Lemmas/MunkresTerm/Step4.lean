import QcelVerif.Lemmas.MunkresTerm.Basic
/-!
C14 — termination of the Munkres model, part: `_step4`.

* `step4_total` — the `while` of step 4 never exhausts its fuel `n + 1`: every pass that goes on covers a
  row that was uncovered;
* `step4_progress` — stars and `path` are untouched, covered rows only grow, and when step 4 starts with an
  uncovered zero and hands over to step 6 it covered at least one more row.
-/
namespace QcelVerif.Munkres
open QcelVerif.Assign

/-! ### `np.argmax` returns a maximum -/

/-- every entry of the matrix is below the value `np.argmax` found -/
theorem argmaxFlat_ge (M : Mat Nat) (i j : Nat) (hi : i < M.size) (hj : j < (M.getD i #[]).size) :
    get2 M i j ≤ (argmaxFlat M).2.2 := by
  have key : ∀ i, i < M.size → ∀ j, j < (M.getD i #[]).size → (M.getD i #[]).getD j 0 ≤ (argmaxFlat M).2.2 := by
    unfold argmaxFlat
    simp only [Id.run, bind, pure]
    refine forIn_range_inv M.size _ _
      (fun k (b : Nat × Nat × Nat) => ∀ i, i < k → ∀ j, j < (M.getD i #[]).size → (M.getD i #[]).getD j 0 ≤ b.2.2)
      (fun i hi => absurd hi (Nat.not_lt_zero i)) ?_
    intro i b _ hb
    refine ⟨_, rfl, ?_⟩
    have inner := forIn_range_inv (M.getD i #[]).size b
      (fun j (r : Nat × Nat × Nat) =>
        if r.2.2 < (M.getD i #[]).getD j 0 then ForInStep.yield (i, j, (M.getD i #[]).getD j 0)
        else ForInStep.yield r)
      (fun l (b : Nat × Nat × Nat) =>
        (∀ i', i' < i → ∀ j, j < (M.getD i' #[]).size → (M.getD i' #[]).getD j 0 ≤ b.2.2)
        ∧ ∀ j, j < l → (M.getD i #[]).getD j 0 ≤ b.2.2)
      ⟨hb, fun j hj => absurd hj (Nat.not_lt_zero j)⟩ ?_
    · intro i' hi' j hj
      rcases Nat.lt_succ_iff_lt_or_eq.1 hi' with h | rfl
      · exact inner.1 i' h j hj
      · exact inner.2 j hj
    · intro j b _ hb
      by_cases hlt : b.2.2 < (M.getD i #[]).getD j 0
      · rw [if_pos hlt]
        refine ⟨_, rfl, ?_, ?_⟩
        · intro i' hi' j' hj'
          exact Nat.le_trans (hb.1 i' hi' j' hj') (Nat.le_of_lt hlt)
        · intro j' hj'
          rcases Nat.lt_succ_iff_lt_or_eq.1 hj' with h | rfl
          · exact Nat.le_trans (hb.2 j' h) (Nat.le_of_lt hlt)
          · exact Nat.le_refl _
      · rw [if_neg hlt]
        refine ⟨_, rfl, hb.1, ?_⟩
        intro j' hj'
        rcases Nat.lt_succ_iff_lt_or_eq.1 hj' with h | rfl
        · exact hb.2 j' h
        · exact Nat.le_of_not_lt hlt
  exact key i hi j hj

/-- `np.argmax` finds a non-zero value whenever the matrix has a non-zero entry -/
theorem argmaxFlat_ne_zero (M : Mat Nat) (i j : Nat) (h : get2 M i j ≠ 0) : (argmaxFlat M).2.2 ≠ 0 := by
  have hlt := get2_ne_default M i j h
  have := argmaxFlat_ge M i j hlt.1 hlt.2
  omega

/-! ### one pass of the `while` that goes on -/

section pass
variable {n m : Nat} {cost : Nat → Nat → Rat} {s : State} {row col sc : Nat}

/-- the state after a pass that primed `(row, col)`, covered `row` and uncovered the column `sc` -/
def passState (s : State) (row col sc : Nat) : State :=
  { s with marked := set2 s.marked row col 2, rowUnc := s.rowUnc.set! row false,
           colUnc := s.colUnc.set! sc true }

/-- `covered_C` after such a pass -/
def passCov (s : State) (Cz cov : Mat Nat) (row sc : Nat) : Mat Nat :=
  let rowU := s.rowUnc.set! row false
  let cov := cov.mapIdx fun i r => r.set! sc (get2 Cz i sc * (if rowU.getD i false then 1 else 0))
  cov.set! row (Array.replicate (cov.getD row #[]).size 0)

theorem pass_RU (hs : Shape n m s) (hr : RU s row) (i : Nat) :
    RU (passState s row col sc) i ↔ (RU s i ∧ i ≠ row) := by
  have hr' : row < n := hs.rsz ▸ getD_true_lt _ _ hr
  unfold RU passState
  simp only [getD_set!]
  by_cases hi : row = i
  · subst hi
    simp [hs.rsz, hr']
  · rw [if_neg (fun hh => hi hh.1)]
    constructor
    · exact fun hh => ⟨hh, fun e => hi e.symm⟩
    · exact fun hh => hh.1

/-- the pass covers exactly one more row -/
theorem pass_covRows (hs : Shape n m s) (hr : RU s row) :
    row ∉ covRows n s ∧ covRows n (passState s row col sc) = insert row (covRows n s) := by
  have hr' : row < n := hs.rsz ▸ getD_true_lt _ _ hr
  refine ⟨fun hmem => (mem_covRows.1 hmem).2 hr, ?_⟩
  ext i
  rw [Finset.mem_insert, mem_covRows, mem_covRows, pass_RU hs hr]
  constructor
  · rintro ⟨hi, hno⟩
    by_cases hir : i = row
    · exact Or.inl hir
    · exact Or.inr ⟨hi, fun hh => hno ⟨hh, hir⟩⟩
  · rintro (rfl | ⟨hi, hno⟩)
    · exact ⟨hr', fun hh => hh.2 rfl⟩
    · exact ⟨hi, fun hh => hno hh.1⟩

theorem pass_card (hs : Shape n m s) (hr : RU s row) :
    (covRows n (passState s row col sc)).card = (covRows n s).card + 1 := by
  obtain ⟨hno, he⟩ := pass_covRows (col := col) (sc := sc) hs hr
  rw [he, Finset.card_insert_of_notMem hno]

/-- `covered_C` stays sound across the pass -/
theorem pass_covOK {Cz cov : Mat Nat} (hL : Loop n m cost s) (hcov : CovOK s Cz cov) (hr : RU s row)
    (hc : CU s col) (hstar : Star (set2 s.marked row col 2) row sc) :
    CovOK (passState s row col sc) Cz (passCov s Cz cov row sc) := by
  refine ⟨hcov.cz, ?_⟩
  intro i j hij
  obtain ⟨hirow, hcases⟩ := get2_covUpdate cov _ row sc _ i j hij
  have hsc0 : Star s.marked row sc := (prime_star_iff hL hr hc row sc).1 hstar
  have hscm : sc < m := (Star.lt hL.base.shape hsc0).2
  rcases hcases with ⟨rfl, hg⟩ | ⟨hjs, hold⟩
  · have hg1 : get2 Cz i j ≠ 0 := fun e => hg (by rw [e]; simp)
    have hg2 : (s.rowUnc.set! row false).getD i false = true := by
      by_cases hh : (s.rowUnc.set! row false).getD i false = true
      · exact hh
      · exact absurd (by rw [if_neg hh]; simp) hg
    refine ⟨hg1, hg2, ?_⟩
    show (s.colUnc.set! j true).getD j false = true
    rw [getD_set!, if_pos ⟨rfl, hL.base.shape.csz ▸ hscm⟩]
  · obtain ⟨h1, h2, h3⟩ := hcov.cov i j hold
    refine ⟨h1, ?_, ?_⟩
    · show (s.rowUnc.set! row false).getD i false = true
      rw [getD_set!, if_neg (fun hh => hirow hh.1.symm)]
      exact h2
    · show (s.colUnc.set! sc true).getD j false = true
      rw [getD_set!, if_neg (fun hh => hjs hh.1.symm)]
      exact h3

end pass

/-- one unfolding of the `while` of step 4, in the vocabulary of `passState` / `passCov` -/
theorem step4Loop_succ (f : Nat) (Cz cov : Mat Nat) (s : State) :
    step4Loop (f + 1) Cz cov s =
      if ((argmaxFlat cov).2.2 == 0) = true then .ok (s, some .s6)
      else
        if (get2 (set2 s.marked (argmaxFlat cov).1 (argmaxFlat cov).2.1 2) (argmaxFlat cov).1
            (firstIdx (· == 1) ((set2 s.marked (argmaxFlat cov).1 (argmaxFlat cov).2.1 2).getD
              (argmaxFlat cov).1 #[])) != 1) = true then
          .ok ({ s with marked := set2 s.marked (argmaxFlat cov).1 (argmaxFlat cov).2.1 2,
                        z0r := (argmaxFlat cov).1, z0c := (argmaxFlat cov).2.1 }, some .s5)
        else
          step4Loop f Cz
            (passCov s Cz cov (argmaxFlat cov).1
              (firstIdx (· == 1) ((set2 s.marked (argmaxFlat cov).1 (argmaxFlat cov).2.1 2).getD
                (argmaxFlat cov).1 #[])))
            (passState s (argmaxFlat cov).1 (argmaxFlat cov).2.1
              (firstIdx (· == 1) ((set2 s.marked (argmaxFlat cov).1 (argmaxFlat cov).2.1 2).getD
                (argmaxFlat cov).1 #[]))) := by
  rfl

/-- what a pass with a non-zero maximum knows about the position it found -/
theorem pass_facts {s : State} {Cz cov : Mat Nat}
    (hcov : CovOK s Cz cov) (hv : ¬ ((argmaxFlat cov).2.2 == 0) = true) :
    get2 s.C (argmaxFlat cov).1 (argmaxFlat cov).2.1 = 0 ∧ RU s (argmaxFlat cov).1
      ∧ CU s (argmaxFlat cov).2.1 := by
  have hne : get2 cov (argmaxFlat cov).1 (argmaxFlat cov).2.1 ≠ 0 := by
    rw [← argmaxFlat_spec]; simpa using hv
  obtain ⟨hcz, hr, hc⟩ := hcov.cov _ _ hne
  exact ⟨hcov.cz _ _ hcz, hr, hc⟩

/-! ### totality -/

/-- the `while` of step 4 succeeds whenever its fuel exceeds the number of uncovered rows -/
theorem step4Loop_total {n m : Nat} {cost : Nat → Nat → Rat} : ∀ (f : Nat) (Cz cov : Mat Nat) (s : State),
    Loop n m cost s → CovOK s Cz cov → n - (covRows n s).card < f → ∃ r, step4Loop f Cz cov s = .ok r
  | 0, _, _, _, _, _, hf => absurd hf (Nat.not_lt_zero _)
  | f + 1, Cz, cov, s, hL, hcov, hf => by
    rw [step4Loop_succ]
    by_cases hv : ((argmaxFlat cov).2.2 == 0) = true
    · rw [if_pos hv]
      exact ⟨_, rfl⟩
    · rw [if_neg hv]
      obtain ⟨hz, hr, hc⟩ := pass_facts hcov hv
      generalize hsc : firstIdx (fun x => x == 1)
        (Array.getD (set2 s.marked (argmaxFlat cov).1 (argmaxFlat cov).2.1 2) (argmaxFlat cov).1 #[]) = sc
      generalize hrow : (argmaxFlat cov).1 = row at hz hr hc ⊢
      generalize hcol : (argmaxFlat cov).2.1 = col at hz hr hc ⊢
      by_cases hns : (get2 (set2 s.marked row col 2) row sc != 1) = true
      · rw [if_pos hns]
        exact ⟨_, rfl⟩
      · rw [if_neg hns]
        have hstar : Star (set2 s.marked row col 2) row sc := by
          unfold Star; simpa using hns
        have hL' : Loop n m cost (passState s row col sc) :=
          prime_continue hL hz hr hc sc hstar (passState s row col sc) rfl rfl rfl rfl
        have hcov' := pass_covOK hL hcov hr hc hstar
        have hcard := pass_card (col := col) (sc := sc) hL.base.shape hr
        have hle := covRows_card_le n (passState s row col sc)
        exact step4Loop_total f Cz _ _ hL' hcov' (by omega)

/-- the initial `covered_C` of step 4 is sound -/
theorem step4_covOK (s : State) :
    CovOK s (s.C.map fun r => r.map fun x => if x == 0 then (1 : Nat) else 0)
      ((s.C.map fun r => r.map fun x => if x == 0 then (1 : Nat) else 0).mapIdx fun i r =>
        r.mapIdx fun j z => z * (if s.rowUnc.getD i false then 1 else 0)
          * (if s.colUnc.getD j false then 1 else 0)) := by
  refine ⟨fun i j hij => get2_Cz s.C i j hij, ?_⟩
  intro i j hij
  have e := get2_mapIdx_nat _ (fun i j z => z * (if s.rowUnc.getD i false then 1 else 0)
    * (if s.colUnc.getD j false then 1 else 0)) i j hij
  rw [e] at hij
  obtain ⟨h3, h4⟩ := Nat.mul_ne_zero_iff.1 hij
  obtain ⟨h5, h6⟩ := Nat.mul_ne_zero_iff.1 h3
  refine ⟨h5, ?_, ?_⟩
  · unfold RU
    by_cases hh : s.rowUnc.getD i false = true
    · exact hh
    · exact absurd (by rw [if_neg hh]) h6
  · unfold CU
    by_cases hh : s.colUnc.getD j false = true
    · exact hh
    · exact absurd (by rw [if_neg hh]) h4

/-- the `while` of step 4 never runs out of its fuel `n + 1` -/
theorem step4_total {n m : Nat} {cost : Nat → Nat → Rat} {s : State} (h : Loop n m cost s) :
    ∃ r, step4 s = .ok r := by
  unfold step4
  refine step4Loop_total (n := n) (m := m) (cost := cost) _ _ _ s h (step4_covOK s) ?_
  rw [h.base.shape.Csz]
  omega

/-! ### progress -/

/-- the `while` of step 4: stars and `path` untouched, covered rows only grow, and strictly so when the
first `argmax` finds a non-zero value and the loop ends in step 6 -/
theorem step4Loop_progress {n m : Nat} {cost : Nat → Nat → Rat} : ∀ (f : Nat) (Cz cov : Mat Nat)
    (s s' : State) (nx : Option Step), step4Loop f Cz cov s = .ok (s', nx) → Loop n m cost s →
    CovOK s Cz cov →
    (∀ i j, Star s'.marked i j ↔ Star s.marked i j) ∧ covRows n s ⊆ covRows n s' ∧ s'.path = s.path
    ∧ (nx = some .s6 → (argmaxFlat cov).2.2 ≠ 0 → (covRows n s).card < (covRows n s').card)
  | 0, _, _, _, _, _, h, _, _ => by simp [step4Loop] at h
  | f + 1, Cz, cov, s, s', nx, h, hL, hcov => by
    rw [step4Loop_succ] at h
    by_cases hv : ((argmaxFlat cov).2.2 == 0) = true
    · rw [if_pos hv] at h
      simp only [Except.ok.injEq, Prod.mk.injEq] at h
      obtain ⟨rfl, _⟩ := h
      refine ⟨fun _ _ => Iff.rfl, Finset.Subset.refl _, rfl, ?_⟩
      intro _ hne
      exact absurd (by simpa using hv) hne
    · rw [if_neg hv] at h
      obtain ⟨hz, hr, hc⟩ := pass_facts hcov hv
      generalize hsc : firstIdx (fun x => x == 1)
        (Array.getD (set2 s.marked (argmaxFlat cov).1 (argmaxFlat cov).2.1 2) (argmaxFlat cov).1 #[]) = sc
        at h
      generalize hrow : (argmaxFlat cov).1 = row at hz hr hc h
      generalize hcol : (argmaxFlat cov).2.1 = col at hz hr hc h
      by_cases hns : (get2 (set2 s.marked row col 2) row sc != 1) = true
      · rw [if_pos hns] at h
        simp only [Except.ok.injEq, Prod.mk.injEq] at h
        obtain ⟨rfl, rfl⟩ := h
        refine ⟨fun i j => prime_star_iff hL hr hc i j, Finset.Subset.refl _, rfl, ?_⟩
        intro h6
        exact absurd h6 (by decide)
      · rw [if_neg hns] at h
        have hstar : Star (set2 s.marked row col 2) row sc := by
          unfold Star; simpa using hns
        have hL' : Loop n m cost (passState s row col sc) :=
          prime_continue hL hz hr hc sc hstar (passState s row col sc) rfl rfl rfl rfl
        have hcov' := pass_covOK hL hcov hr hc hstar
        obtain ⟨hst, hsub, hpath, _⟩ := step4Loop_progress f Cz _ _ s' nx h hL' hcov'
        obtain ⟨_, hins⟩ := pass_covRows (col := col) (sc := sc) hL.base.shape hr
        have hcard := pass_card (col := col) (sc := sc) hL.base.shape hr
        refine ⟨?_, ?_, hpath, ?_⟩
        · intro i j
          rw [hst i j]
          exact prime_star_iff hL hr hc i j
        · refine Finset.Subset.trans ?_ hsub
          rw [hins]
          exact Finset.subset_insert _ _
        · intro _ _
          have := Finset.card_le_card hsub
          omega

/-- the initial `covered_C` of step 4 is complete: an uncovered zero has entry 1 -/
theorem step4_cov_complete {n m : Nat} {s : State} (hs : Shape n m s) {i j : Nat}
    (hz : get2 s.C i j = 0) (hr : RU s i) (hc : CU s j) :
    get2 ((s.C.map fun r => r.map fun x => if x == 0 then (1 : Nat) else 0).mapIdx fun i r =>
        r.mapIdx fun j z => z * (if s.rowUnc.getD i false then 1 else 0)
          * (if s.colUnc.getD j false then 1 else 0)) i j = 1 := by
  have hi : i < s.C.size := by rw [hs.Csz, ← hs.rsz]; exact getD_true_lt _ _ hr
  have hj' : j < m := hs.csz ▸ getD_true_lt _ _ hc
  have hrow := hs.Crow i (hs.Csz ▸ hi)
  have hj : j < s.C[i].size := by
    have : s.C.getD i #[] = s.C[i] := by simp [Array.getD_eq_getD_getElem?, hi]
    rw [← this, hrow]; exact hj'
  have e2 : get2 s.C i j = s.C[i][j] := by simp [get2, Array.getD_eq_getD_getElem?, hi, hj]
  rw [e2] at hz
  unfold RU at hr
  unfold CU at hc
  rw [Array.getD_eq_getD_getElem?] at hr hc
  simp [get2, Array.getD_eq_getD_getElem?, hi, hj, hz, hr, hc]

/-- what step 4 changes: stars and `path` untouched, covered rows only grow, and if it started with an
uncovered zero and hands over to step 6 it covered at least one more row -/
theorem step4_progress {n m : Nat} {cost : Nat → Nat → Rat} {s s' : State} {nx : Option Step}
    (hrun : step4 s = .ok (s', nx)) (h : Loop n m cost s) :
    (∀ i j, Star s'.marked i j ↔ Star s.marked i j) ∧ covRows n s ⊆ covRows n s' ∧ s'.path = s.path
    ∧ (UncZero s → nx = some .s6 → (covRows n s).card < (covRows n s').card) := by
  unfold step4 at hrun
  obtain ⟨hst, hsub, hpath, hcard⟩ := step4Loop_progress _ _ _ _ _ _ hrun h (step4_covOK s)
  refine ⟨hst, hsub, hpath, ?_⟩
  rintro ⟨i, j, hz, hr, hc⟩ h6
  refine hcard h6 (argmaxFlat_ne_zero _ i j ?_)
  rw [step4_cov_complete h.base.shape hz hr hc]
  decide

end QcelVerif.Munkres
