import QcelVerif.Lemmas.MunkresTerm.Basic
/-!
C14 — termination of the Munkres model, part: `_step5`.

* `step5_total` — `_step5` never fails: the alternating path has at most `2 n − 1` cells (its primes
  sit in pairwise different rows), so it fits into the `n + m` rows of `path` and the loop's fuel
  `n + m + 1` is never exhausted;
* `step5_progress` — `_step5` keeps the size of `path` and adds exactly one starred row (the row
  of `Z0`).
-/
namespace QcelVerif.Munkres
open QcelVerif.Assign

section chain
variable {M : Mat Nat} {rk : Nat → Nat}

/-- the rows of the primes of a path are pairwise different; a path of `k` primes has `2 k − 1`
cells -/
theorem Chain.rows {l : List (Nat × Nat)} (h : Chain M rk l) :
    ∃ rows : List Nat, rows.Nodup ∧ (∀ r ∈ rows, ∃ c, (r, c) ∈ l ∧ Prime M r c) ∧
      l.length + 1 = 2 * rows.length := by
  induction h with
  | base p h1 _ =>
    refine ⟨[p.1], by simp, ?_, by simp⟩
    intro r hr
    simp at hr
    subst hr
    exact ⟨p.2, by simp, h1⟩
  | step q p rest hc h1 h2 hlt ih =>
    obtain ⟨rows, hnd, hmem, hlen⟩ := ih
    have hge := hc.rank_ge
    refine ⟨q.1 :: rows, ?_, ?_, ?_⟩
    · rw [List.nodup_cons]
      refine ⟨?_, hnd⟩
      intro hq
      obtain ⟨c, hc1, _⟩ := hmem q.1 hq
      have := hge (q.1, c) hc1
      simp only at this
      omega
    · intro r hr
      rcases List.mem_cons.1 hr with rfl | hr
      · exact ⟨q.2, by simp, h1⟩
      · obtain ⟨c, hc1, hc2⟩ := hmem r hr
        exact ⟨c, List.mem_cons_of_mem _ (List.mem_cons_of_mem _ hc1), hc2⟩
    · simp only [List.length_cons] at hlen ⊢
      omega

theorem nodup_lt_length_le (rows : List Nat) (n : Nat) (hnd : rows.Nodup) (hlt : ∀ r ∈ rows, r < n) :
    rows.length ≤ n := by
  have hsub : rows ⊆ List.range n := fun r hr => List.mem_range.2 (hlt r hr)
  have := (List.subperm_of_subset hnd hsub).length_le
  simpa using this

/-- a path whose primes all lie in rows `< n` has at most `2 n − 1` cells -/
theorem Chain.length_le {l : List (Nat × Nat)} (h : Chain M rk l) (n : Nat)
    (hn : ∀ i j, Prime M i j → i < n) : l.length + 1 ≤ 2 * n := by
  obtain ⟨rows, hnd, hmem, hlen⟩ := h.rows
  have := nodup_lt_length_le rows n hnd (fun r hr => by
    obtain ⟨c, _, hc⟩ := hmem r hr
    exact hn r c hc)
  omega

/-- the row of a star of the path holds a prime of the path -/
theorem Chain.row_prime {l : List (Nat × Nat)} (h : Chain M rk l) :
    ∀ x ∈ l, Star M x.1 x.2 → ∃ j', Prime M x.1 j' ∧ (x.1, j') ∈ l := by
  induction h with
  | base p h1 _ =>
    intro x hx hs
    simp at hx
    rw [hx] at hs
    exact absurd h1 (star_not_prime hs)
  | step q p rest hc h1 h2 _ ih =>
    intro x hx hs
    rcases List.mem_cons.1 hx with rfl | hx
    · exact absurd h1 (star_not_prime hs)
    rcases List.mem_cons.1 hx with rfl | hx
    · exact ⟨q.2, h1, by simp⟩
    · obtain ⟨j', h3, h4⟩ := ih x hx hs
      exact ⟨j', h3, by simp [h4]⟩

/-- the oldest cell of the path is a prime -/
theorem Chain.last_prime {l : List (Nat × Nat)} (h : Chain M rk l) :
    ∀ z, l.getLast? = some z → Prime M z.1 z.2 := by
  induction h with
  | base p h1 _ =>
    intro z hz
    simp at hz
    rw [← hz]
    exact h1
  | step q p rest hc h1 h2 _ ih =>
    intro z hz
    rw [List.getLast?_cons_cons, List.getLast?_cons_cons] at hz
    exact ih z hz

/-- every prime of the path other than the oldest has a star in its row -/
theorem Chain.prime_row_last {l : List (Nat × Nat)} (h : Chain M rk l) :
    ∀ z, l.getLast? = some z → ∀ x ∈ l, Prime M x.1 x.2 → x.1 = z.1 ∨ ∃ j', Star M x.1 j' := by
  induction h with
  | base p h1 _ =>
    intro z hz x hx _
    simp at hz hx
    rw [hx, hz]
    exact Or.inl rfl
  | step q p rest hc h1 h2 _ ih =>
    intro z hz x hx hp
    rw [List.getLast?_cons_cons, List.getLast?_cons_cons] at hz
    rcases List.mem_cons.1 hx with rfl | hx
    · exact Or.inr ⟨p.2, h2⟩
    rcases List.mem_cons.1 hx with rfl | hx
    · exact absurd hp (star_not_prime h2)
    · exact ih z hz x hx hp

end chain

theorem PathRel.length {m count : Nat} {path : Array (Nat × Int)} {p : Nat × Nat}
    {rest : List (Nat × Nat)} (h : PathRel m count path p rest) : (p :: rest).length = count + 1 := by
  have := congrArg List.length h.1
  simpa using this

/-! ### the loop never fails -/

theorem step5Loop_total (M : Mat Nat) (m n : Nat) (rk : Nat → Nat)
    (hlink : ∀ i j i', Prime M i j → Star M i' j → (∃ j', Prime M i' j') ∧ rk i' < rk i)
    (hn : ∀ i j, Prime M i j → i < n) :
    ∀ (f count : Nat) (path : Array (Nat × Int)) (p : Nat × Nat) (rest : List (Nat × Nat)),
    Chain M rk (p :: rest) → PathRel m count path p rest → 2 * n ≤ path.size →
    2 * n + 1 ≤ count + 2 * f → ∃ r, step5Loop M m f count path = .ok r
  | 0, count, path, p, rest, hch, hrel, _, hf => by
    have h1 := hch.length_le n hn
    have h2 := hrel.length
    omega
  | f + 1, count, path, p, rest, hch, hrel, hsz, hf => by
    obtain ⟨hrev, hlast⟩ := hrel
    unfold step5Loop
    simp only [bind, Except.bind, pathSet, Nat.add_sub_cancel]
    rw [hlast]
    simp only [enc, wrapIdx_ofNat]
    generalize hrow : firstIdx (fun x => x == 1) (M.map fun r => r.getD p.2 0) = row
    by_cases hex : (get2 M row p.2 != 1) = true
    · rw [if_pos hex]
      exact ⟨_, rfl⟩
    · rw [if_neg hex]
      have hstar : Star M row p.2 := by unfold Star; simpa using hex
      obtain ⟨⟨j', hj'⟩, hlt⟩ := hlink p.1 p.2 row hch.head_prime hstar
      have hcol := rowScan_some M row j' hj'
      generalize hcoleq : firstIdx (fun x => x == 2) (M.getD row #[]) = col at hcol
      have hch' : Chain M rk ((row, col) :: (row, p.2) :: p :: rest) :=
        Chain.step (row, col) p rest hch hcol hstar hlt
      have hlen' := hch'.length_le n hn
      have hlen := PathRel.length ⟨hrev, hlast⟩
      simp only [List.length_cons] at hlen' hlen
      have hs1 : count + 1 < path.size := by omega
      rw [if_pos hs1]
      simp only
      have e1 : (path.set! (count + 1) (row, Int.ofNat p.2)).getD (count + 1) (0, 0) = (row, Int.ofNat p.2) := by
        rw [getD_set!, if_pos ⟨rfl, hs1⟩]
      rw [e1]
      simp only
      rw [hcoleq]
      have hne : ¬ ((get2 M row col != 2) = true) := by simp [hcol]
      rw [if_neg hne]
      have hsz1 : (path.set! (count + 1) (row, Int.ofNat p.2)).size = path.size := by simp
      have hs2 : count + 1 + 1 < (path.set! (count + 1) (row, Int.ofNat p.2)).size := by
        rw [hsz1]; omega
      rw [if_pos hs2]
      simp only
      refine step5Loop_total M m n rk hlink hn f _ _ (row, col) ((row, p.2) :: p :: rest) hch' ?_ ?_ ?_
      · rw [hsz1] at hs2
        constructor
        · rw [List.range_succ, List.range_succ, List.map_append, List.map_append]
          simp only [List.map_cons, List.map_nil]
          have e2 : (List.range (count + 1)).map (fun k => cellOf m
              (((path.set! (count + 1) (row, Int.ofNat p.2)).set! (count + 1 + 1) (row, Int.ofNat col)).getD k (0, 0)))
              = (List.range (count + 1)).map (fun k => cellOf m (path.getD k (0, 0))) := by
            apply List.map_congr_left
            intro k hk
            have hk' : k < count + 1 := List.mem_range.1 hk
            rw [getD_set!, if_neg (fun hh => by omega), getD_set!, if_neg (fun hh => by omega)]
          rw [e2, ← hrev]
          have e3 : ((path.set! (count + 1) (row, Int.ofNat p.2)).set! (count + 1 + 1) (row, Int.ofNat col)).getD
              (count + 1) (0, 0) = enc (row, p.2) := by
            rw [getD_set!, if_neg (fun hh => by omega), getD_set!, if_pos ⟨rfl, hs1⟩]
            rfl
          have e4 : ((path.set! (count + 1) (row, Int.ofNat p.2)).set! (count + 1 + 1) (row, Int.ofNat col)).getD
              (count + 1 + 1) (0, 0) = enc (row, col) := by
            rw [getD_set!, if_pos ⟨rfl, by rw [hsz1]; exact hs2⟩]
            rfl
          rw [e3, e4, cellOf_enc, cellOf_enc]
          simp
        · rw [getD_set!, if_pos ⟨rfl, by rw [hsz1]; exact hs2⟩]
          rfl
      · simp only [Array.set!_eq_setIfInBounds, Array.size_setIfInBounds]
        exact hsz
      · omega

/-! ### what the loop returns -/

/-- `step5Loop_inv`, strengthened: the loop keeps the size of `path` and the oldest cell of the
path -/
theorem step5Loop_inv' (M : Mat Nat) (m : Nat) (rk : Nat → Nat)
    (hlink : ∀ i j i', Prime M i j → Star M i' j → (∃ j', Prime M i' j') ∧ rk i' < rk i) :
    ∀ (f count : Nat) (path : Array (Nat × Int)) (r : Nat × Array (Nat × Int)),
    step5Loop M m f count path = .ok r → ∀ (p : Nat × Nat) (rest : List (Nat × Nat)),
    Chain M rk (p :: rest) → PathRel m count path p rest →
    ∃ p' rest', Chain M rk (p' :: rest') ∧ PathRel m r.1 r.2 p' rest' ∧ (∀ i, ¬ Star M i p'.2)
      ∧ r.2.size = path.size ∧ (p' :: rest').getLast? = (p :: rest).getLast?
  | 0, _, _, _, h => by simp [step5Loop] at h
  | f + 1, count, path, r, h => by
    intro p rest hch ⟨hrev, hlast⟩
    unfold step5Loop at h
    simp only [bind, Except.bind, pathSet, Nat.add_sub_cancel] at h
    rw [hlast] at h
    simp only [enc, wrapIdx_ofNat] at h
    generalize hrow : firstIdx (fun x => x == 1) (M.map fun r => r.getD p.2 0) = row at h
    by_cases hex : (get2 M row p.2 != 1) = true
    · rw [if_pos hex] at h
      simp only [Except.ok.injEq] at h
      subst h
      refine ⟨p, rest, hch, ⟨hrev, hlast⟩, ?_, rfl, rfl⟩
      apply colScan_none
      rw [hrow]
      simpa using hex
    · rw [if_neg hex] at h
      have hstar : Star M row p.2 := by unfold Star; simpa using hex
      obtain ⟨⟨j', hj'⟩, hlt⟩ := hlink p.1 p.2 row hch.head_prime hstar
      by_cases hs1 : count + 1 < path.size
      · rw [if_pos hs1] at h
        simp only at h
        have e1 : (path.set! (count + 1) (row, Int.ofNat p.2)).getD (count + 1) (0, 0) = (row, Int.ofNat p.2) := by
          rw [getD_set!, if_pos ⟨rfl, hs1⟩]
        rw [e1] at h
        simp only at h
        have hcol := rowScan_some M row j' hj'
        generalize hcoleq : firstIdx (fun x => x == 2) (M.getD row #[]) = col at h hcol
        have hne : ¬ ((get2 M row col != 2) = true) := by simp [hcol]
        rw [if_neg hne] at h
        by_cases hs2 : count + 1 + 1 < (path.set! (count + 1) (row, Int.ofNat p.2)).size
        · rw [if_pos hs2] at h
          simp only at h
          have hsz : (path.set! (count + 1) (row, Int.ofNat p.2)).size = path.size := by simp
          have hrec := step5Loop_inv' M m rk hlink f _ _ r h (row, col) ((row, p.2) :: p :: rest)
            (Chain.step (row, col) p rest hch hcol hstar hlt) (by
            rw [hsz] at hs2
            constructor
            · rw [List.range_succ, List.range_succ, List.map_append, List.map_append]
              simp only [List.map_cons, List.map_nil]
              have e2 : (List.range (count + 1)).map (fun k => cellOf m
                  (((path.set! (count + 1) (row, Int.ofNat p.2)).set! (count + 1 + 1) (row, Int.ofNat col)).getD k (0, 0)))
                  = (List.range (count + 1)).map (fun k => cellOf m (path.getD k (0, 0))) := by
                apply List.map_congr_left
                intro k hk
                have hk' : k < count + 1 := List.mem_range.1 hk
                rw [getD_set!, if_neg (fun hh => by omega), getD_set!, if_neg (fun hh => by omega)]
              rw [e2, ← hrev]
              have e3 : ((path.set! (count + 1) (row, Int.ofNat p.2)).set! (count + 1 + 1) (row, Int.ofNat col)).getD
                  (count + 1) (0, 0) = enc (row, p.2) := by
                rw [getD_set!, if_neg (fun hh => by omega), getD_set!, if_pos ⟨rfl, hs1⟩]
                rfl
              have e4 : ((path.set! (count + 1) (row, Int.ofNat p.2)).set! (count + 1 + 1) (row, Int.ofNat col)).getD
                  (count + 1 + 1) (0, 0) = enc (row, col) := by
                rw [getD_set!, if_pos ⟨rfl, by rw [hsz]; exact hs2⟩]
                rfl
              rw [e3, e4, cellOf_enc, cellOf_enc]
              simp
            · rw [getD_set!, if_pos ⟨rfl, by rw [hsz]; exact hs2⟩]
              rfl)
          obtain ⟨p', rest', a1, a2, a3, a4, a5⟩ := hrec
          refine ⟨p', rest', a1, a2, a3, ?_, ?_⟩
          · rw [a4]
            simp only [Array.set!_eq_setIfInBounds, Array.size_setIfInBounds]
          · rw [a5, List.getLast?_cons_cons, List.getLast?_cons_cons]
        · rw [if_neg hs2] at h
          simp at h
      · rw [if_neg hs1] at h
        simp at h

/-! ### `_step5` -/

/-- step 5 never fails: the path never overruns its `n + m` rows and the loop never runs out of fuel -/
theorem step5_total {n m : Nat} {cost : Nat → Nat → Rat} {s : State} (h : Inv5 n m cost s) (hnm : n ≤ m)
    (hp : s.path.size = n + m) : ∃ r, step5 s = .ok r := by
  obtain ⟨rk, hlink⟩ := h.rank
  have hs := h.base.shape
  have hn : ∀ i j, Prime s.marked i j → i < n := fun i j hij => (Prime.lt hs hij).1
  have hn0 : 0 < n := Nat.lt_of_le_of_lt (Nat.zero_le _) (hn _ _ h.z0)
  have h0 : 0 < s.path.size := by omega
  have hrel0 : PathRel s.colUnc.size 0 (s.path.set! 0 (s.z0r, Int.ofNat s.z0c)) (s.z0r, s.z0c) [] := by
    have e0 : (s.path.set! 0 (s.z0r, Int.ofNat s.z0c)).getD 0 (0, 0) = enc (s.z0r, s.z0c) := by
      rw [getD_set!, if_pos ⟨rfl, h0⟩]; rfl
    refine ⟨?_, e0⟩
    simp only [List.range_succ, List.range_zero, List.nil_append, List.map_cons, List.map_nil, e0, cellOf_enc]
    rfl
  obtain ⟨r, hr⟩ := step5Loop_total s.marked s.colUnc.size n rk hlink hn
    (s.rowUnc.size + s.colUnc.size + 1) 0 (s.path.set! 0 (s.z0r, Int.ofNat s.z0c)) (s.z0r, s.z0c) []
    (Chain.base _ h.z0 h.z0row) hrel0
    (by simp only [Array.set!_eq_setIfInBounds, Array.size_setIfInBounds]; omega)
    (by rw [hs.rsz, hs.csz]; omega)
  obtain ⟨c, pa⟩ := r
  unfold step5
  simp only [bind, Except.bind, pure, Except.pure, pathSet]
  rw [if_pos h0]
  simp only
  rw [hr]
  exact ⟨_, rfl⟩

/-- step 5 keeps the size of `path` and adds exactly one starred row -/
theorem step5_progress {n m : Nat} {cost : Nat → Nat → Rat} {s s' : State} {nx : Option Step}
    (hrun : step5 s = .ok (s', nx)) (h : Inv5 n m cost s) :
    s'.path.size = s.path.size ∧ (starRows n s'.marked).card = (starRows n s.marked).card + 1 := by
  have h5 := h
  obtain ⟨rk, hlink⟩ := h5.rank
  have hshape := h5.base.shape
  unfold step5 at hrun
  simp only [bind, Except.bind, pure, Except.pure, pathSet, Id.run] at hrun
  by_cases h0 : 0 < s.path.size
  · rw [if_pos h0] at hrun
    simp only at hrun
    generalize hres : step5Loop s.marked s.colUnc.size (s.rowUnc.size + s.colUnc.size + 1) 0
      (s.path.set! 0 (s.z0r, Int.ofNat s.z0c)) = res at hrun
    cases res with
    | error e => simp at hrun
    | ok v =>
      simp only [Except.ok.injEq, Prod.mk.injEq] at hrun
      obtain ⟨hs', _⟩ := hrun
      have hrel0 : PathRel s.colUnc.size 0 (s.path.set! 0 (s.z0r, Int.ofNat s.z0c)) (s.z0r, s.z0c) [] := by
        have e0 : (s.path.set! 0 (s.z0r, Int.ofNat s.z0c)).getD 0 (0, 0) = enc (s.z0r, s.z0c) := by
          rw [getD_set!, if_pos ⟨rfl, h0⟩]; rfl
        refine ⟨?_, e0⟩
        simp only [List.range_succ, List.range_zero, List.nil_append, List.map_cons, List.map_nil, e0, cellOf_enc]
        rfl
      obtain ⟨p', rest', hch, hrel, _, hsize, hlast⟩ := step5Loop_inv' s.marked s.colUnc.size rk hlink _ _ _ _ hres
        (s.z0r, s.z0c) [] (Chain.base _ h5.z0 h5.z0row) hrel0
      rw [flipLoop_eq s.marked s.colUnc.size v.1 v.2 p' rest' hrel] at hs'
      have hM : s'.marked = augment s.marked (p' :: rest') := by rw [← hs']; rfl
      have hP : s'.path = v.2 := by rw [← hs']; rfl
      refine ⟨?_, ?_⟩
      · rw [hP, hsize]
        simp only [Array.set!_eq_setIfInBounds, Array.size_setIfInBounds]
      · have hlast' : (p' :: rest').getLast? = some (s.z0r, s.z0c) := by rw [hlast]; rfl
        have hzmem : (s.z0r, s.z0c) ∈ p' :: rest' := List.mem_of_getLast? hlast'
        have hiff : ∀ i j, Star s'.marked i j ↔
            (((i, j) ∈ p' :: rest' ∧ Prime s.marked i j) ∨ (Star s.marked i j ∧ (i, j) ∉ p' :: rest')) := by
          intro i j; rw [hM]; exact augment_star_iff hch i j
        have hrows : ∀ i, (∃ j, Star s'.marked i j) ↔ ((∃ j, Star s.marked i j) ∨ i = s.z0r) := by
          intro i
          constructor
          · rintro ⟨j, hj⟩
            rcases (hiff i j).1 hj with ⟨a1, a2⟩ | ⟨a1, _⟩
            · rcases hch.prime_row_last _ hlast' (i, j) a1 a2 with e | e
              · exact Or.inr e
              · exact Or.inl e
            · exact Or.inl ⟨j, a1⟩
          · rintro (⟨j, hj⟩ | rfl)
            · by_cases hm : (i, j) ∈ p' :: rest'
              · obtain ⟨j', b1, b2⟩ := hch.row_prime (i, j) hm hj
                exact ⟨j', (hiff i j').2 (Or.inl ⟨b2, b1⟩)⟩
              · exact ⟨j, (hiff i j).2 (Or.inr ⟨hj, hm⟩)⟩
            · exact ⟨s.z0c, (hiff _ _).2 (Or.inl ⟨hzmem, h5.z0⟩)⟩
        have hz0n : s.z0r < n := (Prime.lt hshape h5.z0).1
        have hins : starRows n s'.marked = insert s.z0r (starRows n s.marked) := by
          ext i
          rw [Finset.mem_insert, mem_starRows, mem_starRows, hrows i]
          constructor
          · rintro ⟨hi, hj | rfl⟩
            · exact Or.inr ⟨hi, hj⟩
            · exact Or.inl rfl
          · rintro (rfl | ⟨hi, hj⟩)
            · exact ⟨hz0n, Or.inr rfl⟩
            · exact ⟨hi, Or.inl hj⟩
        have hnot : s.z0r ∉ starRows n s.marked := by
          rw [mem_starRows]
          rintro ⟨_, j, hj⟩
          exact h5.z0row j hj
        rw [hins, Finset.card_insert_of_notMem hnot]
  · rw [if_neg h0] at hrun
    simp at hrun

end QcelVerif.Munkres
