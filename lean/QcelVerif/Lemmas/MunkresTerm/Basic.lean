import QcelVerif.Lemmas.MunkresInv2
import Mathlib.Data.Finset.Card
import Mathlib.Data.Finset.Range
import Mathlib.Tactic.Linarith
/-!
C14 — termination of the Munkres model, part 1: the quantities that make progress.

* `starRows n M` — the rows (below `n`) that hold a star; `_step5` adds exactly one;
* `covRows n s` — the covered rows; every continuing pass of the `while` of `_step4` adds one;
* `UncZero s` — there is an uncovered zero (holds after `_step6`, so the next `_step4` makes progress).
-/
namespace QcelVerif.Munkres
open QcelVerif.Assign

open Classical in
/-- the rows `i < n` that hold a star -/
noncomputable def starRows (n : Nat) (M : Mat Nat) : Finset Nat :=
  (Finset.range n).filter (fun i => ∃ j, Star M i j)

open Classical in
/-- the covered rows `i < n` -/
noncomputable def covRows (n : Nat) (s : State) : Finset Nat :=
  (Finset.range n).filter (fun i => ¬ RU s i)

/-- some zero of `C` lies in an uncovered row and an uncovered column -/
def UncZero (s : State) : Prop := ∃ i j, get2 s.C i j = 0 ∧ RU s i ∧ CU s j

theorem mem_starRows {n : Nat} {M : Mat Nat} {i : Nat} :
    i ∈ starRows n M ↔ i < n ∧ ∃ j, Star M i j := by
  classical
  simp [starRows]

theorem mem_covRows {n : Nat} {s : State} {i : Nat} : i ∈ covRows n s ↔ i < n ∧ ¬ RU s i := by
  classical
  simp [covRows]

theorem starRows_card_le (n : Nat) (M : Mat Nat) : (starRows n M).card ≤ n := by
  classical
  have := Finset.card_filter_le (Finset.range n) (fun i => ∃ j, Star M i j)
  simpa [starRows] using this

theorem covRows_card_le (n : Nat) (s : State) : (covRows n s).card ≤ n := by
  classical
  have := Finset.card_filter_le (Finset.range n) (fun i => ¬ RU s i)
  simpa [covRows] using this

theorem starRows_congr {n : Nat} {M M' : Mat Nat} (h : ∀ i j, Star M' i j ↔ Star M i j) :
    starRows n M' = starRows n M := by
  ext i
  simp only [mem_starRows]
  constructor
  · rintro ⟨hi, j, hj⟩; exact ⟨hi, j, (h i j).1 hj⟩
  · rintro ⟨hi, j, hj⟩; exact ⟨hi, j, (h i j).2 hj⟩

end QcelVerif.Munkres
