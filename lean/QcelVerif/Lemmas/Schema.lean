import QcelVerif.Model.Schema
/-! Helper lemmas for C09 (a): association lists, monotonicity of the fuelled validator. -/
namespace QcelVerif.Schema

theorem assoc_map {α β : Type} (key : α → String) (val : α → β) (k : String) :
    ∀ l : List α, assoc k (l.map fun a => (key a, val a)) = (l.find? (fun a => k = key a)).map val
  | [] => rfl
  | a :: t => by
    simp only [List.map_cons, assoc, List.find?_cons]
    by_cases h : k = key a
    · simp [h]
    · simp [h, assoc_map key val k t]

theorem assoc_defsOf (Δ : Env) (name : String) :
    assoc name (defsOf Δ) = (lookupDecl Δ name).map declSchema := by
  unfold defsOf lookupDecl
  exact assoc_map Decl.name declSchema name Δ

theorem all_mono {α : Type} {p q : α → Bool} (l : List α) (h : ∀ a, p a = true → q a = true) :
    l.all p = true → l.all q = true := by
  intro hp
  rw [List.all_eq_true] at hp ⊢
  exact fun a ha => h a (hp a ha)

theorem any_mono {α : Type} {p q : α → Bool} (l : List α) (h : ∀ a, p a = true → q a = true) :
    l.any p = true → l.any q = true := by
  intro hp
  rw [List.any_eq_true] at hp ⊢
  obtain ⟨a, ha, hpa⟩ := hp
  exact ⟨a, ha, h a hpa⟩

section mono
variable {rec rec' : Schema → Json → Bool} (hrec : ∀ s j, rec s j = true → rec' s j = true)
include hrec

theorem allZip_mono : ∀ (ts : List Schema) (xs : List Json),
    allZip rec ts xs = true → allZip rec' ts xs = true
  | [], _ => by intro _; simp [allZip]
  | _ :: _, [] => by intro _; simp [allZip]
  | t :: ts, x :: xs => by
    simp only [allZip, Bool.and_eq_true]
    exact fun ⟨h1, h2⟩ => ⟨hrec _ _ h1, allZip_mono ts xs h2⟩

theorem chkItems_mono (s : Schema) (j : Json) : chkItems rec s j = true → chkItems rec' s j = true := by
  unfold chkItems
  cases j <;> try exact id
  rename_i xs
  simp only [Bool.and_eq_true]
  rintro ⟨h1, h2⟩
  refine ⟨?_, ?_⟩
  · cases hi : s.items with
    | none => rfl
    | some it => rw [hi] at h1; exact all_mono xs (fun a => hrec it a) h1
  · cases ht : s.itemsTuple with
    | none => rfl
    | some ts => rw [ht] at h2; exact allZip_mono hrec ts xs h2

theorem chkProp_mono (s : Schema) (kv : String × Json) : chkProp rec s kv = true → chkProp rec' s kv = true := by
  unfold chkProp
  cases assoc kv.1 s.props with
  | some p => exact hrec p kv.2
  | none =>
    simp only [Bool.and_eq_true]
    rintro ⟨h1, h2⟩
    refine ⟨h1, ?_⟩
    cases ha : s.addlSchema with
    | none => rfl
    | some a => rw [ha] at h2; exact hrec a kv.2 h2

theorem chkProps_mono (s : Schema) (j : Json) : chkProps rec s j = true → chkProps rec' s j = true := by
  unfold chkProps
  cases j <;> try exact id
  rename_i kvs
  exact all_mono kvs (chkProp_mono hrec s)

theorem validateStep_mono (defs : List (String × Schema)) (s : Schema) (j : Json) :
    validateStep defs rec s j = true → validateStep defs rec' s j = true := by
  unfold validateStep
  cases s.ref with
  | some r =>
    dsimp only
    cases assoc r defs with
    | none => exact id
    | some d => exact hrec d j
  | none =>
    dsimp only
    simp only [Bool.and_eq_true, Bool.or_eq_true]
    rintro ⟨⟨⟨⟨h1, h2⟩, h3⟩, h4⟩, h5⟩
    refine ⟨⟨⟨⟨h1, ?_⟩, ?_⟩, chkItems_mono hrec s j h4⟩, chkProps_mono hrec s j h5⟩
    · exact all_mono _ (fun a => hrec a j) h2
    · cases h3 with
      | inl h => exact Or.inl h
      | inr h => exact Or.inr (any_mono _ (fun a => hrec a j) h)

end mono

theorem validate_succ (defs : List (String × Schema)) :
    ∀ (n : Nat) (s : Schema) (j : Json), validate defs n s j = true → validate defs (n + 1) s j = true
  | 0, _, _ => by intro h; simp [validate] at h
  | n + 1, s, j => by
    intro h
    show validateStep defs (validate defs (n + 1)) s j = true
    exact validateStep_mono (validate_succ defs n) defs s j h

/-- more fuel never turns an accepted instance into a rejected one -/
theorem validate_mono (defs : List (String × Schema)) {n m : Nat} (h : n ≤ m) (s : Schema) (j : Json) :
    validate defs n s j = true → validate defs m s j = true := by
  induction h with
  | refl => exact id
  | step _ ih => exact fun hv => validate_succ defs _ s j (ih hv)

end QcelVerif.Schema

namespace QcelVerif.Schema

/-! ### list forms of the mutual helper functions -/

theorem emitList_eq_map (Δ : Env) : ∀ xs : List Val, emitList Δ xs = xs.map (emit Δ)
  | [] => by simp [emitList]
  | x :: xs => by simp [emitList, emitList_eq_map Δ xs]

theorem emitKvs_eq_map (Δ : Env) : ∀ kvs : List (String × Val),
    emitKvs Δ kvs = kvs.map (fun kv => (kv.1, emit Δ kv.2))
  | [] => by simp [emitKvs]
  | (k, v) :: t => by simp [emitKvs, emitKvs_eq_map Δ t]

theorem schemaOfList_eq_map : ∀ ts : List Ty, schemaOfList ts = ts.map schemaOf
  | [] => by simp [schemaOfList]
  | t :: ts => by simp [schemaOfList, schemaOfList_eq_map ts]

/-! ### keyword checks that are vacuous when the keyword is absent -/

theorem chkNum_absent (s : Schema) (j : Json) (h1 : s.minimum = none) (h2 : s.maximum = none)
    (h3 : s.multipleOf1 = false) : chkNum s j = true := by
  cases j <;> simp [chkNum, h1, h2, h3, optLe, optGe, optLeQ, optGeQ]

theorem chkArr_absent (s : Schema) (j : Json) (h1 : s.minItems = none) (h2 : s.maxItems = none)
    (h3 : s.uniqueItems = false) : chkArr s j = true := by
  cases j <;> simp [chkArr, h1, h2, h3, optMinLen, optMaxLen]

theorem chkRequired_absent (s : Schema) (j : Json) (h : s.required = []) : chkRequired s j = true := by
  cases j <;> simp [chkRequired, h]

theorem chkItems_absent (rec : Schema → Json → Bool) (s : Schema) (j : Json) (h1 : s.items = none)
    (h2 : s.itemsTuple = none) : chkItems rec s j = true := by
  cases j <;> simp [chkItems, h1, h2]

theorem chkProps_absent (rec : Schema → Json → Bool) (s : Schema) (j : Json) (h1 : s.props = [])
    (h2 : s.addlForbidden = false) (h3 : s.addlSchema = none) : chkProps rec s j = true := by
  cases j <;> simp [chkProps, chkProp, h1, h2, h3, assoc]

theorem chkPattern_absent (s : Schema) (j : Json) (h : s.pattern = none) : chkPattern s j = true := by
  simp [chkPattern, h]

theorem validateStep_empty (defs : List (String × Schema)) (rec : Schema → Json → Bool) (j : Json) :
    validateStep defs rec {} j = true := by
  simp [validateStep, chkType, chkEnum, chkPattern_absent, chkNum_absent, chkArr_absent,
    chkRequired_absent, chkItems_absent, chkProps_absent]

theorem validateStep_allOf1 (defs : List (String × Schema)) (rec : Schema → Json → Bool) (s : Schema) (j : Json)
    (h : rec s j = true) : validateStep defs rec { allOf := [s] } j = true := by
  simp [validateStep, chkType, chkEnum, chkPattern_absent, chkNum_absent, chkArr_absent,
    chkRequired_absent, chkItems_absent, chkProps_absent, h]

theorem validateStep_anyOf (defs : List (String × Schema)) (rec : Schema → Json → Bool) (ss : List Schema) (j : Json)
    (h : ss.any (fun a => rec a j) = true) : validateStep defs rec { anyOf := ss } j = true := by
  simp only [validateStep, chkType, chkEnum, chkPattern_absent, chkNum_absent, chkArr_absent,
    chkRequired_absent, chkItems_absent, chkProps_absent, h, List.all_nil, Bool.and_self, Bool.or_true]

theorem validateStep_ref (defs : List (String × Schema)) (rec : Schema → Json → Bool) (r : String) (d : Schema)
    (j : Json) (hd : assoc r defs = some d) (h : rec d j = true) :
    validateStep defs rec { ref := some r } j = true := by
  simp [validateStep, hd, h]

theorem beq_str_self (s : String) : Json.beq (.str s) (.str s) = true := by
  simp [Json.beq]

theorem enum_contains (vals : List String) (s : String) (h : vals.contains s = true) :
    (vals.map Json.str).any (Json.beq (.str s)) = true := by
  rw [List.any_eq_true]
  refine ⟨.str s, ?_, beq_str_self s⟩
  rw [List.mem_map]
  exact ⟨s, by simpa using h, rfl⟩

theorem validateStep_strEnum (defs : List (String × Schema)) (rec : Schema → Json → Bool)
    (vals : List String) (s : String) (h : vals.contains s = true) :
    validateStep defs rec { type := some .string, enum := some (vals.map Json.str) } (.str s) = true := by
  simp [validateStep, chkType, typeOk, chkEnum, enum_contains vals s h, chkPattern, chkNum, chkArr,
    chkRequired, chkItems, chkProps]

theorem validateStep_dt (defs : List (String × Schema)) (rec : Schema → Json → Bool) (Δ : Env)
    (dt : DT) (x : Val) (h : isDT dt x = true) : validateStep defs rec (dtSchema dt) (emit Δ x) = true := by
  cases dt <;> cases x <;> simp [isDT] at h <;>
    simp [dtSchema, emit, validateStep, chkType, typeOk, chkEnum, chkPattern, chkNum, chkArr,
      chkRequired, chkItems, chkProps, optLe, optGe, optLeQ, optGeQ]

end QcelVerif.Schema
