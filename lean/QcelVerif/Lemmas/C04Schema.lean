import QcelVerif.Lemmas.ReconC06
import QcelVerif.Model.FromArraysSchema
/-!
Helper lemmas for `Props/C04Schema.lean` (nothing here is a property statement): canonical separators,
the fragment pattern through `contiguize`, the stages of `from_arrays` on the arguments `from_schema`
builds from a `to_schema` dictionary.
-/
namespace QcelVerif.FromArrays
open QcelVerif.ChgMult (vfc Rules fullSpec)

theorem feedClue_eq_clueOf (u : Nuc) : feedClue u = clueOf u := rfl

/-! ### canonical separators cut like the original ones -/

theorem pyClamp_natCast_of_le {n k : Nat} (h : k ≤ n) : pyClamp n (k : Int) = k := by
  unfold pyClamp
  have : ¬ ((k : Int) < 0) := by omega
  simp only [this, if_false, Int.toNat_natCast]
  exact Nat.min_eq_left h

theorem pyClamp_idem (n : Nat) (s : Int) : pyClamp n ((pyClamp n s : Nat) : Int) = pyClamp n s :=
  pyClamp_natCast_of_le (pyClamp_le n s)

theorem splitAux_congr {α} (l : List α) : ∀ (ds ds' : List Int),
    ds.map (pyClamp l.length) = ds'.map (pyClamp l.length) → splitAux l ds = splitAux l ds'
  | [], [], _ => rfl
  | [], _ :: _, h => by simp at h
  | _ :: _, [], h => by simp at h
  | [_], [_], _ => rfl
  | [_], _ :: _ :: _, h => by simp at h
  | _ :: _ :: _, [_], h => by simp at h
  | a :: b :: t, a' :: b' :: t', h => by
      simp only [List.map_cons, List.cons.injEq] at h
      obtain ⟨ha, hb, ht⟩ := h
      have ih := splitAux_congr l (b :: t) (b' :: t') (by simp [hb, ht])
      simp only [splitAux, pySlice, ha, hb]
      exact congrArg _ ih

/-- the canonical separators split every array of `nat` entries exactly as the original ones -/
theorem npSplit_canonSeps {α} (l : List α) (n : Nat) (hl : l.length = n) (seps : List Int) :
    npSplit l (canonSeps n seps) = npSplit l seps := by
  subst hl
  unfold npSplit
  apply splitAux_congr
  simp [canonSeps, List.map_map, Function.comp_def, pyClamp_idem]

theorem length_canonSeps (n : Nat) (seps : List Int) : (canonSeps n seps).length = seps.length := by
  simp [canonSeps]

theorem canonSeps_nonneg (n : Nat) (seps : List Int) : ∀ s ∈ canonSeps n seps, 0 ≤ s ∧ s ≤ (n : Int) := by
  intro s hs
  simp only [canonSeps, List.mem_map] at hs
  obtain ⟨s0, _, rfl⟩ := hs
  have := pyClamp_le n s0
  omega

/-- canonical separators are a fixed point of canonicalisation -/
theorem canonSeps_idem (n : Nat) (seps : List Int) : canonSeps n (canonSeps n seps) = canonSeps n seps := by
  simp [canonSeps, List.map_map, Function.comp_def, pyClamp_idem]

/-- non-negative separators that pass the trial split are already canonical -/
theorem canonSeps_of_nonneg (n : Nat) (seps : List Int) (hpos : ∀ s ∈ seps, 0 ≤ s)
    (h : ∀ p ∈ npSplit (List.range n) seps, p ≠ []) : canonSeps n seps = seps := by
  have h2 := (seps_pattern_roundtrip n seps h).2
  have := h2.2 hpos
  rw [h2.1] at this
  exact this

/-! ### the pattern written by `to_schema` through `contiguize` -/

theorem cumsum_pattern (n : Nat) (seps : List Int) (h : ∀ p ∈ npSplit (List.range n) seps, p ≠ []) :
    cumsum 0 ((npSplit (List.range n) seps).map List.length) = seps.map (pyClamp n) ++ [n] := by
  have hd : ∀ d ∈ diffs (((0 : Int) :: (seps ++ [((List.range n).length : Int)])).map (pyClamp (List.range n).length)), d ≠ 0 := by
    rw [← lengths_splitAux]
    intro d hd
    simp only [List.mem_map] at hd
    obtain ⟨p, hp, rfl⟩ := hd
    intro h0
    exact h p hp (List.length_eq_zero_iff.1 h0)
  unfold npSplit
  rw [lengths_splitAux]
  simp only [List.map_cons, pyClamp_zero] at hd ⊢
  rw [cumsum_diffs 0 _ hd]
  simp [List.length_range, pyClamp_self]

theorem contiguize_pattern (n : Nat) (seps : List Int) (b : Inp) (g : List Rat) (rows : List R3)
    (h : ∀ p ∈ npSplit (List.range n) seps, p ≠ [])
    (hg : b.geom = some g) (hrows : rows3 g = some rows) (hlen : rows.length = n)
    (h1 : lenOk n b.elea = true) (h2 : lenOk n b.elez = true) (h3 : lenOk n b.elem = true)
    (h4 : lenOk n b.mass = true) (h5 : lenOk n b.real = true) (h6 : lenOk n b.elbl = true) :
    ∃ cg, contiguize (npSplit (List.range n) seps) b = .ok cg ∧ cg.seps = canonSeps n seps := by
  have hcs := cumsum_pattern n seps h
  have hflat := flatten_npSplit _ _ h
  have hlast : (seps.map (pyClamp n) ++ [n]).getLastD 0 = n := by simp
  have hseps : ((seps.map (pyClamp n) ++ [n]).dropLast).map (fun (k : Nat) => (k : Int)) = canonSeps n seps := by
    simp [canonSeps, List.map_map, Function.comp_def]
  unfold contiguize
  simp only [hcs, hlast, hseps, hg, Option.getD_some, hrows, hlen, hflat, ne_eq, not_true_eq_false, if_false,
    h1, h2, h3, h4, h5, h6, Bool.and_self, if_true]
  split <;> exact ⟨_, rfl, rfl⟩

/-! ### `exportGeom` -/

theorem exportGeom_length (P : SchemaParams) (r : Molrec) : (exportGeom P r).length = r.geom.length := by
  unfold exportGeom
  split <;> simp

theorem exportGeom_bohr (P : SchemaParams) (r : Molrec) (h : r.units = sBohr) : exportGeom P r = r.geom := by
  simp [exportGeom, h]

/-! ### the record's atoms -/

theorem recNucs_of_cols {r : Molrec} {nucs : List Nuc} (h1 : r.elea = nucs.map (·.A)) (h2 : r.elez = nucs.map (·.Z))
    (h3 : r.elem = nucs.map (·.E)) (h4 : r.mass = nucs.map (·.mass)) (h5 : r.real = nucs.map (·.real))
    (h6 : r.elbl = nucs.map (·.label)) : recNucs r = nucs := by
  simp only [recNucs, h1, h2, h3, h4, h5, h6, nucsOf_maps]

theorem length_zeff (elez : List Int) (real : List Bool) (h : real.length = elez.length) :
    (zeff elez real).length = elez.length := by
  simp [zeff, List.length_zipWith, h]

/-- a lower-cased non-empty point-group string passes `validate_and_fill_frame` unchanged -/
theorem frameSymm_of_spec (s : Option (List Char)) (h : ∀ t, s = some t → t ≠ [] ∧ lower t = t) :
    frameSymm s = s := by
  cases s with
  | none => rfl
  | some t =>
    obtain ⟨hne, hl⟩ := h t rfl
    simp only [frameSymm, hl]
    cases t with
    | nil => exact absurd rfl hne
    | cons c t' => simp

/-- `validate_and_fill_geometry` accepts exactly what the invariant's geometry clause says -/
theorem validateGeometry_of_pairwise {tc : Rat} {g : List Rat} {rows : List R3} (hr : rows3 g = some rows)
    (hp : rows.Pairwise (fun p q => ¬ dist2 p q < tc * tc)) : validateGeometry tc g = .ok g := by
  unfold validateGeometry
  rw [hr]
  simp only [(anyTooClose_false_iff tc rows).2 hp]
  rfl

/-- a smaller (non-negative) threshold accepts what a larger one accepted -/
theorem pairwise_tooclose_mono {tc d : Rat} {rows : List R3} (hd : d * d ≤ tc * tc)
    (hp : rows.Pairwise (fun p q => ¬ dist2 p q < tc * tc)) :
    rows.Pairwise (fun p q => ¬ dist2 p q < d * d) := by
  refine hp.imp ?_
  intro p q h hlt
  exact h (by grind)

/-! ### `contiguize`: the atom count it derives, its refusals -/

theorem cumsum_getLastD_cons : ∀ (t : List Nat) (acc k d : Nat),
    (cumsum acc (k :: t)).getLastD d = acc + (k :: t).sum
  | [], acc, k, d => by simp [cumsum]
  | k' :: t', acc, k, d => by
      have ih := cumsum_getLastD_cons t' (acc + k) k' (acc + k)
      simp only [cumsum, List.getLastD_cons] at ih ⊢
      rw [ih]
      simp only [List.sum_cons]
      omega

/-- `nat = vsplt[-1]`: the number of indices listed in the pattern -/
theorem pattern_nat (pat : List (List Nat)) :
    (cumsum 0 (pat.map List.length)).getLastD 0 = pat.flatten.length := by
  cases pat with
  | nil => rfl
  | cons p t =>
    rw [List.map_cons, cumsum_getLastD_cons, List.length_flatten]
    simp

/-- no separators recovered: the pattern has at most one fragment -/
theorem pattern_single_of_seps_empty (pat : List (List Nat))
    (h : (((cumsum 0 (pat.map List.length)).dropLast).map (fun (k : Nat) => (k : Int))).isEmpty = true) :
    pat.flatten = pat.headD [] := by
  match pat, h with
  | [], _ => rfl
  | [p], _ => exact List.append_nil p
  | p :: q :: t, h => exact absurd h (by simp [cumsum])

theorem contiguize_error {pat : List (List Nat)} {b : Inp} {e : Err} (h : contiguize pat b = .error e) :
    e = .validation := by
  unfold contiguize at h
  simp only at h
  repeat' split at h
  all_goals first | (cases h; rfl) | (cases h)

/-- a pattern whose concatenation is not `0, 1, …, nat-1` is refused, whatever the arrays -/
theorem contiguize_refuses_bad_pattern (pat : List (List Nat)) (b : Inp)
    (h : pat.flatten ≠ List.range pat.flatten.length) : contiguize pat b = .error .validation := by
  unfold contiguize
  simp only [pattern_nat]
  split
  · rename_i hc
    have h1 := pattern_single_of_seps_empty pat hc.1
    exact absurd (by rw [← h1] at hc; exact hc.2) h
  · first | rfl | simp only [if_pos h]

/-- what `contiguize` checked about the geometry when it succeeds -/
theorem contiguize_ok_geom {pat : List (List Nat)} {b : Inp} {cg : Contig} (h : contiguize pat b = .ok cg) :
    ∃ rows, rows3 (b.geom.getD []) = some rows ∧ rows.length = pat.flatten.length := by
  unfold contiguize at h
  simp only [pattern_nat] at h
  split at h
  · split at h
    · cases h
    · rename_i rows hr
      split at h
      · cases h
      · rename_i hl
        exact ⟨rows, hr, by simpa using hl⟩
  · split at h
    · cases h
    · split at h
      · cases h
      · rename_i rows hr
        split at h
        · cases h
        · rename_i hl
          exact ⟨rows, hr, by simpa using hl⟩

end QcelVerif.FromArrays
