import QcelVerif.Model.UnoOrderings
import Mathlib.Data.List.Nodup
import Mathlib.Data.List.Basic
import Mathlib.Data.List.Forall2
import Mathlib.Data.List.Perm.Basic
/-!
Helper lemmas for C12's `hungarian_uno` model: the class bookkeeping of `_plausible_atom_orderings`
(`firstSeen`, `positions`, `product`, `assemble` of Model/B787.lean as used by `Uno.candidatesUno`).
-/
namespace QcelVerif.Uno

open QcelVerif.B787 (firstSeen positions product assemble Err)

theorem mem_positions (k i : Nat) (cls : List Nat) : i ∈ positions k cls ↔ i < cls.length ∧ cls[i]? = some k := by
  simp [positions, List.mem_filter, List.mem_range]

theorem nodup_positions (k : Nat) (cls : List Nat) : (positions k cls).Nodup :=
  List.Nodup.filter _ List.nodup_range

/-- the true map sends the reference atoms of class `k` onto the concern atoms of class `k` -/
theorem positions_perm_map (π : Nat → Nat) (ref cur : List Nat) (hlen : cur.length = ref.length)
    (hperm : ((List.range ref.length).map π).Perm (List.range ref.length))
    (hcls : ∀ a, a < ref.length → cur[π a]? = ref[a]?) (k : Nat) :
    (positions k cur).Perm ((positions k ref).map π) := by
  unfold positions
  rw [hlen]
  have h1 := hperm.symm.filter (fun i => cur[i]? == some k)
  rw [List.filter_map] at h1
  refine h1.trans (List.Perm.of_eq ?_)
  congr 1
  apply List.filter_congr
  intro a ha
  simp only [List.mem_range] at ha
  simp [Function.comp, hcls a ha]

/-- `firstSeen` keeps exactly the values that occur -/
theorem mem_firstSeen (a : Nat) (l : List Nat) : a ∈ firstSeen l ↔ a ∈ l := by
  induction l with
  | nil => simp [firstSeen]
  | cons b t ih =>
    simp only [firstSeen, List.mem_cons, List.mem_filter, ih]
    by_cases h : a = b <;> simp [h]

/-- membership in `itertools.product` is component-wise membership -/
theorem mem_product {α : Type} (l : List α) (gs : List (List α)) :
    l ∈ product gs ↔ List.Forall₂ (fun x g => x ∈ g) l gs := by
  induction gs generalizing l with
  | nil => simp [product]
  | cons g gs ih =>
    simp only [product, List.mem_flatMap, List.mem_map]
    constructor
    · rintro ⟨x, hx, r, hr, rfl⟩
      exact List.Forall₂.cons hx ((ih r).1 hr)
    · intro h
      cases h with
      | cons hx hr => exact ⟨_, hx, _, (ih _).2 hr, rfl⟩

theorem map_getElem?_range (l : List Nat) :
    (List.range l.length).map (fun i => l[i]?) = l.map some := by
  apply List.ext_getElem
  · simp
  · intro i h1 h2
    simp at h1
    simp [h1]

/-- a class-preserving bijection of the positions makes the two label lists permutations of each other -/
theorem perm_of_classes (π : Nat → Nat) (ref cur : List Nat) (hlen : cur.length = ref.length)
    (hperm : ((List.range ref.length).map π).Perm (List.range ref.length))
    (hcls : ∀ a, a < ref.length → cur[π a]? = ref[a]?) : cur.Perm ref := by
  have h1 : (cur.map some).Perm (ref.map some) := by
    rw [← map_getElem?_range cur, ← map_getElem?_range ref, hlen]
    have h2 := hperm.map (fun i => cur[i]?)
    rw [List.map_map] at h2
    refine h2.symm.trans (List.Perm.of_eq ?_)
    apply List.map_congr_left
    intro a ha
    simp only [List.mem_range] at ha
    simp [hcls a ha]
  exact (List.map_perm_map_iff (fun _ _ h => Option.some.inj h)).1 h1

theorem zip_map_self (f : Nat → Nat) (l : List Nat) : l.zip (l.map f) = l.map (fun a => (a, f a)) := by
  induction l with
  | nil => rfl
  | cons a t ih => simp [ih]

/-- looking up a key in the graph of a function -/
theorem lookup_map_graph (f : Nat → Nat) (M : List Nat) (i : Nat) (h : i ∈ M) :
    (M.map (fun a => (a, f a))).lookup i = some (f i) := by
  induction M with
  | nil => simp at h
  | cons b t ih =>
    simp only [List.map_cons, List.lookup_cons]
    by_cases hb : i = b
    · subst hb; simp
    · have : (i == b) = false := by simpa using hb
      rw [this]
      rcases List.mem_cons.1 h with h | h
      · exact absurd h hb
      · exact ih h

theorem mapM_option_total (f : Nat → Option Nat) (g : Nat → Nat) (l : List Nat)
    (h : ∀ i ∈ l, f i = some (g i)) : l.mapM f = some (l.map g) := by
  induction l with
  | nil => simp
  | cons a t ih =>
    have h1 := h a (by simp)
    have h2 := ih (fun i hi => h i (by simp [hi]))
    simp [List.mapM_cons, h1, h2]

/-- assembling the per-class images of `π` gives back `π` -/
theorem assemble_classes (π : Nat → Nat) (ref : List Nat) :
    assemble ref.length
      (((firstSeen ref).map (fun k => positions k ref)).zip
        ((firstSeen ref).map (fun k => (positions k ref).map π)))
      = some ((List.range ref.length).map π) := by
  unfold assemble
  simp only [List.zip_map', List.flatMap_map, zip_map_self, ← List.map_flatMap]
  apply mapM_option_total
  intro i hi
  simp only [List.mem_range] at hi
  apply lookup_map_graph
  rw [List.mem_flatMap]
  refine ⟨ref[i], (mem_firstSeen _ _).2 (List.getElem_mem hi), ?_⟩
  rw [mem_positions]
  exact ⟨hi, List.getElem?_eq_getElem hi⟩

/-- If, for every class (in order of first appearance in `ref`), the image under `π` of the class's reference
    positions is one of the orderings `filterUno` produces for that class, then the whole atom map
    `[π 0, π 1, …, π (n-1)]` is one of the candidate orderings `candidatesUno` returns. -/
theorem candidates_of_classes (cut : Rat) (ref cur : List Nat) (reds : List Mat) (π : Nat → Nat)
    (hlen : cur.length = ref.length)
    (hperm : ((List.range ref.length).map π).Perm (List.range ref.length))
    (hcls : ∀ a, a < ref.length → cur[π a]? = ref[a]?)
    (hreds : reds.length = (firstSeen ref).length)
    (hclass : ∀ t (h : t < (firstSeen ref).length) (h' : t < reds.length),
      (positions (firstSeen ref)[t] ref).map π ∈ filterUno cut reds[t] (positions (firstSeen ref)[t] cur)) :
    ∃ L, candidatesUno cut ref cur reds = .ok L ∧ (List.range ref.length).map π ∈ L := by
  have hp : ref.isPerm cur = true :=
    List.isPerm_iff.2 (perm_of_classes π ref cur hlen hperm hcls).symm
  unfold candidatesUno
  simp only [hp, Bool.not_true, Bool.false_eq_true, if_false]
  refine ⟨_, rfl, ?_⟩
  rw [List.mem_filterMap]
  refine ⟨(firstSeen ref).map (fun k => (positions k ref).map π), ?_, assemble_classes π ref⟩
  rw [mem_product, List.forall₂_iff_get]
  refine ⟨by simp [hreds], ?_⟩
  intro i h1 h2
  simp only [List.length_map] at h1
  have h3 : i < reds.length := by omega
  simpa using hclass i h1 h3

end QcelVerif.Uno
