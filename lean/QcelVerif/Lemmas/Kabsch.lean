import QcelVerif.Model.Kabsch
import Mathlib.Tactic.Linarith
/-! Helper lemmas for C12 (not property statements). -/
namespace QcelVerif.Kabsch
variable {K : Type}

section Ring
variable [CommRing K]

theorem quad_Fmat_add (A B : M3 K) (q : Q4 K) :
    quad (Fmat (A.add B)) q = quad (Fmat A) q + quad (Fmat B) q := by
  simp only [quad, Fmat, M3.add]; ring

theorem quad_Fmat_zero (q : Q4 K) : quad (Fmat (M3.zero : M3 K)) q = 0 := by
  simp only [quad, Fmat, M3.zero]; ring

theorem trMul_add (U A B : M3 K) : M3.trMul U (A.add B) = M3.trMul U A + M3.trMul U B := by
  simp only [M3.trMul, M3.add]; ring

/-- one atom pair: `|r − c·(k·U(p))|² = |r|² + k²|p|⁴|c|² − 2k·pᵀF(r⊗c)p`  (no unit-norm assumption) -/
theorem resid_step (k : K) (p : Q4 K) (r c : V3 K) :
    (r.sub (rowMul c (M3.smul k (quatRot p)))).nrm2
      = r.nrm2 + k ^ 2 * p.nrm2 ^ 2 * c.nrm2 - 2 * k * quad (Fmat (outer r c)) p := by
  simp only [V3.nrm2, V3.sub, rowMul, M3.smul, quatRot, Q4.nrm2, quad, Fmat, outer]; ring

/-- the whole list -/
theorem resid_smul_quatRot (k : K) (p : Q4 K) (pairs : List (V3 K × V3 K)) :
    resid (M3.smul k (quatRot p)) pairs
      = sumR2 pairs + k ^ 2 * p.nrm2 ^ 2 * sumC2 pairs - 2 * k * quad (Fmat (cov pairs)) p := by
  induction pairs with
  | nil => simp only [resid, sumR2, sumC2, cov, quad_Fmat_zero]; ring
  | cons h t ih =>
    obtain ⟨r, c⟩ := h
    simp only [resid, sumR2, sumC2, cov, quad_Fmat_add, ih, resid_step]; ring

theorem smul_one_eq (U : M3 K) : M3.smul 1 U = U := by
  ext <;> simp only [M3.smul, one_mul]

/-- 1-D … 4-D quadratic forms used by the pivot test -/
def quad2 (M : S2 K) (a b : K) : K := M.h00 * a ^ 2 + 2 * M.h01 * a * b + M.h11 * b ^ 2

def quad3 (M : S3 K) (a b c : K) : K :=
  M.g00 * a ^ 2 + M.g11 * b ^ 2 + M.g22 * c ^ 2 + 2 * (M.g01 * a * b + M.g02 * a * c + M.g12 * b * c)

theorem elim2 (M : S2 K) (a b : K) :
    M.h00 * quad2 M a b = (M.h00 * a + M.h01 * b) ^ 2 + schur2 M * b ^ 2 := by
  simp only [quad2, schur2]; ring

theorem elim3 (M : S3 K) (a b c : K) :
    M.g00 * quad3 M a b c = (M.g00 * a + M.g01 * b + M.g02 * c) ^ 2 + quad2 (schur3 M) b c := by
  simp only [quad3, quad2, schur3]; ring

theorem elim4 (M : S4 K) (q : Q4 K) :
    M.f00 * quad M q
      = (M.f00 * q.q0 + M.f01 * q.q1 + M.f02 * q.q2 + M.f03 * q.q3) ^ 2 + quad3 (schur4 M) q.q1 q.q2 q.q3 := by
  simp only [quad, quad3, schur4]; ring

theorem quad_shiftNeg (s : K) (F : S4 K) (p : Q4 K) : quad (shiftNeg s F) p = s * p.nrm2 - quad F p := by
  simp only [quad, shiftNeg, Q4.nrm2]; ring

/-- `Σ|x_i − s|² = Σ|x_i − m|² + 2 (m − s)·(Σx_i − n·m) + n·|m − s|²` for any `m`, `s` -/
theorem sum_shift_expand (xs : List (V3 K)) (m s : V3 K) :
    sumNrm2 (xs.map (fun v => v.sub s))
      = sumNrm2 (xs.map (fun v => v.sub m))
        + 2 * (m.sub s).dot ((vsum xs).sub (V3.smul (xs.length : K) m))
        + (xs.length : K) * (m.sub s).nrm2 := by
  induction xs with
  | nil => simp only [List.map, sumNrm2, vsum, List.length, Nat.cast_zero, V3.dot, V3.sub, V3.smul, V3.zero, V3.nrm2]; ring
  | cons v t ih =>
    simp only [List.map, sumNrm2, vsum, List.length, Nat.cast_succ, ih]
    simp only [V3.dot, V3.sub, V3.smul, V3.nrm2, V3.add]; ring

end Ring

section Ordered
variable [Field K] [LinearOrder K] [IsStrictOrderedRing K]

theorem sumC2_nonneg (pairs : List (V3 K × V3 K)) : 0 ≤ sumC2 pairs := by
  induction pairs with
  | nil => simp [sumC2]
  | cons h t ih =>
    obtain ⟨r, c⟩ := h
    simp only [sumC2, V3.nrm2]
    have := mul_self_nonneg c.x; have := mul_self_nonneg c.y; have := mul_self_nonneg c.z
    linarith

theorem nrm2_nonneg (q : Q4 K) : 0 ≤ q.nrm2 := by
  simp only [Q4.nrm2]
  have := sq_nonneg q.q0; have := sq_nonneg q.q1; have := sq_nonneg q.q2; have := sq_nonneg q.q3
  linarith

theorem V3.nrm2_nonneg (v : V3 K) : 0 ≤ v.nrm2 := by
  simp only [V3.nrm2]
  have := mul_self_nonneg v.x; have := mul_self_nonneg v.y; have := mul_self_nonneg v.z
  linarith

theorem posDef2_sound (M : S2 K) (h : posDef2 M = true) (a b : K) : 0 ≤ quad2 M a b := by
  simp only [posDef2, Bool.and_eq_true, decide_eq_true_eq] at h
  obtain ⟨h0, h1⟩ := h
  have e := elim2 M a b
  have : 0 ≤ M.h00 * quad2 M a b := by
    rw [e]; have := sq_nonneg (M.h00 * a + M.h01 * b); have := mul_nonneg h1.le (sq_nonneg b); linarith
  exact le_of_mul_le_mul_left (by simpa using this) h0

theorem posDef3_sound (M : S3 K) (h : posDef3 M = true) (a b c : K) : 0 ≤ quad3 M a b c := by
  simp only [posDef3, Bool.and_eq_true, decide_eq_true_eq] at h
  obtain ⟨h0, h1⟩ := h
  have e := elim3 M a b c
  have : 0 ≤ M.g00 * quad3 M a b c := by
    rw [e]; have := sq_nonneg (M.g00 * a + M.g01 * b + M.g02 * c); have := posDef2_sound _ h1 b c; linarith
  exact le_of_mul_le_mul_left (by simpa using this) h0

end Ordered

end QcelVerif.Kabsch
