import QcelVerif.Model.Munkres
import Mathlib.Tactic.Linarith
import Mathlib.Tactic.Ring
import Mathlib.Algebra.Order.Ring.Rat
/-!
Helper lemmas for C14: the invariant "the working matrix `C` is the cost matrix minus a constant
per row and a constant per column" is preserved by every step of the Munkres model, for any
fuel and any matrix.  (Property theorem `solve_reduced_rowcol` in `Props/C14.lean`.)
-/
namespace QcelVerif.Munkres

/-- `C` has the shape of `cost` and differs from it by a constant per row and a constant per column -/
def PotForm (cost C : Mat Rat) : Prop :=
  C.size = cost.size ∧ (∀ i, (C.getD i #[]).size = (cost.getD i #[]).size) ∧
  ∃ u v : Nat → Rat, ∀ i j, i < C.size → j < (C.getD i #[]).size → get2 C i j = get2 cost i j - u i - v j

theorem potForm_refl (cost : Mat Rat) : PotForm cost cost :=
  ⟨rfl, fun _ => rfl, fun _ => 0, fun _ => 0, fun i j _ _ => by simp⟩

theorem get2_map_rows (M : Mat Rat) (g : Array Rat → Rat → Rat) (i j : Nat) (hi : i < M.size)
    (hj : j < (M.getD i #[]).size) :
    get2 (M.map fun r => r.map (g r)) i j = g (M.getD i #[]) (get2 M i j) := by
  simp [Array.getD, hi] at hj
  simp [get2, Array.getD, hi, hj]

theorem get2_mapIdx (M : Mat Rat) (F : Nat → Nat → Rat → Rat) (i j : Nat) (hi : i < M.size)
    (hj : j < (M.getD i #[]).size) :
    get2 (M.mapIdx fun i r => r.mapIdx fun j x => F i j x) i j = F i j (get2 M i j) := by
  simp [Array.getD, hi] at hj
  simp [get2, Array.getD, hi, hj]

theorem getD_map_size (M : Mat Rat) (g : Array Rat → Rat → Rat) (i : Nat) :
    ((M.map fun r => r.map (g r)).getD i #[]).size = (M.getD i #[]).size := by
  by_cases hi : i < M.size <;> simp [Array.getD, hi]

theorem getD_mapIdx_size (M : Mat Rat) (F : Nat → Nat → Rat → Rat) (i : Nat) :
    ((M.mapIdx fun i r => r.mapIdx fun j x => F i j x).getD i #[]).size = (M.getD i #[]).size := by
  by_cases hi : i < M.size <;> simp [Array.getD, hi]

/-- `_step1`: subtracting each row's minimum changes the row constants only -/
theorem step1_pot (cost : Mat Rat) (s : State) (h : PotForm cost s.C) : PotForm cost (step1 s).1.C := by
  have hC : (step1 s).1.C = s.C.map fun r => r.map (fun x => x - rowMin r) := by simp [step1, clearCovers]
  obtain ⟨h1, h2, u, v, huv⟩ := h
  rw [hC]
  refine ⟨by simpa using h1, fun i => by rw [getD_map_size (g := fun r x => x - rowMin r)]; exact h2 i,
    fun i => u i + rowMin (s.C.getD i #[]), v, ?_⟩
  intro i j hi hj
  have hi' : i < s.C.size := by simpa using hi
  rw [getD_map_size (g := fun r x => x - rowMin r)] at hj
  rw [get2_map_rows s.C (fun r x => x - rowMin r) i j hi' hj, huv i j hi' hj]
  ring

/-- `_step6`: `+ minval` on covered rows, `− minval` on uncovered columns — whatever `minval` is -/
theorem step6_pot (cost : Mat Rat) (s : State) (h : PotForm cost s.C) : PotForm cost (step6 s).1.C := by
  unfold step6
  split
  · obtain ⟨h1, h2, u, v, huv⟩ := h
    simp only
    generalize rowMin _ = mv
    refine ⟨by simpa using h1, fun i => by rw [getD_mapIdx_size]; exact h2 i,
      fun i => u i - (if s.rowUnc.getD i false then 0 else mv), fun j => v j + (if s.colUnc.getD j false then mv else 0), ?_⟩
    intro i j hi hj
    have hi' : i < s.C.size := by simpa using hi
    rw [getD_mapIdx_size] at hj
    rw [get2_mapIdx s.C _ i j hi' hj, huv i j hi' hj]
    by_cases hr : s.rowUnc.getD i false = true <;> by_cases hc : s.colUnc.getD j false = true <;>
      simp [hr, hc] <;> ring
  · exact h

/-- `_step4` never writes to `C` -/
theorem step4Loop_C : ∀ (f : Nat) (Cz cov : Mat Nat) (s s' : State) (nx : Option Step),
    step4Loop f Cz cov s = .ok (s', nx) → s'.C = s.C
  | 0, _, _, _, _, _, h => by simp [step4Loop] at h
  | f + 1, Cz, cov, s, s', nx, h => by
    unfold step4Loop at h
    simp only at h
    split at h
    · simp only [Except.ok.injEq, Prod.mk.injEq] at h; rw [← h.1]
    · split at h
      · simp only [Except.ok.injEq, Prod.mk.injEq] at h; rw [← h.1]
      · have := step4Loop_C f _ _ _ _ _ h
        simpa using this

theorem step4_C (s s' : State) (nx : Option Step) (h : step4 s = .ok (s', nx)) : s'.C = s.C :=
  step4Loop_C _ _ _ _ _ _ h

/-- `_step5` never writes to `C` -/
theorem step5_C (s s' : State) (nx : Option Step) (h : step5 s = .ok (s', nx)) : s'.C = s.C := by
  unfold step5 at h
  simp only [bind, Except.bind, pure, Except.pure] at h
  split at h
  · simp at h
  · split at h
    · simp at h
    · simp only [Except.ok.injEq, Prod.mk.injEq] at h
      rw [← h.1]
      simp [clearCovers]

theorem doStep_pot (cost : Mat Rat) (st : Step) (s s' : State) (nx : Option Step)
    (h : doStep st s = .ok (s', nx)) (hp : PotForm cost s.C) : PotForm cost s'.C := by
  cases st <;> simp only [doStep, Except.ok.injEq] at h
  · have : s' = (step1 s).1 := by rw [h]
    rw [this]; exact step1_pot cost s hp
  · have : s' = (step3 s).1 := by rw [h]
    rw [this]; simpa [step3] using hp
  · rw [step4_C s s' nx h]; exact hp
  · rw [step5_C s s' nx h]; exact hp
  · have : s' = (step6 s).1 := by rw [h]
    rw [this]; exact step6_pot cost s hp

/-- the invariant survives any number of steps -/
theorem runSteps_pot (cost : Mat Rat) : ∀ (f : Nat) (st : Step) (s : State) (tr : Array (Step × State))
    (s' : State) (tr' : Array (Step × State)),
    runSteps f st s tr = .ok (s', tr') → PotForm cost s.C → PotForm cost s'.C
  | 0, _, _, _, _, _, h, _ => by simp [runSteps] at h
  | f + 1, st, s, tr, s', tr', h, hp => by
    unfold runSteps at h
    split at h
    · simp at h
    · rename_i s1 nx hd
      have hp1 := doStep_pot cost st s s1 nx hd hp
      simp only at h
      split at h
      · simp only [Except.ok.injEq, Prod.mk.injEq] at h
        rw [← h.1]; exact hp1
      · exact runSteps_pot cost f _ _ _ _ _ h hp1

theorem solveWide_pot (n m : Nat) (cost : Mat Rat) (s : State) (tr : Array (Step × State))
    (h : solveWide n m cost = .ok (s, tr)) : PotForm cost s.C := by
  unfold solveWide at h
  simp only at h
  split at h
  · simp only [Except.ok.injEq, Prod.mk.injEq] at h
    rw [← h.1]
    exact potForm_refl cost
  · exact runSteps_pot cost _ _ _ _ _ _ h (potForm_refl cost)

/-- entry `[j][i]` of `transpose n m M` is entry `[i][j]` of `M` -/
theorem get2_transpose (n m : Nat) (M : Mat Rat) (i j : Nat) (hi : i < n) (hj : j < m) :
    get2 (transpose n m M) j i = get2 M i j := by
  simp [transpose, get2, Array.getD, hi, hj]

theorem transpose_size (n m : Nat) (M : Mat Rat) : (transpose n m M).size = m := by
  simp [transpose]

theorem transpose_row_size (n m : Nat) (M : Mat Rat) (j : Nat) (hj : j < m) :
    ((transpose n m M).getD j #[]).size = n := by
  simp [transpose, Array.getD, hj]

end QcelVerif.Munkres
