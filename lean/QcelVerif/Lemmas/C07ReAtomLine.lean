import QcelVerif.Lemmas.C07ReAtomShapes
import QcelVerif.Lemmas.C07ReChgmult
/-!
C07 — atom lines, generic in the nucleus pattern: for a nucleus AST `N` whose extent at the start of a line is the hand predicate `P`
(`NucExtFor N P`), the line pattern `\A (N) SEP (NUMBER) SEP (NUMBER) SEP (NUMBER) \Z` matched by the engine, read through the
groups nucleus / x / y / z, equals M1's view: the line splits at separator runs into exactly four fields, the first accepted by `P`,
the others by `isNumber`.
-/
namespace QcelVerif.MolText
open QcelVerif.Regex QcelVerif.Gen

/-- M1's atom-line recogniser with the nucleus predicate as a parameter -/
def lineHand (P : Str → Bool) (s : Str) : Option (Str × Str × Str × Str) :=
  match splitSep s with
  | [n, x, y, z] => if P n && isNumber x && isNumber y && isNumber z then some (n, x, y, z) else none
  | _ => none

/-! ## `splitSep` inverted -/

theorem splitSep_cons2 {s a b : Str} {rest : List Str} (h : splitSep s = a :: b :: rest) :
    a = chgTok s ∧ afterTok s ≠ [] ∧ splitSep (afterSepS s) = b :: rest := by
  rw [splitSep_unfold s] at h
  by_cases h2 : s.dropWhile nsep = []
  · simp [h2] at h
  · simp only [h2, if_false, List.cons.injEq] at h
    exact ⟨h.1.symm, h2, h.2⟩

theorem splitSep_single {s a : Str} (h : splitSep s = [a]) : a = s ∧ ∀ c ∈ s, isSep c = false := by
  rw [splitSep_unfold s] at h
  by_cases h2 : s.dropWhile nsep = []
  · simp only [h2, if_true, List.cons.injEq, and_true] at h
    have hs : s.takeWhile nsep = s := by
      have := List.takeWhile_append_dropWhile (p := nsep) (l := s)
      rw [h2, List.append_nil] at this
      exact this
    refine ⟨by rw [← h, hs], ?_⟩
    intro c hc
    rw [← hs] at hc
    have := List.all_eq_true.mp List.all_takeWhile c hc
    simpa [nsep] using this
  · simp only [h2, if_false, List.cons.injEq] at h
    exact absurd h.2 (splitSep_ne_nil _)

/-- four fields: the line is field, separator run, field, separator run, field, separator run, field -/
theorem splitSep_four {s n x y z : Str} (h : splitSep s = [n, x, y, z]) :
    ∃ sp1 sp2 sp3, s = n ++ sp1 ++ (x ++ sp2 ++ (y ++ sp3 ++ z)) ∧ SepOk sp1 ∧ SepOk sp2 ∧ SepOk sp3 ∧
      (∀ c ∈ n, isSep c = false) ∧ (∀ c ∈ x, isSep c = false) ∧ (∀ c ∈ y, isSep c = false) ∧ (∀ c ∈ z, isSep c = false) := by
  obtain ⟨e1, h1, k1⟩ := splitSep_cons2 h
  obtain ⟨e2, h2, k2⟩ := splitSep_cons2 k1
  obtain ⟨e3, h3, k3⟩ := splitSep_cons2 k2
  obtain ⟨e4, h4⟩ := splitSep_single k3
  have nsepAll : ∀ u : Str, ∀ c ∈ chgTok u, isSep c = false := by
    intro u c hc
    have := List.all_eq_true.mp (List.all_takeWhile (p := nsep) (l := u)) c hc
    simpa [nsep] using this
  refine ⟨sepRun s, sepRun (afterSepS s), sepRun (afterSepS (afterSepS s)), ?_, ⟨sepRun_ne_nil h1, sepRun_all _⟩,
    ⟨sepRun_ne_nil h2, sepRun_all _⟩, ⟨sepRun_ne_nil h3, sepRun_all _⟩, e1 ▸ nsepAll s, e2 ▸ nsepAll _, e3 ▸ nsepAll _, e4 ▸ h4⟩
  have d1 := decomp_s s
  have d2 := decomp_s (afterSepS s)
  have d3 := decomp_s (afterSepS (afterSepS s))
  rw [e1, e2, e3, e4]
  rw [← d3, ← d2]
  exact d1

theorem splitSep_of_four {n x y z sp1 sp2 sp3 : Str} (hn : TokOk n) (hx : TokOk x) (hy : TokOk y) (hz : TokOk z)
    (h1 : SepOk sp1) (h2 : SepOk sp2) (h3 : SepOk sp3) :
    splitSep (n ++ sp1 ++ (x ++ sp2 ++ (y ++ sp3 ++ z))) = [n, x, y, z] := by
  have := tokens_roundtrip n [(sp1, x), (sp2, y), (sp3, z)] hn (by
    intro p hp
    simp only [List.mem_cons, List.not_mem_nil, or_false] at hp
    rcases hp with rfl | rfl | rfl
    · exact ⟨h1, hx⟩
    · exact ⟨h2, hy⟩
    · exact ⟨h3, hz⟩)
  simpa [joinToks] using this

/-! ## regex side: SEP (NUMBER) steps -/

/-- the state after `SEP (?P<g>(NUMBER))` from `m`: separator run `sp`, token `t`, rest `r`; groups `g` and `g+1` hold the token -/
def numEnd (g : Nat) (m : St) (sp t r : Str) : St :=
  St.capture g (m.adv (toBytes sp) (toBytes (t ++ r)))
    (St.capture (g + 1) (m.adv (toBytes sp) (toBytes (t ++ r))) ((m.adv (toBytes sp) (toBytes (t ++ r))).adv (toBytes t) (toBytes r)))

@[simp] theorem numEnd_rest (g : Nat) (m : St) (sp t r : Str) : (numEnd g m sp t r).rest = toBytes r := rfl

theorem numEnd_caps (g : Nat) (m : St) (sp t r : Str) :
    (numEnd g m sp t r).caps = (g, toBytes t) :: (g + 1, toBytes t) :: m.caps := by
  simp [numEnd, takeDiff_append']

theorem sepnum_mem (g : Nat) (K : Re) (r0 : Str) (m x : St) (hm : m.rest = toBytes r0) :
    x ∈ (Re.seq sepPlus (.seq (.group g (.group (g + 1) numberBodyI)) K)).ms m ↔
      ∃ sp t r, r0 = sp ++ (t ++ r) ∧ SepOk sp ∧ isNumber t = true ∧ x ∈ K.ms (numEnd g m sp t r) := by
  rw [mem_ms_seq]
  constructor
  · rintro ⟨m2, hm2, hx⟩
    rw [sepPlus, plus_mem_str cls_sep r0 m _ hm] at hm2
    obtain ⟨sp, r1, hsp0, rfl, hsp, rfl⟩ := hm2
    rw [mem_ms_seq] at hx
    obtain ⟨m3, hm3, hx⟩ := hx
    rw [mem_ms_group] at hm3
    obtain ⟨m4, hm4, rfl⟩ := hm3
    rw [mem_ms_group] at hm4
    obtain ⟨m5, hm5, rfl⟩ := hm4
    rw [numberBodyI_mem r1 _ _ rfl] at hm5
    obtain ⟨t, r, rfl, ht, rfl⟩ := hm5
    exact ⟨sp, t, r, rfl, ⟨hsp0, hsp⟩, ht, hx⟩
  · rintro ⟨sp, t, r, rfl, ⟨hsp0, hsp⟩, ht, hx⟩
    refine ⟨m.adv (toBytes sp) (toBytes (t ++ r)), ?_, ?_⟩
    · rw [sepPlus, plus_mem_str cls_sep _ m _ hm]
      exact ⟨sp, t ++ r, hsp0, rfl, hsp, rfl⟩
    · rw [mem_ms_seq]
      refine ⟨numEnd g m sp t r, ?_, hx⟩
      rw [mem_ms_group]
      refine ⟨_, ?_, rfl⟩
      rw [mem_ms_group]
      refine ⟨_, ?_, rfl⟩
      rw [numberBodyI_mem (t ++ r) _ _ rfl]
      exact ⟨t, r, rfl, ht, rfl⟩

/-- the final state of the Cartesian tail -/
def cartEnd (gx gy gz : Nat) (m : St) (sp1 x sp2 y sp3 z : Str) : St :=
  numEnd gz (numEnd gy (numEnd gx m sp1 x (sp2 ++ (y ++ (sp3 ++ (z ++ [])))) ) sp2 y (sp3 ++ (z ++ []))) sp3 z []

theorem cartTail_mem (gx gy gz : Nat) (r0 : Str) (m w : St) (hm : m.rest = toBytes r0) :
    w ∈ (cartTail gx gy gz).ms m ↔
      ∃ sp1 x sp2 y sp3 z, r0 = sp1 ++ (x ++ (sp2 ++ (y ++ (sp3 ++ z)))) ∧ SepOk sp1 ∧ isNumber x = true ∧ SepOk sp2 ∧
        isNumber y = true ∧ SepOk sp3 ∧ isNumber z = true ∧ w = cartEnd gx gy gz m sp1 x sp2 y sp3 z := by
  unfold cartTail
  rw [sepnum_mem gx _ r0 m w hm]
  constructor
  · rintro ⟨sp1, x, r1, rfl, h1, hx, hw⟩
    rw [sepnum_mem gy _ r1 _ w (numEnd_rest _ _ _ _ _)] at hw
    obtain ⟨sp2, y, r2, rfl, h2, hy, hw⟩ := hw
    rw [sepnum_mem gz _ r2 _ w (numEnd_rest _ _ _ _ _)] at hw
    obtain ⟨sp3, z, r3, rfl, h3, hz, hw⟩ := hw
    rw [mem_ms_eos] at hw
    obtain ⟨hr3, rfl⟩ := hw
    have : r3 = [] := toBytes_eq_nil.mp hr3
    subst this
    exact ⟨sp1, x, sp2, y, sp3, z, by simp, h1, hx, h2, hy, h3, hz, rfl⟩
  · rintro ⟨sp1, x, sp2, y, sp3, z, rfl, h1, hx, h2, hy, h3, hz, rfl⟩
    refine ⟨sp1, x, sp2 ++ (y ++ (sp3 ++ (z ++ []))), by simp, h1, hx, ?_⟩
    rw [sepnum_mem gy _ _ _ _ (numEnd_rest _ _ _ _ _)]
    refine ⟨sp2, y, sp3 ++ (z ++ []), rfl, h2, hy, ?_⟩
    rw [sepnum_mem gz _ _ _ _ (numEnd_rest _ _ _ _ _)]
    refine ⟨sp3, z, [], rfl, h3, hz, ?_⟩
    rw [mem_ms_eos]
    exact ⟨rfl, rfl⟩

theorem cartEnd_caps (gx gy gz : Nat) (m : St) (sp1 x sp2 y sp3 z : Str) :
    (cartEnd gx gy gz m sp1 x sp2 y sp3 z).caps =
      (gz, toBytes z) :: (gz + 1, toBytes z) :: (gy, toBytes y) :: (gy + 1, toBytes y) :: (gx, toBytes x) :: (gx + 1, toBytes x) :: m.caps := by
  simp only [cartEnd, numEnd_caps]

/-! ## the line theorem -/

theorem isNumber_tokOk {t : Str} (h : isNumber t = true) : TokOk t := ⟨isNumber_ne_nil h, isNumber_no_sep h⟩

theorem lineHand_some (P : Str → Bool) {s n x y z : Str} (hs : splitSep s = [n, x, y, z]) (hn : P n = true)
    (hx : isNumber x = true) (hy : isNumber y = true) (hz : isNumber z = true) : lineHand P s = some (n, x, y, z) := by
  simp [lineHand, hs, hn, hx, hy, hz]

theorem lineHand_inv (P : Str → Bool) {s : Str} {v : Str × Str × Str × Str} (h : lineHand P s = some v) :
    splitSep s = [v.1, v.2.1, v.2.2.1, v.2.2.2] ∧ P v.1 = true ∧ isNumber v.2.1 = true ∧ isNumber v.2.2.1 = true ∧
      isNumber v.2.2.2 = true := by
  unfold lineHand at h
  split at h
  · rename_i n x y z hs
    split at h
    · rename_i hc
      simp only [Bool.and_eq_true] at hc
      injection h with h
      subst h
      exact ⟨hs, hc.1.1.1, hc.1.1.2, hc.1.2, hc.2⟩
    · simp at h
  · simp at h

/-- the group numbers of the coordinates are apart from each other and from the nucleus group 1 -/
def GroupsApart (gx gy gz : Nat) : Prop :=
  (gy == gz) = false ∧ (gy == gz + 1) = false ∧ (gx == gz) = false ∧ (gx == gz + 1) = false ∧ (gx == gy) = false ∧
  (gx == gy + 1) = false ∧ (1 == gz) = false ∧ (1 == gz + 1) = false ∧ (1 == gy) = false ∧ (1 == gy + 1) = false ∧
  (1 == gx) = false ∧ (1 == gx + 1) = false

theorem cartEnd_groups (gx gy gz : Nat) (hg : GroupsApart gx gy gz) (m : St) (sp1 x sp2 y sp3 z : Str) (t : Str)
    (hm : m.group 1 = some (toBytes t)) :
    atomGroups (cartEnd gx gy gz m sp1 x sp2 y sp3 z) 1 gx gy gz = some (t, x, y, z) := by
  obtain ⟨h1, h2, h3, h4, h5, h6, h7, h8, h9, h10, h11, h12⟩ := hg
  have hm' : m.caps.lookup 1 = some (toBytes t) := hm
  simp [atomGroups, grp, St.group, cartEnd_caps, List.lookup, h1, h2, h3, h4, h5, h6, h7, h8, h9, h10, h11, h12, hm', ofBytes_toBytes]

theorem atomLine_eq (N : Re) (P : Str → Bool) (gx gy gz : Nat) (hN : NucExtFor N P)
    (hPsep : ∀ t, P t = true → ∀ c ∈ t, isSep c = false) (hPne : ∀ t, P t = true → t ≠ [])
    (hg : GroupsApart gx gy gz) (s : Str) :
    ((atomLineRe N gx gy gz).matchPrefix (toBytes s)).bind (fun st => atomGroups st 1 gx gy gz) = lineHand P s := by
  rw [matchPrefix_eq_head]
  have hmem : ∀ w, w ∈ (atomLineRe N gx gy gz).ms (St.init (toBytes s)) ↔
      ∃ m, m ∈ (Re.group 1 N).ms (St.init (toBytes s)) ∧ w ∈ (cartTail gx gy gz).ms m := by
    intro w
    unfold atomLineRe
    rw [mem_ms_seq]
    simp only [mem_ms_bos]
    constructor
    · rintro ⟨m0, ⟨_, rfl⟩, hw⟩; exact mem_ms_seq.mp hw
    · rintro ⟨m, hm, hw⟩; exact ⟨_, ⟨rfl, rfl⟩, mem_ms_seq.mpr ⟨m, hm, hw⟩⟩
  -- soundness: every way to match projects to M1's answer
  have hA : ∀ w ∈ (atomLineRe N gx gy gz).ms (St.init (toBytes s)), atomGroups w 1 gx gy gz = lineHand P s := by
    intro w hw
    obtain ⟨m, hm, hw⟩ := (hmem w).mp hw
    obtain ⟨t, r, hs, hP, hr, hg1⟩ := (hN s).1 m hm
    rw [cartTail_mem gx gy gz r m w hr] at hw
    obtain ⟨sp1, x, sp2, y, sp3, z, rfl, h1, hx, h2, hy, h3, hz, rfl⟩ := hw
    have hsplit : splitSep s = [t, x, y, z] := by
      have := splitSep_of_four (n := t) ⟨hPne t hP, hPsep t hP⟩ (isNumber_tokOk hx) (isNumber_tokOk hy) (isNumber_tokOk hz) h1 h2 h3
      rw [hs]
      simpa [List.append_assoc] using this
    rw [lineHand_some P hsplit hP hx hy hz]
    exact cartEnd_groups gx gy gz hg m sp1 x sp2 y sp3 z t hg1
  -- completeness: when M1 answers, there is a way to match
  have hB : (atomLineRe N gx gy gz).ms (St.init (toBytes s)) = [] → lineHand P s = none := by
    intro hnil
    cases hl : lineHand P s with
    | none => rfl
    | some v =>
      exfalso
      obtain ⟨hs, hP, hx, hy, hz⟩ := lineHand_inv P hl
      obtain ⟨sp1, sp2, sp3, hdec, h1, h2, h3, _, _, _, _⟩ := splitSep_four hs
      obtain ⟨m, hm, hr⟩ := (hN s).2 v.1 (sp1 ++ (v.2.1 ++ (sp2 ++ (v.2.2.1 ++ (sp3 ++ v.2.2.2))))) (by rw [hdec]; simp [List.append_assoc]) hP
      have hw : cartEnd gx gy gz m sp1 v.2.1 sp2 v.2.2.1 sp3 v.2.2.2 ∈ (cartTail gx gy gz).ms m :=
        (cartTail_mem gx gy gz _ m _ hr).mpr ⟨sp1, v.2.1, sp2, v.2.2.1, sp3, v.2.2.2, rfl, h1, hx, h2, hy, h3, hz, rfl⟩
      have := (hmem _).mpr ⟨m, hm, hw⟩
      rw [hnil] at this
      simp at this
  cases hl : (atomLineRe N gx gy gz).ms (St.init (toBytes s)) with
  | nil => simp [hB hl]
  | cons w l' =>
    have := hA w (by rw [hl]; simp)
    simp [this]

/-! ## M1's `classify … = .atom` is `lineHand isNucleus` -/

theorem classifyRest_ne_atom (s n : Str) (x y z : NumParts) : classifyRest s ≠ .atom n x y z := by
  intro h
  unfold classifyRest at h
  dsimp only at h
  split at h
  · cases h
  split at h
  · cases h
  split at h
  · cases h
  split at h
  · cases h
  split at h
  · cases h
  split at h
  · cases h
  split at h
  · split at h <;> cases h
  · split at h
    · split at h <;> cases h
    · cases h
  · cases h

theorem classify_atom_iff (s n : Str) (px py pz : NumParts) :
    classify s = .atom n px py pz ↔
      s ≠ [] ∧ ∃ x y z, splitSep s = [n, x, y, z] ∧ (parseNucleus n).isSome = true ∧ parseNumber x = some px ∧
        parseNumber y = some py ∧ parseNumber z = some pz := by
  unfold classify
  by_cases hs : s = []
  · subst hs; simp
  · have hse : s.isEmpty = false := by simpa [List.isEmpty_iff] using hs
    simp only [hse, Bool.false_eq_true, if_false, ne_eq, hs, not_false_eq_true, true_and]
    generalize splitSep s = T
    rcases T with _ | ⟨a, _ | ⟨b, _ | ⟨c, _ | ⟨d, _ | ⟨e, T⟩⟩⟩⟩⟩
    · simp [classifyRest_ne_atom]
    · simp [classifyRest_ne_atom]
    · simp only [List.cons.injEq, reduceCtorEq, and_false, false_and, exists_false, iff_false]
      split
      · split <;> simp [classifyRest_ne_atom]
      · simp [classifyRest_ne_atom]
    · simp [classifyRest_ne_atom]
    · simp only [List.cons.injEq, and_true]
      cases h1 : parseNucleus a with
      | none =>
        simp only [classifyRest_ne_atom, false_iff]
        rintro ⟨x, y, z, ⟨rfl, rfl, rfl, rfl⟩, e1, _, _, _⟩
        simp [h1] at e1
      | some v1 =>
        cases h2 : parseNumber b with
        | none =>
          simp only [classifyRest_ne_atom, false_iff]
          rintro ⟨x, y, z, ⟨rfl, rfl, rfl, rfl⟩, _, e2, _, _⟩
          simp [h2] at e2
        | some v2 =>
          cases h3 : parseNumber c with
          | none =>
            simp only [classifyRest_ne_atom, false_iff]
            rintro ⟨x, y, z, ⟨rfl, rfl, rfl, rfl⟩, _, _, e3, _⟩
            simp [h3] at e3
          | some v3 =>
            cases h4 : parseNumber d with
            | none =>
              simp only [classifyRest_ne_atom, false_iff]
              rintro ⟨x, y, z, ⟨rfl, rfl, rfl, rfl⟩, _, _, _, e4⟩
              simp [h4] at e4
            | some v4 =>
              simp only [Line.atom.injEq, Option.isSome_some]
              constructor
              · rintro ⟨rfl, rfl, rfl, rfl⟩
                exact ⟨b, c, d, ⟨rfl, rfl, rfl, rfl⟩, by simp [h1], h2, h3, h4⟩
              · rintro ⟨x, y, z, ⟨rfl, rfl, rfl, rfl⟩, _, e2, e3, e4⟩
                rw [h2] at e2; rw [h3] at e3; rw [h4] at e4
                injection e2 with e2; injection e3 with e3; injection e4 with e4
                exact ⟨rfl, e2, e3, e4⟩
    · simp [classifyRest_ne_atom]

theorem splitSep_nil_ne_four (n x y z : Str) : splitSep [] ≠ [n, x, y, z] := by simp [splitSep]

theorem atomHand_eq_lineHand (s : Str) : atomHand s = lineHand (fun n => isNucleus n) s := by
  cases hl : lineHand (fun n => isNucleus n) s with
  | some v =>
    obtain ⟨hs, hP, hx, hy, hz⟩ := lineHand_inv _ hl
    have hne : s ≠ [] := by
      intro h0; subst h0; exact splitSep_nil_ne_four _ _ _ _ hs
    simp only [isNumber, isNucleus] at hP hx hy hz
    obtain ⟨px, hpx⟩ := Option.isSome_iff_exists.mp hx
    obtain ⟨py, hpy⟩ := Option.isSome_iff_exists.mp hy
    obtain ⟨pz, hpz⟩ := Option.isSome_iff_exists.mp hz
    have hcl := (classify_atom_iff s v.1 px py pz).mpr ⟨hne, v.2.1, v.2.2.1, v.2.2.2, hs, hP, hpx, hpy, hpz⟩
    simp [atomHand, hcl, hs]
  | none =>
    unfold atomHand
    split
    · rename_i n a b c w x y z hcl hsp
      exfalso
      obtain ⟨_, x', y', z', hs, hP, hpx, hpy, hpz⟩ := (classify_atom_iff s n a b c).mp hcl
      have := lineHand_some (fun n => isNucleus n) hs (by simpa [isNucleus] using hP) (by simp [isNumber, hpx]) (by simp [isNumber, hpy])
        (by simp [isNumber, hpz])
      rw [hl] at this
      cases this
    · rfl

/-! ## the two atom-line patterns -/

theorem groupsApart_atom : GroupsApart 16 18 20 := by unfold GroupsApart; decide
theorem groupsApart_strict : GroupsApart 5 7 9 := by unfold GroupsApart; decide

/-- atom_cartesian, given the extent of its NUCLEUS group -/
theorem atom_eq_regex_of (hN : NucExtFor nucLine (fun t => isNucleus t))
    (hsep : ∀ t, isNucleus t = true → ∀ c ∈ t, isSep c = false) (hne : ∀ t, isNucleus t = true → t ≠ []) (s : Str) :
    atomRe s = atomHand s := by
  rw [atomHand_eq_lineHand]
  unfold atomRe
  rw [atomCartesian_shape]
  exact atomLine_eq nucLine (fun t => isNucleus t) 16 18 20 hN hsep hne groupsApart_atom s

theorem atomStrictHand_eq_lineHand (hsimple : ∀ t, isSimpleNucleus t = true → isNucleus t = true) (s : Str) :
    atomStrictHand s = lineHand isSimpleNucleus s := by
  unfold atomStrictHand
  rw [atomHand_eq_lineHand]
  cases hl : lineHand (fun n => isNucleus n) s with
  | none =>
    cases hl2 : lineHand isSimpleNucleus s with
    | none => rfl
    | some v =>
      exfalso
      obtain ⟨hs, hP, hx, hy, hz⟩ := lineHand_inv _ hl2
      have := lineHand_some (fun n => isNucleus n) hs (hsimple _ hP) hx hy hz
      rw [hl] at this; cases this
  | some v =>
    obtain ⟨hs, hP, hx, hy, hz⟩ := lineHand_inv _ hl
    obtain ⟨n, x, y, z⟩ := v
    by_cases hsn : isSimpleNucleus n = true
    · simp only [hsn, if_true]
      exact (lineHand_some isSimpleNucleus hs hsn hx hy hz).symm
    · simp only [hsn]
      simp [lineHand, hs, hsn]

/-- atom_cartesian_strict, given the extent of its SIMPLENUCLEUS group -/
theorem atomStrict_eq_regex_of (hN : NucExtFor simpleNuc isSimpleNucleus)
    (hsep : ∀ t, isSimpleNucleus t = true → ∀ c ∈ t, isSep c = false) (hne : ∀ t, isSimpleNucleus t = true → t ≠ [])
    (hsimple : ∀ t, isSimpleNucleus t = true → isNucleus t = true) (s : Str) :
    atomStrictRe s = atomStrictHand s := by
  rw [atomStrictHand_eq_lineHand hsimple]
  unfold atomStrictRe
  rw [atomCartesianStrict_shape]
  exact atomLine_eq simpleNuc isSimpleNucleus 5 7 9 hN hsep hne groupsApart_strict s

end QcelVerif.MolText
