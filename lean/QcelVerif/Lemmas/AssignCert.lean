import QcelVerif.Model.AssignCert
import Mathlib.Algebra.BigOperators.Group.Finset.Basic
import Mathlib.Algebra.Order.BigOperators.Group.Finset
import Mathlib.Algebra.Order.Ring.Rat
import Mathlib.Data.List.Perm.Subperm
import Mathlib.Data.Finset.Max
import Mathlib.Algebra.BigOperators.Group.Finset.Piecewise
import Mathlib.Tactic.Linarith
import Mathlib.Tactic.Ring
/-!
Helper lemmas for C14 (property theorems are in `Props/C14.lean`): list sums over assignments,
weak duality with slack for wide matrices, and the Bool ↔ Prop bridges of the checker.
-/
namespace QcelVerif.Assign

/-- A complete assignment of an `n × m` matrix (propositional form of `isAssign`). -/
structure IsAssign (n m : Nat) (l : Pairs) : Prop where
  len : l.length = min n m
  inb : ∀ p ∈ l, p.1 < n ∧ p.2 < m
  rows : (l.map Prod.fst).Nodup
  cols : (l.map Prod.snd).Nodup

theorem nodupB_iff : ∀ l : List Nat, nodupB l = true ↔ l.Nodup
  | [] => by simp [nodupB]
  | a :: l => by simp [nodupB, nodupB_iff l]

theorem isAssign_iff {n m : Nat} {l : Pairs} : isAssign n m l = true ↔ IsAssign n m l := by
  constructor
  · intro h
    simp only [isAssign, Bool.and_eq_true, beq_iff_eq, List.all_eq_true, decide_eq_true_eq, nodupB_iff] at h
    exact ⟨h.1.1.1, h.1.1.2, h.1.2, h.2⟩
  · intro h
    simp only [isAssign, Bool.and_eq_true, beq_iff_eq, List.all_eq_true, decide_eq_true_eq, nodupB_iff]
    exact ⟨⟨⟨h.len, h.inb⟩, h.rows⟩, h.cols⟩

theorem allIdx_iff {n m : Nat} {p : Nat → Nat → Bool} :
    allIdx n m p = true ↔ ∀ i < n, ∀ j < m, p i j = true := by
  simp [allIdx, List.all_eq_true, List.mem_range]

theorem incB_pairwise : ∀ l : List Nat, incB l = true → l.Pairwise (· < ·)
  | [] => by simp
  | [_] => by simp
  | a :: b :: l => by
    intro h
    simp only [incB, Bool.and_eq_true, decide_eq_true_eq] at h
    have ih := incB_pairwise (b :: l) h.2
    refine List.Pairwise.cons ?_ ih
    intro x hx
    rcases List.mem_cons.1 hx with rfl | hx
    · exact h.1
    · exact lt_trans h.1 (List.rel_of_pairwise_cons ih hx)

/-! ### sums over lists of pairs -/

theorem total_nil (c : Nat → Nat → Rat) : total c [] = 0 := by simp [total]

theorem total_cons (c : Nat → Nat → Rat) (p : Nat × Nat) (l : Pairs) :
    total c (p :: l) = c p.1 p.2 + total c l := by simp [total]

/-- `Σ c = Σ uᵢ + Σ vⱼ + Σ (c − u − v)` along any list of pairs -/
theorem total_split (c : Nat → Nat → Rat) (u v : Nat → Rat) (l : Pairs) :
    total c l = ((l.map Prod.fst).map u).sum + ((l.map Prod.snd).map v).sum
      + total (fun i j => c i j - u i - v j) l := by
  induction l with
  | nil => simp [total]
  | cons p l ih =>
    simp only [total_cons, List.map_cons, List.sum_cons, ih]
    ring

theorem total_congr {r r' : Nat → Nat → Rat} {l : Pairs} (h : ∀ p ∈ l, r p.1 p.2 = r' p.1 p.2) :
    total r l = total r' l := by
  induction l with
  | nil => simp [total]
  | cons p l ih =>
    rw [total_cons, total_cons, h p (List.mem_cons_self ..), ih (fun q hq => h q (List.mem_cons_of_mem _ hq))]

theorem total_ge (r : Nat → Nat → Rat) (ε : Rat) (l : Pairs) (h : ∀ p ∈ l, -ε ≤ r p.1 p.2) :
    -((l.length : Rat) * ε) ≤ total r l := by
  induction l with
  | nil => simp [total]
  | cons p l ih =>
    have h1 := h p (List.mem_cons_self ..)
    have h2 := ih (fun q hq => h q (List.mem_cons_of_mem _ hq))
    rw [total_cons]
    simp only [List.length_cons, Nat.cast_add, Nat.cast_one]
    linarith

theorem total_nonneg (r : Nat → Nat → Rat) (l : Pairs) (h : ∀ p ∈ l, 0 ≤ r p.1 p.2) : 0 ≤ total r l := by
  have := total_ge r 0 l (by simpa using h)
  simpa using this

theorem total_zero_of_nonneg (r : Nat → Nat → Rat) (l : Pairs) (h0 : ∀ p ∈ l, 0 ≤ r p.1 p.2)
    (hs : total r l ≤ 0) : ∀ p ∈ l, r p.1 p.2 = 0 := by
  induction l with
  | nil => simp
  | cons p l ih =>
    have hp := h0 p (List.mem_cons_self ..)
    have hl := total_nonneg r l (fun q hq => h0 q (List.mem_cons_of_mem _ hq))
    rw [total_cons] at hs
    intro q hq
    rcases List.mem_cons.1 hq with rfl | hq
    · linarith
    · exact ih (fun q hq => h0 q (List.mem_cons_of_mem _ hq)) (by linarith) q hq

/-- a duplicate-free list of `n` numbers below `n` is a permutation of `0 … n-1` -/
theorem perm_range_of {l : List Nat} {n : Nat} (hnd : l.Nodup) (hlen : l.length = n)
    (hlt : ∀ x ∈ l, x < n) : l.Perm (List.range n) := by
  apply List.Subperm.perm_of_length_le
  · exact List.subperm_of_subset hnd (fun x hx => List.mem_range.2 (hlt x hx))
  · simp [hlen]

/-- the rows of a complete assignment of a wide matrix are all the rows -/
theorem rows_sum_eq {n m : Nat} (hnm : n ≤ m) (u : Nat → Rat) {l : Pairs} (h : IsAssign n m l) :
    ((l.map Prod.fst).map u).sum = ((List.range n).map u).sum := by
  have hp : (l.map Prod.fst).Perm (List.range n) :=
    perm_range_of h.rows (by simp [h.len, Nat.min_eq_left hnm])
      (fun x hx => by
        obtain ⟨p, hp, rfl⟩ := List.mem_map.1 hx
        exact (h.inb p hp).1)
  exact (hp.map u).sum_eq

/-! ### exchanging the column sets -/

theorem finset_sum_swap_le {A B : Finset Nat} (v : Nat → Rat) (δ : Rat) (hδ : 0 ≤ δ)
    (hcard : A.card = B.card) (h : ∀ j ∈ A, ∀ k ∈ B, k ∉ A → v j ≤ v k + δ) :
    ∑ x ∈ A, v x ≤ ∑ x ∈ B, v x + (A.card : Rat) * δ := by
  have hA : ∑ x ∈ A ∩ B, v x + ∑ x ∈ A \ B, v x = ∑ x ∈ A, v x := Finset.sum_inter_add_sum_sdiff A B v
  have hB : ∑ x ∈ B ∩ A, v x + ∑ x ∈ B \ A, v x = ∑ x ∈ B, v x := Finset.sum_inter_add_sum_sdiff B A v
  rw [Finset.inter_comm B A] at hB
  have c1 := Finset.card_sdiff_add_card_inter A B
  have c2 := Finset.card_sdiff_add_card_inter B A
  rw [Finset.inter_comm B A] at c2
  have hc : (A \ B).card = (B \ A).card := by omega
  have hle : ((A \ B).card : Rat) * δ ≤ (A.card : Rat) * δ :=
    mul_le_mul_of_nonneg_right (Nat.cast_le.2 (Finset.card_le_card Finset.sdiff_subset)) hδ
  by_cases hne : (B \ A).Nonempty
  · obtain ⟨k0, hk0, hmin⟩ := Finset.exists_min_image (B \ A) v hne
    have hk0' := Finset.mem_sdiff.1 hk0
    have h1 : ∑ x ∈ A \ B, v x ≤ (A \ B).card • (v k0 + δ) :=
      Finset.sum_le_card_nsmul _ _ _ (fun x hx => h x (Finset.mem_sdiff.1 hx).1 k0 hk0'.1 hk0'.2)
    have h2 : (B \ A).card • v k0 ≤ ∑ x ∈ B \ A, v x :=
      Finset.card_nsmul_le_sum _ _ _ (fun x hx => hmin x hx)
    rw [nsmul_eq_mul] at h1 h2
    rw [hc] at h1 hle
    nlinarith
  · rw [Finset.not_nonempty_iff_eq_empty] at hne
    have hz : (A \ B).card = 0 := by rw [hc, hne]; simp
    have hz' : A \ B = ∅ := Finset.card_eq_zero.1 hz
    rw [hne] at hB
    rw [hz'] at hA
    simp only [Finset.sum_empty, add_zero] at hA hB
    have : 0 ≤ (A.card : Rat) * δ := mul_nonneg (Nat.cast_nonneg _) hδ
    linarith

theorem cols_sum_le (v : Nat → Rat) (δ : Rat) (hδ : 0 ≤ δ) {S T : List Nat}
    (hS : S.Nodup) (hT : T.Nodup) (hlen : S.length = T.length)
    (h : ∀ j ∈ S, ∀ k ∈ T, k ∉ S → v j ≤ v k + δ) :
    (S.map v).sum ≤ (T.map v).sum + (S.length : Rat) * δ := by
  have := finset_sum_swap_le (A := S.toFinset) (B := T.toFinset) v δ hδ
    (by rw [List.toFinset_card_of_nodup hS, List.toFinset_card_of_nodup hT, hlen])
    (by simpa using h)
  rw [List.sum_toFinset v hS, List.sum_toFinset v hT, List.toFinset_card_of_nodup hS] at this
  exact this

/-! ### weak duality with slack, wide orientation -/

/-- For any potentials `u, v`: if the residual `c − u − v` is `≥ −ε` everywhere and every matched
column's potential exceeds no unmatched column's by more than `δ`, then the chosen assignment is
within `Σ_σ residual + n ε + n δ` of *every* complete assignment. -/
theorem weak_duality_wide {n m : Nat} (hnm : n ≤ m) (c : Nat → Nat → Rat) (u v : Nat → Rat)
    (ε δ : Rat) (hδ : 0 ≤ δ) {σ τ : Pairs} (hσ : IsAssign n m σ) (hτ : IsAssign n m τ)
    (hr : ∀ i < n, ∀ j < m, -ε ≤ c i j - u i - v j)
    (hv : ∀ p ∈ σ, ∀ k < m, k ∉ σ.map Prod.snd → v p.2 ≤ v k + δ) :
    total c σ ≤ total c τ + total (fun i j => c i j - u i - v j) σ + (n : Rat) * ε + (n : Rat) * δ := by
  have e1 := total_split c u v σ
  have e2 := total_split c u v τ
  have r1 := rows_sum_eq hnm u hσ
  have r2 := rows_sum_eq hnm u hτ
  have lσ : σ.length = n := by rw [hσ.len, Nat.min_eq_left hnm]
  have lτ : τ.length = n := by rw [hτ.len, Nat.min_eq_left hnm]
  have hc := cols_sum_le v δ hδ hσ.cols hτ.cols (by simp [lσ, lτ])
    (fun j hj k hk hkn => by
      obtain ⟨p, hp, rfl⟩ := List.mem_map.1 hj
      obtain ⟨q, hq, rfl⟩ := List.mem_map.1 hk
      exact hv p hp q.2 (hτ.inb q hq).2 hkn)
  have hg := total_ge (fun i j => c i j - u i - v j) ε τ (fun p hp => hr p.1 (hτ.inb p hp).1 p.2 (hτ.inb p hp).2)
  simp only [List.length_map, lσ] at hc
  rw [lτ] at hg
  linarith

/-! ### transposition -/

theorem map_fst_swap (l : Pairs) : (l.map swap).map Prod.fst = l.map Prod.snd := by
  simp [List.map_map, Function.comp_def, swap]

theorem map_snd_swap (l : Pairs) : (l.map swap).map Prod.snd = l.map Prod.fst := by
  simp [List.map_map, Function.comp_def, swap]

theorem IsAssign.swap {n m : Nat} {l : Pairs} (h : IsAssign n m l) : IsAssign m n (l.map swap) := by
  refine ⟨by simp [h.len, Nat.min_comm], ?_, by rw [map_fst_swap]; exact h.cols, by rw [map_snd_swap]; exact h.rows⟩
  intro p hp
  obtain ⟨q, hq, rfl⟩ := List.mem_map.1 hp
  exact ⟨(h.inb q hq).2, (h.inb q hq).1⟩

theorem total_tr_swap (c : Nat → Nat → Rat) (l : Pairs) : total (tr c) (l.map swap) = total c l := by
  simp [total, List.map_map, Function.comp_def, swap, tr]

/-! ### `maxL` -/

theorem foldl_max_ge_acc (l : List Rat) (a : Rat) : a ≤ l.foldl (fun a x => if a < x then x else a) a := by
  induction l generalizing a with
  | nil => simp
  | cons x l ih =>
    simp only [List.foldl_cons]
    split
    · exact le_trans (le_of_lt ‹a < x›) (ih x)
    · exact ih a

theorem foldl_max_ge_mem (l : List Rat) (a : Rat) {x : Rat} (hx : x ∈ l) :
    x ≤ l.foldl (fun a x => if a < x then x else a) a := by
  induction l generalizing a with
  | nil => simp at hx
  | cons y l ih =>
    simp only [List.foldl_cons]
    rcases List.mem_cons.1 hx with rfl | hx
    · split
      · exact foldl_max_ge_acc l x
      · exact le_trans (not_lt.1 ‹¬ a < x›) (foldl_max_ge_acc l a)
    · exact ih _ hx

theorem maxL_nonneg (l : List Rat) : 0 ≤ maxL l := foldl_max_ge_acc l 0
theorem le_maxL {l : List Rat} {x : Rat} (hx : x ∈ l) : x ≤ maxL l := foldl_max_ge_mem l 0 hx

theorem neg_le_of_negPart_le {x e : Rat} (h : negPart x ≤ e) (he : 0 ≤ e) : -e ≤ x := by
  unfold negPart at h
  split at h <;> linarith

theorem le_of_posPart_le {x d : Rat} (h : posPart x ≤ d) (hd : 0 ≤ d) : x ≤ d := by
  unfold posPart at h
  split at h <;> linarith

theorem epsOf_spec (n m : Nat) (c red : Nat → Nat → Rat) :
    ∀ i < n, ∀ j < m, -epsOf n m c red ≤ resid c red i j := by
  intro i hi j hj
  have h0 : 0 ≤ epsOf n m c red := maxL_nonneg _
  apply neg_le_of_negPart_le _ h0
  have h1 : negPart (resid c red i j) ≤ maxL ((List.range m).map fun j => negPart (resid c red i j)) :=
    le_maxL (List.mem_map.2 ⟨j, List.mem_range.2 hj, rfl⟩)
  have h2 : maxL ((List.range m).map fun j => negPart (resid c red i j)) ≤ epsOf n m c red :=
    le_maxL (List.mem_map.2 ⟨i, List.mem_range.2 hi, rfl⟩)
  exact le_trans h1 h2

theorem deltaOf_spec (m : Nat) (c red : Nat → Nat → Rat) (σ : Pairs) :
    ∀ p ∈ σ, ∀ k < m, k ∉ σ.map Prod.snd → vPot c red p.2 ≤ vPot c red k + deltaOf m c red σ := by
  intro p hp k hk hkn
  have h0 : 0 ≤ deltaOf m c red σ := maxL_nonneg _
  have hcont : (σ.map Prod.snd).contains k = false := by
    simpa using hkn
  have h1 : posPart (vPot c red p.2 - vPot c red k)
      ≤ maxL (σ.map fun p => posPart (vPot c red p.2 - vPot c red k)) :=
    le_maxL (List.mem_map.2 ⟨p, hp, rfl⟩)
  have h2 : maxL (σ.map fun p => posPart (vPot c red p.2 - vPot c red k)) ≤ deltaOf m c red σ := by
    apply le_maxL
    refine List.mem_map.2 ⟨k, List.mem_range.2 hk, ?_⟩
    simp only [hcont]
    simp
  have := le_of_posPart_le (le_trans h1 h2) h0
  linarith

end QcelVerif.Assign
