import QcelVerif.Lib.PStr
/-!
Case-flip lemmas for the ASCII string model: `capitalize` and `int()` do not see letter case.
-/
namespace QcelVerif.PStr

theorem toUpper_toLower (c : Nat) : toUpper (toLower c) = toUpper c := by
  simp only [toUpper, toLower, isUpper, isLower]; grind
theorem toLower_toLower (c : Nat) : toLower (toLower c) = toLower c := by
  simp only [toLower, isUpper]; grind
theorem isSpace_toLower (c : Nat) : isSpace (toLower c) = isSpace c := by
  simp only [toLower, isUpper, isSpace]; grind
theorem isDigit_toLower (c : Nat) : isDigit (toLower c) = isDigit c := by
  simp only [toLower, isUpper, isDigit]; grind
theorem toLower_of_isDigit (c : Nat) (h : isDigit c = true) : toLower c = c := by
  simp only [toLower, isUpper, isDigit] at *; grind
theorem toLower_eq_iff_of_nonletter (c k : Nat) (hk : k < 65) : (toLower c == k) = (c == k) := by
  simp only [toLower, isUpper]; grind
theorem toLower_eq_95 (c : Nat) : (toLower c == 95) = (c == 95) := by
  simp only [toLower, isUpper]; grind

theorem lower_lower (s : Bytes) : lower (lower s) = lower s := by
  simp [lower, List.map_map, Function.comp_def, toLower_toLower]

/-- `capitalize` only depends on the lower-cased text -/
theorem capitalize_lower (s : Bytes) : capitalize (lower s) = capitalize s := by
  cases s with
  | nil => rfl
  | cons c t =>
    have := lower_lower t
    simp only [lower] at this
    simp only [lower, List.map_cons, capitalize, toUpper_toLower, this]

theorem capitalize_congr {s s' : Bytes} (h : lower s = lower s') : capitalize s = capitalize s' := by
  rw [← capitalize_lower s, ← capitalize_lower s', h]

theorem dropWhile_map_lower (s : Bytes) :
    (lower s).dropWhile isSpace = lower (s.dropWhile isSpace) := by
  induction s with
  | nil => rfl
  | cons c t ih =>
    simp only [lower, List.map_cons, List.dropWhile_cons, isSpace_toLower]
    split
    · exact ih
    · rfl

theorem strip_lower (s : Bytes) : strip (lower s) = lower (strip s) := by
  unfold strip
  rw [dropWhile_map_lower]
  have : (lower (List.dropWhile isSpace s)).reverse = lower (List.dropWhile isSpace s).reverse := by
    simp [lower, List.map_reverse]
  rw [this, dropWhile_map_lower]
  simp [lower, List.map_reverse]

theorem pyIntBody_lower (s : Bytes) (p : Bool) (acc : Option Nat) :
    pyIntBody (lower s) p acc = pyIntBody s p acc := by
  induction s generalizing p acc with
  | nil => rfl
  | cons c t ih =>
    simp only [lower, List.map_cons, pyIntBody, isDigit_toLower, toLower_eq_95]
    by_cases hd : isDigit c = true
    · simp only [hd, ↓reduceIte, toLower_of_isDigit c hd]
      exact ih _ _
    · simp only [hd, Bool.false_eq_true, ↓reduceIte]
      by_cases hu : (c == 95) = true
      · simp only [hu, ↓reduceIte]
        split
        · exact ih _ _
        · rfl
      · simp [hu]

theorem pySign_lower (t : Bytes) : pySign (lower t) = ((pySign t).1, lower (pySign t).2) := by
  cases t with
  | nil => rfl
  | cons c t =>
    simp only [lower, List.map_cons, pySign, toLower_eq_iff_of_nonletter c 43 (by omega),
      toLower_eq_iff_of_nonletter c 45 (by omega)]
    split
    · rfl
    · split <;> rfl

/-- `int(text)` does not see letter case (a string with a letter is rejected either way) -/
theorem pyInt_lower (s : Bytes) : pyInt (lower s) = pyInt s := by
  unfold pyInt
  simp only [strip_lower, pySign_lower, pyIntBody_lower]

theorem pyInt_congr {s s' : Bytes} (h : lower s = lower s') : pyInt s = pyInt s' := by
  rw [← pyInt_lower s, ← pyInt_lower s', h]

end QcelVerif.PStr
