import QcelVerif.Lib.PStr
/-!
Case-flip lemmas for the ASCII string model: `capitalize` and `int()` do not see letter case.
-/
namespace QcelVerif.PStr

theorem toUpper_toLower (c : Nat) : toUpper (toLower c) = toUpper c := by
  simp only [toUpper, toLower, isUpper, isLower]; grind
theorem toLower_toLower (c : Nat) : toLower (toLower c) = toLower c := by
  simp only [toLower, isUpper]; grind
theorem isSpace_toLower (c : Nat) : isSpace (toLower c) = isSpace c := by
  simp only [toLower, isUpper, isSpace]; grind
theorem isDigit_toLower (c : Nat) : isDigit (toLower c) = isDigit c := by
  simp only [toLower, isUpper, isDigit]; grind
theorem toLower_of_isDigit (c : Nat) (h : isDigit c = true) : toLower c = c := by
  simp only [toLower, isUpper, isDigit] at *; grind
theorem toLower_eq_iff_of_nonletter (c k : Nat) (hk : k < 65) : (toLower c == k) = (c == k) := by
  simp only [toLower, isUpper]; grind
theorem toLower_eq_95 (c : Nat) : (toLower c == 95) = (c == 95) := by
  simp only [toLower, isUpper]; grind

theorem lower_lower (s : Bytes) : lower (lower s) = lower s := by
  simp [lower, List.map_map, Function.comp_def, toLower_toLower]

/-- `capitalize` only depends on the lower-cased text -/
theorem capitalize_lower (s : Bytes) : capitalize (lower s) = capitalize s := by
  cases s with
  | nil => rfl
  | cons c t =>
    have := lower_lower t
    simp only [lower] at this
    simp only [lower, List.map_cons, capitalize, toUpper_toLower, this]

theorem capitalize_congr {s s' : Bytes} (h : lower s = lower s') : capitalize s = capitalize s' := by
  rw [← capitalize_lower s, ← capitalize_lower s', h]

theorem dropWhile_map_lower (s : Bytes) :
    (lower s).dropWhile isSpace = lower (s.dropWhile isSpace) := by
  induction s with
  | nil => rfl
  | cons c t ih =>
    simp only [lower, List.map_cons, List.dropWhile_cons, isSpace_toLower]
    split
    · exact ih
    · rfl

theorem strip_lower (s : Bytes) : strip (lower s) = lower (strip s) := by
  unfold strip
  rw [dropWhile_map_lower]
  have : (lower (List.dropWhile isSpace s)).reverse = lower (List.dropWhile isSpace s).reverse := by
    simp [lower, List.map_reverse]
  rw [this, dropWhile_map_lower]
  simp [lower, List.map_reverse]

theorem pyIntBody_lower (s : Bytes) (p : Bool) (acc : Option Nat) :
    pyIntBody (lower s) p acc = pyIntBody s p acc := by
  induction s generalizing p acc with
  | nil => rfl
  | cons c t ih =>
    simp only [lower, List.map_cons, pyIntBody, isDigit_toLower, toLower_eq_95]
    by_cases hd : isDigit c = true
    · simp only [hd, ↓reduceIte, toLower_of_isDigit c hd]
      exact ih _ _
    · simp only [hd, Bool.false_eq_true, ↓reduceIte]
      by_cases hu : (c == 95) = true
      · simp only [hu, ↓reduceIte]
        split
        · exact ih _ _
        · rfl
      · simp [hu]

theorem pySign_lower (t : Bytes) : pySign (lower t) = ((pySign t).1, lower (pySign t).2) := by
  cases t with
  | nil => rfl
  | cons c t =>
    simp only [lower, List.map_cons, pySign, toLower_eq_iff_of_nonletter c 43 (by omega),
      toLower_eq_iff_of_nonletter c 45 (by omega)]
    split
    · rfl
    · split <;> rfl

/-- `int(text)` does not see letter case (a string with a letter is rejected either way) -/
theorem pyInt_lower (s : Bytes) : pyInt (lower s) = pyInt s := by
  unfold pyInt
  simp only [strip_lower, pySign_lower, pyIntBody_lower]

theorem pyInt_congr {s s' : Bytes} (h : lower s = lower s') : pyInt s = pyInt s' := by
  rw [← pyInt_lower s, ← pyInt_lower s', h]

end QcelVerif.PStr

/-! ### the packed representation is faithful -/
namespace QcelVerif.PStr

def packFrom (a : Nat) (s : Bytes) : Nat := s.foldl (fun a b => a * 256 + b) a

theorem pack_eq_packFrom (s : Bytes) : pack s = packFrom 1 s := rfl

theorem unpackAux_one (fuel : Nat) (acc : Bytes) : unpackAux fuel 1 acc = acc := by
  cases fuel <;> simp [unpackAux]

theorem unpackAux_packFrom : ∀ (t : Bytes) (a fuel : Nat) (acc : Bytes), 1 ≤ a → (∀ b ∈ t, b < 256) →
    unpackAux (fuel + t.length) (packFrom a t) acc = unpackAux fuel a (t ++ acc)
  | [], a, fuel, acc, _, _ => by simp [packFrom]
  | x :: t, a, fuel, acc, ha, hb => by
      have hx : x < 256 := hb x (by simp)
      have ht : ∀ b ∈ t, b < 256 := fun b h => hb b (by simp [h])
      have ih := unpackAux_packFrom t (a * 256 + x) (fuel + 1) acc (by omega) ht
      have e : fuel + (x :: t).length = fuel + 1 + t.length := by simp; omega
      have h1 : ¬ (a * 256 + x ≤ 1) := by omega
      have hd : (a * 256 + x) / 256 = a := by omega
      have hm : (a * 256 + x) % 256 = x := by omega
      rw [e, show packFrom a (x :: t) = packFrom (a * 256 + x) t from rfl, ih]
      simp only [unpackAux, h1, ↓reduceIte, hd, hm, List.cons_append]

/-- **`unpack ∘ pack = id`** for byte strings of at most 96 bytes: the single-`Nat` encoding of strings
used by all table theorems loses nothing (and `pack` is therefore injective on them). -/
theorem unpack_pack (s : Bytes) (hb : ∀ b ∈ s, b < 256) (hl : s.length ≤ 96) : unpack (pack s) = s := by
  have h := unpackAux_packFrom s 1 (96 - s.length) [] (by omega) hb
  have e : 96 - s.length + s.length = 96 := by omega
  rw [e, unpackAux_one] at h
  simpa [unpack, pack_eq_packFrom] using h

theorem pack_injective (s t : Bytes) (hs : ∀ b ∈ s, b < 256) (ht : ∀ b ∈ t, b < 256)
    (ls : s.length ≤ 96) (lt : t.length ≤ 96) (h : pack s = pack t) : s = t := by
  rw [← unpack_pack s hs ls, ← unpack_pack t ht lt, h]

example : unpack (pack [75, 114, 56, 52]) = [75, 114, 56, 52] := by decide   -- "Kr84"

end QcelVerif.PStr
