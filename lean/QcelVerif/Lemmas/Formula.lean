import QcelVerif.Model.Formula
import Mathlib.Data.List.Nodup
/-! Helper lemmas for the formula model (C15). -/
namespace QcelVerif.Formula
variable {κ : Type} [DecidableEq κ]

theorem mem_dedupKeys : ∀ (l : List κ) (x : κ), x ∈ dedupKeys l ↔ x ∈ l
  | [], _ => by simp [dedupKeys]
  | y :: t, x => by
      simp only [dedupKeys, List.mem_cons, List.mem_filter, mem_dedupKeys t x, bne_iff_ne, ne_eq]
      by_cases h : x = y <;> simp [h]

theorem nodup_dedupKeys : ∀ (l : List κ), (dedupKeys l).Nodup
  | [] => by simp [dedupKeys]
  | y :: t => by
      simp only [dedupKeys, List.nodup_cons, List.mem_filter, bne_iff_ne, ne_eq, not_and, not_not]
      exact ⟨fun _ => trivial, (nodup_dedupKeys t).filter _⟩

theorem sortedKeys_perm (le : κ → κ → Bool) (syms : List κ) :
    (sortedKeys le syms).Perm (dedupKeys syms) := List.mergeSort_perm _ _

theorem hillOrder_perm (C H : κ) (o : List κ) : (hillOrder C H o).Perm o := by
  unfold hillOrder
  split
  · rename_i hC
    by_cases hH : H ∈ o
    · simp only [hH, ↓reduceIte]
      have p1 : (H :: o.erase H).Perm o := (List.perm_cons_erase hH).symm
      have hC' : C ∈ H :: o.erase H := p1.mem_iff.2 hC
      exact ((List.perm_cons_erase hC').symm).trans p1
    · simp only [hH, ↓reduceIte]
      exact (List.perm_cons_erase hC).symm
  · exact List.Perm.refl _

theorem elementOrder_perm (le : κ → κ → Bool) (C H : κ) (ord : Order) (syms : List κ) :
    (elementOrder le C H ord syms).Perm (dedupKeys syms) := by
  cases ord
  · exact sortedKeys_perm le syms
  · exact (hillOrder_perm C H _).trans (sortedKeys_perm le syms)

end QcelVerif.Formula
