import QcelVerif.Model.FormulaRe
import QcelVerif.Lemmas.RegexFindall
import QcelVerif.Lemmas.FormulaStr
/-!
Lemmas tying the hand-written regex cuts of `Model/Formula.lean` (`cutUpper`, `splitCount`) to the generic regex engine
run on the two ASTs of `Gen/FormulaRegex.lean` (C15 extension).  Nothing here is a property statement
(those are in `Props/C15Regex.lean`).  The ASTs appear here as the literal terms `cutShape` / `splitShape`;
`Props/C15Regex.lean` proves by `rfl` that the generated terms are these.
-/
namespace QcelVerif.Formula
open QcelVerif.Regex

/-- CPython's parse tree of `[A-Z][^A-Z]*` -/
def cutShape : Re := .seq (.cls false [.range 65 90]) (.rep 0 none true (.cls true [.range 65 90]))
/-- CPython's parse tree of `(\D+)(\d*)` -/
def splitShape : Re :=
  .seq (.group 1 (.rep 1 none true (.cls false [.notDigit]))) (.group 2 (.rep 0 none true (.cls false [.digit])))

/-! ### the engine's classes on code points are the hand model's character tests -/

theorem cls_upper (c : Char) : clsMem false [.range 65 90] c.toNat = isAsciiUpper c := by
  rw [Bool.eq_iff_iff, upper_iff]; simp [clsMem, Item.mem]

theorem cls_notUpper (c : Char) : clsMem true [.range 65 90] c.toNat = !isAsciiUpper c := by
  have := cls_upper c
  simp only [clsMem] at this ⊢
  rw [← this]; cases (List.any [Item.range 65 90] fun i => i.mem c.toNat) <;> rfl

theorem cls_digit (c : Char) : clsMem false [.digit] c.toNat = isAsciiDigit c := by
  rw [Bool.eq_iff_iff, digit_iff]; simp [clsMem, Item.mem, isDigitC]

theorem cls_notDigit (c : Char) : clsMem false [.notDigit] c.toNat = !isAsciiDigit c := by
  have := cls_digit c
  simp only [clsMem, List.any_cons, List.any_nil, Bool.or_false, Item.mem] at this ⊢
  rw [← this]; cases isDigitC c.toNat <;> rfl

theorem takeWhile_codes (p : Nat → Bool) (q : Char → Bool) (h : ∀ c, p c.toNat = q c) (l : List Char) :
    (toCodes l).takeWhile p = toCodes (l.takeWhile q) := by
  unfold toCodes
  rw [List.takeWhile_map]
  congr 2
  funext c; exact h c

theorem dropWhile_codes (p : Nat → Bool) (q : Char → Bool) (h : ∀ c, p c.toNat = q c) (l : List Char) :
    (toCodes l).dropWhile p = toCodes (l.dropWhile q) := by
  unfold toCodes
  rw [List.dropWhile_map]
  congr 2
  funext c; exact h c

theorem ofCodes_toCodes (l : List Char) : ofCodes (toCodes l) = l := by
  simp [ofCodes, toCodes, Function.comp_def]

theorem toCodes_append (a b : List Char) : toCodes (a ++ b) = toCodes a ++ toCodes b := by simp [toCodes]

theorem toCodes_injective {a b : List Char} (h : toCodes a = toCodes b) : a = b := by
  rw [← ofCodes_toCodes a, ← ofCodes_toCodes b, h]

/-! ### `[A-Z][^A-Z]*`: one attempt, then the whole scan -/

abbrev upN : Nat → Bool := clsMem false [.range 65 90]
abbrev nupN : Nat → Bool := clsMem true [.range 65 90]

theorem ms_cut_head (prev : Option Nat) (c : Nat) (t : List Nat) (caps : Caps) :
    (cutShape.ms ⟨prev, c :: t, caps⟩).head? =
      if upN c then some ⟨lastOr (some c) (t.takeWhile nupN), t.dropWhile nupN, caps⟩ else none := by
  rw [show cutShape.ms ⟨prev, c :: t, caps⟩
        = (Re.ms (.cls false [.range 65 90]) ⟨prev, c :: t, caps⟩).flatMap
            fun st' => Re.ms (.rep 0 none true (.cls true [.range 65 90])) st' from rfl]
  rw [show Re.ms (.cls false [.range 65 90]) ⟨prev, c :: t, caps⟩
        = (stepCls false [.range 65 90] ⟨prev, c :: t, caps⟩).toList from rfl]
  unfold stepCls
  by_cases hc : upN c = true
  · simp only [hc, if_true, Option.toList_some, List.flatMap_cons, List.flatMap_nil, List.append_nil]
    rw [ms_rep_cls_head]
    simp [St.adv]
  · simp [hc]

theorem ms_cut_nil (prev : Option Nat) (caps : Caps) : cutShape.ms ⟨prev, [], caps⟩ = [] := by
  rw [show cutShape.ms ⟨prev, [], caps⟩
        = (Re.ms (.cls false [.range 65 90]) ⟨prev, [], caps⟩).flatMap
            fun st' => Re.ms (.rep 0 none true (.cls true [.range 65 90])) st' from rfl]
  rfl

theorem scan_cut_nil (prev : Option Nat) : scan cutShape 0 prev [] = [] := by
  rw [scan_zero_nil]
  unfold atPos
  rw [matchAt_false, ms_cut_nil]
  rfl

theorem scan_cut_other (prev : Option Nat) (c : Nat) (t : List Nat) (hc : upN c = false) :
    scan cutShape 0 prev (c :: t) = scan cutShape 0 (some c) t := by
  have hap : atPos cutShape prev (c :: t) = ([], 1) := by
    unfold atPos
    rw [matchAt_false, ms_cut_head]
    simp [hc]
  rw [scan_zero_cons, hap]
  rfl

theorem scan_cut_upper (prev : Option Nat) (c : Nat) (t : List Nat) (hc : upN c = true) :
    scan cutShape 0 prev (c :: t) =
      ⟨c :: t.takeWhile nupN, []⟩ :: scan cutShape 0 (lastOr (some c) (t.takeWhile nupN)) (t.dropWhile nupN) := by
  have hsplit : t = t.takeWhile nupN ++ t.dropWhile nupN := (List.takeWhile_append_dropWhile).symm
  have hlen : t.length = (t.takeWhile nupN).length + (t.dropWhile nupN).length := by
    have := congrArg List.length hsplit
    rw [List.length_append] at this
    exact this
  have hap : atPos cutShape prev (c :: t) = ([⟨c :: t.takeWhile nupN, []⟩], (t.takeWhile nupN).length + 1) := by
    unfold atPos
    rw [matchAt_false, ms_cut_head]
    simp only [hc, if_true, List.length_cons]
    rw [if_pos (by omega)]
    have htd : takeDiff (c :: t) (t.dropWhile nupN) = c :: t.takeWhile nupN := by
      conv => lhs; arg 1; rw [hsplit]
      exact takeDiff_append' (c :: t.takeWhile nupN) _
    simp only [foundOf, htd]
    congr 1
    omega
  rw [scan_zero_cons, hap]
  simp only [List.singleton_append, Nat.add_sub_cancel]
  congr 1
  conv => lhs; arg 4; rw [hsplit]
  exact scan_skip cutShape _ _ _

/-! ### the hand cut, by the same recursion -/

theorem cutUpper_fst (l : List Char) : (cutUpper l).1 = l.takeWhile (fun c => !isAsciiUpper c) := by
  induction l with
  | nil => rfl
  | cons c t ih =>
    by_cases hc : isAsciiUpper c = true
    · simp [cutUpper, hc]
    · simp [cutUpper, hc, ih]

theorem takeWhile_dropWhile_nil {α} (p : α → Bool) (l : List α) : (l.dropWhile p).takeWhile p = [] := by
  induction l with
  | nil => rfl
  | cons a t ih =>
    by_cases h : p a = true
    · simp [h, ih]
    · simp [h]

theorem cutUpper_other (c : Char) (t : List Char) (hc : isAsciiUpper c = false) :
    (cutUpper (c :: t)).2 = (cutUpper t).2 := by
  simp [cutUpper, hc]

theorem cutUpper_upper (c : Char) (t : List Char) (hc : isAsciiUpper c = true) :
    (cutUpper (c :: t)).2 = (c :: t.takeWhile (fun c => !isAsciiUpper c)) :: (cutUpper (t.dropWhile (fun c => !isAsciiUpper c))).2 := by
  have hsplit : t = t.takeWhile (fun c => !isAsciiUpper c) ++ t.dropWhile (fun c => !isAsciiUpper c) :=
    (List.takeWhile_append_dropWhile).symm
  conv => lhs; rw [hsplit]
  rw [show c :: (t.takeWhile (fun c => !isAsciiUpper c) ++ t.dropWhile (fun c => !isAsciiUpper c))
        = c :: t.takeWhile (fun c => !isAsciiUpper c) ++ t.dropWhile (fun c => !isAsciiUpper c) from rfl,
    cutUpper_chunk c _ _ hc (by
      intro x hx
      have := List.all_eq_true.1 (List.all_takeWhile (l := t) (p := fun c => !isAsciiUpper c)) x hx
      simpa using this)]
  rw [cutUpper_fst, takeWhile_dropWhile_nil]
  simp

/-- the chunks concatenated, after the unmatched prefix, are the text -/
theorem cutUpper_join (l : List Char) : (cutUpper l).1 ++ (cutUpper l).2.flatten = l := by
  induction l with
  | nil => rfl
  | cons c t ih =>
    by_cases hc : isAsciiUpper c = true
    · simp only [cutUpper, hc, if_true, List.nil_append, List.flatten_cons, List.cons_append]
      rw [ih]
    · simp only [cutUpper, hc, Bool.false_eq_true, if_false, List.cons_append]
      rw [ih]

/-- every chunk starts with an upper-case letter -/
theorem cutUpper_chunk_head (l : List Char) : ∀ m ∈ (cutUpper l).2, ∃ c body, m = c :: body ∧ isAsciiUpper c = true := by
  induction l with
  | nil => intro m hm; simp [cutUpper] at hm
  | cons c t ih =>
    intro m hm
    by_cases hc : isAsciiUpper c = true
    · simp only [cutUpper, hc, if_true, List.mem_cons] at hm
      rcases hm with rfl | hm
      · exact ⟨c, _, rfl, hc⟩
      · exact ih m hm
    · simp only [cutUpper, hc, Bool.false_eq_true, if_false] at hm
      exact ih m hm

/-! ### `(\D+)(\d*)`: the first way to match -/

abbrev ndN : Nat → Bool := clsMem false [.notDigit]
abbrev dN : Nat → Bool := clsMem false [.digit]

theorem matchPrefix_split (s : List Nat) :
    splitShape.matchPrefix s =
      if 1 ≤ (s.takeWhile ndN).length then
        some ⟨lastOr (lastOr none (s.takeWhile ndN)) ((s.dropWhile ndN).takeWhile dN), (s.dropWhile ndN).dropWhile dN,
              [(2, (s.dropWhile ndN).takeWhile dN), (1, s.takeWhile ndN)]⟩
      else none := by
  rw [matchPrefix_eq_head]
  rw [show splitShape.ms (St.init s)
        = (Re.ms (.group 1 (.rep 1 none true (.cls false [.notDigit]))) (St.init s)).flatMap
            fun st' => Re.ms (.group 2 (.rep 0 none true (.cls false [.digit]))) st' from rfl]
  rw [head?_flatMap_of_isSome]
  · rw [show Re.ms (.group 1 (.rep 1 none true (.cls false [.notDigit]))) (St.init s)
          = (Re.ms (.rep 1 none true (.cls false [.notDigit])) (St.init s)).map fun st' => St.capture 1 (St.init s) st' from rfl,
      List.head?_map, ms_rep_cls_head]
    by_cases h1 : 1 ≤ (List.takeWhile ndN (St.init s).rest).length
    · have h1' : 1 ≤ (List.takeWhile ndN s).length := h1
      rw [if_pos h1, if_pos h1']
      simp only [Option.map_some, Option.bind_some]
      rw [show ∀ st, Re.ms (.group 2 (.rep 0 none true (.cls false [.digit]))) st
            = (Re.ms (.rep 0 none true (.cls false [.digit])) st).map fun st' => St.capture 2 st st' from fun _ => rfl,
        List.head?_map, ms_rep_cls_head]
      have hs : s = s.takeWhile ndN ++ s.dropWhile ndN := (List.takeWhile_append_dropWhile).symm
      have hd : s.dropWhile ndN = (s.dropWhile ndN).takeWhile dN ++ (s.dropWhile ndN).dropWhile dN :=
        (List.takeWhile_append_dropWhile).symm
      have e1 : takeDiff s (s.dropWhile ndN) = s.takeWhile ndN := by
        conv => lhs; arg 1; rw [hs]
        exact takeDiff_append' _ _
      have e2 : takeDiff (s.dropWhile ndN) ((s.dropWhile ndN).dropWhile dN) = (s.dropWhile ndN).takeWhile dN := by
        conv => lhs; arg 1; rw [hd]
        exact takeDiff_append' _ _
      simp [St.capture, St.adv, St.init, e1, e2]
    · have h1' : ¬ 1 ≤ (List.takeWhile ndN s).length := h1
      rw [if_neg h1, if_neg h1']
      rfl
  · intro st
    rw [show Re.ms (.group 2 (.rep 0 none true (.cls false [.digit]))) st
          = (Re.ms (.rep 0 none true (.cls false [.digit])) st).map fun st' => St.capture 2 st st' from rfl,
      List.head?_map, ms_rep_cls_head]
    simp

end QcelVerif.Formula
