import QcelVerif.Model.Nucleus
import Mathlib.Data.Rat.Floor
import Mathlib.Algebra.Order.Field.Power
import Mathlib.Tactic.Linarith
import Mathlib.Tactic.Positivity
import Mathlib.Tactic.FieldSimp
/-!
# `rd64` (round-to-nearest-even onto binary64, `Model/Nucleus.lean`) is a projection

`rd64 (rd64 x) = rd64 x` for EVERY rational `x` — a rounded number rounds to itself.  This discharges the
hypothesis `hidem : ∀ x, rd (rd x) = rd x` that the feedback theorems of C06 / C04 carry, for the rounding
function the drivers run (C04 extension: `Props/C04Default.lean`).  Helper lemmas only; Mathlib is used for
`zpow` / floor arithmetic (no driver imports this file).
-/
namespace QcelVerif.Nucleus

theorem pow2_eq_zpow (e : Int) : pow2 e = (2 : ℚ) ^ e := by
  unfold pow2
  split
  · rename_i h
    obtain ⟨n, rfl⟩ := Int.eq_ofNat_of_zero_le h
    simp [zpow_natCast]
  · rename_i h
    have h' : e = -(((-e).toNat : ℕ) : ℤ) := by omega
    conv_rhs => rw [h']
    rw [zpow_neg, zpow_natCast]
    simp

theorem zpow2_pos (e : Int) : (0 : ℚ) < (2 : ℚ) ^ e := by positivity

theorem zpow2_lt {a b : Int} : (2 : ℚ) ^ a < (2 : ℚ) ^ b ↔ a < b :=
  zpow_lt_zpow_iff_right₀ (by norm_num)

theorem zpow2_le {a b : Int} : (2 : ℚ) ^ a ≤ (2 : ℚ) ^ b ↔ a ≤ b :=
  zpow_le_zpow_iff_right₀ (by norm_num)

/-- `ilog2` is the binary exponent: `2^(ilog2 a) ≤ a < 2^(ilog2 a + 1)` for every positive rational -/
theorem ilog2_spec (a : ℚ) (ha : 0 < a) : (2 : ℚ) ^ (ilog2 a) ≤ a ∧ a < (2 : ℚ) ^ (ilog2 a + 1) := by
  have hnum : 0 < a.num := Rat.num_pos.mpr ha
  have hn0 : a.num.toNat ≠ 0 := by omega
  have hd0 : a.den ≠ 0 := a.den_nz
  set n := a.num.toNat with hn
  set d := a.den with hd
  have h1 := Nat.log2_self_le hn0
  have h2 := @Nat.lt_log2_self n
  have h3 := Nat.log2_self_le hd0
  have h4 := @Nat.lt_log2_self d
  have hdpos : (0 : ℚ) < (d : ℚ) := by exact_mod_cast Nat.pos_of_ne_zero hd0
  have had : a * (d : ℚ) = (n : ℚ) := by
    have := Rat.mul_den_eq_num a
    rw [this]
    have : ((a.num.toNat : ℕ) : ℤ) = a.num := Int.toNat_of_nonneg hnum.le
    exact_mod_cast this.symm
  -- casts of the four bounds
  have c1 : (2 : ℚ) ^ ((Nat.log2 n : ℕ) : ℤ) ≤ (n : ℚ) := by rw [zpow_natCast]; exact_mod_cast h1
  have c2 : (n : ℚ) < (2 : ℚ) ^ (((Nat.log2 n : ℕ) : ℤ) + 1) := by
    have : (n : ℚ) < (2 : ℚ) ^ (Nat.log2 n + 1) := by exact_mod_cast h2
    rw [← zpow_natCast] at this; push_cast at this; exact this
  have c3 : (2 : ℚ) ^ ((Nat.log2 d : ℕ) : ℤ) ≤ (d : ℚ) := by rw [zpow_natCast]; exact_mod_cast h3
  have c4 : (d : ℚ) < (2 : ℚ) ^ (((Nat.log2 d : ℕ) : ℤ) + 1) := by
    have : (d : ℚ) < (2 : ℚ) ^ (Nat.log2 d + 1) := by exact_mod_cast h4
    rw [← zpow_natCast] at this; push_cast at this; exact this
  set ln : ℤ := ((Nat.log2 n : ℕ) : ℤ) with hln
  set ld : ℤ := ((Nat.log2 d : ℕ) : ℤ) with hld
  have two_ne : (2 : ℚ) ≠ 0 := by norm_num
  -- 2^(e0-1) < a < 2^(e0+1)
  have lo : (2 : ℚ) ^ (ln - ld - 1) < a := by
    have e : (2 : ℚ) ^ (ln - ld - 1) * (2 : ℚ) ^ (ld + 1) = (2 : ℚ) ^ ln := by
      rw [← zpow_add₀ two_ne]; congr 1; ring
    have : (2 : ℚ) ^ (ln - ld - 1) * (d : ℚ) < a * (d : ℚ) := by
      calc (2 : ℚ) ^ (ln - ld - 1) * (d : ℚ) < (2 : ℚ) ^ (ln - ld - 1) * (2 : ℚ) ^ (ld + 1) :=
            mul_lt_mul_of_pos_left c4 (zpow2_pos _)
        _ = (2 : ℚ) ^ ln := e
        _ ≤ (n : ℚ) := c1
        _ = a * (d : ℚ) := had.symm
    exact lt_of_mul_lt_mul_right this hdpos.le
  have hi : a < (2 : ℚ) ^ (ln - ld + 1) := by
    have e : (2 : ℚ) ^ (ln - ld + 1) * (2 : ℚ) ^ ld = (2 : ℚ) ^ (ln + 1) := by
      rw [← zpow_add₀ two_ne]; congr 1; ring
    have : a * (d : ℚ) < (2 : ℚ) ^ (ln - ld + 1) * (d : ℚ) := by
      calc a * (d : ℚ) = (n : ℚ) := had
        _ < (2 : ℚ) ^ (ln + 1) := c2
        _ = (2 : ℚ) ^ (ln - ld + 1) * (2 : ℚ) ^ ld := e.symm
        _ ≤ (2 : ℚ) ^ (ln - ld + 1) * (d : ℚ) := mul_le_mul_of_nonneg_left c3 (zpow2_pos _).le
    exact lt_of_mul_lt_mul_right this hdpos.le
  have he0 : ((Nat.log2 a.num.toNat : ℕ) : ℤ) - ((Nat.log2 a.den : ℕ) : ℤ) = ln - ld := rfl
  unfold ilog2
  simp only [he0, pow2_eq_zpow]
  split
  · rename_i hlt
    refine ⟨lo.le, ?_⟩
    have : ln - ld - 1 + 1 = ln - ld := by ring
    rw [this]; exact hlt
  · rename_i hge
    split
    · rename_i hbig
      exact absurd hi (not_lt.mpr hbig)
    · exact ⟨not_lt.mp hge, hi⟩

/-- the binary exponent is unique -/
theorem ilog2_unique (a : ℚ) (ha : 0 < a) (k : ℤ) (h1 : (2 : ℚ) ^ k ≤ a) (h2 : a < (2 : ℚ) ^ (k + 1)) :
    ilog2 a = k := by
  obtain ⟨s1, s2⟩ := ilog2_spec a ha
  have a1 : ilog2 a < k + 1 := zpow2_lt.mp (lt_of_le_of_lt s1 h2)
  have a2 : k < ilog2 a + 1 := zpow2_lt.mp (lt_of_le_of_lt h1 s2)
  omega

theorem roundHalfEven_intCast (n : ℤ) : roundHalfEven (n : ℚ) = n := by
  unfold roundHalfEven
  simp [Rat.floor_intCast]

theorem floor_le_roundHalfEven (y : ℚ) : y.floor ≤ roundHalfEven y := by
  unfold roundHalfEven
  simp only
  split
  · exact le_refl _
  · split
    · omega
    · split <;> omega

theorem roundHalfEven_le_floor_succ (y : ℚ) : roundHalfEven y ≤ y.floor + 1 := by
  unfold roundHalfEven
  simp only
  split
  · omega
  · split
    · exact le_refl _
    · split <;> omega

theorem rat_floor_eq (y : ℚ) : y.floor = ⌊y⌋ := rfl

theorem roundHalfEven_nonneg (y : ℚ) (hy : 0 ≤ y) : 0 ≤ roundHalfEven y := by
  have : 0 ≤ y.floor := by rw [rat_floor_eq]; exact Int.floor_nonneg.mpr hy
  exact le_trans this (floor_le_roundHalfEven y)

theorem roundHalfEven_le_of_lt (y : ℚ) (M : ℤ) (hy : y < (M : ℚ)) : roundHalfEven y ≤ M := by
  have : y.floor < M := by rw [rat_floor_eq]; exact Int.floor_lt.mpr hy
  have := roundHalfEven_le_floor_succ y
  omega

theorem rd64_neg (x : ℚ) : rd64 (-x) = -(rd64 x) := by
  by_cases h0 : x = 0
  · subst h0; simp [rd64]
  · have hn0 : -x ≠ 0 := neg_ne_zero.mpr h0
    unfold rd64
    simp only [h0, hn0, if_false]
    by_cases hneg : x < 0
    · have hpos : ¬ (-x < 0) := by linarith
      simp only [hneg, hpos, if_true, if_false, neg_neg]
    · have hpos : -x < 0 := by
        rcases lt_or_gt_of_ne h0 with h | h
        · exact absurd h hneg
        · linarith
      simp only [hneg, hpos, if_true, if_false, neg_neg]

/-- `rd64` on a positive number, unfolded -/
theorem rd64_pos (a : ℚ) (ha : 0 < a) :
    rd64 a = (roundHalfEven (a / (2 : ℚ) ^ ((if ilog2 a < -1022 then (-1022 : ℤ) else ilog2 a) - 52)) : ℚ) *
      (2 : ℚ) ^ ((if ilog2 a < -1022 then (-1022 : ℤ) else ilog2 a) - 52) := by
  unfold rd64
  have h0 : a ≠ 0 := ne_of_gt ha
  have hn : ¬ a < 0 := not_lt.mpr ha.le
  simp only [h0, hn, if_false, pow2_eq_zpow]

/-- every `n · 2^(e−52)` with `0 < n ≤ 2^53`, `e ≥ −1022` is a binary64 number: `rd64` fixes it -/
theorem rd64_fix_of_form (e : ℤ) (n : ℤ) (he : -1022 ≤ e) (hn0 : 0 < n) (hn : n ≤ 2 ^ 53) :
    rd64 ((n : ℚ) * (2 : ℚ) ^ (e - 52)) = (n : ℚ) * (2 : ℚ) ^ (e - 52) := by
  have two_ne : (2 : ℚ) ≠ 0 := by norm_num
  set r : ℚ := (n : ℚ) * (2 : ℚ) ^ (e - 52) with hr
  have hnq : (0 : ℚ) < (n : ℚ) := by exact_mod_cast hn0
  have hrpos : 0 < r := mul_pos hnq (zpow2_pos _)
  have hnle : (n : ℚ) ≤ (2 : ℚ) ^ (53 : ℤ) := by
    have : ((2 ^ 53 : ℤ) : ℚ) = (2 : ℚ) ^ (53 : ℤ) := by norm_num
    rw [← this]; exact_mod_cast hn
  rw [rd64_pos r hrpos]
  -- it suffices that r / ulp2 is an integer
  suffices h : ∃ k : ℤ, r / (2 : ℚ) ^ ((if ilog2 r < -1022 then (-1022 : ℤ) else ilog2 r) - 52) = (k : ℚ) by
    obtain ⟨k, hk⟩ := h
    rw [hk, roundHalfEven_intCast, ← hk]
    field_simp
  obtain ⟨s1, s2⟩ := ilog2_spec r hrpos
  rcases lt_or_eq_of_le hn with hlt | heq
  · -- n < 2^53 : r < 2^(e+1), the exponent does not grow
    have hnlt : (n : ℚ) < (2 : ℚ) ^ (53 : ℤ) := by
      have : ((2 ^ 53 : ℤ) : ℚ) = (2 : ℚ) ^ (53 : ℤ) := by norm_num
      rw [← this]; exact_mod_cast hlt
    have hrlt : r < (2 : ℚ) ^ (e + 1) := by
      have : (2 : ℚ) ^ (e + 1) = (2 : ℚ) ^ (53 : ℤ) * (2 : ℚ) ^ (e - 52) := by
        rw [← zpow_add₀ two_ne]; congr 1; ring
      rw [this, hr]
      exact mul_lt_mul_of_pos_right hnlt (zpow2_pos _)
    have hle : ilog2 r < e + 1 := zpow2_lt.mp (lt_of_le_of_lt s1 hrlt)
    set e2 : ℤ := (if ilog2 r < -1022 then (-1022 : ℤ) else ilog2 r) with he2
    have he2le : e2 ≤ e := by
      rw [he2]; split <;> omega
    obtain ⟨j, hj⟩ := Int.eq_ofNat_of_zero_le (show 0 ≤ e - e2 by omega)
    refine ⟨n * 2 ^ j, ?_⟩
    have : (2 : ℚ) ^ (e - 52) = (2 : ℚ) ^ (j : ℤ) * (2 : ℚ) ^ (e2 - 52) := by
      rw [← zpow_add₀ two_ne]; congr 1; omega
    rw [hr, this, zpow_natCast]
    push_cast
    field_simp
  · -- n = 2^53 : r = 2^(e+1)
    have hreq : r = (2 : ℚ) ^ (e + 1) := by
      have : (n : ℚ) = (2 : ℚ) ^ (53 : ℤ) := by
        have h' : ((2 ^ 53 : ℤ) : ℚ) = (2 : ℚ) ^ (53 : ℤ) := by norm_num
        rw [← h']; exact_mod_cast heq
      rw [hr, this, ← zpow_add₀ two_ne]; congr 1; ring
    have hil : ilog2 r = e + 1 :=
      ilog2_unique r hrpos (e + 1) (le_of_eq hreq.symm) (by rw [hreq]; exact zpow2_lt.mpr (by omega))
    have hif : (if ilog2 r < -1022 then (-1022 : ℤ) else ilog2 r) = e + 1 := by
      rw [hil]; split <;> omega
    refine ⟨2 ^ 52, ?_⟩
    rw [hif, hreq]
    have : (2 : ℚ) ^ (e + 1) = (2 : ℚ) ^ (52 : ℤ) * (2 : ℚ) ^ (e + 1 - 52) := by
      rw [← zpow_add₀ two_ne]; congr 1; ring
    rw [this]
    push_cast
    field_simp

/-- **`rd64` is a projection.** -/
theorem rd64_idem (x : ℚ) : rd64 (rd64 x) = rd64 x := by
  -- positive case
  have pos : ∀ a : ℚ, 0 < a → rd64 (rd64 a) = rd64 a := by
    intro a ha
    have two_ne : (2 : ℚ) ≠ 0 := by norm_num
    rw [rd64_pos a ha]
    set e : ℤ := (if ilog2 a < -1022 then (-1022 : ℤ) else ilog2 a) with he
    have hege : -1022 ≤ e := by rw [he]; split <;> omega
    have hile : ilog2 a ≤ e := by rw [he]; split <;> omega
    set y : ℚ := a / (2 : ℚ) ^ (e - 52) with hy
    have hypos : 0 ≤ y := (div_pos ha (zpow2_pos _)).le
    have hn0 := roundHalfEven_nonneg y hypos
    have hylt : y < (((2 : ℤ) ^ 53 : ℤ) : ℚ) := by
      obtain ⟨_, s2⟩ := ilog2_spec a ha
      have h1 : a < (2 : ℚ) ^ (e + 1) := lt_of_lt_of_le s2 (zpow2_le.mpr (by omega))
      have h2 : (2 : ℚ) ^ (e + 1) = (2 : ℚ) ^ (53 : ℤ) * (2 : ℚ) ^ (e - 52) := by
        rw [← zpow_add₀ two_ne]; congr 1; ring
      rw [hy, div_lt_iff₀ (zpow2_pos _)]
      have : (((2 : ℤ) ^ 53 : ℤ) : ℚ) = (2 : ℚ) ^ (53 : ℤ) := by norm_num
      rw [this, ← h2]; exact h1
    have hnle := roundHalfEven_le_of_lt y (2 ^ 53) hylt
    rcases lt_or_eq_of_le hn0 with hpos | hzero
    · exact rd64_fix_of_form e _ hege hpos hnle
    · rw [← hzero]; simp [rd64]
  rcases lt_trichotomy x 0 with h | h | h
  · have hx : x = -(-x) := by ring
    have := pos (-x) (by linarith)
    rw [hx, rd64_neg, rd64_neg, this]
  · subst h; simp [rd64]
  · exact pos x h

end QcelVerif.Nucleus
