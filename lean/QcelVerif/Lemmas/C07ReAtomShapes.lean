import QcelVerif.Lemmas.C07ReNumberI
/-!
C07 — atom lines: `atom_cartesian = \A(?P<nucleus>NUCLEUS) SEP CARTXYZ \Z` and `atom_cartesian_strict` (SIMPLENUCLEUS), cut into
the nucleus group and the Cartesian tail.  Shapes by `rfl`.
-/
namespace QcelVerif.MolText
open QcelVerif.Regex QcelVerif.Gen

/-- the body of `(?P<nucleus> NUCLEUS )` inside atom_cartesian (IGNORECASE | VERBOSE): NUCLEUS with its groups numbered 2..15
(gh1 = 2, gh2 = 3, label1 = 5, A = 6, E = 7, user1 = 8, label2 = 11, Z = 12, user2 = 13, mass = 15) -/
def nucLine : Re :=
  (.seq
  (.rep 0 (some 1) true
    (.alt
      (.group 2
        (.cls false [.ch 64]))
      (.group 3
        (.seq
          (.cls false [.ch 71, .ch 103])
          (.seq
            (.cls false [.ch 104, .ch 72])
            (.cls false [.ch 40]))))))
  (.seq
    (.group 4
      (.alt
        (.group 5
          (.seq
            (.rep 0 (some 1) true
              (.group 6
                (.rep 1 none true
                  (.cls false [.digit]))))
            (.seq
              (.group 7
                (.rep 1 (some 3) true
                  (.cls false [.range 65 90, .range 97 122])))
              (.rep 0 (some 1) true
                (.group 8
                  (.alt
                    (.group 9
                      (.seq
                        (.cls false [.ch 95])
                        (.rep 1 none true
                          (.cls false [.word]))))
                    (.group 10
                      (.rep 1 none true
                        (.cls false [.digit])))))))))
        (.group 11
          (.seq
            (.group 12
              (.rep 1 (some 3) true
                (.cls false [.digit])))
            (.rep 0 (some 1) true
              (.group 13
                (.group 14
                  (.seq
                    (.cls false [.ch 95])
                    (.rep 1 none true
                      (.cls false [.word]))))))))))
    (.seq
      (.rep 0 (some 1) true
        (.seq
          (.cls false [.ch 64])
          (.group 15
            (.seq
              (.rep 1 none true
                (.cls false [.digit]))
              (.seq
                (.cls false [.ch 46])
                (.rep 1 none true
                  (.cls false [.digit])))))))
      (.ifGroup 3
        (.cls false [.ch 41])
        .eps))))

/-- the body of `(?P<nucleus> SIMPLENUCLEUS )` inside atom_cartesian_strict: `((?P<E>[A-Z]{1,3})|(?P<Z>\d{1,3}))` -/
def simpleNuc : Re :=
  (.group 2
  (.alt
    (.group 3
      (.rep 1 (some 3) true
        (.cls false [.range 65 90, .range 97 122])))
    (.group 4
      (.rep 1 (some 3) true
        (.cls false [.digit])))))

/-- SEP `(?P<x>NUMBER)` SEP `(?P<y>NUMBER)` SEP `(?P<z>NUMBER)` `\Z` with the group numbers of the three coordinates -/
def cartTail (gx gy gz : Nat) : Re :=
  .seq sepPlus (.seq (.group gx (.group (gx + 1) numberBodyI)) (.seq sepPlus (.seq (.group gy (.group (gy + 1) numberBodyI))
    (.seq sepPlus (.seq (.group gz (.group (gz + 1) numberBodyI)) .eos)))))

def atomLineRe (N : Re) (gx gy gz : Nat) : Re := .seq .bos (.seq (.group 1 N) (cartTail gx gy gz))

theorem atomCartesian_shape : FromStringRegex.atomCartesian = atomLineRe nucLine 16 18 20 := rfl
theorem atomCartesianStrict_shape : FromStringRegex.atomCartesianStrict = atomLineRe simpleNuc 5 7 9 := rfl
theorem atomCartesian_groups : FromStringRegex.atomCartesianG.nucleus = 1 ∧ FromStringRegex.atomCartesianG.x = 16 ∧
    FromStringRegex.atomCartesianG.y = 18 ∧ FromStringRegex.atomCartesianG.z = 20 := ⟨rfl, rfl, rfl, rfl⟩
theorem atomCartesianStrict_groups : FromStringRegex.atomCartesianStrictG.nucleus = 1 ∧ FromStringRegex.atomCartesianStrictG.x = 5 ∧
    FromStringRegex.atomCartesianStrictG.y = 7 ∧ FromStringRegex.atomCartesianStrictG.z = 9 := ⟨rfl, rfl, rfl, rfl⟩

/-- "the nucleus group of an atom line, matched from the start of a line, takes exactly the prefixes accepted by the hand predicate
`P`, and captures them as group 1" (extent of a pattern WITH inner groups, at the start of a line only) -/
def NucExtFor (N : Re) (P : Str → Bool) : Prop :=
  ∀ s : Str,
    (∀ x ∈ (Re.group 1 N).ms (St.init (toBytes s)),
        ∃ t r, s = t ++ r ∧ P t = true ∧ x.rest = toBytes r ∧ x.group 1 = some (toBytes t)) ∧
    (∀ t r, s = t ++ r → P t = true → ∃ x, x ∈ (Re.group 1 N).ms (St.init (toBytes s)) ∧ x.rest = toBytes r)

end QcelVerif.MolText
