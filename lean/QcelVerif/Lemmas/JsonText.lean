import QcelVerif.Model.JsonText
import QcelVerif.Lemmas.Serialize
/-! Helper lemmas for the JSON text layer of C10 (`Props/C10Text.lean`). Core Lean only. -/
namespace QcelVerif.Ser

/-! ### whitespace, literals -/

theorem skipWs_of_head {c : Char} {r : List Char} (h : isJWs c = false) : skipWs (c :: r) = c :: r := by
  simp [skipWs, h]

theorem skipWs_space (r : List Char) : skipWs (' ' :: r) = skipWs r := by
  simp [skipWs, isJWs]

theorem skipWs_all_ws : ∀ (w r : List Char), (∀ c ∈ w, isJWs c = true) → skipWs (w ++ r) = skipWs r
  | [], _, _ => rfl
  | c :: t, r, h => by
    have hc : isJWs c = true := h c (List.mem_cons_self ..)
    have ht : ∀ c' ∈ t, isJWs c' = true := fun c' hc' => h c' (List.mem_cons_of_mem _ hc')
    simp only [List.cons_append, skipWs, hc, if_true]
    exact skipWs_all_ws t r ht

theorem stripPrefix_append : ∀ (p r : List Char), stripPrefix p (p ++ r) = some r
  | [], r => by simp [stripPrefix]
  | a :: p, r => by simp [stripPrefix, stripPrefix_append p r]

/-! ### `\uXXXX` -/

theorem hex4?_cons (a b c d : Char) (r : List Char) (x y z w : Nat) (h1 : unhexDigit a = some x)
    (h2 : unhexDigit b = some y) (h3 : unhexDigit c = some z) (h4 : unhexDigit d = some w) :
    hex4? (a :: b :: c :: d :: r) = some (((x * 16 + y) * 16 + z) * 16 + w, r) := by
  rw [hex4?, h1, h2, h3, h4]

theorem hex4?_hex4 (n : Nat) (h : n < 65536) (r : List Char) : hex4? (hex4 n ++ r) = some (n, r) := by
  have h1 := unhex_hex_digit (n / 4096 % 16) (by omega)
  have h2 := unhex_hex_digit (n / 256 % 16) (by omega)
  have h3 := unhex_hex_digit (n / 16 % 16) (by omega)
  have h4 := unhex_hex_digit (n % 16) (by omega)
  have e : hex4 n ++ r = hexDigit (n / 4096 % 16) :: hexDigit (n / 256 % 16) :: hexDigit (n / 16 % 16)
      :: hexDigit (n % 16) :: r := rfl
  rw [e, hex4?_cons _ _ _ _ r _ _ _ _ h1 h2 h3 h4]
  have : ((n / 4096 % 16 * 16 + n / 256 % 16) * 16 + n / 16 % 16) * 16 + n % 16 = n := by omega
  rw [this]

theorem char_toNat_valid (c : Char) : c.toNat < 0xd800 ∨ (0xdfff < c.toNat ∧ c.toNat < 0x110000) := c.valid

theorem unescapeU_bmp (n : Nat) (c : Char) (r : List Char) (hn : n < 65536) (h1 : ¬ (0xd800 ≤ n ∧ n < 0xdc00))
    (h2 : ¬ (0xdc00 ≤ n ∧ n < 0xe000)) (hc : n = c.toNat) : unescapeU (hex4 n ++ r) = .ok (c, r) := by
  rw [unescapeU, hex4?_hex4 _ hn]
  simp only [if_neg h1, if_neg h2]
  rw [hc, Char.ofNat_toNat]

/-- a BMP character written as `\uXXXX` is read back -/
theorem unescape_bmp (c : Char) (h : c.toNat < 0x10000) (r : List Char) :
    unescape ('u' :: (hex4 c.toNat ++ r)) = .ok (c, r) := by
  have hv := char_toNat_valid c
  have := unescapeU_bmp c.toNat c r h (by omega) (by omega) rfl
  simpa [unescape] using this

theorem pair_arith (n : Nat) (h : 0x10000 ≤ n) (hlt : n < 0x110000) :
    0xd800 + (n - 0x10000) / 1024 < 65536 ∧ 0xdc00 + (n - 0x10000) % 1024 < 65536 ∧
    (0xd800 ≤ 0xd800 + (n - 0x10000) / 1024 ∧ 0xd800 + (n - 0x10000) / 1024 < 0xdc00) ∧
    (0xdc00 ≤ 0xdc00 + (n - 0x10000) % 1024 ∧ 0xdc00 + (n - 0x10000) % 1024 < 0xe000) ∧
    0x10000 + (0xd800 + (n - 0x10000) / 1024 - 0xd800) * 1024 + (0xdc00 + (n - 0x10000) % 1024 - 0xdc00) = n := by
  omega

theorem unescapeU_pair (H L : Nat) (c : Char) (r : List Char) (hhi : H < 65536) (hlo : L < 65536)
    (h1 : 0xd800 ≤ H ∧ H < 0xdc00) (h2 : 0xdc00 ≤ L ∧ L < 0xe000)
    (hsum : 0x10000 + (H - 0xd800) * 1024 + (L - 0xdc00) = c.toNat) :
    unescapeU (hex4 H ++ (uEsc L ++ r)) = .ok (c, r) := by
  have hsp : stripPrefix ['\\', 'u'] (uEsc L ++ r) = some (hex4 L ++ r) := by
    simp [uEsc, stripPrefix]
  rw [unescapeU, hex4?_hex4 _ hhi]
  simp only [h1, and_self, if_true, hsp, hex4?_hex4 _ hlo, h2, hsum, Char.ofNat_toNat]

/-- a character beyond the BMP written as a surrogate pair is read back -/
theorem unescape_pair (c : Char) (h : 0x10000 ≤ c.toNat) (r : List Char) :
    unescape ('u' :: (hex4 (0xd800 + (c.toNat - 0x10000) / 1024) ++
      (uEsc (0xdc00 + (c.toNat - 0x10000) % 1024) ++ r))) = .ok (c, r) := by
  have hv := char_toNat_valid c
  have hlt : c.toNat < 0x110000 := by omega
  obtain ⟨hhi, hlo, h1, h2, hsum⟩ := pair_arith c.toNat h hlt
  have := unescapeU_pair _ _ c r hhi hlo h1 h2 hsum
  simpa [unescape] using this

theorem escChar_length_pos (c : Char) : 0 < (escChar c).length := by
  unfold escChar
  repeat' split
  all_goals simp [uEsc, hex4]

theorem length_le_escStr : ∀ s : List Char, s.length ≤ (escStr s).length
  | [] => by simp [escStr]
  | c :: t => by
    have := escChar_length_pos c
    have := length_le_escStr t
    simp only [escStr, List.length_append, List.length_cons]
    omega

local macro "fin_match" : tactic =>
  `(tactic| first | rfl | (cases parseStr _ _ with | error e => rfl | ok p => cases p; rfl))

/-- one character: whatever `escChar` writes, `parseStr` turns back into that character -/
theorem parseStr_escChar (c : Char) (f : Nat) (r : List Char) :
    parseStr (f + 1) (escChar c ++ r) =
      match parseStr f r with
      | .error e => .error e
      | .ok (cs, r2) => .ok (c :: cs, r2) := by
  unfold escChar
  split
  · subst c; simp [parseStr, unescape]; fin_match
  split
  · subst c; simp [parseStr, unescape]; fin_match
  split
  · subst c; simp [parseStr, unescape]; fin_match
  split
  · subst c; simp [parseStr, unescape]; fin_match
  split
  · subst c; simp [parseStr, unescape]; fin_match
  split
  · subst c; simp [parseStr, unescape]; fin_match
  split
  · subst c; simp [parseStr, unescape]; fin_match
  split
  · rename_i h1 h2 _ _ _ _ _ hp
    have hlt : ¬ c.toNat < 0x20 := by omega
    simp only [List.cons_append, List.nil_append, parseStr, if_neg h1, if_neg h2, if_neg hlt]
    fin_match
  split
  · rename_i hb
    simp only [uEsc, List.cons_append, parseStr]
    simp only [show ('\\' : Char) ≠ '"' by decide, if_false, if_true, unescape_bmp c hb r]
    fin_match
  · rename_i hb
    have hb' : 0x10000 ≤ c.toNat := by omega
    have := unescape_pair c hb' r
    simp only [uEsc, List.cons_append, List.append_assoc, parseStr] at this ⊢
    simp only [show ('\\' : Char) ≠ '"' by decide, if_false, if_true, this]
    fin_match

theorem parseStr_escStr : ∀ (cs : List Char) (fuel : Nat) (rest : List Char), cs.length < fuel →
    parseStr fuel (escStr cs ++ '"' :: rest) = .ok (cs, rest)
  | [], fuel, rest, h => by
    obtain ⟨f, rfl⟩ : ∃ f, fuel = f + 1 := ⟨fuel - 1, by simp at h; omega⟩
    simp [escStr, parseStr]
  | c :: t, fuel, rest, h => by
    obtain ⟨f, rfl⟩ : ∃ f, fuel = f + 1 := ⟨fuel - 1, by simp at h; omega⟩
    have ht : t.length < f := by simp at h; omega
    rw [escStr, List.append_assoc, parseStr_escChar, parseStr_escStr t f rest ht]

/-- a whole quoted string followed by anything -/
theorem parseStr_printStr (s rest : List Char) :
    parseStr ((escStr s ++ '"' :: rest).length + 1) (escStr s ++ '"' :: rest) = .ok (s, rest) := by
  apply parseStr_escStr
  have := length_le_escStr s
  simp only [List.length_append, List.length_cons]
  omega

/-! ### number tokens -/

/-- what may follow a number: the end of the text or a character that cannot continue a number token -/
def stopOK : List Char → Bool
  | [] => true
  | c :: _ => !isNumChar c

theorem takeWhile_all {α : Type} (p : α → Bool) : ∀ l : List α, (∀ a ∈ l, p a = true) →
    l.takeWhile p = l ∧ l.dropWhile p = []
  | [], _ => by simp
  | a :: t, h => by
    have ha : p a = true := h a (List.mem_cons_self ..)
    have ht := takeWhile_all p t (fun b hb => h b (List.mem_cons_of_mem _ hb))
    simp [List.takeWhile, List.dropWhile, ha, ht.1, ht.2]

theorem span_tok : ∀ (tok rest : List Char), (∀ c ∈ tok, isNumChar c = true) → stopOK rest = true →
    (tok ++ rest).takeWhile isNumChar = tok ∧ (tok ++ rest).dropWhile isNumChar = rest
  | [], [], _, _ => by simp
  | [], c :: r, _, hs => by
    have : isNumChar c = false := by simpa [stopOK] using hs
    simp [List.takeWhile, List.dropWhile, this]
  | a :: t, rest, h, hs => by
    have ha : isNumChar a = true := h a (List.mem_cons_self ..)
    have ht := span_tok t rest (fun b hb => h b (List.mem_cons_of_mem _ hb)) hs
    simp [List.takeWhile, List.dropWhile, ha, ht.1, ht.2]

theorem isNumChar_of_isDigit {c : Char} (h : c.isDigit = true) : isNumChar c = true := by
  simp [isNumChar, h]

theorem digit_ne_minus {c : Char} (h : c.isDigit = true) : c ≠ '-' := by
  intro hc; subst hc; simp [Char.isDigit] at h

theorem isJWs_of_numStart {c : Char} (h : c = '-' ∨ c.isDigit = true) : isJWs c = false := by
  rcases h with rfl | h
  · decide
  · have h' : 48 ≤ c.val ∧ c.val ≤ 57 := by simpa [Char.isDigit] using h
    have h1 : 48 ≤ c.val.toNat := by simpa using (UInt32.le_iff_toNat_le.mp h'.1)
    have e1 : c ≠ ' ' := by intro hc; subst hc; simp at h1
    have e2 : c ≠ '\t' := by intro hc; subst hc; simp at h1
    have e3 : c ≠ '\n' := by intro hc; subst hc; simp at h1
    have e4 : c ≠ '\r' := by intro hc; subst hc; simp at h1
    simp [isJWs, e1, e2, e3, e4]

/-! ### integers -/

theorem toDigits_all_digit (n : Nat) : ∀ c ∈ Nat.toDigits 10 n, c.isDigit = true :=
  fun _ hc => Nat.isDigit_of_mem_toDigits (by decide) (by decide) hc

theorem toDigits_head_ne_zero : ∀ n : Nat, 0 < n → (Nat.toDigits 10 n).head? ≠ some '0' := by
  intro n
  induction n using Nat.strongRecOn with
  | _ n ih =>
    intro hn
    rw [Nat.toDigits_eq_if (by decide)]
    split
    · rename_i hlt
      have : n = 1 ∨ n = 2 ∨ n = 3 ∨ n = 4 ∨ n = 5 ∨ n = 6 ∨ n = 7 ∨ n = 8 ∨ n = 9 := by omega
      rcases this with h | h | h | h | h | h | h | h | h <;> subst h <;> decide
    · rename_i hge
      have hpos : 0 < n / 10 := by omega
      have hne : Nat.toDigits 10 (n / 10) ≠ [] := Nat.toDigits_ne_nil
      have := ih (n / 10) (by omega) hpos
      cases hd : Nat.toDigits 10 (n / 10) with
      | nil => exact absurd hd hne
      | cons a t => rw [hd] at this; simpa using this

theorem toDigits_no_leading_zero (n : Nat) :
    ((Nat.toDigits 10 n).head? == some '0' && decide (1 < (Nat.toDigits 10 n).length)) = false := by
  by_cases hn : n < 10
  · rw [Nat.toDigits_of_lt_base hn]; simp
  · have := toDigits_head_ne_zero n (by omega)
    cases hd : Nat.toDigits 10 n with
    | nil => simp
    | cons a t =>
      rw [hd] at this
      have : a ≠ '0' := by simpa using this
      simp [this]

/-- a non-empty run of digits without a superfluous leading zero is an `int` token, with or without a minus sign -/
theorem numKind_digits (ds : List Char) (hne : ds ≠ []) (hall : ∀ c ∈ ds, c.isDigit = true)
    (hz : (ds.head? == some '0' && decide (1 < ds.length)) = false) :
    numKind ds = some .int ∧ numKind ('-' :: ds) = some .int := by
  obtain ⟨a, t, rfl⟩ : ∃ a t, ds = a :: t := by
    cases ds with
    | nil => exact absurd rfl hne
    | cons a t => exact ⟨a, t, rfl⟩
  have ha : a ≠ '-' := digit_ne_minus (hall a (List.mem_cons_self ..))
  have hsp := takeWhile_all Char.isDigit (a :: t) hall
  have hd1 : dropMinus (a :: t) = a :: t := by simp [dropMinus, ha]
  have hd2 : dropMinus ('-' :: a :: t) = a :: t := by simp [dropMinus]
  constructor
  · simp only [numKind, hd1, hsp.1, hsp.2, hz]
    simp
  · simp only [numKind, hd2, hsp.1, hsp.2, hz]
    simp

theorem printInt_spec (i : Int) :
    (∀ c ∈ printInt i, isNumChar c = true) ∧ startsNum (printInt i) = true ∧ numKind (printInt i) = some .int ∧
      intOfTok (printInt i) = i ∧ printInt i ≠ ['-'] := by
  cases i with
  | ofNat n =>
    have hall := toDigits_all_digit n
    have hne : Nat.toDigits 10 n ≠ [] := Nat.toDigits_ne_nil
    have hk := numKind_digits _ hne hall (toDigits_no_leading_zero n)
    obtain ⟨a, t, hd⟩ : ∃ a t, Nat.toDigits 10 n = a :: t := by
      cases h : Nat.toDigits 10 n with
      | nil => exact absurd h hne
      | cons a t => exact ⟨a, t, rfl⟩
    have ha : a.isDigit = true := hall a (by rw [hd]; exact List.mem_cons_self ..)
    have ham : a ≠ '-' := digit_ne_minus ha
    refine ⟨fun c hc => isNumChar_of_isDigit (hall c hc), ?_, hk.1, ?_, ?_⟩
    · simp [printInt, hd, startsNum, ha]
    · have h10 := @Nat.ofDigitChars_ten_toDigits n
      simp only [printInt]
      rw [hd] at h10 ⊢
      simp [intOfTok, ham, h10]
    · simp only [printInt, hd]
      intro h
      injection h with h1 _
      exact ham h1
  | negSucc n =>
    have hall := toDigits_all_digit (n + 1)
    have hne : Nat.toDigits 10 (n + 1) ≠ [] := Nat.toDigits_ne_nil
    have hk := numKind_digits _ hne hall (toDigits_no_leading_zero (n + 1))
    refine ⟨?_, ?_, hk.2, ?_, ?_⟩
    · intro c hc
      simp only [printInt, List.mem_cons] at hc
      rcases hc with rfl | hc
      · decide
      · exact isNumChar_of_isDigit (hall c hc)
    · simp [printInt, startsNum]
    · have h10 := @Nat.ofDigitChars_ten_toDigits (n + 1)
      simp only [printInt, intOfTok, if_true, h10]
      rfl
    · simp only [printInt]
      intro h
      injection h with _ h2
      exact hne h2

/-! ### float tokens -/

theorem tokOk_spec {t : List Char} (h : tokOk t = true) :
    (∀ c ∈ t, isNumChar c = true) ∧ startsNum t = true ∧ numKind t = some .float ∧ t ≠ ['-'] := by
  simp only [tokOk, Bool.and_eq_true, List.all_eq_true, beq_iff_eq] at h
  refine ⟨h.1.1, h.1.2, h.2, ?_⟩
  intro ht
  rw [ht] at h
  exact absurd h.2 (by decide)

end QcelVerif.Ser
