import QcelVerif.Model.Protocols
/-!
Helper lemmas for C20 (everything that is not a property statement).
-/
namespace QcelVerif.Protocols

/-! ### small generalities -/

theorem opt_ext {α : Type} {a b : Option α} (h : ∀ v, a = some v ↔ b = some v) : a = b := by
  cases a with
  | none =>
    cases b with
    | none => rfl
    | some y => exact ((h y).mpr rfl)
  | some x => exact ((h x).mp rfl).symm

theorem Wfn.ext' {β : Type} {w w' : Wfn β} (h1 : w.restricted = w'.restricted) (h2 : w.basis = w'.basis)
    (h3 : ∀ k, w.arr k = w'.arr k) (h4 : ∀ k, w.ptr k = w'.ptr k) : w = w' := by
  cases w; cases w'
  simp only [Wfn.mk.injEq] at *
  exact ⟨h1, h2, funext h3, funext h4⟩

theorem PropsIn.ext' {p q : PropsIn} (h1 : p.natom = q.natom) (h2 : ∀ k, p.arr k = q.arr k) : p = q := by
  cases p; cases q
  simp only [PropsIn.mk.injEq] at *
  exact ⟨h1, funext h2⟩

/-! ### shapes -/

@[simp] theorem prod_nil : prod [] = 1 := rfl
@[simp] theorem prod_cons (x : Nat) (xs : List Nat) : prod (x :: xs) = x * prod xs := rfl
theorem prod_one (x : Nat) : prod [x] = x := by simp
theorem prod_two (x y : Nat) : prod [x, y] = x * y := by simp

theorem isqrtAux_spec (n : Nat) : ∀ k, isqrtAux n k ≤ k ∧ isqrtAux n k * isqrtAux n k ≤ n ∧
    ∀ j, j ≤ k → j * j ≤ n → j ≤ isqrtAux n k
  | 0 => by simp [isqrtAux]
  | k + 1 => by
    have ih := isqrtAux_spec n k
    unfold isqrtAux
    split
    · rename_i h
      exact ⟨Nat.le_refl _, h, fun j hj _ => hj⟩
    · rename_i h
      refine ⟨Nat.le_succ_of_le ih.1, ih.2.1, fun j hj hjn => ?_⟩
      by_cases hjk : j = k + 1
      · subst hjk; exact absurd hjn h
      · exact ih.2.2 j (by omega) hjn

theorem le_mul_self (m : Nat) : m ≤ m * m := by
  cases m with
  | zero => simp
  | succ k => exact Nat.le_mul_of_pos_left _ (Nat.succ_pos k)

/-- the integer square root recognises perfect squares -/
theorem isqrt_sq (m : Nat) : isqrt (m * m) = m := by
  have h := isqrtAux_spec (m * m) (m * m)
  have h1 : m ≤ isqrt (m * m) := h.2.2 m (le_mul_self m) (Nat.le_refl _)
  have h2 : isqrt (m * m) ≤ m := Nat.mul_self_le_mul_self_iff.mp h.2.1
  exact Nat.le_antisymm h2 h1

theorem isqrt_sq_iff (n : Nat) : isqrt n * isqrt n = n ↔ ∃ k, k * k = n := by
  constructor
  · intro h; exact ⟨_, h⟩
  · rintro ⟨k, rfl⟩; rw [isqrt_sq]

/-! ### membership in the key universes -/

theorem PropArr.mem_all (k : PropArr) : k ∈ PropArr.all := by
  cases k <;> simp [PropArr.all]

theorem ArrKey.mem_all (k : ArrKey) : k ∈ ArrKey.all := by
  obtain ⟨b, s⟩ := k
  cases b <;> cases s <;> simp [ArrKey.all, ArrBase.all, flatten]

theorem PtrKey.mem_all (k : PtrKey) : k ∈ PtrKey.all := by
  obtain ⟨b, s⟩ := k
  cases b <;> cases s <;> simp [PtrKey.all, PtrBase.all, flatten]

theorem filter_eq_nil_all {α : Type} {l : List α} {p : α → Bool} (h : l.filter p = []) : ∀ x ∈ l, p x = false := by
  intro x hx
  cases hp : p x with
  | false => rfl
  | true =>
    have : x ∈ l.filter p := List.mem_filter.mpr ⟨hx, hp⟩
    rw [h] at this; cases this

theorem filter_nil_of_all {α : Type} {l : List α} {p : α → Bool} (h : ∀ x ∈ l, p x = false) : l.filter p = [] := by
  induction l with
  | nil => rfl
  | cons a t ih =>
    have ha : p a = false := h a (by simp)
    have ht : ∀ x ∈ t, p x = false := fun x hx => h x (by simp [hx])
    simp [List.filter, ha, ih ht]

/-! ### reshape rules -/

theorem reshapeExact_eq_some {t s r : Shape} : reshapeExact t s = some r ↔ (prod t = prod s ∧ r = t) := by
  unfold reshapeExact
  split <;> simp_all [eq_comm]

theorem reshapeRows_eq_some {n : Nat} {s r : Shape} :
    reshapeRows n s = some r ↔ (0 < n ∧ prod s % n = 0 ∧ r = [n, prod s / n]) := by
  unfold reshapeRows
  by_cases hn : n = 0
  · simp [hn]
  · by_cases hd : prod s % n = 0
    · simp [hn, hd, Nat.pos_of_ne_zero hn, eq_comm]
    · simp [hn, hd]

theorem reshapeCols3_eq_some {s r : Shape} :
    reshapeCols3 s = some r ↔ (prod s % 3 = 0 ∧ r = [prod s / 3, 3]) := by
  unfold reshapeCols3
  by_cases hd : prod s % 3 = 0
  · simp [hd, eq_comm]
  · simp [hd]

theorem reshapeSquare_eq_some {s r : Shape} :
    reshapeSquare s = some r ↔ ∃ k, k * k = prod s ∧ r = [k, k] := by
  unfold reshapeSquare
  constructor
  · intro h
    by_cases hq : isqrt (prod s) * isqrt (prod s) = prod s
    · simp [hq] at h
      exact ⟨_, hq, h.symm⟩
    · simp [hq] at h
  · rintro ⟨k, hk, rfl⟩
    have : isqrt (prod s) = k := by rw [← hk, isqrt_sq]
    simp [this, hk]

theorem mul_div_of_mod {a n : Nat} (h : a % n = 0) : n * (a / n) = a := by
  have := Nat.div_add_mod a n
  omega

theorem div_mul_of_mod {a n : Nat} (h : a % n = 0) : a / n * n = a := by
  rw [Nat.mul_comm]; exact mul_div_of_mod h

/-- every array validator of WavefunctionProperties maps its own output to itself -/
theorem applyArrRule_idem {nbf : Option Nat} {r : ArrRule} {s s' : Shape}
    (h : applyArrRule nbf r s = some s') : applyArrRule nbf r s' = some s' := by
  cases r with
  | flat =>
    simp only [applyArrRule, reshapeFlat, Option.some.injEq] at h ⊢
    subst h; simp
  | unvalidated => simp [applyArrRule]
  | square =>
    cases nbf with
    | none => simp [applyArrRule]
    | some n =>
      simp only [applyArrRule] at h ⊢
      obtain ⟨_, rfl⟩ := reshapeExact_eq_some.mp h
      exact reshapeExact_eq_some.mpr ⟨rfl, rfl⟩
  | rows =>
    cases nbf with
    | none => simp [applyArrRule]
    | some n =>
      simp only [applyArrRule] at h ⊢
      obtain ⟨hn, hd, rfl⟩ := reshapeRows_eq_some.mp h
      have hp : prod [n, prod s / n] = prod s := by simp [mul_div_of_mod hd]
      exact reshapeRows_eq_some.mpr ⟨hn, by rw [hp]; exact hd, by rw [hp]⟩

theorem applyArrRule_size {nbf : Option Nat} {r : ArrRule} {s s' : Shape}
    (h : applyArrRule nbf r s = some s') : prod s' = prod s := by
  cases r with
  | flat =>
    simp only [applyArrRule, reshapeFlat, Option.some.injEq] at h
    subst h; simp
  | unvalidated => simp only [applyArrRule, Option.some.injEq] at h; subst h; rfl
  | square =>
    cases nbf with
    | none => simp only [applyArrRule, Option.some.injEq] at h; subst h; rfl
    | some n =>
      simp only [applyArrRule] at h
      obtain ⟨h1, rfl⟩ := reshapeExact_eq_some.mp h
      exact h1
  | rows =>
    cases nbf with
    | none => simp only [applyArrRule, Option.some.injEq] at h; subst h; rfl
    | some n =>
      simp only [applyArrRule] at h
      obtain ⟨_, hd, rfl⟩ := reshapeRows_eq_some.mp h
      simp [mul_div_of_mod hd]

theorem applyPropRule_idem {natom : Option Nat} {r : PropRule} {s s' : Shape}
    (h : applyPropRule natom r s = some s') : applyPropRule natom r s' = some s' := by
  cases r with
  | dipole =>
    simp only [applyPropRule] at h ⊢
    obtain ⟨_, rfl⟩ := reshapeExact_eq_some.mp h
    exact reshapeExact_eq_some.mpr ⟨rfl, rfl⟩
  | quadrupole =>
    simp only [applyPropRule] at h ⊢
    obtain ⟨_, rfl⟩ := reshapeExact_eq_some.mp h
    exact reshapeExact_eq_some.mpr ⟨rfl, rfl⟩
  | gradient =>
    cases natom with
    | none => simp [applyPropRule] at h
    | some n =>
      simp only [applyPropRule] at h ⊢
      obtain ⟨_, rfl⟩ := reshapeExact_eq_some.mp h
      exact reshapeExact_eq_some.mpr ⟨rfl, rfl⟩
  | hessian =>
    cases natom with
    | none => simp [applyPropRule] at h
    | some n =>
      simp only [applyPropRule] at h ⊢
      obtain ⟨_, rfl⟩ := reshapeExact_eq_some.mp h
      exact reshapeExact_eq_some.mpr ⟨rfl, rfl⟩

/-! ### properties -/

theorem propFails_nil_iff (p : PropsIn) : propFails p = [] ↔ ∀ k, propOut p k ≠ some none := by
  unfold propFails
  constructor
  · intro h k hk
    have := filter_eq_nil_all h k (PropArr.mem_all k)
    simp [hk] at this
  · intro h
    apply filter_nil_of_all
    intro k _
    have := h k
    cases hk : propOut p k with
    | none => rfl
    | some o =>
      cases o with
      | none => exact absurd hk this
      | some _ => rfl

theorem validateProps_ok_iff (p o : PropsIn) :
    validateProps p = .ok o ↔ (propFails p = [] ∧ o = { natom := p.natom, arr := fun k => (propOut p k).join }) := by
  unfold validateProps
  cases h : propFails p with
  | nil => simp [eq_comm]
  | cons a t => simp

theorem validateRR_idem {d : Driver} {v v' : RR} (h : validateRR d v = some v') : validateRR d v' = some v' := by
  cases d with
  | energy => simp [validateRR]
  | properties => simp [validateRR]
  | gradient =>
    simp only [validateRR, Option.map_eq_some_iff] at h
    obtain ⟨r, hr, rfl⟩ := h
    obtain ⟨hd, rfl⟩ := reshapeCols3_eq_some.mp hr
    have hp : prod [prod v.asShape / 3, 3] = prod v.asShape := by simp [div_mul_of_mod hd]
    have hr2 : reshapeCols3 [prod v.asShape / 3, 3] = some [prod v.asShape / 3, 3] :=
      reshapeCols3_eq_some.mpr ⟨by rw [hp]; exact hd, by rw [hp]⟩
    show Option.map RR.arr (reshapeCols3 [prod v.asShape / 3, 3]) = some (RR.arr [prod v.asShape / 3, 3])
    rw [hr2]; rfl
  | hessian =>
    simp only [validateRR, Option.map_eq_some_iff] at h
    obtain ⟨r, hr, rfl⟩ := h
    obtain ⟨k, hk, rfl⟩ := reshapeSquare_eq_some.mp hr
    have hr2 : reshapeSquare [k, k] = some [k, k] := reshapeSquare_eq_some.mpr ⟨k, by simp, rfl⟩
    show Option.map RR.arr (reshapeSquare [k, k]) = some (RR.arr [k, k])
    rw [hr2]; rfl

/-! ### basis sets -/

def BasisIn.wellFormed (b : BasisIn) : Prop :=
  flatten (b.centers.map centerLocs) = [] ∧ b.atomMap.all (fun a => (findCenter b.centers a).isSome) = true

theorem validateBasis_ok_iff (b b' : BasisIn) :
    validateBasis b = .ok b' ↔
      (b.wellFormed ∧ (b.nbf = none ∨ b.nbf = some (calcNbf b.centers b.atomMap)) ∧
       b' = { b with nbf := some (calcNbf b.centers b.atomMap) }) := by
  unfold validateBasis BasisIn.wellFormed
  cases hl : flatten (b.centers.map centerLocs) with
  | cons a t => simp
  | nil =>
    cases hm : b.atomMap.all (fun a => (findCenter b.centers a).isSome) with
    | false => simp
    | true =>
      cases hn : b.nbf with
      | none => simp [eq_comm]
      | some v =>
        by_cases hv : v = calcNbf b.centers b.atomMap
        · subst hv
          have : b = { b with nbf := some (calcNbf b.centers b.atomMap) } := by
            cases b; simp_all
          simp only [if_true, true_and, reduceCtorEq, false_or, Except.ok.injEq]
          constructor
          · intro h; subst h; exact this
          · intro h; rw [← this] at h; exact h.symm
        · simp [hv]

theorem validateBasis_mismatch (b : BasisIn) (v : Nat) (hw : b.wellFormed) (hn : b.nbf = some v)
    (hv : v ≠ calcNbf b.centers b.atomMap) : validateBasis b = .error .nbfMismatch := by
  unfold validateBasis
  obtain ⟨h1, h2⟩ := hw
  simp [h1, h2, hn, hv]

/-! ### the keep loop of `_wavefunction_protocol` -/

/-- invariant of the loop: what has been copied after processing the pointer keys in `done` -/
structure KeepInv {β : Type} (w : Wfn β) (done : List PtrKey) (ret : Wfn β) : Prop where
  ptr : ∀ pk ak, ret.ptr pk = some ak ↔ (pk ∈ done ∧ w.ptr pk = some ak)
  arr : ∀ ak v, ret.arr ak = some v ↔ ((∃ pk, pk ∈ done ∧ w.ptr pk = some ak) ∧ w.arr ak = some v)

theorem keepLoop_inv {β : Type} (w : Wfn β) : ∀ (rest done : List PtrKey) (ret ret' : Wfn β),
    KeepInv w done ret → keepLoop w rest ret = .ok ret' →
    KeepInv w (done ++ rest) ret' ∧ ret'.restricted = ret.restricted ∧ ret'.basis = ret.basis
  | [], done, ret, ret', hinv, h => by
    simp only [keepLoop, Except.ok.injEq] at h
    subst h
    simpa using hinv
  | rk :: rest, done, ret, ret', hinv, h => by
    unfold keepLoop at h
    cases hp : w.ptr rk with
    | none =>
      simp only [hp] at h
      have hinv' : KeepInv w (done ++ [rk]) ret := by
        constructor
        · intro pk ak
          rw [hinv.ptr]
          constructor
          · rintro ⟨h1, h2⟩; exact ⟨by simp [h1], h2⟩
          · rintro ⟨h1, h2⟩
            simp only [List.mem_append, List.mem_singleton] at h1
            rcases h1 with h1 | h1
            · exact ⟨h1, h2⟩
            · subst h1; rw [hp] at h2; cases h2
        · intro ak v
          rw [hinv.arr]
          constructor
          · rintro ⟨⟨pk, h1, h2⟩, h3⟩; exact ⟨⟨pk, by simp [h1], h2⟩, h3⟩
          · rintro ⟨⟨pk, h1, h2⟩, h3⟩
            simp only [List.mem_append, List.mem_singleton] at h1
            rcases h1 with h1 | h1
            · exact ⟨⟨pk, h1, h2⟩, h3⟩
            · subst h1; rw [hp] at h2; cases h2
      have := keepLoop_inv w rest (done ++ [rk]) ret ret' hinv' h
      simpa [List.append_assoc] using this
    | some key =>
      simp only [hp] at h
      cases ha : w.arr key with
      | none => simp [ha] at h
      | some v =>
        simp only [ha] at h
        have hinv' : KeepInv w (done ++ [rk]) (setArr (setPtr ret rk key) key v) := by
          constructor
          · intro pk ak
            simp only [setArr, setPtr]
            by_cases hk : pk = rk
            · subst hk
              simp only [if_true, Option.some.injEq, List.mem_append, List.mem_singleton, or_true, true_and, hp]
            · simp only [hk, if_false, List.mem_append, List.mem_singleton, or_false]
              exact hinv.ptr pk ak
          · intro ak v'
            simp only [setArr, setPtr]
            by_cases hk : ak = key
            · subst hk
              simp only [if_true, Option.some.injEq, ha]
              constructor
              · intro hv; exact ⟨⟨rk, by simp, hp⟩, hv⟩
              · rintro ⟨_, hv⟩; exact hv
            · simp only [hk, if_false]
              rw [hinv.arr]
              constructor
              · rintro ⟨⟨pk, h1, h2⟩, h3⟩; exact ⟨⟨pk, by simp [h1], h2⟩, h3⟩
              · rintro ⟨⟨pk, h1, h2⟩, h3⟩
                simp only [List.mem_append, List.mem_singleton] at h1
                rcases h1 with h1 | h1
                · exact ⟨⟨pk, h1, h2⟩, h3⟩
                · subst h1; rw [hp] at h2
                  exact absurd (Option.some.inj h2).symm hk
        have := keepLoop_inv w rest (done ++ [rk]) _ ret' hinv' h
        simpa [List.append_assoc, setArr, setPtr] using this

theorem keepLoop_error {β : Type} (w : Wfn β) : ∀ (rest : List PtrKey) (ret : Wfn β) (e : Err),
    keepLoop w rest ret = .error e →
    e = .validation ["wavefunction"] ∧ ∃ pk, pk ∈ rest ∧ ∃ ak, w.ptr pk = some ak ∧ w.arr ak = none
  | [], ret, e, h => by simp [keepLoop] at h
  | rk :: rest, ret, e, h => by
    unfold keepLoop at h
    cases hp : w.ptr rk with
    | none =>
      simp only [hp] at h
      obtain ⟨h1, pk, h2, h3⟩ := keepLoop_error w rest ret e h
      exact ⟨h1, pk, by simp [h2], h3⟩
    | some key =>
      simp only [hp] at h
      cases ha : w.arr key with
      | none =>
        simp only [ha, Except.error.injEq] at h
        exact ⟨h.symm, rk, by simp, key, hp, ha⟩
      | some v =>
        simp only [ha] at h
        obtain ⟨h1, pk, h2, h3⟩ := keepLoop_error w rest _ e h
        exact ⟨h1, pk, by simp [h2], h3⟩

theorem keepLoop_ok_of_resolved {β : Type} (w : Wfn β) : ∀ (rest : List PtrKey) (ret : Wfn β),
    (∀ pk, pk ∈ rest → ∀ ak, w.ptr pk = some ak → ∃ v, w.arr ak = some v) →
    ∃ ret', keepLoop w rest ret = .ok ret'
  | [], ret, _ => ⟨ret, rfl⟩
  | rk :: rest, ret, hres => by
    unfold keepLoop
    have hrest : ∀ pk, pk ∈ rest → ∀ ak, w.ptr pk = some ak → ∃ v, w.arr ak = some v :=
      fun pk hpk => hres pk (by simp [hpk])
    cases hp : w.ptr rk with
    | none => exact keepLoop_ok_of_resolved w rest ret hrest
    | some key =>
      obtain ⟨v, hv⟩ := hres rk (by simp) key hp
      simp only [hv]
      exact keepLoop_ok_of_resolved w rest _ hrest

theorem keepLoop_error_of_dangling {β : Type} (w : Wfn β) : ∀ (rest : List PtrKey) (ret : Wfn β),
    (∃ pk, pk ∈ rest ∧ ∃ ak, w.ptr pk = some ak ∧ w.arr ak = none) →
    keepLoop w rest ret = .error (.validation ["wavefunction"])
  | [], ret, h => by obtain ⟨pk, h, _⟩ := h; cases h
  | rk :: rest, ret, h => by
    unfold keepLoop
    cases hp : w.ptr rk with
    | none =>
      apply keepLoop_error_of_dangling w rest ret
      obtain ⟨pk, h1, ak, h2, h3⟩ := h
      simp only [List.mem_cons] at h1
      rcases h1 with h1 | h1
      · subst h1; rw [hp] at h2; cases h2
      · exact ⟨pk, h1, ak, h2, h3⟩
    | some key =>
      cases ha : w.arr key with
      | none => simp only [ha]
      | some v =>
        simp only [ha]
        apply keepLoop_error_of_dangling w rest _
        obtain ⟨pk, h1, ak, h2, h3⟩ := h
        simp only [List.mem_cons] at h1
        rcases h1 with h1 | h1
        · subst h1; rw [hp] at h2
          have := Option.some.inj h2; subst this
          rw [ha] at h3; cases h3
        · exact ⟨pk, h1, ak, h2, h3⟩

def emptyRet {β : Type} (r : Bool) (b : Option β) : Wfn β :=
  { restricted := some r, basis := b, arr := fun _ => none, ptr := fun _ => none }

theorem keepInv_empty {β : Type} (w : Wfn β) (r : Bool) (b : Option β) : KeepInv w [] (emptyRet r b) := by
  constructor
  · intro pk ak; simp [emptyRet]
  · intro ak v; simp [emptyRet]

/-! ### fixed points of the wavefunction protocols -/

def NoBeta {β : Type} (x : Wfn β) : Prop :=
  (∀ k : ArrKey, k.spin = .b → x.arr k = none) ∧ (∀ k : PtrKey, k.spin = .b → x.ptr k = none)

/-- `x` is what protocol `p` leaves alone -/
structure Closed {β : Type} (p : WfnProto) (x : Wfn β) : Prop where
  restricted : ∃ r, x.restricted = some r ∧ (r = true → NoBeta x)
  keep : ∀ keep, keepList p = some keep →
      (∀ pk ak, x.ptr pk = some ak → pk ∈ keep ∧ ∃ v, x.arr ak = some v) ∧
      (∀ ak v, x.arr ak = some v → ∃ pk, pk ∈ keep ∧ x.ptr pk = some ak)

theorem noBeta_dropBeta {β : Type} (w : Wfn β) : NoBeta (dropBeta w) := by
  constructor <;> intro k hk <;> simp [dropBeta, hk]

theorem dropBeta_of_noBeta {β : Type} {x : Wfn β} (h : NoBeta x) : dropBeta x = x := by
  apply Wfn.ext'
  · rfl
  · rfl
  · intro k
    simp only [dropBeta]
    split
    · rename_i hk; exact (h.1 k hk).symm
    · rfl
  · intro k
    simp only [dropBeta]
    split
    · rename_i hk; exact (h.2 k hk).symm
    · rfl

/-- the dict after the `restricted` filter -/
def afterRestricted {β : Type} (r : Bool) (w : Wfn β) : Wfn β := if r then dropBeta w else w

theorem wfnProtocol_none {β : Type} (w : Wfn β) (r : Bool) (hr : w.restricted = some r) :
    wfnProtocol .none w = .ok none := by
  simp [wfnProtocol, hr]

theorem wfnProtocol_all {β : Type} (w : Wfn β) (r : Bool) (hr : w.restricted = some r) :
    wfnProtocol .all w = .ok (some (afterRestricted r w)) := by
  simp [wfnProtocol, hr, keepList, afterRestricted]

theorem wfnProtocol_subset {β : Type} (p : WfnProto) (keep : List PtrKey) (hk : keepList p = some keep)
    (w : Wfn β) (r : Bool) (hr : w.restricted = some r) :
    wfnProtocol p w =
      match keepLoop (afterRestricted r w) keep (emptyRet r (afterRestricted r w).basis) with
      | .ok ret => .ok (some ret)
      | .error e => .error e := by
  cases p <;> simp [keepList] at hk <;> subst hk <;> simp [wfnProtocol, hr, keepList, afterRestricted, emptyRet]
  all_goals rfl

theorem wfnProtocol_no_restricted {β : Type} (p : WfnProto) (w : Wfn β) (hr : w.restricted = none) :
    wfnProtocol p w = .error (.validation ["wavefunction"]) := by
  simp [wfnProtocol, hr]

theorem afterRestricted_restricted {β : Type} (r : Bool) (w : Wfn β) :
    (afterRestricted r w).restricted = w.restricted ∧ (afterRestricted r w).basis = w.basis := by
  cases r <;> simp [afterRestricted, dropBeta]

theorem afterRestricted_noBeta {β : Type} (w : Wfn β) : NoBeta (afterRestricted true w) := by
  simpa [afterRestricted] using noBeta_dropBeta w

/-- Lemma A: whatever a protocol returns is one of its fixed points -/
theorem closed_of_protocol {β : Type} (p : WfnProto) (w w' : Wfn β)
    (h : wfnProtocol p w = .ok (some w')) : Closed p w' := by
  cases hr : w.restricted with
  | none => rw [wfnProtocol_no_restricted p w hr] at h; cases h
  | some r =>
    cases hk : keepList p with
    | none =>
      -- all or none
      cases p with
      | none => rw [wfnProtocol_none w r hr] at h; cases h
      | all =>
        rw [wfnProtocol_all w r hr] at h
        simp only [Except.ok.injEq, Option.some.injEq] at h
        subst h
        refine ⟨⟨r, ?_, ?_⟩, ?_⟩
        · rw [(afterRestricted_restricted r w).1, hr]
        · intro hrt; subst hrt; exact afterRestricted_noBeta w
        · intro keep hk'; rw [hk] at hk'; cases hk'
      | orbitals_and_eigenvalues => simp [keepList] at hk
      | occupations_and_eigenvalues => simp [keepList] at hk
      | return_results => simp [keepList] at hk
    | some keep =>
      rw [wfnProtocol_subset p keep hk w r hr] at h
      cases hl : keepLoop (afterRestricted r w) keep (emptyRet r (afterRestricted r w).basis) with
      | error e => rw [hl] at h; cases h
      | ok ret =>
        rw [hl] at h
        simp only [Except.ok.injEq, Option.some.injEq] at h
        subst h
        obtain ⟨hinv, hres, _⟩ := keepLoop_inv _ keep [] _ ret (keepInv_empty _ r _) hl
        simp only [List.nil_append] at hinv
        have hresolved : ∀ pk, pk ∈ keep → ∀ ak, (afterRestricted r w).ptr pk = some ak →
            ∃ v, (afterRestricted r w).arr ak = some v := by
          intro pk hpk ak hpa
          cases ha : (afterRestricted r w).arr ak with
          | some v => exact ⟨v, rfl⟩
          | none =>
            have := keepLoop_error_of_dangling (afterRestricted r w) keep
              (emptyRet r (afterRestricted r w).basis) ⟨pk, hpk, ak, hpa, ha⟩
            rw [hl] at this; cases this
        refine ⟨⟨r, by rw [hres]; rfl, ?_⟩, ?_⟩
        · intro hrt; subst hrt
          have hnb := afterRestricted_noBeta w
          constructor
          · intro k hk'
            cases hv : ret.arr k with
            | none => rfl
            | some v =>
              have := ((hinv.arr k v).mp hv).2
              rw [hnb.1 k hk'] at this; cases this
          · intro k hk'
            cases hv : ret.ptr k with
            | none => rfl
            | some v =>
              have := ((hinv.ptr k v).mp hv).2
              rw [hnb.2 k hk'] at this; cases this
        · intro keep' hk'
          rw [hk] at hk'; cases hk'
          constructor
          · intro pk ak hpa
            obtain ⟨h1, h2⟩ := (hinv.ptr pk ak).mp hpa
            obtain ⟨v, hv⟩ := hresolved pk h1 ak h2
            exact ⟨h1, v, (hinv.arr ak v).mpr ⟨⟨pk, h1, h2⟩, hv⟩⟩
          · intro ak v hv
            obtain ⟨⟨pk, h1, h2⟩, _⟩ := (hinv.arr ak v).mp hv
            exact ⟨pk, h1, (hinv.ptr pk ak).mpr ⟨h1, h2⟩⟩

/-- Lemma B: a fixed point is returned unchanged -/
theorem protocol_of_closed {β : Type} (p : WfnProto) (hp : p ≠ .none) (x : Wfn β) (hc : Closed p x) :
    wfnProtocol p x = .ok (some x) := by
  obtain ⟨r, hr, hnb⟩ := hc.restricted
  have hx : afterRestricted r x = x := by
    cases r with
    | false => rfl
    | true => simpa [afterRestricted] using dropBeta_of_noBeta (hnb rfl)
  cases hk : keepList p with
  | none =>
    cases p with
    | none => exact absurd rfl hp
    | all => rw [wfnProtocol_all x r hr, hx]
    | orbitals_and_eigenvalues => simp [keepList] at hk
    | occupations_and_eigenvalues => simp [keepList] at hk
    | return_results => simp [keepList] at hk
  | some keep =>
    rw [wfnProtocol_subset p keep hk x r hr, hx]
    obtain ⟨hc1, hc2⟩ := hc.keep keep hk
    obtain ⟨ret, hl⟩ := keepLoop_ok_of_resolved x keep (emptyRet r x.basis)
      (fun pk _ ak hpa => (hc1 pk ak hpa).2)
    rw [hl]
    obtain ⟨hinv, hres, hbas⟩ := keepLoop_inv _ keep [] _ ret (keepInv_empty _ r _) hl
    simp only [List.nil_append] at hinv
    have : ret = x := by
      apply Wfn.ext'
      · rw [hres, hr]; rfl
      · rw [hbas]; rfl
      · intro ak
        apply opt_ext
        intro v
        rw [hinv.arr]
        constructor
        · exact fun h => h.2
        · exact fun h => ⟨hc2 ak v h, h⟩
      · intro pk
        apply opt_ext
        intro ak
        rw [hinv.ptr]
        constructor
        · exact fun h => h.2
        · exact fun h => ⟨(hc1 pk ak h).1, h⟩
    rw [this]

/-! ### WavefunctionProperties validation -/

theorem arrFails_nil_iff {β : Type} (nbf : Option Nat) (w : Wfn β) :
    arrFails nbf w = [] ↔ ∀ k, arrOut nbf w k ≠ some none := by
  unfold arrFails
  constructor
  · intro h k hk
    have := filter_eq_nil_all h k (ArrKey.mem_all k)
    simp [hk] at this
  · intro h
    apply filter_nil_of_all
    intro k _
    have := h k
    cases hk : arrOut nbf w k with
    | none => rfl
    | some o =>
      cases o with
      | none => exact absurd hk this
      | some _ => rfl

theorem ptrFails_nil_iff {β : Type} (nbf : Option Nat) (w : Wfn β) :
    ptrFails nbf w = [] ↔ ∀ k, ptrBad nbf w k = false := by
  unfold ptrFails
  constructor
  · intro h k; exact filter_eq_nil_all h k (PtrKey.mem_all k)
  · intro h; exact filter_nil_of_all (fun k _ => h k)

theorem validateBasis_fields_ne_nil (b : BasisIn) : validateBasis b ≠ .error (.fields []) := by
  unfold validateBasis
  cases hl : flatten (b.centers.map centerLocs) with
  | cons a t => simp
  | nil =>
    cases hm : b.atomMap.all (fun a => (findCenter b.centers a).isSome) with
    | false => simp
    | true =>
      cases hn : b.nbf with
      | none => simp
      | some v =>
        by_cases hv : v = calcNbf b.centers b.atomMap
        · simp [hv]
        · simp [hv]

theorem basisStage_ok_nil (b : Option BasisIn) (b' : Option BasisIn) :
    basisStage b = .ok (b', []) ↔ ∃ b0 b1, b = some b0 ∧ validateBasis b0 = .ok b1 ∧ b' = some b1 := by
  unfold basisStage
  cases b with
  | none => simp
  | some b0 =>
    cases hv : validateBasis b0 with
    | ok b1 =>
      simp only [hv]
      constructor
      · intro h
        simp only [Except.ok.injEq, Prod.mk.injEq, and_true] at h
        exact ⟨b0, b1, rfl, hv, h.symm⟩
      · rintro ⟨b0', b1', h0, h1, rfl⟩
        cases h0; rw [hv] at h1; cases h1; rfl
    | error e =>
      have hno : ¬ ∃ b0' b1, some b0 = some b0' ∧ validateBasis b0' = .ok b1 ∧ b' = some b1 := by
        rintro ⟨b0', b1', h0, h1, _⟩
        cases h0; rw [hv] at h1; cases h1
      cases e with
      | nbfMismatch =>
        simp only [hv]
        constructor
        · intro h; cases h
        · intro h; exact absurd h hno
      | fields l =>
        cases l with
        | nil => exact absurd hv (validateBasis_fields_ne_nil b0)
        | cons a t =>
          simp only [hv]
          constructor
          · intro h; simp at h
          · intro h; exact absurd h hno

theorem wfnLocs_nil_iff (b' : Option BasisIn) (blocs : List String) (w : Wfn BasisIn) :
    wfnLocs b' blocs w = [] ↔
      (blocs = [] ∧ w.restricted.isSome = true ∧ arrFails (b'.bind (·.nbf)) w = [] ∧ ptrFails (b'.bind (·.nbf)) w = []) := by
  unfold wfnLocs
  cases hr : w.restricted with
  | none => simp
  | some r => simp [List.append_eq_nil_iff]

/-- the conditions under which `WavefunctionProperties(**w)` is accepted, and what it then is -/
theorem validateWfn_ok_iff (x y : Wfn BasisIn) :
    validateWfn x = .ok y ↔
      ∃ b b', x.basis = some b ∧ validateBasis b = .ok b' ∧ x.restricted.isSome = true ∧
        arrFails b'.nbf x = [] ∧ ptrFails b'.nbf x = [] ∧
        y = { restricted := x.restricted, basis := some b', arr := fun k => (arrOut b'.nbf x k).join, ptr := x.ptr } := by
  unfold validateWfn
  cases hs : basisStage x.basis with
  | error e =>
    simp only [reduceCtorEq, false_iff, not_exists, not_and]
    intro b b' hb hv
    have : basisStage x.basis = .ok (some b', []) := (basisStage_ok_nil _ _).mpr ⟨b, b', hb, hv, rfl⟩
    rw [hs] at this; cases this
  | ok pr =>
    obtain ⟨bo, blocs⟩ := pr
    simp only
    cases hl : wfnLocs bo blocs x with
    | cons a t =>
      simp only [reduceCtorEq, false_iff, not_exists, not_and]
      intro b b' hb hv h1 h2 h3
      have hs' : basisStage x.basis = .ok (some b', []) := (basisStage_ok_nil _ _).mpr ⟨b, b', hb, hv, rfl⟩
      rw [hs] at hs'
      simp only [Except.ok.injEq, Prod.mk.injEq] at hs'
      obtain ⟨rfl, rfl⟩ := hs'
      have := (wfnLocs_nil_iff (some b') [] x).mpr ⟨rfl, h1, h2, h3⟩
      rw [hl] at this; cases this
    | nil =>
      obtain ⟨hb0, h1, h2, h3⟩ := (wfnLocs_nil_iff bo blocs x).mp hl
      subst hb0
      obtain ⟨b0, b1, hb, hv, rfl⟩ := (basisStage_ok_nil _ _).mp hs
      simp only [Option.bind_some] at h2 h3
      simp only [Except.ok.injEq, Option.bind_some]
      constructor
      · intro h; exact ⟨b0, b1, hb, hv, h1, h2, h3, h.symm⟩
      · rintro ⟨b, b', hb', hv', _, _, _, rfl⟩
        rw [hb] at hb'; cases hb'
        rw [hv] at hv'; cases hv'
        rfl

theorem arrOut_join_some {β : Type} {nbf : Option Nat} {w : Wfn β} {k : ArrKey} {s' : Shape} :
    (arrOut nbf w k).join = some s' ↔ ∃ s, w.arr k = some s ∧ applyArrRule nbf (arrRule k.base) s = some s' := by
  unfold arrOut
  cases w.arr k with
  | none => simp
  | some s => simp

/-- accepted: present arrays stay present (validated), absent stay absent -/
theorem validated_arr_presence {β : Type} {nbf : Option Nat} {w : Wfn β} (hf : arrFails nbf w = []) (k : ArrKey) :
    (∀ s, w.arr k = some s → ∃ s', (arrOut nbf w k).join = some s') ∧
    (w.arr k = none → (arrOut nbf w k).join = none) := by
  have h := (arrFails_nil_iff nbf w).mp hf k
  unfold arrOut at h ⊢
  cases hk : w.arr k with
  | none => simp
  | some s =>
    simp only [hk, Option.map_some, ne_eq, Option.some.injEq] at h
    cases ha : applyArrRule nbf (arrRule k.base) s with
    | none => exact absurd ha h
    | some s' => simp [ha]

end QcelVerif.Protocols
