import QcelVerif.Lemmas.UnitLex
/-!
C03 — helper lemmas about the tree builder of `Model/UnitText.lean` (`build`, the transcription of `pint_eval._build_eval_tree`) on
the token stream of a rendered expression (`Model/UnitRender.lean`), about the bracket counter and about `evalTree`.  Core Lean only.
-/
set_option linter.unusedSimpArgs false
set_option linter.unnecessarySimpa false
namespace QcelVerif.Units.Text
open QcelVerif.PStr (Bytes)
open RExpr

/-! ## one step of `build` (definitional) -/

theorem build_nil (f : Nat) (prev : Prev) (res : Option PT) :
    build (f + 1) prev res [] = (if prev = .paren then .error .syntax else match res with
      | none => .error .syntax
      | some r => .ok (r, [])) := rfl

theorem build_rpar (f : Nat) (prev : Prev) (res : Option PT) (rest : List Tok) :
    build (f + 1) prev res (.op .rpar :: rest) = (if prev = .top then .error .syntax else match res with
      | none => .error .assertion
      | some r => .ok (r, .op .rpar :: rest)) := rfl

theorem build_lpar (f : Nat) (prev : Prev) (res : Option PT) (rest : List Tok) :
    build (f + 1) prev res (.op .lpar :: rest) = (match build f .paren none rest with
      | .error e => .error e
      | .ok (right, toks') =>
        match toks' with
        | .op .rpar :: rest' => build f prev (some (match res with | some r => PT.imul r right | none => right)) rest'
        | _ => .error .syntax) := rfl

theorem build_mul (f : Nat) (prev : Prev) (r : PT) (rest : List Tok) :
    build (f + 1) prev (some r) (.op .mul :: rest) = (if prio .mul ≤ prevPrio prev ∧ Op.mul ≠ .pow then .ok (r, .op .mul :: rest)
      else match build f (.op .mul) none rest with
        | .error e => .error e
        | .ok (right, toks') => build f prev (some (.bin .mul r right)) toks') := rfl

theorem build_div (f : Nat) (prev : Prev) (r : PT) (rest : List Tok) :
    build (f + 1) prev (some r) (.op .div :: rest) = (if prio .div ≤ prevPrio prev ∧ Op.div ≠ .pow then .ok (r, .op .div :: rest)
      else match build f (.op .div) none rest with
        | .error e => .error e
        | .ok (right, toks') => build f prev (some (.bin .div r right)) toks') := rfl

theorem build_pow' (f : Nat) (prev : Prev) (r : PT) (rest : List Tok) :
    build (f + 1) prev (some r) (.op .pow :: rest) = (if prio .pow ≤ prevPrio prev ∧ Op.pow ≠ .pow then .ok (r, .op .pow :: rest)
      else match build f (.op .pow) none rest with
        | .error e => .error e
        | .ok (right, toks') => build f prev (some (.bin .pow r right)) toks') := rfl

theorem build_pow (f : Nat) (prev : Prev) (r : PT) (rest : List Tok) :
    build (f + 1) prev (some r) (.op .pow :: rest) = (match build f (.op .pow) none rest with
        | .error e => .error e
        | .ok (right, toks') => build f prev (some (.bin .pow r right)) toks') := by
  rw [build_pow']; simp

theorem toks_nil : toks [] = [] := rfl

theorem build_sign (f : Nat) (prev : Prev) (o : Op) (ho : o = .plus ∨ o = .minus) (rest : List Tok) :
    build (f + 1) prev none (.op o :: rest) = (match build f .unary none rest with
      | .error e => .error e
      | .ok (right, toks') => build f prev (some (.un o right)) toks') := by
  rcases ho with h | h <;> subst h <;> rfl

theorem build_num_none (f : Nat) (prev : Prev) (m : Nat) (e : Int) (i : Bool) (rest : List Tok) :
    build (f + 1) prev none (.num m e i :: rest) = build f prev (some (.num m e i)) rest := rfl

theorem build_name_none (f : Nat) (prev : Prev) (s : Bytes) (rest : List Tok) :
    build (f + 1) prev none (.name s :: rest) = build f prev (some (.name s)) rest := rfl

theorem build_name_some (f : Nat) (prev : Prev) (r : PT) (s : Bytes) (rest : List Tok) :
    build (f + 1) prev (some r) (.name s :: rest) = (if 1 ≤ prevPrio prev then .ok (r, .name s :: rest)
      else match build f .imul none (.name s :: rest) with
        | .error e => .error e
        | .ok (right, toks') => build f prev (some (.imul r right)) toks') := rfl

theorem build_num_some (f : Nat) (prev : Prev) (r : PT) (m : Nat) (e : Int) (i : Bool) (rest : List Tok) :
    build (f + 1) prev (some r) (.num m e i :: rest) = (if 1 ≤ prevPrio prev then .ok (r, .num m e i :: rest)
      else match build f .imul none (.num m e i :: rest) with
        | .error e => .error e
        | .ok (right, toks') => build f prev (some (.imul r right)) toks') := rfl

/-! ## where an operand ends -/

/-- the tokens after which an operand under `*`, `/`, `**`, a sign or a juxtaposition is complete: the end, `)`, `*`, `/`, a name, a number -/
def Stops : List Tok → Bool
  | [] => true
  | .op .rpar :: _ => true
  | .op .mul :: _ => true
  | .op .div :: _ => true
  | .num _ _ _ :: _ => true
  | .name _ :: _ => true
  | _ => false

/-- `prev_op` of an operand position with priority ≥ 1 -/
def highPrev : Prev → Bool
  | .unary => true | .imul => true | .op .mul => true | .op .div => true | .op .pow => true | _ => false
/-- `prev_op` at the start of the text or of a parenthesised group -/
def lowPrev : Prev → Bool
  | .top => true | .paren => true | _ => false

theorem build_return (f : Nat) (prev : Prev) (hp : highPrev prev = true) (r : PT) (rest : List Tok) (hs : Stops rest = true) :
    build (f + 1) prev (some r) rest = .ok (r, rest) := by
  have hprio : (1 : Int) ≤ prevPrio prev := by
    cases prev with
    | op o => cases o <;> simp [highPrev] at hp <;> decide
    | _ => simp [highPrev] at hp <;> decide
  have hnp : prev ≠ .paren := by intro h; subst h; simp [highPrev] at hp
  have hnt : prev ≠ .top := by intro h; subst h; simp [highPrev] at hp
  cases rest with
  | nil => rw [build_nil]; simp [hnp]
  | cons t rest =>
    cases t with
    | num m e i => rw [build_num_some]; simp [hprio]
    | name s => rw [build_name_some]; simp [hprio]
    | op o =>
      cases o with
      | rpar => rw [build_rpar]; simp [hnt]
      | mul => rw [build_mul]; simp [prio, hprio]
      | div => rw [build_div]; simp [prio, hprio]
      | _ => simp [Stops] at hs

/-! ## exponents -/

theorem build_exp (x : ExpLit) (hx : x.sign ≤ 2) (g : Nat) (rest : List Tok) (hs : Stops rest = true) :
    build (g + 4) (.op .pow) none (toks x.pieces ++ rest) = .ok (x.tree, rest) := by
  obtain ⟨paren, sign, blank, ds⟩ := x
  have r1 : ∀ (k : Nat) (t : PT), build (k + 1) Prev.unary (some t) rest = .ok (t, rest) := fun k t => build_return k _ rfl t rest hs
  have r2 : ∀ (k : Nat) (t : PT), build (k + 1) (Prev.op .pow) (some t) rest = .ok (t, rest) := fun k t => build_return k _ rfl t rest hs
  have r3 : ∀ (k : Nat) (t : PT), build (k + 1) Prev.unary (some t) (.op .rpar :: rest) = .ok (t, .op .rpar :: rest) := fun k t => build_return k _ rfl t _ rfl
  have r4 : ∀ (k : Nat) (t : PT), build (k + 1) Prev.paren (some t) (.op .rpar :: rest) = .ok (t, .op .rpar :: rest) := fun k t => by rw [build_rpar]; simp
  have h012 : sign = 0 ∨ sign = 1 ∨ sign = 2 := by simp only at hx; omega
  rcases h012 with h | h | h <;> subst h <;> cases paren <;> cases blank <;>
    simp [ExpLit.pieces, ExpLit.tree, toks_cons, toks_nil, consTok, Piece.tok, NumLit.tok, NumLit.ofDigits, NumLit.mant, NumLit.e10,
      NumLit.expVal, NumLit.isInt, build_num_none, build_lpar, build_sign, r1, r2, r3, r4]

/-! ## the token stream of a rendered expression -/

theorem toks_spIf (b : Bool) : toks (spIf b) = [] := by cases b <;> rfl

theorem tokensOf_num (l : NumLit) : tokensOf (.num l) = [l.tok] := rfl
theorem tokensOf_unit (p : Int) (x : Base) (n : Bytes) : tokensOf (.unit p x n) = [.name n] := rfl

theorem tokensOf_paren (e : RExpr) : tokensOf (.paren e) = .op .lpar :: (tokensOf e ++ [.op .rpar]) := by
  simp [tokensOf, pieces, toks_cons, toks_append, toks_nil, consTok, Piece.tok]

theorem tokensOf_bin (dv sp : Bool) (a b : RExpr) :
    tokensOf (.bin dv sp a b) = tokensOf a ++ (.op (if dv then .div else .mul) :: tokensOf b) := by
  cases dv <;> simp [tokensOf, pieces, toks_cons, toks_append, toks_spIf, consTok, Piece.tok]

theorem tokensOf_juxt (bl : Bool) (a b : RExpr) : tokensOf (.juxt bl a b) = tokensOf a ++ tokensOf b := by
  simp [tokensOf, pieces, toks_append, toks_spIf]

theorem tokensOf_pow (a : RExpr) (crt l r : Bool) (x : ExpLit) :
    tokensOf (.pow a crt l r x) = tokensOf a ++ (.op .pow :: toks x.pieces) := by
  cases crt <;> simp [tokensOf, pieces, toks_cons, toks_append, toks_spIf, consTok, Piece.tok]

theorem tokensOf_juxtRight (b : RExpr) (hj : juxtRight b = true) : ∃ tl, tokensOf b = .name (headName b) :: tl := by
  cases b with
  | unit p x n => exact ⟨[], rfl⟩
  | pow a crt l r x =>
    cases a with
    | unit p y n => exact ⟨_, by rw [tokensOf_pow, tokensOf_unit]; rfl⟩
    | _ => simp [juxtRight, isUnit] at hj
  | _ => simp [juxtRight] at hj

theorem cost_le_tot (e : RExpr) : cost e ≤ tot e := by
  induction e with
  | num _ => simp [cost, tot]
  | unit _ _ _ => simp [cost, tot]
  | paren e ih => simp [cost, tot]
  | bin _ _ a b iha _ => simp only [cost, tot]; omega
  | juxt _ a b iha _ => simp only [cost, tot]; omega
  | pow a _ _ _ _ iha => simp only [cost, tot]; omega

theorem cost_pos (e : RExpr) : 1 ≤ cost e := by
  cases e <;> simp [cost]

/-! ## the tree builder on a rendered expression -/

/-- **reading one rendered sub-expression**: from an operand position (`res = None`) the builder consumes exactly the tokens of `e`
    and arrives at `res = treeOf e` in front of the rest, using `cost e` units of its step budget — for a factor under any pending
    operator, for a product/quotient/juxtaposition at the start of the text or of a parenthesised group -/
theorem build_expr (e : RExpr) : WF e = true → ∀ (prev : Prev) (f : Nat) (rest : List Tok), tot e ≤ f →
    (lowPrev prev = true ∨ isFactor e = true) → (isAtom e = true ∨ Stops rest = true) →
    build f prev none (tokensOf e ++ rest) = build (f - cost e) prev (some (treeOf e)) rest := by
  induction e with
  | num l =>
    intro _ prev f rest hf _ _
    obtain ⟨g, rfl⟩ : ∃ g, f = g + 1 := ⟨f - 1, by simp only [tot] at hf; omega⟩
    simp [tokensOf_num, NumLit.tok, build_num_none, cost, treeOf]
  | unit p x n =>
    intro _ prev f rest hf _ _
    obtain ⟨g, rfl⟩ : ∃ g, f = g + 1 := ⟨f - 1, by simp only [tot] at hf; omega⟩
    simp [tokensOf_unit, build_name_none, cost, treeOf]
  | paren e ih =>
    intro hw prev f rest hf _ _
    simp only [WF] at hw
    simp only [tot] at hf
    have hc := cost_le_tot e
    obtain ⟨g, rfl⟩ : ∃ g, f = g + 1 := ⟨f - 1, by omega⟩
    obtain ⟨k, hk⟩ : ∃ k, g - cost e = k + 1 := ⟨g - cost e - 1, by omega⟩
    have h1 := ih hw .paren g (.op .rpar :: rest) (by omega) (Or.inl rfl) (Or.inr rfl)
    rw [tokensOf_paren, List.cons_append, List.append_assoc, build_lpar]
    simp only [List.singleton_append]
    rw [h1, hk, build_rpar]
    simp [cost, treeOf]
  | bin dv sp a b iha ihb =>
    intro hw prev f rest hf hprev hstop
    simp only [WF, Bool.and_eq_true] at hw
    simp only [tot] at hf
    have hlow : lowPrev prev = true := by
      rcases hprev with h | h
      · exact h
      · simp [isFactor] at h
    have hs : Stops rest = true := by
      rcases hstop with h | h
      · simp [isAtom] at h
      · exact h
    have hca := cost_le_tot a
    have hcb := cost_le_tot b
    obtain ⟨g, hg⟩ : ∃ g, f - cost a = g + 1 := ⟨f - cost a - 1, by omega⟩
    obtain ⟨k, hk⟩ : ∃ k, g - cost b = k + 1 := ⟨g - cost b - 1, by omega⟩
    have hfin : f - cost (.bin dv sp a b) = g := by simp only [cost]; omega
    have hnp : ¬ ((1 : Int) ≤ prevPrio prev) := by cases prev <;> simp [lowPrev] at hlow <;> decide
    rw [tokensOf_bin, List.append_assoc, hfin]
    cases dv with
    | false =>
      rw [iha hw.1.1 prev f _ (by omega) (Or.inl hlow) (Or.inr rfl), hg]
      simp only [Bool.false_eq_true, if_false, List.cons_append]
      rw [build_mul, ihb hw.1.2 (.op .mul) g rest (by omega) (Or.inr hw.2) (Or.inr hs), hk,
        build_return k _ rfl _ rest hs]
      simp [prio, hnp, treeOf]
    | true =>
      rw [iha hw.1.1 prev f _ (by omega) (Or.inl hlow) (Or.inr rfl), hg]
      simp only [if_true, List.cons_append]
      rw [build_div, ihb hw.1.2 (.op .div) g rest (by omega) (Or.inr hw.2) (Or.inr hs), hk,
        build_return k _ rfl _ rest hs]
      simp [prio, hnp, treeOf]
  | juxt bl a b iha ihb =>
    intro hw prev f rest hf hprev hstop
    simp only [WF, Bool.and_eq_true] at hw
    obtain ⟨⟨⟨hwa, hwb⟩, hj⟩, _⟩ := hw
    simp only [tot] at hf
    have hlow : lowPrev prev = true := by
      rcases hprev with h | h
      · exact h
      · simp [isFactor] at h
    have hs : Stops rest = true := by
      rcases hstop with h | h
      · simp [isAtom] at h
      · exact h
    have hca := cost_le_tot a
    have hcb := cost_le_tot b
    obtain ⟨g, hg⟩ : ∃ g, f - cost a = g + 1 := ⟨f - cost a - 1, by omega⟩
    obtain ⟨k, hk⟩ : ∃ k, g - cost b = k + 1 := ⟨g - cost b - 1, by omega⟩
    have hfin : f - cost (.juxt bl a b) = g := by simp only [cost]; omega
    have hnp : ¬ ((1 : Int) ≤ prevPrio prev) := by cases prev <;> simp [lowPrev] at hlow <;> decide
    obtain ⟨tl, htl⟩ := tokensOf_juxtRight b hj
    have hfb : isFactor b = true := by
      cases b <;> simp [juxtRight] at hj <;> rfl
    have hB := ihb hwb .imul g rest (by omega) (Or.inr hfb) (Or.inr hs)
    rw [tokensOf_juxt, List.append_assoc, hfin, iha hwa prev f _ (by omega) (Or.inl hlow) (Or.inr (by rw [htl]; rfl)), hg]
    rw [htl] at hB ⊢
    rw [List.cons_append, build_name_some]
    rw [List.cons_append] at hB
    rw [hB, hk, build_return k _ rfl _ rest hs]
    simp [hnp, treeOf]
  | pow a crt l r x iha =>
    intro hw prev f rest hf hprev hstop
    simp only [WF, Bool.and_eq_true] at hw
    obtain ⟨⟨⟨hwa, hat⟩, hx⟩, _⟩ := hw
    simp only [tot] at hf
    have hs : Stops rest = true := by
      rcases hstop with h | h
      · simp [isAtom] at h
      · exact h
    have hfa : isFactor a = true := by cases a <;> simp [isAtom] at hat <;> rfl
    have hca := cost_le_tot a
    obtain ⟨g, hg⟩ : ∃ g, f - cost a = g + 5 := ⟨f - cost a - 5, by omega⟩
    have hfin : f - cost (.pow a crt l r x) = g + 4 := by simp only [cost]; omega
    have hsg : x.sign ≤ 2 := by simp only [ExpLit.wf, Bool.and_eq_true, decide_eq_true_eq] at hx; exact hx.2
    rw [tokensOf_pow, List.append_assoc, hfin, iha hwa prev f _ (by omega) (Or.inr hfa) (Or.inl hat), hg]
    rw [List.cons_append, build_pow, build_exp x hsg g rest hs]
    simp [treeOf]

theorem toks_explit_length (x : ExpLit) : 1 ≤ (toks x.pieces).length := by
  obtain ⟨paren, sign, blank, ds⟩ := x
  cases paren <;> cases blank <;> by_cases h1 : sign = 1 <;> by_cases h2 : sign = 2 <;>
    simp [ExpLit.pieces, toks_cons, toks_nil, consTok, Piece.tok, h1, h2]

/-- the step budget `4·|tokens| + 4` of `parseTree` covers the rendered expressions -/
theorem tot_bound (e : RExpr) : tot e + 2 ≤ 4 * (tokensOf e).length := by
  induction e with
  | num l => simp [tot, tokensOf_num]
  | unit p x n => simp [tot, tokensOf_unit]
  | paren e ih => simp only [tot, tokensOf_paren, List.length_cons, List.length_append, List.length_nil]; omega
  | bin dv sp a b iha ihb => simp only [tot, tokensOf_bin, List.length_cons, List.length_append]; omega
  | juxt bl a b iha ihb => simp only [tot, tokensOf_juxt, List.length_append]; omega
  | pow a crt l r x iha =>
    have := toks_explit_length x
    simp only [tot, tokensOf_pow, List.length_cons, List.length_append]; omega

/-- **the tree builder on the whole token stream** of a rendered expression -/
theorem build_tokensOf (e : RExpr) (hw : WF e = true) :
    build (4 * (tokensOf e).length + 4) .top none (tokensOf e) = .ok (treeOf e, []) := by
  have hb := tot_bound e
  have hc := cost_le_tot e
  have h := build_expr e hw .top (4 * (tokensOf e).length + 4) [] (by omega) (Or.inl rfl) (Or.inr rfl)
  rw [List.append_nil] at h
  obtain ⟨k, hk⟩ : ∃ k, 4 * (tokensOf e).length + 4 - cost e = k + 1 := ⟨4 * (tokensOf e).length + 4 - cost e - 1, by omega⟩
  rw [h, hk, build_nil]
  simp

/-! ## the bracket counter -/

theorem parenDepth_explit (x : ExpLit) (d : Nat) (rest : List Tok) : parenDepth d (toks x.pieces ++ rest) = parenDepth d rest := by
  obtain ⟨paren, sign, blank, ds⟩ := x
  cases paren <;> cases blank <;> by_cases h1 : sign = 1 <;> by_cases h2 : sign = 2 <;>
    simp [ExpLit.pieces, toks_cons, toks_nil, consTok, Piece.tok, NumLit.tok, h1, h2, parenDepth]

theorem parenDepth_tokensOf (e : RExpr) : ∀ (d : Nat) (rest : List Tok), parenDepth d (tokensOf e ++ rest) = parenDepth d rest := by
  induction e with
  | num l => intro d rest; simp [tokensOf_num, NumLit.tok, parenDepth]
  | unit p x n => intro d rest; simp [tokensOf_unit, parenDepth]
  | paren e ih =>
    intro d rest
    rw [tokensOf_paren, List.cons_append, List.append_assoc]
    simp [parenDepth, ih]
  | bin dv sp a b iha ihb =>
    intro d rest
    rw [tokensOf_bin, List.append_assoc, iha]
    cases dv <;> simp [parenDepth, ihb]
  | juxt bl a b iha ihb => intro d rest; rw [tokensOf_juxt, List.append_assoc, iha, ihb]
  | pow a crt l r x iha =>
    intro d rest
    rw [tokensOf_pow, List.append_assoc, iha]
    simp [parenDepth, parenDepth_explit]

theorem parenOK_tokensOf (e : RExpr) : parenOK (tokensOf e) = true := by
  have := parenDepth_tokensOf e 0 []
  rw [List.append_nil] at this
  simp [parenOK, this, parenDepth]

/-! ## evaluating the tree -/

theorem expOf_tree (x : ExpLit) (hx : x.sign ≤ 2) : expOf x.tree = some x.val := by
  obtain ⟨paren, sign, blank, ds⟩ := x
  have h012 : sign = 0 ∨ sign = 1 ∨ sign = 2 := by simp only at hx; omega
  rcases h012 with h | h | h <;> subst h <;> simp [ExpLit.tree, ExpLit.val, expOf]

/-- the tree of a rendered expression evaluates (juxtaposition read as multiplication) to what the expression denotes -/
theorem evalTree_treeOf (res : Bytes → Except TErr (Int × Base)) (e : RExpr) (hw : WF e = true) :
    evalTree res false (treeOf e) = denote res e := by
  induction e with
  | num l => rfl
  | unit p x n => simp only [treeOf, evalTree, denote]; cases res n <;> rfl
  | paren e ih => exact ih hw
  | bin dv sp a b iha ihb =>
    simp only [WF, Bool.and_eq_true] at hw
    simp only [treeOf, evalTree, denote, iha hw.1.1, ihb hw.1.2]
    cases denote res a with
    | error _ => rfl
    | ok ea => cases dv <;> cases denote res b <;> rfl
  | juxt bl a b iha ihb =>
    simp only [WF, Bool.and_eq_true] at hw
    simp only [treeOf, evalTree, denote, iha hw.1.1.1, ihb hw.1.1.2]
    cases denote res a with
    | error _ => rfl
    | ok ea => cases denote res b <;> simp
  | pow a crt l r x iha =>
    simp only [WF, Bool.and_eq_true] at hw
    have hsg : x.sign ≤ 2 := by
      have := hw.1.2; simp only [ExpLit.wf, Bool.and_eq_true, decide_eq_true_eq] at this; exact this.2
    simp only [treeOf, evalTree, denote, iha hw.1.1.1, expOf_tree x hsg]
    cases denote res a <;> rfl

/-- no numeric factor anywhere (`stripNums` leaves such an expression alone) -/
theorem stripNums_juxtRight (res : Bytes → Except TErr (Int × Base)) (b : RExpr) (hj : juxtRight b = true) (eb : Expr)
    (h : denote res b = .ok eb) : stripNums eb = eb := by
  cases b with
  | unit p x n =>
    simp only [denote] at h
    cases hr : res n with
    | error _ => simp [hr] at h
    | ok v => obtain ⟨q, y⟩ := v; simp [hr] at h; subst h; rfl
  | pow a crt l r x =>
    cases a with
    | unit p y n =>
      simp only [denote] at h
      cases hr : res n with
      | error _ => simp [hr] at h
      | ok v =>
        obtain ⟨q, z⟩ := v
        simp only [hr] at h
        split at h
        · cases h
        · cases h; rfl
    | _ => simp [juxtRight, isUnit] at hj
  | _ => simp [juxtRight] at hj

/-- … and under pint's `_eval_implicit_mul` too: the renderer juxtaposes only a bare (power of a) unit name, which has no factor to lose -/
theorem evalTree_impl_treeOf (res : Bytes → Except TErr (Int × Base)) (e : RExpr) (hw : WF e = true) :
    evalTree res true (treeOf e) = denote res e := by
  induction e with
  | num l => rfl
  | unit p x n => simp only [treeOf, evalTree, denote]; cases res n <;> rfl
  | paren e ih => exact ih hw
  | bin dv sp a b iha ihb =>
    simp only [WF, Bool.and_eq_true] at hw
    simp only [treeOf, evalTree, denote, iha hw.1.1, ihb hw.1.2]
    cases denote res a with
    | error _ => rfl
    | ok ea => cases dv <;> cases denote res b <;> rfl
  | juxt bl a b iha ihb =>
    simp only [WF, Bool.and_eq_true] at hw
    simp only [treeOf, evalTree, denote, iha hw.1.1.1, ihb hw.1.1.2]
    cases denote res a with
    | error _ => rfl
    | ok ea =>
      cases hb : denote res b with
      | error _ => rfl
      | ok eb =>
        have := stripNums_juxtRight res b hw.1.2 eb hb
        simp only [this, ite_self]
  | pow a crt l r x iha =>
    simp only [WF, Bool.and_eq_true] at hw
    have hsg : x.sign ≤ 2 := by
      have := hw.1.2; simp only [ExpLit.wf, Bool.and_eq_true, decide_eq_true_eq] at this; exact this.2
    simp only [treeOf, evalTree, denote, iha hw.1.1.1, expOf_tree x hsg]
    cases denote res a <;> rfl

end QcelVerif.Units.Text
