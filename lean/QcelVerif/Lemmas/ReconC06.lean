import QcelVerif.Model.ReconC06
import QcelVerif.Props.C06Idem
import QcelVerif.Props.C04
/-!
Helper lemmas for `Props/C04C06.lean`: the adapter between C04's `Clue`/`Nuc` and C06's
`Input`/`Output` (strings ↔ byte lists, what the parser can put in a user tag, `real` stays a
`bool`, the returned mass is a rounded number) and `from_arrays_idempotent` with the idempotence
hypothesis restricted to the atoms of the record.
-/
namespace QcelVerif.FromArrays
open QcelVerif QcelVerif.PStr QcelVerif.Nucleus

/-! ### strings ↔ byte lists -/

theorem toNat_ofNat_valid (n : Nat) (h : n.isValidChar) : (Char.ofNat n).toNat = n := by
  unfold Char.ofNat
  rw [dif_pos h]
  rfl

/-- a byte list of code points survives the trip through `String` -/
theorem ofString_toStr (b : Bytes) (h : ∀ x ∈ b, Nat.isValidChar x) : ofString (toStr b) = b := by
  unfold ofString toStr
  rw [String.toList_ofList, List.map_map]
  conv => rhs; rw [← List.map_id b]
  apply List.map_congr_left
  intro x hx
  exact toNat_ofNat_valid x (h x hx)

theorem ofString_valid (s : String) : ∀ x ∈ ofString s, Nat.isValidChar x := by
  intro x hx
  unfold ofString at hx
  obtain ⟨c, _, rfl⟩ := List.mem_map.mp hx
  exact c.valid

theorem unpackAux_lt : ∀ (f n : Nat) (acc : Bytes), (∀ x ∈ acc, x < 256) → ∀ x ∈ unpackAux f n acc, x < 256
  | 0, _, acc, h => by simpa [unpackAux] using h
  | f + 1, n, acc, h => by
      unfold unpackAux
      split
      · exact h
      · apply unpackAux_lt f
        intro x hx
        rcases List.mem_cons.mp hx with rfl | hx
        · exact Nat.mod_lt _ (by omega)
        · exact h x hx

theorem unpack_valid (n : Nat) : ∀ x ∈ unpack n, Nat.isValidChar x := by
  intro x hx
  have := unpackAux_lt 96 n [] (by simp) x hx
  exact Or.inl (by omega)

theorem toLower_valid (x : Nat) (h : Nat.isValidChar x) : Nat.isValidChar (toLower x) := by
  unfold toLower isUpper
  split
  · rename_i hu
    simp only [Bool.and_eq_true, decide_eq_true_eq] at hu
    exact Or.inl (by omega)
  · exact h

theorem lower_valid (b : Bytes) (h : ∀ x ∈ b, Nat.isValidChar x) : ∀ x ∈ PStr.lower b, Nat.isValidChar x := by
  intro x hx
  unfold PStr.lower at hx
  obtain ⟨y, hy, rfl⟩ := List.mem_map.mp hx
  exact toLower_valid y (h y hy)

/-! ### what the NUCLEUS recogniser can put in a user tag: word characters only -/

theorem take_le_takeWhile (p : Nat → Bool) : ∀ (s : Bytes) (m : Nat), m ≤ (s.takeWhile p).length →
    ∀ x ∈ s.take m, p x = true
  | [], _, _, x, hx => by simp at hx
  | _ :: _, 0, _, x, hx => by simp at hx
  | c :: t, m + 1, h, x, hx => by
      simp only [List.takeWhile_cons] at h
      by_cases hc : p c = true
      · simp only [hc, if_true, List.length_cons] at h
        simp only [List.take_succ_cons, List.mem_cons] at hx
        rcases hx with rfl | hx
        · exact hc
        · exact take_le_takeWhile p t m (by omega) x hx
      · simp [hc] at h

theorem runs_all (p : Nat → Bool) (max : Nat) (s : Bytes) : ∀ r ∈ runs p max s, ∀ x ∈ r.1, p x = true := by
  intro r hr x hx
  unfold runs at hr
  simp only [List.mem_map, List.mem_reverse, List.mem_range] at hr
  obtain ⟨k, hk, rfl⟩ := hr
  exact take_le_takeWhile p s (k + 1) (by omega) x hx

def wordByte (x : Nat) : Prop := isWord x = true

theorem wordByte_valid {x : Nat} (h : wordByte x) : Nat.isValidChar x := by
  unfold wordByte isWord isAlpha isUpper isLower isDigit at h
  simp only [Bool.or_eq_true, Bool.and_eq_true, decide_eq_true_eq, beq_iff_eq] at h
  exact Or.inl (by omega)

theorem userUnderscore_word (s : Bytes) : ∀ r ∈ userUnderscore s, ∀ x ∈ r.1, wordByte x := by
  intro r hr x hx
  unfold userUnderscore at hr
  split at hr
  · rename_i t
    simp only [List.mem_map] at hr
    obtain ⟨q, hq, rfl⟩ := hr
    simp only [List.mem_cons] at hx
    rcases hx with rfl | hx
    · unfold wordByte; decide
    · exact runs_all isWord _ _ q hq x hx
  · cases hr

theorem digit_word {x : Nat} (h : isDigit x = true) : wordByte x := by
  unfold wordByte isWord; simp [h]

/-- the user group of every candidate match consists of word characters -/
theorem allMatches_user_word (s : Bytes) : ∀ g ∈ allMatches s,
    (∀ u, g.user1 = some u → ∀ x ∈ u, wordByte x) ∧ (∀ u, g.user2 = some u → ∀ x ∈ u, wordByte x) := by
  intro g hg
  unfold allMatches at hg
  simp only [List.mem_flatMap, List.mem_append, List.mem_map, List.mem_filter] at hg
  obtain ⟨gh, _, hg⟩ := hg
  rcases hg with ⟨l, hl, m, _, rfl⟩ | ⟨l, hl, m, _, rfl⟩
  · refine ⟨?_, (by intro u hu; cases hu)⟩
    intro u hu x hx
    simp only at hu
    unfold label1Alts at hl
    simp only [List.mem_flatMap, List.mem_map] at hl
    obtain ⟨a, _, e, _, w, hw, rfl⟩ := hl
    simp only at hu
    unfold optG at hw
    simp only [List.mem_append, List.mem_map, List.mem_singleton] at hw
    rcases hw with ⟨q, hq, rfl⟩ | rfl
    · simp only [Option.some.injEq] at hu
      subst hu
      rcases hq with hq | hq
      · exact userUnderscore_word _ q hq x hx
      · exact digit_word (runs_all isDigit _ _ q hq x hx)
    · cases hu
  · refine ⟨(by intro u hu; cases hu), ?_⟩
    intro u hu x hx
    simp only at hu
    unfold label2Alts at hl
    simp only [List.mem_flatMap, List.mem_map] at hl
    obtain ⟨z, _, w, hw, rfl⟩ := hl
    simp only at hu
    unfold optG at hw
    simp only [List.mem_append, List.mem_map, List.mem_singleton] at hw
    rcases hw with ⟨q, hq, rfl⟩ | rfl
    · simp only [Option.some.injEq] at hu
      subst hu
      exact userUnderscore_word _ q hq x hx
    · cases hu

theorem parseLabel_user_valid {s : Bytes} {L : Label} (h : parseLabel s = some L) :
    ∀ u, L.user = some u → ∀ x ∈ u, Nat.isValidChar x := by
  unfold parseLabel matchNucleus at h
  cases hm : (allMatches s).head? with
  | none => rw [hm] at h; cases h
  | some g =>
    rw [hm] at h
    simp only [Option.map_some, Option.some.injEq] at h
    subst h
    have hg : g ∈ allMatches s := List.mem_of_head? hm
    obtain ⟨h1, h2⟩ := allMatches_user_word s g hg
    intro u hu x hx
    simp only at hu
    cases hu1 : g.user1 with
    | some u1 => rw [hu1] at hu; cases hu; exact wordByte_valid (h1 u hu1 x hx)
    | none => rw [hu1] at hu; exact wordByte_valid (h2 u hu x hx)

/-! ### the adapter -/

/-- the user tag returned for an adapter input consists of code points -/
theorem expectedUser_valid (st : NucSettings) (c : Clue) :
    ∀ x ∈ expectedUser (toInput st c), Nat.isValidChar x := by
  unfold expectedUser
  cases hl : (toInput st c).label with
  | none => intro x hx; cases hx
  | some l =>
    have hlv : ∀ x ∈ l, Nat.isValidChar x := by
      unfold toInput at hl
      simp only at hl
      cases hc : c.label with
      | none => rw [hc] at hl; cases hl
      | some s => rw [hc] at hl; cases hl; exact ofString_valid s
    simp only
    split
    · cases hp : parseLabel l with
      | none => intro x hx; cases hx
      | some L =>
        simp only
        cases hu : L.user with
        | none => intro x hx; simp [PStr.lower] at hx
        | some u =>
          simp only [Option.getD_some]
          exact lower_valid u (parseLabel_user_valid hp u hu)
    · exact lower_valid l hlv

/-- with a `bool` (or no) real clue the model returns a `bool` -/
theorem real_is_bool {N : NTables} {rd rng} {st : NucSettings} {c : Clue} {o : Output}
    (h : reconcileWith N rd rng (toInput st c) = .ok o) : ∃ b, o.real = .bool b := by
  obtain ⟨_, lab, _, _, _, _, _, _, _, _, _, hr, _⟩ := reconcileWith_ok h
  obtain ⟨hmem, _⟩ := firstPassing_some hr
  have hall : ∀ p ∈ PyNum.bool true :: realClues (toInput st c) lab, ∃ b, p = .bool b := by
    intro p hp
    rcases List.mem_cons.mp hp with rfl | hp
    · exact ⟨true, rfl⟩
    · unfold realClues at hp
      rcases List.mem_append.mp hp with hp | hp
      · cases hc : c.real with
        | none => simp [toInput, hc, optList] at hp
        | some b => simp [toInput, hc, optList] at hp; exact ⟨b, hp⟩
      · obtain ⟨L, _, rfl⟩ := List.mem_map.mp hp
        exact ⟨L.real, rfl⟩
  exact hall o.real hmem

theorem realOf_bool (b : Bool) : realOf (.bool b) = b := by
  cases b <;> decide

/-- `toNuc` only sees an output up to Python `==` -/
theorem toNuc_congr {o o' : Output} (h : Output.pyEq o' o = true) : toNuc o' = toNuc o := by
  obtain ⟨h1, h2, h3, h4, h5, h6⟩ := (Output.pyEq_iff o' o).mp h
  unfold toNuc realOf
  rw [h1, h2, h3, h4, h5, h6]

theorem tableMass_rounded {N : NTables} {rd : Rat → Rat} (hidem : ∀ x, rd (rd x) = rd x) {k : PT.PyVal} {m : Rat}
    (h : tableMass N rd k = .ok m) : rd m = m := by
  unfold tableMass at h
  split at h
  · cases h
  · split at h
    · cases h
    · cases h; exact hidem _

/-- the returned mass is a rounded number (a table mass or a mass clue, both `float(...)`) -/
theorem mass_rounded {N : NTables} {rd : Rat → Rat} {rng} (hidem : ∀ x, rd (rd x) = rd x)
    {i : Input} {o : Output} (h : reconcileWith N rd rng i = .ok o) : rd o.mass = o.mass := by
  obtain ⟨zo, lab, clues, late, hz, _, _, hc, hlate, hm, _, _, _⟩ := reconcileWith_ok h
  obtain ⟨hmem, _⟩ := firstPassing_some hm
  rcases List.mem_append.mp hmem with hmem | hmem
  · obtain ⟨x, hx, hxe⟩ := List.mem_map.mp hmem
    rw [← hxe]
    exact tableMass_rounded hidem (offerZ_ok (zStage_offers hz x hx)).2.2.1
  · obtain ⟨L, hL, hLe⟩ := List.mem_map.mp hmem
    rw [← hLe]
    obtain ⟨cl, hcl, hoL⟩ := mapM_ok_of_mem_right hlate L hL
    cases cl with
    | massNumber a => exact tableMass_rounded hidem (offerClue_massNumber hoL).2.2.1
    | massValue m =>
      rw [(offerClue_massValue hoL).2.2.1]
      obtain ⟨lm, hlm, rfl⟩ := cluesOf_ok hc
      simp only [List.mem_append, List.mem_map] at hcl
      rcases hcl with ((⟨_, _, hh⟩ | ⟨p, _, hh⟩) | ⟨_, _, hh⟩) | ⟨m', hm', hh⟩
      · cases hh
      · cases hh; exact hidem _
      · cases hh
      · have hmm : m' = m := by cases hh; rfl
        subst hmm
        obtain ⟨t, _, ht⟩ := mapM_ok_of_mem_right hlm m' hm'
        obtain ⟨q, _, rfl⟩ := labelMass_ok ht
        exact hidem _

theorem massToAStr_toNuc (N : NTables) (rd : Rat → Rat) (o : Output) (mtol : Rat) :
    massToAStr N rd (toNuc o).E mtol (toNuc o).mass = massToA N rd o.E mtol o.mass := by
  unfold massToAStr massToA toNuc
  simp only [ofString_toStr _ (unpack_valid o.E)]
  rfl

/-- the clues of the second call, through the adapter, are C06's `feedback` -/
theorem toInput_clueOf {N : NTables} {rd rng} {st : NucSettings} {c : Clue} {o : Output}
    (hcoh : DefaultCoherent N) (h : reconcileWith N rd rng (toInput st c) = .ok o) :
    toInput { st with speclabel := false } (clueOf (toNuc o)) = feedback (toInput st c) o := by
  obtain ⟨b, hb⟩ := real_is_bool h
  have huser : o.user = expectedUser (toInput st c) := (reconcile_sound N rd rng hcoh _ o h).2.2.2.2.2.2.2.2
  have hu : ofString (toStr o.user) = o.user := by
    apply ofString_toStr; rw [huser]; exact expectedUser_valid st c
  have he : ofString (toStr (unpack o.E)) = unpack o.E := ofString_toStr _ (unpack_valid o.E)
  unfold toInput clueOf feedback toNuc
  simp only [hb, realOf_bool, Option.map_some, hu, he]
  by_cases hA : o.A = -1 <;> simp [hA]

/-! ### the atoms of a record; `from_arrays_idempotent` with the hypothesis restricted to them -/

theorem nucsOf_maps : ∀ nucs : List Nuc,
    nucsOf (nucs.map (·.A)) (nucs.map (·.Z)) (nucs.map (·.E)) (nucs.map (·.mass)) (nucs.map (·.real))
      (nucs.map (·.label)) = nucs
  | [] => rfl
  | u :: t => by
      simp only [List.map_cons, nucsOf]
      rw [nucsOf_maps t]

/-- the atoms of a returned record are the reconciler's answers, in order -/
theorem recNucs_of_ok {env : Env} {i : Inp} {r : Molrec} (h : fromArrays env i = .ok r) :
    validateNuclei env.recon (r.geom.length / 3) i = .ok (recNucs r) := by
  obtain ⟨g, u, nucs, fr, cm, com, orient, _, _, _, hn, _, _, _, _, rfl⟩ := fromArrays_ok h
  simp only [recNucs, nucsOf_maps]
  exact hn

theorem validateNuclei_back_of {rc : Reconciler} {st : NucSettings} {nucs : List Nuc}
    (hi : ∀ u ∈ nucs, rc { st with speclabel := false } (clueOf u) = .ok u) (i' : Inp)
    (hst : nucSettings i' = { st with speclabel := false })
    (h1 : i'.elea = some (nucs.map (fun u => some u.A))) (h2 : i'.elez = some (nucs.map (fun u => some u.Z)))
    (h3 : i'.elem = some (nucs.map (fun u => some u.E))) (h4 : i'.mass = some (nucs.map (fun u => some u.mass)))
    (h5 : i'.real = some (nucs.map (fun u => some u.real))) (h6 : i'.elbl = some (nucs.map (fun u => some u.label))) :
    validateNuclei rc nucs.length i' = .ok nucs := by
  unfold validateNuclei
  simp only [nucArrays, h1, h2, h3, h4, h5, h6, fillNone, eleaNorm, List.length_map, and_self, if_true]
  have := clues_of_nucs nucs
  simp only [eleaNorm] at this
  rw [this, hst]
  exact mapE_map_of_forall (fun u hu => hi u hu)

/-- **Fixed point, hypothesis on the record's own atoms only.**  As `from_arrays_idempotent`, but the
reconciler need only reproduce the atoms that are in the record (same proof; the idempotence hypothesis
is used for nothing else). -/
theorem from_arrays_idempotent_of (env : Env) (i : Inp) (r : Molrec) (h : fromArrays env i = .ok r)
    (hid : ∀ u ∈ recNucs r, env.recon { nucSettings i with speclabel := false } (clueOf u) = .ok u) :
    fromArrays env (asInput i r) = .ok r := by
  have I := from_arrays_inv env (fun _ _ => True) (fun _ _ _ _ => trivial) i r h
  obtain ⟨g, u, nucs, fr, cm, com, orient, hg0, hu, hg, hn, hfr, hcm, hcom, hor, hr⟩ := fromArrays_ok h
  obtain ⟨_, rows, hrows, hclose⟩ := validateGeometry_ok hg
  obtain ⟨hl, hm⟩ := validateNuclei_ok hn
  have hnl : nucs.length = g.length / 3 := by
    rw [mapE_ok_length hm]
    exact length_clues _ _ _ _ _ _ _ hl.1 hl.2.1 hl.2.2.1 hl.2.2.2.1 hl.2.2.2.2.1 hl.2.2.2.2.2
  obtain ⟨hconn, _, hunits, _, hiu⟩ := validateUnits_ok hu
  obtain ⟨hne, _, _, _⟩ := validateFragments_ok hfr
  have R := rules_of_vfc (chgmultStage_ok hcm)
  have hRl := R.len_fc
  have hRm := R.len_fm
  simp only [ChgMult.fullSpec, length_npSplit] at hRl hRm
  have hrn : recNucs r = nucs := by rw [hr]; simp only [recNucs, nucsOf_maps]
  rw [hrn] at hid
  -- the fields of `r`
  have eg : r.geom = g := by rw [hr]
  have eunits : r.units = u.units := by rw [hr]
  have eiutau : r.iutau = u.iutau := by rw [hr]
  have econn : r.conn = u.conn := by rw [hr]
  have e1 : r.elea = nucs.map (·.A) := by rw [hr]
  have e2 : r.elez = nucs.map (·.Z) := by rw [hr]
  have e3 : r.elem = nucs.map (·.E) := by rw [hr]
  have e4 : r.mass = nucs.map (·.mass) := by rw [hr]
  have e5 : r.real = nucs.map (·.real) := by rw [hr]
  have e6 : r.elbl = nucs.map (·.label) := by rw [hr]
  have eseps : r.seps = fr.seps := by rw [hr]
  have ec : r.c = cm.c := by rw [hr]
  have efc : r.fc = cm.fc := by rw [hr]
  have em : r.m = cm.m := by rw [hr]
  have efm : r.fm = cm.fm := by rw [hr]
  have ecom : r.fixCom = com := by rw [hr]
  have eor : r.fixOrient = orient := by rw [hr]
  have esymm : r.fixSymm = frameSymm i.fixSymm := by rw [hr]
  have ename : r.name = i.name := by rw [hr]
  have ecomment : r.comment = i.comment := by rw [hr]
  -- stage by stage on the fed-back input
  have s1 : missingGeom (asInput i r) = .ok g := missingGeom_back hg0 (by simp [asInput, eg]) rfl
  have hconn' : validateConn (asInput i r).conn = .ok u.conn := by
    cases hc : u.conn with
    | none => simp [asInput, econn, hc, validateConn]
    | some bs =>
      have := I.conn bs (by rw [econn, hc])
      simp only [asInput, econn, hc, Option.map_some]
      exact validateConn_back this.1 this.2
  have s2 := validateUnits_back env.angToAu (asInput i r) u.units u.iutau u.conn hunits
    (by simp [asInput, eunits]) (by simp [asInput, eiutau]) hiu hconn'
  have s4 : validateNuclei env.recon (g.length / 3) (asInput i r) = .ok nucs := by
    rw [← hnl]
    exact validateNuclei_back_of (st := nucSettings i) hid _ rfl (by simp [asInput, e1]) (by simp [asInput, e2])
      (by simp [asInput, e3]) (by simp [asInput, e4]) (by simp [asInput, e5]) (by simp [asInput, e6])
  have s5 : validateFragments (g.length / 3) (asInput i r).seps (asInput i r).fc (asInput i r).fm
      = .ok { seps := fr.seps, fc := cm.fc.map some, fm := cm.fm.map some } := by
    simp only [asInput, eseps, efc, efm]
    exact validateFragments_back hne hRl hRm
  have s6 : chgmultStage (nucs.map (·.Z)) (nucs.map (·.real))
      { seps := fr.seps, fc := cm.fc.map some, fm := cm.fm.map some }
      (asInput i r).c (asInput i r).m (asInput i r).zgf = .ok cm := by
    simp only [asInput, ec, em]
    unfold chgmultStage
    have := ChgMult.vfc_accepts_valid_full _ cm R
    simp only [ChgMult.fullSpec] at this
    simp only [this]
  have s7 : frameFlag (asInput i r).fixCom = .ok com := by simp [asInput, ecom, frameFlag_back]
  have s8 : frameFlag (asInput i r).fixOrient = .ok orient := by simp [asInput, eor, frameFlag_back]
  have s9 : frameSymm (asInput i r).fixSymm = frameSymm i.fixSymm := by
    simp [asInput, esymm, frameSymm_idem]
  have s10 : (asInput i r).name = i.name := by simp [asInput, ename]
  have s11 : (asInput i r).comment = i.comment := by simp [asInput, ecomment]
  have s3 : validateGeometry (asInput i r).tooclose g = .ok g := hg
  unfold fromArrays
  simp only [s1, s2, s3, s4, s5, s6, s7, s8, s9, s10, s11]
  exact congrArg Except.ok hr.symm

end QcelVerif.FromArrays
