import QcelVerif.Lemmas.MunkresInv2
import QcelVerif.Lemmas.MunkresTerm
import QcelVerif.Model.MunkresFloat
/-!
C14 — the values the exact Munkres run computes stay on the grid of the input and inside an explicit
box, so a work dtype that represents that box exactly reproduces the exact run.

* `OnGrid g x` — `x` is an integer multiple of `g` (`g = 1`: an integer; `g = 1/8`: the dyadic inputs);
* `CostBox g lo hi` — every cost entry is on the grid and in `[lo, hi]`; `K = hi − lo` is the spread;
* `GB g (2K)` — every entry of the working matrix is on the grid and `≤ 2K` (it is `≥ 0` by `Base`);
* `step1_vals`, `step6_vals` — every number `_step1` / `_step6` computes is on the grid and in
  `[0, K]` resp. `[0, 4K]`; the entries written back are in `[0, 2K]`;
* `step1F_eq`, `step6F_eq`, `doStepF_eq` — a rounding function that is the identity on grid values in
  `[0, 4K]` does not change any step.

The key estimate (step 6, entry in a covered row `i` and a covered column `j`, the only entries that
grow): the row holds a star `(i, j*)` in an uncovered column, the column a star `(i', j)` in an
uncovered row, `minval ≤ C i' j*`, and `C i j + C i' j* = C i j* + C i' j + (cost i j + cost i' j* −
cost i j* − cost i' j) = 0 + 0 + (a cross difference of costs) ≤ 2K`.
-/
namespace QcelVerif.Munkres
open QcelVerif.Assign

/-! ### grid and box -/

/-- `x` is an integer multiple of `g` -/
def OnGrid (g x : Rat) : Prop := ∃ z : Int, x = z * g

theorem OnGrid.add {g x y : Rat} (hx : OnGrid g x) (hy : OnGrid g y) : OnGrid g (x + y) := by
  obtain ⟨a, rfl⟩ := hx
  obtain ⟨b, rfl⟩ := hy
  exact ⟨a + b, by push_cast; ring⟩

theorem OnGrid.sub {g x y : Rat} (hx : OnGrid g x) (hy : OnGrid g y) : OnGrid g (x - y) := by
  obtain ⟨a, rfl⟩ := hx
  obtain ⟨b, rfl⟩ := hy
  exact ⟨a - b, by push_cast; ring⟩

theorem OnGrid.zero (g : Rat) : OnGrid g 0 := ⟨0, by simp⟩

/-- every cost entry is on the grid `g·ℤ` and inside `[lo, hi]` -/
structure CostBox (g lo hi : Rat) (n m : Nat) (cost : Nat → Nat → Rat) : Prop where
  grid : ∀ i, i < n → ∀ j, j < m → OnGrid g (cost i j)
  lo_le : ∀ i, i < n → ∀ j, j < m → lo ≤ cost i j
  le_hi : ∀ i, i < n → ∀ j, j < m → cost i j ≤ hi

/-- every entry of the `n × m` working matrix is on the grid and at most `B` -/
def GB (g B : Rat) (n m : Nat) (C : Mat Rat) : Prop :=
  ∀ i, i < n → ∀ j, j < m → OnGrid g (get2 C i j) ∧ get2 C i j ≤ B

/-- `C = cost − u − v` makes every 2 × 2 cross difference of `C` the cross difference of `cost` -/
theorem pot_cross {n m : Nat} {cost : Nat → Nat → Rat} {C : Mat Rat} {M : Mat Nat}
    (h : Pot n m cost C M) {i i' j j' : Nat} (hi : i < n) (hi' : i' < n) (hj : j < m) (hj' : j' < m) :
    get2 C i j + get2 C i' j' - get2 C i j' - get2 C i' j
      = cost i j + cost i' j' - cost i j' - cost i' j := by
  obtain ⟨u, v, V, h1, _, _⟩ := h
  rw [h1 i hi j hj, h1 i' hi' j' hj', h1 i hi j' hj', h1 i' hi' j hj]
  ring

/-! ### step 1 -/

theorem step1_eq_with (s : State) : step1 s = step1With (redC s) s := rfl

theorem step1_C (s : State) : (step1 s).1.C = redC s := by
  simp [step1, clearCovers, redC]

/-- the minimum of row `i` of the fresh state is a cost entry of that row -/
theorem rowMin_cost {n m : Nat} {cost : Nat → Nat → Rat} {s : State} (h : Inv1 n m cost s)
    (hm : 0 < m) (i : Nat) (hi : i < n) : ∃ j, j < m ∧ rowMin (s.C.getD i #[]) = cost i j := by
  have hs := h.shape
  have hsz : (s.C.getD i #[]).size = m := hs.Crow i hi
  have hmem := rowMin_mem (s.C.getD i #[]) (by rw [hsz]; exact hm)
  obtain ⟨j, hj, e⟩ := Array.mem_iff_getElem.1 hmem
  refine ⟨j, hsz ▸ hj, ?_⟩
  have e2 : get2 s.C i j = (s.C.getD i #[])[j] := by
    rw [get2_rat]
    generalize s.C.getD i #[] = r at hj
    simp [Array.getD_eq_getD_getElem?, hj]
  rw [← h.C_eq i hi j (hsz ▸ hj), ← e, e2]

/-- **every number `_step1` computes**: the subtracted row minimum is a cost entry (on the grid, in
`[lo, hi]`), every difference is on the grid and in `[0, hi − lo]` -/
theorem step1_vals {g lo hi : Rat} {n m : Nat} {cost : Nat → Nat → Rat} {s : State}
    (h : Inv1 n m cost s) (hb : CostBox g lo hi n m cost) (i : Nat) (hi' : i < n) (j : Nat) (hj : j < m) :
    (OnGrid g (rowMin (s.C.getD i #[])) ∧ lo ≤ rowMin (s.C.getD i #[]) ∧ rowMin (s.C.getD i #[]) ≤ hi)
    ∧ OnGrid g (get2 s.C i j - rowMin (s.C.getD i #[]))
    ∧ 0 ≤ get2 s.C i j - rowMin (s.C.getD i #[])
    ∧ get2 s.C i j - rowMin (s.C.getD i #[]) ≤ hi - lo := by
  have hs := h.shape
  obtain ⟨j0, hj0, e⟩ := rowMin_cost h (Nat.lt_of_le_of_lt (Nat.zero_le _) hj) i hi'
  have hle : rowMin (s.C.getD i #[]) ≤ get2 s.C i j :=
    rowMin_le (s.C.getD i #[]) j (by rw [hs.Crow i hi']; exact hj)
  rw [e] at hle ⊢
  rw [h.C_eq i hi' j hj] at hle ⊢
  have a1 := hb.lo_le i hi' j0 hj0
  have a2 := hb.le_hi i hi' j0 hj0
  have a3 := hb.lo_le i hi' j hj
  have a4 := hb.le_hi i hi' j hj
  refine ⟨⟨hb.grid i hi' j0 hj0, a1, a2⟩, (hb.grid i hi' j hj).sub (hb.grid i hi' j0 hj0), ?_, ?_⟩ <;> linarith

/-- after `_step1` the working matrix is on the grid and `≤ hi − lo` -/
theorem step1_GB {g lo hi : Rat} {n m : Nat} {cost : Nat → Nat → Rat} {s : State}
    (h : Inv1 n m cost s) (hb : CostBox g lo hi n m cost) : GB g (hi - lo) n m (step1 s).1.C := by
  intro i hi' j hj
  rw [step1_C, get2_redC h.shape i j hi' hj]
  have := step1_vals h hb i hi' j hj
  exact ⟨this.2.1, this.2.2.2⟩

theorem mem_rows {n m : Nat} {s : State} (hs : Shape n m s) {r : Array Rat} (hr : r ∈ s.C) {x : Rat}
    (hx : x ∈ r) : ∃ i j, i < n ∧ j < m ∧ r = s.C.getD i #[] ∧ x = get2 s.C i j := by
  obtain ⟨i, hi, rfl⟩ := Array.mem_iff_getElem.1 hr
  obtain ⟨j, hj, rfl⟩ := Array.mem_iff_getElem.1 hx
  have hin : i < n := hs.Csz ▸ hi
  have hrow : s.C.getD i #[] = s.C[i] := by simp [Array.getD_eq_getD_getElem?, hi]
  have hjm : j < m := by
    have := hs.Crow i hin
    rw [hrow] at this
    exact this ▸ hj
  exact ⟨i, j, hin, hjm, hrow.symm, by simp [get2, Array.getD_eq_getD_getElem?, hi, hj]⟩

/-- a rounding function that is the identity on grid values in `[0, hi − lo]` does not change `_step1` -/
theorem step1F_eq {g lo hi : Rat} {n m : Nat} {cost : Nat → Nat → Rat} {s : State} (rnd : Rat → Rat)
    (h : Inv1 n m cost s) (hb : CostBox g lo hi n m cost)
    (hrnd : ∀ x, OnGrid g x → 0 ≤ x → x ≤ hi - lo → rnd x = x) : step1F rnd s = step1 s := by
  rw [step1_eq_with]
  unfold step1F
  congr 1
  unfold redCF redC
  apply Array.map_congr_left
  intro r hr
  apply Array.map_congr_left
  intro x hx
  obtain ⟨i, j, hi', hj, rfl, rfl⟩ := mem_rows h.shape hr hx
  have := step1_vals h hb i hi' j hj
  exact hrnd _ this.2.1 this.2.2.1 this.2.2.2

/-! ### step 6 -/

theorem minval6_eq (s : State) : minval6 s = rowMin (vals6 s) := rfl

theorem any_id_getD (a : Array Bool) (h : a.any id = true) : ∃ i, i < a.size ∧ a.getD i false = true := by
  rw [Array.any_eq_true] at h
  obtain ⟨i, hi, hp⟩ := h
  exact ⟨i, hi, by simpa [Array.getD_eq_getD_getElem?, hi] using hp⟩

/-- the smallest uncovered value is an uncovered entry of `C` -/
theorem minval6_mem {n m : Nat} {s : State} (hs : Shape n m s)
    (hany : (s.rowUnc.any id && s.colUnc.any id) = true) :
    ∃ i j, i < n ∧ j < m ∧ RU s i ∧ CU s j ∧ rowMin (vals6 s) = get2 s.C i j := by
  rw [Bool.and_eq_true] at hany
  obtain ⟨i, hi, hru⟩ := any_id_getD _ hany.1
  obtain ⟨j, hj, hcu⟩ := any_id_getD _ hany.2
  rw [hs.rsz] at hi
  rw [hs.csz] at hj
  have hmem : get2 s.C i j ∈ vals6 s :=
    (vals6_mem s _).2 ⟨i, j, hs.Csz ▸ hi, hru, by rw [hs.Crow i hi]; exact hj, hcu, rfl⟩
  have hpos : 0 < (vals6 s).size := by
    obtain ⟨k, hk, _⟩ := Array.mem_iff_getElem.1 hmem
    omega
  obtain ⟨i0, j0, hi0, hr0, hj0, hc0, hmv⟩ := (vals6_mem s _).1 (rowMin_mem (vals6 s) hpos)
  have hi0' : i0 < n := hs.Csz ▸ hi0
  exact ⟨i0, j0, hi0', by rw [← hs.Crow i0 hi0']; exact hj0, hr0, hc0, hmv⟩

/-- the smallest uncovered value is below every uncovered entry -/
theorem minval6_le {n m : Nat} {s : State} (hs : Shape n m s) {i j : Nat} (hi : i < n) (hj : j < m)
    (hr : RU s i) (hc : CU s j) : rowMin (vals6 s) ≤ get2 s.C i j :=
  rowMin_le_mem _ _ ((vals6_mem s _).2 ⟨i, j, hs.Csz ▸ hi, hr, by rw [hs.Crow i hi]; exact hj, hc, rfl⟩)

/-- the key estimate: an entry in a covered row and a covered column plus the smallest uncovered
value is at most twice the spread of the costs -/
theorem covered_plus_minval {g lo hi : Rat} {n m : Nat} {cost : Nat → Nat → Rat} {s : State}
    (h : Loop n m cost s) (hb : CostBox g lo hi n m cost) {i j : Nat} (hi' : i < n) (hj : j < m)
    (hr : ¬ RU s i) (hc : ¬ CU s j) : get2 s.C i j + rowMin (vals6 s) ≤ 2 * (hi - lo) := by
  have hs := h.base.shape
  obtain ⟨js, hjs⟩ := (h.l2 i hi' hr).1
  obtain ⟨is, his⟩ := h.l3 j hj hc
  have hcjs : CU s js := ((h.l1 i js hjs).2 hr)
  have hris : RU s is := by
    by_contra hn
    exact hc ((h.l1 is j his).2 hn)
  obtain ⟨_, hjs'⟩ := Star.lt hs hjs
  obtain ⟨his', _⟩ := Star.lt hs his
  have hle := minval6_le hs his' hjs' hris hcjs
  have hx := pot_cross h.base.pot hi' his' hj hjs'
  rw [h.base.starZero i js hjs, h.base.starZero is j his] at hx
  have b1 := hb.le_hi i hi' j hj
  have b2 := hb.le_hi is his' js hjs'
  have b3 := hb.lo_le i hi' js hjs'
  have b4 := hb.lo_le is his' j hj
  linarith

/-- **every number `_step6` computes** (`K = hi − lo`): `minval` is an uncovered entry, on the grid,
in `[0, 2K]`; every sum `x + minval` (covered rows) is on the grid and in `[0, 4K]`; every difference
(uncovered columns) is on the grid and in `[0, 4K]`; and the entry written back is on the grid and in
`[0, 2K]`. -/
theorem step6_vals {g lo hi : Rat} {n m : Nat} {cost : Nat → Nat → Rat} {s : State}
    (h : Loop n m cost s) (hb : CostBox g lo hi n m cost) (hg : GB g (2 * (hi - lo)) n m s.C)
    (hany : (s.rowUnc.any id && s.colUnc.any id) = true) :
    (OnGrid g (rowMin (vals6 s)) ∧ 0 ≤ rowMin (vals6 s) ∧ rowMin (vals6 s) ≤ 2 * (hi - lo))
    ∧ ∀ i, i < n → ∀ j, j < m →
      (OnGrid g (get2 s.C i j + rowMin (vals6 s)) ∧ 0 ≤ get2 s.C i j + rowMin (vals6 s)
        ∧ get2 s.C i j + rowMin (vals6 s) ≤ 4 * (hi - lo))
      ∧ (RU s i → CU s j → OnGrid g (get2 s.C i j - rowMin (vals6 s)) ∧ 0 ≤ get2 s.C i j - rowMin (vals6 s)
          ∧ get2 s.C i j - rowMin (vals6 s) ≤ 4 * (hi - lo))
      ∧ (OnGrid g (get2 (C6 s (rowMin (vals6 s))) i j) ∧ 0 ≤ get2 (C6 s (rowMin (vals6 s))) i j
          ∧ get2 (C6 s (rowMin (vals6 s))) i j ≤ 2 * (hi - lo)) := by
  have hs := h.base.shape
  obtain ⟨i0, j0, hi0, hj0, hr0, hc0, hmv⟩ := minval6_mem hs hany
  have hmg : OnGrid g (rowMin (vals6 s)) := hmv ▸ (hg i0 hi0 j0 hj0).1
  have hm0 : 0 ≤ rowMin (vals6 s) := hmv ▸ h.base.nonneg i0 hi0 j0 hj0
  have hmK : rowMin (vals6 s) ≤ 2 * (hi - lo) := hmv ▸ (hg i0 hi0 j0 hj0).2
  refine ⟨⟨hmg, hm0, hmK⟩, ?_⟩
  intro i hi' j hj
  have hxg := (hg i hi' j hj).1
  have hxK := (hg i hi' j hj).2
  have hx0 := h.base.nonneg i hi' j hj
  refine ⟨⟨hxg.add hmg, by linarith, by linarith⟩, ?_, ?_⟩
  · intro hr hc
    have := minval6_le hs hi' hj hr hc
    exact ⟨hxg.sub hmg, by linarith, by linarith⟩
  · rw [get2_C6 s _ i j (hs.Csz ▸ hi') (by rw [hs.Crow i hi']; exact hj)]
    by_cases hr : s.rowUnc.getD i false = true <;> by_cases hc : s.colUnc.getD j false = true
    · have := minval6_le hs hi' hj hr hc
      rw [if_pos hr, if_pos hc]
      exact ⟨by simpa using hxg.sub hmg, by linarith, by linarith⟩
    · rw [if_pos hr, if_neg hc]
      exact ⟨by simpa using hxg, by linarith, by linarith⟩
    · rw [if_neg hr, if_pos hc]
      exact ⟨by simpa using hxg, by linarith, by linarith⟩
    · have := covered_plus_minval h hb hi' hj hr hc
      rw [if_neg hr, if_neg hc]
      exact ⟨by simpa using hxg.add hmg, by linarith, by linarith⟩

/-- after `_step6` the working matrix is again on the grid and `≤ 2K` -/
theorem step6_GB {g lo hi : Rat} {n m : Nat} {cost : Nat → Nat → Rat} {s : State}
    (h : Loop n m cost s) (hb : CostBox g lo hi n m cost) (hg : GB g (2 * (hi - lo)) n m s.C) :
    GB g (2 * (hi - lo)) n m (step6 s).1.C := by
  rw [step6_eq]
  split
  · rename_i hany
    intro i hi' j hj
    have := ((step6_vals h hb hg hany).2 i hi' j hj).2.2
    exact ⟨this.1, this.2.2⟩
  · exact hg

theorem mapIdx2_congr (M : Mat Rat) (F G : Nat → Nat → Rat → Rat)
    (h : ∀ i j, i < M.size → j < (M.getD i #[]).size → F i j (get2 M i j) = G i j (get2 M i j)) :
    (M.mapIdx fun i r => r.mapIdx fun j x => F i j x) = M.mapIdx fun i r => r.mapIdx fun j x => G i j x := by
  apply Array.ext
  · simp
  · intro i h1 h2
    have hi : i < M.size := by simpa using h1
    simp only [Array.getElem_mapIdx]
    apply Array.ext
    · simp
    · intro j h3 h4
      have hj : j < M[i].size := by simpa using h3
      simp only [Array.getElem_mapIdx]
      have := h i j hi (by simpa [Array.getD_eq_getD_getElem?, hi] using hj)
      simpa [get2, Array.getD_eq_getD_getElem?, hi, hj] using this

/-- a rounding function that is the identity on grid values in `[0, 4K]` does not change `_step6` -/
theorem step6F_eq {g lo hi : Rat} {n m : Nat} {cost : Nat → Nat → Rat} {s : State} (rnd : Rat → Rat)
    (h : Loop n m cost s) (hb : CostBox g lo hi n m cost) (hg : GB g (2 * (hi - lo)) n m s.C)
    (hrnd : ∀ x, OnGrid g x → 0 ≤ x → x ≤ 4 * (hi - lo) → rnd x = x) : step6F rnd s = step6 s := by
  rw [step6_eq]
  unfold step6F
  split
  · rename_i hany
    rw [minval6_eq]
    have hs := h.base.shape
    obtain ⟨hm, hv⟩ := step6_vals h hb hg hany
    have : C6F rnd s (rowMin (vals6 s)) = C6 s (rowMin (vals6 s)) := by
      unfold C6F C6
      apply mapIdx2_congr s.C
      intro i j hi' hj
      have hin : i < n := hs.Csz ▸ hi'
      have hjm : j < m := by rw [← hs.Crow i hin]; exact hj
      obtain ⟨hadd, hsub, _⟩ := hv i hin j hjm
      have e1 : rnd (get2 s.C i j + rowMin (vals6 s)) = get2 s.C i j + rowMin (vals6 s) :=
        hrnd _ hadd.1 hadd.2.1 hadd.2.2
      cases hr : s.rowUnc.getD i false <;> cases hc : s.colUnc.getD j false
      · simp only [Bool.false_eq_true, if_false, e1]
      · simp only [Bool.false_eq_true, if_false, if_true, e1]
        have hx0 := h.base.nonneg i hin j hjm
        have hxK := (hg i hin j hjm).2
        have hK : 0 ≤ hi - lo := by
          have a := hb.lo_le i hin j hjm
          have b := hb.le_hi i hin j hjm
          linarith
        have e2 : get2 s.C i j + rowMin (vals6 s) - rowMin (vals6 s) = get2 s.C i j := by ring
        rw [e2]
        exact hrnd _ (hg i hin j hjm).1 hx0 (by linarith)
      · simp only [Bool.false_eq_true, if_false, if_true]
      · have := hsub hr hc
        simp only [if_true]
        exact hrnd _ this.1 this.2.1 this.2.2
    rw [this]
  · rfl

end QcelVerif.Munkres
