import QcelVerif.Lemmas.MolSchema
import QcelVerif.Lemmas.C04Schema
/-!
Bridge between the two record-level schema models (nothing here is a property statement):

  * `Model/MolSchema.lean` (C09): generic scalars, the dtype-1 `{"molecule": …}` nesting, `from_arrays` a
    PARAMETER `fa`;
  * `Model/FromArrays.lean` + `Model/FromArraysSchema.lean` (C04): rationals, flat dictionary, `from_arrays`
    modelled stage by stage.

`toMS` reads a C04 record as a C09 record (`K = Rat`); `inpOfArgs` reads the argument record the C09 model
hands to its `fa` as the C04 model's `from_arrays` input (from_schema.py:60-90); `faOfC04` is the C04
`from_arrays` as the C09 model's parameter.  Integral charges (C04's scope) are embedded by the cast
`Int → Rat` and read back by the numerator.
-/
namespace QcelVerif.FromArrays
open QcelVerif

def toMS (r : Molrec) : MolSchema.Molrec Rat :=
  { units := if r.units = sBohr then .bohr else .angstrom
    iutau := r.iutau, geom := r.geom, elea := r.elea, elez := r.elez, elem := r.elem, mass := r.mass
    real := r.real, elbl := r.elbl, seps := r.seps.map Int.toNat
    fragCharges := r.fc.map (fun (c : Int) => (c : Rat)), fragMults := r.fm
    charge := (r.c : Rat), mult := r.m, fixCom := r.fixCom, fixOri := r.fixOrient
    fixSym := r.fixSymm.map String.ofList, name := r.name, comment := r.comment, connectivity := r.conn }

def triOfOpt : Option Bool → Tri
  | none => .none
  | some b => Tri.ofBool b

/-- from_schema.py:60-90 on the C09 argument record -/
def inpOfArgs (np : Bool) (a : MolSchema.FAArgs Rat) : Inp :=
  { geom := some a.geom
    elea := a.elea.map (·.map some), elez := a.elez.map (·.map some), elem := some (a.elem.map some)
    mass := a.mass.map (·.map some), real := a.real.map (·.map some), elbl := a.elbl.map (·.map some)
    name := a.name, comment := a.comment, units := sBohr, iutau := none
    fixCom := triOfOpt a.fixCom, fixOrient := triOfOpt a.fixOri, fixSymm := a.fixSym.map String.toList
    seps := some (a.seps.map (fun (k : Nat) => (k : Int)))
    fc := a.fragCharges.map (·.map (fun q => some q.num)), fm := a.fragMults.map (·.map some)
    c := a.charge.map (·.num), m := a.mult
    conn := a.connectivity.map (·.map bondBack)
    minimal := false, speclabel := false, nonphysical := np, mtol := dfltMtol, tooclose := dfltTooclose, zgf := false }

/-- the C04 model of `from_arrays` as the `fa` parameter of the C09 model -/
def faOfC04 (env : Env) (np : Bool) (a : MolSchema.FAArgs Rat) : Except MolSchema.Err (MolSchema.Molrec Rat) :=
  match fromArrays env (inpOfArgs np a) with
  | .ok r => .ok (toMS r)
  | .error _ => .error .validation

theorem exportGeom_toMS (P : SchemaParams) (dflt : Rat) (r : Molrec) (hfl : ∀ x, P.fl x = x)
    (hcf : P.cf sAngstrom = dflt) (hu : r.units = sAngstrom ∨ r.units = sBohr) :
    MolSchema.exportGeom dflt (toMS r) = exportGeom P r := by
  rcases hu with hu | hu
  · have hne : r.units ≠ sBohr := by rw [hu]; exact sAngstrom_ne_sBohr
    cases hi : r.iutau with
    | none => simp [MolSchema.exportGeom, toMS, exportGeom, exportFactor, sAngstrom_ne_sBohr, hu, hi, hfl, hcf]
    | some f => simp [MolSchema.exportGeom, toMS, exportGeom, exportFactor, sAngstrom_ne_sBohr, hu, hi, hfl]
  · simp [MolSchema.exportGeom, toMS, exportGeom, hu]

theorem nameOf_toMS (fg : List String → String) (r : Molrec) :
    MolSchema.nameOf fg (toMS r) = r.name.getD (fg r.elem) := by
  cases h : r.name <;> simp [MolSchema.nameOf, toMS, h]

theorem seps_toNat_back (seps : List Int) (hpos : ∀ s ∈ seps, 0 ≤ s) :
    (seps.map Int.toNat).map (fun (k : Nat) => (k : Int)) = seps := by
  rw [List.map_map]
  conv => rhs; rw [← List.map_id seps]
  apply List.map_congr_left
  intro s hs
  have := hpos s hs
  simp only [Function.comp_apply, id]
  omega

theorem sortedLe_of_pairwise : ∀ (l : List Int) (lo : Nat), (∀ s ∈ l, (lo : Int) ≤ s) → l.Pairwise (· < ·) →
    MolSchema.sortedLe lo (l.map Int.toNat) = true
  | [], _, _, _ => rfl
  | s :: t, lo, hlo, hp => by
      have hs := hlo s (List.mem_cons_self ..)
      have hp' := List.pairwise_cons.1 hp
      have ih := sortedLe_of_pairwise t s.toNat (fun x hx => by have := hp'.1 x hx; omega) hp'.2
      simp only [List.map_cons, MolSchema.sortedLe, Bool.and_eq_true, decide_eq_true_eq]
      exact ⟨by omega, ih⟩

/-- C04's invariant (with at least one atom and non-negative separators) gives C09's -/
theorem inv_toMS {valid a st tc} {r : Molrec} (I : Inv valid a st tc r) (hn : r.elem.length ≠ 0)
    (hpos : ∀ s ∈ r.seps, 0 ≤ s) : MolSchema.Inv (toMS r) := by
  obtain ⟨l1, l2, l3, l4, l5, l6⟩ := I.lengths
  have hs := accepted_separators_sorted (List.range r.elem.length) r.seps hpos (I.frag_nonempty hn)
  simp only [List.length_range] at hs
  exact {
    geom3 := l6
    nonempty := Nat.pos_of_ne_zero hn
    elea := l1, elez := l2, mass := l3, real := l4, elbl := l5
    sepsSorted := sortedLe_of_pairwise r.seps 0 (fun s h => by have := hpos s h; omega) hs.1
    sepsLe := by
      intro s h
      simp only [toMS, List.mem_map] at h
      obtain ⟨s0, h0, rfl⟩ := h
      have := hs.2 s0 h0
      show s0.toNat ≤ r.elem.length
      omega }

end QcelVerif.FromArrays
