import QcelVerif.Lemmas.RegexEngine
import QcelVerif.Model.RegexOps
/-!
Reusable facts about the generic regex engine, on top of `Lemmas/RegexEngine.lean` (C06's, not edited):

  * membership in the list-of-successes semantics, constructor by constructor (`mem_ms_seq/alt/group/opt/cls/bos/eos`) and for a greedy
    repetition of a one-character class (`mem_ms_star`, `mem_ms_plus`: every split `consumed ++ rest` with `consumed` inside the class)
  * the FIRST way to match of a greedy class repetition is the longest run (`classRuns_head`, `ms_star_head`, `ms_plus_head`)
  * `head?` of a `flatMap` (`head?_flatMap_cons`, `head?_flatMap_of_all`)
  * a pattern that starts with `\A` matches only at the start of the text: `search` = `match` (`search_bos`)
  * the scan behind `re.sub` / `re.split` one step at a time (`scanFuel_nil`, `scanFuel_hit`, `scanFuel_skip`)
-/
namespace QcelVerif.Regex

/-! ## membership -/

theorem mem_ms_seq {a b : Re} {st x : St} : x ∈ (Re.seq a b).ms st ↔ ∃ m, m ∈ a.ms st ∧ x ∈ b.ms m := by
  simp [Re.ms, List.mem_flatMap]

theorem mem_ms_alt {a b : Re} {st x : St} : x ∈ (Re.alt a b).ms st ↔ x ∈ a.ms st ∨ x ∈ b.ms st := by
  simp [Re.ms]

theorem mem_ms_group {i : Nat} {r : Re} {st x : St} : x ∈ (Re.group i r).ms st ↔ ∃ m, m ∈ r.ms st ∧ x = St.capture i st m := by
  simp only [Re.ms, List.mem_map]
  constructor
  · rintro ⟨m, hm, rfl⟩; exact ⟨m, hm, rfl⟩
  · rintro ⟨m, hm, rfl⟩; exact ⟨m, hm, rfl⟩

theorem ms_opt (r : Re) (st : St) : (Re.rep 0 (some 1) true r).ms st = r.ms st ++ [st] := by
  have h := bind_opt r st (fun x => [x])
  simpa [bindMs] using h

theorem mem_ms_opt {r : Re} {st x : St} : x ∈ (Re.rep 0 (some 1) true r).ms st ↔ x ∈ r.ms st ∨ x = st := by
  rw [ms_opt]; simp

theorem mem_ms_cls {neg : Bool} {items : List Item} {st x : St} :
    x ∈ (Re.cls neg items).ms st ↔ ∃ c t, st.rest = c :: t ∧ clsMem neg items c = true ∧ x = { st with prev := some c, rest := t } := by
  simp only [Re.ms, stepCls]
  cases hr : st.rest with
  | nil => simp
  | cons c t =>
    by_cases hc : clsMem neg items c = true
    · simp only [hc, if_true, Option.toList_some, List.mem_singleton]
      constructor
      · intro h; exact ⟨c, t, rfl, hc, h⟩
      · rintro ⟨c', t', h1, _, h3⟩
        injection h1 with h1 h2
        subst h1; subst h2; exact h3
    · simp only [hc]
      constructor
      · intro h; simp at h
      · rintro ⟨c', t', h1, h2, _⟩
        injection h1 with h1 _
        subst h1; exact absurd h2 hc

theorem mem_ms_eps {st x : St} : x ∈ Re.eps.ms st ↔ x = st := by simp [Re.ms]

theorem mem_ms_bos {st x : St} : x ∈ Re.bos.ms st ↔ st.prev = none ∧ x = st := by
  cases h : st.prev <;> simp [Re.ms, holdsAt, h]

theorem mem_ms_eos {st x : St} : x ∈ Re.eos.ms st ↔ st.rest = [] ∧ x = st := by
  cases h : st.rest <;> simp [Re.ms, holdsAt, h]

/-! ## greedy repetition of a one-character class -/

theorem mem_classRuns (p : Nat → Bool) :
    ∀ (s : List Nat) (lo f : Nat), s.length < f → ∀ x : List Nat × List Nat,
      x ∈ classRuns p lo none f s ↔ (s = x.1 ++ x.2 ∧ (∀ c ∈ x.1, p c = true) ∧ lo ≤ x.1.length) := by
  intro s
  induction s with
  | nil =>
    intro lo f hf x
    obtain ⟨f', rfl⟩ : ∃ f', f = f' + 1 := ⟨f - 1, by omega⟩
    obtain ⟨a, b⟩ := x
    by_cases hlo : lo = 0
    · subst hlo
      simp only [classRuns]
      constructor
      · intro h; simp at h; obtain ⟨rfl, rfl⟩ := h; simp
      · rintro ⟨h1, _, _⟩
        have := List.append_eq_nil_iff.mp h1.symm
        simp [this.1, this.2]
    · simp only [classRuns, hlo, if_false, List.append_nil]
      constructor
      · intro h; simp at h
      · rintro ⟨h1, _, h3⟩
        have := List.append_eq_nil_iff.mp h1.symm
        simp [this.1] at h3
        exact absurd h3 hlo
  | cons c t ih =>
    intro lo f hf x
    obtain ⟨f', rfl⟩ : ∃ f', f = f' + 1 := ⟨f - 1, by omega⟩
    have hf' : t.length < f' := by simp at hf; omega
    obtain ⟨a, b⟩ := x
    simp only [classRuns, decHi, List.mem_append]
    have hnone : ((none : Option Nat) = some 0) = False := by simp
    simp only [hnone, if_false]
    constructor
    · rintro (h | h)
      · by_cases hp : p c = true
        · simp only [hp, if_true, List.mem_map] at h
          obtain ⟨y, hy, hxy⟩ := h
          have := (ih (lo - 1) f' hf' y).mp hy
          injection hxy with h1 h2
          subst h1; subst h2
          refine ⟨by simp [this.1], ?_, by simp; omega⟩
          intro d hd
          simp at hd
          rcases hd with rfl | hd
          · exact hp
          · exact this.2.1 d hd
        · simp [hp] at h
      · by_cases hlo : lo = 0
        · simp [hlo] at h; obtain ⟨rfl, rfl⟩ := h; simp [hlo]
        · simp [hlo] at h
    · rintro ⟨h1, h2, h3⟩
      cases a with
      | nil =>
        right
        simp at h3 h1
        simp [h3, h1]
      | cons d a' =>
        left
        simp at h1
        obtain ⟨rfl, h1⟩ := h1
        have hp : p c = true := h2 c (by simp)
        simp only [hp, if_true, List.mem_map]
        refine ⟨(a', b), (ih (lo - 1) f' hf' (a', b)).mpr ⟨h1, fun e he => h2 e (by simp [he]), by
          simp only [List.length_cons] at h3
          show lo - 1 ≤ a'.length
          omega⟩, rfl⟩

theorem classRuns_head (p : Nat → Bool) :
    ∀ (s : List Nat) (f : Nat), s.length < f → (classRuns p 0 none f s).head? = some (s.takeWhile p, s.dropWhile p) := by
  intro s
  induction s with
  | nil =>
    intro f hf
    obtain ⟨f', rfl⟩ : ∃ f', f = f' + 1 := ⟨f - 1, by omega⟩
    simp [classRuns]
  | cons c t ih =>
    intro f hf
    obtain ⟨f', rfl⟩ : ∃ f', f = f' + 1 := ⟨f - 1, by omega⟩
    have hf' : t.length < f' := by simp at hf; omega
    by_cases hp : p c = true
    · have := ih f' hf'
      simp only [classRuns, decHi, hp, if_true, List.takeWhile_cons, List.dropWhile_cons]
      cases hcr : classRuns p 0 none f' t with
      | nil => rw [hcr] at this; simp at this
      | cons y ys =>
        rw [hcr] at this
        simp at this
        simp [this]
    · simp [classRuns, hp]

/-- with at least one character required, the first way is again the longest run — if it is not empty -/
theorem classRuns_one_head (p : Nat → Bool) (s : List Nat) (f : Nat) (hf : s.length < f) :
    (classRuns p 1 none f s).head? = if (s.takeWhile p).isEmpty then none else some (s.takeWhile p, s.dropWhile p) := by
  obtain ⟨f', rfl⟩ : ∃ f', f = f' + 1 := ⟨f - 1, by omega⟩
  cases s with
  | nil => simp [classRuns]
  | cons c t =>
    have hf' : t.length < f' := by simp at hf; omega
    by_cases hp : p c = true
    · have := classRuns_head p t f' hf'
      simp only [classRuns, decHi, hp, if_true, List.takeWhile_cons, List.dropWhile_cons]
      cases hcr : classRuns p 0 none f' t with
      | nil => rw [hcr] at this; simp at this
      | cons y ys =>
        rw [hcr] at this
        simp at this
        simp [this]
    · simp [classRuns, hp]

theorem ms_rep_cls (lo : Nat) (neg : Bool) (items : List Item) (st : St) :
    (Re.rep lo none true (.cls neg items)).ms st
      = (classRuns (clsMem neg items) lo none (st.rest.length + 1) st.rest).map fun x => st.adv x.1 x.2 := by
  rw [show (Re.rep lo none true (.cls neg items)).ms st
        = repMs (fun st' => Re.ms (.cls neg items) st') lo none true (st.rest.length + 1) st from rfl, repMs_cls]

/-- `[class]*`, greedy: every split of the rest into a run inside the class and what follows -/
theorem mem_ms_star {neg : Bool} {items : List Item} {st x : St} :
    x ∈ (Re.rep 0 none true (.cls neg items)).ms st ↔
      ∃ a r, st.rest = a ++ r ∧ (∀ c ∈ a, clsMem neg items c = true) ∧ x = st.adv a r := by
  rw [ms_rep_cls, List.mem_map]
  constructor
  · rintro ⟨y, hy, rfl⟩
    have := (mem_classRuns _ _ 0 _ (Nat.lt_succ_self _) y).mp hy
    exact ⟨y.1, y.2, this.1, this.2.1, rfl⟩
  · rintro ⟨a, r, h1, h2, rfl⟩
    exact ⟨(a, r), (mem_classRuns _ _ 0 _ (Nat.lt_succ_self _) (a, r)).mpr ⟨h1, h2, Nat.zero_le _⟩, rfl⟩

/-- `[class]+`, greedy -/
theorem mem_ms_plus {neg : Bool} {items : List Item} {st x : St} :
    x ∈ (Re.rep 1 none true (.cls neg items)).ms st ↔
      ∃ a r, a ≠ [] ∧ st.rest = a ++ r ∧ (∀ c ∈ a, clsMem neg items c = true) ∧ x = st.adv a r := by
  rw [ms_rep_cls, List.mem_map]
  constructor
  · rintro ⟨y, hy, rfl⟩
    have := (mem_classRuns _ _ 1 _ (Nat.lt_succ_self _) y).mp hy
    refine ⟨y.1, y.2, ?_, this.1, this.2.1, rfl⟩
    intro h; rw [h] at this; simp at this
  · rintro ⟨a, r, h0, h1, h2, rfl⟩
    refine ⟨(a, r), (mem_classRuns _ _ 1 _ (Nat.lt_succ_self _) (a, r)).mpr ⟨h1, h2, ?_⟩, rfl⟩
    cases a with
    | nil => exact absurd rfl h0
    | cons _ _ => simp

theorem ms_star_head (neg : Bool) (items : List Item) (st : St) :
    ((Re.rep 0 none true (.cls neg items)).ms st).head?
      = some (st.adv (st.rest.takeWhile (clsMem neg items)) (st.rest.dropWhile (clsMem neg items))) := by
  rw [ms_rep_cls, List.head?_map, classRuns_head _ _ _ (Nat.lt_succ_self _)]
  rfl

theorem ms_plus_head (neg : Bool) (items : List Item) (st : St) :
    ((Re.rep 1 none true (.cls neg items)).ms st).head?
      = if (st.rest.takeWhile (clsMem neg items)).isEmpty then none
        else some (st.adv (st.rest.takeWhile (clsMem neg items)) (st.rest.dropWhile (clsMem neg items))) := by
  rw [ms_rep_cls, List.head?_map, classRuns_one_head _ _ _ (Nat.lt_succ_self _)]
  split <;> rfl

/-! ## `head?` of a `flatMap` -/

theorem head?_flatMap_cons {α β} (a : α) (l : List α) (f : α → List β) :
    ((a :: l).flatMap f).head? = ((f a).head?).or ((l.flatMap f).head?) := by
  simp only [List.flatMap_cons]
  cases f a <;> simp

/-- every element contributes nothing or a block that starts with `h`, and some element contributes: the first is `h` -/
theorem head?_flatMap_of_all {α β} (l : List α) (f : α → List β) (h : β)
    (hall : ∀ a ∈ l, f a = [] ∨ (f a).head? = some h) (hex : ∃ a ∈ l, f a ≠ []) : (l.flatMap f).head? = some h := by
  induction l with
  | nil => obtain ⟨a, ha, _⟩ := hex; simp at ha
  | cons a t ih =>
    rw [head?_flatMap_cons]
    rcases hall a (by simp) with h0 | h1
    · rw [h0]
      simp only [List.head?_nil, Option.none_or]
      apply ih (fun b hb => hall b (by simp [hb]))
      obtain ⟨b, hb, hne⟩ := hex
      simp at hb
      rcases hb with rfl | hb
      · exact absurd h0 hne
      · exact ⟨b, hb, hne⟩
    · rw [h1]; rfl

/-- a list all of whose members are the one value `v`, non-empty exactly when `P`: its head -/
theorem head?_of_mem_iff {α} {l : List α} {P : Prop} [Decidable P] {v : α} (h : ∀ x, x ∈ l ↔ P ∧ x = v) :
    l.head? = if P then some v else none := by
  cases l with
  | nil =>
    by_cases hp : P
    · have := (h v).mpr ⟨hp, rfl⟩; simp at this
    · simp [hp]
  | cons a t =>
    have := (h a).mp (by simp)
    simp [this.1, this.2]

theorem takeDiff_nil (b : List Nat) : takeDiff b [] = b := by
  unfold takeDiff; exact List.take_of_length_le (by simp)

theorem takeDiff_append' (a b : List Nat) : takeDiff (a ++ b) b = a := by
  simp [takeDiff]

@[simp] theorem adv_rest' (st : St) (x r : List Nat) : (st.adv x r).rest = r := rfl
@[simp] theorem adv_caps' (st : St) (x r : List Nat) : (st.adv x r).caps = st.caps := rfl
@[simp] theorem adv_prev' (st : St) (x r : List Nat) : (st.adv x r).prev = lastOr st.prev x := rfl
@[simp] theorem capture_rest' (i : Nat) (a b : St) : (St.capture i a b).rest = b.rest := rfl
@[simp] theorem capture_prev' (i : Nat) (a b : St) : (St.capture i a b).prev = b.prev := rfl
@[simp] theorem capture_caps' (i : Nat) (a b : St) : (St.capture i a b).caps = (i, takeDiff a.rest b.rest) :: b.caps := rfl

theorem lastOr_append (p : Option Nat) (a b : List Nat) : lastOr p (a ++ b) = lastOr (lastOr p a) b := by
  induction a generalizing p with
  | nil => rfl
  | cons c t ih => simp [lastOr, ih]

theorem adv_adv (st : St) (a r b r' : List Nat) : (st.adv a r).adv b r' = st.adv (a ++ b) r' := by
  simp [St.adv, lastOr_append]

theorem flatMap_eq_nil_of_all {α β} (l : List α) (f : α → List β) (h : ∀ a ∈ l, f a = []) : l.flatMap f = [] := by
  induction l with
  | nil => rfl
  | cons a t ih => simp [h a (by simp), ih (fun b hb => h b (by simp [hb]))]

/-! ## a pattern that starts with `\A` -/

theorem bt_bos_some {α} (r : Re) (k : St → Option α) (c : Nat) (s : List Nat) (caps : Caps) :
    (Re.seq .bos r).bt k ⟨some c, s, caps⟩ = none := by
  simp [Re.bt, holdsAt]

theorem searchFrom_bos_some (r : Re) : ∀ (s : List Nat) (pos c : Nat), searchFrom (.seq .bos r) pos (some c) s = none := by
  intro s
  induction s with
  | nil => intro pos c; simp [searchFrom, bt_bos_some]
  | cons d t ih => intro pos c; simp [searchFrom, bt_bos_some, ih]

/-- `re.search` / the scan of `re.sub` with a pattern that starts with `\A` finds a match only at the start: it is `re.match` -/
theorem search_bos (r : Re) (s : List Nat) :
    (Re.seq .bos r).search s = ((Re.seq .bos r).matchPrefix s).map fun st => (0, st) := by
  unfold Re.search Re.matchPrefix St.init
  cases s with
  | nil => simp [searchFrom]
  | cons c t =>
    simp only [searchFrom]
    cases (Re.seq .bos r).bt some ⟨none, c :: t, []⟩ with
    | some st => rfl
    | none => simp [searchFrom_bos_some]

/-! ## the scan of `re.sub` / `re.split`, one step at a time -/

theorem searchFrom_shift (r : Re) : ∀ (s : List Nat) (pos : Nat) (p : Option Nat),
    searchFrom r (pos + 1) p s = (searchFrom r pos p s).map fun x => (x.1 + 1, x.2) := by
  intro s
  induction s with
  | nil => intro pos p; simp only [searchFrom]; cases r.bt some ⟨p, [], []⟩ <;> rfl
  | cons c t ih =>
    intro pos p
    simp only [searchFrom]
    cases r.bt some ⟨p, c :: t, []⟩ with
    | some st => rfl
    | none => exact ih (pos + 1) (some c)

theorem scanFuel_nil (r : Re) (f : Nat) (p : Option Nat) (h : r.bt some ⟨p, [], []⟩ = none) : scanFuel r (f + 1) p [] = some ([], []) := by
  simp [scanFuel, searchFrom, h]

/-- a non-empty match at the cursor: one hit with nothing skipped, then on from its end -/
theorem scanFuel_hit (r : Re) (f : Nat) (p : Option Nat) (c : Nat) (t : List Nat) (st : St)
    (h : r.bt some ⟨p, c :: t, []⟩ = some st) (hlt : st.rest.length < (c :: t).length) :
    scanFuel r (f + 1) p (c :: t) = (scanFuel r f st.prev st.rest).map fun x => (([], st) :: x.1, x.2) := by
  simp only [scanFuel, searchFrom, h, List.drop_zero, hlt, if_true, List.take_zero]
  cases scanFuel r f st.prev st.rest <;> rfl

/-- no match at the cursor: the character is skipped (it joins the text before the next hit, or the tail) -/
theorem scanFuel_skip (r : Re) (f : Nat) (p : Option Nat) (c : Nat) (t : List Nat) (h : r.bt some ⟨p, c :: t, []⟩ = none) :
    scanFuel r (f + 1) p (c :: t) =
      (scanFuel r (f + 1) (some c) t).map fun x =>
        match x.1 with
        | [] => ([], c :: x.2)
        | hit :: hits => ((c :: hit.1, hit.2) :: hits, x.2) := by
  simp only [scanFuel, searchFrom, h]
  rw [show (0 : Nat) + 1 = 0 + 1 from rfl, searchFrom_shift]
  cases hs : searchFrom r 0 (some c) t with
  | none => simp
  | some x =>
    obtain ⟨k, st⟩ := x
    simp only [Option.map_some, List.drop_succ_cons, List.take_succ_cons]
    by_cases hlt : st.rest.length < (t.drop k).length
    · simp only [hlt, if_true]
      cases scanFuel r f st.prev st.rest with
      | none => rfl
      | some y => rfl
    · have hlt' : ¬ st.rest.length < t.length - k := by simpa using hlt
      simp [hlt']

end QcelVerif.Regex
