import QcelVerif.Model.UnoOrderings
import Mathlib.Data.List.Nodup
import Mathlib.Data.List.Basic
/-!
Helper lemmas for C12's `hungarian_uno` model: the recursive enumeration `Uno.enumFrom` / `Uno.matchings`
(Model/UnoOrderings.lean) lists exactly the selections / perfect matchings, each once.
-/
namespace QcelVerif.Uno

/-- `l` gives the `k` columns `j … j+k-1` pairwise different rows out of `avail`, along edges of `E` -/
def IsSel (E : Nat → Nat → Bool) (k j : Nat) (avail l : List Nat) : Prop :=
  l.length = k ∧ l.Nodup ∧ (∀ x ∈ l, x ∈ avail) ∧ ∀ t (h : t < l.length), E l[t] (j + t) = true

/-- `sub` is a perfect matching of the bipartite graph `E` on `k` rows × `k` columns
    (`sub[j]` = row matched to column `j`) -/
def IsPM (k : Nat) (E : Nat → Nat → Bool) (sub : List Nat) : Prop :=
  sub.length = k ∧ sub.Nodup ∧ (∀ x ∈ sub, x < k) ∧ ∀ j (h : j < sub.length), E sub[j] j = true

theorem mem_enumFrom (E : Nat → Nat → Bool) (k j : Nat) (avail l : List Nat) (hav : avail.Nodup) :
    l ∈ enumFrom E k j avail ↔ IsSel E k j avail l := by
  induction k generalizing j avail l with
  | zero =>
    simp only [enumFrom, IsSel, List.mem_singleton]
    constructor
    · rintro rfl; simp
    · rintro ⟨h, -⟩; exact List.length_eq_zero_iff.mp h
  | succ k ih =>
    simp only [enumFrom, List.mem_flatMap, List.mem_filter, List.mem_map]
    constructor
    · rintro ⟨i, ⟨hi, hE⟩, r, hr, rfl⟩
      obtain ⟨h1, h2, h3, h4⟩ := (ih (j + 1) (avail.erase i) r (hav.erase i)).mp hr
      refine ⟨by simp [h1], ?_, ?_, ?_⟩
      · rw [List.nodup_cons]
        refine ⟨fun hin => ?_, h2⟩
        have := h3 i hin
        rw [hav.mem_erase_iff] at this
        exact this.1 rfl
      · intro x hx
        rcases List.mem_cons.mp hx with rfl | hx
        · exact hi
        · exact List.mem_of_mem_erase (h3 x hx)
      · intro t ht
        cases t with
        | zero => simpa using hE
        | succ t =>
          have := h4 t (by simpa using ht)
          simp only [List.getElem_cons_succ]
          rw [show j + (t + 1) = j + 1 + t by omega]
          exact this
    · rintro ⟨h1, h2, h3, h4⟩
      cases l with
      | nil => simp at h1
      | cons i r =>
        rw [List.nodup_cons] at h2
        refine ⟨i, ⟨h3 i (by simp), by have h0 := h4 0 (by simp); simpa using h0⟩, r, ?_, rfl⟩
        rw [ih (j + 1) (avail.erase i) r (hav.erase i)]
        refine ⟨by simpa using h1, h2.2, ?_, ?_⟩
        · intro x hx
          rw [hav.mem_erase_iff]
          exact ⟨fun h => h2.1 (h ▸ hx), h3 x (by simp [hx])⟩
        · intro t ht
          have := h4 (t + 1) (by simpa using ht)
          simp only [List.getElem_cons_succ] at this
          rw [show j + 1 + t = j + (t + 1) by omega]
          exact this

theorem nodup_enumFrom (E : Nat → Nat → Bool) (k j : Nat) (avail : List Nat) (hav : avail.Nodup) :
    (enumFrom E k j avail).Nodup := by
  induction k generalizing j avail with
  | zero => simp [enumFrom]
  | succ k ih =>
    simp only [enumFrom]
    rw [List.nodup_flatMap]
    refine ⟨fun i _ => ?_, ?_⟩
    · exact (ih (j + 1) (avail.erase i) (hav.erase i)).map (fun a b h => (List.cons.inj h).2)
    · refine (hav.filter _).imp ?_
      intro a b hab
      simp only [Function.onFun]
      rw [List.disjoint_left]
      intro l hl hl'
      obtain ⟨r, -, rfl⟩ := List.mem_map.mp hl
      obtain ⟨r', -, h⟩ := List.mem_map.mp hl'
      exact hab (List.cons.inj h).1.symm

theorem mem_matchings (k : Nat) (E : Nat → Nat → Bool) (sub : List Nat) :
    sub ∈ matchings k E ↔ IsPM k E sub := by
  unfold matchings
  rw [mem_enumFrom E k 0 (List.range k) sub List.nodup_range]
  simp only [IsSel, IsPM, List.mem_range, Nat.zero_add]

theorem nodup_matchings (k : Nat) (E : Nat → Nat → Bool) : (matchings k E).Nodup :=
  nodup_enumFrom E k 0 (List.range k) List.nodup_range

end QcelVerif.Uno
