import QcelVerif.Lemmas.Dec
import Mathlib.Algebra.Order.Field.Basic
import Mathlib.Algebra.Order.Ring.Rat
import Mathlib.Algebra.Order.Ring.Abs
import Mathlib.Algebra.Field.Rat
import Mathlib.Data.Nat.Log
import Mathlib.Tactic.Linarith
import Mathlib.Tactic.Positivity
import Mathlib.Tactic.Ring
import Mathlib.Tactic.NormNum
import Mathlib.Tactic.FieldSimp
import Mathlib.Algebra.Order.Ring.Pow
/-!
# General error bounds of the `decimal` model (`Model/Dec.lean`), for ALL operands

Everything here is a helper for `Props/C02Dec.lean`.  No table, no size bound:

 * `ndigits_eq`          : `ndigits n = 1 + ⌊log₁₀ n⌋` for every `n`
 * `val_eq`              : `val d = ± coeff · 10^exp` (as a `zpow` in ℚ)
 * `fix_rel_err`         : `|val (fix d) − val d| ≤ 5·10⁻²⁸ · |val d|`  (every `d`)
 * `fix_exact`           : `fix` does not change a value that has ≤ 28 significant digits
 * `sticky_round`        : the sticky digit CPython's `__truediv__` plants into an inexact quotient makes
                           the later `_fix` round the *true* quotient correctly (half a unit)
 * `div_pre`             : what `Dec.div` computes before `_fix`
 * `Approx`              : relative-perturbation bookkeeping `x̂ = x·ρ`, `(1-u)^n ≤ ρ ≤ (1-u)^-n`
-/
namespace QcelVerif.Dec

/-- unit round-off of the default context: half a unit in the 28th significant digit, `5·10⁻²⁸` -/
def u28 : ℚ := 5 / 10 ^ 28

theorem u28_pos : 0 < u28 := by unfold u28; positivity
theorem u28_lt_one : u28 < 1 := by unfold u28; norm_num

/-! ### digit count -/

theorem ndigitsAux_eq : ∀ (f n acc : Nat), n < 10 ^ (f + 1) → ndigitsAux f n acc = acc + Nat.log 10 n
  | 0, n, acc, h => by
      have h10 : n < 10 := by simpa using h
      simp [ndigitsAux, Nat.log_of_lt h10]
  | f + 1, n, acc, h => by
      unfold ndigitsAux
      by_cases h10 : n < 10
      · simp [h10, Nat.log_of_lt h10]
      · rw [if_neg h10]
        have hn : n / 10 < 10 ^ (f + 1) := by
          rw [Nat.div_lt_iff_lt_mul (by norm_num)]
          calc n < 10 ^ (f + 1 + 1) := h
            _ = 10 ^ (f + 1) * 10 := by ring
        rw [ndigitsAux_eq f (n / 10) (acc + 1) hn, Nat.log_div_base]
        have : 0 < Nat.log 10 n := Nat.log_pos (by norm_num) (by omega)
        omega

/-- the digit count of the model is `1 + ⌊log₁₀ n⌋` for EVERY natural number (no fuel limit) -/
theorem ndigits_eq (n : Nat) : ndigits n = 1 + Nat.log 10 n := by
  unfold ndigits
  apply ndigitsAux_eq
  calc n < 10 ^ n := Nat.lt_pow_self (by norm_num)
    _ ≤ 10 ^ (n + 1) := Nat.pow_le_pow_right (by norm_num) (Nat.le_succ n)

theorem ndigits_pos (n : Nat) : 1 ≤ ndigits n := by rw [ndigits_eq]; omega

/-- `10^(ndigits n - 1) ≤ n < 10^(ndigits n)` for `n > 0` -/
theorem ndigits_bounds {n : Nat} (h : n ≠ 0) : 10 ^ (ndigits n - 1) ≤ n ∧ n < 10 ^ ndigits n := by
  rw [ndigits_eq]
  constructor
  · have : 1 + Nat.log 10 n - 1 = Nat.log 10 n := by omega
    rw [this]; exact Nat.pow_log_le_self 10 h
  · have : 1 + Nat.log 10 n = (Nat.log 10 n).succ := by omega
    rw [this]; exact Nat.lt_pow_succ_log_self (by norm_num) n

/-- `n` has at most `k` digits iff `n < 10^k` (`k ≥ 1`) -/
theorem ndigits_le_iff (n : Nat) {k : Nat} (hk : 1 ≤ k) : ndigits n ≤ k ↔ n < 10 ^ k := by
  by_cases h : n = 0
  · subst h
    have : ndigits 0 = 1 := by rw [ndigits_eq]; simp
    rw [this]; constructor
    · intro _; positivity
    · intro _; exact hk
  · rw [ndigits_eq, ← Nat.log_lt_iff_lt_pow (by norm_num) h]; omega

/-! ### value -/

/-- sign factor -/
def sgn (neg : Bool) : ℚ := if neg then -1 else 1

theorem sgn_abs (neg : Bool) : |sgn neg| = 1 := by cases neg <;> simp [sgn]
theorem sgn_mul_self (neg : Bool) : sgn neg * sgn neg = 1 := by cases neg <;> simp [sgn]
theorem sgn_xor (a b : Bool) : sgn (a != b) = sgn a * sgn b := by cases a <;> cases b <;> simp [sgn]
theorem sgn_not (a : Bool) : sgn (!a) = - sgn a := by cases a <;> simp [sgn]

theorem ten_zpow_pos (e : Int) : (0 : ℚ) < (10 : ℚ) ^ e := zpow_pos (by norm_num) e

/-- the value of a decimal: `± coeff · 10^exp` -/
theorem val_eq (d : Dec) : val d = sgn d.neg * (d.coeff : ℚ) * (10 : ℚ) ^ d.exp := by
  unfold val sgn
  by_cases he : d.exp ≥ 0
  · have h : d.exp = ((d.exp.toNat : Nat) : Int) := (Int.toNat_of_nonneg he).symm
    simp only [he, if_true]
    conv_rhs => rw [h, zpow_natCast]
    cases d.neg <;> simp
  · have h : d.exp = -(((-d.exp).toNat : Nat) : Int) := by
      have : 0 ≤ -d.exp := by omega
      rw [Int.toNat_of_nonneg this]; ring
    simp only [he, if_false]
    conv_rhs => rw [h, zpow_neg, zpow_natCast]
    cases d.neg <;> simp [div_eq_mul_inv]

theorem val_mk (n : Bool) (c : Nat) (e : Int) : val ⟨n, c, e⟩ = sgn n * (c : ℚ) * (10 : ℚ) ^ e := val_eq _

theorem abs_val (d : Dec) : |val d| = (d.coeff : ℚ) * (10 : ℚ) ^ d.exp := by
  rw [val_eq, abs_mul, abs_mul, sgn_abs, one_mul, abs_of_nonneg (Nat.cast_nonneg _),
    abs_of_pos (ten_zpow_pos _)]

theorem val_eq_zero_iff (d : Dec) : val d = 0 ↔ d.coeff = 0 := by
  rw [← abs_eq_zero, abs_val]
  constructor
  · intro h
    rcases mul_eq_zero.mp h with h | h
    · exact_mod_cast h
    · exact absurd h (ten_zpow_pos _).ne'
  · intro h; simp [h]

/-! ### `fix` -/

/-- What `_fix` does to a coefficient of more than 28 digits: with `k = ndigits c − 28 ≥ 1` dropped
digits the result is sign-preserving, has a coefficient of exactly 28 digits, and denotes
`roundHalfEven c k · 10^k` at the old exponent (a carry to `10^28` is renormalised without changing
the value). -/
theorem fix_spec (d : Dec) (hn : prec < ndigits d.coeff) :
    ∃ k c' : Nat, 1 ≤ k ∧ fix d = ⟨d.neg, c', d.exp + k + (if ndigits (roundHalfEven d.coeff k) > prec then 1 else 0)⟩ ∧
      c' * 10 ^ (k + (if ndigits (roundHalfEven d.coeff k) > prec then 1 else 0)) = roundHalfEven d.coeff k * 10 ^ k ∧
      10 ^ (27 + k) ≤ d.coeff ∧ 10 ^ 27 ≤ c' ∧ c' < 10 ^ 28 := by
  have hprec : prec = 28 := rfl
  have h0 : d.coeff ≠ 0 := by
    intro h; rw [h] at hn
    have : ndigits 0 = 1 := by rw [ndigits_eq]; simp
    omega
  obtain ⟨hlo, hhi⟩ := ndigits_bounds h0
  set n := ndigits d.coeff with hnd
  set k := n - prec with hk
  have hk1 : 1 ≤ k := by omega
  have hn1 : n - 1 = 27 + k := by omega
  have hn2 : n = 28 + k := by omega
  rw [hn1] at hlo
  rw [hn2] at hhi
  have hp : 0 < 10 ^ k := by positivity
  -- the truncated coefficient has exactly 28 digits
  have hq_lo : 10 ^ 27 ≤ d.coeff / 10 ^ k := by
    rw [Nat.le_div_iff_mul_le hp, ← pow_add]; exact hlo
  have hq_hi : d.coeff / 10 ^ k < 10 ^ 28 := by
    rw [Nat.div_lt_iff_lt_mul hp, ← pow_add]; exact hhi
  have hfix : fix d = if ndigits (roundHalfEven d.coeff k) > prec
      then ⟨d.neg, roundHalfEven d.coeff k / 10, d.exp + k + 1⟩ else ⟨d.neg, roundHalfEven d.coeff k, d.exp + k⟩ := by
    unfold fix
    have hb : (d.coeff == 0) = false := by simpa using h0
    simp only [hb, Bool.false_eq_true, if_false, ← hnd, not_le.mpr hn, ← hk]
  rcases roundHalfEven_floor_or_succ d.coeff k with hR | hR
  · -- no carry possible
    have hfits : ¬ ndigits (roundHalfEven d.coeff k) > prec := by
      rw [not_lt, hprec, ndigits_le_iff _ (by norm_num), hR]; exact hq_hi
    refine ⟨k, roundHalfEven d.coeff k, hk1, ?_, ?_, hlo, by rw [hR]; exact hq_lo, by rw [hR]; exact hq_hi⟩
    · rw [hfix, if_neg hfits, if_neg hfits]; simp
    · rw [if_neg hfits]; simp
  · by_cases hc : ndigits (roundHalfEven d.coeff k) > prec
    · -- carry: the rounded coefficient is exactly 10^28
      have hge : 10 ^ 28 ≤ roundHalfEven d.coeff k := by
        by_contra hlt
        have := (ndigits_le_iff (roundHalfEven d.coeff k) (k := 28) (by norm_num)).mpr (not_le.mp hlt)
        omega
      have heq : roundHalfEven d.coeff k = 10 ^ 28 := by omega
      refine ⟨k, 10 ^ 27, hk1, ?_, ?_, hlo, le_refl _, by norm_num⟩
      · rw [hfix, if_pos hc, if_pos hc, heq]; norm_num
      · rw [if_pos hc, heq, pow_add]; ring
    · have hlt : roundHalfEven d.coeff k < 10 ^ 28 := by
        have := (ndigits_le_iff (roundHalfEven d.coeff k) (k := 28) (by norm_num)).mp (by omega)
        exact this
      refine ⟨k, roundHalfEven d.coeff k, hk1, ?_, ?_, hlo, by omega, hlt⟩
      · rw [hfix, if_neg hc, if_neg hc]; simp
      · rw [if_neg hc]; simp

theorem ten_zpow_add_nat (e : Int) (j : Nat) : (10 : ℚ) ^ (e + (j : Int)) = (10 : ℚ) ^ e * (10 : ℚ) ^ j := by
  rw [zpow_add₀ (by norm_num : (10 : ℚ) ≠ 0), zpow_natCast]

/-- value form of `fix_spec` -/
theorem val_fix (d : Dec) (hn : prec < ndigits d.coeff) :
    ∃ k : Nat, 1 ≤ k ∧ 10 ^ (27 + k) ≤ d.coeff ∧
      val (fix d) = sgn d.neg * ((roundHalfEven d.coeff k * 10 ^ k : Nat) : ℚ) * (10 : ℚ) ^ d.exp := by
  obtain ⟨k, c', hk1, hfix, hc', hlo, -, -⟩ := fix_spec d hn
  refine ⟨k, hk1, hlo, ?_⟩
  rw [hfix, val_mk, ← hc']
  by_cases hc : ndigits (roundHalfEven d.coeff k) > prec
  · simp only [hc, if_true]
    have : d.exp + (k : Int) + 1 = d.exp + ((k + 1 : Nat) : Int) := by push_cast; ring
    rw [this, ten_zpow_add_nat]; push_cast; ring
  · simp only [hc, if_false]
    rw [add_zero, add_zero, ten_zpow_add_nat]; push_cast; ring

theorem fix_neg (d : Dec) : (fix d).neg = d.neg := by
  by_cases hn : prec < ndigits d.coeff
  · obtain ⟨k, c', -, hfix, -⟩ := fix_spec d hn
    rw [hfix]
  · rw [fix_of_fits d (not_lt.mp hn)]

/-- every result of `_fix` fits the precision -/
theorem fix_fits (d : Dec) : (fix d).coeff < 10 ^ 28 := by
  by_cases hn : prec < ndigits d.coeff
  · obtain ⟨k, c', -, hfix, -, -, -, hlt⟩ := fix_spec d hn
    rw [hfix]; exact hlt
  · rw [fix_of_fits d (not_lt.mp hn)]
    exact (ndigits_le_iff _ (by norm_num)).mp (not_lt.mp hn)

/-- **`_fix` is correctly rounded to 28 significant digits**: relative error at most `5·10⁻²⁸`, for
every finite decimal (zero and short coefficients are returned unchanged). -/
theorem fix_rel_err (d : Dec) : |val (fix d) - val d| ≤ u28 * |val d| := by
  by_cases hn : prec < ndigits d.coeff
  · obtain ⟨k, hk1, hlo, hv⟩ := val_fix d hn
    obtain ⟨h1, h2⟩ := roundHalfEven_err d.coeff k
    have h1q : (2 : ℚ) * (((roundHalfEven d.coeff k * 10 ^ k : Nat) : ℚ)) ≤ 2 * (d.coeff : ℚ) + (10 : ℚ) ^ k := by
      exact_mod_cast h1
    have h2q : (2 : ℚ) * (d.coeff : ℚ) ≤ 2 * (((roundHalfEven d.coeff k * 10 ^ k : Nat) : ℚ)) + (10 : ℚ) ^ k := by
      exact_mod_cast h2
    have hloq : (10 : ℚ) ^ 27 * (10 : ℚ) ^ k ≤ (d.coeff : ℚ) := by
      rw [← pow_add]; exact_mod_cast hlo
    set R : ℚ := ((roundHalfEven d.coeff k * 10 ^ k : Nat) : ℚ) with hR
    have hE := ten_zpow_pos d.exp
    rw [hv, abs_val, val_eq]
    have : sgn d.neg * R * (10 : ℚ) ^ d.exp - sgn d.neg * (d.coeff : ℚ) * (10 : ℚ) ^ d.exp
        = sgn d.neg * ((R - (d.coeff : ℚ)) * (10 : ℚ) ^ d.exp) := by ring
    rw [this, abs_mul, sgn_abs, one_mul, abs_mul, abs_of_pos hE, ← mul_assoc]
    apply mul_le_mul_of_nonneg_right _ hE.le
    have hpk : (0 : ℚ) < (10 : ℚ) ^ k := by positivity
    rw [abs_le]; unfold u28
    constructor <;> nlinarith
  · rw [fix_of_fits d (not_lt.mp hn), sub_self, abs_zero]
    exact mul_nonneg u28_pos.le (abs_nonneg _)

/-! ### exactness -/

/-- `q` can be written with at most 28 significant decimal digits: `|q| = m · 10^j`, `m < 10^28` -/
def Rep28 (q : ℚ) : Prop := ∃ (m : Nat) (j : Int), m < 10 ^ 28 ∧ |q| = (m : ℚ) * (10 : ℚ) ^ j

theorem roundHalfEven_of_dvd (c k : Nat) (h : 10 ^ k ∣ c) : roundHalfEven c k * 10 ^ k = c := by
  have hp : 0 < 10 ^ k := by positivity
  have hr : c % 10 ^ k = 0 := Nat.mod_eq_zero_of_dvd h
  unfold roundHalfEven
  simp only [hr]
  have h1 : ¬ (2 * 0 > 10 ^ k) := by omega
  have h2 : (2 * 0 == 10 ^ k) = false := by
    rw [beq_eq_false_iff_ne]; omega
  simp only [h1, h2, if_false, Bool.false_eq_true]
  exact Nat.div_mul_cancel h

/-- **`_fix` is exact on every value that has at most 28 significant digits** (trailing zeros of a long
coefficient are dropped without error). -/
theorem fix_exact (d : Dec) (h : Rep28 (val d)) : val (fix d) = val d := by
  by_cases hn : prec < ndigits d.coeff
  · obtain ⟨k, hk1, hlo, hv⟩ := val_fix d hn
    obtain ⟨m, j, hm, hmj⟩ := h
    rw [abs_val] at hmj
    have hE := ten_zpow_pos d.exp
    have ten_ne : (10 : ℚ) ≠ 0 := by norm_num
    -- c = m · 10^(j - e)
    have hc : (d.coeff : ℚ) = (m : ℚ) * (10 : ℚ) ^ (j - d.exp) := by
      rw [zpow_sub₀ ten_ne, ← mul_div_assoc, ← hmj, mul_div_assoc, div_self hE.ne', mul_one]
    have hloq : (10 : ℚ) ^ ((27 + k : Nat) : Int) ≤ (d.coeff : ℚ) := by
      rw [zpow_natCast]; exact_mod_cast hlo
    have hmq : (m : ℚ) < (10 : ℚ) ^ ((28 : Nat) : Int) := by
      rw [zpow_natCast]; exact_mod_cast hm
    have hpos : (0 : ℚ) < (10 : ℚ) ^ (j - d.exp) := ten_zpow_pos _
    have hlt : (10 : ℚ) ^ ((27 + k : Nat) : Int) < (10 : ℚ) ^ (((28 : Nat) : Int) + (j - d.exp)) := by
      rw [zpow_add₀ ten_ne]
      calc (10 : ℚ) ^ ((27 + k : Nat) : Int) ≤ (m : ℚ) * (10 : ℚ) ^ (j - d.exp) := by rw [← hc]; exact hloq
        _ < (10 : ℚ) ^ ((28 : Nat) : Int) * (10 : ℚ) ^ (j - d.exp) := mul_lt_mul_of_pos_right hmq hpos
    have hexp := (zpow_lt_zpow_iff_right₀ (by norm_num : (1 : ℚ) < 10)).mp hlt
    have hk : (k : Int) ≤ j - d.exp := by push_cast at hexp; omega
    obtain ⟨t, ht⟩ : ∃ t : Nat, j - d.exp = ((k + t : Nat) : Int) :=
      ⟨(j - d.exp - k).toNat, by push_cast; rw [Int.toNat_of_nonneg (by omega)]; ring⟩
    have hcn : d.coeff = m * 10 ^ t * 10 ^ k := by
      have : (d.coeff : ℚ) = ((m * 10 ^ t * 10 ^ k : Nat) : ℚ) := by
        rw [hc, ht, zpow_natCast]; push_cast; ring
      exact_mod_cast this
    have hdvd : 10 ^ k ∣ d.coeff := ⟨m * 10 ^ t, by rw [hcn]; ring⟩
    rw [hv, roundHalfEven_of_dvd _ _ hdvd, val_eq]
  · rw [fix_of_fits d (not_lt.mp hn)]

/-- a coefficient below `10^28` is a 28-digit representation -/
theorem rep28_of_coeff_lt (d : Dec) (h : d.coeff < 10 ^ 28) : Rep28 (val d) :=
  ⟨d.coeff, d.exp, h, abs_val d⟩

/-- every result of `_fix` has at most 28 significant digits -/
theorem rep28_fix (d : Dec) : Rep28 (val (fix d)) := rep28_of_coeff_lt _ (fix_fits d)

/-! ### `mul` -/

/-- the exact product, before `_fix` -/
theorem val_mul_pre (a b : Dec) :
    val ⟨a.neg != b.neg, a.coeff * b.coeff, a.exp + b.exp⟩ = val a * val b := by
  rw [val_mk, val_eq a, val_eq b, sgn_xor, zpow_add₀ (by norm_num : (10 : ℚ) ≠ 0)]
  push_cast; ring

/-! ### `add` / `sub` -/

theorem int_toNat_sub_cast {x e : Int} (h : e ≤ x) : (((x - e).toNat : Nat) : Int) = x - e :=
  Int.toNat_of_nonneg (by omega)

/-- rescaling a coefficient to a smaller exponent does not change the value -/
theorem val_rescale (n : Bool) (c : Nat) (x e : Int) (h : e ≤ x) :
    val ⟨n, c * 10 ^ (x - e).toNat, e⟩ = val ⟨n, c, x⟩ := by
  rw [val_mk, val_mk]
  have : (10 : ℚ) ^ x = (10 : ℚ) ^ (((x - e).toNat : Nat) : Int) * (10 : ℚ) ^ e := by
    rw [← zpow_add₀ (by norm_num : (10 : ℚ) ≠ 0), int_toNat_sub_cast h]; congr 1; ring
  rw [this, zpow_natCast]; push_cast; ring

/-- `padTo x e = fix x'` with `val x' = val x` whenever `e ≤ x.exp` -/
theorem padTo_pre (x : Dec) (e : Int) (h : e ≤ x.exp) : ∃ d, padTo x e = fix d ∧ val d = val x := by
  refine ⟨_, rfl, ?_⟩
  have : max e (x.exp - (prec : Int) - 1) ≤ x.exp := by
    have : (0 : Int) ≤ (prec : Int) := Int.natCast_nonneg _
    omega
  exact val_rescale x.neg x.coeff x.exp _ this

/-- **what `__add__` computes before `_fix`: the exact sum** -/
theorem add_pre (a b : Dec) : ∃ d, add a b = fix d ∧ val d = val a + val b := by
  unfold add
  simp only []
  by_cases ha : a.coeff = 0
  · by_cases hb : b.coeff = 0
    · refine ⟨⟨a.neg && b.neg, 0, min a.exp b.exp⟩, by simp [ha, hb], ?_⟩
      rw [(val_eq_zero_iff a).mpr ha, (val_eq_zero_iff b).mpr hb, val_mk]; simp
    · obtain ⟨d, hd, hv⟩ := padTo_pre b (min a.exp b.exp) (min_le_right _ _)
      refine ⟨d, ?_, by rw [hv, (val_eq_zero_iff a).mpr ha, zero_add]⟩
      have hb' : (b.coeff == 0) = false := by simpa using hb
      simp [ha, hb', hd]
  · have ha' : (a.coeff == 0) = false := by simpa using ha
    by_cases hb : b.coeff = 0
    · obtain ⟨d, hd, hv⟩ := padTo_pre a (min a.exp b.exp) (min_le_left _ _)
      refine ⟨d, ?_, by rw [hv, (val_eq_zero_iff b).mpr hb, add_zero]⟩
      simp [ha', hb, hd]
    · have hb' : (b.coeff == 0) = false := by simpa using hb
      simp only [ha', hb', Bool.false_and, Bool.false_eq_true, if_false]
      set e := min a.exp b.exp with he
      set ca : Int := ((a.coeff * 10 ^ (a.exp - e).toNat : Nat) : Int) with hca
      set cb : Int := ((b.coeff * 10 ^ (b.exp - e).toNat : Nat) : Int) with hcb
      set s : Int := (if a.neg then -ca else ca) + (if b.neg then -cb else cb) with hs
      -- value of the exact integer sum at exponent e
      have hva : val a = (((if a.neg then -ca else ca : Int)) : ℚ) * (10 : ℚ) ^ e := by
        have := val_rescale a.neg a.coeff a.exp e (min_le_left _ _)
        rw [val_mk] at this
        have h2 : val a = val ⟨a.neg, a.coeff, a.exp⟩ := rfl
        rw [h2, ← this, hca]
        cases a.neg <;> simp [sgn]
      have hvb : val b = (((if b.neg then -cb else cb : Int)) : ℚ) * (10 : ℚ) ^ e := by
        have := val_rescale b.neg b.coeff b.exp e (min_le_right _ _)
        rw [val_mk] at this
        have h2 : val b = val ⟨b.neg, b.coeff, b.exp⟩ := rfl
        rw [h2, ← this, hcb]
        cases b.neg <;> simp [sgn]
      have hsum : val a + val b = (s : ℚ) * (10 : ℚ) ^ e := by
        rw [hva, hvb, hs]; push_cast; ring
      by_cases hs0 : s = 0
      · refine ⟨⟨false, 0, e⟩, by simp [hs0], ?_⟩
        rw [hsum, hs0, val_mk]; simp
      · have hs0' : (s == 0) = false := by simpa using hs0
        refine ⟨⟨decide (s < 0), s.natAbs, e⟩, by simp [hs0'], ?_⟩
        rw [hsum, val_mk]
        congr 1
        by_cases hneg : s < 0
        · have hq : ((s.natAbs : Nat) : ℚ) = -(s : ℚ) := by
            rw [Nat.cast_natAbs, abs_of_neg hneg, Int.cast_neg]
          simp [hneg, sgn, hq]
        · have hq : ((s.natAbs : Nat) : ℚ) = (s : ℚ) := by
            rw [Nat.cast_natAbs, abs_of_nonneg (not_lt.mp hneg)]
          simp [hneg, sgn, hq]

theorem val_negate (b : Dec) : val ⟨!b.neg, b.coeff, b.exp⟩ = - val b := by
  rw [val_mk, val_eq b, sgn_not]; ring

/-- **what `__sub__` computes before `_fix`: the exact difference** -/
theorem sub_pre (a b : Dec) : ∃ d, sub a b = fix d ∧ val d = val a - val b := by
  obtain ⟨d, hd, hv⟩ := add_pre a ⟨!b.neg, b.coeff, b.exp⟩
  exact ⟨d, hd, by rw [hv, val_negate]; ring⟩

/-! ### `div` -/

/-- the coefficient `__truediv__` hands to `_fix` when the quotient is inexact: the truncated quotient
with a sticky unit added when its last digit is 0 or 5 -/
def sticky (q : Nat) : Nat := if q % 5 == 0 then q + 1 else q

theorem sticky_mod5 (q : Nat) : sticky q % 5 ≠ 0 := by
  unfold sticky
  by_cases h : q % 5 = 0
  · simp [h]; omega
  · simp [h]

theorem sticky_cases (q : Nat) : (sticky q = q ∧ q % 5 ≠ 0) ∨ (sticky q = q + 1 ∧ q % 5 = 0) := by
  unfold sticky
  by_cases h : q % 5 = 0
  · right; simp [h]
  · left; simp [h]

/-- **the sticky digit makes the later half-even rounding correct for the TRUE quotient**: if the true
quotient lies strictly between `q` and `q + 1`, rounding `sticky q` to `k ≥ 1` fewer digits lands
within `10^k / 2 − 1` of `q` from above and `10^k / 2` from below (so within half a unit of every
real number in `(q, q+1)`). -/
theorem sticky_delta (q k : Nat) (hk : 1 ≤ k) :
    2 * (roundHalfEven (sticky q) k * 10 ^ k) ≤ 2 * q + 10 ^ k ∧
    2 * q + 2 ≤ 2 * (roundHalfEven (sticky q) k * 10 ^ k) + 10 ^ k := by
  obtain ⟨j, rfl⟩ : ∃ j, k = j + 1 := ⟨k - 1, by omega⟩
  have hm5 := sticky_mod5 q
  have hp : (10 : Nat) ^ (j + 1) = 10 * 10 ^ j := by rw [pow_succ]; ring
  have hp' : 0 < 10 ^ j := by positivity
  unfold roundHalfEven
  simp only []
  rw [hp]
  generalize 10 ^ j = p' at *
  have hdm := Nat.div_add_mod (sticky q) (10 * p')
  have hr := Nat.mod_lt (sticky q) (show 0 < 10 * p' by omega)
  generalize hQ : sticky q / (10 * p') = Q at *
  generalize hR : sticky q % (10 * p') = r at *
  have hM : 10 * p' * Q = 10 * (p' * Q) := by ring
  have hM1 : (Q + 1) * (10 * p') = 10 * (p' * Q) + 10 * p' := by ring
  have hM0 : Q * (10 * p') = 10 * (p' * Q) := by ring
  rw [hM] at hdm
  generalize p' * Q = M at *
  rcases sticky_cases q with ⟨hs, h5⟩ | ⟨hs, h5⟩
  · rw [hs] at hdm hm5
    split
    · rw [hM1]; omega
    · split
      · rename_i h1 h2
        have h2' : 2 * r = 10 * p' := by simpa using h2
        omega
      · rename_i h1 h2
        have h2' : ¬ 2 * r = 10 * p' := by simpa using h2
        rw [hM0]; omega
  · rw [hs] at hdm hm5
    split
    · rw [hM1]; omega
    · split
      · rename_i h1 h2
        have h2' : 2 * r = 10 * p' := by simpa using h2
        omega
      · rename_i h1 h2
        have h2' : ¬ 2 * r = 10 * p' := by simpa using h2
        rw [hM0]; omega

/-- the sticky coefficient reaches a power of ten only if the truncated quotient already did -/
theorem le_of_le_sticky (q m : Nat) (h : 10 ^ (m + 1) ≤ sticky q) : 10 ^ (m + 1) ≤ q := by
  have hp : (10 : Nat) ^ (m + 1) = 10 * 10 ^ m := by rw [pow_succ]; ring
  rw [hp] at h ⊢
  generalize 10 ^ m = t at *
  rcases sticky_cases q with ⟨hs, h5⟩ | ⟨hs, h5⟩ <;> omega

theorem stripZerosAux_val : ∀ (f c : Nat) (e ideal : Int),
    ((stripZerosAux f c e ideal).1 : ℚ) * (10 : ℚ) ^ (stripZerosAux f c e ideal).2 = (c : ℚ) * (10 : ℚ) ^ e
  | 0, c, e, ideal => by simp [stripZerosAux]
  | f + 1, c, e, ideal => by
      unfold stripZerosAux
      by_cases h : (e < ideal && c % 10 == 0) = true
      · rw [if_pos h, stripZerosAux_val f (c / 10) (e + 1) ideal]
        have hc : c % 10 = 0 := by
          have := (Bool.and_eq_true _ _).mp h
          simpa using this.2
        have hdiv : c = c / 10 * 10 := by omega
        have : (c : ℚ) = ((c / 10 : Nat) : ℚ) * 10 := by exact_mod_cast hdiv
        rw [zpow_add₀ (by norm_num : (10 : ℚ) ≠ 0), zpow_one]
        conv_rhs => rw [this]
        ring
      · rw [if_neg h]

/-- inexact quotient: `_fix` of the sticky coefficient is the correctly rounded true quotient `n/d` -/
theorem div_inexact (sign : Bool) (n d : Nat) (exp : Int) (hd : 0 < d) (hnd : 10 ^ 28 * d ≤ n)
    (hrem : n % d ≠ 0) :
    |val (fix ⟨sign, sticky (n / d), exp⟩) - sgn sign * ((n : ℚ) / (d : ℚ)) * (10 : ℚ) ^ exp|
      ≤ u28 * (((n : ℚ) / (d : ℚ)) * (10 : ℚ) ^ exp) := by
  have hdq : (0 : ℚ) < (d : ℚ) := by exact_mod_cast hd
  have hq28 : 10 ^ 28 ≤ n / d := by rw [Nat.le_div_iff_mul_le hd]; exact hnd
  have hsq : n / d ≤ sticky (n / d) := by rcases sticky_cases (n / d) with ⟨h, -⟩ | ⟨h, -⟩ <;> omega
  have hn : prec < ndigits (sticky (n / d)) := by
    by_contra hcon
    have := (ndigits_le_iff (sticky (n / d)) (k := 28) (by norm_num)).mp (not_lt.mp hcon)
    omega
  obtain ⟨k, hk1, hlo, hv⟩ := val_fix ⟨sign, sticky (n / d), exp⟩ hn
  simp only at hlo hv
  obtain ⟨h1, h2⟩ := sticky_delta (n / d) k hk1
  have hlo' : 10 ^ (27 + k) ≤ n / d := by
    have : 27 + k = (26 + k) + 1 := by ring
    rw [this] at hlo ⊢; exact le_of_le_sticky _ _ hlo
  -- the true quotient x lies strictly between q and q+1
  have hdm := Nat.div_add_mod n d
  have hrlt := Nat.mod_lt n hd
  set q := n / d with hq
  set r := n % d with hr
  set x : ℚ := (n : ℚ) / (d : ℚ) with hx
  have hnq : (n : ℚ) = (d : ℚ) * (q : ℚ) + (r : ℚ) := by exact_mod_cast hdm.symm
  have hr0 : (0 : ℚ) < (r : ℚ) := by exact_mod_cast Nat.pos_of_ne_zero hrem
  have hr1 : (r : ℚ) < (d : ℚ) := by exact_mod_cast hrlt
  have hxq : (q : ℚ) < x := by rw [hx, lt_div_iff₀ hdq]; nlinarith
  have hxq1 : x < (q : ℚ) + 1 := by rw [hx, div_lt_iff₀ hdq]; nlinarith
  set R : ℚ := ((roundHalfEven (sticky q) k * 10 ^ k : Nat) : ℚ) with hR
  have h1q : 2 * R ≤ 2 * (q : ℚ) + (10 : ℚ) ^ k := by rw [hR]; exact_mod_cast h1
  have h2q : 2 * (q : ℚ) + 2 ≤ 2 * R + (10 : ℚ) ^ k := by rw [hR]; exact_mod_cast h2
  have hloq : (10 : ℚ) ^ 27 * (10 : ℚ) ^ k ≤ (q : ℚ) := by rw [← pow_add]; exact_mod_cast hlo'
  have hE := ten_zpow_pos exp
  rw [hv]
  have : sgn sign * R * (10 : ℚ) ^ exp - sgn sign * x * (10 : ℚ) ^ exp = sgn sign * ((R - x) * (10 : ℚ) ^ exp) := by ring
  rw [this, abs_mul, sgn_abs, one_mul, abs_mul, abs_of_pos hE, ← mul_assoc]
  apply mul_le_mul_of_nonneg_right _ hE.le
  have hpk : (0 : ℚ) < (10 : ℚ) ^ k := by positivity
  rw [abs_le]; unfold u28
  constructor <;> nlinarith

/-- exact quotient: the value handed to `_fix` is the quotient itself -/
theorem div_exact_pre (sign : Bool) (n d : Nat) (exp ideal : Int) (hd : 0 < d) (hrem : n % d = 0) :
    val ⟨sign, (stripZerosAux 2000 (n / d) exp ideal).1, (stripZerosAux 2000 (n / d) exp ideal).2⟩
      = sgn sign * ((n : ℚ) / (d : ℚ)) * (10 : ℚ) ^ exp := by
  have hdq : (0 : ℚ) < (d : ℚ) := by exact_mod_cast hd
  rw [val_mk, mul_assoc, stripZerosAux_val, ← mul_assoc]
  have hdm := Nat.div_add_mod n d
  rw [hrem, add_zero] at hdm
  have : (n : ℚ) = (d : ℚ) * ((n / d : Nat) : ℚ) := by exact_mod_cast hdm.symm
  congr 2
  rw [eq_div_iff hdq.ne']; rw [this]; ring

/-- the scaled operands of `__truediv__`: `n/d = (a/b)·10^shift`, `d > 0` and `n/d ≥ 10^28`
(the quotient is computed to 29 or 30 significant digits, one or two more than the precision) -/
theorem div_scaled (ca cb : Nat) (ha : ca ≠ 0) (hb : cb ≠ 0) (shift : Int)
    (hshift : shift = (ndigits cb : Int) - (ndigits ca : Int) + (prec : Int) + 1) (n d : Nat)
    (hnd : (n, d) = if shift ≥ 0 then (ca * 10 ^ shift.toNat, cb) else (ca, cb * 10 ^ (-shift).toNat)) :
    0 < d ∧ 10 ^ 28 * d ≤ n ∧ (n : ℚ) / (d : ℚ) = (ca : ℚ) / (cb : ℚ) * (10 : ℚ) ^ shift := by
  have hprec : (prec : Int) = 28 := rfl
  obtain ⟨alo, ahi⟩ := ndigits_bounds ha
  obtain ⟨blo, bhi⟩ := ndigits_bounds hb
  have ap := ndigits_pos ca
  have bp := ndigits_pos cb
  have cbq : (0 : ℚ) < (cb : ℚ) := by exact_mod_cast Nat.pos_of_ne_zero hb
  by_cases hs : shift ≥ 0
  · rw [if_pos hs] at hnd
    obtain ⟨hn', hd'⟩ := Prod.mk.inj hnd
    rw [hn', hd']
    obtain ⟨t, ht⟩ : ∃ t : Nat, shift = (t : Int) := ⟨shift.toNat, (Int.toNat_of_nonneg hs).symm⟩
    have htn : shift.toNat = t := by omega
    rw [htn]
    refine ⟨Nat.pos_of_ne_zero hb, ?_, ?_⟩
    · have e1 : ndigits ca - 1 + t = 28 + ndigits cb := by omega
      calc 10 ^ 28 * cb ≤ 10 ^ 28 * 10 ^ ndigits cb := Nat.mul_le_mul_left _ bhi.le
        _ = 10 ^ (ndigits ca - 1) * 10 ^ t := by rw [← pow_add, ← pow_add, e1]
        _ ≤ ca * 10 ^ t := Nat.mul_le_mul_right _ alo
    · rw [ht, zpow_natCast]; push_cast; ring
  · rw [if_neg hs] at hnd
    obtain ⟨hn', hd'⟩ := Prod.mk.inj hnd
    rw [hn', hd']
    obtain ⟨t, ht⟩ : ∃ t : Nat, -shift = (t : Int) := ⟨(-shift).toNat, (Int.toNat_of_nonneg (by omega)).symm⟩
    have htn : (-shift).toNat = t := by omega
    rw [htn]
    have tpos : (0 : ℚ) < (10 : ℚ) ^ t := by positivity
    refine ⟨Nat.mul_pos (Nat.pos_of_ne_zero hb) (by positivity), ?_, ?_⟩
    · have e1 : 28 + (ndigits cb + t) = ndigits ca - 1 := by omega
      calc 10 ^ 28 * (cb * 10 ^ t) ≤ 10 ^ 28 * (10 ^ ndigits cb * 10 ^ t) :=
            Nat.mul_le_mul_left _ (Nat.mul_le_mul_right _ bhi.le)
        _ = 10 ^ (ndigits ca - 1) := by rw [← pow_add, ← pow_add, e1]
        _ ≤ ca := alo
    · have : shift = -(t : Int) := by omega
      rw [this, zpow_neg, zpow_natCast]; push_cast
      field_simp

/-- a quotient `n/d ≥ 10^28` that has at most 28 significant digits is an integer -/
theorem rem_zero_of_rep28 (n d : Nat) (E : Int) (m : Nat) (j : Int) (hd : 0 < d) (hge : 10 ^ 28 * d ≤ n)
    (hm : m < 10 ^ 28) (h : (n : ℚ) / (d : ℚ) * (10 : ℚ) ^ E = (m : ℚ) * (10 : ℚ) ^ j) : n % d = 0 := by
  have hdq : (0 : ℚ) < (d : ℚ) := by exact_mod_cast hd
  have ten_ne : (10 : ℚ) ≠ 0 := by norm_num
  have hE := ten_zpow_pos E
  have hx : (n : ℚ) / (d : ℚ) = (m : ℚ) * (10 : ℚ) ^ (j - E) := by
    rw [zpow_sub₀ ten_ne, ← mul_div_assoc, ← h, mul_div_assoc, div_self hE.ne', mul_one]
  have hx28 : (10 : ℚ) ^ ((28 : Nat) : Int) ≤ (n : ℚ) / (d : ℚ) := by
    rw [zpow_natCast, le_div_iff₀ hdq]; exact_mod_cast hge
  have hmq : (m : ℚ) < (10 : ℚ) ^ ((28 : Nat) : Int) := by rw [zpow_natCast]; exact_mod_cast hm
  have hpos : (0 : ℚ) < (10 : ℚ) ^ (j - E) := ten_zpow_pos _
  have hlt : (10 : ℚ) ^ ((28 : Nat) : Int) < (10 : ℚ) ^ (((28 : Nat) : Int) + (j - E)) := by
    rw [zpow_add₀ ten_ne]
    calc (10 : ℚ) ^ ((28 : Nat) : Int) ≤ (m : ℚ) * (10 : ℚ) ^ (j - E) := by rw [← hx]; exact hx28
      _ < (10 : ℚ) ^ ((28 : Nat) : Int) * (10 : ℚ) ^ (j - E) := mul_lt_mul_of_pos_right hmq hpos
  have hexp := (zpow_lt_zpow_iff_right₀ (by norm_num : (1 : ℚ) < 10)).mp hlt
  obtain ⟨t, ht⟩ : ∃ t : Nat, j - E = (t : Int) := ⟨(j - E).toNat, by rw [Int.toNat_of_nonneg (by omega)]⟩
  have hn : n = m * 10 ^ t * d := by
    have : (n : ℚ) = ((m * 10 ^ t * d : Nat) : ℚ) := by
      rw [div_eq_iff hdq.ne', ht, zpow_natCast] at hx
      rw [hx]; push_cast; ring
    exact_mod_cast this
  rw [hn]; exact Nat.mul_mod_left _ _

/-- **`__truediv__` is correctly rounded**: for every divisor with a non-zero coefficient the model
returns a result within `5·10⁻²⁸` (relative) of the exact quotient; a zero dividend gives zero. -/
theorem div_spec (a b : Dec) (hb : b.coeff ≠ 0) :
    ∃ r, div a b = some r ∧ |val r - val a / val b| ≤ u28 * |val a / val b| ∧
      (Rep28 (val a / val b) → val r = val a / val b) ∧ r.coeff < 10 ^ 28 := by
  have hb' : (b.coeff == 0) = false := by simpa using hb
  by_cases ha : a.coeff = 0
  · refine ⟨fix ⟨a.neg != b.neg, 0, a.exp - b.exp⟩, by unfold div; simp [hb', ha], ?_⟩
    rw [← and_assoc]
    refine ⟨?_, fix_fits _⟩
    have hz : ndigits (0 : Nat) ≤ prec := by rw [ndigits_eq]; simp [prec]
    rw [fix_of_fits _ hz, (val_eq_zero_iff a).mpr ha, val_mk]; simp
  · have ha' : (a.coeff == 0) = false := by simpa using ha
    -- name the intermediate quantities of the definition
    set shift : Int := (ndigits b.coeff : Int) - (ndigits a.coeff : Int) + (prec : Int) + 1 with hshift
    set nd : Nat × Nat := if shift ≥ 0 then (a.coeff * 10 ^ shift.toNat, b.coeff) else (a.coeff, b.coeff * 10 ^ (-shift).toNat) with hnd
    obtain ⟨hd, hge, hquot⟩ := div_scaled a.coeff b.coeff ha hb shift hshift nd.1 nd.2 (by rw [hnd])
    have hdiv : div a b = some (if nd.1 % nd.2 != 0
        then fix ⟨a.neg != b.neg, sticky (nd.1 / nd.2), a.exp - b.exp - shift⟩
        else fix ⟨a.neg != b.neg, (stripZerosAux 2000 (nd.1 / nd.2) (a.exp - b.exp - shift) (a.exp - b.exp)).1,
                  (stripZerosAux 2000 (nd.1 / nd.2) (a.exp - b.exp - shift) (a.exp - b.exp)).2⟩) := by
      unfold div sticky
      simp only [hb', ha', Bool.false_eq_true, if_false]
      by_cases hs : shift ≥ 0
      · simp only [hnd, ← hshift, hs, if_true]
        split <;> rfl
      · simp only [hnd, ← hshift, hs, if_false]
        split <;> rfl
    -- the exact quotient
    have hval : val a / val b = sgn (a.neg != b.neg) * ((nd.1 : ℚ) / (nd.2 : ℚ)) * (10 : ℚ) ^ (a.exp - b.exp - shift) := by
      have hbq : (b.coeff : ℚ) ≠ 0 := by exact_mod_cast hb
      have sb : sgn b.neg ≠ 0 := by cases b.neg <;> simp [sgn]
      have ten_ne : (10 : ℚ) ≠ 0 := by norm_num
      rw [hquot, val_eq a, val_eq b, sgn_xor, zpow_sub₀ ten_ne, zpow_sub₀ ten_ne]
      have e1 := (ten_zpow_pos b.exp).ne'
      have e2 := (ten_zpow_pos shift).ne'
      have hsb : sgn b.neg * sgn b.neg = 1 := sgn_mul_self _
      field_simp
      rw [pow_two, hsb, mul_one]
    have habs : |val a / val b| = ((nd.1 : ℚ) / (nd.2 : ℚ)) * (10 : ℚ) ^ (a.exp - b.exp - shift) := by
      have hdq : (0 : ℚ) < (nd.2 : ℚ) := by exact_mod_cast hd
      rw [hval, abs_mul, abs_mul, sgn_abs, one_mul, abs_of_pos (ten_zpow_pos _),
        abs_of_nonneg (div_nonneg (Nat.cast_nonneg _) hdq.le)]
    refine ⟨_, hdiv, ?_⟩
    by_cases hrem : nd.1 % nd.2 = 0
    · have hc : (nd.1 % nd.2 != 0) = false := by simp [hrem]
      rw [hc]; simp only [Bool.false_eq_true, if_false]
      have hpre := div_exact_pre (a.neg != b.neg) nd.1 nd.2 (a.exp - b.exp - shift) (a.exp - b.exp) hd hrem
      rw [hval, ← hpre]
      exact ⟨fix_rel_err _, fun h => fix_exact _ h, fix_fits _⟩
    · have hc : (nd.1 % nd.2 != 0) = true := by simp [hrem]
      rw [hc]; simp only [if_true]
      refine ⟨by rw [habs, hval]; exact div_inexact _ _ _ _ hd hge hrem, ?_, fix_fits _⟩
      -- an inexact quotient has more than 28 significant digits
      rintro ⟨m, j, hm, hmj⟩
      exfalso
      rw [habs] at hmj
      exact hrem (rem_zero_of_rep28 nd.1 nd.2 _ m j hd hge hm hmj)

/-! ### composing relative errors

`Approx n x̂ x`: `x̂ = x·ρ` with `(1-u)^n ≤ ρ ≤ (1-u)^(-n)` — "`x̂` is `x` perturbed by at most `n`
correctly rounded operations".  Closed under products and quotients (counts add) and under one
more rounding (count + 1); the plain relative bound is recovered by `approx_bound`. -/

def Approx (n : Nat) (xh x : ℚ) : Prop :=
  ∃ ρ : ℚ, xh = x * ρ ∧ (1 - u28) ^ n ≤ ρ ∧ ρ * (1 - u28) ^ n ≤ 1

theorem one_sub_u_pos : (0 : ℚ) < 1 - u28 := by have := u28_lt_one; linarith
theorem one_sub_u_le_one : (1 : ℚ) - u28 ≤ 1 := by have := u28_pos; linarith
theorem pow_one_sub_u_pos (n : Nat) : (0 : ℚ) < (1 - u28) ^ n := pow_pos one_sub_u_pos n

theorem approx_refl (x : ℚ) : Approx 0 x x := ⟨1, by ring, by simp, by simp⟩

theorem approx_rho_pos {n : Nat} {ρ : ℚ} (h : (1 - u28) ^ n ≤ ρ) : 0 < ρ :=
  lt_of_lt_of_le (pow_one_sub_u_pos n) h

theorem approx_mono {n m : Nat} (hnm : n ≤ m) {xh x : ℚ} (h : Approx n xh x) : Approx m xh x := by
  obtain ⟨ρ, he, h1, h2⟩ := h
  have hle : (1 - u28) ^ m ≤ (1 - u28) ^ n := pow_le_pow_of_le_one one_sub_u_pos.le one_sub_u_le_one hnm
  refine ⟨ρ, he, hle.trans h1, le_trans (mul_le_mul_of_nonneg_left hle (approx_rho_pos h1).le) h2⟩

/-- one correctly rounded operation -/
theorem approx_of_rel {xh x : ℚ} (h : |xh - x| ≤ u28 * |x|) : Approx 1 xh x := by
  by_cases hx : x = 0
  · subst hx
    have : xh = 0 := by simpa using h
    exact ⟨1, by rw [this]; ring, by simpa using one_sub_u_le_one, by simpa using one_sub_u_le_one⟩
  · have hxa : 0 < |x| := abs_pos.mpr hx
    have hρ : |xh / x - 1| ≤ u28 := by
      have : xh / x - 1 = (xh - x) / x := by field_simp
      rw [this, abs_div, div_le_iff₀ hxa]; exact h
    obtain ⟨hl, hr⟩ := abs_le.mp hρ
    refine ⟨xh / x, by field_simp, by rw [pow_one]; linarith, ?_⟩
    rw [pow_one]
    have hu := u28_pos
    have h1u := one_sub_u_pos
    calc xh / x * (1 - u28) ≤ (1 + u28) * (1 - u28) := mul_le_mul_of_nonneg_right (by linarith) h1u.le
      _ = 1 - u28 * u28 := by ring
      _ ≤ 1 := by nlinarith

theorem approx_trans {n m : Nat} {z y x : ℚ} (h1 : Approx n y x) (h2 : Approx m z y) : Approx (n + m) z x := by
  obtain ⟨ρ1, e1, a1, b1⟩ := h1
  obtain ⟨ρ2, e2, a2, b2⟩ := h2
  have p1 := approx_rho_pos a1
  have p2 := approx_rho_pos a2
  refine ⟨ρ1 * ρ2, by rw [e2, e1]; ring, ?_, ?_⟩
  · rw [pow_add]; exact mul_le_mul a1 a2 (pow_one_sub_u_pos m).le p1.le
  · rw [pow_add]
    calc ρ1 * ρ2 * ((1 - u28) ^ n * (1 - u28) ^ m) = (ρ1 * (1 - u28) ^ n) * (ρ2 * (1 - u28) ^ m) := by ring
      _ ≤ 1 * 1 := mul_le_mul b1 b2 (mul_pos p2 (pow_one_sub_u_pos m)).le (by norm_num)
      _ = 1 := by ring

theorem approx_mul {n m : Nat} {ah a bh b : ℚ} (h1 : Approx n ah a) (h2 : Approx m bh b) :
    Approx (n + m) (ah * bh) (a * b) := by
  obtain ⟨ρ1, e1, a1, b1⟩ := h1
  obtain ⟨ρ2, e2, a2, b2⟩ := h2
  have p1 := approx_rho_pos a1
  have p2 := approx_rho_pos a2
  refine ⟨ρ1 * ρ2, by rw [e2, e1]; ring, ?_, ?_⟩
  · rw [pow_add]; exact mul_le_mul a1 a2 (pow_one_sub_u_pos m).le p1.le
  · rw [pow_add]
    calc ρ1 * ρ2 * ((1 - u28) ^ n * (1 - u28) ^ m) = (ρ1 * (1 - u28) ^ n) * (ρ2 * (1 - u28) ^ m) := by ring
      _ ≤ 1 * 1 := mul_le_mul b1 b2 (mul_pos p2 (pow_one_sub_u_pos m)).le (by norm_num)
      _ = 1 := by ring

theorem approx_div {n m : Nat} {ah a bh b : ℚ} (h1 : Approx n ah a) (h2 : Approx m bh b) :
    Approx (n + m) (ah / bh) (a / b) := by
  obtain ⟨ρ1, e1, a1, b1⟩ := h1
  obtain ⟨ρ2, e2, a2, b2⟩ := h2
  have p1 := approx_rho_pos a1
  have p2 := approx_rho_pos a2
  have q1 := pow_one_sub_u_pos n
  have q2 := pow_one_sub_u_pos m
  refine ⟨ρ1 / ρ2, ?_, ?_, ?_⟩
  · rw [e1, e2]; by_cases hb : b = 0
    · subst hb; simp
    · field_simp
  · rw [pow_add, le_div_iff₀ p2]
    calc (1 - u28) ^ n * (1 - u28) ^ m * ρ2 = (1 - u28) ^ n * (ρ2 * (1 - u28) ^ m) := by ring
      _ ≤ (1 - u28) ^ n * 1 := mul_le_mul_of_nonneg_left b2 q1.le
      _ ≤ ρ1 := by rw [mul_one]; exact a1
  · rw [pow_add, div_mul_eq_mul_div, div_le_iff₀ p2]
    calc ρ1 * ((1 - u28) ^ n * (1 - u28) ^ m) = (ρ1 * (1 - u28) ^ n) * (1 - u28) ^ m := by ring
      _ ≤ 1 * ρ2 := mul_le_mul b1 a2 q2.le (by norm_num)

/-- approximation of a non-zero quantity is non-zero, and conversely -/
theorem approx_ne_zero {n : Nat} {xh x : ℚ} (h : Approx n xh x) : xh ≠ 0 ↔ x ≠ 0 := by
  obtain ⟨ρ, e, a, -⟩ := h
  have p := approx_rho_pos a
  rw [e]; constructor
  · intro h hx; exact h (by rw [hx]; ring)
  · intro hx; exact mul_ne_zero hx p.ne'

/-- **`n` roundings cost at most `n·u/(1 − n·u)` relative error** (`u = 5·10⁻²⁸`), i.e.
`n·5·10⁻²⁸·(1 + small)` with `small = n·u/(1 − n·u)` -/
theorem approx_bound {n : Nat} {xh x : ℚ} (h : Approx n xh x) (hn : (n : ℚ) * u28 < 1) :
    |xh - x| ≤ (n : ℚ) * u28 / (1 - (n : ℚ) * u28) * |x| := by
  obtain ⟨ρ, e, a, b⟩ := h
  have p := approx_rho_pos a
  have hB : 1 - (n : ℚ) * u28 ≤ (1 - u28) ^ n := by
    have := one_add_mul_le_pow (a := -u28) (by have := u28_lt_one; linarith) n
    have e1 : (1 : ℚ) + -u28 = 1 - u28 := by ring
    rw [e1] at this; linarith
  have hpos : 0 < 1 - (n : ℚ) * u28 := by linarith
  have hnu : 0 ≤ (n : ℚ) * u28 := mul_nonneg (Nat.cast_nonneg _) u28_pos.le
  have hρ : |ρ - 1| ≤ (n : ℚ) * u28 / (1 - (n : ℚ) * u28) := by
    rw [abs_le]; constructor
    · have : -((n : ℚ) * u28 / (1 - (n : ℚ) * u28)) ≤ -((n : ℚ) * u28) := by
        rw [neg_le_neg_iff, le_div_iff₀ hpos]; nlinarith
      linarith
    · rw [le_div_iff₀ hpos]
      -- ρ (1 - nu) ≤ ρ (1-u)^n ≤ 1
      have : ρ * (1 - (n : ℚ) * u28) ≤ 1 := le_trans (mul_le_mul_of_nonneg_left hB p.le) b
      nlinarith
  have : xh - x = x * (ρ - 1) := by rw [e]; ring
  rw [this, abs_mul, mul_comm]
  exact mul_le_mul_of_nonneg_right hρ (abs_nonneg _)

/-- three roundings stay within `2·10⁻²⁷` -/
theorem approx3_close {n : Nat} (hn : n ≤ 3) {xh x : ℚ} (h : Approx n xh x) : |xh - x| * 10 ^ 27 ≤ 2 * |x| := by
  have h3 := approx_bound (approx_mono hn h) (by unfold u28; norm_num)
  have hc : ((3 : Nat) : ℚ) * u28 / (1 - ((3 : Nat) : ℚ) * u28) * 10 ^ 27 ≤ 2 := by unfold u28; norm_num
  calc |xh - x| * 10 ^ 27 ≤ (((3 : Nat) : ℚ) * u28 / (1 - ((3 : Nat) : ℚ) * u28) * |x|) * 10 ^ 27 :=
        mul_le_mul_of_nonneg_right h3 (by positivity)
    _ = (((3 : Nat) : ℚ) * u28 / (1 - ((3 : Nat) : ℚ) * u28) * 10 ^ 27) * |x| := by ring
    _ ≤ 2 * |x| := mul_le_mul_of_nonneg_right hc (abs_nonneg _)

end QcelVerif.Dec
