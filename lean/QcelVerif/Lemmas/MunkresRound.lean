import QcelVerif.Lemmas.HashConcrete
import QcelVerif.Model.MunkresFloat
/-!
C14 — the concrete work dtypes are exact on the integers they represent.

* `rndDouble_exact53` — IEEE round-to-nearest-even to 53 bits (`Hash.rndDouble`, the function C11's
  driver executes) is the identity on every integer of absolute value `≤ 2^53`;
* `wrapInt64_exact` — two's-complement wrap-around is the identity on `[-2^63, 2^63)`;
* `wrapUInt64_exact` — … and unsigned wrap-around on `[0, 2^64)`.
-/
namespace QcelVerif.Munkres
open QcelVerif.Hash

theorem rint_int (n : Int) : rintHE (n : Rat) = n :=
  rint_near _ n (by linarith) (by linarith)

/-- scaling a natural number up by a power of two, rounding to an integer and scaling back changes nothing -/
theorem scale_rint_scale (k : Nat) (e : Int) (he : e ≤ 0) :
    scale2 ((rintHE (scale2 (k : Rat) e) : Int) : Rat) (-e) = (k : Rat) := by
  obtain ⟨N, rfl⟩ : ∃ N : Nat, e = -(N : Int) := ⟨(-e).toNat, by omega⟩
  rw [scale2_eq, scale2_eq, neg_neg, zpow_natCast, zpow_neg, zpow_natCast]
  have hy : (k : Rat) * 2 ^ N = (((k * 2 ^ N : Nat) : Int) : Rat) := by push_cast; ring
  rw [hy, rint_int]
  have h2 : ((2 : Rat) ^ N) ≠ 0 := by positivity
  push_cast
  rw [mul_assoc, mul_inv_cancel₀ h2, mul_one]

theorem rndDouble_pos_int (k : Nat) (hk : 0 < k) (hlt : k < 2 ^ 53) : rndDouble (k : Rat) = (k : Rat) := by
  have hk0 : (k : Rat) ≠ 0 := by exact_mod_cast hk.ne'
  have hneg : ¬ (k : Rat) < 0 := by
    have : (0 : Rat) ≤ k := by exact_mod_cast Nat.zero_le k
    linarith
  have hL : Nat.log2 k ≤ 52 := by
    have h1 : 2 ^ Nat.log2 k ≤ k := Nat.log2_self_le hk.ne'
    have h2 : 2 ^ Nat.log2 k < 2 ^ 53 := lt_of_le_of_lt h1 hlt
    have := (Nat.pow_lt_pow_iff_right (by decide : 1 < 2)).1 h2
    omega
  have hl1 : Nat.log2 1 = 0 := by decide
  unfold rndDouble
  rw [if_neg hk0]
  simp only [hneg, if_false, Rat.num_natCast, Int.natAbs_natCast, Rat.den_natCast, hl1]
  split_ifs with hc
  · exact scale_rint_scale k _ (by omega)
  · exact scale_rint_scale k _ (by omega)

theorem rndDouble_neg (q : Rat) : rndDouble (-q) = -rndDouble q := by
  unfold rndDouble
  by_cases h0 : q = 0
  · simp [h0]
  · have h0' : -q ≠ 0 := by simpa using h0
    rw [if_neg h0, if_neg h0']
    rcases lt_or_gt_of_ne h0 with hn | hp
    · have h1 : ¬ (-q < 0) := by linarith
      simp only [hn, h1, if_true, if_false, neg_neg]
    · have h1 : -q < 0 := by linarith
      have h2 : ¬ (q < 0) := by linarith
      simp only [h1, h2, if_true, if_false, neg_neg]

/-- **float64 is exact on the integers up to `2^53`**: round-to-nearest-even leaves them unchanged -/
theorem rndDouble_int (z : Int) (h : |z| ≤ 2 ^ 53) : rndDouble (z : Rat) = (z : Rat) := by
  have key : ∀ k : Nat, k ≤ 2 ^ 53 → rndDouble (k : Rat) = (k : Rat) := by
    intro k hk
    rcases Nat.eq_zero_or_pos k with rfl | hpos
    · simp [rndDouble]
    · rcases Nat.lt_or_eq_of_le hk with hlt | rfl
      · exact rndDouble_pos_int k hpos hlt
      · have : (((2 ^ 53 : Nat) : Rat)) = (2 : Rat) ^ 53 := by norm_num
        rw [this]
        decide +kernel
  obtain ⟨k, rfl | rfl⟩ := Int.eq_nat_or_neg z
  · have hk : k ≤ 2 ^ 53 := by
      have := abs_le.1 h
      omega
    exact_mod_cast key k hk
  · have hk : k ≤ 2 ^ 53 := by
      have := abs_le.1 h
      omega
    push_cast
    rw [rndDouble_neg, key k hk]

/-- **int64 never wraps on `[-2^63, 2^63)`** -/
theorem wrapInt64_int (z : Int) (h1 : -2 ^ 63 ≤ z) (h2 : z < 2 ^ 63) : wrapInt64 (z : Rat) = (z : Rat) := by
  unfold wrapInt64
  simp only [Rat.den_intCast, Rat.num_intCast, if_true]
  congr 1
  omega

/-- **uint64 never wraps on `[0, 2^64)`** -/
theorem wrapUInt64_int (z : Int) (h1 : 0 ≤ z) (h2 : z < 2 ^ 64) : wrapUInt64 (z : Rat) = (z : Rat) := by
  unfold wrapUInt64
  simp only [Rat.den_intCast, Rat.num_intCast, if_true]
  congr 1
  omega

end QcelVerif.Munkres
