import QcelVerif.Props.C02Dec
import QcelVerif.Model.ConstantsSrc
/-!
# C02 — helper definitions and lemmas for the source-derived context (`Props/C02Src.lean`)

 * the translate table: per-character agreement for ASCII by kernel evaluation, above ASCII by the key bound;
 * Boolean equality of whole `pc` tables with its soundness lemma;
 * lower-casing of `pc` names and fuel monotonicity of `Expr.evalDec`;
 * **normalisation** of alias expression trees (`normExpr`): lower-case the constant names, inline other aliases,
   replace a constant that the context itself computes (calorie-joule relationship → its literal, a 2014 legacy name →
   the 2018 name it copies, a derived legacy constant → its own formula) — and its soundness for EVERY table of
   constants that is consistent with that environment (`norm_sound`); `commNorm` orders the two operands of every
   product (`Dec.mul` is commutative digit for digit), so `10*cal` and `cal*10` are the same definition;
 * named Boolean predicates for the kernel-evaluated table theorems.
-/
namespace QcelVerif.Constants
open QcelVerif QcelVerif.PStr QcelVerif.Codata QcelVerif.Dec
open Gen.ContextSrc
set_option maxRecDepth 100000

/-! ### translate table -/

theorem filterMap_cons_append {α β} (f : α → Option β) (c : α) (t : List α) :
    (c :: t).filterMap f = [c].filterMap f ++ t.filterMap f := by
  simp only [List.filterMap_cons, List.filterMap_nil]; cases f c <;> simp

theorem mangle_char_ascii : ∀ c, c < 128 → transChar transTable c = mangle [c] := by decide +kernel

def keysBelow (n : Nat) : List (Nat × List Nat) → Bool
  | [] => true
  | (k, _) :: t => Nat.blt k n && keysBelow n t

theorem transFind_none_of_keysBelow (n c : Nat) (hc : n ≤ c) :
    ∀ tbl, keysBelow n tbl = true → transFind tbl c = none := by
  intro tbl
  induction tbl with
  | nil => intro _; rfl
  | cons kv t ih =>
    obtain ⟨k, r⟩ := kv
    intro h
    simp only [keysBelow, Bool.and_eq_true] at h
    have hk : k < n := Nat.blt_eq ▸ h.1
    cases hkc : Nat.beq k c with
    | true => have := Nat.eq_of_beq_eq_true hkc; omega
    | false => simp only [transFind, hkc]; exact ih h.2

theorem mangle_char_high (c : Nat) (hc : 128 ≤ c) : mangle [c] = [c] := by
  have h1 : c ≠ 32 := by omega
  have h2 : c ≠ 45 := by omega
  have h3 : c ≠ 123 := by omega
  have h4 : c ≠ 47 := by omega
  have h5 : c ≠ 46 := by omega
  have h6 : c ≠ 44 := by omega
  have h7 : c ≠ 40 := by omega
  have h8 : c ≠ 41 := by omega
  have h9 : c ≠ 125 := by omega
  simp [mangle, h1, h2, h3, h4, h5, h6, h7, h8, h9]

theorem mangle_src_char (c : Nat) : transChar transTable c = mangle [c] := by
  by_cases hc : c < 128
  · exact mangle_char_ascii c hc
  · have hc' : 128 ≤ c := by omega
    rw [mangle_char_high c hc']
    unfold transChar
    rw [transFind_none_of_keysBelow 128 c hc' transTable (by decide)]


theorem mangleWith_eq (s : Bytes) : mangleWith transTable s = mangle s := by
  induction s with
  | nil => rfl
  | cons c t ih =>
    have : mangle (c :: t) = mangle [c] ++ mangle t := filterMap_cons_append _ c t
    rw [this, ← ih, ← mangle_src_char]; rfl

/-! ### Boolean equality of whole tables -/

def optNatBeq : Option Nat → Option Nat → Bool
  | none, none => true
  | some a, some b => Nat.beq a b
  | _, _ => false

def datumBeq (a b : Datum) : Bool :=
  Nat.beq a.label b.label && Nat.beq a.units b.units && decBeq a.data b.data && Nat.beq a.comment b.comment && optNatBeq a.doi b.doi

def pcBeq : PC → PC → Bool
  | [], [] => true
  | (k, d) :: t, (k', d') :: t' => (match Nat.beq k k' && datumBeq d d' with | true => pcBeq t t' | false => false)
  | _, _ => false

def optPcBeq : Option PC → Option PC → Bool
  | some a, some b => pcBeq a b
  | _, _ => false

theorem optNatBeq_eq {a b : Option Nat} (h : optNatBeq a b = true) : a = b := by
  cases a <;> cases b <;> simp_all [optNatBeq]

theorem datumBeq_eq {a b : Datum} (h : datumBeq a b = true) : a = b := by
  unfold datumBeq at h
  simp only [Bool.and_eq_true] at h
  obtain ⟨⟨⟨⟨h1, h2⟩, h3⟩, h4⟩, h5⟩ := h
  have h3' := decBeq_eq h3
  have h5' := optNatBeq_eq h5
  cases a; cases b; simp_all

theorem pcBeq_eq : ∀ {a b : PC}, pcBeq a b = true → a = b := by
  intro a
  induction a with
  | nil => intro b h; cases b with
    | nil => rfl
    | cons _ _ => simp [pcBeq] at h
  | cons x t ih =>
    intro b h
    cases b with
    | nil => obtain ⟨k, d⟩ := x; simp [pcBeq] at h
    | cons y t' =>
      obtain ⟨k, d⟩ := x
      obtain ⟨k', d'⟩ := y
      simp only [pcBeq] at h
      cases hh : (Nat.beq k k' && datumBeq d d') with
      | false => simp [hh] at h
      | true =>
        simp only [hh] at h
        simp only [Bool.and_eq_true] at hh
        rw [Nat.eq_of_beq_eq_true hh.1, datumBeq_eq hh.2, ih h]

theorem optPcBeq_eq {a b : Option PC} (h : optPcBeq a b = true) : a = b ∧ a.isSome = true := by
  cases a <;> cases b <;> simp_all [optPcBeq]
  exact pcBeq_eq h


/-! ### lower-casing, fuel, normalisation -/

deriving instance DecidableEq for Expr
deriving instance DecidableEq for AliasDef

def lowerPc : Expr → Expr
  | .pc n => .pc (lower n)
  | .lit t => .lit t
  | .alias n => .alias n
  | .mul a b => .mul (lowerPc a) (lowerPc b)
  | .div a b => .div (lowerPc a) (lowerPc b)
def lowerDef (a : AliasDef) : AliasDef := { a with expr := lowerPc a.expr }

theorem toLower_idem (c : Nat) : toLower (toLower c) = toLower c := by
  unfold toLower isUpper
  by_cases h : (65 ≤ c && c ≤ 90) = true
  · have h' : 65 ≤ c ∧ c ≤ 90 := by simpa using h
    have : (65 ≤ c + 32 && c + 32 ≤ 90) = false := by
      rw [Bool.and_eq_false_iff]; right; simp; omega
    rw [if_pos h, if_neg (by rw [this]; simp)]
  · rw [if_neg h, if_neg h]

theorem lower_idem (s : Bytes) : lower (lower s) = lower s := by
  unfold lower
  rw [List.map_map]
  apply List.map_congr_left
  intro c _
  exact toLower_idem c

theorem evalDec_lowerPc (pc : PC) (tbl : List AliasDef) :
    ∀ f e, (lowerPc e).evalDec pc tbl f = e.evalDec pc tbl f := by
  intro f
  induction f with
  | zero => intro e; cases e <;> rfl
  | succ f ih =>
    intro e
    cases e with
    | pc n => simp only [lowerPc, Expr.evalDec, lower_idem]
    | lit t => rfl
    | «alias» n => rfl
    | mul a b => simp only [lowerPc, Expr.evalDec, ih]
    | div a b => simp only [lowerPc, Expr.evalDec, ih]

theorem evalDec_succ (pc : PC) (tbl : List AliasDef) :
    ∀ f e v, Expr.evalDec pc tbl f e = some v → Expr.evalDec pc tbl (f + 1) e = some v := by
  intro f
  induction f with
  | zero => intro e v h; simp [Expr.evalDec] at h
  | succ f ih =>
    intro e v h
    cases e with
    | pc n => simpa [Expr.evalDec] using h
    | lit t => simpa [Expr.evalDec] using h
    | «alias» n =>
      simp only [Expr.evalDec] at h ⊢
      cases hfa : findAlias tbl n with
      | none => simp [hfa] at h
      | some a => simp only [hfa] at h ⊢; exact ih _ _ h
    | mul a b =>
      simp only [Expr.evalDec] at h ⊢
      cases hxa : Expr.evalDec pc tbl f a with
      | none => simp [hxa] at h
      | some x =>
        cases hxb : Expr.evalDec pc tbl f b with
        | none => simp [hxa, hxb] at h
        | some y =>
          simp only [hxa, hxb] at h
          simp only [ih _ _ hxa, ih _ _ hxb]; exact h
    | div a b =>
      simp only [Expr.evalDec] at h ⊢
      cases hxa : Expr.evalDec pc tbl f a with
      | none => simp [hxa] at h
      | some x =>
        cases hxb : Expr.evalDec pc tbl f b with
        | none => simp [hxa, hxb] at h
        | some y =>
          simp only [hxa, hxb] at h
          simp only [ih _ _ hxa, ih _ _ hxb]; exact h

theorem evalDec_mono (pc : PC) (tbl : List AliasDef) (e : Expr) (v : Dec) (f g : Nat)
    (h : Expr.evalDec pc tbl f e = some v) (hfg : f ≤ g) : Expr.evalDec pc tbl g e = some v := by
  induction hfg with
  | refl => exact h
  | step _ ih => exact evalDec_succ pc tbl _ e v ih


/-! ### normalisation -/
abbrev Env := List (Bytes × Expr)

def envFind : Env → Bytes → Option Expr
  | [], _ => none
  | (k, e) :: t, n => if k = n then some e else envFind t n

def normExpr (env : Env) (tbl : List AliasDef) : Nat → Expr → Expr
  | 0, e => e
  | _ + 1, .pc n => match envFind env (lower n) with | some e' => e' | none => .pc (lower n)
  | _ + 1, .lit t => .lit t
  | f + 1, .alias n => match findAlias tbl n with
      | some a => normExpr env tbl f a.expr
      | none => .alias n
  | f + 1, .mul a b => .mul (normExpr env tbl f a) (normExpr env tbl f b)
  | f + 1, .div a b => .div (normExpr env tbl f a) (normExpr env tbl f b)

def envOf (extras : List (Bytes × AliasDef)) (renames : List (Bytes × Bytes)) (initial : List AliasDef) : Env :=
  let e1 : Env := extras.map (fun ka => (ka.1, normExpr [] [] evalFuel ka.2.expr))
  let e2 : Env := renames.map (fun p => (lower p.2, Expr.pc (lower p.1)))
  let e3 : Env := initial.map (fun a => (lower a.name, normExpr (e1 ++ e2) [] evalFuel a.expr))
  e1 ++ e2 ++ e3

def EnvOk (pc : PC) (env : Env) : Prop :=
  ∀ k e', envFind env k = some e' → ∀ d, pcFind pc (pack k) = some d → e'.evalDec pc [] evalFuel = some d.data

theorem norm_sound (pc : PC) (env : Env) (tbl : List AliasDef) (hE : EnvOk pc env) :
    ∀ f e v, Expr.evalDec pc tbl f e = some v →
      ∃ g, ∀ g', g ≤ g' → (normExpr env tbl f e).evalDec pc [] g' = some v := by
  intro f
  induction f with
  | zero => intro e v h; simp [Expr.evalDec] at h
  | succ f ih =>
    intro e v h
    cases e with
    | pc n =>
      simp only [Expr.evalDec, Option.map_eq_some_iff] at h
      obtain ⟨d, hd, hv⟩ := h
      simp only [normExpr]
      cases hf : envFind env (lower n) with
      | some e' =>
        refine ⟨evalFuel, fun g' hg => ?_⟩
        have := hE _ _ hf d hd
        rw [hv] at this
        exact evalDec_mono pc [] e' v _ _ this hg
      | none =>
        refine ⟨1, fun g' hg => ?_⟩
        obtain ⟨g'', rfl⟩ : ∃ g'', g' = g'' + 1 := ⟨g' - 1, by omega⟩
        simp only [Expr.evalDec, lower_idem, hd, Option.map_some, hv]
    | lit t =>
      refine ⟨1, fun g' hg => ?_⟩
      obtain ⟨g'', rfl⟩ : ∃ g'', g' = g'' + 1 := ⟨g' - 1, by omega⟩
      simpa [normExpr, Expr.evalDec] using h
    | «alias» n =>
      simp only [Expr.evalDec] at h
      cases hfa : findAlias tbl n with
      | none => simp [hfa] at h
      | some a =>
        simp only [hfa] at h
        simp only [normExpr, hfa]
        exact ih _ _ h
    | mul a b =>
      simp only [Expr.evalDec] at h
      cases hxa : Expr.evalDec pc tbl f a with
      | none => simp [hxa] at h
      | some x =>
        cases hxb : Expr.evalDec pc tbl f b with
        | none => simp [hxa, hxb] at h
        | some y =>
          simp only [hxa, hxb] at h
          obtain ⟨ga, hga⟩ := ih a x hxa
          obtain ⟨gb, hgb⟩ := ih b y hxb
          refine ⟨max ga gb + 1, fun g' hg => ?_⟩
          obtain ⟨g'', rfl⟩ : ∃ g'', g' = g'' + 1 := ⟨g' - 1, by omega⟩
          simp only [normExpr, Expr.evalDec, hga g'' (by omega), hgb g'' (by omega)]
          exact h
    | div a b =>
      simp only [Expr.evalDec] at h
      cases hxa : Expr.evalDec pc tbl f a with
      | none => simp [hxa] at h
      | some x =>
        cases hxb : Expr.evalDec pc tbl f b with
        | none => simp [hxa, hxb] at h
        | some y =>
          simp only [hxa, hxb] at h
          obtain ⟨ga, hga⟩ := ih a x hxa
          obtain ⟨gb, hgb⟩ := ih b y hxb
          refine ⟨max ga gb + 1, fun g' hg => ?_⟩
          obtain ⟨g'', rfl⟩ : ∃ g'', g' = g'' + 1 := ⟨g' - 1, by omega⟩
          simp only [normExpr, Expr.evalDec, hga g'' (by omega), hgb g'' (by omega)]
          exact h


/-! ### operand order of products -/

/-- Decimal multiplication is commutative digit for digit (sign xor, coefficient product, exponent sum, one rounding) -/
theorem Dec.mul_comm' (a b : Dec) : Dec.mul a b = Dec.mul b a := by
  unfold Dec.mul
  rw [Nat.mul_comm a.coeff b.coeff, Int.add_comm a.exp b.exp]
  congr 2
  cases a.neg <;> cases b.neg <;> rfl

/-- serialisation used only to pick an operand order -/
def exprKey : Expr → List Nat
  | .pc n => 0 :: n.length :: n
  | .lit t => 1 :: t.length :: t
  | .alias n => 2 :: n.length :: n
  | .mul a b => 3 :: (exprKey a ++ exprKey b)
  | .div a b => 4 :: (exprKey a ++ exprKey b)

def listLe : List Nat → List Nat → Bool
  | [], _ => true
  | _ :: _, [] => false
  | a :: t, b :: t' => if a < b then true else if b < a then false else listLe t t'

/-- the two operands of every product put in a fixed order (`x*y` and `y*x` are the same Decimal; products of three
factors are NOT re-associated — that changes the roundings) -/
def commNorm : Expr → Expr
  | .mul a b =>
    let a' := commNorm a
    let b' := commNorm b
    if listLe (exprKey a') (exprKey b') then .mul a' b' else .mul b' a'
  | .div a b => .div (commNorm a) (commNorm b)
  | e => e

theorem evalDec_commNorm (pc : PC) : ∀ f e, (commNorm e).evalDec pc [] f = e.evalDec pc [] f := by
  intro f
  induction f with
  | zero => intro e; cases e <;> simp [Expr.evalDec]
  | succ f ih =>
    intro e
    cases e with
    | pc n => rfl
    | lit t => rfl
    | «alias» n => rfl
    | mul a b =>
      simp only [commNorm]
      split
      · simp only [Expr.evalDec, ih]
      · simp only [Expr.evalDec, ih]
        cases Expr.evalDec pc [] f a <;> cases Expr.evalDec pc [] f b <;> simp [Dec.mul_comm']
    | div a b => simp only [commNorm, Expr.evalDec, ih]

/-! ### pairwise predicates over (source definition, specification definition) -/

def allPairs2 (p : AliasDef → AliasDef → Bool) : List AliasDef → List AliasDef → Bool
  | [], [] => true
  | a :: t, b :: t' => (match p a b with | true => allPairs2 p t t' | false => false)
  | _, _ => false

theorem allPairs2_of (P : AliasDef → Bool) (Q R : AliasDef → AliasDef → Bool)
    (hPQR : ∀ s p, P s = true → Q s p = true → R s p = true) :
    ∀ l l', allAliases P l = true → allPairs2 Q l l' = true → allPairs2 R l l' = true := by
  intro l
  induction l with
  | nil => intro l' _ h; cases l' with
    | nil => rfl
    | cons _ _ => simp [allPairs2] at h
  | cons s t ih =>
    intro l' hP hQ
    cases l' with
    | nil => simp [allPairs2] at hQ
    | cons p t' =>
      unfold allAliases at hP
      unfold allPairs2 at hQ ⊢
      cases hs : P s with
      | false => simp [hs] at hP
      | true =>
        cases hq : Q s p with
        | false => simp [hq] at hQ
        | true =>
          simp only [hs] at hP
          simp only [hq] at hQ
          simp only [hPQR s p hs hq]
          exact ih t' hP hQ

theorem allPairs2_mem (Q : AliasDef → AliasDef → Bool) :
    ∀ l l', allPairs2 Q l l' = true → ∀ sp ∈ l.zip l', Q sp.1 sp.2 = true := by
  intro l
  induction l with
  | nil => intro l' _ sp hsp; simp at hsp
  | cons s t ih =>
    intro l' h sp hsp
    cases l' with
    | nil => simp at hsp
    | cons p t' =>
      unfold allPairs2 at h
      cases hq : Q s p with
      | false => simp [hq] at h
      | true =>
        simp only [hq] at h
        rw [List.zip_cons_cons, List.mem_cons] at hsp
        rcases hsp with rfl | hsp
        · exact hq
        · exact ih t' h sp hsp

/-- aliases whose source expression groups the arithmetic differently from the documentation: only value equality -/
def regrouped : List Bytes := [b!"dipmom_au2debye"]

/-- name, units and comment of the tuple are the documented ones -/
def metaEq (s p : AliasDef) : Bool := decide (s.name = p.name) && decide (s.units = p.units) && decide (s.comment = p.comment)

/-- normalised source tree = normalised specification tree (operands of each product in canonical order) -/
def symEq (env : Env) (s p : AliasDef) : Bool :=
  decide (commNorm (normExpr env [] evalFuel s.expr) = commNorm (normExpr env aliasSpec evalFuel p.expr))

def symOk (env : Env) (s p : AliasDef) : Bool := metaEq s p && (regrouped.contains s.name || symEq env s p)

/-- the regrouped ones really differ as trees (the exclusion list is not wider than necessary) -/
def symDiffers (env : Env) (s p : AliasDef) : Bool := !regrouped.contains s.name || !symEq env s p

def env2014 : Env := envOf extras2014 renames2014 initial2014
def env2018 : Env := envOf extras2018 renames2018 initial2018

/-- Boolean form of `EnvOk` -/
def envOkB (pc : PC) : Env → Bool
  | [] => true
  | (k, e') :: t =>
    (match pcFind pc (pack k) with
      | some d => (match e'.evalDec pc [] evalFuel with | some v => decBeq v d.data | none => false)
      | none => true) && envOkB pc t

theorem envOk_of_B (pc : PC) : ∀ env, envOkB pc env = true → EnvOk pc env := by
  intro env
  induction env with
  | nil => intro _ k e' h; simp [envFind] at h
  | cons ke t ih =>
    obtain ⟨k0, e0⟩ := ke
    intro h k e' hf d hd
    simp only [envOkB, Bool.and_eq_true] at h
    simp only [envFind] at hf
    by_cases hk : k0 = k
    · rw [if_pos hk, Option.some.injEq] at hf
      subst hk; subst hf
      have h1 := h.1
      rw [hd] at h1
      cases hv : e0.evalDec pc [] evalFuel with
      | none => simp [hv] at h1
      | some v => simp only [hv] at h1; rw [decBeq_eq h1]
    · rw [if_neg hk] at hf
      exact ih h.2 k e' hf d hd

def withPC2 (o1 o2 : Option PC) (p : PC → PC → Bool) : Bool :=
  match o1, o2 with | some a, some b => p a b | _, _ => false

/-- the source expression evaluated on the table the code evaluates it on (`pre`) gives, digit for digit, the Decimal
the documented formula gives on the finished context (`fin`) -/
def valEq (tbl : List AliasDef) (pre fin : PC) (s p : AliasDef) : Bool :=
  match s.expr.evalDec pre [] evalFuel, p.expr.evalDec fin tbl evalFuel with
  | some x, some y => decBeq x y
  | _, _ => false

/-- exact rational value of the source formula = exact rational value of the documented formula -/
def sameQ (tbl : List AliasDef) (fin : PC) (s p : AliasDef) : Bool :=
  match s.expr.evalQ fin [] evalFuel, p.expr.evalQ fin tbl evalFuel with
  | some x, some y => decide (x = y)
  | _, _ => false

/-- the stored entry named by the source tuple is within 2·10⁻²⁷ of the exact rational value of the DOCUMENTED formula -/
def closeTo (tbl : List AliasDef) (fin : PC) (s p : AliasDef) : Bool :=
  match p.expr.evalQ fin tbl evalFuel, pcFind fin (pack (lower s.name)) with
  | some q, some e => ratClose e.data.val q
  | _, _ => false

theorem closeTo_of (tbl : List AliasDef) (fin : PC) (s p : AliasDef)
    (h1 : aliasClose [] fin s = true) (h2 : sameQ tbl fin s p = true) : closeTo tbl fin s p = true := by
  unfold aliasClose at h1
  unfold sameQ at h2
  unfold closeTo
  cases hs : s.expr.evalQ fin [] evalFuel with
  | none => simp [hs] at h1
  | some x =>
    cases hp : p.expr.evalQ fin tbl evalFuel with
    | none => simp [hs, hp] at h2
    | some y =>
      simp only [hs, hp, decide_eq_true_eq] at h2
      simp only [hs] at h1
      rw [← h2]; exact h1

/-- everything that is kernel-evaluated about one source-derived context in one go -/
def srcChecks (env : Env) (initial extended derivedSpec : List AliasDef) (pre fin : PC) : Bool :=
  (allPairs2 (valEq aliasSpec pre fin) extended aliasSpec && allPairs2 (valEq [] pre fin) initial derivedSpec) &&
  (allAliases (aliasOk [] fin) (initial ++ extended) &&
   (allPairs2 (sameQ aliasSpec fin) extended aliasSpec && allPairs2 (sameQ [] fin) initial derivedSpec)) &&
  envOkB fin env

theorem withPC2_right {o1 o2 : Option PC} {p : PC → PC → Bool} {q : PC → Bool}
    (hpq : ∀ a b, p a b = true → q b = true) (h : withPC2 o1 o2 p = true) : withPC o2 q = true := by
  cases o1 with
  | none => cases o2 <;> simp [withPC2] at h
  | some a => cases o2 with
    | none => simp [withPC2] at h
    | some b => exact hpq a b h

theorem withPC2_imp {o1 o2 : Option PC} {p q : PC → PC → Bool}
    (hpq : ∀ a b, p a b = true → q a b = true) (h : withPC2 o1 o2 p = true) : withPC2 o1 o2 q = true := by
  cases o1 with
  | none => cases o2 <;> simp [withPC2] at h
  | some a => cases o2 with
    | none => simp [withPC2] at h
    | some b => exact hpq a b h

theorem buildAttrsWith_eq (pc : PC) : ∀ acc, buildAttrsWith transTable pc acc = buildAttrs pc acc := by
  induction pc with
  | nil => intro acc; rfl
  | cons e t ih =>
    intro acc
    obtain ⟨k, d⟩ := e
    have hm : mangleWith transTable (unpack d.label) = mangle (unpack d.label) := mangleWith_eq _
    simp only [buildAttrsWith, buildAttrs, hm, ih]

end QcelVerif.Constants
