import QcelVerif.Model.Hash
/-!
Helper lemmas for C11, part 1 (core Lean only): the `json.dumps` layout is uniquely decodable.
-/
namespace QcelVerif.Hash

/-- characters that can occur inside an atomic token (number, `true`/`false`, quoted symbol) -/
def tokCh (c : Char) : Bool := !(c == ',' || c == ']' || c == '[')

/-- two tokens over `p`, each followed by nothing or by a non-`p` character, are equal if the strings are -/
theorem tok_split {p : Char → Bool} : ∀ {u u' s s' : List Char},
    (∀ c ∈ u, p c = true) → (∀ c ∈ u', p c = true) →
    (∀ c r, s = c :: r → p c = false) → (∀ c r, s' = c :: r → p c = false) →
    u ++ s = u' ++ s' → u = u' ∧ s = s'
  | [], [], _, _, _, _, _, _, h => ⟨rfl, by simpa using h⟩
  | [], c :: t, s, s', _, hu', hs, _, h => by
      have h1 : s = c :: (t ++ s') := by simpa using h
      have := hs c _ h1
      have := hu' c (by simp)
      simp_all
  | c :: t, [], s, s', hu, _, _, hs', h => by
      have h1 : s' = c :: (t ++ s) := by simpa using h.symm
      have := hs' c _ h1
      have := hu c (by simp)
      simp_all
  | a :: t, c :: t', s, s', hu, hu', hs, hs', h => by
      have h1 : a = c ∧ t ++ s = t' ++ s' := by simpa using h
      obtain ⟨rfl, h2⟩ := h1
      have := tok_split (u := t) (u' := t') (fun c hc => hu c (by simp [hc])) (fun c hc => hu' c (by simp [hc])) hs hs' h2
      simp [this.1, this.2]

/-- the next character is `,` or `]` -/
def DelimHead (s : List Char) : Prop := ∃ r, s = ',' :: r ∨ s = ']' :: r

theorem delimHead_not_tok {s : List Char} (h : DelimHead s) : ∀ c r, s = c :: r → tokCh c = false := by
  intro c r hs
  obtain ⟨r', h | h⟩ := h <;> rw [h] at hs <;> injection hs with h1 _ <;> subst h1 <;> decide

/-- `f` is self-delimiting inside a JSON list, on the elements satisfying `S` -/
structure SD {α} (S : α → Prop) (f : α → List Char) : Prop where
  split : ∀ a b s t, S a → S b → f a ++ s = f b ++ t → DelimHead s → DelimHead t → a = b ∧ s = t
  head : ∀ a, S a → ∃ c r, f a = c :: r ∧ c ≠ ']'

/-- an injective renderer into non-empty delimiter-free tokens -/
structure Atomic {α} (S : α → Prop) (f : α → List Char) : Prop where
  inj : ∀ a b, S a → S b → f a = f b → a = b
  tok : ∀ a, S a → ∀ c ∈ f a, tokCh c = true
  ne : ∀ a, S a → f a ≠ []

theorem Atomic.sd {α} {S : α → Prop} {f : α → List Char} (h : Atomic S f) : SD S f where
  split a b s t ha hb e hs ht := by
    obtain ⟨h1, h2⟩ := tok_split (h.tok a ha) (h.tok b hb) (delimHead_not_tok hs) (delimHead_not_tok ht) e
    exact ⟨h.inj a b ha hb h1, h2⟩
  head a ha := by
    cases hfa : f a with
    | nil => exact absurd hfa (h.ne a ha)
    | cons c r =>
      refine ⟨c, r, rfl, ?_⟩
      intro hc
      have := h.tok a ha c (by simp [hfa])
      subst hc
      exact absurd this (by decide)

theorem renderElems_inj {α} {S : α → Prop} {f : α → List Char} (hf : SD S f) :
    ∀ (xs ys : List α) (s t : List Char), (∀ x ∈ xs, S x) → (∀ y ∈ ys, S y) →
      renderElems f xs ++ s = renderElems f ys ++ t → xs = ys ∧ s = t
  | [], [], s, t, _, _, h => by simpa [renderElems] using h
  | [], b :: ys, s, t, _, hy, h => by
      exfalso
      obtain ⟨c, r, hc, hne⟩ := hf.head b (hy b (by simp))
      cases ys with
      | nil =>
        have : ']' = c := by simpa [renderElems, hc] using congrArg List.head? h
        exact hne this.symm
      | cons b' ys =>
        have : ']' = c := by simpa [renderElems, hc] using congrArg List.head? h
        exact hne this.symm
  | a :: xs, [], s, t, hx, _, h => by
      exfalso
      obtain ⟨c, r, hc, hne⟩ := hf.head a (hx a (by simp))
      cases xs with
      | nil =>
        have : c = ']' := by simpa [renderElems, hc] using congrArg List.head? h
        exact hne this
      | cons a' xs =>
        have : c = ']' := by simpa [renderElems, hc] using congrArg List.head? h
        exact hne this
  | [a], [b], s, t, hx, hy, h => by
      simp only [renderElems, List.append_assoc, List.cons_append, List.nil_append] at h
      obtain ⟨rfl, h'⟩ := hf.split a b _ _ (hx a (by simp)) (hy b (by simp)) h ⟨_, Or.inr rfl⟩ ⟨_, Or.inr rfl⟩
      have : s = t := by simpa using h'
      simp [this]
  | [a], b :: b' :: ys, s, t, hx, hy, h => by
      simp only [renderElems, List.append_assoc, List.cons_append, List.nil_append] at h
      have := (hf.split a b _ _ (hx a (by simp)) (hy b (by simp)) h ⟨_, Or.inr rfl⟩ ⟨_, Or.inl rfl⟩).2
      simp at this
  | a :: a' :: xs, [b], s, t, hx, hy, h => by
      simp only [renderElems, List.append_assoc, List.cons_append, List.nil_append] at h
      have := (hf.split a b _ _ (hx a (by simp)) (hy b (by simp)) h ⟨_, Or.inl rfl⟩ ⟨_, Or.inr rfl⟩).2
      simp at this
  | a :: a' :: xs, b :: b' :: ys, s, t, hx, hy, h => by
      simp only [renderElems, List.append_assoc, List.cons_append] at h
      obtain ⟨rfl, h'⟩ := hf.split a b _ _ (hx a (by simp)) (hy b (by simp)) h ⟨_, Or.inl rfl⟩ ⟨_, Or.inl rfl⟩
      have h2 : renderElems f (a' :: xs) ++ s = renderElems f (b' :: ys) ++ t := by simpa using h'
      obtain ⟨h3, h4⟩ := renderElems_inj hf (a' :: xs) (b' :: ys) s t
        (fun x hx' => hx x (List.mem_cons_of_mem _ hx')) (fun y hy' => hy y (List.mem_cons_of_mem _ hy')) h2
      simp [h3, h4]

/-- `json.dumps(list)` is prefix-free: it can be cut off the front of any string in one way only -/
theorem renderList_inj {α} {S : α → Prop} {f : α → List Char} (hf : SD S f) (xs ys : List α) (s t : List Char)
    (hx : ∀ x ∈ xs, S x) (hy : ∀ y ∈ ys, S y)
    (h : renderList f xs ++ s = renderList f ys ++ t) : xs = ys ∧ s = t := by
  simp only [renderList, List.cons_append, List.cons.injEq, true_and] at h
  exact renderElems_inj hf xs ys s t hx hy h

/-- nested lists -/
theorem renderList_sd {α} {S : α → Prop} {f : α → List Char} (hf : SD S f) :
    SD (fun l : List α => ∀ x ∈ l, S x) (renderList f) where
  split a b s t ha hb e _ _ := renderList_inj hf a b s t ha hb e
  head a _ := ⟨'[', renderElems f a, rfl, by decide⟩

/-! ### integers -/

theorem digitChar_inj {a b : Nat} (ha : a < 10) (hb : b < 10) (h : digitChar a = digitChar b) : a = b := by
  have : ∀ a, a < 10 → ∀ b, b < 10 → digitChar a = digitChar b → a = b := by decide
  exact this a ha b hb h

theorem digitChar_isDigit {a : Nat} (ha : a < 10) : (digitChar a).isDigit = true := by
  have : ∀ a, a < 10 → (digitChar a).isDigit = true := by decide
  exact this a ha

theorem natDigitsRev_ne_nil (n : Nat) : natDigitsRev n ≠ [] := by
  unfold natDigitsRev; split <;> simp

theorem natDigitsRev_digits (n : Nat) : ∀ c ∈ natDigitsRev n, c.isDigit = true := by
  induction n using Nat.strongRecOn with
  | _ n ih =>
    unfold natDigitsRev
    split
    · intro c hc
      simp at hc; subst hc; exact digitChar_isDigit ‹_›
    · intro c hc
      simp at hc
      rcases hc with rfl | hc
      · exact digitChar_isDigit (Nat.mod_lt _ (by decide))
      · exact ih (n / 10) (by omega) c hc

theorem natDigitsRev_inj : ∀ n m : Nat, natDigitsRev n = natDigitsRev m → n = m := by
  intro n
  induction n using Nat.strongRecOn with
  | _ n ih =>
    intro m h
    rw [natDigitsRev.eq_1 n, natDigitsRev.eq_1 m] at h
    by_cases hn : n < 10 <;> by_cases hm : m < 10 <;> simp only [hn, hm, if_true, if_false] at h
    · have := (List.cons.inj h).1
      exact digitChar_inj hn hm this
    · have := (List.cons.inj h).2
      exact absurd this.symm (natDigitsRev_ne_nil _)
    · have := (List.cons.inj h).2
      exact absurd this (natDigitsRev_ne_nil _)
    · obtain ⟨h1, h2⟩ := List.cons.inj h
      have e1 := digitChar_inj (Nat.mod_lt _ (by decide)) (Nat.mod_lt _ (by decide)) h1
      have e2 := ih (n / 10) (by omega) (m / 10) h2
      omega

theorem showNat_inj {n m : Nat} (h : showNat n = showNat m) : n = m :=
  natDigitsRev_inj n m (List.reverse_inj.mp h)

theorem showNat_digits (n : Nat) : ∀ c ∈ showNat n, c.isDigit = true := by
  intro c hc
  exact natDigitsRev_digits n c (by simpa [showNat] using hc)

theorem showNat_ne_nil (n : Nat) : showNat n ≠ [] := by
  simp [showNat, natDigitsRev_ne_nil]

theorem isDigit_tokCh {c : Char} (h : c.isDigit = true) : tokCh c = true := by
  simp only [tokCh, Bool.not_eq_true', Bool.or_eq_false_iff, beq_eq_false_iff_ne, ne_eq]
  refine ⟨⟨?_, ?_⟩, ?_⟩ <;> (intro hc; subst hc; revert h; decide)

theorem isDigit_ne_minus {c : Char} (h : c.isDigit = true) : c ≠ '-' := by
  intro hc; subst hc; revert h; decide

theorem showInt_inj : ∀ a b : Int, showInt a = showInt b → a = b
  | .ofNat n, .ofNat m, h => by simp only [showInt] at h; rw [showNat_inj h]
  | .negSucc n, .negSucc m, h => by
      simp only [showInt, List.cons.injEq, true_and] at h
      have := showNat_inj h
      have : n = m := by omega
      rw [this]
  | .ofNat n, .negSucc m, h => by
      exfalso
      simp only [showInt] at h
      cases hs : showNat n with
      | nil => exact showNat_ne_nil n hs
      | cons c r =>
        rw [hs] at h
        have hc : c = '-' := (List.cons.inj h).1
        exact isDigit_ne_minus (showNat_digits n c (by simp [hs])) hc
  | .negSucc n, .ofNat m, h => by
      exfalso
      simp only [showInt] at h
      cases hs : showNat m with
      | nil => exact showNat_ne_nil m hs
      | cons c r =>
        rw [hs] at h
        have hc : '-' = c := (List.cons.inj h).1
        exact isDigit_ne_minus (showNat_digits m c (by simp [hs])) hc.symm

theorem showInt_tok (a : Int) : ∀ c ∈ showInt a, tokCh c = true := by
  cases a with
  | ofNat n => intro c hc; exact isDigit_tokCh (showNat_digits n c hc)
  | negSucc n =>
    intro c hc
    simp only [showInt, List.mem_cons] at hc
    rcases hc with rfl | hc
    · decide
    · exact isDigit_tokCh (showNat_digits _ c hc)

theorem showInt_ne_nil (a : Int) : showInt a ≠ [] := by
  cases a <;> simp [showInt, showNat_ne_nil]

theorem showInt_atomic : Atomic (fun _ : Int => True) showInt :=
  ⟨fun a b _ _ h => showInt_inj a b h, fun a _ => showInt_tok a, fun a _ => showInt_ne_nil a⟩

theorem showNat_atomic : Atomic (fun _ : Nat => True) showNat :=
  ⟨fun _ _ _ _ h => showNat_inj h, fun a _ c hc => isDigit_tokCh (showNat_digits a c hc), fun a _ => showNat_ne_nil a⟩

theorem showBool_atomic : Atomic (fun _ : Bool => True) showBool where
  inj a b _ _ h := by cases a <;> cases b <;> simp_all [showBool]
  tok a _ := by cases a <;> decide
  ne a _ := by cases a <;> simp [showBool]

/-- letter-only symbols (every element symbol of a validated molecule) -/
def Letters (s : List Char) : Prop := ∀ c ∈ s, c.isAlpha = true

instance (s : List Char) : Decidable (Letters s) := inferInstanceAs (Decidable (∀ c ∈ s, c.isAlpha = true))

theorem isAlpha_tokCh {c : Char} (h : c.isAlpha = true) : tokCh c = true := by
  simp only [tokCh, Bool.not_eq_true', Bool.or_eq_false_iff, beq_eq_false_iff_ne, ne_eq]
  refine ⟨⟨?_, ?_⟩, ?_⟩ <;> (intro hc; subst hc; revert h; decide)

theorem showStr_atomic : Atomic Letters showStr where
  inj a b _ _ h := by
    simp only [showStr, List.cons.injEq, true_and] at h
    exact List.append_cancel_right h
  tok a ha c hc := by
    simp only [showStr, List.mem_cons, List.mem_append, List.not_mem_nil, or_false] at hc
    rcases hc with rfl | hc | rfl
    · decide
    · exact isAlpha_tokCh (ha c hc)
    · decide
  ne a _ := by simp [showStr]

end QcelVerif.Hash
