import QcelVerif.Lemmas.ReconC06
/-!
Helper lemmas for `Props/C07Label.lean`: C06's backtracking NUCLEUS matcher (`Nucleus.allMatches`, greedy first, alternatives
in source order) on the tokens the xyz / psi4 writers print — byte level.

A written token is `[ghost opener] ++ sym ++ lbl ++ [ghost closer]` with `sym` 1-3 letters (`SymOkB`) and `lbl` a
grammar-conformant user label (`LblOkB`: empty, `_\w+` or `\d+`).  The FIRST complete match of the backtracking matcher is
computed alternative by alternative: no leading digit run (`A` absent), the letter run is exactly `sym` (greedy `[A-Z]{1,3}`,
the label starts with a non-letter), the user group is the whole label (greedy `\w+` / `\d+`, the closer is not a word
character), no `@mass`, and the closer `)` is demanded exactly when `Gh(` was taken.
-/
namespace QcelVerif.Nucleus
open QcelVerif QcelVerif.PStr

/-! ## greedy runs -/

theorem takeWhile_append_stop {α} (p : α → Bool) (a b : List α) (ha : ∀ x ∈ a, p x = true)
    (hb : ∀ x, b.head? = some x → p x = false) : (a ++ b).takeWhile p = a := by
  rw [List.takeWhile_append_of_pos ha]
  cases b with
  | nil => simp
  | cons x t => simp [List.takeWhile, hb x rfl]

/-- the longest alternative of a greedy `p{1,max}` comes first: the whole run -/
theorem runs_cons (p : Nat → Bool) (max : Nat) (a b : Bytes) (hne : a ≠ []) (ha : ∀ x ∈ a, p x = true)
    (hb : ∀ x, b.head? = some x → p x = false) (hmax : a.length ≤ max) :
    ∃ tl, runs p max (a ++ b) = (a, b) :: tl := by
  obtain ⟨k, hk⟩ : ∃ k, a.length = k + 1 := by
    cases a with
    | nil => exact absurd rfl hne
    | cons x t => exact ⟨t.length, rfl⟩
  have hmin : min a.length max = k + 1 := by omega
  have h1 : (a ++ b).take (k + 1) = a := by rw [← hk]; simp
  have h2 : (a ++ b).drop (k + 1) = b := by rw [← hk]; simp
  refine ⟨(List.range k).reverse.map fun j => ((a ++ b).take (j + 1), (a ++ b).drop (j + 1)), ?_⟩
  show (List.range (min ((a ++ b).takeWhile p).length max)).reverse.map
      (fun j => ((a ++ b).take (j + 1), (a ++ b).drop (j + 1))) = _
  rw [takeWhile_append_stop p a b ha hb, hmin, List.range_succ, List.reverse_append]
  simp only [List.reverse_cons, List.reverse_nil, List.nil_append, List.singleton_append, List.map_cons, h1, h2]

/-- a greedy `p{1,max}` has no alternative at all when the text does not start with a `p` character -/
theorem runs_nil (p : Nat → Bool) (max : Nat) (s : Bytes) (hs : ∀ x, s.head? = some x → p x = false) :
    runs p max s = [] := by
  have : s.takeWhile p = [] := by
    cases s with
    | nil => rfl
    | cons x t => simp [List.takeWhile, hs x rfl]
  unfold runs
  simp [this]

/-! ## the writers' token grammar on bytes -/

/-- element symbol as the writers print it: 1-3 ASCII letters -/
def SymOkB (s : Bytes) : Prop := s ≠ [] ∧ s.length ≤ 3 ∧ ∀ c ∈ s, isAlpha c = true

/-- grammar-conformant user label: empty, `_` followed by word characters, or digits -/
def LblOkB (l : Bytes) : Prop :=
  l = [] ∨ (∃ w, l = 95 :: w ∧ w ≠ [] ∧ ∀ c ∈ w, isWord c = true) ∨ (l ≠ [] ∧ ∀ c ∈ l, isDigit c = true)

/-- the `user1` group of a written token: absent for the empty label -/
def userOf (l : Bytes) : Option Bytes := if l = [] then none else some l

/-- what follows the label: `)` after `Gh(`, nothing otherwise -/
def closeOf (gh2 : Bool) : Bytes := if gh2 then [41] else []

theorem alpha_not_digit {c : Nat} (h : isAlpha c = true) : isDigit c = false := by
  simp only [isAlpha, isUpper, isLower, isDigit] at *; grind
theorem digit_not_alpha {c : Nat} (h : isDigit c = true) : isAlpha c = false := by
  simp only [isAlpha, isUpper, isLower, isDigit] at *; grind
theorem alpha_isWord {c : Nat} (h : isAlpha c = true) : isWord c = true := by simp [isWord, h]
theorem digit_isWord {c : Nat} (h : isDigit c = true) : isWord c = true := by simp [isWord, h]

theorem lbl_isWord {l : Bytes} (h : LblOkB l) : ∀ c ∈ l, isWord c = true := by
  rcases h with rfl | ⟨w, rfl, _, hw⟩ | ⟨_, hd⟩
  · simp
  · intro c hc
    rcases List.mem_cons.mp hc with rfl | hc
    · decide
    · exact hw c hc
  · intro c hc; exact digit_isWord (hd c hc)

/-- the head of `lbl ++ closer` is not a letter -/
theorem lbl_close_head_not_alpha {l : Bytes} (h : LblOkB l) (b : Bool) :
    ∀ x, (l ++ closeOf b).head? = some x → isAlpha x = false := by
  intro x hx
  rcases h with rfl | ⟨w, rfl, _, _⟩ | ⟨hne, hd⟩
  · cases b
    · simp [closeOf] at hx
    · simp [closeOf] at hx; subst hx; decide
  · simp at hx; subst hx; decide
  · cases l with
    | nil => exact absurd rfl hne
    | cons d t => simp at hx; subst hx; exact digit_not_alpha (hd _ (by simp))

theorem close_head_not_word (b : Bool) : ∀ x, (closeOf b).head? = some x → isWord x = false := by
  intro x hx
  cases b
  · simp [closeOf] at hx
  · simp [closeOf] at hx; subst hx; decide

theorem close_head_not_digit (b : Bool) : ∀ x, (closeOf b).head? = some x → isDigit x = false := by
  intro x hx
  cases b
  · simp [closeOf] at hx
  · simp [closeOf] at hx; subst hx; decide

/-! ## the user group -/

/-- `(?P<user1>(_\w+)|(\d+))?` on `lbl ++ closer`: the first alternative is the whole label (absent if empty) -/
theorem user_alts (l : Bytes) (hl : LblOkB l) (b : Bool) :
    ∃ tl, optG (userUnderscore (l ++ closeOf b) ++ runs isDigit (l ++ closeOf b).length (l ++ closeOf b)) (l ++ closeOf b)
      = (userOf l, closeOf b) :: tl := by
  rcases hl with rfl | ⟨w, rfl, hne, hw⟩ | ⟨hne, hd⟩
  · -- empty label: neither alternative starts, the optional group is skipped
    have h1 : userUnderscore (closeOf b) = [] := by cases b <;> rfl
    have h2 : runs isDigit (closeOf b).length (closeOf b) = [] := runs_nil _ _ _ (close_head_not_digit b)
    simp only [List.nil_append, h1, h2, optG, List.map_nil, userOf, if_true]
    exact ⟨[], rfl⟩
  · -- `_\w+`: greedy `\w+` takes the whole word run
    obtain ⟨tl, htl⟩ := runs_cons isWord (w ++ closeOf b).length w (closeOf b) hne hw (close_head_not_word b)
      (by simp)
    have hu : userUnderscore (95 :: (w ++ closeOf b)) = (95 :: w, closeOf b) :: tl.map fun x => (95 :: x.1, x.2) := by
      simp only [userUnderscore, htl, List.map_cons]
    have hne' : (95 :: w) ≠ [] := by simp
    rw [List.cons_append, hu]
    simp only [optG, userOf, if_neg hne', List.cons_append, List.map_cons]
    exact ⟨_, rfl⟩
  · -- `\d+`
    obtain ⟨d, t, rfl⟩ : ∃ d t, l = d :: t := by
      cases l with
      | nil => exact absurd rfl hne
      | cons d t => exact ⟨d, t, rfl⟩
    have hd0 : isDigit d = true := hd d (by simp)
    have h95 : d ≠ 95 := by
      intro h; subst h; revert hd0; decide
    have hu : userUnderscore (d :: t ++ closeOf b) = [] := by
      rw [List.cons_append]
      unfold userUnderscore
      split
      · rename_i heq; injection heq with h1 _; exact absurd h1 h95
      · rfl
    obtain ⟨tl, htl⟩ := runs_cons isDigit (d :: t ++ closeOf b).length (d :: t) (closeOf b) hne hd
      (close_head_not_digit b) (by simp)
    simp only [hu, htl, List.nil_append, optG, userOf, if_neg hne, List.map_cons]
    exact ⟨_, rfl⟩

/-! ## `label1` on a written core -/

/-- `(?P<A>\d+)?(?P<E>[A-Z]{1,3})(?P<user1>…)?` on `sym ++ lbl ++ closer`: first alternative = no `A`, `E = sym`, the whole
label as user group, the closer left over -/
theorem label1_alts (sym l : Bytes) (hs : SymOkB sym) (hl : LblOkB l) (b : Bool) :
    ∃ tl, label1Alts (sym ++ (l ++ closeOf b)) = (none, sym, userOf l, closeOf b) :: tl := by
  obtain ⟨hne, hlen, halpha⟩ := hs
  obtain ⟨d, t, rfl⟩ : ∃ d t, sym = d :: t := by
    cases sym with
    | nil => exact absurd rfl hne
    | cons d t => exact ⟨d, t, rfl⟩
  have hd : isDigit d = false := alpha_not_digit (halpha d (by simp))
  have hA : runs isDigit (d :: t ++ (l ++ closeOf b)).length (d :: t ++ (l ++ closeOf b)) = [] :=
    runs_nil _ _ _ (by intro x hx; simp at hx; subst hx; exact hd)
  obtain ⟨tlE, hE⟩ := runs_cons isAlpha 3 (d :: t) (l ++ closeOf b) hne halpha (lbl_close_head_not_alpha hl b) hlen
  obtain ⟨tlU, hU⟩ := user_alts l hl b
  unfold label1Alts
  rw [hA]
  simp only [optG, List.map_nil, List.nil_append, List.flatMap_cons, List.flatMap_nil, List.append_nil]
  rw [hE]
  simp only [List.flatMap_cons]
  have hU' := hU
  simp only [optG] at hU'
  rw [hU']
  simp only [List.map_cons, List.cons_append]
  exact ⟨_, rfl⟩

theorem massAlts_close (b : Bool) : massAlts (closeOf b) = [(none, closeOf b)] := by cases b <;> rfl

theorem closes_close (b : Bool) : closes b (closeOf b) = true := by cases b <;> rfl

/-- the expected capture groups -/
def writtenGroups (gh1 gh2 : Bool) (sym l : Bytes) : Groups :=
  { gh1 := gh1, gh2 := gh2, A := none, E := some sym, user1 := userOf l, Z := none, user2 := none, mass := none }

/-- whenever the first ghost alternative leaves a written core, the first complete match has the expected groups -/
theorem matchNucleus_of_ghost (s : Bytes) (gh1 gh2 : Bool) (tl : List (Bool × Bool × Bytes)) (sym l : Bytes)
    (hg : ghostAlts s = (gh1, gh2, sym ++ (l ++ closeOf gh2)) :: tl) (hs : SymOkB sym) (hl : LblOkB l) :
    matchNucleus s = some (writtenGroups gh1 gh2 sym l) := by
  obtain ⟨tl1, h1⟩ := label1_alts sym l hs hl gh2
  unfold matchNucleus allMatches
  rw [hg]
  simp only [List.flatMap_cons, h1, massAlts_close, List.filter_cons, closes_close, if_true, List.filter_nil,
    List.map_cons, List.map_nil, List.cons_append, List.nil_append, List.head?_cons, writtenGroups]

/-! ## the ghost opener -/

theorem ghostAlts_at (t : Bytes) : ∃ tl, ghostAlts (64 :: t) = (true, false, t) :: tl := by
  unfold ghostAlts
  exact ⟨_, rfl⟩

theorem ghostAlts_gh (t : Bytes) : ∃ tl, ghostAlts (71 :: 104 :: 40 :: t) = (false, true, t) :: tl := by
  unfold ghostAlts
  exact ⟨_, rfl⟩

/-- a token of word characters has no ghost opener -/
theorem ghostAlts_word (s : Bytes) (hw : ∀ c ∈ s, isWord c = true) : ghostAlts s = [(false, false, s)] := by
  have h64 : isWord 64 = false := by decide
  have h40 : isWord 40 = false := by decide
  unfold ghostAlts
  split
  · have := hw 64 (by simp)
    rw [h64] at this; cases this
  · split
    · have := hw 40 (by simp)
      rw [h40] at this; cases this
    · rfl

/-! ## (i) the three written token shapes -/

theorem sym_lbl_word {sym l : Bytes} (hs : SymOkB sym) (hl : LblOkB l) : ∀ c ∈ sym ++ l, isWord c = true := by
  intro c hc
  rcases List.mem_append.mp hc with hc | hc
  · exact alpha_isWord (hs.2.2 c hc)
  · exact lbl_isWord hl c hc

/-- `{elem}{elbl}` -/
theorem matchNucleus_real (sym l : Bytes) (hs : SymOkB sym) (hl : LblOkB l) :
    matchNucleus (sym ++ l) = some (writtenGroups false false sym l) := by
  have hg := ghostAlts_word (sym ++ l) (sym_lbl_word hs hl)
  apply matchNucleus_of_ghost (sym ++ l) false false [] sym l _ hs hl
  rw [hg]; simp [closeOf]

/-- `@{elem}{elbl}` (the xyz writer prints it without a label) -/
theorem matchNucleus_at (sym l : Bytes) (hs : SymOkB sym) (hl : LblOkB l) :
    matchNucleus (64 :: (sym ++ l)) = some (writtenGroups true false sym l) := by
  obtain ⟨tl, hg⟩ := ghostAlts_at (sym ++ l)
  apply matchNucleus_of_ghost _ true false tl sym l _ hs hl
  rw [hg]; simp [closeOf]

/-- `Gh({elem}{elbl})` -/
theorem matchNucleus_gh (sym l : Bytes) (hs : SymOkB sym) (hl : LblOkB l) :
    matchNucleus (71 :: 104 :: 40 :: (sym ++ (l ++ [41]))) = some (writtenGroups false true sym l) := by
  obtain ⟨tl, hg⟩ := ghostAlts_gh (sym ++ (l ++ [41]))
  apply matchNucleus_of_ghost _ false true tl sym l _ hs hl
  rw [hg]; simp [closeOf]

/-! ## (ii) a label that names an element symbol only  ≡  the symbol as `E` clue -/

/-- what the written tokens parse to: an element symbol, a ghost flag, a user tag — no `A`, no `Z`, no mass -/
def symLabel (e : Bytes) (real : Bool) (u : Option Bytes) : Label :=
  { A := none, Z := none, E := some e, mass := none, real := real, user := u }

/-- `reconcile_nucleus(label=tok, speclabel=True, nonphysical=np, mtol=mtol)` -/
def labelOnly (tok : Bytes) (np : Bool) (mtol : PyNum) : Input :=
  { A := none, Z := none, E := none, mass := none, real := none, label := some tok, speclabel := true,
    nonphysical := np, mtol := mtol }

/-- `reconcile_nucleus(E=e, speclabel=True, nonphysical=np, mtol=mtol)` -/
def symbolOnly (e : Bytes) (np : Bool) (mtol : PyNum) : Input :=
  { A := none, Z := none, E := some e, mass := none, real := none, label := none, speclabel := true,
    nonphysical := np, mtol := mtol }

theorem parseLabel_written (s : Bytes) (gh1 gh2 : Bool) (sym l : Bytes)
    (h : matchNucleus s = some (writtenGroups gh1 gh2 sym l)) :
    parseLabel s = some (symLabel sym (!(gh1 || gh2)) (userOf l)) := by
  unfold parseLabel
  rw [h]
  simp only [Option.map_some, writtenGroups, symLabel]
  cases userOf l <;> rfl

theorem firstPassing_real (b : Bool) :
    firstPassing (fun (p c : PyNum) => c.val == p.val) [PyNum.bool true, PyNum.bool b] [PyNum.bool b] = some (PyNum.bool b) := by
  cases b <;> decide

theorem firstPassing_user (u : Option Bytes) :
    firstPassing (fun (p c : Bytes) => c == p) ([] :: (optList u).map lower) ((optList u).map lower) = some (lower (u.getD [])) := by
  cases u with
  | none => rfl
  | some w =>
    simp only [optList, List.map_cons, List.map_nil, Option.getD_some, firstPassing, List.find?_cons, List.all_cons,
      List.all_nil, Bool.and_true, beq_self_eq_true]
    by_cases hw : lower w = []
    · simp [hw]
    · have : (([] : Bytes) == lower w) = false := by
        cases hlw : lower w with
        | nil => exact absurd hlw hw
        | cons _ _ => rfl
      simp [this]

theorem zStage_symbolOnly (N : NTables) (rd : Rat → Rat) (rng) (e : Bytes) (np : Bool) (mtol : PyNum) (x : ZOffer)
    (hx : offerE N rd rng np e = .ok x) : zStage N rd rng (symbolOnly e np mtol) = .ok ([x], none) := by
  simp [zStage, symbolOnly, labelOf, optList, hx, bind, Except.bind, pure, Except.pure]

theorem zStage_labelOnly (N : NTables) (rd : Rat → Rat) (rng) (tok e : Bytes) (b : Bool) (u : Option Bytes) (np : Bool)
    (mtol : PyNum) (x : ZOffer) (hp : parseLabel tok = some (symLabel e b u))
    (hx : offerE N rd rng np e = .ok x) : zStage N rd rng (labelOnly tok np mtol) = .ok ([x], some (symLabel e b u)) := by
  simp [zStage, labelOnly, labelOf, hp, ofOpt, Except.map, symLabel, optList, hx, bind, Except.bind, pure, Except.pure]

/-- **Label-only clue ≡ symbol clue.**  For ANY table, rounding function and range table: if the label parses to an element
symbol `e` with ghost flag and user tag only (no `A`, `Z`, mass), then whenever `reconcile_nucleus(E=e)` succeeds — under any
`mtol'`: without an isotope clue the tolerance is never consulted — `reconcile_nucleus(label=tok, speclabel=True)` succeeds with
the same `(A, Z, E, mass)`, the label's real/ghost flag and the lower-cased user tag. -/
theorem label_only_of_symbol_only (N : NTables) (rd : Rat → Rat) (rng : Nat → Option Range) (tok e : Bytes) (b : Bool)
    (u : Option Bytes) (np : Bool) (mtol mtol' : PyNum) (o : Output)
    (hp : parseLabel tok = some (symLabel e b u))
    (h : reconcileWith N rd rng (symbolOnly e np mtol') = .ok o) :
    reconcileWith N rd rng (labelOnly tok np mtol) = .ok { o with real := .bool b, user := lower (u.getD []) } := by
  obtain ⟨zo, lab, clues, late, hz, hzf, hE, hc, hlate, hm, ha, _, _⟩ := reconcileWith_ok h
  obtain ⟨x, hx⟩ : ∃ x, offerE N rd rng np e = .ok x := by
    obtain ⟨o1, o2, o3, o4, _, h2, _, _, _, _⟩ := zStage_ok hz
    rcases mapM_optList_ok h2 with ⟨hn, _⟩ | ⟨a, x, ha', hx, _⟩
    · cases hn
    · simp only [symbolOnly, Option.some.injEq] at ha'
      subst ha'
      exact ⟨x, hx⟩
  rw [zStage_symbolOnly N rd rng e np mtol' x hx] at hz
  simp only [Except.ok.injEq, Prod.mk.injEq] at hz
  obtain ⟨rfl, rfl⟩ := hz
  have hcl : clues = [] := by
    simp [cluesOf, symbolOnly, optList, bind, Except.bind, pure, Except.pure] at hc
    exact hc
  subst hcl
  have hl : late = [] := by
    simp [pure, Except.pure] at hlate
    exact hlate
  subst hl
  simp only [List.map_cons, List.map_nil, List.append_nil] at hzf hm ha
  have c2 : cluesOf rd (labelOnly tok np mtol) (some (symLabel e b u)) = .ok [] := by
    simp [cluesOf, labelOnly, symLabel, optList, bind, Except.bind, pure, Except.pure]
  have r2 : realClues (labelOnly tok np mtol) (some (symLabel e b u)) = [PyNum.bool b] := by
    simp [realClues, labelOnly, symLabel, optList]
  have u2 : userClues (labelOnly tok np mtol) (some (symLabel e b u)) = (optList u).map lower := by
    simp [userClues, labelOnly, symLabel]
  unfold reconcileWith
  rw [zStage_labelOnly N rd rng tok e b u np mtol x hp hx]
  simp only [bind, Except.bind, List.map_cons, List.map_nil, hzf, ofOpt, hE, c2, List.mapM_nil, pure, Except.pure,
    List.append_nil, hm, ha, r2, u2, firstPassing_real, firstPassing_user]

end QcelVerif.Nucleus
