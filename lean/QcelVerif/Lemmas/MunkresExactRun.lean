import QcelVerif.Lemmas.MunkresExact
import QcelVerif.Props.C14Inv
/-!
C14 — exactness of the work dtype, assembled over the whole run.

* `EInv` — the step invariant of `Lemmas/MunkresInv2` plus "the working matrix is on the grid and
  `≤ 2K`"; `doStep_einv`: every step preserves it; `doStepF_eq`: under it the rounded step is the
  exact step; `runStepsF_eq`, `solveWideF_eq`, `solveFloat_eq`: hence the whole rounded run is the
  exact run (same trace, same answer, same error if any) — for any fuel, termination not needed.
* `Reach` — the states the state machine visits from a start state, `reach_einv`: all of them satisfy
  `EInv`; `Input.Visits`: the states visited by the run of `solve inp` (in the wide orientation);
  `trace_visited`: every state recorded in the answer's trace is one of them.
* `pot_exact` — potentials read off row 0 / column 0 of `cost − C` are on the grid and bounded.
-/
namespace QcelVerif.Munkres
open QcelVerif.Assign

/-- the invariant handed to the next step `nx` (or to the read-out, `nx = none`), plus the grid/box
clause on the working matrix once `_step1` has run -/
def EInv (g lo hi : Rat) (n m : Nat) (cost : Nat → Nat → Rat) (nx : Option Step) (s : State) : Prop :=
  Post n m cost nx s ∧ (nx ≠ some .s1 → GB g (2 * (hi - lo)) n m s.C)

theorem GB.mono {g B B' : Rat} {n m : Nat} {C : Mat Rat} (h : GB g B n m C)
    (hB : ∀ i, i < n → ∀ j, j < m → B ≤ B') : GB g B' n m C := by
  intro i hi j hj
  exact ⟨(h i hi j hj).1, le_trans (h i hi j hj).2 (hB i hi j hj)⟩

theorem CostBox.spread_nonneg {g lo hi : Rat} {n m : Nat} {cost : Nat → Nat → Rat}
    (hb : CostBox g lo hi n m cost) {i j : Nat} (hi' : i < n) (hj : j < m) : 0 ≤ hi - lo := by
  have a := hb.lo_le i hi' j hj
  have b := hb.le_hi i hi' j hj
  linarith

/-- **one step preserves the extended invariant** -/
theorem doStep_einv {g lo hi : Rat} {n m : Nat} {cost : Nat → Nat → Rat} (hb : CostBox g lo hi n m cost)
    {st : Step} {s s' : State} {nx : Option Step} (hrun : doStep st s = .ok (s', nx))
    (h : EInv g lo hi n m cost (some st) s) : EInv g lo hi n m cost nx s' := by
  refine ⟨doStep_inv hrun h.1, fun _ => ?_⟩
  cases st <;> simp only [doStep, Except.ok.injEq] at hrun
  · have e1 : s' = (step1 s).1 := by rw [hrun]
    rw [e1]
    exact (step1_GB h.1 hb).mono (fun i hi' j hj => by
      have := hb.spread_nonneg hi' hj
      linarith)
  · have e1 : s' = (step3 s).1 := by rw [hrun]
    rw [e1, (step3_state s).2.1]
    exact h.2 (by simp)
  · rw [step4_C s s' nx hrun]
    exact h.2 (by simp)
  · rw [step5_C s s' nx hrun]
    exact h.2 (by simp)
  · have e1 : s' = (step6 s).1 := by rw [hrun]
    rw [e1]
    exact step6_GB h.1 hb (h.2 (by simp))

/-- **under the extended invariant the rounded step is the exact step** -/
theorem doStepF_eq {g lo hi : Rat} {n m : Nat} {cost : Nat → Nat → Rat} (hb : CostBox g lo hi n m cost)
    (rnd : Rat → Rat) (hrnd : ∀ x, OnGrid g x → 0 ≤ x → x ≤ 4 * (hi - lo) → rnd x = x)
    {st : Step} {s : State} (h : EInv g lo hi n m cost (some st) s) : doStepF rnd st s = doStep st s := by
  cases st <;> simp only [doStepF, doStep]
  · rw [step1F_eq rnd h.1 hb (fun x hx h0 hK => hrnd x hx h0 (by linarith))]
  · rw [step6F_eq rnd h.1 hb (h.2 (by simp)) hrnd]

/-- **the rounded run is the exact run**, for any fuel (termination is not needed) -/
theorem runStepsF_eq {g lo hi : Rat} {n m : Nat} {cost : Nat → Nat → Rat} (hb : CostBox g lo hi n m cost)
    (rnd : Rat → Rat) (hrnd : ∀ x, OnGrid g x → 0 ≤ x → x ≤ 4 * (hi - lo) → rnd x = x) :
    ∀ (f : Nat) (st : Step) (s : State) (tr : Array (Step × State)),
      EInv g lo hi n m cost (some st) s → runStepsF rnd f st s tr = runSteps f st s tr
  | 0, _, _, _, _ => rfl
  | f + 1, st, s, tr, h => by
    unfold runStepsF runSteps
    rw [doStepF_eq hb rnd hrnd h]
    cases hd : doStep st s with
    | error e => rfl
    | ok r =>
      obtain ⟨s', nx⟩ := r
      cases nx with
      | none => rfl
      | some st' => exact runStepsF_eq hb rnd hrnd f st' s' _ (doStep_einv hb hd h)

theorem initState_einv {g lo hi : Rat} (n m : Nat) (costM : Mat Rat) (cost : Nat → Nat → Rat)
    (hsz : costM.size = n) (hrow : ∀ i, i < n → (costM.getD i #[]).size = m)
    (hc : ∀ i, i < n → ∀ j, j < m → get2 costM i j = cost i j) :
    EInv g lo hi n m cost (some .s1) (initState n m costM) :=
  ⟨initState_inv1 n m costM cost hsz hrow hc, fun h => absurd rfl h⟩

theorem solveWideF_eq {g lo hi : Rat} {n m : Nat} {cost : Nat → Nat → Rat} (hb : CostBox g lo hi n m cost)
    (rnd : Rat → Rat) (hrnd : ∀ x, OnGrid g x → 0 ≤ x → x ≤ 4 * (hi - lo) → rnd x = x)
    (costM : Mat Rat) (hsz : costM.size = n) (hrow : ∀ i, i < n → (costM.getD i #[]).size = m)
    (hc : ∀ i, i < n → ∀ j, j < m → get2 costM i j = cost i j) :
    solveWideF rnd n m costM = solveWide n m costM := by
  unfold solveWideF solveWide
  simp only
  split
  · rfl
  · exact runStepsF_eq hb rnd hrnd _ _ _ _ (initState_einv n m costM cost hsz hrow hc)

/-- the cost box of the transposed problem -/
theorem CostBox.tr {g lo hi : Rat} {n m : Nat} {cost : Nat → Nat → Rat} (hb : CostBox g lo hi n m cost) :
    CostBox g lo hi m n (Assign.tr cost) :=
  ⟨fun j hj i hi' => hb.grid i hi' j hj, fun j hj i hi' => hb.lo_le i hi' j hj,
   fun j hj i hi' => hb.le_hi i hi' j hj⟩

theorem Input.costM_size (inp : Input) (hw : inp.WellShaped) :
    (inp.ent.map fun r => r.map Entry.val).size = inp.n := by simpa using hw.1

theorem Input.costM_row (inp : Input) (hw : inp.WellShaped) :
    ∀ i, i < inp.n → ((inp.ent.map fun r => r.map Entry.val).getD i #[]).size = inp.m := by
  intro i hi
  have := hw.2 i hi
  have hi' : i < inp.ent.size := by rw [hw.1]; exact hi
  simp [Array.getD, hi'] at this ⊢
  exact this

/-- **`solveFloat rnd = solve`** whenever the cost entries lie on a grid `g·ℤ` inside `[lo, hi]` and
`rnd` is the identity on the grid values in `[0, 4·(hi − lo)]` -/
theorem solveFloat_eq {g lo hi : Rat} (inp : Input) (hw : inp.WellShaped)
    (hb : CostBox g lo hi inp.n inp.m inp.costFn)
    (rnd : Rat → Rat) (hrnd : ∀ x, OnGrid g x → 0 ≤ x → x ≤ 4 * (hi - lo) → rnd x = x) :
    solveFloat rnd inp = solve inp := by
  unfold solveFloat solve
  simp only
  have e1 : solveWideF rnd inp.n inp.m (inp.ent.map fun r => r.map Entry.val)
      = solveWide inp.n inp.m (inp.ent.map fun r => r.map Entry.val) :=
    solveWideF_eq hb rnd hrnd _ (inp.costM_size hw) (inp.costM_row hw) (fun i _ j _ => get2_cost inp i j)
  have e2 : solveWideF rnd inp.m inp.n (transpose inp.n inp.m (inp.ent.map fun r => r.map Entry.val))
      = solveWide inp.m inp.n (transpose inp.n inp.m (inp.ent.map fun r => r.map Entry.val)) :=
    solveWideF_eq hb.tr rnd hrnd _ (transpose_size _ _ _) (fun j hj => transpose_row_size _ _ _ j hj)
      (fun i hi' j hj => by rw [get2_transpose inp.n inp.m _ j i hj hi', get2_cost]; rfl)
  rw [e1, e2]
  rfl

/-! ### the states the run visits -/

/-- the states the state machine visits from `(st0, s0)`, each with the step it hands over to
(`none`: the read-out) -/
inductive Reach (st0 : Step) (s0 : State) : Option Step → State → Prop
  | start : Reach st0 s0 (some st0) s0
  | step {st : Step} {s s' : State} {nx : Option Step} :
      Reach st0 s0 (some st) s → doStep st s = .ok (s', nx) → Reach st0 s0 nx s'

theorem reach_einv {g lo hi : Rat} {n m : Nat} {cost : Nat → Nat → Rat} (hb : CostBox g lo hi n m cost)
    {st0 : Step} {s0 : State} (h0 : EInv g lo hi n m cost (some st0) s0) {nx : Option Step} {s : State}
    (hr : Reach st0 s0 nx s) : EInv g lo hi n m cost nx s := by
  induction hr with
  | start => exact h0
  | step _ hd ih => exact doStep_einv hb hd ih

/-- every state a run records in its trace was visited -/
theorem runSteps_trace_reach {st0 : Step} {s0 : State} : ∀ (f : Nat) (st : Step) (s : State)
    (tr : Array (Step × State)) (s' : State) (tr' : Array (Step × State)),
    runSteps f st s tr = .ok (s', tr') → Reach st0 s0 (some st) s →
    (∀ p ∈ tr, ∃ nx, Reach st0 s0 nx p.2) →
    (∀ p ∈ tr', ∃ nx, Reach st0 s0 nx p.2) ∧ Reach st0 s0 none s'
  | 0, _, _, _, _, _, h, _, _ => by simp [runSteps] at h
  | f + 1, st, s, tr, s', tr', h, hr, htr => by
    unfold runSteps at h
    split at h
    · simp at h
    · rename_i s1 nx hd
      have hr1 := Reach.step hr hd
      have htr1 : ∀ p ∈ tr.push (st, s1), ∃ nx, Reach st0 s0 nx p.2 := by
        intro p hp
        rcases Array.mem_push.1 hp with hp | rfl
        · exact htr p hp
        · exact ⟨nx, hr1⟩
      simp only at h
      split at h
      · simp only [Except.ok.injEq, Prod.mk.injEq] at h
        rw [← h.1, ← h.2]
        exact ⟨htr1, hr1⟩
      · exact runSteps_trace_reach f _ _ _ _ _ h hr1 htr1

/-- the problem `solve` hands to `_Hungary`: the wide orientation (lines 106-111) -/
def Input.wideN (inp : Input) : Nat := if inp.m < inp.n then inp.m else inp.n
def Input.wideM (inp : Input) : Nat := if inp.m < inp.n then inp.n else inp.m
def Input.wideCost (inp : Input) : Nat → Nat → Rat := if inp.m < inp.n then Assign.tr inp.costFn else inp.costFn
def Input.wideMat (inp : Input) : Mat Rat :=
  if inp.m < inp.n then transpose inp.n inp.m (inp.ent.map fun r => r.map Entry.val)
  else inp.ent.map fun r => r.map Entry.val

/-- `_Hungary(cost_matrix)` of the run of `solve inp` -/
def Input.start (inp : Input) : State := initState inp.wideN inp.wideM inp.wideMat

/-- `(nx, s)` is a state of the run of `solve inp`: reached from the fresh `_Hungary` state by the
state machine, about to execute step `nx` (`none`: finished) -/
def Input.Visits (inp : Input) (nx : Option Step) (s : State) : Prop := Reach .s1 inp.start nx s

theorem Input.wide_box {g lo hi : Rat} (inp : Input) (hb : CostBox g lo hi inp.n inp.m inp.costFn) :
    CostBox g lo hi inp.wideN inp.wideM inp.wideCost := by
  unfold Input.wideN Input.wideM Input.wideCost
  split
  · exact hb.tr
  · exact hb

theorem Input.start_einv {g lo hi : Rat} (inp : Input) (hw : inp.WellShaped) :
    EInv g lo hi inp.wideN inp.wideM inp.wideCost (some .s1) inp.start := by
  unfold Input.start Input.wideN Input.wideM Input.wideCost Input.wideMat
  split
  · exact initState_einv _ _ _ _ (transpose_size _ _ _) (fun j hj => transpose_row_size _ _ _ j hj)
      (fun i hi' j hj => by rw [get2_transpose inp.n inp.m _ j i hj hi', get2_cost]; rfl)
  · exact initState_einv _ _ _ _ (inp.costM_size hw) (inp.costM_row hw) (fun i _ j _ => get2_cost inp i j)

/-- every visited state satisfies the extended invariant -/
theorem Input.visits_einv {g lo hi : Rat} (inp : Input) (hw : inp.WellShaped)
    (hb : CostBox g lo hi inp.n inp.m inp.costFn) {nx : Option Step} {s : State} (hv : inp.Visits nx s) :
    EInv g lo hi inp.wideN inp.wideM inp.wideCost nx s :=
  reach_einv (inp.wide_box hb) (inp.start_einv hw) hv

theorem solveWide_trace_reach (n m : Nat) (costM : Mat Rat) (s : State) (tr : Array (Step × State))
    (h : solveWide n m costM = .ok (s, tr)) :
    ∀ p ∈ tr, ∃ nx, Reach .s1 (initState n m costM) nx p.2 := by
  unfold solveWide at h
  simp only at h
  split at h
  · simp only [Except.ok.injEq, Prod.mk.injEq] at h
    rw [← h.2]
    intro p hp
    simp at hp
  · exact (runSteps_trace_reach _ _ _ _ _ _ h Reach.start (by intro p hp; simp at hp)).1

/-- **every state in the trace of an answer of `solve` is a visited state** -/
theorem trace_visited (inp : Input) (o : Output) (h : solve inp = .ok o) :
    ∀ p ∈ o.trace, ∃ nx, inp.Visits nx p.2 := by
  unfold solve at h
  split at h
  · simp at h
  split at h
  · simp at h
  split at h
  · simp at h
  simp only at h
  unfold Input.Visits Input.start Input.wideN Input.wideM Input.wideMat
  split at h
  · rename_i hlt
    split at h
    · simp at h
    · rename_i s trc hs
      simp only [Except.ok.injEq] at h
      subst h
      simp only [if_pos hlt]
      exact solveWide_trace_reach _ _ _ _ _ hs
  · rename_i hge
    split at h
    · simp at h
    · rename_i s trc hs
      simp only [Except.ok.injEq] at h
      subst h
      simp only [if_neg hge]
      exact solveWide_trace_reach _ _ _ _ _ hs

/-! ### potentials -/

/-- potentials of a working matrix with constant cross differences, read off row 0 and column 0 of
`cost − C`: they are on the grid, and bounded once `C` and `cost` are -/
theorem pot_exact {g lo hi B : Rat} {n m : Nat} {cost : Nat → Nat → Rat} {s : State}
    (hbase : Base n m cost s) (hb : CostBox g lo hi n m cost) (hg : GB g B n m s.C) (hn : 0 < n) (hm : 0 < m) :
    ∃ u v : Nat → Rat,
      (∀ i, i < n → ∀ j, j < m → get2 s.C i j = cost i j - u i - v j)
      ∧ (∀ i, i < n → OnGrid g (u i) ∧ lo - B ≤ u i ∧ u i ≤ hi)
      ∧ (∀ j, j < m → OnGrid g (v j) ∧ lo - B - hi ≤ v j ∧ v j ≤ hi - (lo - B)) := by
  refine ⟨fun i => cost i 0 - get2 s.C i 0,
    fun j => (cost 0 j - get2 s.C 0 j) - (cost 0 0 - get2 s.C 0 0), ?_, ?_, ?_⟩
  · intro i hi' j hj
    have h1 := pot_cross hbase.pot hi' hn hj hm
    have h2 := pot_cross hbase.pot hn hn hm hm
    simp only
    linarith
  · intro i hi'
    have a := hbase.nonneg i hi' 0 hm
    have b := (hg i hi' 0 hm)
    have c1 := hb.lo_le i hi' 0 hm
    have c2 := hb.le_hi i hi' 0 hm
    refine ⟨(hb.grid i hi' 0 hm).sub b.1, ?_, ?_⟩ <;> simp only <;> linarith [b.2]
  · intro j hj
    have a := hbase.nonneg 0 hn j hj
    have b := (hg 0 hn j hj)
    have a0 := hbase.nonneg 0 hn 0 hm
    have b0 := (hg 0 hn 0 hm)
    have c1 := hb.lo_le 0 hn j hj
    have c2 := hb.le_hi 0 hn j hj
    have d1 := hb.lo_le 0 hn 0 hm
    have d2 := hb.le_hi 0 hn 0 hm
    refine ⟨((hb.grid 0 hn j hj).sub b.1).sub ((hb.grid 0 hn 0 hm).sub b0.1), ?_, ?_⟩ <;> simp only <;>
      linarith [b.2, b0.2]

/-- the base invariant is part of every post-condition except the fresh state's -/
theorem Post.toBase {n m : Nat} {cost : Nat → Nat → Rat} {nx : Option Step} {s : State}
    (h : Post n m cost nx s) (hne : nx ≠ some .s1) : Base n m cost s := by
  cases nx with
  | none => exact Final.base h
  | some st =>
    cases st with
    | s1 => exact absurd rfl hne
    | s3 => exact Inv3.base h
    | s4 => exact Loop.base h
    | s5 => exact Inv5.base h
    | s6 => exact Loop.base h

end QcelVerif.Munkres
