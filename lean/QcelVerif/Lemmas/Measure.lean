import QcelVerif.Model.Measure
import Mathlib.LinearAlgebra.Matrix.NonsingularInverse
import Mathlib.LinearAlgebra.Matrix.Notation
import Mathlib.Tactic.Ring
import Mathlib.Tactic.LinearCombination
import Mathlib.Tactic.FieldSimp
import Mathlib.Tactic.Linarith
import Mathlib.Tactic.FinCases
/-!
Helper lemmas for C18 (nothing here is a property statement):
component lemmas, bilinearity, `R Rᵀ = I → Rᵀ R = I` (through Mathlib matrices),
preservation of dot / triple products by orthogonal maps, the general closed form of the
coded dihedral `(x, y)`, membership characterisation of the bond list.
-/
set_option linter.unusedSectionVars false
namespace QcelVerif.Measure
open V3

section ring
variable {K : Type} [CommRing K]

/-! ### components -/
@[simp] theorem V3.add_x (a b : V3 K) : (a + b).x = a.x + b.x := rfl
@[simp] theorem V3.add_y (a b : V3 K) : (a + b).y = a.y + b.y := rfl
@[simp] theorem V3.add_z (a b : V3 K) : (a + b).z = a.z + b.z := rfl
@[simp] theorem V3.sub_x (a b : V3 K) : (a - b).x = a.x - b.x := rfl
@[simp] theorem V3.sub_y (a b : V3 K) : (a - b).y = a.y - b.y := rfl
@[simp] theorem V3.sub_z (a b : V3 K) : (a - b).z = a.z - b.z := rfl
@[simp] theorem V3.neg_x (a : V3 K) : (-a).x = -a.x := rfl
@[simp] theorem V3.neg_y (a : V3 K) : (-a).y = -a.y := rfl
@[simp] theorem V3.neg_z (a : V3 K) : (-a).z = -a.z := rfl
@[simp] theorem V3.smul_x (c : K) (a : V3 K) : (c • a).x = c * a.x := rfl
@[simp] theorem V3.smul_y (c : K) (a : V3 K) : (c • a).y = c * a.y := rfl
@[simp] theorem V3.smul_z (c : K) (a : V3 K) : (c • a).z = c * a.z := rfl

/-- unfold every vector operation to components -/
macro "v3_unfold" : tactic =>
  `(tactic| simp only [V3.dot, V3.cross, V3.nsq, M3.mulVec, M3.det, M3.row1, M3.row2, M3.row3,
      Motion.apply, distSq, V3.add_x, V3.add_y, V3.add_z, V3.sub_x, V3.sub_y, V3.sub_z,
      V3.neg_x, V3.neg_y, V3.neg_z, V3.smul_x, V3.smul_y, V3.smul_z])

theorem mulVec_sub (R : M3 K) (a b : V3 K) : R.mulVec (a - b) = R.mulVec a - R.mulVec b := by
  ext <;> v3_unfold <;> ring

theorem mulVec_smul (R : M3 K) (c : K) (a : V3 K) : R.mulVec (c • a) = c • R.mulVec a := by
  ext <;> v3_unfold <;> ring

theorem apply_sub (T : Motion K) (p q : V3 K) : T.apply p - T.apply q = T.R.mulVec (p - q) := by
  ext <;> v3_unfold <;> ring

theorem dot_comm (a b : V3 K) : dot a b = dot b a := by v3_unfold; ring

theorem distSq_comm (p q : V3 K) : distSq p q = distSq q p := by v3_unfold; ring

/-- Lagrange's identity: `|a|²|b|² − (a·b)² = |a×b|²` -/
theorem lagrange (a b : V3 K) : nsq a * nsq b - dot a b * dot a b = nsq (cross a b) := by
  v3_unfold; ring

/-- the triple product picks up `det R` under ANY linear map -/
theorem triple_mulVec (R : M3 K) (a b c : V3 K) :
    dot (cross (R.mulVec a) (R.mulVec b)) (R.mulVec c) = R.det * dot (cross a b) c := by
  v3_unfold; ring

/-! ### `R Rᵀ = I → Rᵀ R = I` -/
def toMat (R : M3 K) : Matrix (Fin 3) (Fin 3) K :=
  !![R.a11, R.a12, R.a13; R.a21, R.a22, R.a23; R.a31, R.a32, R.a33]

theorem toMat_mul (A B : M3 K) : toMat (A.mul B) = toMat A * toMat B := by
  ext i j
  fin_cases i <;> fin_cases j <;>
    simp [toMat, M3.mul, Matrix.mul_apply, Fin.sum_univ_three]

theorem toMat_one : toMat (M3.one : M3 K) = 1 := by
  ext i j
  fin_cases i <;> fin_cases j <;> simp [toMat, M3.one]

omit [CommRing K] in
theorem toMat_inj' {K : Type} {A B : M3 K}
    (e : ∀ i j, (!![A.a11, A.a12, A.a13; A.a21, A.a22, A.a23; A.a31, A.a32, A.a33] :
      Matrix (Fin 3) (Fin 3) K) i j
      = (!![B.a11, B.a12, B.a13; B.a21, B.a22, B.a23; B.a31, B.a32, B.a33] :
      Matrix (Fin 3) (Fin 3) K) i j) : A = B := by
  ext
  · simpa using e 0 0
  · simpa using e 0 1
  · simpa using e 0 2
  · simpa using e 1 0
  · simpa using e 1 1
  · simpa using e 1 2
  · simpa using e 2 0
  · simpa using e 2 1
  · simpa using e 2 2

omit [CommRing K] in
theorem toMat_inj {A B : M3 K} (h : toMat A = toMat B) : A = B :=
  toMat_inj' (fun i j => congrFun (congrFun h i) j)

theorem orth_cols {R : M3 K} (h : R.IsOrthogonal) : R.transpose.mul R = M3.one := by
  apply toMat_inj
  rw [toMat_mul, toMat_one]
  have := congrArg toMat h
  rw [toMat_mul, toMat_one] at this
  exact mul_eq_one_comm.mp this

/-- orthogonal maps preserve the dot product -/
theorem dot_mulVec {R : M3 K} (h : R.IsOrthogonal) (a b : V3 K) :
    dot (R.mulVec a) (R.mulVec b) = dot a b := by
  have hc := M3.ext_iff.mp (orth_cols h)
  simp only [M3.mul, M3.transpose, M3.one] at hc
  obtain ⟨h11, h12, h13, h21, h22, h23, h31, h32, h33⟩ := hc
  v3_unfold
  linear_combination (a.x * b.x) * h11 + (a.x * b.y) * h12 + (a.x * b.z) * h13
    + (a.y * b.x) * h21 + (a.y * b.y) * h22 + (a.y * b.z) * h23
    + (a.z * b.x) * h31 + (a.z * b.y) * h32 + (a.z * b.z) * h33

theorem distSq_motion {T : Motion K} (h : T.R.IsOrthogonal) (p q : V3 K) :
    distSq (T.apply p) (T.apply q) = distSq p q := by
  unfold distSq nsq
  rw [apply_sub, dot_mulVec h]

/-! ### dihedral arguments: ring identities -/

theorem dihedralArgs_reversal (p1 p2 p3 p4 : V3 K) :
    dihedralArgs p4 p3 p2 p1 = dihedralArgs p1 p2 p3 p4 := by
  unfold dihedralArgs
  refine Prod.ext ?_ (Prod.ext ?_ ?_) <;> v3_unfold <;> ring

/-- `(XN, Y)` are the IUPAC numerators `((b1×b2)·(b2×b3), b1·(b2×b3))` -/
theorem dihedralArgs_textbook (p1 p2 p3 p4 : V3 K) :
    (dihedralArgs p1 p2 p3 p4).1 = dot (cross (p2 - p1) (p3 - p2)) (cross (p3 - p2) (p4 - p3)) ∧
    (dihedralArgs p1 p2 p3 p4).2.1 = dot (p2 - p1) (cross (p3 - p2) (p4 - p3)) ∧
    (dihedralArgs p1 p2 p3 p4).2.2 = nsq (p3 - p2) := by
  unfold dihedralArgs
  refine ⟨?_, ?_, ?_⟩ <;> v3_unfold <;> ring

end ring

section field
variable {K : Type} [Field K]

/-- closed form of the coded recipe with ANY multiple `c` of `v̂2` removed from `v1` and ANY
non-zero `n` (no hypothesis `n² = N` yet): the only trace of `c` is multiplied by `N − n²`. -/
theorem dihedralXYGen_formula (c n : K) (hn : n ≠ 0) (p1 p2 p3 p4 : V3 K) :
    dihedralXYGen c n p1 p2 p3 p4 =
      (((n * n) * dot ((-1 : K) • (p2 - p1)) (p4 - p3)
          - dot (p4 - p3) (p3 - p2) * dot ((-1 : K) • (p2 - p1)) (p3 - p2)) / (n * n)
        + c * dot (p4 - p3) (p3 - p2) * (nsq (p3 - p2) - n * n) / (n * n * n),
       dot (cross (p3 - p2) ((-1 : K) • (p2 - p1))) (p4 - p3) / n) := by
  unfold dihedralXYGen
  refine Prod.ext ?_ ?_
  · v3_unfold
    field_simp
    ring
  · v3_unfold
    field_simp
    ring

theorem dihedralXY_eq_gen (n : K) (p1 p2 p3 p4 : V3 K) :
    dihedralXY n p1 p2 p3 p4
      = dihedralXYGen (dot ((-1 : K) • (p2 - p1)) ((-1 : K) • (p2 - p1))) n p1 p2 p3 p4 := rfl

theorem dihedralXYTextbook_eq_gen (n : K) (p1 p2 p3 p4 : V3 K) :
    dihedralXYTextbook n p1 p2 p3 p4
      = dihedralXYGen (dot ((-1 : K) • (p2 - p1)) ((1 / n) • (p3 - p2))) n p1 p2 p3 p4 := rfl

/-- with `n² = N` the coefficient `c` disappears -/
theorem dihedralXYGen_eq_args (c n : K) (p1 p2 p3 p4 : V3 K)
    (hn : n * n = nsq (p3 - p2)) (h0 : n ≠ 0) :
    dihedralXYGen c n p1 p2 p3 p4 =
      ((dihedralArgs p1 p2 p3 p4).1 / (dihedralArgs p1 p2 p3 p4).2.2,
       (dihedralArgs p1 p2 p3 p4).2.1 / n) := by
  rw [dihedralXYGen_formula c n h0]
  unfold dihedralArgs
  simp only [← hn, sub_self, mul_zero, zero_div, add_zero]

/-- the coded `(x, y)` under any linear map that preserves dot products -/
theorem dihedralXY_motion {T : Motion K} (h : T.R.IsOrthogonal) (n : K) (p1 p2 p3 p4 : V3 K) :
    dihedralXY n (T.apply p1) (T.apply p2) (T.apply p3) (T.apply p4)
      = ((dihedralXY n p1 p2 p3 p4).1, T.R.det * (dihedralXY n p1 p2 p3 p4).2) := by
  unfold dihedralXY
  simp only [apply_sub, ← mulVec_smul, dot_mulVec h, ← mulVec_sub, triple_mulVec]

theorem dihedralArgs_motion {K : Type} [CommRing K] {T : Motion K} (h : T.R.IsOrthogonal)
    (p1 p2 p3 p4 : V3 K) :
    dihedralArgs (T.apply p1) (T.apply p2) (T.apply p3) (T.apply p4)
      = ((dihedralArgs p1 p2 p3 p4).1, T.R.det * (dihedralArgs p1 p2 p3 p4).2.1,
         (dihedralArgs p1 p2 p3 p4).2.2) := by
  unfold dihedralArgs
  simp only [apply_sub, ← mulVec_smul, dot_mulVec h, triple_mulVec, V3.nsq]

end field

section ordered
variable {K : Type} [Field K] [LinearOrder K] [IsStrictOrderedRing K]

theorem nsq_nonneg (a : V3 K) : 0 ≤ nsq a := by
  v3_unfold
  nlinarith [mul_self_nonneg a.x, mul_self_nonneg a.y, mul_self_nonneg a.z]

theorem nsq_eq_zero {a : V3 K} (h : nsq a = 0) : a.x = 0 ∧ a.y = 0 ∧ a.z = 0 := by
  have h' : a.x * a.x + a.y * a.y + a.z * a.z = 0 := h
  refine ⟨?_, ?_, ?_⟩ <;> apply mul_self_eq_zero.mp <;>
    nlinarith [mul_self_nonneg a.x, mul_self_nonneg a.y, mul_self_nonneg a.z]

/-- Cauchy–Schwarz in the form used by `compute_angle` -/
theorem cauchy_schwarz (a b : V3 K) : dot a b * dot a b ≤ nsq a * nsq b := by
  have := lagrange a b
  have := nsq_nonneg (cross a b)
  linarith

/-! ### the bond list -/

theorem bonded_iff (thr : K) (a b : Atom K) :
    bonded thr a b = true ↔
      0 < (a.r + b.r) * thr ∧ distSq a.p b.p < ((a.r + b.r) * thr) * ((a.r + b.r) * thr) := by
  simp [bonded]

theorem bonded_symm (thr : K) (a b : Atom K) : bonded thr a b = bonded thr b a := by
  unfold bonded
  rw [distSq_comm, add_comm]

theorem mem_connRow (thr : K) (x : Nat) (a : Atom K) : ∀ (l : List (Atom K)) (j0 i j : Nat),
    (i, j) ∈ connRow thr x a j0 l ↔
      i = x ∧ ∃ k b, j = j0 + k ∧ l[k]? = some b ∧ bonded thr a b = true
  | [], j0, i, j => by simp [connRow]
  | b :: rest, j0, i, j => by
      simp only [connRow, List.mem_append, mem_connRow thr x a rest (j0 + 1)]
      constructor
      · rintro (h | ⟨hi, k, b', hj, hk, hb⟩)
        · by_cases hb : bonded thr a b = true
          · simp [hb] at h
            exact ⟨h.1, 0, b, by simp [h.2], by simp, hb⟩
          · simp [hb] at h
        · exact ⟨hi, k + 1, b', by omega, by simpa using hk, hb⟩
      · rintro ⟨hi, k, b', hj, hk, hb⟩
        cases k with
        | zero =>
          left
          simp at hk
          subst hk
          simp [hb, hi, hj]
        | succ k =>
          right
          exact ⟨hi, k, b', by omega, by simpa using hk, hb⟩

theorem mem_connFrom (thr : K) : ∀ (l : List (Atom K)) (x0 i j : Nat),
    (i, j) ∈ connFrom thr x0 l ↔
      ∃ k m a b, i = x0 + k ∧ j = x0 + k + 1 + m ∧ l[k]? = some a ∧ l[k + 1 + m]? = some b ∧
        bonded thr a b = true
  | [], x0, i, j => by simp [connFrom]
  | a :: rest, x0, i, j => by
      simp only [connFrom, List.mem_append, mem_connRow, mem_connFrom thr rest (x0 + 1)]
      constructor
      · rintro (⟨hi, m, b, hj, hm, hb⟩ | ⟨k, m, a', b, hi, hj, hk, hm, hb⟩)
        · refine ⟨0, m, a, b, by omega, by omega, by simp, ?_, hb⟩
          have : 0 + 1 + m = m + 1 := by omega
          rw [this, List.getElem?_cons_succ]
          exact hm
        · refine ⟨k + 1, m, a', b, by omega, by omega, by simpa using hk, ?_, hb⟩
          have : k + 1 + 1 + m = (k + 1 + m) + 1 := by omega
          rw [this, List.getElem?_cons_succ]
          exact hm
      · rintro ⟨k, m, a', b, hi, hj, hk, hm, hb⟩
        cases k with
        | zero =>
          left
          simp at hk
          subst hk
          have e : 0 + 1 + m = m + 1 := by omega
          rw [e, List.getElem?_cons_succ] at hm
          exact ⟨by omega, m, b, by omega, hm, hb⟩
        | succ k =>
          right
          have e : k + 1 + 1 + m = (k + 1 + m) + 1 := by omega
          rw [e, List.getElem?_cons_succ] at hm
          exact ⟨k, m, a', b, by omega, by omega, by simpa using hk, hm, hb⟩

/-- strict lexicographic order on index pairs -/
def lexLt (p q : Nat × Nat) : Prop := p.1 < q.1 ∨ (p.1 = q.1 ∧ p.2 < q.2)

theorem connRow_sorted (thr : K) (x : Nat) (a : Atom K) : ∀ (l : List (Atom K)) (j0 : Nat),
    (connRow thr x a j0 l).Pairwise lexLt
  | [], _ => by simp [connRow]
  | b :: rest, j0 => by
      simp only [connRow]
      rw [List.pairwise_append]
      refine ⟨?_, connRow_sorted thr x a rest (j0 + 1), ?_⟩
      · split <;> simp
      · intro p hp q hq
        obtain ⟨qi, qj⟩ := q
        rw [mem_connRow] at hq
        obtain ⟨hqi, k, _, hqj, _, _⟩ := hq
        split at hp
        · simp at hp
          subst hp
          right
          exact ⟨hqi.symm, by simp; omega⟩
        · simp at hp

theorem connFrom_sorted (thr : K) : ∀ (l : List (Atom K)) (x0 : Nat),
    (connFrom thr x0 l).Pairwise lexLt
  | [], _ => by simp [connFrom]
  | a :: rest, x0 => by
      simp only [connFrom]
      rw [List.pairwise_append]
      refine ⟨connRow_sorted thr x0 a rest (x0 + 1), connFrom_sorted thr rest (x0 + 1), ?_⟩
      intro p hp q hq
      obtain ⟨pi, pj⟩ := p
      obtain ⟨qi, qj⟩ := q
      rw [mem_connRow] at hp
      rw [mem_connFrom] at hq
      obtain ⟨k, _, _, _, hqi, _⟩ := hq
      left
      simp only
      omega

/-- move an atom by a motion (radius unchanged) -/
def Atom.move (T : Motion K) (a : Atom K) : Atom K := ⟨a.r, T.apply a.p⟩

theorem bonded_move {T : Motion K} (h : T.R.IsOrthogonal) (thr : K) (a b : Atom K) :
    bonded thr (a.move T) (b.move T) = bonded thr a b := by
  unfold bonded Atom.move
  simp only [distSq_motion h]

theorem connRow_move {T : Motion K} (h : T.R.IsOrthogonal) (thr : K) (x : Nat) (a : Atom K) :
    ∀ (l : List (Atom K)) (j0 : Nat),
      connRow thr x (a.move T) j0 (l.map (Atom.move T)) = connRow thr x a j0 l
  | [], _ => by simp [connRow]
  | b :: rest, j0 => by
      simp only [List.map_cons, connRow, bonded_move h, connRow_move h thr x a rest (j0 + 1)]

theorem connFrom_move {T : Motion K} (h : T.R.IsOrthogonal) (thr : K) :
    ∀ (l : List (Atom K)) (x0 : Nat),
      connFrom thr x0 (l.map (Atom.move T)) = connFrom thr x0 l
  | [], _ => by simp [connFrom]
  | a :: rest, x0 => by
      simp only [List.map_cons, connFrom, connRow_move h, connFrom_move h thr rest (x0 + 1)]

end ordered

end QcelVerif.Measure
