import QcelVerif.Model.Compare
import Mathlib.Data.Real.Basic
import Mathlib.Tactic.Linarith
import Mathlib.Tactic.Ring
import Mathlib.Tactic.Positivity
/-!
C19: the rational decision procedure `sqrtLe` that the model uses for complex data
(`|c - e| ≤ atol + rtol·|e|` with `|·|` the complex modulus) is *exactly* the real inequality
between the square roots.  `s`, `t` stand for the moduli `√d2`, `√m2` (any non-negative reals whose
squares are the given rationals), so no square-root function is needed in the statement.
-/
namespace QcelVerif.Compare

theorem sqrtLe_iff (A R d2 m2 : ℚ) (s t : ℝ) (hA : 0 ≤ A) (hR : 0 ≤ R) (hs : 0 ≤ s) (ht : 0 ≤ t)
    (hs2 : s ^ 2 = (d2 : ℝ)) (ht2 : t ^ 2 = (m2 : ℝ)) :
    sqrtLe A R d2 m2 = true ↔ s ≤ (A : ℝ) + (R : ℝ) * t := by
  have ha : (0 : ℝ) ≤ (A : ℝ) := by exact_mod_cast hA
  have hr : (0 : ℝ) ≤ (R : ℝ) := by exact_mod_cast hR
  unfold sqrtLe
  simp only [Bool.or_eq_true, decide_eq_true_eq]
  rw [← Rat.cast_le (K := ℝ), ← Rat.cast_le (K := ℝ)]
  push_cast
  rw [← hs2, ← ht2]
  set a : ℝ := (A : ℝ)
  set r : ℝ := (R : ℝ)
  have hart : 0 ≤ a * r * t := by positivity
  have hb : 0 ≤ a + r * t := by positivity
  constructor
  · intro h
    have hL : s ^ 2 - a * a - r * r * t ^ 2 ≤ 2 * (a * r * t) := by
      rcases h with h | h
      · linarith
      · by_contra hc
        rw [not_le] at hc
        nlinarith
    by_contra hc
    rw [not_le] at hc
    nlinarith
  · intro h
    have hsq : s ^ 2 ≤ (a + r * t) ^ 2 := by nlinarith
    by_cases h0 : s ^ 2 - a * a - r * r * t ^ 2 ≤ 0
    · exact Or.inl h0
    · right
      rw [not_le] at h0
      have hL : s ^ 2 - a * a - r * r * t ^ 2 ≤ 2 * (a * r * t) := by nlinarith
      nlinarith

/-- non-vacuity (test): 3-4-5 — `|3+4i| = 5 ≤ 1 + 2·2` decided through the rational form -/
example : sqrtLe 1 2 25 4 = true := by decide +kernel

end QcelVerif.Compare
