import QcelVerif.Model.Mill
import Mathlib.Tactic.Ring
import Mathlib.Tactic.LinearCombination
import Mathlib.Tactic.FinCases
import Mathlib.Algebra.BigOperators.Fin
import Mathlib.Algebra.BigOperators.Ring.Finset
import Mathlib.Data.Fintype.BigOperators
import Mathlib.LinearAlgebra.Matrix.SemiringInverse
/-!
Helper lemmas for C13 (property theorems are in `Props/C13.lean`).
Everything is over an arbitrary commutative ring `K`.
-/
namespace QcelVerif.Mill
open Finset

variable {K : Type} [CommRing K]

/-! ### index arithmetic of the 3×3 (and general) blocking -/

theorem idx_blk_off {g l : Nat} (r : Fin (g * l)) : idx (blk r) (off r) = r := by
  apply Fin.ext
  simp only [idx, blk, off]
  exact Nat.div_add_mod' _ _

theorem blk_idx {g l : Nat} (i : Fin g) (p : Fin l) : blk (idx i p) = i := by
  apply Fin.ext
  simp only [idx, blk]
  have hl : 0 < l := Nat.pos_of_ne_zero (by intro h; subst h; exact absurd p.isLt (by simp))
  rw [Nat.add_comm, Nat.add_mul_div_right _ _ hl, Nat.div_eq_of_lt p.isLt, Nat.zero_add]

theorem off_idx {g l : Nat} (i : Fin g) (p : Fin l) : off (idx i p) = p := by
  apply Fin.ext
  simp only [idx, off]
  rw [Nat.add_comm, Nat.add_mul_mod_self_right, Nat.mod_eq_of_lt p.isLt]

/-- a sum over the flat index is the double sum over (block, offset) -/
theorem sum_flat {g l : Nat} (f : Fin (g * l) → K) :
    ∑ r, f r = ∑ i : Fin g, ∑ p : Fin l, f (idx i p) := by
  rw [← Fintype.sum_prod_type' (fun i p => f (idx i p))]
  rw [← Equiv.sum_comp finProdFinEquiv f]
  apply Finset.sum_congr rfl
  intro x _
  congr 1
  apply Fin.ext
  simp [finProdFinEquiv, idx, Nat.mul_comm, Nat.add_comm]


/-! ### the frame of a recipe, orthogonality -/

/-- `R Rᵀ = I` (rows orthonormal), the hypothesis "rotation" of the property, entry by entry -/
def IsOrtho (R : Mat3 K) : Prop :=
  ∀ c c' : Fin 3, sum3 (fun a => R c a * R c' a) = if c = c' then 1 else 0

/-- sign applied to Cartesian component `c` by the mirror step (`arr[:,1] *= -1`) -/
def msign {n m : Nat} (r : Recipe K n m) (c : Fin 3) : K := if r.mirror then (if c = 1 then -1 else 1) else 1

/-- the linear frame change of a recipe: reflect `y` (if mirror), then rotate: `F = diag(1,∓1,1)·R` -/
def frame {n m : Nat} (r : Recipe K n m) : Mat3 K := fun c a => msign r c * r.rot c a

/-- differential of the forward coordinate map: `(J d)_i = d_{map i} · F` -/
def J {n m : Nat} (r : Recipe K n m) (d : Geom K n) : Geom K m :=
  fun i a => sum3 fun c => d (r.map i) c * frame r c a

theorem msign_sq {n m : Nat} (r : Recipe K n m) (c : Fin 3) : msign r c * msign r c = 1 := by
  unfold msign; split_ifs <;> ring

theorem hessFrame_eq {n m : Nat} (r : Recipe K n m) : hessFrame r = frame r := by
  funext c a
  unfold hessFrame frame msign
  cases hm : r.mirror
  · simp
  · fin_cases c <;> simp [matMul, diagMirror, sum3]

theorem frame_ortho {n m : Nat} (r : Recipe K n m) (h : IsOrtho r.rot) : IsOrtho (frame r) := by
  intro c c'
  have := h c c'
  simp only [sum3, frame] at this ⊢
  by_cases hc : c = c'
  · subst hc
    simp only [if_true] at this ⊢
    linear_combination (msign r c * msign r c) * this + msign_sq r c
  · simp only [hc, if_false] at this ⊢
    linear_combination (msign r c * msign r c') * this

/-- over a commutative ring `R Rᵀ = I` gives `Rᵀ R = I` (columns orthonormal) -/
theorem ortho_cols {R : Mat3 K} (h : IsOrtho R) (a b : Fin 3) :
    sum3 (fun c => R c a * R c b) = if a = b then 1 else 0 := by
  have h1 : (Matrix.of R) * (Matrix.of R).transpose = 1 := by
    ext c c'
    have := h c c'
    simp only [sum3] at this
    simp [Matrix.mul_apply, Fin.sum_univ_three, Matrix.one_apply, this]
  have h2 : (Matrix.of R).transpose * (Matrix.of R) = 1 := mul_eq_one_comm.mp h1
  have := congrFun (congrFun h2 a) b
  simp only [Matrix.mul_apply, Fin.sum_univ_three, Matrix.transpose_apply, Matrix.of_apply, Matrix.one_apply] at this
  simp only [sum3]
  exact this

/-- an orthogonal frame preserves the dot product of row vectors: `(uF)·(vF) = u·v` -/
theorem pair3 {F : Mat3 K} (h : IsOrtho F) (u v : Vec3 K) :
    sum3 (fun a => rowDot u F a * rowDot v F a) = sum3 (fun c => u c * v c) := by
  have h00 := h 0 0; have h01 := h 0 1; have h02 := h 0 2
  have h10 := h 1 0; have h11 := h 1 1; have h12 := h 1 2
  have h20 := h 2 0; have h21 := h 2 1; have h22 := h 2 2
  simp only [sum3, rowDot] at *
  simp at h00 h01 h02 h10 h11 h12 h20 h21 h22
  linear_combination (u 0 * v 0) * h00 + (u 0 * v 1) * h01 + (u 0 * v 2) * h02
    + (u 1 * v 0) * h10 + (u 1 * v 1) * h11 + (u 1 * v 2) * h12
    + (u 2 * v 0) * h20 + (u 2 * v 1) * h21 + (u 2 * v 2) * h22


/-! ### coordinates, gradient -/

/-- the affine map every atom goes through in `alignCoords` (does not depend on the atom) -/
def pointMap {n m : Nat} (r : Recipe K n m) (p : Vec3 K) : Vec3 K :=
  fun a => sum3 fun c => (msign r c * p c - r.shift c) * r.rot c a

theorem alignCoords_apply {n m : Nat} (r : Recipe K n m) (x : Geom K n) (i : Fin m) :
    alignCoords r x i = pointMap r (x (r.map i)) := by
  funext a
  unfold alignCoords pointMap takeRows rowDot msign flipY
  cases hm : r.mirror <;> simp [sum3]

theorem alignGradient_eq_J {n m : Nat} (r : Recipe K n m) (g : Geom K n) : alignGradient r g = J r g := by
  funext i a
  unfold alignGradient J takeRows rowDot frame msign flipY
  cases hm : r.mirror <;> simp [sum3]

/-- differences of aligned coordinates: the shift cancels, the frame acts -/
theorem alignCoords_sub {n m : Nat} (r : Recipe K n m) (x : Geom K n) (i j : Fin m) (a : Fin 3) :
    alignCoords r x i a - alignCoords r x j a
      = rowDot (fun c => x (r.map i) c - x (r.map j) c) (frame r) a := by
  rw [alignCoords_apply, alignCoords_apply]
  simp only [pointMap, rowDot, sum3, frame]
  ring

/-- squared distance between atoms `i` and `j` -/
def dist2 {n : Nat} (x : Geom K n) (i j : Fin n) : K :=
  sum3 fun a => (x i a - x j a) * (x i a - x j a)

theorem dist2_symm {n : Nat} (x : Geom K n) (i j : Fin n) : dist2 x i j = dist2 x j i := by
  simp only [dist2, sum3]; ring

theorem dist2_self {n : Nat} (x : Geom K n) (i : Fin n) : dist2 x i i = 0 := by
  simp only [dist2, sum3]; ring

theorem dist2_align {n m : Nat} (r : Recipe K n m) (h : IsOrtho r.rot) (x : Geom K n) (i j : Fin m) :
    dist2 (alignCoords r x) i j = dist2 x (r.map i) (r.map j) := by
  unfold dist2
  simp only [alignCoords_sub]
  exact pair3 (frame_ortho r h) _ _

/-- the reverse transform as one affine map per atom -/
theorem alignCoordsRev_sub {n m : Nat} (r : Recipe K n m) (x : Geom K n) (i j : Fin m) (a : Fin 3) :
    alignCoordsRev r x i a - alignCoordsRev r x j a
      = msign r a * rowDot (fun c => x (r.map i) c - x (r.map j) c) r.rot a := by
  unfold alignCoordsRev takeRows rowDot msign flipY
  cases hm : r.mirror
  · simp [sum3]; ring
  · by_cases ha : a = 1 <;> simp [sum3, ha] <;> ring

theorem dist2_alignRev {n m : Nat} (r : Recipe K n m) (h : IsOrtho r.rot) (x : Geom K n) (i j : Fin m) :
    dist2 (alignCoordsRev r x) i j = dist2 x (r.map i) (r.map j) := by
  unfold dist2
  simp only [alignCoordsRev_sub]
  have := pair3 h (fun c => x (r.map i) c - x (r.map j) c) (fun c => x (r.map i) c - x (r.map j) c)
  have s0 := msign_sq r 0; have s1 := msign_sq r 1; have s2 := msign_sq r 2
  simp only [sum3] at this ⊢
  generalize rowDot (fun c => x (r.map i) c - x (r.map j) c) r.rot = w at this ⊢
  linear_combination this + (w 0 * w 0) * s0 + (w 1 * w 1) * s1 + (w 2 * w 2) * s2


/-! ### Hessian -/

/-- flatten an `(n,3)` array to `(3n,)` (numpy `ravel`) -/
def flat {n : Nat} (d : Geom K n) : Fin (n * 3) → K := fun r => d (blk r) (off r)

/-- `uᵀ H v` -/
def bilin {N : Nat} (H : Fin N → Fin N → K) (u v : Fin N → K) : K := ∑ r, ∑ c, u r * H r c * v c

theorem alignHessian_apply {n m : Nat} (r : Recipe K n m) (H : Hess K n) (s t : Fin (m * 3)) :
    alignHessian r H s t
      = sum3 fun c => sum3 fun d =>
          frame r c (off s) * H (idx (r.map (blk s)) c) (idx (r.map (blk t)) d) * frame r d (off t) := by
  unfold alignHessian blockwiseContract blockwiseExpand matMul transpose
  rw [hessFrame_eq]
  simp only [sum3]
  ring

theorem rowDot_back {F : Mat3 K} (h : IsOrtho F) (u : Vec3 K) (c : Fin 3) :
    rowDot u F 0 * F c 0 + rowDot u F 1 * F c 1 + rowDot u F 2 * F c 2 = u c := by
  have h0 := h 0 c; have h1 := h 1 c; have h2 := h 2 c
  simp only [sum3, rowDot] at *
  fin_cases c <;> simp at h0 h1 h2 ⊢ <;> linear_combination u 0 * h0 + u 1 * h1 + u 2 * h2

/-- `(uF) (Fᵀ B F) (vF)ᵀ = u B vᵀ` for an orthogonal frame -/
theorem form3 {F : Mat3 K} (h : IsOrtho F) (u v : Vec3 K) (B : Mat3 K) :
    sum3 (fun a => sum3 fun b =>
        rowDot u F a * (sum3 fun c => sum3 fun d => F c a * B c d * F d b) * rowDot v F b)
      = sum3 fun c => sum3 fun d => u c * B c d * v d := by
  have hu0 := rowDot_back h u 0; have hu1 := rowDot_back h u 1; have hu2 := rowDot_back h u 2
  have hv0 := rowDot_back h v 0; have hv1 := rowDot_back h v 1; have hv2 := rowDot_back h v 2
  generalize rowDot u F = p at *
  generalize rowDot v F = q at *
  simp only [sum3]
  linear_combination
    (B 0 0 * (q 0 * F 0 0 + q 1 * F 0 1 + q 2 * F 0 2)) * hu0 + (B 0 0 * u 0) * hv0 +
    (B 0 1 * (q 0 * F 1 0 + q 1 * F 1 1 + q 2 * F 1 2)) * hu0 + (B 0 1 * u 0) * hv1 +
    (B 0 2 * (q 0 * F 2 0 + q 1 * F 2 1 + q 2 * F 2 2)) * hu0 + (B 0 2 * u 0) * hv2 +
    (B 1 0 * (q 0 * F 0 0 + q 1 * F 0 1 + q 2 * F 0 2)) * hu1 + (B 1 0 * u 1) * hv0 +
    (B 1 1 * (q 0 * F 1 0 + q 1 * F 1 1 + q 2 * F 1 2)) * hu1 + (B 1 1 * u 1) * hv1 +
    (B 1 2 * (q 0 * F 2 0 + q 1 * F 2 1 + q 2 * F 2 2)) * hu1 + (B 1 2 * u 1) * hv2 +
    (B 2 0 * (q 0 * F 0 0 + q 1 * F 0 1 + q 2 * F 0 2)) * hu2 + (B 2 0 * u 2) * hv0 +
    (B 2 1 * (q 0 * F 1 0 + q 1 * F 1 1 + q 2 * F 1 2)) * hu2 + (B 2 1 * u 2) * hv1 +
    (B 2 2 * (q 0 * F 2 0 + q 1 * F 2 1 + q 2 * F 2 2)) * hu2 + (B 2 2 * u 2) * hv2

theorem bilin_blocks {g : Nat} (H : Fin (g * 3) → Fin (g * 3) → K) (u v : Geom K g) :
    bilin H (flat u) (flat v)
      = ∑ i, ∑ j, sum3 fun a => sum3 fun b => u i a * H (idx i a) (idx j b) * v j b := by
  unfold bilin
  rw [sum_flat]
  apply Finset.sum_congr rfl; intro i _
  simp_rw [sum_flat (g := g) (l := 3)]
  simp only [flat, blk_idx, off_idx, Fin.sum_univ_three, sum3, Finset.sum_add_distrib]
  ring


/-! ### the polynomial pair energies `E_{k,c}(x) = Σ_{i<j} k_ij (|x_i − x_j|² − c_ij)²` -/

section Energy
variable {n : Nat}

/-- one pair term -/
def pairE (k c : Fin n → Fin n → K) (x : Geom K n) (i j : Fin n) : K :=
  k i j * ((dist2 x i j - c i j) * (dist2 x i j - c i j))

/-- `E_{k,c}(x) = Σ_{i<j} k_ij (|x_i − x_j|² − c_ij)²` -/
def energy (k c : Fin n → Fin n → K) (x : Geom K n) : K :=
  ∑ i, ∑ j, if i < j then pairE k c x i j else 0

/-- explicit gradient `∂E/∂x_ia = Σ_j 4 k_ij (|x_i−x_j|² − c_ij)(x_ia − x_ja)`
(tied to `energy` by `gradE_is_derivative`) -/
def gradE (k c : Fin n → Fin n → K) (x : Geom K n) : Geom K n :=
  fun i a => ∑ j, 4 * k i j * (dist2 x i j - c i j) * (x i a - x j a)

/-- second derivative of one pair term w.r.t. `x_ia, x_ib` -/
def Tblk (k c : Fin n → Fin n → K) (x : Geom K n) (i j : Fin n) (a b : Fin 3) : K :=
  8 * k i j * (x i a - x j a) * (x i b - x j b) + (if a = b then 4 * k i j * (dist2 x i j - c i j) else 0)

/-- explicit Hessian as a `(3n,3n)` array: block `(i,j)`, `i ≠ j`, is `−T(i,j)`; block `(i,i)` is
`Σ_{l≠i} T(i,l)` (tied to `gradE` by `hessE_is_derivative`) -/
def hessE (k c : Fin n → Fin n → K) (x : Geom K n) : Hess K n :=
  fun s t =>
    if blk s = blk t then ∑ l, (if l = blk s then 0 else Tblk k c x (blk s) l (off s) (off t))
    else - Tblk k c x (blk s) (blk t) (off s) (off t)

/-- the atom map acting on a coupling matrix: `k'_{ij} = k_{map i, map j}` -/
def permute {m : Nat} (σ : Fin m → Fin n) (k : Fin n → Fin n → K) : Fin m → Fin m → K :=
  fun i j => k (σ i) (σ j)

theorem Tblk_cov {m : Nat} (r : Recipe K n m) (hR : IsOrtho r.rot) (k c : Fin n → Fin n → K)
    (x : Geom K n) (i j : Fin m) (a b : Fin 3) :
    Tblk (permute r.map k) (permute r.map c) (alignCoords r x) i j a b
      = sum3 fun c' => sum3 fun d' =>
          frame r c' a * Tblk k c x (r.map i) (r.map j) c' d' * frame r d' b := by
  have hc := ortho_cols (frame_ortho r hR) a b
  unfold Tblk permute
  rw [dist2_align r hR, alignCoords_sub, alignCoords_sub]
  simp only [rowDot, sum3] at hc ⊢
  generalize frame r = F at hc ⊢
  generalize k (r.map i) (r.map j) = κ
  generalize dist2 x (r.map i) (r.map j) - c (r.map i) (r.map j) = A
  by_cases hab : a = b
  · subst hab
    simp at hc ⊢
    linear_combination (-(4 * κ * A)) * hc
  · simp [hab] at hc ⊢
    linear_combination (-(4 * κ * A)) * hc


/-- a double sum of terms vanishing on the diagonal, folded onto the pairs `i < j` -/
theorem sum_offdiag_symm (f : Fin n → Fin n → K) (h0 : ∀ i, f i i = 0) :
    ∑ i, ∑ j, f i j = ∑ i, ∑ j, if i < j then f i j + f j i else 0 := by
  have split : ∀ i j, f i j = (if i < j then f i j else 0) + (if j < i then f i j else 0) := by
    intro i j
    rcases lt_trichotomy i j with h | h | h
    · simp [h, not_lt_of_gt h]
    · subst h; simp [h0]
    · simp [h, not_lt_of_gt h]
  calc ∑ i, ∑ j, f i j
      = ∑ i, ∑ j, ((if i < j then f i j else 0) + (if j < i then f i j else 0)) := by
        apply Finset.sum_congr rfl; intro i _; apply Finset.sum_congr rfl; intro j _; exact split i j
    _ = (∑ i, ∑ j, if i < j then f i j else 0) + ∑ i, ∑ j, if j < i then f i j else 0 := by
        simp only [Finset.sum_add_distrib]
    _ = (∑ i, ∑ j, if i < j then f i j else 0) + ∑ j, ∑ i, if j < i then f i j else 0 := by
        rw [Finset.sum_comm (f := fun i j => if j < i then f i j else 0)]
    _ = ∑ i, ∑ j, if i < j then f i j + f j i else 0 := by
        simp only [← Finset.sum_add_distrib]
        apply Finset.sum_congr rfl; intro i _; apply Finset.sum_congr rfl; intro j _
        split_ifs <;> simp

theorem sum_ite_ne' {n : Nat} (f : Fin n → K) (i : Fin n) :
    ∑ l, (if l = i then 0 else f l) = ∑ l, f l - f i := by
  have : ∀ l, (if l = i then 0 else f l) = f l - (if l = i then f l else 0) := by
    intro l; split_ifs <;> simp
  simp only [this, Finset.sum_sub_distrib, Finset.sum_ite_eq', Finset.mem_univ, if_true]

/-- `H e` for the explicit Hessian, row `(i,a)` -/
theorem hessE_mulVec {n : Nat} (k c : Fin n → Fin n → K) (x e : Geom K n) (i : Fin n) (a : Fin 3) :
    ∑ s, hessE k c x (idx i a) s * flat e s
      = ∑ l, ∑ b : Fin 3, Tblk k c x i l a b * (e i b - e l b) := by
  rw [sum_flat]
  simp only [hessE, flat, blk_idx, off_idx]
  have e1 : ∀ (j : Fin n) (b : Fin 3),
      (if i = j then ∑ l, (if l = i then 0 else Tblk k c x i l a b) else -Tblk k c x i j a b) * e j b
        = -Tblk k c x i j a b * e j b
          + (if i = j then ((∑ l, Tblk k c x i l a b) - Tblk k c x i i a b + Tblk k c x i j a b) * e j b else 0) := by
    intro j b
    rw [sum_ite_ne']
    split_ifs <;> ring
  simp only [e1, Fin.sum_univ_three, Finset.sum_add_distrib, Finset.sum_ite_eq, Finset.mem_univ, if_true, sub_add_cancel]
  simp only [Finset.sum_mul, mul_sub, neg_mul, Finset.sum_sub_distrib, Finset.sum_neg_distrib]
  ring



end Energy

/-! ### a polynomial vector field attached to the molecule -/

/-- polynomial pair vector field `μ_w(x) = Σ_{i,j} w_ij |x_i − x_j|² (x_i − x_j)` (any weights) -/
def fieldMu {n : Nat} (w : Fin n → Fin n → K) (x : Geom K n) : Vec3 K :=
  fun a => ∑ i, ∑ j, w i j * dist2 x i j * (x i a - x j a)

/-- derivative of one pair term of the field w.r.t. `x_ib` -/
def Pblk {n : Nat} (x : Geom K n) (i j : Fin n) (a b : Fin 3) : K :=
  (if a = b then dist2 x i j else 0) + 2 * (x i a - x j a) * (x i b - x j b)

/-- explicit nuclear derivatives `∂μ_a/∂x_{k,b}` as the `(3,3n)` array `align_vector_gradient` takes -/
def fieldD {n : Nat} (w : Fin n → Fin n → K) (x : Geom K n) : Fin 3 → Fin (n * 3) → K :=
  fun a s => ∑ j, (w (blk s) j - w j (blk s)) * Pblk x (blk s) j a (off s)

theorem Pblk_symm {n : Nat} (x : Geom K n) (i j : Fin n) (a b : Fin 3) : Pblk x i j a b = Pblk x j i a b := by
  simp only [Pblk, dist2_symm x i j]; ring

theorem Pblk_cov {n : Nat} (r : Recipe K n n) (hm : r.mirror = false) (hR : IsOrtho r.rot)
    (x : Geom K n) (i j : Fin n) (a b : Fin 3) :
    Pblk (alignCoords r x) i j a b
      = sum3 fun c' => sum3 fun d' => r.rot c' a * Pblk x (r.map i) (r.map j) c' d' * r.rot d' b := by
  have hF : frame r = r.rot := by funext c a; simp [frame, msign, hm]
  have hc := ortho_cols hR a b
  unfold Pblk
  rw [dist2_align r hR, alignCoords_sub, alignCoords_sub, hF]
  simp only [rowDot, sum3] at hc ⊢
  generalize dist2 x (r.map i) (r.map j) = A
  by_cases hab : a = b
  · subst hab
    simp at hc ⊢
    linear_combination (-A) * hc
  · simp [hab] at hc ⊢
    linear_combination (-A) * hc


end QcelVerif.Mill
