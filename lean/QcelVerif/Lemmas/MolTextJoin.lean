import QcelVerif.Props.C07
/-!
C07 — helper lemmas for the TEXT level of the molecule text layer (Model/MolText.lean):
how `strip`, `filterComments` and `splitLines` act on lines joined with "\n".

Nothing here is a property statement; the property theorems are in Props/C07Text.lean.
(Imports Props/C07.lean only to reuse its generic list helpers `dw_app`, `dw_all`, `fcGo_plain`, `lastOr`, …)
-/
namespace QcelVerif.MolText

/-! ## joined lines -/

/-- `"\n".join(ls)` -/
def joinLines : List Str → Str
  | [] => []
  | l :: r => l ++ r.flatMap ('\n' :: ·)

/-- no `#` and no newline -/
def Clean (l : Str) : Prop := ∀ c ∈ l, (c == '#') = false ∧ (c == '\n') = false
/-- not only whitespace -/
def NonBlank (l : Str) : Prop := ∃ c ∈ l, isWs c = false
/-- whitespace or backslash -/
def isWsBs (c : Char) : Bool := isWs c || c == '\\'
/-- first and last character exist and are not whitespace; the last is not a backslash either (decidable) -/
def Tight (l : Str) : Prop := l.head?.map isWs = some false ∧ l.getLast?.map isWsBs = some false

instance (l : Str) : Decidable (Clean l) := by unfold Clean; infer_instance
instance (l : Str) : Decidable (Tight l) := by unfold Tight; infer_instance

theorem clean_nil : Clean [] := by intro c hc; cases hc

theorem clean_append {a b : Str} (ha : Clean a) (hb : Clean b) : Clean (a ++ b) := by
  intro c hc; rw [List.mem_append] at hc; rcases hc with hc | hc; exact ha c hc; exact hb c hc

theorem clean_cons {c : Char} {b : Str} (hc : (c == '#') = false ∧ (c == '\n') = false) (hb : Clean b) :
    Clean (c :: b) := by
  intro x hx; rw [List.mem_cons] at hx; rcases hx with rfl | hx; exact hc; exact hb x hx

theorem clean_of_subset {a b : Str} (h : ∀ c ∈ a, c ∈ b) (hb : Clean b) : Clean a := fun c hc => hb c (h c hc)

theorem clean_spaces (n : Nat) : Clean (List.replicate n ' ') := by
  intro c hc; rw [List.mem_replicate] at hc; rw [hc.2]; decide

theorem nl_is_ws : isWs '\n' = true := by decide

/-! ## splitLines -/

theorem splitLines_exists (s : Str) : ∃ h r, splitLines s = h :: r := by
  cases s with
  | nil => exact ⟨[], [], rfl⟩
  | cons c t =>
    simp only [splitLines]
    split
    · exact ⟨[], [], rfl⟩
    · split <;> exact ⟨_, _, rfl⟩

theorem splitLines_line (l : Str) (hl : ∀ c ∈ l, (c == '\n') = false) : splitLines l = [l] := by
  induction l with
  | nil => rfl
  | cons c l ih =>
    have hc := hl c (by simp)
    simp [splitLines, ih (fun x hx => hl x (by simp [hx])), hc]

theorem splitLines_append_nl (l rest : Str) (hl : ∀ c ∈ l, (c == '\n') = false) :
    splitLines (l ++ '\n' :: rest) = l :: splitLines rest := by
  induction l with
  | nil =>
    obtain ⟨h, r, hr⟩ := splitLines_exists rest
    simp [splitLines, hr]
  | cons c l ih =>
    have hc := hl c (by simp)
    simp [splitLines, ih (fun x hx => hl x (by simp [hx])), hc]

theorem splitLines_join_aux (l : Str) (r : List Str) (hl : ∀ c ∈ l, (c == '\n') = false)
    (hr : ∀ m ∈ r, ∀ c ∈ m, (c == '\n') = false) : splitLines (l ++ r.flatMap ('\n' :: ·)) = l :: r := by
  induction r generalizing l with
  | nil => simpa using splitLines_line l hl
  | cons m r ih =>
    have := ih m (hr m (by simp)) (fun x hx => hr x (by simp [hx]))
    rw [List.flatMap_cons, List.cons_append, splitLines_append_nl l _ hl, this]

/-- `"\n".join(ls).split("\n") == ls` for newline-free lines (at least one line) -/
theorem splitLines_join (ls : List Str) (hne : ls ≠ []) (h : ∀ l ∈ ls, ∀ c ∈ l, (c == '\n') = false) :
    splitLines (joinLines ls) = ls := by
  cases ls with
  | nil => exact absurd rfl hne
  | cons l r => exact splitLines_join_aux l r (h l (by simp)) (fun m hm => h m (by simp [hm]))

theorem flatMap_nl_shift (r : List Str) : r.flatMap ('\n' :: ·) ++ ['\n'] = '\n' :: render r := by
  induction r with
  | nil => rfl
  | cons m r ih =>
    simp only [List.flatMap_cons, render, List.cons_append, List.append_assoc, List.nil_append] at ih ⊢
    rw [ih]

/-- the writers' `"\n".join(smol) + "\n"` -/
theorem render_eq_join (ls : List Str) (hne : ls ≠ []) : render ls = joinLines ls ++ ['\n'] := by
  cases ls with
  | nil => exact absurd rfl hne
  | cons l r =>
    simp only [joinLines, List.append_assoc, flatMap_nl_shift]
    simp [render]

theorem joinLines_clean (ls : List Str) (h : ∀ l ∈ ls, Clean l) : ∀ c ∈ joinLines ls, (c == '#') = false := by
  intro c hc
  cases ls with
  | nil => cases hc
  | cons l r =>
    simp only [joinLines, List.mem_append, List.mem_flatMap, List.mem_cons] at hc
    rcases hc with hc | ⟨m, hm, rfl | hc⟩
    · exact (h l (by simp) c hc).1
    · decide
    · exact (h m (by simp [hm]) c hc).1

/-! ## filterComments on comment-free text -/

theorem filterComments_id (s : Str) (hs : ∀ c ∈ s, (c == '#') = false) : filterComments s = s := by
  have := fcGo_plain none s [] hs
  simpa [filterComments, fcGo] using this

/-! ## strip -/

theorem blank_or_nonblank (l : Str) : (∀ c ∈ l, isWs c = true) ∨ NonBlank l := by
  induction l with
  | nil => left; intro c hc; cases hc
  | cons c l ih =>
    cases hc : isWs c with
    | false => right; exact ⟨c, by simp, hc⟩
    | true =>
      rcases ih with h | ⟨x, hx, hx'⟩
      · left; intro y hy; rw [List.mem_cons] at hy; rcases hy with rfl | hy; exact hc; exact h y hy
      · right; exact ⟨x, by simp [hx], hx'⟩

theorem nonblank_reverse {l : Str} (h : NonBlank l) : NonBlank l.reverse := by
  obtain ⟨c, hc, hw⟩ := h; exact ⟨c, by simpa using hc, hw⟩

theorem stripL_ws_prefix (p s : Str) (hp : ∀ c ∈ p, isWs c = true) : stripL (p ++ s) = stripL s := by
  unfold stripL; rw [List.dropWhile_append_of_pos hp]

theorem stripL_append_nonblank (l t : Str) (h : NonBlank l) : stripL (l ++ t) = stripL l ++ t := by
  induction l with
  | nil => obtain ⟨c, hc, _⟩ := h; cases hc
  | cons c l ih =>
    cases hc : isWs c with
    | false => simp [stripL, hc]
    | true =>
      have hl : NonBlank l := by
        obtain ⟨x, hx, hw⟩ := h
        rw [List.mem_cons] at hx
        rcases hx with rfl | hx
        · rw [hc] at hw; cases hw
        · exact ⟨x, hx, hw⟩
      have := ih hl
      simp only [stripL] at this ⊢
      simp [List.dropWhile, hc, this]

theorem stripR_ws_suffix (s q : Str) (hq : ∀ c ∈ q, isWs c = true) : stripR (s ++ q) = stripR s := by
  unfold stripR
  rw [List.reverse_append, List.dropWhile_append_of_pos (by simpa using hq)]

theorem stripR_append_nonblank (t l : Str) (h : NonBlank l) : stripR (t ++ l) = t ++ stripR l := by
  have := stripL_append_nonblank l.reverse t.reverse (nonblank_reverse h)
  unfold stripR
  unfold stripL at this
  rw [List.reverse_append, this]
  simp

theorem stripL_blank (l : Str) (h : ∀ c ∈ l, isWs c = true) : stripL l = [] := dw_all l h
theorem stripR_blank (l : Str) (h : ∀ c ∈ l, isWs c = true) : stripR l = [] := by
  unfold stripR; rw [dw_all l.reverse (by simpa using h)]; rfl

theorem stripL_head (c : Char) (l : Str) (hc : isWs c = false) : stripL (c :: l) = c :: l := by
  simp [stripL, List.dropWhile, hc]

/-- `rstrip` keeps a non-blank first character in place -/
theorem stripR_head (c : Char) (l : Str) (hc : isWs c = false) : ∃ x, stripR (c :: l) = c :: x := by
  rcases blank_or_nonblank l with h | h
  · refine ⟨[], ?_⟩
    have : c :: l = [c] ++ l := rfl
    rw [this, stripR_ws_suffix [c] l h]
    simp [stripR, hc]
  · refine ⟨stripR l, ?_⟩
    have : c :: l = [c] ++ l := rfl
    rw [this, stripR_append_nonblank [c] l h]; rfl

theorem stripL_stripR_comm (l : Str) : stripL (stripR l) = stripR (stripL l) := by
  induction l with
  | nil => rfl
  | cons c l ih =>
    cases hc : isWs c with
    | false =>
      obtain ⟨x, hx⟩ := stripR_head c l hc
      rw [stripL_head c l hc, hx, stripL_head c x hc]
    | true =>
      have hcl : c :: l = [c] ++ l := rfl
      have h1 : stripL (c :: l) = stripL l := by
        rw [hcl]; exact stripL_ws_prefix [c] l (by intro x hx; simp at hx; subst hx; exact hc)
      rcases blank_or_nonblank l with h | h
      · have hall : ∀ x ∈ c :: l, isWs x = true := by
          intro x hx; rw [List.mem_cons] at hx; rcases hx with rfl | hx; exact hc; exact h x hx
        rw [stripR_blank _ hall, h1, stripL_blank l h]; rfl
      · rw [h1, hcl, stripR_append_nonblank [c] l h,
          stripL_ws_prefix [c] _ (by intro x hx; simp at hx; subst hx; exact hc), ih]

theorem dropWhile_idem (p : Char → Bool) (l : Str) : (l.dropWhile p).dropWhile p = l.dropWhile p := by
  induction l with
  | nil => rfl
  | cons c l ih =>
    cases hc : p c with
    | false => simp [List.dropWhile, hc]
    | true => simpa [List.dropWhile, hc] using ih

theorem stripL_stripL (l : Str) : stripL (stripL l) = stripL l := dropWhile_idem _ l
theorem stripR_stripR (l : Str) : stripR (stripR l) = stripR l := by
  unfold stripR; rw [List.reverse_reverse, dropWhile_idem]

theorem strip_stripL (l : Str) : strip (stripL l) = strip l := by unfold strip; rw [stripL_stripL]
theorem strip_stripR (l : Str) : strip (stripR l) = strip l := by
  unfold strip; rw [stripL_stripR_comm, stripR_stripR]
theorem strip_strip (l : Str) : strip (strip l) = strip l := by
  show strip (stripR (stripL l)) = _
  rw [strip_stripR, strip_stripL]

/-- whitespace around any text is removed by the outer `strip` -/
theorem strip_frame (p s q : Str) (hp : ∀ c ∈ p, isWs c = true) (hq : ∀ c ∈ q, isWs c = true) :
    strip (p ++ s ++ q) = strip s := by
  unfold strip
  rw [List.append_assoc, stripL_ws_prefix p _ hp, ← stripL_stripR_comm, stripR_ws_suffix s q hq, stripL_stripR_comm]

theorem mem_stripL {l : Str} {c : Char} (h : c ∈ stripL l) : c ∈ l :=
  (List.dropWhile_sublist _).subset h
theorem mem_stripR {l : Str} {c : Char} (h : c ∈ stripR l) : c ∈ l := by
  unfold stripR at h
  rw [List.mem_reverse] at h
  have := (List.dropWhile_sublist _).subset h
  simpa using this
theorem mem_strip {l : Str} {c : Char} (h : c ∈ strip l) : c ∈ l := mem_stripL (mem_stripR h)

theorem nonblank_stripL {l : Str} (h : NonBlank l) : NonBlank (stripL l) := by
  induction l with
  | nil => obtain ⟨c, hc, _⟩ := h; cases hc
  | cons c l ih =>
    cases hc : isWs c with
    | false => rw [stripL_head c l hc]; exact ⟨c, by simp, hc⟩
    | true =>
      have hl : NonBlank l := by
        obtain ⟨x, hx, hw⟩ := h
        rw [List.mem_cons] at hx
        rcases hx with rfl | hx
        · rw [hc] at hw; cases hw
        · exact ⟨x, hx, hw⟩
      have hcl : c :: l = [c] ++ l := rfl
      rw [hcl, stripL_ws_prefix [c] l (by intro x hx; simp at hx; subst hx; exact hc)]
      exact ih hl

theorem nonblank_of_tight {l : Str} (h : Tight l) : NonBlank l := by
  cases l with
  | nil => simp [Tight] at h
  | cons c t => exact ⟨c, by simp, by simpa [Tight] using h.1⟩

theorem stripL_headOk {l : Str} (h : l.head?.map isWs = some false) : stripL l = l := by
  cases l with
  | nil => simp at h
  | cons c t => exact stripL_head c t (by simpa using h)

theorem wsbs_ws {c : Char} (h : isWsBs c = false) : isWs c = false := by
  simp only [isWsBs, Bool.or_eq_false_iff] at h; exact h.1

theorem getLast?_split {l : Str} {q : Char → Bool} (h : l.getLast?.map q = some false) :
    ∃ ys b, l = ys ++ [b] ∧ q b = false := by
  cases hg : l.getLast? with
  | none => rw [hg] at h; simp at h
  | some b =>
    rw [hg] at h
    obtain ⟨ys, hys⟩ := List.getLast?_eq_some_iff.mp hg
    exact ⟨ys, b, hys, by simpa using h⟩

theorem stripR_lastOk {l : Str} (h : l.getLast?.map isWsBs = some false) : stripR l = l := by
  obtain ⟨ys, b, hys, hb⟩ := getLast?_split h
  have hbw := wsbs_ws hb
  rw [hys]
  unfold stripR
  simp [hbw]

theorem strip_tight {l : Str} (h : Tight l) : strip l = l := by
  unfold strip; rw [stripL_headOk h.1, stripR_lastOk h.2]

theorem headOk_append_left {a : Str} (b : Str) (h : a.head?.map isWs = some false) :
    (a ++ b).head?.map isWs = some false := by
  cases a with
  | nil => simp at h
  | cons c t => simpa using h

theorem lastOk_append_right (a : Str) {b : Str} (h : b.getLast?.map isWsBs = some false) :
    (a ++ b).getLast?.map isWsBs = some false := by
  obtain ⟨ys, x, hys, hx⟩ := getLast?_split h
  rw [hys, ← List.append_assoc, List.getLast?_concat]
  simpa using hx

theorem lastOk_cons (c : Char) {b : Str} (h : b.getLast?.map isWsBs = some false) :
    (c :: b).getLast?.map isWsBs = some false := lastOk_append_right [c] h

theorem tight_of_all {l : Str} (hne : l ≠ []) (h : ∀ c ∈ l, isWsBs c = false) : Tight l := by
  constructor
  · cases l with
    | nil => exact absurd rfl hne
    | cons c t => simpa using wsbs_ws (h c (by simp))
  · cases hg : l.getLast? with
    | none => exact absurd (List.getLast?_eq_none_iff.mp hg) hne
    | some b =>
      obtain ⟨ys, hys⟩ := List.getLast?_eq_some_iff.mp hg
      simpa using h b (by simp [hys])

/-! ## the text of joined lines, read back -/

theorem textLines_clean_line (l : Str) (h : Clean l) : textLines l = [strip l] := by
  have hs : Clean (strip l) := clean_of_subset (fun c hc => mem_strip hc) h
  unfold textLines
  rw [filterComments_id _ (fun c hc => (hs c hc).1), splitLines_line _ (fun c hc => (hs c hc).2)]
  simp [strip_strip]

/-- the outer `strip` of joined lines only touches the first and the last line (if these are not blank) -/
theorem strip_join3 (l0 : Str) (mid : List Str) (ln : Str) (hb0 : NonBlank l0) (hbn : NonBlank ln) :
    strip (joinLines (l0 :: (mid ++ [ln]))) = joinLines (stripL l0 :: (mid ++ [stripR ln])) := by
  have e1 : joinLines (l0 :: (mid ++ [ln])) = l0 ++ (mid.flatMap ('\n' :: ·) ++ '\n' :: ln) := by
    simp [joinLines, List.flatMap_append]
  rw [e1]
  unfold strip
  rw [stripL_append_nonblank l0 _ hb0]
  have : stripL l0 ++ (mid.flatMap ('\n' :: ·) ++ '\n' :: ln) = (stripL l0 ++ (mid.flatMap ('\n' :: ·) ++ ['\n'])) ++ ln := by
    simp
  rw [this, stripR_append_nonblank _ ln hbn]
  simp [joinLines, List.flatMap_append]

theorem textLines_join3 (l0 : Str) (mid : List Str) (ln : Str) (h0 : Clean l0) (hm : ∀ l ∈ mid, Clean l)
    (hn : Clean ln) (hb0 : NonBlank l0) (hbn : NonBlank ln) :
    textLines (joinLines (l0 :: (mid ++ [ln]))) = strip l0 :: (mid.map strip ++ [strip ln]) := by
  have c0 : Clean (stripL l0) := clean_of_subset (fun c hc => mem_stripL hc) h0
  have cn : Clean (stripR ln) := clean_of_subset (fun c hc => mem_stripR hc) hn
  have hall : ∀ l ∈ stripL l0 :: (mid ++ [stripR ln]), Clean l := by
    intro l hl
    simp only [List.mem_cons, List.mem_append, List.not_mem_nil, or_false] at hl
    rcases hl with rfl | hl | rfl
    · exact c0
    · exact hm l hl
    · exact cn
  unfold textLines
  rw [strip_join3 l0 mid ln hb0 hbn, filterComments_id _ (joinLines_clean _ hall),
    splitLines_join _ (by simp) (fun l hl c hc => (hall l hl c hc).2)]
  simp [strip_stripL, strip_stripR]

/-- **the join/split core**: on lines without `#` and newline whose first and last line are not blank,
`strip` → `filter_comments` → `split("\n")` → per-line `strip` of the joined text is the per-line `strip` of the lines -/
theorem textLines_join (ls : List Str) (hc : ∀ l ∈ ls, Clean l)
    (hfirst : ∀ l, ls.head? = some l → NonBlank l) (hlast : ∀ l, ls.getLast? = some l → NonBlank l)
    (hne : ls ≠ []) : textLines (joinLines ls) = ls.map strip := by
  cases ls with
  | nil => exact absurd rfl hne
  | cons l0 rest =>
    rcases List.eq_nil_or_concat rest with rfl | ⟨mid, ln, hr⟩
    · simpa [joinLines] using textLines_clean_line l0 (hc l0 (by simp))
    · rw [List.concat_eq_append] at hr
      subst hr
      have hl : (l0 :: (mid ++ [ln])).getLast? = some ln := by
        show ((l0 :: mid) ++ [ln]).getLast? = some ln
        exact List.getLast?_concat ..
      exact textLines_join3 l0 mid ln (hc l0 (by simp)) (fun l hl => hc l (by simp [hl])) (hc ln (by simp))
        (hfirst l0 rfl) (hlast ln hl) |>.trans (by simp)

/-- the same for the writers' `"\n".join(lines) + "\n"` -/
theorem textLines_render (ls : List Str) (hc : ∀ l ∈ ls, Clean l)
    (hfirst : ∀ l, ls.head? = some l → NonBlank l) (hlast : ∀ l, ls.getLast? = some l → NonBlank l)
    (hne : ls ≠ []) : textLines (render ls) = ls.map strip := by
  have : strip (render ls) = strip (joinLines ls) := by
    rw [render_eq_join ls hne]
    have := strip_frame [] (joinLines ls) ['\n'] (by simp) (by intro c hc; simp at hc; subst hc; decide)
    simpa using this
  have e : textLines (render ls) = textLines (joinLines ls) := by unfold textLines; rw [this]
  rw [e, textLines_join ls hc hfirst hlast hne]

/-- whitespace (blanks, tabs, empty lines, …) before and after a text does not change its lines -/
theorem textLines_frame (p s q : Str) (hp : ∀ c ∈ p, isWs c = true) (hq : ∀ c ∈ q, isWs c = true) :
    textLines (p ++ s ++ q) = textLines s := by
  unfold textLines; rw [strip_frame p s q hp hq]

/-! ## comments at the end of lines -/

/-- a line with an optional `#comment` appended -/
def withCom (p : Str × Option Str) : Str :=
  match p.2 with
  | none => p.1
  | some c => p.1 ++ '#' :: c

/-- the line part is clean; if there is a comment, the line part does not end in a backslash and the comment holds
no newline -/
def ComOk (p : Str × Option Str) : Prop :=
  Clean p.1 ∧ ∀ c, p.2 = some c → lastOr none p.1 ≠ some '\\' ∧ ∀ x ∈ c, (x == '\n') = false

theorem lastOr_ne (prev : Option Char) (s : Str) (hp : prev ≠ some '\\') (hs : lastOr none s ≠ some '\\') :
    lastOr prev s ≠ some '\\' := by
  cases s with
  | nil => exact hp
  | cons x t => exact hs

theorem fcGo_nl (b : Bool) (pv : Option Char) (y : Str) : fcGo b pv ('\n' :: y) = '\n' :: fcGo false (some '\n') y := by
  cases b <;> simp [fcGo]

/-- one line (with its comment) in front of a tail that is empty or starts with a newline -/
theorem fcGo_line (p : Str × Option Str) (t r : Str) (ht : ∀ b pv, fcGo b pv t = r) (prev : Option Char)
    (hprev : prev ≠ some '\\') (hp : ComOk p) : fcGo false prev (withCom p ++ t) = p.1 ++ r := by
  obtain ⟨s, c⟩ := p
  obtain ⟨hs, hc⟩ := hp
  cases c with
  | none =>
    simp only [withCom]
    rw [fcGo_plain prev s t (fun x hx => (hs x hx).1), ht]
  | some c =>
    obtain ⟨hl, hcn⟩ := hc c rfl
    have hpv : (lastOr prev s != some '\\') = true := by
      simpa [bne_iff_ne] using lastOr_ne prev s hprev hl
    simp only [withCom]
    rw [List.append_assoc, fcGo_plain prev s _ (fun x hx => (hs x hx).1)]
    have : fcGo false (lastOr prev s) ('#' :: c ++ t) = fcGo true (lastOr prev s) (c ++ t) := by
      simp [fcGo, hpv]
    rw [this, fcGo_comment_body _ c t hcn, ht]

theorem fcGo_tail (ps : List (Str × Option Str)) (hps : ∀ p ∈ ps, ComOk p) (b : Bool) (pv : Option Char) :
    fcGo b pv ((ps.map withCom).flatMap ('\n' :: ·)) = (ps.map (·.1)).flatMap ('\n' :: ·) := by
  induction ps generalizing b pv with
  | nil => cases b <;> rfl
  | cons p ps ih =>
    have ih' := ih (fun q hq => hps q (by simp [hq]))
    simp only [List.map_cons, List.flatMap_cons, List.cons_append]
    rw [fcGo_nl, fcGo_line p _ _ ih' (some '\n') (by decide) (hps p (by simp))]

/-- `filter_comments` on joined lines removes exactly the comments -/
theorem filterComments_join (ps : List (Str × Option Str)) (hps : ∀ p ∈ ps, ComOk p) :
    filterComments (joinLines (ps.map withCom)) = joinLines (ps.map (·.1)) := by
  cases ps with
  | nil => rfl
  | cons p ps =>
    simp only [List.map_cons, joinLines, filterComments]
    exact fcGo_line p _ _ (fcGo_tail ps (fun q hq => hps q (by simp [hq]))) none (by simp) (hps p (by simp))

def lstripCom (p : Str × Option Str) : Str × Option Str := (stripL p.1, p.2)
def rstripCom (p : Str × Option Str) : Str × Option Str :=
  match p.2 with
  | none => (stripR p.1, none)
  | some c => (p.1, some ((stripR ('#' :: c)).drop 1))

theorem hash_not_ws : isWs '#' = false := by decide

theorem stripL_withCom (p : Str × Option Str) (h : NonBlank p.1) : stripL (withCom p) = withCom (lstripCom p) := by
  obtain ⟨s, c⟩ := p
  cases c with
  | none => rfl
  | some c => simp only [withCom, lstripCom]; exact stripL_append_nonblank s _ h

theorem stripR_withCom (p : Str × Option Str) : stripR (withCom p) = withCom (rstripCom p) := by
  obtain ⟨s, c⟩ := p
  cases c with
  | none => rfl
  | some c =>
    obtain ⟨x, hx⟩ := stripR_head '#' c hash_not_ws
    simp only [withCom, rstripCom]
    rw [stripR_append_nonblank s _ ⟨'#', by simp, hash_not_ws⟩, hx]
    rfl

theorem lastOr_append (prev : Option Char) (a b : Str) : lastOr prev (a ++ b) = lastOr (lastOr prev a) b := by
  induction a generalizing prev with
  | nil => rfl
  | cons x a ih => exact ih (some x)

/-- a line whose last character is neither blank nor a backslash may take a comment -/
theorem lastOr_of_lastOk {l : Str} (h : l.getLast?.map isWsBs = some false) : lastOr none l ≠ some '\\' := by
  obtain ⟨ys, b, hys, hb⟩ := getLast?_split h
  rw [hys, lastOr_append]
  show some b ≠ some '\\'
  intro hbb
  injection hbb with hbb
  subst hbb
  exact absurd hb (by decide)

theorem lastOr_stripL (s : Str) (h : NonBlank s) : lastOr none (stripL s) = lastOr none s := by
  have hs : s = s.takeWhile isWs ++ stripL s := (List.takeWhile_append_dropWhile).symm
  have hne := nonblank_stripL h
  cases hd : stripL s with
  | nil => rw [hd] at hne; obtain ⟨c, hc, _⟩ := hne; cases hc
  | cons x t =>
    rw [hs, lastOr_append, hd]
    rfl

theorem comOk_lstrip (p : Str × Option Str) (h : ComOk p) (hb : NonBlank p.1) : ComOk (lstripCom p) := by
  obtain ⟨hs, hc⟩ := h
  refine ⟨clean_of_subset (fun c hc => mem_stripL hc) hs, ?_⟩
  intro c hcc
  obtain ⟨h1, h2⟩ := hc c hcc
  exact ⟨by simpa [lstripCom, lastOr_stripL p.1 hb] using h1, h2⟩

theorem comOk_rstrip (p : Str × Option Str) (h : ComOk p) : ComOk (rstripCom p) := by
  obtain ⟨s, c⟩ := p
  obtain ⟨hs, hc⟩ := h
  cases c with
  | none =>
    refine ⟨clean_of_subset (fun c hc => mem_stripR hc) hs, ?_⟩
    intro c hcc; cases hcc
  | some c =>
    obtain ⟨h1, h2⟩ := hc c rfl
    refine ⟨hs, ?_⟩
    intro c' hcc
    simp only [rstripCom, Option.some.injEq] at hcc
    subst hcc
    refine ⟨h1, ?_⟩
    intro x hx
    have hx' : x ∈ '#' :: c := mem_stripR (List.mem_of_mem_drop hx)
    rw [List.mem_cons] at hx'
    rcases hx' with rfl | hx'
    · decide
    · exact h2 x hx'

theorem strip_lstripCom (p : Str × Option Str) : strip (lstripCom p).1 = strip p.1 := strip_stripL p.1
theorem strip_rstripCom (p : Str × Option Str) : strip (rstripCom p).1 = strip p.1 := by
  obtain ⟨s, c⟩ := p
  cases c with
  | none => exact strip_stripR s
  | some c => rfl

theorem nonblank_withCom (p : Str × Option Str) (h : NonBlank p.1) : NonBlank (withCom p) := by
  obtain ⟨s, c⟩ := p
  obtain ⟨x, hx, hw⟩ := h
  cases c with
  | none => exact ⟨x, hx, hw⟩
  | some c => exact ⟨x, by simp [withCom]; exact Or.inl hx, hw⟩

theorem textLines_of_comOk (ps : List (Str × Option Str)) (hps : ∀ p ∈ ps, ComOk p) (hne : ps ≠ []) :
    (splitLines (filterComments (joinLines (ps.map withCom)))).map strip = (ps.map (·.1)).map strip := by
  rw [filterComments_join ps hps, splitLines_join _ (by simpa using hne)]
  intro l hl c hc
  rw [List.mem_map] at hl
  obtain ⟨p, hp, rfl⟩ := hl
  exact ((hps p hp).1 c hc).2

/-- **comments lifted to the text**: lines with `#comment` appended (line parts clean, not ending in a backslash,
first and last line part not blank) read back as the stripped line parts -/
theorem textLines_comments (ps : List (Str × Option Str)) (hps : ∀ p ∈ ps, ComOk p)
    (hfirst : ∀ p, ps.head? = some p → NonBlank p.1) (hlast : ∀ p, ps.getLast? = some p → NonBlank p.1)
    (hne : ps ≠ []) : textLines (joinLines (ps.map withCom)) = (ps.map (·.1)).map strip := by
  cases ps with
  | nil => exact absurd rfl hne
  | cons p0 rest =>
    have hb0 := hfirst p0 rfl
    rcases List.eq_nil_or_concat rest with rfl | ⟨mid, pn, hr⟩
    · have e : strip (joinLines ([p0].map withCom)) = joinLines ([rstripCom (lstripCom p0)].map withCom) := by
        simp only [List.map_cons, List.map_nil, joinLines, List.flatMap_nil, List.append_nil]
        unfold strip
        rw [stripL_withCom p0 hb0, stripR_withCom]
      unfold textLines
      rw [e, textLines_of_comOk _ (by
        intro p hp; simp only [List.mem_cons, List.not_mem_nil, or_false] at hp; subst hp
        exact comOk_rstrip _ (comOk_lstrip p0 (hps p0 (by simp)) hb0)) (by simp)]
      simp [strip_rstripCom, strip_lstripCom]
    · rw [List.concat_eq_append] at hr
      subst hr
      have hl : (p0 :: (mid ++ [pn])).getLast? = some pn := by
        show ((p0 :: mid) ++ [pn]).getLast? = some pn
        exact List.getLast?_concat ..
      have hbn := hlast pn hl
      have e : strip (joinLines ((p0 :: (mid ++ [pn])).map withCom))
          = joinLines ((lstripCom p0 :: (mid ++ [rstripCom pn])).map withCom) := by
        simp only [List.map_cons, List.map_append, List.map_nil]
        rw [strip_join3 _ _ _ (nonblank_withCom p0 hb0) (nonblank_withCom pn hbn), stripL_withCom p0 hb0,
          stripR_withCom]
      unfold textLines
      rw [e, textLines_of_comOk _ (by
        intro p hp
        simp only [List.mem_cons, List.mem_append, List.not_mem_nil, or_false] at hp
        rcases hp with rfl | hp | rfl
        · exact comOk_lstrip p0 (hps p0 (by simp)) hb0
        · exact hps p (by simp [hp])
        · exact comOk_rstrip _ (hps pn (by simp))) (by simp)]
      simp [strip_rstripCom, strip_lstripCom]

end QcelVerif.MolText
