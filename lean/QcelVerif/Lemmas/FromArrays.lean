import QcelVerif.Model.FromArrays
/-!
Helper lemmas for C04 (nothing here is a property statement): `mapE`, the bond sort,
ASCII case maps, `rows3`, the too-close screen and `np.split` slice arithmetic.
-/
namespace QcelVerif.FromArrays

/-! ### `mapE` -/

theorem mapE_ok_cons {α β ε} {f : α → Except ε β} {a : α} {t : List α} {bs : List β}
    (h : mapE f (a :: t) = .ok bs) : ∃ b bt, bs = b :: bt ∧ f a = .ok b ∧ mapE f t = .ok bt := by
  unfold mapE at h
  split at h
  · cases h
  · rename_i b hb
    split at h
    · cases h
    · rename_i bt hbt
      cases h
      exact ⟨b, bt, rfl, hb, hbt⟩

theorem mapE_ok_mem {α β ε} {f : α → Except ε β} : ∀ {l : List α} {bs : List β},
    mapE f l = .ok bs → ∀ b ∈ bs, ∃ a ∈ l, f a = .ok b
  | [], bs, h, b, hb => by
      simp [mapE] at h; subst h; cases hb
  | a :: t, bs, h, b, hb => by
      obtain ⟨b0, bt, rfl, h0, ht⟩ := mapE_ok_cons h
      rcases List.mem_cons.1 hb with rfl | hb
      · exact ⟨a, List.mem_cons_self .., h0⟩
      · obtain ⟨a', ha', hf⟩ := mapE_ok_mem ht b hb
        exact ⟨a', List.mem_cons_of_mem _ ha', hf⟩

theorem mapE_ok_length {α β ε} {f : α → Except ε β} : ∀ {l : List α} {bs : List β},
    mapE f l = .ok bs → bs.length = l.length
  | [], bs, h => by simp [mapE] at h; subst h; rfl
  | a :: t, bs, h => by
      obtain ⟨b0, bt, rfl, _, ht⟩ := mapE_ok_cons h
      simp [mapE_ok_length ht]

/-- if `f (g b) = ok b` for every `b`, mapping `f` over `bs.map g` gives `bs` back -/
theorem mapE_map_of_forall {α β ε} {f : α → Except ε β} {g : β → α} : ∀ {bs : List β},
    (∀ b ∈ bs, f (g b) = .ok b) → mapE f (bs.map g) = .ok bs
  | [], _ => rfl
  | b :: t, h => by
      have h0 := h b (List.mem_cons_self ..)
      have ht := mapE_map_of_forall (f := f) (g := g) (bs := t) (fun b hb => h b (List.mem_cons_of_mem _ hb))
      simp [mapE, h0, ht]

/-- an element on which `f` fails makes `mapE` fail -/
theorem mapE_error_of_mem {α β ε} {f : α → Except ε β} : ∀ {l : List α} {a : α},
    a ∈ l → (∀ b, f a ≠ .ok b) → ∀ bs, mapE f l ≠ .ok bs
  | x :: t, a, ha, hf, bs, h => by
      obtain ⟨b0, bt, rfl, h0, ht⟩ := mapE_ok_cons h
      rcases List.mem_cons.1 ha with rfl | ha
      · exact hf b0 h0
      · exact mapE_error_of_mem ha hf bt ht

/-- if every failure of `f` is `e`, every failure of `mapE f` is `e` -/
theorem mapE_error_class {α β ε} {f : α → Except ε β} {P : ε → Prop} : ∀ {l : List α} {e : ε},
    (∀ a e', f a = .error e' → P e') → mapE f l = .error e → P e
  | [], e, _, h => by simp [mapE] at h
  | a :: t, e, hf, h => by
      unfold mapE at h
      split at h
      · rename_i e' he'
        cases h; exact hf a _ he'
      · split at h
        · rename_i e' he'
          cases h; exact mapE_error_class hf he'
        · cases h

/-! ### ASCII case maps -/

def lowers : List Char := "abcdefghijklmnopqrstuvwxyz".toList

theorem lowerC_lowers : ∀ d ∈ lowers, lowerC d = d := by decide

theorem lowerC_range (c : Char) : lowerC c = c ∨ lowerC c ∈ lowers := by
  unfold lowerC
  split <;> first | (left; rfl) | (right; decide)

theorem lowerC_idem (c : Char) : lowerC (lowerC c) = lowerC c := by
  rcases lowerC_range c with h | h
  · rw [h, h]
  · exact lowerC_lowers _ h

theorem lower_idem (s : List Char) : lower (lower s) = lower s := by
  simp [lower, List.map_map, Function.comp_def, lowerC_idem]

theorem capitalize_sAngstrom : capitalize sAngstrom = sAngstrom := by decide
theorem capitalize_sBohr : capitalize sBohr = sBohr := by decide
theorem sAngstrom_ne_sBohr : sAngstrom ≠ sBohr := by decide

/-! ### the bond sort -/

theorem bondLe_total (x y : Bond) : (bondLe x y || bondLe y x) = true := by
  obtain ⟨a, b, o⟩ := x
  obtain ⟨a', b', o'⟩ := y
  simp only [bondLe, Bool.or_eq_true, Bool.and_eq_true, decide_eq_true_eq, beq_iff_eq]
  rcases Nat.lt_trichotomy a a' with h | h | h
  · left; left; exact h
  · rcases Nat.lt_trichotomy b b' with h' | h' | h'
    · left; right; exact ⟨h, Or.inl h'⟩
    · rcases @Rat.le_total o o' with ho | ho
      · left; right; exact ⟨h, Or.inr ⟨h', ho⟩⟩
      · right; right; exact ⟨h.symm, Or.inr ⟨h'.symm, ho⟩⟩
    · right; right; exact ⟨h.symm, Or.inl h'⟩
  · right; left; exact h

theorem bondLe_trans (x y z : Bond) (h1 : bondLe x y = true) (h2 : bondLe y z = true) :
    bondLe x z = true := by
  obtain ⟨a, b, o⟩ := x
  obtain ⟨a', b', o'⟩ := y
  obtain ⟨a'', b'', o''⟩ := z
  simp only [bondLe, Bool.or_eq_true, Bool.and_eq_true, decide_eq_true_eq, beq_iff_eq] at *
  rcases h1 with h1 | ⟨e1, h1⟩
  · rcases h2 with h2 | ⟨e2, _⟩
    · left; omega
    · left; omega
  · rcases h2 with h2 | ⟨e2, h2⟩
    · left; omega
    · right
      refine ⟨by omega, ?_⟩
      rcases h1 with h1 | ⟨f1, h1⟩
      · rcases h2 with h2 | ⟨f2, _⟩
        · left; omega
        · left; omega
      · rcases h2 with h2 | ⟨f2, h2⟩
        · left; omega
        · right; exact ⟨by omega, Rat.le_trans h1 h2⟩

theorem mem_insertBond {x z : Bond} : ∀ {l : List Bond}, z ∈ insertBond x l ↔ z = x ∨ z ∈ l
  | [] => by simp [insertBond]
  | y :: t => by
      unfold insertBond
      split
      · simp
      · simp only [List.mem_cons, mem_insertBond (l := t)]
        constructor
        · rintro (h | h | h)
          · exact Or.inr (Or.inl h)
          · exact Or.inl h
          · exact Or.inr (Or.inr h)
        · rintro (h | h | h)
          · exact Or.inr (Or.inl h)
          · exact Or.inl h
          · exact Or.inr (Or.inr h)

theorem mem_sortBonds {z : Bond} : ∀ {l : List Bond}, z ∈ sortBonds l ↔ z ∈ l
  | [] => by simp [sortBonds]
  | x :: t => by
      simp only [sortBonds, mem_insertBond, mem_sortBonds (l := t), List.mem_cons]

theorem pairwise_insertBond (x : Bond) : ∀ {l : List Bond},
    l.Pairwise (fun a b => bondLe a b = true) → (insertBond x l).Pairwise (fun a b => bondLe a b = true)
  | [], _ => by simp [insertBond]
  | y :: t, h => by
      have hy := List.pairwise_cons.1 h
      unfold insertBond
      split
      · rename_i hxy
        refine List.pairwise_cons.2 ⟨?_, h⟩
        intro z hz
        rcases List.mem_cons.1 hz with rfl | hz
        · exact hxy
        · exact bondLe_trans _ _ _ hxy (hy.1 z hz)
      · rename_i hxy
        have hyx : bondLe y x = true := by
          have := bondLe_total x y
          simp only [Bool.or_eq_true] at this
          rcases this with h' | h'
          · exact absurd h' hxy
          · exact h'
        refine List.pairwise_cons.2 ⟨?_, pairwise_insertBond x hy.2⟩
        intro z hz
        rcases mem_insertBond.1 hz with rfl | hz
        · exact hyx
        · exact hy.1 z hz

theorem pairwise_sortBonds : ∀ (l : List Bond), (sortBonds l).Pairwise (fun a b => bondLe a b = true)
  | [] => by simp [sortBonds]
  | x :: t => by
      simp only [sortBonds]
      exact pairwise_insertBond x (pairwise_sortBonds t)

theorem sortBonds_of_pairwise : ∀ {l : List Bond},
    l.Pairwise (fun a b => bondLe a b = true) → sortBonds l = l
  | [], _ => rfl
  | x :: t, h => by
      have hx := List.pairwise_cons.1 h
      simp only [sortBonds, sortBonds_of_pairwise hx.2]
      cases t with
      | nil => rfl
      | cons y t' =>
        have : bondLe x y = true := hx.1 y (List.mem_cons_self ..)
        simp [insertBond, this]

/-! ### geometry -/

theorem rows3_length : ∀ (g : List Rat) (rows : List R3), rows3 g = some rows → g.length = 3 * rows.length
  | [], rows, h => by simp [rows3] at h; subst h; rfl
  | [_], _, h => by simp [rows3] at h
  | [_, _], _, h => by simp [rows3] at h
  | x :: y :: z :: t, rows, h => by
      unfold rows3 at h
      split at h
      · rename_i r hr
        cases h
        have := rows3_length t r hr
        simp only [List.length_cons, this]; omega
      · cases h

theorem anyTooClose_false_iff (tc : Rat) : ∀ (rows : List R3),
    anyTooClose tc rows = false ↔ rows.Pairwise (fun p q => ¬ dist2 p q < tc * tc)
  | [] => by simp [anyTooClose]
  | p :: t => by
      simp only [anyTooClose, Bool.or_eq_false_iff, List.any_eq_false, decide_eq_true_eq,
        anyTooClose_false_iff tc t, List.pairwise_cons]

/-! ### Python slices and `np.split` -/

theorem pyClamp_le (n : Nat) (i : Int) : pyClamp n i ≤ n := by
  unfold pyClamp
  split
  · omega
  · exact Nat.min_le_right _ _

theorem pyClamp_zero (n : Nat) : pyClamp n 0 = 0 := by simp [pyClamp]

theorem pyClamp_self (n : Nat) : pyClamp n (n : Int) = n := by
  unfold pyClamp
  split
  · omega
  · simp

/-- consecutive (truncated) differences -/
def diffs : List Nat → List Nat
  | a :: b :: t => (b - a) :: diffs (b :: t)
  | _ => []

theorem length_pySlice {α} (l : List α) (a b : Int) :
    (pySlice l a b).length = pyClamp l.length b - pyClamp l.length a := by
  have := pyClamp_le l.length b
  simp only [pySlice, List.length_take, List.length_drop]
  omega

/-- the piece lengths depend on the length of the list only -/
theorem lengths_splitAux {α} (l : List α) : ∀ (ds : List Int),
    (splitAux l ds).map List.length = diffs (ds.map (pyClamp l.length))
  | [] => rfl
  | [_] => rfl
  | a :: b :: t => by
      simp only [splitAux, List.map_cons, diffs, length_pySlice, lengths_splitAux l (b :: t)]

theorem length_splitAux {α} (l : List α) : ∀ (ds : List Int), (splitAux l ds).length = ds.length - 1
  | [] => rfl
  | [_] => rfl
  | a :: b :: t => by
      simp only [splitAux, List.length_cons, length_splitAux l (b :: t)]; omega

theorem length_npSplit {α} (l : List α) (seps : List Int) : (npSplit l seps).length = seps.length + 1 := by
  simp [npSplit, length_splitAux]

/-- last element of a non-empty list given by head and tail -/
def lastOf : Nat → List Nat → Nat
  | a, [] => a
  | _, b :: t => lastOf b t

theorem le_lastOf : ∀ (a : Nat) (t : List Nat), (∀ d ∈ diffs (a :: t), d ≠ 0) → a ≤ lastOf a t
  | _, [], _ => Nat.le_refl _
  | a, b :: t, h => by
      have h0 : b - a ≠ 0 := h _ (by simp [diffs])
      have := le_lastOf b t (fun d hd => h d (by simp [diffs, hd]))
      simp only [lastOf]; omega

theorem take_drop_glue {α} (l : List α) (a b c : Nat) (hab : a ≤ b) (hbc : b ≤ c) :
    (l.drop a).take (b - a) ++ (l.drop b).take (c - b) = (l.drop a).take (c - a) := by
  have e1 : l.drop b = (l.drop a).drop (b - a) := by
    rw [List.drop_drop]; congr 1; omega
  have e2 : c - a = (b - a) + (c - b) := by omega
  rw [e1, e2, List.take_add]

/-- pieces with non-decreasing (here: strictly increasing) clamped cut points glue back to the
slice between the first and the last cut point -/
theorem flatten_splitAux {α} (l : List α) : ∀ (a : Int) (t : List Int),
    (∀ d ∈ diffs ((a :: t).map (pyClamp l.length)), d ≠ 0) →
    (splitAux l (a :: t)).flatten =
      (l.drop (pyClamp l.length a)).take
        (lastOf (pyClamp l.length a) (t.map (pyClamp l.length)) - pyClamp l.length a)
  | a, [], _ => by simp [splitAux, lastOf]
  | a, b :: t, h => by
      have h0 : pyClamp l.length b - pyClamp l.length a ≠ 0 := h _ (by simp [diffs])
      have hrest : ∀ d ∈ diffs ((b :: t).map (pyClamp l.length)), d ≠ 0 :=
        fun d hd => h d (by simp only [List.map_cons, diffs, List.mem_cons]; exact Or.inr (by simpa using hd))
      have ih := flatten_splitAux l b t hrest
      have hl := le_lastOf (pyClamp l.length b) (t.map (pyClamp l.length)) (by simpa using hrest)
      simp only [splitAux, List.flatten_cons, ih, pySlice, List.map_cons, lastOf]
      exact take_drop_glue l _ _ _ (by omega) hl

theorem lastOf_append (a : Nat) : ∀ (t : List Nat) (z : Nat), lastOf a (t ++ [z]) = z
  | [], _ => rfl
  | b :: t, z => by simp only [List.cons_append, lastOf]; exact lastOf_append b t z

/-- **cover**: if no piece of the split is empty, the pieces concatenate to the whole list -/
theorem flatten_npSplit {α} (l : List α) (seps : List Int)
    (h : ∀ p ∈ npSplit l seps, p ≠ []) : (npSplit l seps).flatten = l := by
  have hd : ∀ d ∈ diffs (((0 : Int) :: (seps ++ [(l.length : Int)])).map (pyClamp l.length)), d ≠ 0 := by
    rw [← lengths_splitAux]
    intro d hd
    simp only [List.mem_map] at hd
    obtain ⟨p, hp, rfl⟩ := hd
    have := h p hp
    intro h0
    exact this (List.length_eq_zero_iff.1 h0)
  have := flatten_splitAux l 0 (seps ++ [(l.length : Int)]) hd
  simp only [npSplit, this, List.map_append, List.map_cons, List.map_nil, lastOf_append,
    pyClamp_zero, pyClamp_self, List.drop_zero, Nat.sub_zero, List.take_length]

theorem pySlice_nil {α} (a b : Int) : pySlice ([] : List α) a b = [] := by simp [pySlice]

theorem splitAux_nil {α} : ∀ (ds : List Int), ∀ p ∈ splitAux ([] : List α) ds, p = []
  | [], p, h => by simp [splitAux] at h
  | [_], p, h => by simp [splitAux] at h
  | a :: b :: t, p, h => by
      simp only [splitAux, List.mem_cons] at h
      rcases h with rfl | h
      · exact pySlice_nil a b
      · exact splitAux_nil (b :: t) p h

theorem flatten_npSplit_nil {α} (seps : List Int) : (npSplit ([] : List α) seps).flatten = [] := by
  apply List.flatten_eq_nil_iff.2
  intro p hp
  exact splitAux_nil _ p hp

/-- two lists of the same length are cut into pieces of the same lengths -/
theorem npSplit_lengths_eq {α β} (l : List α) (l' : List β) (h : l.length = l'.length) (seps : List Int) :
    (npSplit l seps).map List.length = (npSplit l' seps).map List.length := by
  simp only [npSplit, lengths_splitAux, h]

end QcelVerif.FromArrays
