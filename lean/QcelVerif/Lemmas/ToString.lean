import QcelVerif.Model.ToString
import QcelVerif.Lemmas.FixedFmt
/-! Helper lemmas for the `to_string` model (C08). Core Lean only. -/
namespace QcelVerif.ToString
open QcelVerif.FixedFmt

instance {ε α} [DecidableEq ε] [DecidableEq α] : DecidableEq (Except ε α) := fun a b =>
  match a, b with
  | .ok x, .ok y => if h : x = y then isTrue (h ▸ rfl) else isFalse (fun e => h (Except.ok.inj e))
  | .error x, .error y => if h : x = y then isTrue (h ▸ rfl) else isFalse (fun e => h (Except.error.inj e))
  | .ok _, .error _ => isFalse (fun e => by cases e)
  | .error _, .ok _ => isFalse (fun e => by cases e)

/-! ### `_atoms_formatter` -/

/-- an atom is listed: real, or ghost with a non-empty ghost format -/
def shown (gfmt : Str) (a : Atom) : Bool := a.real || !gfmt.isEmpty

/-- the label the formatter gives an atom (`[]` when it gives none) -/
def labelOf (afmt gfmt : Str) (a : Atom) : Str :=
  match atomLabel afmt gfmt a with
  | .ok (some l) => l
  | _ => []

theorem map_some_ne_none {ε α} (x : Except ε α) : Except.map some x ≠ .ok none := by
  cases x <;> simp [Except.map]

theorem atomLabel_none {afmt gfmt : Str} {a : Atom} (h : atomLabel afmt gfmt a = .ok none) :
    shown gfmt a = false := by
  unfold atomLabel at h
  unfold shown
  cases hr : a.real
  · rw [hr] at h
    by_cases hg : gfmt.isEmpty = true
    · simp [hg]
    · simp only [Bool.false_eq_true, if_false, hg] at h
      exact absurd h (map_some_ne_none _)
  · rw [hr] at h
    simp only [if_true] at h
    exact absurd h (map_some_ne_none _)

theorem atomLabel_some {afmt gfmt : Str} {a : Atom} {l : Str} (h : atomLabel afmt gfmt a = .ok (some l)) :
    shown gfmt a = true := by
  unfold atomLabel at h
  unfold shown
  cases hr : a.real
  · rw [hr] at h
    by_cases hg : gfmt.isEmpty = true
    · simp [hg] at h
    · simp [hg]
  · simp

/-! ### `np.split` -/

theorem npSplit_length {α} (l : List α) : ∀ (seps : List Nat) (prev : Nat),
    (npSplit l prev seps).length = seps.length + 1
  | [], _ => rfl
  | s :: t, prev => by simp [npSplit, npSplit_length l t s]

/-- separators ascending from `prev` -/
def Ascending : Nat → List Nat → Prop
  | _, [] => True
  | prev, s :: t => prev ≤ s ∧ Ascending s t

theorem take_drop_append_drop {α} (l : List α) {a b : Nat} (h : a ≤ b) :
    (l.take b).drop a ++ l.drop b = l.drop a := by
  have h1 : l.drop a = (l.drop a).take (b - a) ++ (l.drop a).drop (b - a) := (List.take_append_drop _ _).symm
  rw [h1, List.drop_drop, List.drop_take]
  congr 2
  omega

/-! ### removing the fragment separators again -/

/-- a psi4/qchem reader: drop every `--` line and the charge/multiplicity line after it -/
def stripHeaders : Bool → List Str → List Str
  | _, [] => []
  | true, _ :: t => stripHeaders false t
  | false, l :: t => if l = lit "--" then stripHeaders true t else l :: stripHeaders false t

theorem stripHeaders_append_plain (b : List Str) (hb : ∀ l ∈ b, l ≠ lit "--") (r : List Str) :
    stripHeaders false (b ++ r) = b ++ stripHeaders false r := by
  induction b with
  | nil => rfl
  | cons x t ih =>
    have hx : x ≠ lit "--" := hb x (by simp)
    simp only [List.cons_append, stripHeaders, hx, if_false]
    rw [ih (fun l hl => hb l (by simp [hl]))]

/-! ### molpro dummy card -/

theorem ghostIndices_mem (atoms : List Atom) : ∀ (k n : Nat),
    n ∈ ghostIndices k atoms ↔ ∃ i a, atoms[i]? = some a ∧ a.real = false ∧ n = k + i + 1 := by
  induction atoms with
  | nil => intro k n; simp [ghostIndices]
  | cons x t ih =>
    intro k n
    unfold ghostIndices
    have step : (∃ i a, (x :: t)[i]? = some a ∧ a.real = false ∧ n = k + i + 1) ↔
        ((x.real = false ∧ n = k + 1) ∨ ∃ i a, t[i]? = some a ∧ a.real = false ∧ n = (k + 1) + i + 1) := by
      constructor
      · rintro ⟨i, a, hi, hr, hn⟩
        cases i with
        | zero => simp at hi; subst hi; exact Or.inl ⟨hr, by omega⟩
        | succ j => simp at hi; exact Or.inr ⟨j, a, hi, hr, by omega⟩
      · rintro (⟨hr, hn⟩ | ⟨j, a, hj, hr, hn⟩)
        · exact ⟨0, x, by simp, hr, by omega⟩
        · exact ⟨j + 1, a, by simpa using hj, hr, by omega⟩
    rw [step]
    cases hx : x.real
    · simp only [Bool.false_eq_true, if_false, List.mem_cons, ih (k + 1) n, true_and]
    · simp only [if_true, ih (k + 1) n]
      simp

theorem ghostIndices_lower (atoms : List Atom) : ∀ (k n : Nat), n ∈ ghostIndices k atoms → k < n := by
  intro k n h
  obtain ⟨i, a, _, _, hn⟩ := (ghostIndices_mem atoms k n).1 h
  omega

theorem ghostIndices_sorted (atoms : List Atom) : ∀ k, List.Pairwise (· < ·) (ghostIndices k atoms) := by
  induction atoms with
  | nil => intro k; simp [ghostIndices]
  | cons x t ih =>
    intro k
    unfold ghostIndices
    cases hx : x.real
    · simp only [Bool.false_eq_true, if_false, List.pairwise_cons]
      exact ⟨fun n hn => ghostIndices_lower t (k + 1) n hn, ih (k + 1)⟩
    · simpa using ih (k + 1)

theorem ghostIndices_isEmpty (atoms : List Atom) : ∀ k,
    (ghostIndices k atoms).isEmpty = atoms.all (·.real) := by
  induction atoms with
  | nil => intro k; rfl
  | cons x t ih =>
    intro k
    unfold ghostIndices
    cases hx : x.real <;> simp [hx, ih (k + 1)]

/-! ### reading integers back -/

/-- `int(text)` for the texts `str(int)` produces -/
def readInt : Str → Int
  | '-' :: t => -(digitsVal t : Int)
  | t => (digitsVal t : Int)

theorem natDigits_head_ne_minus (n : Nat) : ∀ c t, natDigits n = c :: t → c ≠ '-' := by
  intro c t h hc
  have : isDigitChar c = true := natDigits_all_digits n c (by rw [h]; simp)
  subst hc
  exact absurd this (by decide)

theorem readInt_intStr (i : Int) : readInt (intStr i) = i := by
  unfold intStr
  split
  · next h => simp only [readInt, digitsVal_natDigits]; omega
  · next h =>
    cases hd : natDigits i.natAbs with
    | nil => exact absurd hd (natDigits_ne_nil _)
    | cons c t =>
      have hc : c ≠ '-' := natDigits_head_ne_minus _ c t hd
      have : readInt (c :: t) = (digitsVal (c :: t) : Int) := by
        unfold readInt
        split
        · next heq => simp at heq; exact absurd heq.1 hc
        · rfl
      rw [this, ← hd, digitsVal_natDigits]; omega

theorem intStr_no_space (i : Int) : ∀ c ∈ intStr i, c ≠ ' ' := by
  intro c hc hsp
  subst hsp
  unfold intStr at hc
  split at hc
  · simp at hc
    exact absurd (natDigits_all_digits _ _ hc) (by decide)
  · exact absurd (natDigits_all_digits _ _ hc) (by decide)

end QcelVerif.ToString
