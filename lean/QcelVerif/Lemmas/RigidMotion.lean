import QcelVerif.Lemmas.Kabsch
import Mathlib.Tactic.FieldSimp
/-!
# Helper lemmas for `Props/C12Full.lean`: the residual of an arbitrary rigid motion versus the centred residual

For any 3×3 matrix `U` (no orthogonality needed), any shift `s` and any two geometries of equal length,

  `Σ_i |r_i − (c_i − s)·U|²  =  Σ_i |(r_i − r̄) − (c_i − c̄)·U|²  +  n·|r̄ − (c̄ − s)·U|²`

so the centred residual (what `kabsch_align` minimises over `U`) is a lower bound of the residual of the
motion `(U, s)` applied the way `align_coordinates` applies it (`(c − s)·U`, models/align.py:83-84).
-/
namespace QcelVerif.Kabsch
variable {K : Type}

section Ring
variable [CommRing K]

/-- `Σ_i |r_i − (c_i − s)·U|²` over a list of (reference, concern) pairs -/
def motionRes (U : M3 K) (s : V3 K) : List (V3 K × V3 K) → K
  | [] => 0
  | (r, c) :: t => (r.sub (rowMul (c.sub s) U)).nrm2 + motionRes U s t

/-- the two-geometry form (`dist2`, align.py:200,250) is the paired form -/
theorem dist2_map_eq (U : M3 K) (s : V3 K) : ∀ (Rg Cg : List (V3 K)),
    dist2 Rg (Cg.map (fun c => rowMul (c.sub s) U)) = motionRes U s (Rg.zip Cg) := by
  intro Rg
  induction Rg with
  | nil => intro Cg; simp [dist2, motionRes]
  | cons r rs ih =>
    intro Cg
    cases Cg with
    | nil => simp [dist2, motionRes]
    | cons c cs => simp only [List.map_cons, dist2, List.zip_cons_cons, motionRes, ih]

/-- expansion about arbitrary reference points `a` (for the reference) and `b` (for the concern) -/
theorem motionRes_expand (U : M3 K) (s a b : V3 K) (raw : List (V3 K × V3 K)) :
    motionRes U s raw
      = resid U (raw.map (fun rc => (rc.1.sub a, rc.2.sub b)))
        + 2 * (a.sub (rowMul (b.sub s) U)).dot
            (((vsum (raw.map Prod.fst)).sub (V3.smul (raw.length : K) a)).sub
              (rowMul ((vsum (raw.map Prod.snd)).sub (V3.smul (raw.length : K) b)) U))
        + (raw.length : K) * (a.sub (rowMul (b.sub s) U)).nrm2 := by
  induction raw with
  | nil =>
    simp only [List.map_nil, motionRes, resid, vsum, List.length_nil, Nat.cast_zero, V3.dot, V3.sub, V3.smul,
      V3.zero, V3.nrm2, rowMul]
    ring
  | cons h t ih =>
    obtain ⟨r, c⟩ := h
    simp only [List.map_cons, motionRes, resid, vsum, List.length_cons, Nat.cast_succ, ih]
    simp only [V3.dot, V3.sub, V3.smul, V3.nrm2, V3.add, rowMul]
    ring

end Ring

section Ordered
variable [Field K] [LinearOrder K] [IsStrictOrderedRing K]

theorem smul_centroid (l : List (V3 K)) (hl : l ≠ []) : V3.smul (l.length : K) (centroid l) = vsum l := by
  have hn : (l.length : K) ≠ 0 := by
    have : l.length ≠ 0 := fun h => hl (List.length_eq_zero_iff.mp h)
    exact_mod_cast this
  ext <;> simp only [V3.smul, centroid] <;> field_simp

/-- **the centred residual bounds the residual of every motion `(U, s)`** (any matrix `U`, any shift `s`) -/
theorem centred_le_motion (U : M3 K) (s : V3 K) (Rg Cg : List (V3 K)) (hlen : Rg.length = Cg.length) :
    resid U ((centre Rg).zip (centre Cg)) ≤ dist2 Rg (Cg.map (fun c => rowMul (c.sub s) U)) := by
  by_cases hR : Rg = []
  · subst hR
    simp [centre, resid, dist2]
  have hC : Cg ≠ [] := by
    intro h; subst h
    exact hR (List.length_eq_zero_iff.mp hlen)
  rw [dist2_map_eq, motionRes_expand U s (centroid Rg) (centroid Cg)]
  have hz : (centre Rg).zip (centre Cg)
      = (Rg.zip Cg).map (fun rc => (rc.1.sub (centroid Rg), rc.2.sub (centroid Cg))) := by
    simp only [centre, List.zip_map]
    rfl
  have hf : (Rg.zip Cg).map Prod.fst = Rg := List.map_fst_zip (le_of_eq hlen)
  have hs : (Rg.zip Cg).map Prod.snd = Cg := List.map_snd_zip (le_of_eq hlen.symm)
  have hn : (Rg.zip Cg).length = Rg.length := by simp [List.length_zip, hlen]
  have hn' : (Rg.zip Cg).length = Cg.length := by rw [hn, hlen]
  have e1 : (vsum ((Rg.zip Cg).map Prod.fst)).sub (V3.smul ((Rg.zip Cg).length : K) (centroid Rg)) = V3.zero := by
    rw [hf, hn, smul_centroid Rg hR]; ext <;> simp only [V3.sub, V3.zero] <;> ring
  have e2 : (vsum ((Rg.zip Cg).map Prod.snd)).sub (V3.smul ((Rg.zip Cg).length : K) (centroid Cg)) = V3.zero := by
    rw [hs, hn', smul_centroid Cg hC]; ext <;> simp only [V3.sub, V3.zero] <;> ring
  rw [e1, e2, ← hz]
  have z : ((centroid Rg).sub (rowMul ((centroid Cg).sub s) U)).dot ((V3.zero : V3 K).sub (rowMul V3.zero U)) = 0 := by
    simp only [V3.dot, V3.sub, V3.zero, rowMul]; ring
  rw [z]
  have : 0 ≤ ((Rg.zip Cg).length : K) * ((centroid Rg).sub (rowMul ((centroid Cg).sub s) U)).nrm2 :=
    mul_nonneg (Nat.cast_nonneg _) (V3.nrm2_nonneg _)
  linarith

end Ordered

end QcelVerif.Kabsch
