import QcelVerif.Model.UnitRender
/-!
C03 — helper lemmas about the tokenizer of `Model/UnitText.lean` (`lexNum`, `lexAux`, `lex`) on texts that are a concatenation of
lexical pieces (`Model/UnitRender.lean`): every piece is read as its own token when what follows it leaves it alone (`POK`).
`fracPart` / `expPart` / `numFinish` are the three stages of `lexNum` as separate functions (`lexNum_eq`: definitional).  Core Lean only.
-/
set_option linter.unusedSimpArgs false
set_option linter.unnecessarySimpa false
namespace QcelVerif.Units.Text
open QcelVerif.PStr (Bytes)

def headNot (p : Nat → Bool) : Bytes → Bool
  | c :: _ => !p c
  | [] => true

theorem takeWhile_app (p : Nat → Bool) (a b : Bytes) (ha : a.all p = true) (hb : headNot p b = true) :
    (a ++ b).takeWhile p = a ∧ (a ++ b).dropWhile p = b := by
  induction a with
  | nil =>
    cases b with
    | nil => simp
    | cons c t =>
      simp only [headNot, Bool.not_eq_true'] at hb
      simp [List.takeWhile, List.dropWhile, hb]
  | cons x a ih =>
    simp only [List.all_cons, Bool.and_eq_true] at ha
    obtain ⟨h1, h2⟩ := ih ha.2
    simp [List.takeWhile, List.dropWhile, ha.1, h1, h2]

def expPart (r2 : Bytes) : Int × Bytes × Bool :=
  match r2 with
  | c :: t =>
    if c == 101 || c == 69 then
      match t with
      | 43 :: u => if (u.takeWhile isDigit).isEmpty then (0, r2, false)
                   else ((digitsVal (u.takeWhile isDigit) : Nat), u.dropWhile isDigit, true)
      | 45 :: u => if (u.takeWhile isDigit).isEmpty then (0, r2, false)
                   else (-(digitsVal (u.takeWhile isDigit) : Nat), u.dropWhile isDigit, true)
      | _ => if (t.takeWhile isDigit).isEmpty then (0, r2, false)
             else ((digitsVal (t.takeWhile isDigit) : Nat), t.dropWhile isDigit, true)
    else (0, r2, false)
  | [] => (0, r2, false)

theorem takeWhile_nil_of_headNot (p : Nat → Bool) (s : Bytes) (h : headNot p s = true) : s.takeWhile p = [] := by
  cases s with
  | nil => rfl
  | cons c t => simp only [headNot, Bool.not_eq_true'] at h; simp [List.takeWhile, h]

/-- no exponent part is read from a text that `numFollow` accepts -/
theorem expPart_follow (s : Bytes) (h : numFollow s = true) : expPart s = (0, s, false) := by
  cases s with
  | nil => rfl
  | cons c t =>
    unfold expPart
    by_cases hc : (c == 101 || c == 69) = true
    · simp only [hc, if_true]
      simp only [numFollow, hc, Bool.true_and, Bool.and_eq_true, Bool.not_eq_true'] at h
      have he := h.2
      cases t with
      | nil => simp
      | cons d u =>
        simp only [expStart, Bool.or_eq_false_iff] at he
        by_cases h43 : d = 43
        · subst h43
          have : headNot isDigit u = true := by
            cases u with
            | nil => rfl
            | cons d2 _ => simpa [headNot] using he.2
          simp [takeWhile_nil_of_headNot _ _ this]
        · by_cases h45 : d = 45
          · subst h45
            have : headNot isDigit u = true := by
              cases u with
              | nil => rfl
              | cons d2 _ => simpa [headNot] using he.2
            simp [takeWhile_nil_of_headNot _ _ this]
          · have : (d :: u).takeWhile isDigit = [] := by simp [List.takeWhile, he.1]
            split
            · rename_i heq; cases heq; exact absurd rfl h43
            · rename_i heq; cases heq; exact absurd rfl h45
            · simp [this]
    · simp only [hc]; rfl

theorem expPart_exp (capE : Bool) (esign : Nat) (ed s : Bytes) (hs : esign ≤ 2) (hd : ed.all isDigit = true) (hne : ed ≠ [])
    (hr : headNot isDigit s = true) :
    expPart ((if capE then 69 else 101) :: ((if esign = 1 then [43] else if esign = 2 then [45] else []) ++ (ed ++ s))) =
      ((if esign = 2 then -((digitsVal ed : Nat) : Int) else ((digitsVal ed : Nat) : Int)), s, true) := by
  obtain ⟨h1, h2⟩ := takeWhile_app isDigit ed s hd hr
  have hemp : ed.isEmpty = false := by cases ed with | nil => exact absurd rfl hne | cons _ _ => rfl
  have hc : ((if capE then 69 else 101 : Nat) == 101 || (if capE then 69 else 101 : Nat) == 69) = true := by cases capE <;> rfl
  unfold expPart
  simp only [hc, if_true]
  have h012 : esign = 0 ∨ esign = 1 ∨ esign = 2 := by omega
  rcases h012 with h | h | h
  · subst h
    cases ed with
    | nil => exact absurd rfl hne
    | cons d ed' =>
      have hdd : isDigit d = true := by simp only [List.all_cons, Bool.and_eq_true] at hd; exact hd.1
      have h43 : d ≠ 43 := by intro h; subst h; simp [isDigit] at hdd
      have h45 : d ≠ 45 := by intro h; subst h; simp [isDigit] at hdd
      simp only [if_neg (by decide : ¬ (0 : Nat) = 1), if_neg (by decide : ¬ (0 : Nat) = 2), List.nil_append]
      split
      · rename_i heq; cases heq; exact absurd rfl h43
      · rename_i heq; cases heq; exact absurd rfl h45
      · rw [h1, h2]; simp
  · subst h; simp [h1, h2, hemp]
  · subst h; simp [h1, h2, hemp]
def fracPart (r1 : Bytes) : Bytes × Bytes × Bool :=
  match r1 with
  | 46 :: t => (t.takeWhile isDigit, t.dropWhile isDigit, true)
  | _ => ([], r1, false)

theorem fracPart_dot (fp r : Bytes) (hf : fp.all isDigit = true) (hr : headNot isDigit r = true) :
    fracPart (46 :: (fp ++ r)) = (fp, r, true) := by
  obtain ⟨h1, h2⟩ := takeWhile_app isDigit fp r hf hr
  simp [fracPart, h1, h2]

theorem fracPart_none (r : Bytes) (hr : headNot (· == 46) r = true) : fracPart r = ([], r, false) := by
  unfold fracPart
  split
  · simp [headNot] at hr
  · rfl
def numFinish (ip fp : Bytes) (ex : Int) (dotted hasExp : Bool) (r3 : Bytes) : Except TErr (Tok × Bytes) :=
  match r3 with
  | 95 :: _ => .error .unsupported
  | 46 :: _ => .error .unsupported
  | 106 :: _ => if hasExp then .error .unsupported
                else .ok (.num (digitsVal (ip ++ fp)) (ex - (fp.length : Int)) (!dotted && !hasExp), r3)
  | 74 :: _ => if hasExp then .error .unsupported
               else .ok (.num (digitsVal (ip ++ fp)) (ex - (fp.length : Int)) (!dotted && !hasExp), r3)
  | _ => .ok (.num (digitsVal (ip ++ fp)) (ex - (fp.length : Int)) (!dotted && !hasExp), r3)

/-- `lexNum` is the composition of its three stages (definitional) -/
theorem lexNum_eq (s : Bytes) : lexNum s =
    (if (s.takeWhile isDigit).isEmpty && (fracPart (s.dropWhile isDigit)).1.isEmpty then .error .unsupported
     else numFinish (s.takeWhile isDigit) (fracPart (s.dropWhile isDigit)).1 (expPart (fracPart (s.dropWhile isDigit)).2.1).1
       (fracPart (s.dropWhile isDigit)).2.2 (expPart (fracPart (s.dropWhile isDigit)).2.1).2.2 (expPart (fracPart (s.dropWhile isDigit)).2.1).2.1) := by
  rfl

theorem numFinish_follow (ip fp : Bytes) (ex : Int) (dotted hasExp : Bool) (s : Bytes) (h : numFollow s = true) :
    numFinish ip fp ex dotted hasExp s = .ok (.num (digitsVal (ip ++ fp)) (ex - (fp.length : Int)) (!dotted && !hasExp), s) := by
  cases s with
  | nil => rfl
  | cons c t =>
    simp only [numFollow, Bool.and_eq_true, Bool.not_eq_true', bne_iff_ne, ne_eq] at h
    obtain ⟨⟨⟨⟨⟨_, h46⟩, h95⟩, h106⟩, h74⟩, _⟩ := h
    unfold numFinish
    split
    · rename_i heq; cases heq; exact absurd rfl h95
    · rename_i heq; cases heq; exact absurd rfl h46
    · rename_i heq; cases heq; exact absurd rfl h106
    · rename_i heq; cases heq; exact absurd rfl h74
    · rfl

theorem numFollow_headNot_digit (s : Bytes) (h : numFollow s = true) : headNot isDigit s = true := by
  cases s with
  | nil => rfl
  | cons c t =>
    simp only [numFollow, Bool.and_eq_true] at h
    simpa [headNot] using h.1.1.1.1.1

theorem numFollow_headNot_dot (s : Bytes) (h : numFollow s = true) : headNot (· == 46) s = true := by
  cases s with
  | nil => rfl
  | cons c t =>
    simp only [numFollow, Bool.and_eq_true, bne_iff_ne, ne_eq] at h
    simpa [headNot] using h.1.1.1.1.2

/-- **a NUMBER literal is read as written**, whatever follows it among the texts `numFollow` accepts -/
theorem lexNum_lit (l : NumLit) (s : Bytes) (hw : l.wf = true) (hf : numFollow s = true) :
    lexNum (l.text ++ s) = .ok (l.tok, s) := by
  obtain ⟨ip, fp, dotted, hasExp, capE, esign, ed⟩ := l
  simp only [NumLit.wf, Bool.and_eq_true, Bool.or_eq_true, Bool.not_eq_true', decide_eq_true_eq, Bool.and_eq_false_iff] at hw
  obtain ⟨⟨⟨⟨⟨⟨hip, hfp⟩, hed⟩, hdot⟩, hne⟩, hex⟩, hsg⟩ := hw
  -- the exponent part followed by `s`
  have hExp : expPart (NumLit.expText ⟨ip, fp, dotted, hasExp, capE, esign, ed⟩ ++ s) =
      (NumLit.expVal ⟨ip, fp, dotted, hasExp, capE, esign, ed⟩, s, hasExp) := by
    cases hasExp with
    | false => simpa [NumLit.expText, NumLit.expVal] using expPart_follow s hf
    | true =>
      have hne' : ed ≠ [] := by
        rcases hex with h | h
        · cases h
        · intro h0; subst h0; simp at h
      have := expPart_exp capE esign ed s hsg hed hne' (numFollow_headNot_digit s hf)
      simpa [NumLit.expText, NumLit.expVal, List.append_assoc] using this
  have hExpHead : headNot isDigit (NumLit.expText ⟨ip, fp, dotted, hasExp, capE, esign, ed⟩ ++ s) = true := by
    cases hasExp with
    | false => simpa [NumLit.expText] using numFollow_headNot_digit s hf
    | true => cases capE <;> simp [NumLit.expText, headNot, isDigit]
  have hExpDot : headNot (· == 46) (NumLit.expText ⟨ip, fp, dotted, hasExp, capE, esign, ed⟩ ++ s) = true := by
    cases hasExp with
    | false => simpa [NumLit.expText] using numFollow_headNot_dot s hf
    | true => cases capE <;> simp [NumLit.expText, headNot]
  -- the fraction part
  have hFracHead : headNot isDigit (NumLit.fracText ⟨ip, fp, dotted, hasExp, capE, esign, ed⟩ ++ (NumLit.expText ⟨ip, fp, dotted, hasExp, capE, esign, ed⟩ ++ s)) = true := by
    cases dotted with
    | false => simpa [NumLit.fracText] using hExpHead
    | true => simp [NumLit.fracText, headNot, isDigit]
  have hFrac : fracPart (NumLit.fracText ⟨ip, fp, dotted, hasExp, capE, esign, ed⟩ ++ (NumLit.expText ⟨ip, fp, dotted, hasExp, capE, esign, ed⟩ ++ s)) =
      (fp, NumLit.expText ⟨ip, fp, dotted, hasExp, capE, esign, ed⟩ ++ s, dotted) := by
    cases dotted with
    | false =>
      have hfp0 : fp = [] := by
        rcases hdot with h | h
        · cases h
        · cases fp with | nil => rfl | cons _ _ => simp at h
      subst hfp0
      simpa [NumLit.fracText] using fracPart_none _ hExpDot
    | true => simpa [NumLit.fracText] using fracPart_dot fp _ hfp hExpHead
  obtain ⟨hT, hD⟩ := takeWhile_app isDigit ip _ hip hFracHead
  have htext : NumLit.text ⟨ip, fp, dotted, hasExp, capE, esign, ed⟩ ++ s =
      ip ++ (NumLit.fracText ⟨ip, fp, dotted, hasExp, capE, esign, ed⟩ ++ (NumLit.expText ⟨ip, fp, dotted, hasExp, capE, esign, ed⟩ ++ s)) := by
    simp [NumLit.text, List.append_assoc]
  rw [htext, lexNum_eq, hT, hD, hFrac]
  simp only [hExp]
  have hnE : (ip.isEmpty && fp.isEmpty) = false := by
    rcases hne with h | h
    · simp [h]
    · simp [h]
  rw [hnE]
  simp only [Bool.false_eq_true, if_false]
  rw [numFinish_follow _ _ _ _ _ _ hf]
  rfl

/-! ## one piece -/

theorem isIdStart_ne32 (c : Nat) (h : isIdStart c = true) : (c == 32) = false := by
  simp only [isIdStart, isAlpha, Bool.or_eq_true, Bool.and_eq_true, decide_eq_true_eq, beq_iff_eq] at h
  simp only [beq_eq_false_iff_ne, ne_eq]
  omega

theorem isIdStart_isIdChar (c : Nat) (h : isIdStart c = true) : isIdChar c = true := by
  simp only [isIdStart, Bool.or_eq_true] at h
  simp only [isIdChar, Bool.or_eq_true]
  rcases h with h | h
  · exact Or.inl (Or.inl h)
  · exact Or.inr h

theorem isDigit_facts (c : Nat) (h : isDigit c = true) : (c == 32) = false ∧ isIdStart c = false := by
  simp only [isDigit, Bool.and_eq_true, decide_eq_true_eq] at h
  refine ⟨by simp only [beq_eq_false_iff_ne, ne_eq]; omega, ?_⟩
  simp only [isIdStart, isAlpha, Bool.or_eq_false_iff, Bool.and_eq_false_iff, decide_eq_false_iff_not, beq_eq_false_iff_ne, ne_eq]
  omega

/-- one step of the tokenizer (definitional) -/
theorem lexAux_succ_cons (f c : Nat) (t : Bytes) : lexAux (f + 1) (c :: t) =
    (if c == 32 then lexAux f t
    else if isIdStart c then
      (lexAux f ((c :: t).dropWhile isIdChar)).map (fun l => Tok.name ((c :: t).takeWhile isIdChar) :: l)
    else if isDigit c || (c == 46 && (match t with | d :: _ => isDigit d | [] => false)) then
      match lexNum (c :: t) with
      | .error e => .error e
      | .ok (tok, r) => (lexAux f r).map (fun l => tok :: l)
    else if c == 40 then (lexAux f t).map (fun l => Tok.op .lpar :: l)
    else if c == 41 then (lexAux f t).map (fun l => Tok.op .rpar :: l)
    else if c == 43 then (lexAux f t).map (fun l => Tok.op .plus :: l)
    else if c == 45 then (lexAux f t).map (fun l => Tok.op .minus :: l)
    else if c == 42 then
      match t with
      | 42 :: u => (lexAux f u).map (fun l => Tok.op .pow :: l)
      | _ => (lexAux f t).map (fun l => Tok.op .mul :: l)
    else if c == 47 then
      match t with
      | 47 :: _ => .error .unsupported
      | _ => (lexAux f t).map (fun l => Tok.op .div :: l)
    else .error .unsupported) := rfl

/-- the token list with the token of piece `p` (if it has one) in front -/
def consTok (p : Piece) (l : List Tok) : List Tok := match p.tok with | some t => t :: l | none => l

theorem toks_cons (p : Piece) (ps : List Piece) : toks (p :: ps) = consTok p (toks ps) := by
  unfold toks consTok
  cases h : p.tok <;> simp [List.filterMap_cons, h]

theorem lexAux_name (f : Nat) (n s : Bytes) (ts : List Tok) (hn : idShaped n = true) (ho : headNot isIdChar s = true)
    (hs : lexAux f s = .ok ts) : lexAux (f + 1) (n ++ s) = .ok (Tok.name n :: ts) := by
  cases n with
  | nil => simp [idShaped] at hn
  | cons c t =>
    simp only [idShaped, Bool.and_eq_true] at hn
    have hall : (c :: t).all isIdChar = true := by simp [List.all_cons, isIdStart_isIdChar c hn.1, hn.2]
    obtain ⟨h1, h2⟩ := takeWhile_app isIdChar (c :: t) s hall ho
    have h32 := isIdStart_ne32 c hn.1
    show lexAux (f + 1) (c :: (t ++ s)) = _
    rw [lexAux_succ_cons]
    simp only [h32, Bool.false_eq_true, if_false, hn.1, if_true]
    have e : c :: (t ++ s) = (c :: t) ++ s := rfl
    rw [e, h1, h2, hs]; rfl

theorem lexAux_numstep (f : Nat) (c : Nat) (t : Bytes) (h32 : (c == 32) = false) (hid : isIdStart c = false)
    (hnum : (isDigit c || (c == 46 && (match t with | d :: _ => isDigit d | [] => false))) = true) :
    lexAux (f + 1) (c :: t) = (match lexNum (c :: t) with
      | .error e => .error e
      | .ok (tok, r) => (lexAux f r).map (fun l => tok :: l)) := by
  rw [lexAux_succ_cons]
  simp only [h32, Bool.false_eq_true, if_false, hid, hnum, if_true]

theorem lexAux_num (f : Nat) (l : NumLit) (s : Bytes) (ts : List Tok) (hw : l.wf = true) (ho : numFollow s = true)
    (hs : lexAux f s = .ok ts) : lexAux (f + 1) (l.text ++ s) = .ok (l.tok :: ts) := by
  have hlex := lexNum_lit l s hw ho
  have key : ∀ c t, l.text ++ s = c :: t → (c == 32) = false → isIdStart c = false →
      (isDigit c || (c == 46 && (match t with | d :: _ => isDigit d | [] => false))) = true →
      lexAux (f + 1) (l.text ++ s) = .ok (l.tok :: ts) := by
    intro c t e h32 hid hnum
    rw [e, lexAux_numstep f c t h32 hid hnum, ← e, hlex]
    simp only [hs]; rfl
  obtain ⟨ip, fp, dotted, hasExp, capE, esign, ed⟩ := l
  simp only [NumLit.wf, Bool.and_eq_true, Bool.or_eq_true, Bool.not_eq_true', decide_eq_true_eq, Bool.and_eq_false_iff] at hw
  obtain ⟨⟨⟨⟨⟨⟨hip, hfp⟩, _⟩, hdot⟩, hne⟩, _⟩, _⟩ := hw
  cases ip with
  | cons d ip' =>
    have hd : isDigit d = true := by simp only [List.all_cons, Bool.and_eq_true] at hip; exact hip.1
    obtain ⟨a, b⟩ := isDigit_facts d hd
    exact key d _ rfl a b (by simp [hd])
  | nil =>
    cases fp with
    | nil => simp at hne
    | cons d fp' =>
      have hd : isDigit d = true := by simp only [List.all_cons, Bool.and_eq_true] at hfp; exact hfp.1
      have hdt : dotted = true := by
        rcases hdot with h | h
        · exact h
        · simp at h
      subst hdt
      exact key 46 (d :: (fp' ++ (NumLit.expText ⟨[], d :: fp', true, hasExp, capE, esign, ed⟩ ++ s)))
        (by simp [NumLit.text, NumLit.fracText, List.append_assoc]) (by decide) (by decide) (by simp [hd])

theorem lexAux_star (f : Nat) (s : Bytes) (ts : List Tok) (ho : headNot (· == 42) s = true) (hs : lexAux f s = .ok ts) :
    lexAux (f + 1) (42 :: s) = .ok (Tok.op .mul :: ts) := by
  rw [lexAux_succ_cons]
  simp only [show ((42 : Nat) == 32) = false from by decide, show isIdStart 42 = false from by decide,
    show isDigit 42 = false from by decide, show ((42 : Nat) == 46) = false from by decide,
    show ((42 : Nat) == 40) = false from by decide, show ((42 : Nat) == 41) = false from by decide,
    show ((42 : Nat) == 43) = false from by decide, show ((42 : Nat) == 45) = false from by decide,
    Bool.false_and, Bool.or_self, Bool.false_eq_true, if_false, beq_self_eq_true, if_true]
  split
  · simp [headNot] at ho
  · rw [hs]; rfl

theorem lexAux_slash (f : Nat) (s : Bytes) (ts : List Tok) (ho : headNot (· == 47) s = true) (hs : lexAux f s = .ok ts) :
    lexAux (f + 1) (47 :: s) = .ok (Tok.op .div :: ts) := by
  rw [lexAux_succ_cons]
  simp only [show ((47 : Nat) == 32) = false from by decide, show isIdStart 47 = false from by decide,
    show isDigit 47 = false from by decide, show ((47 : Nat) == 46) = false from by decide,
    show ((47 : Nat) == 40) = false from by decide, show ((47 : Nat) == 41) = false from by decide,
    show ((47 : Nat) == 43) = false from by decide, show ((47 : Nat) == 45) = false from by decide,
    show ((47 : Nat) == 42) = false from by decide,
    Bool.false_and, Bool.or_self, Bool.false_eq_true, if_false, beq_self_eq_true, if_true]
  split
  · simp [headNot] at ho
  · rw [hs]; rfl

theorem lexAux_pow2 (f : Nat) (s : Bytes) (ts : List Tok) (hs : lexAux f s = .ok ts) :
    lexAux (f + 1) (42 :: 42 :: s) = .ok (Tok.op .pow :: ts) := by
  rw [lexAux_succ_cons]
  simp only [show ((42 : Nat) == 32) = false from by decide, show isIdStart 42 = false from by decide,
    show isDigit 42 = false from by decide, show ((42 : Nat) == 46) = false from by decide,
    show ((42 : Nat) == 40) = false from by decide, show ((42 : Nat) == 41) = false from by decide,
    show ((42 : Nat) == 43) = false from by decide, show ((42 : Nat) == 45) = false from by decide,
    Bool.false_and, Bool.or_self, Bool.false_eq_true, if_false, beq_self_eq_true, if_true]
  rw [hs]; rfl

theorem lexAux_simple (f : Nat) (s : Bytes) (ts : List Tok) (hs : lexAux f s = .ok ts) :
    lexAux (f + 1) (32 :: s) = .ok ts ∧ lexAux (f + 1) (40 :: s) = .ok (Tok.op .lpar :: ts) ∧
    lexAux (f + 1) (41 :: s) = .ok (Tok.op .rpar :: ts) ∧ lexAux (f + 1) (43 :: s) = .ok (Tok.op .plus :: ts) ∧
    lexAux (f + 1) (45 :: s) = .ok (Tok.op .minus :: ts) := by
  refine ⟨?_, ?_, ?_, ?_, ?_⟩ <;> (rw [lexAux_succ_cons]; simp [hs, isIdStart, isAlpha, isDigit, Except.map])

/-- one piece, followed by a text that leaves it alone, is read as its token -/
theorem lexAux_piece (f : Nat) (p : Piece) (s : Bytes) (ts : List Tok) (hw : pieceWF p = true) (ho : okAfter p s = true)
    (hs : lexAux f s = .ok ts) : lexAux (f + 1) (p.textC ++ s) = .ok (consTok p ts) := by
  have hsimple := lexAux_simple f s ts hs
  cases p with
  | sp => exact hsimple.1
  | nm n => exact lexAux_name f n s ts hw (by cases s <;> simpa [okAfter, headNot] using ho) hs
  | num l => exact lexAux_num f l s ts hw ho hs
  | star => exact lexAux_star f s ts (by cases s <;> simpa [okAfter, headNot] using ho) hs
  | slash => exact lexAux_slash f s ts (by cases s <;> simpa [okAfter, headNot] using ho) hs
  | pow2 => exact lexAux_pow2 f s ts hs
  | caret => exact lexAux_pow2 f s ts hs
  | lp => exact hsimple.2.1
  | rp => exact hsimple.2.2.1
  | plus => exact hsimple.2.2.2.1
  | minus => exact hsimple.2.2.2.2

theorem textC_length_pos (p : Piece) (hw : pieceWF p = true) : 1 ≤ p.textC.length := by
  cases p with
  | nm n => cases n with
    | nil => simp [pieceWF, idShaped] at hw
    | cons _ _ => simp [Piece.textC, Piece.text]
  | num l =>
    obtain ⟨ip, fp, dotted, hasExp, capE, esign, ed⟩ := l
    simp only [pieceWF, NumLit.wf, Bool.and_eq_true, Bool.or_eq_true, Bool.not_eq_true', decide_eq_true_eq, Bool.and_eq_false_iff] at hw
    obtain ⟨⟨⟨⟨⟨⟨_, _⟩, _⟩, hdot⟩, hne⟩, _⟩, _⟩ := hw
    cases ip with
    | cons _ _ => simp [Piece.textC, Piece.text, NumLit.text]
    | nil =>
      cases fp with
      | nil => simp at hne
      | cons _ _ =>
        have hdt : dotted = true := by
          rcases hdot with h | h
          · exact h
          · simp at h
        subst hdt
        simp [Piece.textC, Piece.text, NumLit.text, NumLit.fracText]
  | _ => simp [Piece.textC, Piece.text]

/-! ## a list of pieces -/

theorem flatC_cons (p : Piece) (ps : List Piece) : flatC (p :: ps) = p.textC ++ flatC ps := by
  simp [flatC, List.flatMap_cons]

theorem flatC_append (a b : List Piece) : flatC (a ++ b) = flatC a ++ flatC b := by
  simp [flatC, List.flatMap_append]

/-- **tokenizing a concatenation of pieces**: each piece is read as its own token when what follows it leaves it alone -/
theorem lexAux_pieces (ps : List Piece) (s : Bytes) (ts : List Tok) (hw : ∀ p ∈ ps, pieceWF p = true) (hok : POK ps s = true)
    (hs : ∀ f, s.length ≤ f → lexAux f s = .ok ts) :
    ∀ f, (flatC ps ++ s).length ≤ f → lexAux f (flatC ps ++ s) = .ok (toks ps ++ ts) := by
  induction ps with
  | nil => intro f hf; simpa [flatC, toks] using hs f (by simpa [flatC] using hf)
  | cons p ps ih =>
    intro f hf
    simp only [POK, Bool.and_eq_true] at hok
    have hwp := hw p (by simp)
    have ih' := ih (fun q hq => hw q (by simp [hq])) hok.2
    have hpos := textC_length_pos p hwp
    rw [flatC_cons, List.append_assoc] at hf ⊢
    simp only [List.length_append] at hf
    obtain ⟨f', rfl⟩ : ∃ f', f = f' + 1 := ⟨f - 1, by omega⟩
    have := ih' f' (by simp only [List.length_append]; omega)
    rw [lexAux_piece f' p _ _ hwp hok.1 this, toks_cons]
    unfold consTok
    cases p.tok <;> rfl

/-! ## rendered expressions -/
open RExpr

/-- what the renderer writes after a complete sub-expression: nothing, a blank, `*` (also the first character of `**`), `/` or `)` -/
def Delim : Bytes → Bool
  | [] => true
  | c :: _ => c == 32 || c == 42 || c == 47 || c == 41

theorem Delim_numFollow (s : Bytes) (h : Delim s = true) : numFollow s = true := by
  cases s with
  | nil => rfl
  | cons c t =>
    simp only [Delim, Bool.or_eq_true, beq_iff_eq] at h
    rcases h with ((h | h) | h) | h <;> subst h <;> rfl

theorem Delim_headNot_id (s : Bytes) (h : Delim s = true) : headNot isIdChar s = true := by
  cases s with
  | nil => rfl
  | cons c t =>
    simp only [Delim, Bool.or_eq_true, beq_iff_eq] at h
    rcases h with ((h | h) | h) | h <;> subst h <;> rfl

theorem POK_append (a b : List Piece) (s : Bytes) : POK (a ++ b) s = (POK a (flatC b ++ s) && POK b s) := by
  induction a with
  | nil => simp [POK]
  | cons p a ih => simp [POK, ih, flatC_append, List.append_assoc, Bool.and_assoc]

def goodStart (c : Nat) : Bool := isDigit c || c == 46 || isIdStart c || c == 40

theorem flatC_nil : flatC [] = [] := rfl

theorem goodStart_ne (c : Nat) (h : goodStart c = true) : c ≠ 42 ∧ c ≠ 47 ∧ c ≠ 32 := by
  refine ⟨?_, ?_, ?_⟩ <;> (intro h0; subst h0; revert h; decide)

theorem pieces_start (e : RExpr) (hw : WF e = true) : ∃ c t, flatC (pieces e) = c :: t ∧ goodStart c = true := by
  induction e with
  | num l =>
    obtain ⟨ip, fp, dotted, hasExp, capE, esign, ed⟩ := l
    simp only [WF, NumLit.wf, Bool.and_eq_true, Bool.or_eq_true, Bool.not_eq_true', decide_eq_true_eq, Bool.and_eq_false_iff] at hw
    obtain ⟨⟨⟨⟨⟨⟨hip, hfp⟩, _⟩, hdot⟩, hne⟩, _⟩, _⟩ := hw
    cases ip with
    | cons d ip' =>
      have hd : isDigit d = true := by simp only [List.all_cons, Bool.and_eq_true] at hip; exact hip.1
      exact ⟨d, _, by simp [pieces, flatC, Piece.textC, Piece.text, NumLit.text]; rfl, by simp [goodStart, hd]⟩
    | nil =>
      cases fp with
      | nil => simp at hne
      | cons d fp' =>
        have hdt : dotted = true := by
          rcases hdot with h | h
          · exact h
          · simp at h
        subst hdt
        exact ⟨46, _, by simp [pieces, flatC, Piece.textC, Piece.text, NumLit.text, NumLit.fracText]; rfl, by decide⟩
  | unit p x name =>
    cases name with
    | nil => simp [WF, idShaped] at hw
    | cons c t =>
      simp only [WF, idShaped, Bool.and_eq_true] at hw
      exact ⟨c, t, by simp [pieces, flatC, Piece.textC, Piece.text], by simp [goodStart, hw.1]⟩
  | paren e _ => exact ⟨40, _, by simp [pieces, flatC, Piece.textC, Piece.text]; rfl, by decide⟩
  | bin dv sp a b iha _ =>
    simp only [WF, Bool.and_eq_true] at hw
    obtain ⟨c, t, h, g⟩ := iha hw.1.1
    exact ⟨c, _, by rw [pieces, flatC_append, h]; rfl, g⟩
  | juxt bl a b iha _ =>
    simp only [WF, Bool.and_eq_true] at hw
    obtain ⟨c, t, h, g⟩ := iha hw.1.1.1
    exact ⟨c, _, by rw [pieces, flatC_append, h]; rfl, g⟩
  | pow a crt l r x iha =>
    simp only [WF, Bool.and_eq_true] at hw
    obtain ⟨c, t, h, g⟩ := iha hw.1.1.1
    exact ⟨c, _, by rw [pieces, flatC_append, h]; rfl, g⟩

theorem Delim_cons (c : Nat) (t : Bytes) (h : c = 32 ∨ c = 42 ∨ c = 47 ∨ c = 41) : Delim (c :: t) = true := by
  rcases h with h | h | h | h <;> subst h <;> rfl

/-- a name that may follow a number directly -/
theorem numFollow_name (n r : Bytes) (hn : idShaped n = true) (hd : directOK n = true) (hr : Delim r = true) :
    numFollow (n ++ r) = true := by
  cases n with
  | nil => simp [idShaped] at hn
  | cons c t =>
    simp only [idShaped, Bool.and_eq_true] at hn
    simp only [directOK, Bool.and_eq_true, bne_iff_ne, ne_eq, Bool.not_eq_true', Bool.and_eq_false_iff] at hd
    obtain ⟨⟨⟨h106, h74⟩, h95⟩, he⟩ := hd
    have hnd : isDigit c = false := by
      have := hn.1
      simp only [isIdStart, isAlpha, Bool.or_eq_true, Bool.and_eq_true, decide_eq_true_eq, beq_iff_eq] at this
      simp only [isDigit, Bool.and_eq_false_iff, decide_eq_false_iff_not]
      omega
    have h46 : c ≠ 46 := by
      intro h; subst h; exact absurd hn.1 (by decide)
    show numFollow (c :: (t ++ r)) = true
    simp only [numFollow, hnd, Bool.not_false, Bool.true_and, Bool.and_eq_true, bne_iff_ne, ne_eq, Bool.not_eq_true',
      Bool.and_eq_false_iff]
    refine ⟨⟨⟨⟨h46, h95⟩, h106⟩, h74⟩, ?_⟩
    rcases he with he | he
    · exact Or.inl he
    · right
      cases t with
      | nil =>
        cases r with
        | nil => rfl
        | cons d u =>
          simp only [Delim, Bool.or_eq_true, beq_iff_eq] at hr
          rcases hr with ((h | h) | h) | h <;> subst h <;> rfl
      | cons d u =>
        have hdc : isIdChar d = true := by simp only [List.all_cons, Bool.and_eq_true] at hn; exact hn.2.1
        have hdd : isDigit d = false := by simpa using he
        have h43 : d ≠ 43 := by intro h; subst h; exact absurd hdc (by decide)
        have h45 : d ≠ 45 := by intro h; subst h; exact absurd hdc (by decide)
        simp [expStart, hdd, h43, h45]

theorem POK_explit (x : ExpLit) (s : Bytes) (hs : Delim s = true) : POK x.pieces s = true := by
  obtain ⟨paren, sign, blank, ds⟩ := x
  have h1 : numFollow s = true := Delim_numFollow s hs
  have h2 : numFollow (41 :: s) = true := rfl
  cases paren <;> cases blank <;> by_cases hs1 : sign = 1 <;> by_cases hs2 : sign = 2 <;>
    simp [ExpLit.pieces, POK, okAfter, flatC, Piece.textC, Piece.text, hs1, hs2, h1, h2]

theorem WF_juxtRight_flat (b : RExpr) (hw : WF b = true) (hj : juxtRight b = true) :
    idShaped (headName b) = true ∧ ∃ r, flatC (pieces b) = headName b ++ r ∧ ∀ s, Delim s = true → Delim (r ++ s) = true := by
  cases b with
  | unit p x name => exact ⟨by simpa [WF, headName] using hw, [], by simp [pieces, flatC, Piece.textC, Piece.text, headName], fun s h => h⟩
  | pow a crt l r ex =>
    cases a with
    | unit p x name =>
      simp only [WF, Bool.and_eq_true] at hw
      refine ⟨hw.1.1.1, flatC (spIf l ++ ((if crt then Piece.caret else Piece.pow2) :: (spIf r ++ ex.pieces))), ?_, ?_⟩
      · rw [pieces, flatC_append]; simp [pieces, flatC_cons, flatC_nil, Piece.textC, Piece.text, headName]
      · intro s _
        cases l <;> cases crt <;> simp [spIf, flatC_cons, flatC_append, flatC_nil, Piece.textC, Piece.text, Delim]
    | _ => simp [juxtRight, isUnit] at hj
  | _ => simp [juxtRight] at hj

/-- **every piece of a rendered expression is followed by something that leaves it alone** -/
theorem POK_pieces (e : RExpr) : ∀ s, WF e = true → Delim s = true → POK (pieces e) s = true := by
  induction e with
  | num l => intro s _ hs; simp [pieces, POK, okAfter, flatC, Delim_numFollow s hs]
  | unit p x name =>
    intro s _ hs
    have := Delim_headNot_id s hs
    cases s <;> simpa [pieces, POK, okAfter, flatC, headNot] using this
  | paren e ih =>
    intro s hw hs
    have := ih (41 :: s) (by simpa [WF] using hw) rfl
    simp [pieces, POK, okAfter, POK_append, flatC, Piece.textC, Piece.text, this]
  | bin dv sp a b iha ihb =>
    intro s hw hs
    simp only [WF, Bool.and_eq_true] at hw
    obtain ⟨c, t, hb, g⟩ := pieces_start b hw.1.2
    obtain ⟨g1, g2, g3⟩ := goodStart_ne c g
    have hB := ihb s hw.1.2 hs
    rw [pieces, POK_append]
    have hA : POK (pieces a) (flatC (spIf sp ++ ((if dv then Piece.slash else Piece.star) :: (spIf sp ++ pieces b))) ++ s) = true := by
      apply iha _ hw.1.1
      cases sp <;> cases dv <;> simp [spIf, flatC_cons, flatC_append, flatC_nil, hb, Piece.textC, Piece.text, Delim]
    rw [hA]
    cases sp <;> cases dv <;>
      simp [spIf, POK, okAfter, flatC_cons, flatC_append, flatC_nil, hb, hB, g1, g2, Piece.textC, Piece.text]
  | juxt bl a b iha ihb =>
    intro s hw hs
    simp only [WF, Bool.and_eq_true, Bool.or_eq_true] at hw
    obtain ⟨⟨⟨hwa, hwb⟩, hj⟩, hd⟩ := hw
    have hB := ihb s hwb hs
    rw [pieces, POK_append]
    cases bl with
    | true =>
      have hA : POK (pieces a) (flatC (spIf true ++ pieces b) ++ s) = true :=
        iha _ hwa (by simp [spIf, flatC_cons, flatC_append, Piece.textC, Piece.text, Delim])
      rw [hA]; simp [spIf, POK, okAfter, hB]
    | false =>
      rcases hd with hd | hd
      · cases hd
      · obtain ⟨hid, r, hfl, hdel⟩ := WF_juxtRight_flat b hwb hj
        cases a with
        | num l =>
          have : numFollow (headName b ++ (r ++ s)) = true := numFollow_name _ _ hid hd.2 (hdel s hs)
          simp [pieces, POK, okAfter, spIf, flatC_append, flatC_nil, hfl, hB, List.append_assoc, this]
        | _ => simp [isNumLeaf] at hd
  | pow a crt l r x iha =>
    intro s hw hs
    simp only [WF, Bool.and_eq_true] at hw
    have hX := POK_explit x s hs
    rw [pieces, POK_append]
    have hA : POK (pieces a) (flatC (spIf l ++ ((if crt then Piece.caret else Piece.pow2) :: (spIf r ++ x.pieces))) ++ s) = true := by
      apply iha _ hw.1.1.1
      cases l <;> cases crt <;> simp [spIf, flatC_cons, flatC_append, flatC_nil, Piece.textC, Piece.text, Delim]
    rw [hA]
    cases l <;> cases crt <;> cases r <;> simp [spIf, POK, okAfter, hX]

/-! ## characters: `^` → `**`, and the alphabet of the model -/

theorem caret_append (a b : Bytes) : caret (a ++ b) = caret a ++ caret b := by
  induction a with
  | nil => rfl
  | cons c t ih => by_cases h : (c == 94) = true <;> simp [caret, h, ih]

theorem caret_of_all (s : Bytes) (h : s.all (fun c => c != 94) = true) : caret s = s := by
  induction s with
  | nil => rfl
  | cons c t ih =>
    simp only [List.all_cons, Bool.and_eq_true, bne_iff_ne, ne_eq] at h
    have : (c == 94) = false := by simpa using h.1
    simp [caret, this, ih h.2]

/-- a character of a name or a number -/
def plainChar (c : Nat) : Bool := isIdChar c || c == 46 || c == 43 || c == 45

theorem plainChar_facts (c : Nat) (h : plainChar c = true) : okChar c = true ∧ (c != 94) = true := by
  simp only [plainChar, Bool.or_eq_true, beq_iff_eq] at h
  rcases h with ((h | h) | h) | h
  · refine ⟨by simp [okChar, h], ?_⟩
    simp only [bne_iff_ne, ne_eq]; intro h0; subst h0; exact absurd h (by decide)
  · subst h; exact ⟨by decide, by decide⟩
  · subst h; exact ⟨by decide, by decide⟩
  · subst h; exact ⟨by decide, by decide⟩

theorem all_plain_of_digits (s : Bytes) (h : s.all isDigit = true) : s.all plainChar = true := by
  rw [List.all_eq_true] at h ⊢
  intro c hc
  have := h c hc
  simp only [isDigit, Bool.and_eq_true, decide_eq_true_eq] at this
  simp [plainChar, isIdChar, isDigit, this.1, this.2]

theorem numText_plain (l : NumLit) (hw : l.wf = true) : l.text.all plainChar = true := by
  obtain ⟨ip, fp, dotted, hasExp, capE, esign, ed⟩ := l
  simp only [NumLit.wf, Bool.and_eq_true, Bool.or_eq_true, Bool.not_eq_true', decide_eq_true_eq, Bool.and_eq_false_iff] at hw
  obtain ⟨⟨⟨⟨⟨⟨hip, hfp⟩, hed⟩, _⟩, _⟩, _⟩, _⟩ := hw
  have a := all_plain_of_digits ip hip
  have b := all_plain_of_digits fp hfp
  have c := all_plain_of_digits ed hed
  cases dotted <;> cases hasExp <;> cases capE <;> by_cases h1 : esign = 1 <;> by_cases h2 : esign = 2 <;>
    simp [NumLit.text, NumLit.fracText, NumLit.expText, List.all_append, a, b, c, h1, h2] <;> decide

theorem name_plain (n : Bytes) (hn : idShaped n = true) : n.all plainChar = true := by
  cases n with
  | nil => rfl
  | cons c t =>
    simp only [idShaped, Bool.and_eq_true] at hn
    rw [List.all_eq_true]
    intro d hd
    have : isIdChar d = true := by
      rcases List.mem_cons.mp hd with h | h
      · subst h; exact isIdStart_isIdChar _ hn.1
      · exact List.all_eq_true.mp hn.2 d h
    simp [plainChar, this]

theorem piece_text_facts (p : Piece) (hw : pieceWF p = true) : caret p.text = p.textC ∧ p.text.all okChar = true := by
  have plain : ∀ s : Bytes, s.all plainChar = true → caret s = s ∧ s.all okChar = true := by
    intro s hs
    rw [List.all_eq_true] at hs
    refine ⟨caret_of_all s ?_, ?_⟩
    · rw [List.all_eq_true]; intro c hc; exact (plainChar_facts c (hs c hc)).2
    · rw [List.all_eq_true]; intro c hc; exact (plainChar_facts c (hs c hc)).1
  cases p with
  | nm n => exact plain n (name_plain n hw)
  | num l => exact plain _ (numText_plain l hw)
  | _ => exact ⟨by rfl, by decide⟩

theorem flat_facts (ps : List Piece) (hw : ∀ p ∈ ps, pieceWF p = true) : caret (flat ps) = flatC ps ∧ (flat ps).all okChar = true := by
  induction ps with
  | nil => exact ⟨rfl, rfl⟩
  | cons p ps ih =>
    obtain ⟨h1, h2⟩ := ih (fun q hq => hw q (by simp [hq]))
    obtain ⟨g1, g2⟩ := piece_text_facts p (hw p (by simp))
    have e : flat (p :: ps) = p.text ++ flat ps := by simp [flat, List.flatMap_cons]
    rw [e, caret_append, g1, h1, flatC_cons, List.all_append, g2, h2]
    exact ⟨rfl, rfl⟩

theorem explit_pieces_wf (x : ExpLit) (hx : x.wf = true) : ∀ p ∈ x.pieces, pieceWF p = true := by
  obtain ⟨paren, sign, blank, ds⟩ := x
  simp only [ExpLit.wf, Bool.and_eq_true, Bool.not_eq_true', decide_eq_true_eq] at hx
  have hnum : pieceWF (Piece.num (NumLit.ofDigits ds)) = true := by
    simp [pieceWF, NumLit.wf, NumLit.ofDigits, hx.1.1, hx.1.2]
  intro p hp
  simp only [ExpLit.pieces, List.mem_append, List.mem_cons] at hp
  rcases hp with hp | hp | hp | hp | hp
  · split at hp <;> simp at hp; subst hp; rfl
  · split at hp
    · simp at hp; subst hp; rfl
    · split at hp <;> simp at hp; subst hp; rfl
  · split at hp <;> simp at hp; subst hp; rfl
  · subst hp; exact hnum
  · split at hp <;> simp at hp; subst hp; rfl

theorem pieces_wf (e : RExpr) : WF e = true → ∀ p ∈ pieces e, pieceWF p = true := by
  induction e with
  | num l => intro hw p hp; simp only [pieces, List.mem_singleton] at hp; subst hp; exact hw
  | unit q x name => intro hw p hp; simp only [pieces, List.mem_singleton] at hp; subst hp; exact hw
  | paren e ih =>
    intro hw p hp
    simp only [pieces, List.mem_cons, List.mem_append, List.not_mem_nil, or_false] at hp
    rcases hp with hp | hp | hp
    · subst hp; rfl
    · exact ih hw p hp
    · subst hp; rfl
  | bin dv sp a b iha ihb =>
    intro hw p hp
    simp only [WF, Bool.and_eq_true] at hw
    simp only [pieces, spIf, List.mem_append, List.mem_cons] at hp
    rcases hp with hp | hp | hp | hp | hp
    · exact iha hw.1.1 p hp
    · split at hp <;> simp at hp; subst hp; rfl
    · subst hp; cases dv <;> rfl
    · split at hp <;> simp at hp; subst hp; rfl
    · exact ihb hw.1.2 p hp
  | juxt bl a b iha ihb =>
    intro hw p hp
    simp only [WF, Bool.and_eq_true] at hw
    simp only [pieces, spIf, List.mem_append] at hp
    rcases hp with hp | hp | hp
    · exact iha hw.1.1.1 p hp
    · split at hp <;> simp at hp; subst hp; rfl
    · exact ihb hw.1.1.2 p hp
  | pow a crt l r x iha =>
    intro hw p hp
    simp only [WF, Bool.and_eq_true] at hw
    simp only [pieces, spIf, List.mem_append, List.mem_cons] at hp
    rcases hp with hp | hp | hp | hp | hp
    · exact iha hw.1.1.1 p hp
    · split at hp <;> simp at hp; subst hp; rfl
    · subst hp; cases crt <;> rfl
    · split at hp <;> simp at hp; subst hp; rfl
    · exact explit_pieces_wf x hw.1.2 p hp

/-! ## blanks around the whole text -/

theorem POK_blanks (n : Nat) (s : Bytes) : POK (List.replicate n Piece.sp) s = true := by
  induction n with
  | zero => rfl
  | succ n ih => simp [List.replicate_succ, POK, okAfter, ih]

theorem toks_blanks (n : Nat) : toks (List.replicate n Piece.sp) = [] := by
  induction n with
  | zero => rfl
  | succ n ih => simp only [List.replicate_succ, toks_cons, consTok, Piece.tok, ih]

theorem toks_append (a b : List Piece) : toks (a ++ b) = toks a ++ toks b := by
  simp [toks, List.filterMap_append]

theorem Delim_blanks (n : Nat) : Delim (flatC (List.replicate n Piece.sp) ++ []) = true := by
  cases n with
  | zero => rfl
  | succ n => simp [List.replicate_succ, flatC_cons, Piece.textC, Piece.text, Delim]

theorem lexAux_nil (f : Nat) : lexAux f [] = .ok [] := by cases f <;> rfl

/-- **the tokenizer on a rendered expression** (with blanks around it): exactly the tokens of its pieces -/
theorem lex_renderTop (pre post : Nat) (e : RExpr) (hw : WF e = true) :
    lex (caret (renderTop pre post e)) = .ok (tokensOf e) ∧ (renderTop pre post e).all okChar = true := by
  have hpw : ∀ p ∈ piecesTop pre post e, pieceWF p = true := by
    intro p hp
    simp only [piecesTop, List.mem_append, List.mem_replicate] at hp
    rcases hp with hp | hp | hp
    · rw [hp.2]; rfl
    · exact pieces_wf e hw p hp
    · rw [hp.2]; rfl
  obtain ⟨hc, hok⟩ := flat_facts _ hpw
  refine ⟨?_, hok⟩
  have hP : POK (piecesTop pre post e) [] = true := by
    rw [piecesTop, POK_append, POK_append, POK_blanks, POK_blanks, POK_pieces e _ hw (Delim_blanks post)]
    rfl
  have := lexAux_pieces (piecesTop pre post e) [] [] hpw hP (fun f _ => lexAux_nil f) (flatC (piecesTop pre post e)).length (by simp)
  rw [renderTop, hc, lex]
  simp only [List.append_nil] at this
  rw [this, piecesTop, toks_append, toks_append, toks_blanks, toks_blanks]
  simp [tokensOf]

end QcelVerif.Units.Text
