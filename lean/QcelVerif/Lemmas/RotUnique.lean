import QcelVerif.Model.KabschUnique
import QcelVerif.Lemmas.QuatSurj
/-!
# Helper lemmas for `Props/C12Unique.lean` (not property statements)

3×3 matrix algebra for the explicit `M3` record (associativity, transpose, determinant of a product), linearity of
`rowMul`, the cross product under a proper rotation (`rowMul_cross`: a proper rotation is its own cofactor matrix,
`Lemmas/QuatSurj.lean` `rot_facts`), Cramer's rule in the basis `a, b, a × b`, Lagrange's identity, and list lemmas
for `Option`-valued `mapM` (the fancy indexing of `alignCoords`).
-/
namespace QcelVerif.Kabsch
variable {K : Type}

section Ring
variable [CommRing K]

/-- proper rotation: orthogonal with determinant `+1` (the hypotheses `ho`, `hd` of `Props/C12Full.lean`) -/
structure IsRot (U : M3 K) : Prop where
  orth : U.mul U.transpose = M3.one
  det : U.det = 1

namespace M3
theorem mul_assoc' (A B C : M3 K) : (A.mul B).mul C = A.mul (B.mul C) := by
  ext <;> simp only [M3.mul] <;> ring
theorem one_mul' (A : M3 K) : M3.one.mul A = A := by
  ext <;> simp only [M3.mul, M3.one] <;> ring
theorem mul_one' (A : M3 K) : A.mul M3.one = A := by
  ext <;> simp only [M3.mul, M3.one] <;> ring
theorem transpose_mul (A B : M3 K) : (A.mul B).transpose = B.transpose.mul A.transpose := by
  ext <;> simp only [M3.mul, M3.transpose] <;> ring
omit [CommRing K] in
theorem transpose_transpose (A : M3 K) : A.transpose.transpose = A := by
  ext <;> simp only [M3.transpose]
theorem det_mul (A B : M3 K) : (A.mul B).det = A.det * B.det := by
  simp only [M3.mul, M3.det]; ring
theorem det_transpose (A : M3 K) : A.transpose.det = A.det := by
  simp only [M3.transpose, M3.det]; ring
theorem det_one : (M3.one : M3 K).det = 1 := by
  simp only [M3.one, M3.det]; ring
theorem transpose_one : (M3.one : M3 K).transpose = M3.one := by
  ext <;> simp only [M3.transpose, M3.one]
end M3

theorem rowMul_mul (v : V3 K) (A B : M3 K) : rowMul v (A.mul B) = rowMul (rowMul v A) B := by
  ext <;> simp only [rowMul, M3.mul] <;> ring
theorem rowMul_one (v : V3 K) : rowMul v M3.one = v := by
  ext <;> simp only [rowMul, M3.one] <;> ring
theorem rowMul_add (a b : V3 K) (U : M3 K) : rowMul (a.add b) U = (rowMul a U).add (rowMul b U) := by
  ext <;> simp only [rowMul, V3.add] <;> ring
theorem rowMul_sub (a b : V3 K) (U : M3 K) : rowMul (a.sub b) U = (rowMul a U).sub (rowMul b U) := by
  ext <;> simp only [rowMul, V3.sub] <;> ring
theorem rowMul_smul (k : K) (a : V3 K) (U : M3 K) : rowMul (V3.smul k a) U = V3.smul k (rowMul a U) := by
  ext <;> simp only [rowMul, V3.smul] <;> ring
theorem rowMul_zero (U : M3 K) : rowMul V3.zero U = V3.zero := by
  ext <;> simp only [rowMul, V3.zero] <;> ring
/-- `v·Uᵀ` (row convention) is `U v` (column convention) -/
theorem rowMul_transpose (v : V3 K) (U : M3 K) : rowMul v U.transpose = matVec U v := by
  ext <;> simp only [rowMul, matVec, M3.transpose] <;> ring

theorem IsRot.one : IsRot (M3.one : M3 K) :=
  ⟨by rw [M3.transpose_one, M3.one_mul'], M3.det_one⟩

theorem IsRot.orth' {U : M3 K} (h : IsRot U) : U.transpose.mul U = M3.one :=
  transpose_mul_of_rot U h.orth h.det

theorem IsRot.transpose {U : M3 K} (h : IsRot U) : IsRot U.transpose :=
  ⟨by rw [M3.transpose_transpose]; exact h.orth', by rw [M3.det_transpose]; exact h.det⟩

theorem IsRot.mul {A B : M3 K} (hA : IsRot A) (hB : IsRot B) : IsRot (A.mul B) := by
  refine ⟨?_, by rw [M3.det_mul, hA.det, hB.det, one_mul]⟩
  rw [M3.transpose_mul, M3.mul_assoc', ← M3.mul_assoc' B, hB.orth, M3.one_mul', hA.orth]

/-- undoing a rotation: `(v·U)·Uᵀ = v` -/
theorem rowMul_rowMul_transpose {U : M3 K} (h : IsRot U) (v : V3 K) : rowMul (rowMul v U) U.transpose = v := by
  rw [← rowMul_mul, h.orth, rowMul_one]

theorem rowMul_transpose_rowMul {U : M3 K} (h : IsRot U) (v : V3 K) : rowMul (rowMul v U.transpose) U = v := by
  rw [← rowMul_mul, h.orth', rowMul_one]

/-- a proper rotation preserves lengths -/
theorem nrm2_rowMul {U : M3 K} (h : IsRot U) (v : V3 K) : (rowMul v U).nrm2 = v.nrm2 := by
  have F := rot_facts U h.orth h.det
  simp only [rowMul, V3.nrm2]
  linear_combination (v.x * v.x) * F.r00 + (v.y * v.y) * F.r11 + (v.z * v.z) * F.r22
    + (2 * v.x * v.y) * F.r01 + (2 * v.x * v.z) * F.r02 + (2 * v.y * v.z) * F.r12

/-- **a proper rotation preserves cross products** (it is its own cofactor matrix) -/
theorem rowMul_cross {U : M3 K} (h : IsRot U) (a b : V3 K) :
    rowMul (V3.cross a b) U = V3.cross (rowMul a U) (rowMul b U) := by
  have F := rot_facts U h.orth h.det
  ext
  · simp only [rowMul, V3.cross]
    linear_combination (a.y * b.z - a.z * b.y) * F.k00 + (a.z * b.x - a.x * b.z) * F.k10
      + (a.x * b.y - a.y * b.x) * F.k20
  · simp only [rowMul, V3.cross]
    linear_combination (a.y * b.z - a.z * b.y) * F.k01 + (a.z * b.x - a.x * b.z) * F.k11
      + (a.x * b.y - a.y * b.x) * F.k21
  · simp only [rowMul, V3.cross]
    linear_combination (a.y * b.z - a.z * b.y) * F.k02 + (a.z * b.x - a.x * b.z) * F.k12
      + (a.x * b.y - a.y * b.x) * F.k22

theorem cross2_rowMul {U : M3 K} (h : IsRot U) (a b : V3 K) : cross2 (rowMul a U) (rowMul b U) = cross2 a b := by
  rw [cross2, ← rowMul_cross h, nrm2_rowMul h, cross2]

theorem cross2_comm (a b : V3 K) : cross2 a b = cross2 b a := by
  simp only [cross2, V3.cross, V3.nrm2]; ring

theorem cross2_self (a : V3 K) : cross2 a a = 0 := by
  simp only [cross2, V3.cross, V3.nrm2]; ring

/-- **Cramer's rule in the basis `a, b, n = a × b`** (scalar triple product `[a, b, n] = |n|²`):
    `|n|² v = (v·(b×n)) a + (v·(n×a)) b + (v·n) n` -/
theorem cramer_cross (a b v : V3 K) :
    V3.smul (cross2 a b) v
      = ((V3.smul (v.dot (V3.cross b (V3.cross a b))) a).add
          (V3.smul (v.dot (V3.cross (V3.cross a b) a)) b)).add
          (V3.smul (v.dot (V3.cross a b)) (V3.cross a b)) := by
  ext <;> simp only [V3.smul, V3.add, V3.dot, V3.cross, cross2, V3.nrm2] <;> ring

/-- Lagrange: `|x|²|y|² = (x·y)² + |x × y|²` -/
theorem lagrange (x y : V3 K) : x.nrm2 * y.nrm2 = x.dot y ^ 2 + cross2 x y := by
  simp only [V3.nrm2, V3.dot, cross2, V3.cross]; ring

/-- `a × b ⟂ b`, so `|b × (a×b)|² = |b|²|a×b|²` -/
theorem cross2_right_cross (a b : V3 K) : cross2 b (V3.cross a b) = b.nrm2 * cross2 a b := by
  simp only [cross2, V3.cross, V3.nrm2]; ring

theorem cross2_cross_left (a b : V3 K) : cross2 (V3.cross a b) a = a.nrm2 * cross2 a b := by
  simp only [cross2, V3.cross, V3.nrm2]; ring

/-- if a proper rotation fixes `a` and `b` it fixes `|a×b|²·v` for every `v` -/
theorem smul_fixed_of_fixes_two {U : M3 K} (h : IsRot U) (a b : V3 K) (ha : rowMul a U = a) (hb : rowMul b U = b)
    (v : V3 K) : V3.smul (cross2 a b) (rowMul v U) = V3.smul (cross2 a b) v := by
  have hn : rowMul (V3.cross a b) U = V3.cross a b := by rw [rowMul_cross h, ha, hb]
  rw [← rowMul_smul, cramer_cross a b v, rowMul_add, rowMul_add, rowMul_smul, rowMul_smul, rowMul_smul, ha, hb, hn]

/-- a matrix whose row action is the identity is the identity -/
theorem eq_one_of_rowMul_id (U : M3 K) (h : ∀ v : V3 K, rowMul v U = v) : U = M3.one := by
  have h0 := h ⟨1, 0, 0⟩
  have h1 := h ⟨0, 1, 0⟩
  have h2 := h ⟨0, 0, 1⟩
  simp only [rowMul, V3.ext_iff] at h0 h1 h2
  ext <;> simp only [M3.one]
  · linear_combination h0.1
  · linear_combination h0.2.1
  · linear_combination h0.2.2
  · linear_combination h1.1
  · linear_combination h1.2.1
  · linear_combination h1.2.2
  · linear_combination h2.1
  · linear_combination h2.2.1
  · linear_combination h2.2.2

theorem vsum_map_rowMul (U : M3 K) (l : List (V3 K)) : vsum (l.map (fun v => rowMul v U)) = rowMul (vsum l) U := by
  induction l with
  | nil => simp only [List.map_nil, vsum, rowMul_zero]
  | cons a t ih => simp only [List.map_cons, vsum, ih, rowMul_add]

end Ring

section Ordered
variable [Field K] [LinearOrder K] [IsStrictOrderedRing K]

theorem cross2_nonneg (a b : V3 K) : 0 ≤ cross2 a b := V3.nrm2_nonneg _

theorem nrm2_eq_zero_iff (v : V3 K) : v.nrm2 = 0 ↔ v = V3.zero := by
  constructor
  · intro h
    simp only [V3.nrm2] at h
    have hx := mul_self_nonneg v.x; have hy := mul_self_nonneg v.y; have hz := mul_self_nonneg v.z
    have ex : v.x * v.x = 0 := by linarith
    have ey : v.y * v.y = 0 := by linarith
    have ez : v.z * v.z = 0 := by linarith
    ext <;> simp only [V3.zero]
    · exact mul_self_eq_zero.mp ex
    · exact mul_self_eq_zero.mp ey
    · exact mul_self_eq_zero.mp ez
  · rintro rfl; simp only [V3.nrm2, V3.zero]; ring

theorem cross2_eq_zero_iff (a b : V3 K) : cross2 a b = 0 ↔ V3.cross a b = V3.zero := nrm2_eq_zero_iff _

theorem cross2_pos_iff (a b : V3 K) : 0 < cross2 a b ↔ V3.cross a b ≠ V3.zero := by
  rw [← not_iff_not, not_lt, not_not, ← cross2_eq_zero_iff]
  exact ⟨fun h => le_antisymm h (cross2_nonneg a b), fun h => h.le⟩

theorem cross2_le_mul (x y : V3 K) : cross2 x y ≤ x.nrm2 * y.nrm2 := by
  have := lagrange x y; have := sq_nonneg (x.dot y); linarith

theorem dot_sq_le (x y : V3 K) : x.dot y ^ 2 ≤ x.nrm2 * y.nrm2 := by
  have := lagrange x y; have := cross2_nonneg x y; linarith

omit [LinearOrder K] [IsStrictOrderedRing K] in
theorem nrm2_smul (k : K) (v : V3 K) : (V3.smul k v).nrm2 = k ^ 2 * v.nrm2 := by
  simp only [V3.nrm2, V3.smul]; ring

theorem nrm2_add_le_two (x y : V3 K) : (x.add y).nrm2 ≤ 2 * x.nrm2 + 2 * y.nrm2 := by
  have h := V3.nrm2_nonneg (x.sub y)
  have e : 2 * x.nrm2 + 2 * y.nrm2 - (x.add y).nrm2 = (x.sub y).nrm2 := by
    simp only [V3.nrm2, V3.add, V3.sub]; ring
  linarith

theorem nrm2_comb2_le (α β : K) (x y : V3 K) :
    ((V3.smul α x).add (V3.smul β y)).nrm2 ≤ (α ^ 2 + β ^ 2) * (x.nrm2 + y.nrm2) := by
  have h := V3.nrm2_nonneg ((V3.smul β x).sub (V3.smul α y))
  have e : (α ^ 2 + β ^ 2) * (x.nrm2 + y.nrm2) - ((V3.smul α x).add (V3.smul β y)).nrm2
      = ((V3.smul β x).sub (V3.smul α y)).nrm2 := by
    simp only [V3.nrm2, V3.add, V3.sub, V3.smul]; ring
  linarith

end Ordered

/-! ### `Option`-valued `mapM` (the fancy indexing `g2[atommap]` of `alignCoords`) -/

theorem mapM_option_congr {α β : Type} (f g : α → Option β) :
    ∀ (l : List α), (∀ a ∈ l, f a = g a) → l.mapM f = l.mapM g := by
  intro l
  induction l with
  | nil => intro _; rfl
  | cons a t ih =>
    intro h
    simp only [List.mapM_cons]
    rw [h a List.mem_cons_self, ih (fun b hb => h b (List.mem_cons_of_mem _ hb))]

theorem mapM_some_length {α β : Type} (f : α → Option β) :
    ∀ (l : List α) (r : List β), l.mapM f = some r → r.length = l.length := by
  intro l
  induction l with
  | nil => intro r h; simp only [List.mapM_nil, pure, Option.some.injEq] at h; subst h; rfl
  | cons a t ih =>
    intro r h
    simp only [List.mapM_cons, bind, Option.bind_eq_some_iff, pure, Option.some.injEq] at h
    obtain ⟨b, _, r', hr', rfl⟩ := h
    simp only [List.length_cons, ih r' hr']

theorem mapM_some_getElem {α β : Type} (f : α → Option β) :
    ∀ (l : List α) (r : List β), l.mapM f = some r →
      ∀ (k : Nat) (hk : k < l.length) (hk' : k < r.length), f l[k] = some r[k] := by
  intro l
  induction l with
  | nil => intro r _ k hk; simp at hk
  | cons a t ih =>
    intro r h k hk hk'
    simp only [List.mapM_cons, bind, Option.bind_eq_some_iff, pure, Option.some.injEq] at h
    obtain ⟨b, hb, r', hr', rfl⟩ := h
    cases k with
    | zero => simpa using hb
    | succ k =>
      simp only [List.getElem_cons_succ]
      exact ih r' hr' k (by simpa using hk) (by simpa using hk')

end QcelVerif.Kabsch
