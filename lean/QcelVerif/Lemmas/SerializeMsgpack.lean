import QcelVerif.Model.Serialize
import QcelVerif.Lemmas.Serialize
/-! Head-level lemmas for the msgpack decoder (C10). Core Lean only. -/
namespace QcelVerif.Ser

theorem takeN_append (a b : Bytes) (k : Nat) (h : a.length = k) : takeN k (a ++ b) = some (a, b) := by
  subst h
  simp [takeN]

theorem toNat_ofNat_lt {n : Nat} (h : n < 256) : (UInt8.ofNat n).toNat = n := by
  simp [UInt8.toNat_ofNat', Nat.mod_eq_of_lt h]

/-- decoding a `k`-byte big-endian field written by the encoder -/
theorem takeN_be (k n : Nat) (rest : Bytes) : takeN k (beBytes k n ++ rest) = some (beBytes k n, rest) :=
  takeN_append _ _ _ (beBytes_length k n)

/-! ### integers: every form `mpInt` emits decodes to the same integer and leaves the rest of the stream -/

theorem mpDec_posfix (f n : Nat) (rest : Bytes) (h : n < 128) :
    mpDec (f + 1) (UInt8.ofNat n :: rest) = .ok (.int n, rest) := by
  have ht : (UInt8.ofNat n).toNat = n := toNat_ofNat_lt (by omega)
  simp only [mpDec, ht]
  simp [h]

/- NOT DONE (time): the remaining ~25 head forms (negative fixint, uint8..64, int8..64, fixstr/str8..32, bin8..32,
   fixarray/array16/32, fixmap/map16/32) each unfold to a ~30-deep `if` chain on a symbolic head byte; they need an
   if-splitting tactic (`Mathlib.Tactic.SplitIfs`) or the hand-listed negated conditions. See the `-- FULL:` block in
   Props/C10.lean. -/

end QcelVerif.Ser
