import QcelVerif.Gen.MunkresSrc
import QcelVerif.Lemmas.MunkresInv2.Basic
/-!
C14 — the source-derived `_step1`, `_step3`, `_step6` (`Gen/MunkresSrc.lean`, evaluated by
`Model/MunkresAst.lean`) equal the hand-written steps of `Model/Munkres.lean` /
`Model/MunkresFloat.lean`, for all states and every rounding function.
-/
namespace QcelVerif.MunkresAst
open QcelVerif.Munkres QcelVerif.Gen.MunkresSrc

theorem step3_src (rnd : Rat → Rat) (s : State) : prog.doStep rnd .s3 s = .ok (Munkres.step3 s) := by
  simp only [Prog.doStep, runStepFn, Prog.body, prog, Gen.MunkresSrc.step3, Stmt.eval, NE.eval, BE.eval,
    LState.withS, Munkres.step3]
  by_cases h : (Array.foldl (fun a r => a + Array.countP (fun x => x == 1) r) 0 s.marked) < s.C.size
  · simp [h]
  · simp [h]

/-! ### `_step6` -/
theorem minvalSel_eq (s : State) : minvalSel s .rowUnc .colUnc = minval6 s := rfl

theorem step6_src (rnd : Rat → Rat) (s : State) : prog.doStep rnd .s6 s = .ok (step6F rnd s) := by
  simp only [Prog.doStep, runStepFn, Prog.body, prog, Gen.MunkresSrc.step6, Stmt.eval, BE.eval,
    LState.withS, step6F]
  by_cases h : (s.rowUnc.any id && s.colUnc.any id) = true
  · simp only [h, if_true]
    simp only [Mask.sel, minvalSel_eq, C6F]
    simp only [Array.mapIdx_mapIdx, Function.comp_def]
    congr 3
    congr 1
    funext i r
    congr 1
    funext j x
    by_cases h1 : s.rowUnc.getD i false = true <;> by_cases h2 : s.colUnc.getD j false = true <;> simp [h1, h2]
  · simp only [h]
    simp

/-! ### `_step1` -/

theorem evalFor_pure (g : Nat → LState → LState) (xs : List Nat) (l : LState) :
    evalFor (fun i l => .ok (g i l, .next)) xs l = .ok (xs.foldl (fun l i => g i l) l, .next) := by
  induction xs generalizing l with
  | nil => rfl
  | cons x xs ih => simp [evalFor, ih]

theorem foldl_sim {α β γ : Type} (R : α → β → Prop) (f : α → γ → α) (g : β → γ → β)
    (h : ∀ a b x, R a b → R (f a x) (g b x)) : ∀ (xs : List γ) (a : α) (b : β), R a b → R (xs.foldl f a) (xs.foldl g b) := by
  intro xs
  induction xs with
  | nil => intro a b hab; exact hab
  | cons x xs ih => intro a b hab; exact ih _ _ (h a b x hab)

theorem eval_forZerosC (rnd : Rat → Rat) (F : Nat) (body : Stmt) (l : LState) :
    (Stmt.forZerosC body).eval rnd F l =
      evalFor (fun i l' => evalFor (fun j l'' =>
          if get2 l.s.C i j == 0 then body.eval rnd F ((l''.setN .i i).setN .j j) else .ok (l'', .next))
        (List.range (l.s.C.getD i #[]).size) l') (List.range l.s.C.size) l := rfl

/-- the pure form of one cell visit of `_step1`'s starring loop -/
def starCell (C : Mat Rat) (i j : Nat) (l : LState) : LState :=
  if get2 C i j == 0 && l.s.colUnc.getD j false && l.s.rowUnc.getD i false then
    { (l.setN .i i).setN .j j with s := { l.s with marked := set2 l.s.marked i j 1, colUnc := l.s.colUnc.set! j false, rowUnc := l.s.rowUnc.set! i false } }
  else if get2 C i j == 0 then (l.setN .i i).setN .j j else l

theorem step1_loop_src (rnd : Rat → Rat) (F : Nat) (C : Mat Rat) (s : State) (l : LState) (hl : l.s = { s with C := C }) :
    ∃ l', (Stmt.forZerosC
  (.ite (.and (.colUncAt (.v .j)) (.rowUncAt (.v .i)))
  (.seq (.setMarked (.v .i) (.v .j) 1)
  (.seq (.setColUnc (.v .j) false)
  (.setRowUnc (.v .i) false)))
  .skip)).eval rnd F l = .ok (l', .next) ∧ (Munkres.clearCovers l'.s, some Step.s3) = step1With C s := by
  have hcell : ∀ i, (fun j (l : LState) => if get2 C i j == 0 then
        (Stmt.ite (.and (.colUncAt (.v .j)) (.rowUncAt (.v .i)))
          (.seq (.setMarked (.v .i) (.v .j) 1) (.seq (.setColUnc (.v .j) false) (.setRowUnc (.v .i) false))) .skip).eval rnd F
            ((l.setN .i i).setN .j j) else .ok (l, .next)) = fun j l => .ok (starCell C i j l, .next) := by
    intro i
    funext j l
    simp only [Stmt.eval, BE.eval, NE.eval, LState.getN, LState.setN, LState.withS, starCell]
    by_cases h0 : (get2 C i j == 0) = true <;> by_cases h1 : l.s.colUnc.getD j false = true <;>
      by_cases h2 : l.s.rowUnc.getD i false = true <;> simp [h0, h1, h2]
  have hC : l.s.C = C := by rw [hl]
  rw [eval_forZerosC, hC]
  simp only [hcell, evalFor_pure]
  refine ⟨_, rfl, ?_⟩
  unfold step1With
  simp only [Id.run, bind, pure]
  generalize hT : forIn (m := Id) [:Array.size C] (s.marked, s.rowUnc, s.colUnc) _ = T
  let ρ : Mat Nat × Array Bool × Array Bool → State := fun b =>
    { s with C := C, marked := b.1, rowUnc := b.2.1, colUnc := b.2.2 }
  let outerF : LState → Nat → LState := fun l i =>
    List.foldl (fun l j => starCell C i j l) l (List.range (Array.getD C i #[]).size)
  have key : ((List.range (Array.size C)).foldl outerF l).s = ρ T := by
    rw [← hT]
    refine forIn_range_inv _ _ _ (fun k b => ((List.range k).foldl outerF l).s = ρ b) ?_ ?_
    · simpa using hl
    · intro i b _ hb
      refine ⟨_, rfl, ?_⟩
      rw [List.range_succ, List.foldl_append]
      simp only [List.foldl_cons, List.foldl_nil]
      generalize (List.foldl outerF l (List.range i)) = L at hb ⊢
      show (List.foldl (fun l j => starCell C i j l) L (List.range (Array.getD C i #[]).size)).s = _
      generalize hU : forIn (m := Id) [:(Array.getD C i #[]).size] (b.1, b.2.1, b.2.2) _ = U
      have key2 : (List.foldl (fun l j => starCell C i j l) L (List.range (Array.getD C i #[]).size)).s = ρ U := by
        rw [← hU]
        refine forIn_range_inv _ _ _ (fun k c => ((List.range k).foldl (fun l j => starCell C i j l) L).s = ρ c) ?_ ?_
        · simpa using hb
        · intro j c _ hc
          rw [List.range_succ, List.foldl_append]
          simp only [List.foldl_cons, List.foldl_nil]
          generalize (List.foldl (fun l j => starCell C i j l) L (List.range j)) = M at hc ⊢
          have h1 : M.s.colUnc = c.2.2 := by rw [hc]
          have h2 : M.s.rowUnc = c.2.1 := by rw [hc]
          have h3 : M.s.marked = c.1 := by rw [hc]
          by_cases hcond : (get2 C i j == 0 && c.2.2.getD j false && c.2.1.getD i false) = true
          · refine ⟨_, if_pos hcond, ?_⟩
            rw [starCell, h1, h2, h3, if_pos hcond]
            simp only
            rw [hc]
          · refine ⟨_, if_neg hcond, ?_⟩
            rw [starCell, h1, h2, if_neg hcond]
            by_cases h0 : (get2 C i j == 0) = true
            · rw [if_pos h0]; simpa [LState.setN] using hc
            · rw [if_neg h0]; exact hc
      rw [key2]
  rw [key]

theorem eval_seq_next (rnd : Rat → Rat) (F : Nat) (a b : Stmt) (l l' : LState)
    (h : a.eval rnd F l = .ok (l', .next)) : (Stmt.seq a b).eval rnd F l = b.eval rnd F l' := by
  simp only [Stmt.eval, h]

theorem step1_src (rnd : Rat → Rat) (s : State) : prog.doStep rnd .s1 s = .ok (step1F rnd s) := by
  have hsub : subAxisMinC rnd 1 s.C = redCF rnd s.C := by simp [subAxisMinC, redCF]
  obtain ⟨l', h1, h2⟩ := step1_loop_src rnd 0 (redCF rnd s.C) s
    (({ s := s } : LState).withS { s with C := redCF rnd s.C }) rfl
  simp only [Prog.doStep, runStepFn, Prog.body, prog, Gen.MunkresSrc.step1, whileFuel]
  have h0 : (Stmt.subAxisMin 1).eval rnd 0 ({ s := s } : LState) =
      .ok (({ s := s } : LState).withS { s with C := redCF rnd s.C }, .next) := by
    simp only [Stmt.eval, hsub]
  rw [eval_seq_next rnd 0 _ _ _ _ h0, eval_seq_next rnd 0 _ _ _ _ h1]
  simp only [Stmt.eval, LState.withS, step1F]
  rw [← h2]
  rfl

end QcelVerif.MunkresAst
