import QcelVerif.Gen.MunkresSrc
import QcelVerif.Lemmas.MunkresInv2.Step4
import Mathlib.Tactic.SplitIfs
namespace QcelVerif.MunkresAst
open QcelVerif.Munkres QcelVerif.Gen.MunkresSrc

/-- `runStepFn`'s final projection -/
def proj4 : Except Err (LState × Ctl) → Except Err (State × Option Step)
  | .error e => .error e
  | .ok (l, .ret st) => .ok (l.s, st)
  | .ok (l, _) => .ok (l.s, none)

/-- the body of the `while True` of `_step4` as emitted from the source -/
def step4Body : Stmt :=
  (.seq (.seq (.assignN .row (.argmaxFlatRow .cov)) (.assignN .col (.argmaxFlatCol .cov)))
  (.ite (.eq (.matAt .cov (.v .row) (.v .col)) (.lit 0))
  (.ret (some .s6))
  (.seq (.setMarked (.v .row) (.v .col) 2)
  (.seq (.assignN .starCol (.argmaxRowEq (.v .row) 1))
  (.ite (.ne (.markedAt (.v .row) (.v .starCol)) (.lit 1))
  (.seq (.setZ0r (.v .row))
  (.seq (.setZ0c (.v .col))
  (.ret (some .s5))))
  (.seq (.assignN .col (.v .starCol))
  (.seq (.setRowUnc (.v .row) false)
  (.seq (.setColUnc (.v .col) true)
  (.seq (.covSetCol (.v .col))
  (.covZeroRow (.v .row)))))))))))

theorem step4_eq : Gen.MunkresSrc.step4 =
    (.seq .initCz (.seq .initCov (.seq (.assignN .n .shape0) (.seq (.assignN .m .shape1)
      (.whileTrue step4Body))))) := rfl

theorem step4Loop_src_aux (rnd : Rat → Rat) (F : Nat) (B : LState → Except Err (LState × Ctl))
    (hB : B = step4Body.eval rnd F) (f : Nat) (l : LState) :
    proj4 (evalWhile B f l) = step4Loop f l.Cz l.cov l.s := by
  induction f generalizing l with
  | zero => simp [evalWhile, step4Loop, proj4]
  | succ f ih =>
    have hspec := argmaxFlat_spec l.cov
    have hBl : B l = step4Body.eval rnd F l := by rw [hB]
    simp only [evalWhile, step4Loop]
    rw [hBl]
    simp only [step4Body, Stmt.eval, NE.eval, BE.eval, LState.setN, LState.getN, LState.withS, LState.mat]
    simp only [hspec]
    by_cases h1 : (get2 l.cov (argmaxFlat l.cov).1 (argmaxFlat l.cov).2.1 == 0) = true
    · simp only [h1, ↓reduceIte, proj4]
    · simp only [h1, Bool.false_eq_true, ↓reduceIte]
      split_ifs with h2
      · simp only [h2, ↓reduceIte, proj4]
      · simp only [h2, Bool.false_eq_true, ↓reduceIte, ih]

theorem step4Loop_src (rnd : Rat → Rat) (F : Nat) (f : Nat) (l : LState) :
    proj4 (evalWhile (step4Body.eval rnd F) f l) = step4Loop f l.Cz l.cov l.s :=
  step4Loop_src_aux rnd F _ rfl f l

theorem runStepFn_proj4 (rnd : Rat → Rat) (fuel : Nat) (body : Stmt) (s : State) :
    runStepFn rnd fuel body s = proj4 (body.eval rnd fuel { s := s }) := by
  unfold runStepFn
  generalize body.eval rnd fuel { s := s } = x
  rcases x with e | ⟨l, c⟩
  · rfl
  · cases c <;> rfl

theorem step4_src (rnd : Rat → Rat) (s : State) : prog.doStep rnd .s4 s = step4 s := by
  have h := step4Loop_src rnd (s.C.size + 1) (s.C.size + 1)
  rw [Prog.doStep, runStepFn_proj4]
  simp only [Prog.body, prog, step4_eq, whileFuel, Munkres.step4,
    Stmt.eval, NE.eval, LState.setN]
  rw [h]

end QcelVerif.MunkresAst
