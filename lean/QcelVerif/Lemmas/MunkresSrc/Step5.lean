import QcelVerif.Gen.MunkresSrc
import QcelVerif.Lemmas.MunkresInv2.Basic
/-!
C14 — the source-derived `_step5` (`Gen/MunkresSrc.lean`, evaluated by `Model/MunkresAst.lean`) equals the
hand-written `Munkres.step5` of `Model/Munkres.lean`, for all states and every rounding function.
-/
set_option linter.unusedSimpArgs false
namespace QcelVerif.MunkresAst
open QcelVerif.Munkres QcelVerif.Gen.MunkresSrc

theorem pathSet_lt {p : Array (Nat × Int)} {k : Nat} (v : Nat × Int) (h : k < p.size) :
    pathSet p k v = .ok (p.set! k v) := by simp [pathSet, h]

theorem pathSet_ge {p : Array (Nat × Int)} {k : Nat} (v : Nat × Int) (h : ¬ k < p.size) :
    pathSet p k v = .error .index := by simp [pathSet, h]

theorem size_set!' {α} (p : Array α) (k : Nat) (v : α) : (p.set! k v).size = p.size := by simp

theorem set!_set!' {α} (p : Array α) (k : Nat) (v w : α) : (p.set! k v).set! k w = p.set! k w := by
  simp [Array.set!_eq_setIfInBounds]

theorem wrapIdx_ofNat (m c : Nat) : wrapIdx m (Int.ofNat c) = c := by
  simp [wrapIdx]

/-- the body of the `while True` of `_step5` -/
def loopBody : Stmt :=
  (.seq (.assignN .row (.argmaxColEq (.wrapPathCol (.v .count)) 1))
  (.seq (.ite (.ne (.markedAt (.v .row) (.wrapPathCol (.v .count))) (.lit 1))
  .brk
  (.seq (.assignN .count (.add (.v .count) (.lit 1)))
  (.seq (.setPathRow (.v .count) (.v .row))
  (.setPathCol (.v .count) (.pathCol (.sub (.v .count) (.lit 1)))))))
  (.seq (.assignZ .col (.ofN (.argmaxRowEq (.pathRow (.v .count)) 2)))
  (.seq (.ite (.ne (.markedAt (.v .row) (.wrapZ .col)) (.lit 2))
  (.assignZ .col (.lit (-1)))
  .skip)
  (.seq (.assignN .count (.add (.v .count) (.lit 1)))
  (.seq (.setPathRow (.v .count) (.pathRow (.sub (.v .count) (.lit 1))))
  (.setPathCol (.v .count) (.v .col))))))))

def flipBody : Stmt :=
  (.ite (.eq (.markedAt (.pathRow (.v .i)) (.wrapPathCol (.v .i))) (.lit 1))
  (.setMarked (.pathRow (.v .i)) (.wrapPathCol (.v .i)) 0)
  (.setMarked (.pathRow (.v .i)) (.wrapPathCol (.v .i)) 1))

def tailS : Stmt :=
  (.seq (.forRange (.add (.v .count) (.lit 1)) flipBody)
  (.seq (.clearCovers true true)
  (.seq (.eraseMarkedEq 2)
  (.ret (some .s3)))))

theorem step5_shape : Gen.MunkresSrc.step5 =
  (.seq (.assignN .count (.lit 0))
  (.seq (.setPathRow (.v .count) .z0r)
  (.seq (.setPathCol (.v .count) (.ofN .z0c))
  (.seq (.whileTrue loopBody) tailS)))) := rfl

def pcOf (l : LState) : Nat := wrapIdx l.s.colUnc.size (l.s.path.getD l.count (0, 0)).2
def rowOf (l : LState) : Nat := firstIdx (· == 1) (l.s.marked.map fun r => r.getD (pcOf l) 0)
def colOf (l : LState) : Nat := firstIdx (· == 2) (l.s.marked.getD (rowOf l) #[])
def colZOf (l : LState) : Int := if get2 l.s.marked (rowOf l) (colOf l) != 2 then -1 else Int.ofNat (colOf l)

theorem body_brk (rnd : Rat → Rat) (F : Nat) (l : LState)
    (h : (get2 l.s.marked (rowOf l) (pcOf l) != 1) = true) :
    loopBody.eval rnd F l = .ok ({ l with row := rowOf l }, .brk) := by
  simp only [rowOf, pcOf] at h
  simp only [loopBody, Stmt.eval, NE.eval, BE.eval, LState.setN, LState.getN,
      h, if_true, rowOf, pcOf]

theorem body_err1 (rnd : Rat → Rat) (F : Nat) (l : LState)
    (h : (get2 l.s.marked (rowOf l) (pcOf l) != 1) = false) (h1 : ¬ l.count + 1 < l.s.path.size) :
    loopBody.eval rnd F l = .error .index := by
  simp only [rowOf, pcOf] at h
  simp only [loopBody, Stmt.eval, NE.eval, ZE.eval, BE.eval, LState.setN, LState.getN,
      LState.setZ, LState.getZ, LState.withS, h, pathSet_ge _ h1, Bool.false_eq_true, ↓reduceIte]

theorem body_err2 (rnd : Rat → Rat) (F : Nat) (l : LState)
    (h : (get2 l.s.marked (rowOf l) (pcOf l) != 1) = false) (h1 : l.count + 1 < l.s.path.size)
    (h2 : ¬ l.count + 1 + 1 < l.s.path.size) :
    loopBody.eval rnd F l = .error .index := by
  simp only [rowOf, pcOf] at h
  by_cases hc : (get2 l.s.marked (rowOf l) (colOf l) != 2) = true
  · simp only [colOf, rowOf, pcOf] at hc
    simp only [loopBody, Stmt.eval, NE.eval, ZE.eval, BE.eval, LState.setN, LState.getN,
      LState.setZ, LState.getZ, LState.withS, h, hc, pathSet, size_set!', h1, h2, Bool.false_eq_true, ↓reduceIte,
      wrapIdx_ofNat, getD_set!, set!_set!', Nat.add_sub_cancel, true_and, if_true, and_self]
  · simp only [colOf, rowOf, pcOf] at hc
    simp only [loopBody, Stmt.eval, NE.eval, ZE.eval, BE.eval, LState.setN, LState.getN,
      LState.setZ, LState.getZ, LState.withS, h, hc, pathSet, size_set!', h1, h2, Bool.false_eq_true, ↓reduceIte,
      wrapIdx_ofNat, getD_set!, set!_set!', Nat.add_sub_cancel, true_and, if_true, and_self]

def path1Of (l : LState) : Array (Nat × Int) :=
  l.s.path.set! (l.count + 1) (rowOf l, (l.s.path.getD l.count (0, 0)).2)
def path2Of (l : LState) : Array (Nat × Int) :=
  (path1Of l).set! (l.count + 1 + 1) (rowOf l, colZOf l)

def nextOf (l : LState) : LState :=
  { l with
    row := rowOf l, colZ := colZOf l, count := l.count + 1 + 1,
    s := { l.s with path := path2Of l } }

theorem body_next (rnd : Rat → Rat) (F : Nat) (l : LState)
    (h : (get2 l.s.marked (rowOf l) (pcOf l) != 1) = false) (h1 : l.count + 1 < l.s.path.size)
    (h2 : l.count + 1 + 1 < l.s.path.size) :
    loopBody.eval rnd F l = .ok (nextOf l, .next) := by
  simp only [rowOf, pcOf] at h
  by_cases hc : (get2 l.s.marked (rowOf l) (colOf l) != 2) = true
  · simp only [colOf, rowOf, pcOf] at hc
    simp only [loopBody, Stmt.eval, NE.eval, ZE.eval, BE.eval, LState.setN, LState.getN,
      LState.setZ, LState.getZ, LState.withS, h, hc, pathSet, size_set!', h1, h2, Bool.false_eq_true, ↓reduceIte,
      wrapIdx_ofNat, getD_set!, set!_set!', Nat.add_sub_cancel, true_and, if_true, and_self,
      nextOf, path2Of, path1Of, colZOf, colOf, rowOf, pcOf, Nat.succ_ne_self, false_and, if_false]
  · simp only [colOf, rowOf, pcOf] at hc
    simp only [loopBody, Stmt.eval, NE.eval, ZE.eval, BE.eval, LState.setN, LState.getN,
      LState.setZ, LState.getZ, LState.withS, h, hc, pathSet, size_set!', h1, h2, Bool.false_eq_true, ↓reduceIte,
      wrapIdx_ofNat, getD_set!, set!_set!', Nat.add_sub_cancel, true_and, if_true, and_self,
      nextOf, path2Of, path1Of, colZOf, colOf, rowOf, pcOf, Nat.succ_ne_self, false_and, if_false]

theorem loop_src (rnd : Rat → Rat) (F : Nat) (f : Nat) (l : LState) :
    match step5Loop l.s.marked l.s.colUnc.size f l.count l.s.path with
    | .error e => evalWhile (loopBody.eval rnd F) f l = .error e
    | .ok (c, p) => ∃ l', evalWhile (loopBody.eval rnd F) f l = .ok (l', .next) ∧
        l'.s = { l.s with path := p } ∧ l'.count = c := by
  induction f generalizing l with
  | zero => simp [step5Loop, evalWhile]
  | succ f ih =>
    rw [step5Loop, evalWhile]
    by_cases h : (get2 l.s.marked (rowOf l) (pcOf l) != 1) = true
    · rw [body_brk rnd F l h]
      simp only [rowOf, pcOf] at h
      simp only [h, if_true]
      exact ⟨_, rfl, rfl, rfl⟩
    · have h' : (get2 l.s.marked (rowOf l) (pcOf l) != 1) = false := by simpa using h
      by_cases h1 : l.count + 1 < l.s.path.size
      · by_cases h2 : l.count + 1 + 1 < l.s.path.size
        · rw [body_next rnd F l h' h1 h2]
          have := ih (nextOf l)
          simp only [rowOf, pcOf] at h'
          simp only [h', pathSet, h1, h2, size_set!', Bool.false_eq_true, ↓reduceIte, bind, Except.bind,
            getD_set!, Nat.add_sub_cancel, true_and, and_self, if_true]
          simp only [nextOf, path2Of, path1Of, colZOf, colOf, rowOf, pcOf] at this
          exact this
        · rw [body_err2 rnd F l h' h1 h2]
          simp only [rowOf, pcOf] at h'
          simp only [h', pathSet, h1, h2, size_set!', Bool.false_eq_true, ↓reduceIte, bind, Except.bind]
      · rw [body_err1 rnd F l h' h1]
        simp only [rowOf, pcOf] at h'
        simp only [h', pathSet, h1, size_set!', Bool.false_eq_true, ↓reduceIte, bind, Except.bind]

theorem evalFor_pure (g : Nat → LState → LState) (xs : List Nat) (l : LState) :
    evalFor (fun i l => .ok (g i l, .next)) xs l = .ok (xs.foldl (fun l i => g i l) l, .next) := by
  induction xs generalizing l with
  | nil => rfl
  | cons x xs ih => simp only [evalFor, List.foldl_cons, ih]

def flipM (path : Array (Nat × Int)) (m : Nat) (i : Nat) (mk : Mat Nat) : Mat Nat :=
  if get2 mk (path.getD i (0, 0)).1 (wrapIdx m (path.getD i (0, 0)).2) == 1
  then set2 mk (path.getD i (0, 0)).1 (wrapIdx m (path.getD i (0, 0)).2) 0
  else set2 mk (path.getD i (0, 0)).1 (wrapIdx m (path.getD i (0, 0)).2) 1

def flipG (i : Nat) (l : LState) : LState :=
  { l with i := i, s := { l.s with marked := flipM l.s.path l.s.colUnc.size i l.s.marked } }

theorem flipBody_eval (rnd : Rat → Rat) (F : Nat) (i : Nat) (l : LState) :
    flipBody.eval rnd F (l.setN .i i) = .ok (flipG i l, .next) := by
  simp only [flipBody, Stmt.eval, NE.eval, BE.eval, LState.setN, LState.getN, LState.withS, flipG, flipM]
  split <;> simp only [*, if_true, Bool.false_eq_true, ↓reduceIte]

theorem foldl_flipG (xs : List Nat) (l : LState) :
    (xs.foldl (fun l i => flipG i l) l).s =
      { l.s with marked := xs.foldl (fun mk i => flipM l.s.path l.s.colUnc.size i mk) l.s.marked } := by
  induction xs generalizing l with
  | nil => rfl
  | cons x xs ih => rw [List.foldl_cons, ih]; rfl

theorem flip_model (path : Array (Nat × Int)) (m n : Nat) (mk0 : Mat Nat) :
    (Id.run do
      let mut mk := mk0
      for i in [0:n] do
        let p := path.getD i (0, 0)
        let c := wrapIdx m p.2
        if get2 mk p.1 c == 1 then mk := set2 mk p.1 c 0 else mk := set2 mk p.1 c 1
      return mk) = (List.range n).foldl (fun mk i => flipM path m i mk) mk0 := by
  rw [← forIn_range_yield]
  show forIn (m := Id) [:n] mk0 _ = forIn (m := Id) [:n] mk0 _
  congr 1; funext i b; simp only [flipM]; split <;> rfl

def finish (s : State) (v : Nat × Array (Nat × Int)) : State × Option Step :=
  (clearCovers { s with
    marked := ((List.range (v.1 + 1)).foldl (fun mk i => flipM v.2 s.colUnc.size i mk) s.marked).map
      fun r => r.map fun x => if x == 2 then 0 else x,
    path := v.2 }, some .s3)

theorem tail_eval (rnd : Rat → Rat) (F : Nat) (l : LState) :
    ∃ lf, tailS.eval rnd F l = .ok (lf, .ret (some .s3)) ∧ lf.s = (finish l.s (l.count, l.s.path)).1 := by
  have hb : (fun i l => flipBody.eval rnd F (l.setN .i i)) = fun i l => .ok (flipG i l, .next) := by
    funext i l; exact flipBody_eval rnd F i l
  simp only [tailS, Stmt.eval, NE.eval, LState.getN, hb, evalFor_pure]
  refine ⟨_, rfl, ?_⟩
  simp only [LState.withS, foldl_flipG, finish, clearCovers]

theorem step5_model (s : State) : Munkres.step5 s =
    match pathSet s.path 0 (s.z0r, Int.ofNat s.z0c) with
    | .error e => .error e
    | .ok path0 =>
      match step5Loop s.marked s.colUnc.size (s.rowUnc.size + s.colUnc.size + 1) 0 path0 with
      | .error e => .error e
      | .ok v => .ok (finish s v) := by
  unfold Munkres.step5
  cases h : pathSet s.path 0 (s.z0r, Int.ofNat s.z0c) with
  | error e => rfl
  | ok p0 =>
    simp only [bind, Except.bind]
    cases h2 : step5Loop s.marked s.colUnc.size (s.rowUnc.size + s.colUnc.size + 1) 0 p0 with
    | error e => rfl
    | ok v =>
      obtain ⟨c, p⟩ := v
      exact congrArg (fun mk : Mat Nat => Except.ok (clearCovers { s with
          marked := mk.map fun r => r.map fun x => if x == 2 then 0 else x, path := p }, some Step.s3))
        (flip_model p s.colUnc.size (c + 1) s.marked)

theorem step5_src (rnd : Rat → Rat) (s : State) : prog.doStep rnd .s5 s = step5 s := by
  rw [step5_model]
  simp only [Prog.doStep, runStepFn, Prog.body, prog, step5_shape, whileFuel]
  by_cases h0 : 0 < s.path.size
  · have hl := loop_src rnd (s.rowUnc.size + s.colUnc.size + 1) (s.rowUnc.size + s.colUnc.size + 1)
      { s := { s with path := s.path.set! 0 (s.z0r, Int.ofNat s.z0c) } }
    dsimp only at hl
    simp only [Stmt.eval, NE.eval, ZE.eval, LState.setN, LState.getN, LState.withS, pathSet, h0, size_set!',
      ↓reduceIte, getD_set!, set!_set!', true_and, if_true]
    generalize step5Loop s.marked s.colUnc.size (s.rowUnc.size + s.colUnc.size + 1) 0
      (s.path.set! 0 (s.z0r, Int.ofNat s.z0c)) = r at hl ⊢
    cases r with
    | error e => simp only at hl; rw [hl]
    | ok v =>
      obtain ⟨c, p⟩ := v
      obtain ⟨l', he, hs, hc⟩ := hl
      obtain ⟨lf, hf, hfs⟩ := tail_eval rnd (s.rowUnc.size + s.colUnc.size + 1) l'
      rw [he]
      simp only [hf, hfs, hs, hc]
      rfl
  · simp only [Stmt.eval, NE.eval, ZE.eval, LState.setN, LState.getN, LState.withS, pathSet, h0,
      ↓reduceIte]

end QcelVerif.MunkresAst
