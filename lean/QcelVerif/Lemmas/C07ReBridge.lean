import QcelVerif.Model.MolTextRe
import QcelVerif.Lemmas.RegexKit
/-!
Bridge between M1's strings (`List Char`, predicates of `Model/MolText.lean`) and the regex engine's (`List Nat`, ASCII classes):
every character class that occurs in the generated ASTs of `Gen/FromStringRegex.lean` is the corresponding predicate of M1, for
EVERY `Char` (Lean's `Char.isDigit/isAlpha/toLower` are ASCII-only, as are the engine's `\d \w \s`), plus list transport.
-/
namespace QcelVerif.MolText
open QcelVerif.Regex

theorem beq_lit (c d : Char) : (c == d) = (c.toNat == d.toNat) := by
  rw [Bool.eq_iff_iff]
  simp only [beq_iff_eq]
  constructor
  · intro h; rw [h]
  · intro h
    apply Char.ext
    apply UInt32.toNat_inj.mp
    exact h

theorem toNat_inj {c d : Char} (h : c.toNat = d.toNat) : c = d := by
  have := beq_lit c d
  simp only [h, beq_self_eq_true, beq_iff_eq] at this
  exact this

theorem toBytes_inj : ∀ {a b : Str}, toBytes a = toBytes b → a = b
  | [], [], _ => rfl
  | [], _ :: _, h => by simp [toBytes] at h
  | _ :: _, [], h => by simp [toBytes] at h
  | c :: a, d :: b, h => by
    simp only [toBytes, List.map_cons, List.cons.injEq] at h
    rw [toNat_inj h.1, toBytes_inj (a := a) (b := b) h.2]

theorem ofBytes_toBytes (s : Str) : ofBytes (toBytes s) = s := by
  induction s with
  | nil => rfl
  | cons c t ih =>
    simp only [toBytes, ofBytes, List.map_cons, List.map_map] at *
    rw [ih]
    congr 1
    exact Char.ofNat_toNat c

@[simp] theorem toBytes_nil : toBytes [] = [] := rfl
@[simp] theorem toBytes_cons (c : Char) (t : Str) : toBytes (c :: t) = c.toNat :: toBytes t := rfl
@[simp] theorem toBytes_append (a b : Str) : toBytes (a ++ b) = toBytes a ++ toBytes b := by simp [toBytes]
@[simp] theorem toBytes_length (a : Str) : (toBytes a).length = a.length := by simp [toBytes]

theorem toBytes_eq_nil {a : Str} : toBytes a = [] ↔ a = [] := by cases a <;> simp

/-- a split of `toBytes s` is the image of a split of `s` -/
theorem toBytes_eq_append {s : Str} {x y : List Nat} (h : toBytes s = x ++ y) :
    ∃ a b, s = a ++ b ∧ x = toBytes a ∧ y = toBytes b := by
  refine ⟨s.take x.length, s.drop x.length, (List.take_append_drop _ _).symm, ?_, ?_⟩
  · have := congrArg (List.take x.length) h
    simp only [toBytes, ← List.map_take] at this
    simpa [toBytes] using this.symm
  · have := congrArg (List.drop x.length) h
    simp only [toBytes, ← List.map_drop] at this
    simpa [toBytes] using this.symm

theorem takeWhile_toBytes (p : Nat → Bool) (q : Char → Bool) (h : ∀ c, p c.toNat = q c) (s : Str) :
    (toBytes s).takeWhile p = toBytes (s.takeWhile q) := by
  induction s with
  | nil => rfl
  | cons c t ih =>
    simp only [toBytes_cons, List.takeWhile_cons, h]
    cases q c <;> simp [ih]

theorem dropWhile_toBytes (p : Nat → Bool) (q : Char → Bool) (h : ∀ c, p c.toNat = q c) (s : Str) :
    (toBytes s).dropWhile p = toBytes (s.dropWhile q) := by
  induction s with
  | nil => rfl
  | cons c t ih =>
    simp only [toBytes_cons, List.dropWhile_cons, h]
    cases q c <;> simp [ih]

theorem all_toBytes (p : Nat → Bool) (q : Char → Bool) (h : ∀ c, p c.toNat = q c) (s : Str) :
    (∀ c ∈ toBytes s, p c = true) ↔ (∀ c ∈ s, q c = true) := by
  simp only [toBytes, List.mem_map, forall_exists_index, and_imp, forall_apply_eq_imp_iff₂, h]

/-! ## the classes -/

theorem isDigit_nat (c : Char) : c.isDigit = isDigitC c.toNat := by
  simp only [isDigitC, Char.isDigit, UInt32.le_iff_toNat_le]
  rfl

theorem isAlpha_nat (c : Char) : c.isAlpha = isAlphaC c.toNat := by
  simp only [isAlphaC, Char.isAlpha, Char.isUpper, Char.isLower, UInt32.le_iff_toNat_le]
  show (decide (65 ≤ c.toNat ∧ c.toNat ≤ 90) || decide (97 ≤ c.toNat) && decide (c.toNat ≤ 122)) = _
  simp [Bool.decide_and]

theorem isWs_nat (c : Char) : isWs c = isSpaceC c.toNat := by
  simp only [isWs, isSpaceC, beq_lit, Char.reduceToNat]
  rw [Bool.eq_iff_iff]
  simp only [Bool.or_eq_true, beq_iff_eq, Bool.and_eq_true, decide_eq_true_eq]
  omega

theorem isWord_nat (c : Char) : isWord c = isWordC c.toNat := by
  simp only [isWord, isWordC, Char.isAlphanum, isAlpha_nat, isDigit_nat, beq_lit, Char.reduceToNat]

theorem cls_digit (c : Char) : clsMem false [.digit] c.toNat = c.isDigit := by
  rw [isDigit_nat]; simp [clsMem, Item.mem]

theorem cls_word (c : Char) : clsMem false [.word] c.toNat = isWord c := by
  rw [isWord_nat]; simp [clsMem, Item.mem]

theorem cls_space (c : Char) : clsMem false [.space] c.toNat = isWs c := by
  rw [isWs_nat]; simp [clsMem, Item.mem]

theorem cls_sep (c : Char) : clsMem false [.ch 9, .ch 32, .ch 44] c.toNat = isSep c := by
  simp only [clsMem, Item.mem, isSep, beq_lit, List.any_cons, List.any_nil, Bool.or_false, Char.reduceToNat]
  generalize (c.toNat == 9) = a
  generalize (c.toNat == 32) = b
  generalize (c.toNat == 44) = d
  cases a <;> cases b <;> cases d <;> rfl

theorem cls_wsComma (c : Char) : clsMem false [.space, .ch 44] c.toNat = isWsComma c := by
  simp only [isWsComma, isWs_nat, beq_lit, Char.reduceToNat]
  simp [clsMem, Item.mem]

theorem cls_wsEq (c : Char) : clsMem false [.space, .ch 61] c.toNat = isWsEq c := by
  simp only [isWsEq, isWs_nat, beq_lit, Char.reduceToNat]
  simp [clsMem, Item.mem]

/-- a literal character -/
theorem cls_ch (c : Char) (k : Nat) : clsMem false [.ch k] c.toNat = (c.toNat == k) := by
  simp [clsMem, Item.mem]

/-- `[^x]` -/
theorem cls_not_ch (c : Char) (k : Nat) : clsMem true [.ch k] c.toNat = (c.toNat != k) := by
  simp [clsMem, Item.mem, bne]

theorem toLower_nat (c : Char) : c.toLower.toNat = if 65 ≤ c.toNat ∧ c.toNat ≤ 90 then c.toNat + 32 else c.toNat := by
  unfold Char.toLower
  split
  · rename_i h
    have h' : 65 ≤ c.toNat ∧ c.toNat ≤ 90 := by
      simp only [ge_iff_le, UInt32.le_iff_toNat_le] at h
      exact h
    rw [if_pos h']
    show (c.val + ('a'.val - 'A'.val)).toNat = c.val.toNat + 32
    have h2 : c.val.toNat ≤ 90 := h'.2
    rw [UInt32.toNat_add]
    have : ('a'.val - 'A'.val).toNat = 32 := by decide
    rw [this]
    omega
  · rename_i h
    have h' : ¬ (65 ≤ c.toNat ∧ c.toNat ≤ 90) := by
      simp only [ge_iff_le, UInt32.le_iff_toNat_le] at h
      exact h
    rw [if_neg h']

/-- a letter under IGNORECASE, as the translator folds it (`[.ch lower, .ch upper]`): the character lower-cases to it -/
theorem cls_ci (c : Char) (k : Nat) (hk : 97 ≤ k ∧ k ≤ 122) :
    clsMem false [.ch k, .ch (k - 32)] c.toNat = (c.toLower.toNat == k) := by
  rw [toLower_nat]
  simp only [clsMem, Item.mem, List.any_cons, List.any_nil, Bool.or_false]
  rw [Bool.eq_iff_iff]
  by_cases h : 65 ≤ c.toNat ∧ c.toNat ≤ 90
  · simp only [h, and_self, if_true, bne_iff_ne, ne_eq, Bool.not_eq_false, Bool.or_eq_true, beq_iff_eq]
    omega
  · simp only [h, if_false, bne_iff_ne, ne_eq, Bool.not_eq_false, Bool.or_eq_true, beq_iff_eq]
    omega

end QcelVerif.MolText
