import QcelVerif.Model.PeriodicSrcEval
/-!
Helper lemmas for C01's source-derived dictionaries: Python's `dict(zip(keys, values))` (`Src.buildDict`:
insert in order, later duplicate overwrites) looked up = `Tables.lastAssoc` of the rows; a search tree that
is ordered is determined, as a lookup function, by its in-order list.
-/
namespace QcelVerif.PT.Src
open QcelVerif

theorem insert_lookup {β : Type} (t : Bst β) (k : Nat) (v : β) (x : Nat) :
    (insert t k v).lookup x = if x = k then some v else t.lookup x := by
  induction t with
  | leaf =>
    simp only [insert, Bst.lookup]
    by_cases h : x = k
    · subst h; simp
    · simp only [h, if_false]
      by_cases h1 : x < k
      · simp [h1]
      · have : k < x := by omega
        simp [h1, this]
  | node l k0 v0 r ihl ihr =>
    simp only [insert]
    by_cases h1 : k < k0
    · simp only [h1, if_true, Bst.lookup]
      by_cases hx : x < k0
      · simp only [hx, if_true, ihl]
      · simp only [hx, if_false]
        have : x ≠ k := by omega
        simp [this]
    · simp only [h1, if_false]
      by_cases h2 : k0 < k
      · simp only [h2, if_true, Bst.lookup]
        by_cases hx : x < k0
        · have : x ≠ k := by omega
          simp [hx, this]
        · simp only [hx, if_false]
          by_cases hx2 : k0 < x
          · simp only [hx2, if_true, ihr]
          · have : x ≠ k := by omega
            simp [hx2, this]
      · have hk : k = k0 := by omega
        subst hk
        simp only [h2, if_false, Bst.lookup]
        by_cases hx : x < k
        · have : x ≠ k := by omega
          simp [hx, this]
        · by_cases hx2 : k < x
          · have : x ≠ k := by omega
            simp [hx, hx2, this]
          · have : x = k := by omega
            simp [this]

theorem foldl_insert_lookup {β : Type} (rows : List (Nat × β)) (t : Bst β) (x : Nat) :
    (rows.foldl (fun t r => insert t r.1 r.2) t).lookup x
      = rows.foldl (fun acc p => if p.1 == x then some p.2 else acc) (t.lookup x) := by
  induction rows generalizing t with
  | nil => rfl
  | cons r rest ih =>
    simp only [List.foldl_cons]
    rw [ih, insert_lookup]
    congr 1
    by_cases h : x = r.1
    · subst h; simp
    · have : (r.1 == x) = false := by simp; omega
      simp [h, this]

/-- **`dict(zip(k, v))[x]`**: the tree built by inserting the rows in order answers like "last row with that key" -/
theorem buildDict_lookup {β : Type} (rows : List (Nat × β)) (x : Nat) :
    (buildDict rows).lookup x = Tables.lastAssoc rows x := by
  unfold buildDict Tables.lastAssoc
  rw [foldl_insert_lookup]; rfl

theorem foldl_lastAssoc_map {β γ : Type} (f : β → γ) (rows : List (Nat × β)) (x : Nat) (acc : Option β) :
    (rows.map (fun r => (r.1, f r.2))).foldl (fun acc p => if p.1 == x then some p.2 else acc) (acc.map f)
      = (rows.foldl (fun acc p => if p.1 == x then some p.2 else acc) acc).map f := by
  induction rows generalizing acc with
  | nil => rfl
  | cons r rest ih =>
    simp only [List.map_cons, List.foldl_cons]
    by_cases h : (r.1 == x) = true
    · simp only [h, if_true]; exact ih (some r.2)
    · simp only [h]; exact ih acc

theorem lastAssoc_map_val {β γ : Type} (f : β → γ) (rows : List (Nat × β)) (x : Nat) :
    Tables.lastAssoc (rows.map (fun r => (r.1, f r.2))) x = (Tables.lastAssoc rows x).map f := by
  unfold Tables.lastAssoc
  exact foldl_lastAssoc_map f rows x none

theorem zip_map_map {α β γ : Type} (f : α → β) (g : α → γ) (l : List α) :
    (l.map f).zip (l.map g) = l.map (fun r => (f r, g r)) := by
  induction l with
  | nil => rfl
  | cons a t ih => simp [ih]

/-! ### the rows' "last match" against a search tree with the same keys -/

theorem foldl_last_none {β : Type} (rows : List (Nat × β)) (k : Nat) (acc : Option β)
    (h : rows.foldl (fun acc p => if p.1 == k then some p.2 else acc) acc = none) :
    acc = none ∧ ∀ r ∈ rows, r.1 ≠ k := by
  induction rows generalizing acc with
  | nil => exact ⟨h, by simp⟩
  | cons r rest ih =>
    simp only [List.foldl_cons] at h
    have := ih _ h
    by_cases hk : (r.1 == k) = true
    · simp [hk] at this
    · simp only [hk] at this
      refine ⟨this.1, ?_⟩
      intro q hq
      simp only [List.mem_cons] at hq
      rcases hq with hq | hq
      · subst hq; simpa using hk
      · exact this.2 q hq

theorem foldl_last_some {β : Type} (rows : List (Nat × β)) (k : Nat) (acc : Option β) (v : β)
    (h : rows.foldl (fun acc p => if p.1 == k then some p.2 else acc) acc = some v) :
    acc = some v ∨ (k, v) ∈ rows := by
  induction rows generalizing acc with
  | nil => exact Or.inl h
  | cons r rest ih =>
    simp only [List.foldl_cons] at h
    rcases ih _ h with h1 | h1
    · by_cases hk : (r.1 == k) = true
      · simp only [hk, if_true] at h1
        right
        have e1 : r.1 = k := by simpa using hk
        have e2 : r.2 = v := Option.some.inj h1
        have : r = (k, v) := by rw [← e1, ← e2]
        simp [this]
      · simp only [hk] at h1
        exact Or.inl h1
    · right; simp [h1]

theorem lookup_some_mem_toList {β : Type} (t : Bst β) (k : Nat) (v : β) (h : t.lookup k = some v) :
    (k, v) ∈ t.toList := by
  induction t with
  | leaf => simp [Bst.lookup] at h
  | node l k0 v0 r ihl ihr =>
    simp only [Bst.lookup] at h
    simp only [Bst.toList, List.mem_append, List.mem_cons]
    by_cases h1 : k < k0
    · simp only [h1, if_true] at h; exact Or.inl (ihl h)
    · simp only [h1, if_false] at h
      by_cases h2 : k0 < k
      · simp only [h2, if_true] at h; exact Or.inr (Or.inr (ihr h))
      · simp only [h2, if_false] at h
        have : k = k0 := by omega
        subst this
        exact Or.inr (Or.inl (by rw [Option.some.inj h]))

/-- **rows vs tree**: if every row is found in the tree with its own value and every key of the tree is
a key of some row, then "last row with key `k`" and the tree answer alike for EVERY `k` (in particular rows
with the same key carry the same value, and the tree has no key of its own). -/
theorem lastAssoc_eq_lookup {β : Type} (rows : List (Nat × β)) (t : Bst β)
    (hrows : ∀ r ∈ rows, t.lookup r.1 = some r.2)
    (hkeys : ∀ x ∈ t.toList.map (·.1), x ∈ rows.map (·.1)) (k : Nat) :
    Tables.lastAssoc rows k = t.lookup k := by
  unfold Tables.lastAssoc
  cases hL : rows.foldl (fun acc p => if p.1 == k then some p.2 else acc) none with
  | none =>
    have hne := (foldl_last_none rows k none hL).2
    cases ht : t.lookup k with
    | none => rfl
    | some v =>
      have hm := lookup_some_mem_toList t k v ht
      have : k ∈ rows.map (·.1) := hkeys k (List.mem_map.mpr ⟨(k, v), hm, rfl⟩)
      obtain ⟨r, hr, hrk⟩ := List.mem_map.mp this
      exact absurd hrk (hne r hr)
  | some v =>
    rcases foldl_last_some rows k none v hL with h | h
    · cases h
    · exact (hrows (k, v) h).symm

/-! ### a structural merge sort (kernel-friendly) whose output only contains input elements -/

def mergeFuel : Nat → List Nat → List Nat → List Nat
  | 0, xs, ys => xs ++ ys
  | _ + 1, [], ys => ys
  | _ + 1, x :: xs, [] => x :: xs
  | f + 1, x :: xs, y :: ys =>
      if x ≤ y then x :: mergeFuel f xs (y :: ys) else y :: mergeFuel f (x :: xs) ys

def mergePairs : List (List Nat) → List (List Nat)
  | a :: b :: t => mergeFuel (a.length + b.length) a b :: mergePairs t
  | l => l

def mergeIter : Nat → List (List Nat) → List Nat
  | 0, ls => ls.flatten
  | _ + 1, [] => []
  | _ + 1, [l] => l
  | f + 1, a :: b :: t => mergeIter f (mergePairs (a :: b :: t))

/-- bottom-up merge sort (64 rounds: enough for 2^64 elements; with less it still returns the elements) -/
def msort (l : List Nat) : List Nat := mergeIter 64 (l.map fun x => [x])

theorem mem_mergeFuel (f : Nat) (xs ys : List Nat) (x : Nat) (h : x ∈ mergeFuel f xs ys) : x ∈ xs ∨ x ∈ ys := by
  induction f generalizing xs ys with
  | zero => simpa [mergeFuel] using h
  | succ f ih =>
    cases xs with
    | nil => simp only [mergeFuel] at h; exact Or.inr h
    | cons a xs =>
      cases ys with
      | nil => simp only [mergeFuel] at h; exact Or.inl h
      | cons b ys =>
        simp only [mergeFuel] at h
        split at h
        · simp only [List.mem_cons] at h ⊢
          rcases h with h | h
          · exact Or.inl (Or.inl h)
          · rcases ih _ _ h with h | h
            · exact Or.inl (Or.inr h)
            · simpa using Or.inr h
        · simp only [List.mem_cons] at h ⊢
          rcases h with h | h
          · exact Or.inr (Or.inl h)
          · rcases ih _ _ h with h | h
            · simpa using Or.inl h
            · exact Or.inr (Or.inr h)

theorem mem_mergePairs (ls : List (List Nat)) (x : Nat) (h : ∃ l ∈ mergePairs ls, x ∈ l) : ∃ l ∈ ls, x ∈ l := by
  induction ls using mergePairs.induct with
  | case1 a b t ih =>
    simp only [mergePairs] at h
    obtain ⟨l, hl, hx⟩ := h
    simp only [List.mem_cons] at hl
    rcases hl with hl | hl
    · subst hl
      rcases mem_mergeFuel _ _ _ _ hx with h | h
      · exact ⟨a, by simp, h⟩
      · exact ⟨b, by simp, h⟩
    · obtain ⟨l', hl', hx'⟩ := ih ⟨l, hl, hx⟩
      exact ⟨l', by simp [hl'], hx'⟩
  | case2 l hne =>
    rw [mergePairs] at h
    · exact h
    · exact hne

theorem mem_mergeIter (f : Nat) (ls : List (List Nat)) (x : Nat) (h : x ∈ mergeIter f ls) : ∃ l ∈ ls, x ∈ l := by
  induction f generalizing ls with
  | zero => simpa [mergeIter] using h
  | succ f ih =>
    match ls, h with
    | [], h => simp [mergeIter] at h
    | [l], h => simp only [mergeIter] at h; exact ⟨l, by simp, h⟩
    | a :: b :: t, h =>
      simp only [mergeIter] at h
      exact mem_mergePairs _ _ (ih _ h)

theorem mem_msort (l : List Nat) (x : Nat) (h : x ∈ msort l) : x ∈ l := by
  obtain ⟨s, hs, hx⟩ := mem_mergeIter _ _ _ h
  obtain ⟨y, hy, rfl⟩ := List.mem_map.mp hs
  simp only [List.mem_singleton] at hx
  subst hx; exact hy

end QcelVerif.PT.Src
