import QcelVerif.Model.Units
import Mathlib.Tactic.Ring
import Mathlib.Tactic.FieldSimp
import Mathlib.Tactic.Positivity
import Mathlib.Tactic.NormNum
/-!
Helper lemmas for C03 (property theorems are in `Props/C03.lean`).
-/
namespace QcelVerif.Units

/-! ### powers -/

theorem npw_eq (x : Rat) (k : Nat) : npw x k = x ^ k := by
  induction k with
  | zero => simp [npw]
  | succ k ih => simp [npw, ih, pow_succ]

theorem zpw_eq (x : Rat) (n : Int) : zpw x n = x ^ n := by
  cases n with
  | ofNat k => simp [zpw, npw_eq]
  | negSucc k => simp [zpw, npw_eq, zpow_negSucc]

theorem ten_pos (p : Int) : 0 < ten p := by
  unfold ten; rw [zpw_eq]; exact zpow_pos (by norm_num) p

/-! ### dimension arithmetic -/

namespace Dim
@[simp] theorem add_def (a b : Dim) : a + b = Dim.add a b := rfl
@[simp] theorem sub_def (a b : Dim) : a - b = Dim.sub a b := rfl

theorem ext' {a b : Dim} (h1 : a.L = b.L) (h2 : a.M = b.M) (h3 : a.T = b.T) (h4 : a.I = b.I)
    (h5 : a.Th = b.Th) (h6 : a.N = b.N) (h7 : a.J = b.J) : a = b := by
  cases a; cases b; simp_all
end Dim

/-- componentwise ring arithmetic on dimension vectors -/
macro "dim_arith" : tactic =>
  `(tactic| (apply Dim.ext' <;> simp [Dim.add, Dim.sub, Dim.smul, Dim.zero] <;> ring))

theorem Dim.zero_add' (d : Dim) : Dim.zero + d = d := by dim_arith
theorem Dim.add_zero' (d : Dim) : d + Dim.zero = d := by dim_arith

/-! ### positivity of the table -/

structure Codata.Pos (cd : Codata) : Prop where
  NA : 0 < cd.NA
  kB : 0 < cd.kB
  c : 0 < cd.c
  h : 0 < cd.h
  Eh : 0 < cd.Eh
  eV : 0 < cd.eV
  me : 0 < cd.me
  mu : 0 < cd.mu
  e : 0 < cd.e
  a0 : 0 < cd.a0
  au : ∀ u, 0 < cd.au u
  rel : ∀ a b, 0 < cd.rel a b

theorem baseMag_pos {cd : Codata} (hp : cd.Pos) (b : Base) : 0 < baseMag cd b := by
  have h1 := hp.a0; have h2 := hp.mu; have h3 := hp.me; have h4 := hp.e; have h5 := hp.eV
  have h6 := hp.Eh
  cases b <;> simp only [baseMag, statCMag] <;> first | positivity | exact hp.au _

theorem nistMag_pos {cd : Codata} (hp : cd.Pos) (n : NistU) : 0 < nistMag cd n := by
  have h2 := hp.mu; have h5 := hp.eV; have h6 := hp.Eh
  cases n <;> simp only [nistMag] <;> positivity

theorem keyMag_pos {cd : Codata} (hp : cd.Pos) (k : UKey) : 0 < keyMag cd k := by
  cases k with
  | u p b => exact mul_pos (ten_pos p) (baseMag_pos hp b)
  | rel p a b =>
    exact mul_pos (ten_pos p) (div_pos (mul_pos (hp.rel a b) (nistMag_pos hp b)) (nistMag_pos hp a))
  | planck => exact hp.h
  | avogadro => exact hp.NA

theorem keyMag_ne {cd : Codata} (hp : cd.Pos) (k : UKey) : keyMag cd k ≠ 0 := (keyMag_pos hp k).ne'

/-! ### the container arithmetic -/

theorem contDim_cadd (c : Cont) (k : UKey) (v : Int) :
    contDim (cadd c k v) = Dim.smul v (keyDim k) + contDim c := by
  induction c with
  | nil =>
    by_cases hv : v = 0
    · subst hv; simp only [cadd, if_true, contDim]; dim_arith
    · simp only [cadd, hv, if_false, contDim]
  | cons kv t ih =>
    obtain ⟨k', v'⟩ := kv
    by_cases hk : k' = k
    · subst hk
      by_cases hz : v' + v = 0
      · have hv : v = -v' := by omega
        subst hv
        simp only [cadd, if_true, hz, contDim]; dim_arith
      · simp only [cadd, if_true, hz, if_false, contDim]; dim_arith
    · simp only [cadd, hk, if_false, contDim, ih]; dim_arith

theorem contMag_cadd {cd : Codata} (hp : cd.Pos) (c : Cont) (k : UKey) (v : Int) :
    contMag cd (cadd c k v) = contMag cd c * zpw (keyMag cd k) v := by
  have hk0 := keyMag_ne hp k
  induction c with
  | nil =>
    by_cases hv : v = 0
    · subst hv; simp [cadd, contMag, zpw_eq]
    · simp [cadd, hv, contMag, zpw_eq]
  | cons kv t ih =>
    obtain ⟨k', v'⟩ := kv
    by_cases hk : k' = k
    · subst hk
      by_cases hz : v' + v = 0
      · simp only [cadd, if_true, hz, contMag, zpw_eq]
        have : keyMag cd k' ^ v' * keyMag cd k' ^ v = 1 := by rw [← zpow_add₀ hk0, hz, zpow_zero]
        calc contMag cd t = (keyMag cd k' ^ v' * keyMag cd k' ^ v) * contMag cd t := by rw [this, one_mul]
          _ = _ := by ring
      · simp only [cadd, if_true, hz, if_false, contMag, zpw_eq]
        rw [zpow_add₀ hk0]; ring
    · simp only [cadd, hk, if_false, contMag, ih]; ring

theorem contDim_foldl_add (c2 c1 : Cont) :
    contDim (c2.foldl (fun acc kv => cadd acc kv.1 kv.2) c1) = contDim c1 + contDim c2 := by
  induction c2 generalizing c1 with
  | nil => simp only [List.foldl, contDim]; dim_arith
  | cons kv t ih => simp only [List.foldl, ih, contDim_cadd, contDim]; dim_arith

theorem contDim_foldl_sub (c2 c1 : Cont) :
    contDim (c2.foldl (fun acc kv => cadd acc kv.1 (-kv.2)) c1) = contDim c1 - contDim c2 := by
  induction c2 generalizing c1 with
  | nil => simp only [List.foldl, contDim]; dim_arith
  | cons kv t ih => simp only [List.foldl, ih, contDim_cadd, contDim]; dim_arith

theorem contDim_cmul (c1 c2 : Cont) : contDim (cmul c1 c2) = contDim c1 + contDim c2 :=
  contDim_foldl_add c2 c1

theorem contDim_cdiv (c1 c2 : Cont) : contDim (cdiv c1 c2) = contDim c1 - contDim c2 :=
  contDim_foldl_sub c2 c1

theorem contDim_cpow (c : Cont) (n : Int) : contDim (cpow c n) = Dim.smul n (contDim c) := by
  induction c with
  | nil => simp only [cpow, List.map, contDim]; dim_arith
  | cons kv t ih =>
    have ih' : contDim (List.map (fun kv => (kv.1, kv.2 * n)) t) = Dim.smul n (contDim t) := ih
    simp only [cpow, List.map, contDim, ih']; dim_arith

theorem contMag_cmul {cd : Codata} (hp : cd.Pos) (c1 c2 : Cont) :
    contMag cd (cmul c1 c2) = contMag cd c1 * contMag cd c2 := by
  unfold cmul
  induction c2 generalizing c1 with
  | nil => simp [contMag]
  | cons kv t ih => simp only [List.foldl, ih, contMag_cadd hp, contMag]; ring

theorem contMag_cdiv {cd : Codata} (hp : cd.Pos) (c1 c2 : Cont) :
    contMag cd (cdiv c1 c2) = contMag cd c1 / contMag cd c2 := by
  unfold cdiv
  induction c2 generalizing c1 with
  | nil => simp [contMag]
  | cons kv t ih =>
    simp only [List.foldl, ih, contMag_cadd hp, contMag, zpw_eq, zpow_neg]
    rw [div_eq_mul_inv, div_eq_mul_inv, mul_inv]; ring

theorem contMag_cpow (cd : Codata) (c : Cont) (n : Int) :
    contMag cd (cpow c n) = zpw (contMag cd c) n := by
  induction c with
  | nil => simp [cpow, contMag, zpw_eq]
  | cons kv t ih =>
    have ih' : contMag cd (List.map (fun kv => (kv.1, kv.2 * n)) t) = zpw (contMag cd t) n := ih
    simp only [cpow, List.map, contMag, ih', zpw_eq, mul_zpow, zpow_mul]

/-! ### routes -/

theorem route_same (o : Option Node) : route o o = [] := by
  cases o <;> simp [route]

theorem dimNode_E {d : Dim} (h : dimNode d = some .E) : d = Dim.energy := by
  unfold dimNode at h
  repeat' split at h
  all_goals first | assumption | simp at h

theorem dimNode_F {d : Dim} (h : dimNode d = some .F) : d = Dim.frequency := by
  unfold dimNode at h
  repeat' split at h
  all_goals first | assumption | simp at h

end QcelVerif.Units
