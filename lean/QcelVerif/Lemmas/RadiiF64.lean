import QcelVerif.Model.RadiiF64
import Mathlib.Algebra.Order.Field.Basic
import Mathlib.Algebra.Order.Ring.Rat
import Mathlib.Algebra.Field.Rat
import Mathlib.Tactic.Linarith
import Mathlib.Tactic.Positivity
import Mathlib.Tactic.Ring
/-!
The rounding model `rnd64` of Model/RadiiF64.lean is what it claims to be (general facts, any
rational): `ilog2` is the floor of the binary logarithm, rounding is exactly homogeneous under
binary scaling, and the rounding error is at most half a unit in the last place, i.e. at most
`2^-53` relative.
-/
namespace QcelVerif.Radii

theorem two_zpow_pos (k : Int) : (0 : Rat) < (2 : Rat) ^ k := zpow_pos (by norm_num) k

theorem log2_bounds (n d a b : Nat) (hn : 2 ^ a ≤ n) (hn2 : n < 2 ^ (a + 1)) (hd : 2 ^ b ≤ d)
    (hd2 : d < 2 ^ (b + 1)) (dpos : 0 < d) :
    (2 : Rat) ^ ((a : Int) - (b : Int) - 1) ≤ (n : Rat) / (d : Rat) ∧
    (n : Rat) / (d : Rat) < (2 : Rat) ^ ((a : Int) - (b : Int) + 1) := by
  have dposQ : (0 : Rat) < (d : Rat) := by exact_mod_cast dpos
  have hnQ : (2 : Rat) ^ a ≤ (n : Rat) := by exact_mod_cast hn
  have hn2Q : (n : Rat) < (2 : Rat) ^ (a + 1) := by exact_mod_cast hn2
  have hdQ : (2 : Rat) ^ b ≤ (d : Rat) := by exact_mod_cast hd
  have hd2Q : (d : Rat) < (2 : Rat) ^ (b + 1) := by exact_mod_cast hd2
  have two_ne : (2 : Rat) ≠ 0 := by norm_num
  constructor
  · rw [le_div_iff₀ dposQ]
    have e : (2 : Rat) ^ ((a : Int) - (b : Int) - 1) * (2 : Rat) ^ (b + 1) = (2 : Rat) ^ a := by
      rw [← zpow_natCast, ← zpow_natCast, ← zpow_add₀ two_ne]
      congr 1; push_cast; ring
    calc (2 : Rat) ^ ((a : Int) - (b : Int) - 1) * (d : Rat)
        ≤ (2 : Rat) ^ ((a : Int) - (b : Int) - 1) * (2 : Rat) ^ (b + 1) :=
          mul_le_mul_of_nonneg_left hd2Q.le (two_zpow_pos _).le
      _ = (2 : Rat) ^ a := e
      _ ≤ (n : Rat) := hnQ
  · rw [div_lt_iff₀ dposQ]
    have e : (2 : Rat) ^ ((a : Int) - (b : Int) + 1) * (2 : Rat) ^ b = (2 : Rat) ^ (a + 1) := by
      rw [← zpow_natCast, ← zpow_natCast, ← zpow_add₀ two_ne]
      congr 1; push_cast; ring
    calc (n : Rat) < (2 : Rat) ^ (a + 1) := hn2Q
      _ = (2 : Rat) ^ ((a : Int) - (b : Int) + 1) * (2 : Rat) ^ b := e.symm
      _ ≤ (2 : Rat) ^ ((a : Int) - (b : Int) + 1) * (d : Rat) :=
          mul_le_mul_of_nonneg_left hdQ (two_zpow_pos _).le

/-- `ilog2` is the floor of the binary logarithm -/
theorem ilog2_spec (q : Rat) (hq : 0 < q) :
    (2 : Rat) ^ (ilog2 q) ≤ q ∧ q < (2 : Rat) ^ (ilog2 q + 1) := by
  have hnum : 0 < q.num := Rat.num_pos.mpr hq
  have hn0 : q.num.toNat ≠ 0 := by omega
  have hcast : ((q.num.toNat : Nat) : Rat) = (q.num : Rat) := by
    have : ((q.num.toNat : Nat) : Int) = q.num := Int.toNat_of_nonneg hnum.le
    exact_mod_cast this
  have hqeq : (q.num.toNat : Rat) / (q.den : Rat) = q := by rw [hcast]; exact Rat.num_div_den q
  have hb := log2_bounds q.num.toNat q.den (Nat.log2 q.num.toNat) (Nat.log2 q.den)
    (Nat.log2_self_le hn0) Nat.lt_log2_self (Nat.log2_self_le q.den_nz) Nat.lt_log2_self q.den_pos
  rw [hqeq] at hb
  unfold ilog2
  simp only
  split
  · rename_i h; exact ⟨h, hb.2⟩
  · rename_i h
    refine ⟨hb.1, ?_⟩
    have : (Nat.log2 q.num.toNat : Int) - (Nat.log2 q.den : Int) - 1 + 1
        = (Nat.log2 q.num.toNat : Int) - (Nat.log2 q.den : Int) := by ring
    rw [this]
    exact lt_of_not_ge h

theorem ilog2_unique (q : Rat) (hq : 0 < q) (j : Int) (h1 : (2 : Rat) ^ j ≤ q) (h2 : q < (2 : Rat) ^ (j + 1)) :
    ilog2 q = j := by
  obtain ⟨s1, s2⟩ := ilog2_spec q hq
  have one_lt : (1 : Rat) < 2 := by norm_num
  have a : ilog2 q < j + 1 := (zpow_lt_zpow_iff_right₀ one_lt).mp (lt_of_le_of_lt s1 h2)
  have b : j < ilog2 q + 1 := (zpow_lt_zpow_iff_right₀ one_lt).mp (lt_of_le_of_lt h1 s2)
  omega

theorem ilog2_mul_pow2 (q : Rat) (hq : 0 < q) (k : Int) : ilog2 ((2 : Rat) ^ k * q) = ilog2 q + k := by
  obtain ⟨s1, s2⟩ := ilog2_spec q hq
  have two_ne : (2 : Rat) ≠ 0 := by norm_num
  apply ilog2_unique _ (mul_pos (two_zpow_pos k) hq)
  · rw [add_comm, zpow_add₀ two_ne]
    exact mul_le_mul_of_nonneg_left s1 (two_zpow_pos k).le
  · have : ilog2 q + k + 1 = k + (ilog2 q + 1) := by ring
    rw [this, zpow_add₀ two_ne]
    exact mul_lt_mul_of_pos_left s2 (two_zpow_pos k)

/-- rounding a positive rational commutes exactly with multiplication by a power of two -/
theorem rndPos_pow2_scale (q : Rat) (hq : 0 < q) (k : Int) :
    rndPos ((2 : Rat) ^ k * q) = (2 : Rat) ^ k * rndPos q := by
  have two_ne : (2 : Rat) ≠ 0 := by norm_num
  unfold rndPos ulpExp
  simp only
  rw [ilog2_mul_pow2 q hq k]
  have e1 : ilog2 q + k - 52 = k + (ilog2 q - 52) := by ring
  rw [e1, zpow_add₀ two_ne]
  have e2 : (2 : Rat) ^ k * q / ((2 : Rat) ^ k * (2 : Rat) ^ (ilog2 q - 52)) = q / (2 : Rat) ^ (ilog2 q - 52) := by
    rw [mul_div_mul_left _ _ (two_zpow_pos k).ne']
  rw [e2]; ring

/-- **Binary scaling is exact**: `fl(2^k · q) = 2^k · fl(q)` (exponent range unbounded in the model) -/
theorem rnd64_pow2_scale (q : Rat) (k : Int) : rnd64 ((2 : Rat) ^ k * q) = (2 : Rat) ^ k * rnd64 q := by
  have hk := two_zpow_pos k
  unfold rnd64
  rcases lt_trichotomy q 0 with h | h | h
  · have h' : (2 : Rat) ^ k * q < 0 := mul_neg_of_pos_of_neg hk h
    rw [if_neg h'.ne, if_pos h', if_neg h.ne, if_pos h]
    have : -((2 : Rat) ^ k * q) = (2 : Rat) ^ k * (-q) := by ring
    rw [this, rndPos_pow2_scale (-q) (by linarith) k]; ring
  · subst h; simp
  · have h' : 0 < (2 : Rat) ^ k * q := mul_pos hk h
    rw [if_neg h'.ne', if_neg (not_lt.mpr h'.le), if_neg h.ne', if_neg (not_lt.mpr h.le)]
    exact rndPos_pow2_scale q h k

theorem roundHalfEven_err (s : Rat) : |((roundHalfEven s : Int) : Rat) - s| ≤ 1 / 2 := by
  have h1 := Rat.floor_le s
  have h2 := Rat.lt_floor_add_one s
  push_cast at h2
  unfold roundHalfEven
  simp only
  rw [abs_le]
  split_ifs <;> push_cast <;> constructor <;> linarith

/-- positive case: the error is at most half a unit in the last place, which is at most `2^-53·q` -/
theorem rndPos_err (q : Rat) (hq : 0 < q) : |rndPos q - q| ≤ (2 : Rat) ^ (-53 : Int) * q := by
  have two_ne : (2 : Rat) ≠ 0 := by norm_num
  obtain ⟨s1, _⟩ := ilog2_spec q hq
  have hp := two_zpow_pos (ulpExp q)
  have hr := roundHalfEven_err (q / (2 : Rat) ^ (ulpExp q))
  unfold rndPos
  simp only
  have e : ((roundHalfEven (q / (2 : Rat) ^ ulpExp q) : Int) : Rat) * (2 : Rat) ^ ulpExp q - q
      = (((roundHalfEven (q / (2 : Rat) ^ ulpExp q) : Int) : Rat) - q / (2 : Rat) ^ ulpExp q) * (2 : Rat) ^ ulpExp q := by
    rw [sub_mul, div_mul_cancel₀ _ hp.ne']
  rw [e, abs_mul, abs_of_pos hp]
  have ulp_le : (2 : Rat) ^ ulpExp q ≤ (2 : Rat) ^ (-52 : Int) * q := by
    unfold ulpExp
    have : ilog2 q - 52 = -52 + ilog2 q := by ring
    rw [this, zpow_add₀ two_ne]
    exact mul_le_mul_of_nonneg_left s1 (two_zpow_pos _).le
  calc |((roundHalfEven (q / (2 : Rat) ^ ulpExp q) : Int) : Rat) - q / (2 : Rat) ^ ulpExp q| * (2 : Rat) ^ ulpExp q
      ≤ 1 / 2 * (2 : Rat) ^ ulpExp q := mul_le_mul_of_nonneg_right hr hp.le
    _ ≤ 1 / 2 * ((2 : Rat) ^ (-52 : Int) * q) := mul_le_mul_of_nonneg_left ulp_le (by norm_num)
    _ = (2 : Rat) ^ (-53 : Int) * q := by
        have : (2 : Rat) ^ (-53 : Int) = 1 / 2 * (2 : Rat) ^ (-52 : Int) := by
          rw [show (-53 : Int) = -1 + -52 by norm_num, zpow_add₀ two_ne]; norm_num
        rw [this]; ring

/-- **Rounding error**: `|fl(q) − q| ≤ 2^-53·|q|` for every rational `q` -/
theorem rnd64_err (q : Rat) : |rnd64 q - q| ≤ (2 : Rat) ^ (-53 : Int) * |q| := by
  unfold rnd64
  rcases lt_trichotomy q 0 with h | h | h
  · rw [if_neg h.ne, if_pos h, abs_of_neg h]
    have := rndPos_err (-q) (by linarith)
    have e : -rndPos (-q) - q = -(rndPos (-q) - -q) := by ring
    rw [e, abs_neg]; exact this
  · subst h; simp
  · rw [if_neg h.ne', if_neg (not_lt.mpr h.le), abs_of_pos h]
    exact rndPos_err q h

/-! ### idempotence: a rounded value is a fixed point -/

theorem roundHalfEven_intCast (z : Int) : roundHalfEven (z : Rat) = z := by
  unfold roundHalfEven
  simp only [Rat.floor_intCast, sub_self]
  norm_num

/-- the rounded significand of `s ∈ [2^52, 2^53)` lies in `[2^52, 2^53]` -/
theorem roundHalfEven_range (s : Rat) (h1 : ((2 ^ 52 : Int) : Rat) ≤ s) (h2 : s < ((2 ^ 53 : Int) : Rat)) :
    (2 ^ 52 : Int) ≤ roundHalfEven s ∧ roundHalfEven s ≤ (2 ^ 53 : Int) := by
  have f1 : (2 ^ 52 : Int) ≤ s.floor := Rat.le_floor_iff.mpr h1
  have f2 : s.floor < (2 ^ 53 : Int) := Rat.floor_lt_iff.mpr h2
  unfold roundHalfEven
  simp only
  split_ifs <;> constructor <;> omega

theorem rndPos_fixed_of_sig (m : Int) (e : Int) (hm1 : (2 ^ 52 : Int) ≤ m) (hm2 : m ≤ (2 ^ 53 : Int)) :
    rndPos ((m : Rat) * (2 : Rat) ^ e) = (m : Rat) * (2 : Rat) ^ e := by
  have two_ne : (2 : Rat) ≠ 0 := by norm_num
  have hp := two_zpow_pos e
  have hm1Q : ((2 ^ 52 : Int) : Rat) ≤ (m : Rat) := by exact_mod_cast hm1
  have mpos : (0 : Rat) < (m : Rat) := lt_of_lt_of_le (by norm_num) hm1Q
  have xpos : (0 : Rat) < (m : Rat) * (2 : Rat) ^ e := mul_pos mpos hp
  have p52 : ((2 ^ 52 : Int) : Rat) = (2 : Rat) ^ (52 : Int) := by norm_num
  have p53 : ((2 ^ 53 : Int) : Rat) = (2 : Rat) ^ (53 : Int) := by norm_num
  rcases lt_or_eq_of_le hm2 with hlt | heq
  · -- same binade
    have hm2Q : (m : Rat) < ((2 ^ 53 : Int) : Rat) := by exact_mod_cast hlt
    have hlog : ilog2 ((m : Rat) * (2 : Rat) ^ e) = 52 + e := by
      apply ilog2_unique _ xpos
      · rw [zpow_add₀ two_ne, ← p52]; exact mul_le_mul_of_nonneg_right hm1Q hp.le
      · have : (52 : Int) + e + 1 = 53 + e := by ring
        rw [this, zpow_add₀ two_ne, ← p53]; exact mul_lt_mul_of_pos_right hm2Q hp
    unfold rndPos ulpExp
    simp only
    rw [hlog]
    have : (52 : Int) + e - 52 = e := by ring
    rw [this, mul_div_cancel_right₀ _ hp.ne', roundHalfEven_intCast]
  · -- m = 2^53: the value is the power of two 2^(e+53)
    subst heq
    have hx : (((2 ^ 53 : Int) : Int) : Rat) * (2 : Rat) ^ e = (2 : Rat) ^ (53 + e) := by
      rw [zpow_add₀ two_ne, ← p53]
    have hlog : ilog2 ((2 : Rat) ^ (53 + e)) = 53 + e := by
      apply ilog2_unique _ (two_zpow_pos _) _ le_rfl
      exact (zpow_lt_zpow_iff_right₀ (by norm_num : (1 : Rat) < 2)).mpr (by omega)
    rw [hx]
    unfold rndPos ulpExp
    simp only
    rw [hlog]
    have e1 : (53 : Int) + e - 52 = 1 + e := by ring
    rw [e1]
    have e2 : (2 : Rat) ^ (53 + e) / (2 : Rat) ^ (1 + e) = (((2 ^ 52 : Int) : Int) : Rat) := by
      rw [← zpow_sub₀ two_ne, p52]; congr 1; ring
    rw [e2, roundHalfEven_intCast, p52, ← zpow_add₀ two_ne]; congr 1; ring

theorem rndPos_pos (q : Rat) (hq : 0 < q) : 0 < rndPos q := by
  have := rndPos_err q hq
  have hb : (2 : Rat) ^ (-53 : Int) * q < q := by
    have : (2 : Rat) ^ (-53 : Int) < 1 := by norm_num
    nlinarith
  have := (abs_le.mp this).1
  linarith

theorem rndPos_idem (q : Rat) (hq : 0 < q) : rndPos (rndPos q) = rndPos q := by
  have two_ne : (2 : Rat) ≠ 0 := by norm_num
  obtain ⟨s1, s2⟩ := ilog2_spec q hq
  have hp := two_zpow_pos (ulpExp q)
  have p52 : ((2 ^ 52 : Int) : Rat) = (2 : Rat) ^ (52 : Int) := by norm_num
  have p53 : ((2 ^ 53 : Int) : Rat) = (2 : Rat) ^ (53 : Int) := by norm_num
  have r := roundHalfEven_range (q / (2 : Rat) ^ ulpExp q)
    (by
      rw [le_div_iff₀ hp, p52, ← zpow_add₀ two_ne]
      unfold ulpExp
      have : (52 : Int) + (ilog2 q - 52) = ilog2 q := by ring
      rw [this]; exact s1)
    (by
      rw [div_lt_iff₀ hp, p53, ← zpow_add₀ two_ne]
      unfold ulpExp
      have : (53 : Int) + (ilog2 q - 52) = ilog2 q + 1 := by ring
      rw [this]; exact s2)
  have : rndPos q = ((roundHalfEven (q / (2 : Rat) ^ ulpExp q) : Int) : Rat) * (2 : Rat) ^ ulpExp q := rfl
  rw [this]
  exact rndPos_fixed_of_sig _ _ r.1 r.2

/-- **Rounding is idempotent**: a double is its own nearest double -/
theorem rnd64_idem (q : Rat) : rnd64 (rnd64 q) = rnd64 q := by
  rcases lt_trichotomy q 0 with h | h | h
  · have hp := rndPos_pos (-q) (by linarith)
    have e : rnd64 q = -rndPos (-q) := by unfold rnd64; rw [if_neg h.ne, if_pos h]
    rw [e]
    unfold rnd64
    rw [if_neg (by linarith : ¬ -rndPos (-q) = 0), if_pos (by linarith : -rndPos (-q) < 0), neg_neg,
      rndPos_idem (-q) (by linarith)]
  · subst h; simp [rnd64]
  · have hp := rndPos_pos q h
    have e : rnd64 q = rndPos q := by unfold rnd64; rw [if_neg h.ne', if_neg (not_lt.mpr h.le)]
    rw [e]
    unfold rnd64
    rw [if_neg hp.ne', if_neg (not_lt.mpr hp.le), rndPos_idem q h]

/-- multiplying a double by `1.0` returns it -/
theorem fmul_one_rnd64 (q : Rat) : fmul 1 (rnd64 q) = rnd64 q := by
  unfold fmul; rw [one_mul, rnd64_idem]

end QcelVerif.Radii
