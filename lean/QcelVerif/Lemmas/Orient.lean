import QcelVerif.Model.Orient
import Mathlib.Tactic.Ring
import Mathlib.Tactic.LinearCombination
import Mathlib.Tactic.Linarith

/-! Helper lemmas for C16 (nothing here is a property statement). -/

namespace QcelVerif.Orient

/-! ## extensionality -/
theorem V3.ext' {K : Type} {p q : V3 K} (hx : p.x = q.x) (hy : p.y = q.y) (hz : p.z = q.z) : p = q := by
  cases p; cases q; simp_all

theorem M3.ext' {K : Type} {A B : M3 K}
    (h1 : A.xx = B.xx) (h2 : A.xy = B.xy) (h3 : A.xz = B.xz)
    (h4 : A.yx = B.yx) (h5 : A.yy = B.yy) (h6 : A.yz = B.yz)
    (h7 : A.zx = B.zx) (h8 : A.zy = B.zy) (h9 : A.zz = B.zz) : A = B := by
  cases A; cases B; simp_all

section Ring
variable {K : Type} [CommRing K]

/-- `Vᵀ A V` -/
def sandwich (V A : M3 K) : M3 K := M3.mul (M3.mul (M3.tr V) A) V

/-- one atom's contribution `m (|p|² 1 - pᵀp)` to the inertia tensor -/
def I1 (m : K) (p : V3 K) : M3 K := M3.smul m (M3.sub (M3.smul (V3.normSq p) M3.one) (M3.outer p p))

def V3.dot (p q : V3 K) : K := p.x * q.x + p.y * q.y + p.z * q.z

/-! ### vectors -/

theorem mulMat_zero (V : M3 K) : V3.mulMat V3.zero V = V3.zero := by
  apply V3.ext' <;> simp [V3.mulMat, V3.zero]

theorem flip_zero (a b c : K) : V3.flip a b c V3.zero = V3.zero := by
  apply V3.ext' <;> simp [V3.flip, V3.zero]

theorem mulMat_sub (p q : V3 K) (V : M3 K) : V3.mulMat (V3.sub p q) V = V3.sub (V3.mulMat p V) (V3.mulMat q V) := by
  apply V3.ext' <;> simp only [V3.mulMat, V3.sub] <;> ring

theorem mulMat_mulMat (p : V3 K) (A B : M3 K) : V3.mulMat (V3.mulMat p A) B = V3.mulMat p (M3.mul A B) := by
  apply V3.ext' <;> simp only [V3.mulMat, M3.mul] <;> ring

theorem mulMat_diag (p : V3 K) (a b c : K) : V3.mulMat p (M3.diag a b c) = V3.flip a b c p := by
  apply V3.ext' <;> simp only [V3.mulMat, M3.diag, V3.flip] <;> ring

theorem mulMat_one (p : V3 K) : V3.mulMat p M3.one = p := by
  apply V3.ext' <;> simp only [V3.mulMat, M3.one] <;> ring

theorem flip_flip (a b c a' b' c' : K) (p : V3 K) : V3.flip a b c (V3.flip a' b' c' p) = V3.flip (a * a') (b * b') (c * c') p := by
  apply V3.ext' <;> simp only [V3.flip] <;> ring

theorem flip_one (p : V3 K) : V3.flip 1 1 1 p = p := by
  apply V3.ext' <;> simp [V3.flip]

theorem distSq_sub_right (p q c : V3 K) : V3.distSq (V3.sub p c) (V3.sub q c) = V3.distSq p q := by
  simp only [V3.distSq, V3.normSq, V3.sub]; ring

theorem distSq_flip {a b c : K} (ha : a * a = 1) (hb : b * b = 1) (hc : c * c = 1) (p q : V3 K) :
    V3.distSq (V3.flip a b c p) (V3.flip a b c q) = V3.distSq p q := by
  simp only [V3.distSq, V3.normSq, V3.sub, V3.flip]
  linear_combination ((p.x - q.x) * (p.x - q.x)) * ha + ((p.y - q.y) * (p.y - q.y)) * hb + ((p.z - q.z) * (p.z - q.z)) * hc

/-- the distortion of a squared length under *any* matrix is the quadratic form of `VVᵀ - 1` -/
theorem normSq_mulMat_defect (d : V3 K) (V : M3 K) :
    V3.normSq (V3.mulMat d V) - V3.normSq d = V3.dot (V3.mulMat d (M3.sub (M3.mul V (M3.tr V)) M3.one)) d := by
  simp only [V3.normSq, V3.mulMat, V3.dot, M3.sub, M3.mul, M3.tr, M3.one]; ring

theorem normSq_mulMat {V : M3 K} (h : M3.mul V (M3.tr V) = M3.one) (d : V3 K) :
    V3.normSq (V3.mulMat d V) = V3.normSq d := by
  have := normSq_mulMat_defect d V
  rw [h] at this
  simp only [V3.dot, V3.mulMat, M3.sub, M3.one, V3.normSq] at this ⊢
  linear_combination this

theorem distSq_mulMat {V : M3 K} (h : M3.mul V (M3.tr V) = M3.one) (p q : V3 K) :
    V3.distSq (V3.mulMat p V) (V3.mulMat q V) = V3.distSq p q := by
  simp only [V3.distSq]
  rw [← mulMat_sub, normSq_mulMat h]

/-! ### matrices -/

theorem sandwich_add (V A B : M3 K) : sandwich V (M3.add A B) = M3.add (sandwich V A) (sandwich V B) := by
  apply M3.ext' <;> simp only [sandwich, M3.mul, M3.tr, M3.add] <;> ring

theorem sandwich_zero (V : M3 K) : sandwich V M3.zero = M3.zero := by
  apply M3.ext' <;> simp only [sandwich, M3.mul, M3.tr, M3.zero] <;> ring

theorem sandwich_sandwich (V W A : M3 K) : sandwich W (sandwich V A) = sandwich (M3.mul V W) A := by
  apply M3.ext' <;> simp only [sandwich, M3.mul, M3.tr] <;> ring

theorem sandwich_diag_diag (a b c l0 l1 l2 : K) :
    sandwich (M3.diag a b c) (M3.diag l0 l1 l2) = M3.diag (a * a * l0) (b * b * l1) (c * c * l2) := by
  apply M3.ext' <;> simp only [sandwich, M3.mul, M3.tr, M3.diag] <;> ring

theorem mul_assoc3 (A B C : M3 K) : M3.mul (M3.mul A B) C = M3.mul A (M3.mul B C) := by
  apply M3.ext' <;> simp only [M3.mul] <;> ring

theorem one_mul3 (A : M3 K) : M3.mul M3.one A = A := by
  apply M3.ext' <;> simp only [M3.mul, M3.one] <;> ring

theorem tr_mul (A B : M3 K) : M3.tr (M3.mul A B) = M3.mul (M3.tr B) (M3.tr A) := by
  apply M3.ext' <;> simp only [M3.mul, M3.tr] <;> ring

theorem tr_diag (a b c : K) : M3.tr (M3.diag a b c) = M3.diag a b c := by
  apply M3.ext' <;> simp only [M3.tr, M3.diag]

theorem diag_mul_diag (a b c a' b' c' : K) : M3.mul (M3.diag a b c) (M3.diag a' b' c') = M3.diag (a * a') (b * b') (c * c') := by
  apply M3.ext' <;> simp only [M3.mul, M3.diag] <;> ring

theorem orth_diag {a b c : K} (ha : a * a = 1) (hb : b * b = 1) (hc : c * c = 1) : Orth (M3.diag a b c) := by
  constructor <;> rw [tr_diag, diag_mul_diag, ha, hb, hc] <;> rfl

theorem orth_mul {V W : M3 K} (hV : Orth V) (hW : Orth W) : Orth (M3.mul V W) := by
  constructor
  · rw [tr_mul, mul_assoc3, ← mul_assoc3 (M3.tr V) V W, hV.1, one_mul3, hW.1]
  · rw [tr_mul, mul_assoc3, ← mul_assoc3 W (M3.tr W) (M3.tr V), hW.2, one_mul3, hV.2]

/-- pure ring identity: `Vᵀ (m(|p|²1 - pᵀp)) V = m(|p|² VᵀV - (pV)ᵀ(pV))` -/
theorem sandwich_I1 (V : M3 K) (m : K) (p : V3 K) :
    sandwich V (I1 m p) =
      M3.smul m (M3.sub (M3.smul (V3.normSq p) (M3.mul (M3.tr V) V)) (M3.outer (V3.mulMat p V) (V3.mulMat p V))) := by
  apply M3.ext' <;>
    simp only [sandwich, I1, M3.mul, M3.tr, M3.smul, M3.sub, M3.one, M3.outer, V3.mulMat, V3.normSq] <;> ring

theorem I1_rotate {V : M3 K} (h : Orth V) (m : K) (p : V3 K) : I1 m (V3.mulMat p V) = sandwich V (I1 m p) := by
  rw [sandwich_I1, h.1, I1, normSq_mulMat h.2]

/-! ### sums over atoms -/

theorem inertia_nil_left (g : List (V3 K)) : inertia ([] : List K) g = M3.zero := by
  apply M3.ext' <;> simp [inertia, wsumF, M3.zero]

theorem inertia_nil_right (ms : List K) : inertia ms ([] : List (V3 K)) = M3.zero := by
  cases ms <;> apply M3.ext' <;> simp [inertia, wsumF, M3.zero]

theorem inertia_cons (m : K) (ms : List K) (p : V3 K) (g : List (V3 K)) :
    inertia (m :: ms) (p :: g) = M3.add (I1 m p) (inertia ms g) := by
  apply M3.ext' <;>
    simp only [inertia, wsumF, I1, M3.add, M3.smul, M3.sub, M3.one, M3.outer, V3.normSq] <;> ring

theorem wsum_map_mulMat (V : M3 K) : ∀ (ms : List K) (g : List (V3 K)),
    wsum ms (g.map (fun p => V3.mulMat p V)) = V3.mulMat (wsum ms g) V
  | [], g => by simp [wsum, mulMat_zero]
  | _ :: _, [] => by simp [wsum, mulMat_zero]
  | m :: ms, p :: g => by
    simp only [List.map_cons, wsum]
    rw [wsum_map_mulMat V ms g]
    apply V3.ext' <;> simp only [V3.mulMat, V3.add, V3.smul] <;> ring

theorem wsum_map_flip (a b c : K) : ∀ (ms : List K) (g : List (V3 K)),
    wsum ms (g.map (V3.flip a b c)) = V3.flip a b c (wsum ms g)
  | [], g => by simp [wsum, flip_zero]
  | _ :: _, [] => by simp [wsum, flip_zero]
  | m :: ms, p :: g => by
    simp only [List.map_cons, wsum]
    rw [wsum_map_flip a b c ms g]
    apply V3.ext' <;> simp only [V3.flip, V3.add, V3.smul] <;> ring

/-- `Σ m (p - c) = Σ m p - (Σ m) c` when there is one weight per row -/
theorem wsum_map_sub (c : V3 K) : ∀ (ms : List K) (g : List (V3 K)), ms.length = g.length →
    wsum ms (g.map (fun p => V3.sub p c)) = V3.sub (wsum ms g) (V3.smul (massSum ms) c)
  | [], [], _ => by apply V3.ext' <;> simp [wsum, massSum, V3.sub, V3.smul, V3.zero]
  | [], _ :: _, h => by simp at h
  | _ :: _, [], h => by simp at h
  | m :: ms, p :: g, h => by
    simp only [List.map_cons, wsum, massSum]
    rw [wsum_map_sub c ms g (by simpa using h)]
    apply V3.ext' <;> simp only [V3.sub, V3.add, V3.smul] <;> ring

/-- `Σ m (pR + t) = (Σ m p) R + (Σ m) t` -/
theorem wsum_map_rigid (R : M3 K) (t : V3 K) : ∀ (ms : List K) (g : List (V3 K)), ms.length = g.length →
    wsum ms (g.map (fun p => V3.add (V3.mulMat p R) t)) = V3.add (V3.mulMat (wsum ms g) R) (V3.smul (massSum ms) t)
  | [], [], _ => by apply V3.ext' <;> simp [wsum, massSum, V3.add, V3.smul, V3.zero, V3.mulMat]
  | [], _ :: _, h => by simp at h
  | _ :: _, [], h => by simp at h
  | m :: ms, p :: g, h => by
    simp only [List.map_cons, wsum, massSum]
    rw [wsum_map_rigid R t ms g (by simpa using h)]
    apply V3.ext' <;> simp only [V3.mulMat, V3.add, V3.smul] <;> ring

end Ring

/-! ## centring -/
section Field
variable {K : Type} [Field K]

theorem wsum_center {ms : List K} {xs : List (V3 K)} (hl : ms.length = xs.length) (hM : massSum ms ≠ 0) :
    wsum ms (center ms xs) = V3.zero := by
  unfold center
  rw [wsum_map_sub _ ms xs hl]
  apply V3.ext' <;> simp only [com, V3.sub, V3.smul, V3.zero] <;> field_simp <;> ring

theorem center_of_centred {ms : List K} {g : List (V3 K)} (h : wsum ms g = V3.zero) : center ms g = g := by
  unfold center com
  rw [h]
  have : ∀ p : V3 K, V3.sub p (V3.smul (1 / massSum ms) V3.zero) = p := by
    intro p; apply V3.ext' <;> simp [V3.sub, V3.smul, V3.zero]
  rw [funext this]
  exact List.map_id' g

/-- centring commutes with a rigid motion: `center (xR + t) = (center x) R` -/
theorem center_rigid {ms : List K} {xs : List (V3 K)} (hl : ms.length = xs.length) (hM : massSum ms ≠ 0)
    (R : M3 K) (t : V3 K) :
    center ms (xs.map (fun p => V3.add (V3.mulMat p R) t)) = (center ms xs).map (fun p => V3.mulMat p R) := by
  unfold center
  rw [List.map_map, List.map_map]
  apply List.map_congr_left
  intro p _
  simp only [Function.comp, com]
  rw [wsum_map_rigid R t ms xs hl]
  apply V3.ext' <;> simp only [V3.sub, V3.add, V3.smul, V3.mulMat] <;> field_simp <;> ring

end Field

/-! ## the phase loop -/
section Ordered
variable {K : Type} [Field K] [LinearOrder K] [IsStrictOrderedRing K]

/-- the per-column rule the loop implements: the first entry with `¬ |v| < noise` decides -/
def colSign (noise : K) : List K → K
  | [] => 1
  | v :: t => if |v| < noise then colSign noise t else if v < 0 then -1 else 1

/-- the column has an atom off the coordinate plane -/
def HasOff (noise : K) (l : List K) : Prop := ∃ v ∈ l, ¬ |v| < noise

theorem foldl_colStep_done (noise s : K) (l : List K) : l.foldl (colStep noise) (true, s) = (true, s) := by
  induction l with
  | nil => rfl
  | cons v t ih => simpa [List.foldl, colStep] using ih

theorem foldl_colStep_init (noise : K) (l : List K) : (l.foldl (colStep noise) (false, 1)).2 = colSign noise l := by
  induction l with
  | nil => rfl
  | cons v t ih =>
    by_cases h : |v| < noise
    · have : colStep noise (false, 1) v = (false, 1) := by simp [colStep, h]
      simp [List.foldl, this, ih, colSign, h]
    · have : colStep noise (false, 1) v = (true, if v < 0 then -1 else 1) := by simp [colStep, h]
      simp [List.foldl, this, foldl_colStep_done, colSign, h]

theorem foldl_triple {α β : Type} (f : β → α → β) (px py pz : V3 α → α) : ∀ (g : List (V3 α)) (a b c : β),
    g.foldl (fun st r => (f st.1 (px r), f st.2.1 (py r), f st.2.2 (pz r))) (a, b, c)
      = ((g.map px).foldl f a, (g.map py).foldl f b, (g.map pz).foldl f c)
  | [], _, _, _ => rfl
  | r :: g, a, b, c => by simp [List.foldl, foldl_triple f px py pz g]

theorem colSign_pm (noise : K) (l : List K) : colSign noise l = 1 ∨ colSign noise l = -1 := by
  induction l with
  | nil => left; rfl
  | cons v t ih =>
    simp only [colSign]
    split_ifs <;> simp [ih]

theorem pm_sq {s : K} (h : s = 1 ∨ s = -1) : s * s = 1 := by
  rcases h with h | h <;> rw [h] <;> ring

theorem abs_pm_mul {s : K} (h : s = 1 ∨ s = -1) (v : K) : |s * v| = |v| := by
  rcases h with h | h <;> rw [h] <;> simp

/-- after multiplying the column by its sign: entries before the first off-plane one are within noise,
the first off-plane entry is `≥ noise` -/
theorem colSign_spec {noise : K} (l : List K) : ∀ (s : K), s = colSign noise l → ∀ (pre : List K) (v : K) (suf : List K),
    l.map (s * ·) = pre ++ v :: suf → (∀ u ∈ pre, |u| < noise) → ¬ |v| < noise → noise ≤ v := by
  induction l with
  | nil => intro s _ pre v suf h; simp at h
  | cons a t ih =>
    intro s hs pre v suf h hpre hv
    have hpm : s = 1 ∨ s = -1 := hs ▸ colSign_pm noise (a :: t)
    by_cases ha : |a| < noise
    · have hs' : s = colSign noise t := by rw [hs]; simp [colSign, ha]
      cases pre with
      | nil =>
        simp only [List.map_cons, List.nil_append, List.cons.injEq] at h
        exact absurd (by rw [← h.1, abs_pm_mul hpm]; exact ha) hv
      | cons u pre' =>
        simp only [List.map_cons, List.cons_append, List.cons.injEq] at h
        exact ih s hs' pre' v suf h.2 (fun w hw => hpre w (List.mem_cons_of_mem _ hw)) hv
    · cases pre with
      | nil =>
        simp only [List.map_cons, List.nil_append, List.cons.injEq] at h
        have hna : noise ≤ |a| := not_lt.mp ha
        by_cases hneg : a < 0
        · have : s = -1 := by rw [hs]; simp [colSign, ha, hneg]
          rw [← h.1, this, abs_of_neg hneg] at *
          linarith
        · have : s = 1 := by rw [hs]; simp [colSign, ha, hneg]
          rw [← h.1, this, abs_of_nonneg (not_lt.mp hneg)] at *
          linarith
      | cons u pre' =>
        simp only [List.map_cons, List.cons_append, List.cons.injEq] at h
        have := hpre u (List.mem_cons_self)
        rw [← h.1, abs_pm_mul hpm] at this
        exact absurd this ha

/-- the sign rule applied to an already phased column is `1` -/
theorem colSign_idem (noise : K) (l : List K) : ∀ s, s = colSign noise l → colSign noise (l.map (s * ·)) = 1 := by
  induction l with
  | nil => intro s _; rfl
  | cons a t ih =>
    intro s hs
    have hpm : s = 1 ∨ s = -1 := hs ▸ colSign_pm noise (a :: t)
    by_cases ha : |a| < noise
    · have hs' : s = colSign noise t := by rw [hs]; simp [colSign, ha]
      simp only [List.map_cons, colSign, abs_pm_mul hpm, ha, if_true]
      exact ih s hs'
    · simp only [List.map_cons, colSign, abs_pm_mul hpm, ha, if_false]
      by_cases hneg : a < 0
      · have : s = -1 := by rw [hs]; simp [colSign, ha, hneg]
        have h2 : ¬ (s * a < 0) := by rw [this]; simp; linarith
        simp [h2]
      · have : s = 1 := by rw [hs]; simp [colSign, ha, hneg]
        have h2 : ¬ (s * a < 0) := by rw [this]; simpa using hneg
        simp [h2]

/-- negating a column that has an off-plane atom negates its sign (needs `0 < noise` so that the
deciding entry is non-zero) -/
theorem colSign_neg {noise : K} (h0 : 0 < noise) (l : List K) (hoff : HasOff noise l) :
    colSign noise (l.map (-1 * ·)) = -1 * colSign noise l := by
  induction l with
  | nil => obtain ⟨v, hv, _⟩ := hoff; simp at hv
  | cons a t ih =>
    have hab : |-1 * a| = |a| := by simp
    by_cases ha : |a| < noise
    · have hoff' : HasOff noise t := by
        obtain ⟨v, hv, hvn⟩ := hoff
        rcases List.mem_cons.mp hv with rfl | hv
        · exact absurd ha hvn
        · exact ⟨v, hv, hvn⟩
      simp only [List.map_cons, colSign, hab, ha, if_true]
      exact ih hoff'
    · have hna : noise ≤ |a| := not_lt.mp ha
      simp only [List.map_cons, colSign, hab, ha, if_false]
      by_cases hneg : a < 0
      · have h1 : ¬ (-1 * a < 0) := by intro h; linarith
        simp only [hneg, h1, if_true, if_false]; ring
      · have hpos : 0 < a := by
          rcases lt_or_eq_of_le (not_lt.mp hneg) with h | h
          · exact h
          · rw [← h] at hna; simp at hna; linarith
        have h1 : -1 * a < 0 := by linarith
        simp only [hneg, h1, if_true, if_false]; ring

/-- `d = 1`, or `d = -1` and the column has an off-plane atom -/
def ColOK (noise d : K) (l : List K) : Prop := d = 1 ∨ (d = -1 ∧ HasOff noise l)

theorem colSign_mul {noise : K} (h0 : 0 < noise) {d : K} {l : List K} (h : ColOK noise d l) :
    colSign noise (l.map (d * ·)) = d * colSign noise l := by
  rcases h with h | ⟨h, hoff⟩
  · subst h; simp
  · subst h; exact colSign_neg h0 l hoff

theorem ColOK.pm {noise d : K} {l : List K} (h : ColOK noise d l) : d = 1 ∨ d = -1 := by
  rcases h with h | ⟨h, _⟩
  · exact Or.inl h
  · exact Or.inr h

theorem phaseLoop_signs (noise : K) (g : List (V3 K)) :
    (phaseLoop noise g).1.2 = colSign noise (g.map (·.x)) ∧
    (phaseLoop noise g).2.1.2 = colSign noise (g.map (·.y)) ∧
    (phaseLoop noise g).2.2.2 = colSign noise (g.map (·.z)) := by
  unfold phaseLoop
  rw [foldl_triple (colStep noise) (·.x) (·.y) (·.z)]
  exact ⟨foldl_colStep_init _ _, foldl_colStep_init _ _, foldl_colStep_init _ _⟩

theorem phase_eq (noise : K) (g : List (V3 K)) :
    phase noise g = g.map (V3.flip (colSign noise (g.map (·.x))) (colSign noise (g.map (·.y))) (colSign noise (g.map (·.z)))) := by
  obtain ⟨h1, h2, h3⟩ := phaseLoop_signs noise g
  simp only [phase, h1, h2, h3]

theorem map_x_flip (a b c : K) (g : List (V3 K)) : (g.map (V3.flip a b c)).map (·.x) = (g.map (·.x)).map (a * ·) := by
  simp [List.map_map, Function.comp_def, V3.flip]
theorem map_y_flip (a b c : K) (g : List (V3 K)) : (g.map (V3.flip a b c)).map (·.y) = (g.map (·.y)).map (b * ·) := by
  simp [List.map_map, Function.comp_def, V3.flip]
theorem map_z_flip (a b c : K) (g : List (V3 K)) : (g.map (V3.flip a b c)).map (·.z) = (g.map (·.z)).map (c * ·) := by
  simp [List.map_map, Function.comp_def, V3.flip]

/-- phasing is insensitive to the signs of the incoming columns -/
theorem phase_flip {noise : K} (h0 : 0 < noise) {a b c : K} (g : List (V3 K))
    (ha : ColOK noise a (g.map (·.x))) (hb : ColOK noise b (g.map (·.y))) (hc : ColOK noise c (g.map (·.z))) :
    phase noise (g.map (V3.flip a b c)) = phase noise g := by
  rw [phase_eq, phase_eq, map_x_flip, map_y_flip, map_z_flip, colSign_mul h0 ha, colSign_mul h0 hb, colSign_mul h0 hc,
    List.map_map]
  apply List.map_congr_left
  intro p _
  simp only [Function.comp, flip_flip]
  have e1 : a * colSign noise (g.map (·.x)) * a = colSign noise (g.map (·.x)) := by
    linear_combination (colSign noise (g.map (·.x))) * pm_sq ha.pm
  have e2 : b * colSign noise (g.map (·.y)) * b = colSign noise (g.map (·.y)) := by
    linear_combination (colSign noise (g.map (·.y))) * pm_sq hb.pm
  have e3 : c * colSign noise (g.map (·.z)) * c = colSign noise (g.map (·.z)) := by
    linear_combination (colSign noise (g.map (·.z))) * pm_sq hc.pm
  rw [e1, e2, e3]

/-- phasing an already phased geometry changes nothing -/
theorem phase_phase (noise : K) (g : List (V3 K)) : phase noise (phase noise g) = phase noise g := by
  conv_lhs => rw [phase_eq]
  have hx := colSign_idem noise (g.map (·.x)) _ rfl
  have hy := colSign_idem noise (g.map (·.y)) _ rfl
  have hz := colSign_idem noise (g.map (·.z)) _ rfl
  rw [phase_eq noise g, map_x_flip, map_y_flip, map_z_flip, hx, hy, hz]
  simp [flip_one]

/-! ### the certificate -/

theorem term_bound {e ε a b : K} (he : |e| ≤ ε) : |a * e * b| ≤ ε * ((a * a + b * b) / 2) := by
  have hε : 0 ≤ ε := le_trans (abs_nonneg e) he
  have hab : |a * b| ≤ (a * a + b * b) / 2 := by
    rw [abs_le]
    constructor <;> nlinarith [sq_nonneg (a - b), sq_nonneg (a + b)]
  calc |a * e * b| = |e| * |a * b| := by rw [← abs_mul]; congr 1; ring
    _ ≤ ε * ((a * a + b * b) / 2) := mul_le_mul he hab (abs_nonneg _) hε

theorem maxAbs_entries {A : M3 K} {ε : K} (h : M3.maxAbs A ≤ ε) :
    |A.xx| ≤ ε ∧ |A.xy| ≤ ε ∧ |A.xz| ≤ ε ∧ |A.yx| ≤ ε ∧ |A.yy| ≤ ε ∧ |A.yz| ≤ ε ∧ |A.zx| ≤ ε ∧ |A.zy| ≤ ε ∧ |A.zz| ≤ ε := by
  unfold M3.maxAbs at h
  simpa only [max_le_iff] using h

theorem maxAbs_le_zero {A : M3 K} (h : M3.maxAbs A ≤ 0) : A = M3.zero := by
  unfold M3.maxAbs at h
  simp only [max_le_iff, abs_nonpos_iff] at h
  obtain ⟨h1, h2, h3, h4, h5, h6, h7, h8, h9⟩ := h
  exact M3.ext' h1 h2 h3 h4 h5 h6 h7 h8 h9

theorem eq_of_sub_eq_zero3 {A B : M3 K} (h : M3.sub A B = M3.zero) : A = B := by
  have := congrArg M3.xx h; have := congrArg M3.xy h; have := congrArg M3.xz h
  have := congrArg M3.yx h; have := congrArg M3.yy h; have := congrArg M3.yz h
  have := congrArg M3.zx h; have := congrArg M3.zy h; have := congrArg M3.zz h
  simp only [M3.sub, M3.zero, sub_eq_zero] at *
  apply M3.ext' <;> assumption

end Ordered


end QcelVerif.Orient
