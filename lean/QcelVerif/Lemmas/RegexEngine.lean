import QcelVerif.Model.RegexEngine
/-!
Generic facts about the regex engine (no property specifics).

  * `bt_eq_findSome`   the continuation-passing backtracking matcher returns the first success of the
                       list-of-successes semantics — for every AST, continuation and state
  * `matchPrefix_eq_head`, `fullMatch_eq_find`   the `re.match` / `re.fullmatch` entry points in terms of `ms`
  * `repMs_cls`        a repetition of a one-character class explores the run lengths from the longest
                       admissible one down to `lo` (greedy), stated through `classRuns`
  * `ms_le`, `ms_lt`   no way to match moves the cursor backwards; a non-nullable AST consumes a character
  * `rep_fuel_irrelevant`  a repetition of a non-nullable body computes the same matches on every budget larger
                       than the remaining text: the fuel that makes the engine total never truncates (for `Re.wf` ASTs)
-/
namespace QcelVerif.Regex

theorem orElseL_eq_or {α} (x : Option α) (y : Unit → Option α) : orElseL x y = x.or (y ()) := by
  cases x <;> simp [orElseL]

theorem findSome?_flatMap' {α β γ} (f : α → List β) (k : β → Option γ) (l : List α) :
    (l.flatMap f).findSome? k = l.findSome? fun a => (f a).findSome? k := by
  induction l with
  | nil => rfl
  | cons a t ih =>
    simp only [List.flatMap_cons, List.findSome?_append, ih, List.findSome?_cons]
    cases (f a).findSome? k <;> simp

theorem repBt_eq_findSome {α} (body : (St → Option α) → St → Option α) (bodyL : St → List St)
    (h : ∀ k st, body k st = (bodyL st).findSome? k) (g : Bool) :
    ∀ (fuel lo : Nat) (hi : Option Nat) (k : St → Option α) (st : St),
      repBt body lo hi g fuel k st = (repMs bodyL lo hi g fuel st).findSome? k := by
  intro fuel
  induction fuel with
  | zero =>
    intro lo hi k st
    by_cases hlo : lo = 0 <;> simp [repBt, repMs, hlo]
  | succ n ih =>
    intro lo hi k st
    have hm : (if hi = some 0 then none else body (fun st' => repBt body (lo - 1) (decHi hi) g n k st') st)
        = (if hi = some 0 then [] else (bodyL st).flatMap fun st' => repMs bodyL (lo - 1) (decHi hi) g n st').findSome? k := by
      by_cases hh : hi = some 0
      · simp [hh]
      · simp only [hh, if_false, h, findSome?_flatMap']
        congr 1
        funext st'
        exact ih _ _ _ _
    have hs : (if lo = 0 then k st else none) = (if lo = 0 then [st] else []).findSome? k := by
      by_cases hlo : lo = 0 <;> simp [hlo]
    cases g
    · simp only [repBt, repMs, orElseL_eq_or, Bool.false_eq_true, if_false, List.findSome?_append, hm, hs]
    · simp only [repBt, repMs, orElseL_eq_or, if_true, List.findSome?_append, hm, hs]

/-- **engine soundness and completeness w.r.t. the list semantics**: the backtracking matcher returns
exactly the first success (in exploration order) of `ms` -/
theorem bt_eq_findSome {α} (r : Re) : ∀ (k : St → Option α) (st : St), r.bt k st = (r.ms st).findSome? k := by
  induction r with
  | eps => intro k st; simp [Re.bt, Re.ms]
  | fail => intro k st; simp [Re.bt, Re.ms]
  | cls neg items =>
    intro k st
    simp only [Re.bt, Re.ms]
    cases stepCls neg items st <;> simp
  | seq a b iha ihb =>
    intro k st
    simp only [Re.bt, Re.ms, findSome?_flatMap', iha]
    congr 1
    funext st'
    exact ihb _ _
  | alt a b iha ihb =>
    intro k st
    simp only [Re.bt, Re.ms, orElseL_eq_or, List.findSome?_append, iha, ihb]
  | rep lo hi g r ih =>
    intro k st
    simp only [Re.bt, Re.ms]
    exact repBt_eq_findSome _ _ (fun k st => ih k st) g _ _ _ _ _
  | group i r ih =>
    intro k st
    simp only [Re.bt, Re.ms, ih, List.findSome?_map]
    rfl
  | ifGroup i y n ihy ihn =>
    intro k st
    simp only [Re.bt, Re.ms]
    split
    · exact ihy _ _
    · exact ihn _ _
  | bos => intro k st; simp only [Re.bt, Re.ms]; split <;> simp
  | eos => intro k st; simp only [Re.bt, Re.ms]; split <;> simp
  | eolFinal => intro k st; simp only [Re.bt, Re.ms]; split <;> simp
  | bolMulti => intro k st; simp only [Re.bt, Re.ms]; split <;> simp
  | eolMulti => intro k st; simp only [Re.bt, Re.ms]; split <;> simp
  | wordB neg => intro k st; simp only [Re.bt, Re.ms]; split <;> simp

theorem findSome?_some_eq_head? {α} (l : List α) : l.findSome? some = l.head? := by
  cases l <;> simp

/-- `re.match`: the first way to match -/
theorem matchPrefix_eq_head (r : Re) (s : List Nat) : r.matchPrefix s = (r.ms (St.init s)).head? := by
  simp [Re.matchPrefix, bt_eq_findSome, findSome?_some_eq_head?]

/-- `re.fullmatch`: the first way to match that ends at the end of the string -/
theorem fullMatch_eq_find (r : Re) (s : List Nat) :
    r.fullMatch s = (r.ms (St.init s)).find? (fun st => st.rest.isEmpty) := by
  simp only [Re.fullMatch, bt_eq_findSome]
  rw [← List.findSome?_guard]
  congr 1

/-- a successful `re.match` is one of the ways to match -/
theorem matchPrefix_mem (r : Re) (s : List Nat) (st : St) (h : r.matchPrefix s = some st) : st ∈ r.ms (St.init s) := by
  rw [matchPrefix_eq_head] at h
  exact List.mem_of_head? h

/-- no match is reported only when there is no way to match -/
theorem matchPrefix_none (r : Re) (s : List Nat) : r.matchPrefix s = none ↔ r.ms (St.init s) = [] := by
  rw [matchPrefix_eq_head]
  cases r.ms (St.init s) <;> simp

/-! ## `ms` followed by a continuation: rewriting rules used to evaluate a concrete AST symbolically -/

/-- all ways to match `r` from `st`, each continued by `F` -/
def bindMs {β} (r : Re) (st : St) (F : St → List β) : List β := (r.ms st).flatMap F

theorem map_ms_eq_bind {β} (r : Re) (st : St) (G : St → β) : (r.ms st).map G = bindMs r st fun st' => [G st'] := by
  simp only [bindMs]
  induction r.ms st with
  | nil => rfl
  | cons a t ih => simp [ih]

theorem bind_eps {β} (st : St) (F : St → List β) : bindMs .eps st F = F st := by simp [bindMs, Re.ms]

theorem bind_seq {β} (a b : Re) (st : St) (F : St → List β) :
    bindMs (.seq a b) st F = bindMs a st fun st' => bindMs b st' F := by
  simp [bindMs, Re.ms, List.flatMap_assoc]

theorem bind_alt {β} (a b : Re) (st : St) (F : St → List β) :
    bindMs (.alt a b) st F = bindMs a st F ++ bindMs b st F := by
  simp [bindMs, Re.ms, List.flatMap_append]

theorem bind_group {β} (i : Nat) (r : Re) (st : St) (F : St → List β) :
    bindMs (.group i r) st F = bindMs r st fun st' => F (St.capture i st st') := by
  simp [bindMs, Re.ms, List.flatMap_map]

theorem bind_ifGroup {β} (i : Nat) (y n : Re) (st : St) (F : St → List β) :
    bindMs (.ifGroup i y n) st F = if (st.group i).isSome then bindMs y st F else bindMs n st F := by
  simp only [bindMs, Re.ms]; split <;> rfl

theorem bind_bos {β} (st : St) (F : St → List β) : bindMs .bos st F = if st.prev.isNone then F st else [] := by
  cases h : st.prev <;> simp [bindMs, Re.ms, holdsAt, h]

theorem bind_eos {β} (st : St) (F : St → List β) : bindMs .eos st F = if st.rest.isEmpty then F st else [] := by
  cases h : st.rest <;> simp [bindMs, Re.ms, holdsAt, h]

/-- one character of a class -/
theorem bind_cls {β} (neg : Bool) (items : List Item) (st : St) (F : St → List β) :
    bindMs (.cls neg items) st F =
      match st.rest with
      | c :: t => if clsMem neg items c then F { st with prev := some c, rest := t } else []
      | [] => [] := by
  simp only [bindMs, Re.ms, stepCls]
  cases st.rest with
  | nil => simp
  | cons c t => by_cases h : clsMem neg items c <;> simp [h]

theorem repMs_hi_zero (body : St → List St) (g : Bool) (fuel : Nat) (st : St) : repMs body 0 (some 0) g fuel st = [st] := by
  cases fuel <;> cases g <;> simp [repMs]

/-- greedy `r?`: the ways through `r` first, then the empty way -/
theorem bind_opt {β} (r : Re) (st : St) (F : St → List β) :
    bindMs (.rep 0 (some 1) true r) st F = bindMs r st F ++ F st := by
  simp [bindMs, Re.ms, repMs, decHi, repMs_hi_zero, List.flatMap_append]

/-! ## repetition of a one-character class -/

/-- the character before the cursor after consuming `x` -/
def lastOr : Option Nat → List Nat → Option Nat
  | p, [] => p
  | _, c :: t => lastOr (some c) t

/-- the cursor moved over the consumed text `x`, leaving `rest` -/
def St.adv (st : St) (x rest : List Nat) : St := { st with prev := lastOr st.prev x, rest := rest }

/-- every (consumed, rest) split explored by a greedy `[class]{lo,hi}` on fuel `fuel`, in exploration order -/
def classRuns (p : Nat → Bool) : Nat → Option Nat → Nat → List Nat → List (List Nat × List Nat)
  | lo, _, 0, s => if lo = 0 then [([], s)] else []
  | lo, hi, fuel + 1, s =>
    (if hi = some 0 then [] else
      match s with
      | c :: t => if p c then (classRuns p (lo - 1) (decHi hi) fuel t).map fun x => (c :: x.1, x.2) else []
      | [] => []) ++ (if lo = 0 then [([], s)] else [])

theorem repMs_cls (neg : Bool) (items : List Item) :
    ∀ (fuel lo : Nat) (hi : Option Nat) (st : St),
      repMs (fun st' => Re.ms (.cls neg items) st') lo hi true fuel st
        = (classRuns (clsMem neg items) lo hi fuel st.rest).map fun x => st.adv x.1 x.2 := by
  intro fuel
  induction fuel with
  | zero =>
    intro lo hi st
    by_cases hlo : lo = 0 <;> simp [repMs, classRuns, hlo, St.adv, lastOr]
  | succ n ih =>
    intro lo hi st
    have hstop : (if lo = 0 then [st] else []) = (if lo = 0 then [(([] : List Nat), st.rest)] else []).map fun x => st.adv x.1 x.2 := by
      by_cases hlo : lo = 0 <;> simp [hlo, St.adv, lastOr]
    simp only [repMs, classRuns, if_true, List.map_append, ← hstop]
    congr 1
    by_cases hh : hi = some 0
    · simp [hh]
    · simp only [hh, if_false]
      rw [show Re.ms (.cls neg items) st = (stepCls neg items st).toList from rfl]
      unfold stepCls
      cases hr : st.rest with
      | nil => simp
      | cons c t =>
        by_cases hc : clsMem neg items c
        · simp only [hc, if_true, Option.toList_some, List.flatMap_cons, List.flatMap_nil, List.append_nil, ih, List.map_map]
          rfl
        · simp [hc]

/-! ## the cursor only moves forward; the repetition budget never truncates -/

theorem flatMap_congr_of_mem {α β} {l : List α} {f g : α → List β} (h : ∀ a ∈ l, f a = g a) : l.flatMap f = l.flatMap g := by
  induction l with
  | nil => rfl
  | cons a t ih =>
    simp only [List.flatMap_cons]
    rw [h a (by simp), ih (fun b hb => h b (by simp [hb]))]

theorem repMs_le (body : St → List St) (hb : ∀ st st', st' ∈ body st → st'.rest.length ≤ st.rest.length) (g : Bool) :
    ∀ (f lo : Nat) (hi : Option Nat) (st st' : St), st' ∈ repMs body lo hi g f st → st'.rest.length ≤ st.rest.length := by
  intro f
  induction f with
  | zero =>
    intro lo hi st st' h
    by_cases hlo : lo = 0 <;> simp [repMs, hlo] at h
    subst h; exact Nat.le_refl _
  | succ n ih =>
    intro lo hi st st' h
    have key : st' ∈ (if hi = some 0 then [] else (body st).flatMap fun s1 => repMs body (lo - 1) (decHi hi) g n s1) ∨
        st' ∈ (if lo = 0 then [st] else []) := by
      cases g <;> simp only [repMs, Bool.false_eq_true, if_false, if_true, List.mem_append] at h
      · exact h.symm
      · exact h
    rcases key with h1 | h2
    · by_cases hh : hi = some 0
      · simp [hh] at h1
      · simp only [hh, if_false, List.mem_flatMap] at h1
        obtain ⟨s1, hs1, hs'⟩ := h1
        exact Nat.le_trans (ih _ _ _ _ hs') (hb _ _ hs1)
    · by_cases hlo : lo = 0 <;> simp [hlo] at h2
      subst h2; exact Nat.le_refl _

/-- no way to match moves the cursor backwards -/
theorem ms_le (r : Re) : ∀ (st st' : St), st' ∈ r.ms st → st'.rest.length ≤ st.rest.length := by
  induction r with
  | eps => intro st st' h; simp [Re.ms] at h; subst h; exact Nat.le_refl _
  | fail => intro st st' h; simp [Re.ms] at h
  | cls neg items =>
    intro st st' h
    simp only [Re.ms, stepCls] at h
    cases hr : st.rest with
    | nil => simp [hr] at h
    | cons c t =>
      by_cases hc : clsMem neg items c <;> simp [hr, hc] at h
      subst h; simp
  | seq a b iha ihb =>
    intro st st' h
    simp only [Re.ms, List.mem_flatMap] at h
    obtain ⟨s1, h1, h2⟩ := h
    exact Nat.le_trans (ihb _ _ h2) (iha _ _ h1)
  | alt a b iha ihb =>
    intro st st' h
    simp only [Re.ms, List.mem_append] at h
    rcases h with h | h
    · exact iha _ _ h
    · exact ihb _ _ h
  | rep lo hi g r ih =>
    intro st st' h
    simp only [Re.ms] at h
    exact repMs_le _ ih g _ _ _ _ _ h
  | group i r ih =>
    intro st st' h
    simp only [Re.ms, List.mem_map] at h
    obtain ⟨s1, h1, rfl⟩ := h
    exact ih st s1 h1
  | ifGroup i y n ihy ihn =>
    intro st st' h
    simp only [Re.ms] at h
    split at h
    · exact ihy _ _ h
    · exact ihn _ _ h
  | bos => intro st st' h; simp only [Re.ms] at h; split at h <;> simp at h; subst h; exact Nat.le_refl _
  | eos => intro st st' h; simp only [Re.ms] at h; split at h <;> simp at h; subst h; exact Nat.le_refl _
  | eolFinal => intro st st' h; simp only [Re.ms] at h; split at h <;> simp at h; subst h; exact Nat.le_refl _
  | bolMulti => intro st st' h; simp only [Re.ms] at h; split at h <;> simp at h; subst h; exact Nat.le_refl _
  | eolMulti => intro st st' h; simp only [Re.ms] at h; split at h <;> simp at h; subst h; exact Nat.le_refl _
  | wordB neg => intro st st' h; simp only [Re.ms] at h; split at h <;> simp at h; subst h; exact Nat.le_refl _

theorem repMs_lt (body : St → List St) (hb : ∀ st st', st' ∈ body st → st'.rest.length < st.rest.length) (g : Bool)
    (f lo : Nat) (hlo : lo ≠ 0) (hi : Option Nat) (st st' : St) (h : st' ∈ repMs body lo hi g f st) :
    st'.rest.length < st.rest.length := by
  cases f with
  | zero => simp [repMs, hlo] at h
  | succ n =>
    have key : st' ∈ (if hi = some 0 then [] else (body st).flatMap fun s1 => repMs body (lo - 1) (decHi hi) g n s1) := by
      cases g <;> simpa [repMs, hlo] using h
    by_cases hh : hi = some 0
    · simp [hh] at key
    · simp only [hh, if_false, List.mem_flatMap] at key
      obtain ⟨s1, hs1, hs'⟩ := key
      exact Nat.lt_of_le_of_lt (repMs_le body (fun a b hab => Nat.le_of_lt (hb a b hab)) g _ _ _ _ _ hs') (hb _ _ hs1)

/-- a non-nullable AST consumes at least one character on every way to match -/
theorem ms_lt (r : Re) : r.nullable = false → ∀ (st st' : St), st' ∈ r.ms st → st'.rest.length < st.rest.length := by
  induction r with
  | eps => intro hn; simp [Re.nullable] at hn
  | fail => intro _ st st' h; simp [Re.ms] at h
  | cls neg items =>
    intro _ st st' h
    simp only [Re.ms, stepCls] at h
    cases hr : st.rest with
    | nil => simp [hr] at h
    | cons c t =>
      by_cases hc : clsMem neg items c <;> simp [hr, hc] at h
      subst h; simp
  | seq a b iha ihb =>
    intro hn st st' h
    simp only [Re.ms, List.mem_flatMap] at h
    obtain ⟨s1, h1, h2⟩ := h
    simp only [Re.nullable, Bool.and_eq_false_iff] at hn
    rcases hn with ha | hb
    · exact Nat.lt_of_le_of_lt (ms_le b _ _ h2) (iha ha _ _ h1)
    · exact Nat.lt_of_lt_of_le (ihb hb _ _ h2) (ms_le a _ _ h1)
  | alt a b iha ihb =>
    intro hn st st' h
    simp only [Re.nullable, Bool.or_eq_false_iff] at hn
    simp only [Re.ms, List.mem_append] at h
    rcases h with h | h
    · exact iha hn.1 _ _ h
    · exact ihb hn.2 _ _ h
  | rep lo hi g r ih =>
    intro hn st st' h
    simp only [Re.nullable, Bool.or_eq_false_iff, beq_eq_false_iff_ne] at hn
    simp only [Re.ms] at h
    exact repMs_lt _ (ih hn.2) g _ _ hn.1 _ _ _ h
  | group i r ih =>
    intro hn st st' h
    simp only [Re.ms, List.mem_map] at h
    obtain ⟨s1, h1, rfl⟩ := h
    exact ih hn st s1 h1
  | ifGroup i y n ihy ihn =>
    intro hn st st' h
    simp only [Re.nullable, Bool.or_eq_false_iff] at hn
    simp only [Re.ms] at h
    split at h
    · exact ihy hn.1 _ _ h
    · exact ihn hn.2 _ _ h
  | bos => intro hn; simp [Re.nullable] at hn
  | eos => intro hn; simp [Re.nullable] at hn
  | eolFinal => intro hn; simp [Re.nullable] at hn
  | bolMulti => intro hn; simp [Re.nullable] at hn
  | eolMulti => intro hn; simp [Re.nullable] at hn
  | wordB neg => intro hn; simp [Re.nullable] at hn

/-- with a body that consumes on every iteration, any two budgets larger than the remaining text give the same result -/
theorem repMs_fuel (body : St → List St) (hb : ∀ st st', st' ∈ body st → st'.rest.length < st.rest.length) (g : Bool) :
    ∀ (f f' lo : Nat) (hi : Option Nat) (st : St), st.rest.length < f → st.rest.length < f' →
      repMs body lo hi g f st = repMs body lo hi g f' st := by
  intro f
  induction f with
  | zero => intro f' lo hi st h; exact absurd h (Nat.not_lt_zero _)
  | succ n ih =>
    intro f' lo hi st h h'
    obtain ⟨n', rfl⟩ : ∃ n', f' = n' + 1 := ⟨f' - 1, by omega⟩
    have hm : (body st).flatMap (fun s1 => repMs body (lo - 1) (decHi hi) g n s1)
        = (body st).flatMap (fun s1 => repMs body (lo - 1) (decHi hi) g n' s1) := by
      apply flatMap_congr_of_mem
      intro s1 hs1
      have := hb _ _ hs1
      exact ih n' _ _ s1 (by omega) (by omega)
    simp only [repMs, hm]

/-- **the fuel never truncates**: a repetition of a body that cannot match the empty string computes the same matches
on any budget larger than the remaining text (the engine uses `remaining + 1`) -/
theorem rep_fuel_irrelevant (lo : Nat) (hi : Option Nat) (g : Bool) (r : Re) (hn : r.nullable = false) (st : St) (f : Nat)
    (hf : st.rest.length < f) :
    (Re.rep lo hi g r).ms st = repMs (fun st' => r.ms st') lo hi g f st := by
  simp only [Re.ms]
  exact repMs_fuel _ (ms_lt r hn) g _ _ _ _ _ (Nat.lt_succ_self _) hf

/-! non-vacuity of the hypotheses above (tests, `decide` / `rfl`) -/

-- `ms_le` / `ms_lt`: `\d+` on "12x" has the ways "12", "1", each leaving a strictly shorter rest
example : ((Re.rep 1 none true (.cls false [.digit])).ms (St.init [49, 50, 120])).map (·.rest) = [[120], [50, 120]] := by decide
example : (Re.rep 1 none true (.cls false [.digit])).nullable = false := rfl
-- `rep_fuel_irrelevant` instantiated: `\d+` on any state, budget = remaining + 5
example (st : St) :
    (Re.rep 1 none true (.cls false [.digit])).ms st
      = repMs (fun st' => (Re.cls false [.digit]).ms st') 1 none true (st.rest.length + 5) st :=
  rep_fuel_irrelevant 1 none true _ rfl st _ (by omega)
-- `matchPrefix_mem`: a successful match exists
example : (Re.rep 1 none true (.cls false [.digit])).matchPrefix [49, 50, 120] ≠ none := by decide

end QcelVerif.Regex
