import QcelVerif.Lemmas.C07ReShapes
/-! SEP = `[\t ,]+` as a splitter: `re.split(SEP, s)` by the generic engine = the hand splitter `splitSep`, for every string -/
namespace QcelVerif.MolText
open QcelVerif.Regex QcelVerif.Gen

/-! ## one match attempt at the cursor -/

theorem sep_bt_nil (p : Option Nat) : sepPlus.bt some ⟨p, [], []⟩ = none := by
  rw [bt_eq_findSome, findSome?_some_eq_head?, sepPlus, ms_plus_head]
  rfl

/-- the state after the maximal separator run -/
def sepAfter (p : Option Nat) (s : Str) : St :=
  (⟨p, toBytes s, []⟩ : St).adv (toBytes (s.takeWhile isSep)) (toBytes (s.dropWhile isSep))

theorem sep_bt_cons (p : Option Nat) (c : Char) (t : Str) :
    sepPlus.bt some ⟨p, toBytes (c :: t), []⟩ = if isSep c then some (sepAfter p (c :: t)) else none := by
  rw [bt_eq_findSome, findSome?_some_eq_head?, sepPlus, ms_plus_head]
  simp only [takeWhile_toBytes _ isSep cls_sep, dropWhile_toBytes _ isSep cls_sep]
  by_cases hc : isSep c = true
  · simp only [hc, if_true, List.takeWhile_cons, toBytes_cons, List.isEmpty_cons, Bool.false_eq_true, if_false]
    simp only [sepAfter, List.takeWhile_cons, hc, if_true, toBytes_cons]
  · simp [hc]

/-! ## the hand splitter, one character at a time -/

theorem splitSep_ne_nil_re : ∀ s : Str, splitSep s ≠ []
  | [] => by simp [splitSep]
  | c :: t => by
    unfold splitSep
    cases h : splitSep t with
    | nil => simp
    | cons a r =>
      simp only
      split
      · cases t with
        | nil => simp
        | cons d t' => simp only; split <;> simp
      · simp

theorem splitSep_nonsep (c : Char) (t : Str) (hc : isSep c = false) (h : Str) (r : List Str) (ht : splitSep t = h :: r) :
    splitSep (c :: t) = (c :: h) :: r := by
  rw [splitSep, ht]
  simp [hc]

theorem splitSep_sep : ∀ (t : Str) (c : Char), isSep c = true → splitSep (c :: t) = [] :: splitSep (t.dropWhile isSep)
  | [], c, hc => by simp [splitSep, hc]
  | d :: t', c, hc => by
    rw [splitSep]
    cases hs : splitSep (d :: t') with
    | nil => exact absurd hs (splitSep_ne_nil_re _)
    | cons a r =>
      simp only [hc, if_true]
      by_cases hd : isSep d = true
      · have := splitSep_sep t' d hd
        rw [hs] at this
        simp only [hd, if_true, List.dropWhile_cons]
        exact this
      · simp [hd, hs]

/-! ## the scan -/

theorem scan_sep : ∀ (s : Str) (fuel : Nat) (prev : Option Nat), s.length < fuel →
    ∃ hits tail, scanFuel sepPlus fuel prev (toBytes s) = some (hits, tail) ∧
      hits.map (fun h => h.1) ++ [tail] = (splitSep s).map toBytes
  | [], fuel, prev, hf => by
    obtain ⟨f, rfl⟩ : ∃ f, fuel = f + 1 := ⟨fuel - 1, by omega⟩
    exact ⟨[], [], scanFuel_nil _ _ _ (sep_bt_nil prev), by simp [splitSep]⟩
  | c :: t, fuel, prev, hf => by
    obtain ⟨f, rfl⟩ : ∃ f, fuel = f + 1 := ⟨fuel - 1, by omega⟩
    have hft : t.length < f := by simp at hf; omega
    by_cases hc : isSep c = true
    · have hbt := sep_bt_cons prev c t
      rw [if_pos hc] at hbt
      have hrest : (sepAfter prev (c :: t)).rest = toBytes (t.dropWhile isSep) := by
        simp [sepAfter, hc]
      have hlen : (t.dropWhile isSep).length ≤ t.length := (List.dropWhile_sublist _).length_le
      have hlt : (sepAfter prev (c :: t)).rest.length < (c.toNat :: toBytes t).length := by
        rw [hrest]; simp; omega
      obtain ⟨hits, tail, hsc, heq⟩ := scan_sep (t.dropWhile isSep) f (sepAfter prev (c :: t)).prev (by omega)
      have := scanFuel_hit sepPlus f prev c.toNat (toBytes t) _ hbt hlt
      rw [hrest, hsc] at this
      refine ⟨([], sepAfter prev (c :: t)) :: hits, tail, this, ?_⟩
      rw [splitSep_sep t c hc]
      simp only [List.map_cons, List.cons_append, heq, toBytes_nil]
    · have hc' : isSep c = false := by simpa using hc
      have hbt := sep_bt_cons prev c t
      rw [if_neg hc] at hbt
      obtain ⟨hits, tail, hsc, heq⟩ := scan_sep t (f + 1) (some c.toNat) (by omega)
      have := scanFuel_skip sepPlus f prev c.toNat (toBytes t) hbt
      rw [hsc] at this
      cases hs : splitSep t with
      | nil => exact absurd hs (splitSep_ne_nil_re _)
      | cons h r =>
        rw [hs] at heq
        rw [splitSep_nonsep c t hc' h r hs]
        cases hits with
        | nil =>
          refine ⟨[], c.toNat :: tail, this, ?_⟩
          simp only [List.map_nil, List.nil_append, List.map_cons, List.cons.injEq] at heq
          simp [← heq.1, ← heq.2]
        | cons hit hits' =>
          refine ⟨(c.toNat :: hit.1, hit.2) :: hits', tail, this, ?_⟩
          simp only [List.map_cons, List.cons_append, List.cons.injEq] at heq
          simp [← heq.1, heq.2]
termination_by s => s.length
decreasing_by
  all_goals simp_wf
  · omega

theorem map_ofBytes_toBytes (l : List Str) : (l.map toBytes).map ofBytes = l := by
  induction l with
  | nil => rfl
  | cons a t ih => simp only [List.map_cons, ofBytes_toBytes, ih]

/-- **SEP**: `re.split(r"[\t ,]+", s)` computed by the generic engine on the generated AST is the hand splitter, for every string -/
theorem sep_eq_regex (s : Str) : splitSepRe s = splitSepHand s := by
  unfold splitSepRe splitSepHand split scan
  rw [sep_shape]
  obtain ⟨hits, tail, hsc, heq⟩ := scan_sep s ((toBytes s).length + 1) none (by simp)
  rw [hsc]
  simp only [Option.map_some, heq, map_ofBytes_toBytes]

end QcelVerif.MolText
