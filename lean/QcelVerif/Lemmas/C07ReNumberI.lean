import QcelVerif.Lemmas.C07ReNumber
/-!
NUMBER as it appears inside the IGNORECASE patterns (atom_cartesian, atom_cartesian_strict, efpxyzabc): the translator folds
`[DdEe]` into `[D d d D E e e E]` — another AST, the same language.  Same extent lemma as `numberBody_mem`.
-/
namespace QcelVerif.MolText
open QcelVerif.Regex QcelVerif.Gen

def expOptI : Re :=
  .rep 0 (some 1) true (.seq (.cls false [.ch 68, .ch 100, .ch 100, .ch 68, .ch 69, .ch 101, .ch 101, .ch 69]) (.seq signOpt digits1))
def numA1I : Re := .seq signOpt (.seq digits0 (.seq dot (.seq digits1 expOptI)))
def numA2I : Re := .seq signOpt (.seq digits1 (.seq dot (.seq digits0 expOptI)))
def numA3I : Re := .seq signOpt (.seq digits1 expOptI)
def numberBodyI : Re := .alt numA1I (.alt numA2I numA3I)

theorem cls_expI (c : Char) :
    clsMem false [.ch 68, .ch 100, .ch 100, .ch 68, .ch 69, .ch 101, .ch 101, .ch 69] c.toNat = isExpChar c := by
  rw [← cls_exp]
  simp only [clsMem, Item.mem, List.any_cons, List.any_nil, Bool.or_false]
  generalize (c.toNat == 68) = a
  generalize (c.toNat == 100) = b
  generalize (c.toNat == 69) = d
  generalize (c.toNat == 101) = e
  cases a <;> cases b <;> cases d <;> cases e <;> rfl

theorem ext_expOptI : Ext expOptI LExp := Ext.opt (Ext.seq (Ext.cls cls_expI) (Ext.seq ext_signOpt ext_digits1))
theorem ext_numberBodyI : Ext numberBodyI LNumber :=
  Ext.alt (Ext.seq ext_signOpt (Ext.seq ext_digits0 (Ext.seq ext_dot (Ext.seq ext_digits1 ext_expOptI))))
    (Ext.alt (Ext.seq ext_signOpt (Ext.seq ext_digits1 (Ext.seq ext_dot (Ext.seq ext_digits0 ext_expOptI))))
      (Ext.seq ext_signOpt (Ext.seq ext_digits1 ext_expOptI)))

/-- extent of NUMBER under IGNORECASE: the same splits as without -/
theorem numberBodyI_mem (s : Str) (st x : St) (hs : st.rest = toBytes s) :
    x ∈ numberBodyI.ms st ↔ ∃ t r, s = t ++ r ∧ isNumber t = true ∧ x = st.adv (toBytes t) (toBytes r) :=
  (ext_numberBodyI.congr fun t => (LNumber_iff_NumLang t).trans (isNumber_iff_NumLang t).symm) s st x hs

end QcelVerif.MolText
