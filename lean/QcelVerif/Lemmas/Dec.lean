import QcelVerif.Model.Dec
/-!
General lemmas about the decimal model (all inputs): the rounding step of `Dec.fix` is within half a
unit of the last kept digit, and `Dec.fix` never changes a value that already fits the precision.
-/
namespace QcelVerif.Dec

/-- **ROUND_HALF_EVEN is within half a unit in the last kept place**, for every coefficient `c` and
every number `k` of dropped digits: `|roundHalfEven c k · 10^k − c| ≤ 10^k / 2` (stated without
subtraction or division). -/
theorem roundHalfEven_err (c k : Nat) :
    2 * (roundHalfEven c k * 10 ^ k) ≤ 2 * c + 10 ^ k ∧
    2 * c ≤ 2 * (roundHalfEven c k * 10 ^ k) + 10 ^ k := by
  have hp : 0 < 10 ^ k := Nat.pow_pos (by decide)
  unfold roundHalfEven
  simp only []
  generalize 10 ^ k = p at *
  have h := Nat.div_add_mod c p
  have hr := Nat.mod_lt c hp
  generalize c / p = q at *
  generalize c % p = r at *
  have hqp : (q + 1) * p = q * p + p := Nat.succ_mul q p
  have hc : p * q = q * p := Nat.mul_comm p q
  rw [hc] at h
  split
  · rw [hqp]; generalize q * p = t at *; omega
  · split
    · rename_i h2
      have h2' : 2 * r = p := by simpa using h2
      split
      · generalize q * p = t at *; omega
      · rw [hqp]; generalize q * p = t at *; omega
    · rename_i h1 h2
      have h2' : ¬ 2 * r = p := by simpa using h2
      generalize q * p = t at *; omega

/-- the rounding is monotone-safe: it returns either the truncated coefficient or its successor -/
theorem roundHalfEven_floor_or_succ (c k : Nat) :
    roundHalfEven c k = c / 10 ^ k ∨ roundHalfEven c k = c / 10 ^ k + 1 := by
  unfold roundHalfEven
  simp only []
  split
  · exact Or.inr rfl
  · split
    · split
      · exact Or.inl rfl
      · exact Or.inr rfl
    · exact Or.inl rfl

/-- `_fix` leaves alone every value whose coefficient already fits in 28 digits — this is why the
scalings by powers of ten in the alias definitions are exact. -/
theorem fix_of_fits (d : Dec) (h : ndigits d.coeff ≤ prec) : fix d = d := by
  unfold fix
  by_cases h0 : (d.coeff == 0) = true
  · simp [h0]
  · simp [h0, h]

/-- non-vacuity of `fix_of_fits`' hypothesis: 4.184 and a 28-digit coefficient fit -/
example : ndigits (⟨false, 4184, -3⟩ : Dec).coeff ≤ prec ∧ ndigits (10 ^ 28 - 1) ≤ prec ∧ ¬ ndigits (10 ^ 28) ≤ prec := by decide

/-- tests (not properties) -/
example : roundHalfEven 125 1 = 12 ∧ roundHalfEven 135 1 = 14 ∧ roundHalfEven 1251 1 = 125 ∧ roundHalfEven 999 2 = 10 := by decide

end QcelVerif.Dec
