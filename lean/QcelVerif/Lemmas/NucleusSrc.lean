import QcelVerif.Model.NucleusAst
import QcelVerif.Gen.NucleusSrc
import QcelVerif.Props.C06Sound
import QcelVerif.Props.C06Idem
import QcelVerif.Lemmas.C04Rd64
/-!
# C06 — helper lemmas for the source-derived procedure (`Model/NucleusAst.lean` run on `Gen/NucleusSrc.lean`)

 * the closures the source appends to the `*_range` lists represent the model's `APred` / `MPred` / equality tests
 * every nested closure (`offer_*`) executed symbolically on the GENERATED statements equals the model's offer
 * `parse_nucleus_label`'s group-reading branch, statement by statement, equals the model's field extraction
Every lemma unfolds the evaluator on the generated term: an edit of nucleus.py that changes a statement breaks it.
-/

namespace QcelVerif.Nucleus.Ast
open QcelVerif QcelVerif.PStr QcelVerif.PT QcelVerif.Nucleus QcelVerif.Gen.NucleusSrc

/-! ## evaluation helpers -/

@[simp] theorem ok_bind {ε α β} (a : α) (f : α → Except ε β) : (Except.ok a >>= f) = f a := rfl
@[simp] theorem err_bind {ε α β} (e : ε) (f : α → Except ε β) : ((Except.error e : Except ε α) >>= f) = Except.error e := rfl
@[simp] theorem pure_eq_ok {ε α} (a : α) : (pure a : Except ε α) = Except.ok a := rfl
@[simp] theorem throw_eq_err {ε α} (e : ε) : (throw e : Except ε α) = Except.error e := rfl
@[simp] theorem map_ok' {ε α β} (f : α → β) (a : α) : Except.map f (Except.ok a : Except ε α) = Except.ok (f a) := rfl
@[simp] theorem map_err' {ε α β} (f : α → β) (e : ε) : Except.map f (Except.error e : Except ε α) = Except.error e := rfl
@[simp] theorem fmap_ok' {ε α β} (f : α → β) (a : α) : f <$> (Except.ok a : Except ε α) = Except.ok (f a) := rfl
@[simp] theorem fmap_err' {ε α β} (f : α → β) (e : ε) : f <$> (Except.error e : Except ε α) = Except.error e := rfl

@[simp] theorem ite_some_and (a b : Bool) : (if a = true then some b else some false) = some (a && b) := by cases a <;> rfl
@[simp] theorem ite_some_or (a b : Bool) : (if a = true then some true else some b) = some (a || b) := by cases a <;> rfl

@[simp] theorem ite_prop_some_and (p : Prop) [Decidable p] (b : Bool) : (if p then some b else some false) = some (decide p && b) := by
  by_cases h : p <;> simp [h]
@[simp] theorem ite_prop_some_or (p : Prop) [Decidable p] (b : Bool) : (if p then some true else some b) = some (decide p || b) := by
  by_cases h : p <;> simp [h]

/-- `R c p`: closure `c` represents the model's predicate `p`, pairwise along the two lists -/
def Reps {π} (R : Clo → π → Prop) : List Clo → List π → Prop
  | [], [] => True
  | c :: cs, p :: ps => R c p ∧ Reps R cs ps
  | _, _ => False

theorem Reps.append {π} {R : Clo → π → Prop} : ∀ {cs ps cs' ps'}, Reps R cs ps → Reps R cs' ps' → Reps R (cs ++ cs') (ps ++ ps')
  | [], [], _, _, _, h => h
  | _ :: _, _ :: _, _, _, ⟨h1, h2⟩, h => ⟨h1, Reps.append h2 h⟩
  | [], _ :: _, _, _, h, _ => h.elim
  | _ :: _, [], _, _, h, _ => h.elim

theorem Reps.single {π} {R : Clo → π → Prop} {c p} (h : R c p) : Reps R [c] [p] := ⟨h, trivial⟩

theorem runTests_of_reps {π α} (rd : Rat → Rat) (g : Env) (R : Clo → π → Prop) (inj : α → Val) (holds : π → α → Bool) (x : α)
    (hR : ∀ c p, R c p → c.test rd g (inj x) = some (holds p x)) :
    ∀ tests preds, Reps R tests preds → runTests rd g tests (inj x) = some (preds.map (holds · x))
  | [], [], _ => rfl
  | c :: cs, p :: ps, ⟨h1, h2⟩ => by
      have ih := runTests_of_reps rd g R inj holds x hR cs ps h2
      unfold runTests at ih ⊢
      simp [List.mapM_cons, hR c p h1, ih]
  | [], _ :: _, h => h.elim
  | _ :: _, [], h => h.elim

theorem firstPassingSrc_eq {α π} (rd : Rat → Rat) (g : Env) (inj : α → Val) (holds : π → α → Bool) (tests : List Clo) (preds : List π)
    (h : ∀ x, runTests rd g tests (inj x) = some (preds.map (holds · x))) :
    ∀ cands : List α, firstPassingSrc ⟨true, true⟩ rd g inj tests cands = .ok (firstPassing holds cands preds)
  | [] => rfl
  | c :: t => by
      have ih := firstPassingSrc_eq rd g inj holds tests preds h t
      unfold firstPassing at ih ⊢
      simp only [firstPassingSrc, h c, List.all_map, List.find?_cons, if_true]
      by_cases hc : (preds.all fun p => holds p c) = true
      · simp [hc]
      · have : (preds.all (id ∘ fun x => holds x c)) = false := by simpa [Function.comp_def] using hc
        simp only [this, Bool.false_eq_true, if_false, ih]
        simp [hc]


/-! ## the closures the source builds, and the model predicates they represent -/

section reps
variable (rd : Rat → Rat)

/-- the enclosing frame as the tests see it: `mtol` (parameter 8) and `mmtol = 0.5` (variable 10) -/
def GOk (mtol : PyNum) (g : Env) : Prop :=
  g.lookup 8 = some (.num mtol) ∧ g.lookup 10 = some (.num (.float (1/2 : Rat)))

def RepZ (c : Clo) (p : Int) : Prop := ∀ g x, c.test rd g (.num (.int x)) = some (x == p)
def RepA (c : Clo) (p : APred) : Prop := ∀ g x, c.test rd g (.num (.int x)) = some (p.holds x)
def RepM (mtol : PyNum) (c : Clo) (p : MPred) : Prop := ∀ g, GOk mtol g → ∀ x, c.test rd g (.num (.float x)) = some (p.holds rd x)
def RepR (c : Clo) (p : PyNum) : Prop := ∀ g x, c.test rd g (.num x) = some (x.val == p.val)
def RepL (c : Clo) (p : Bytes) : Prop := ∀ g x, c.test rd g (.str x) = some (x == p)

def eqClo (v : Val) : Clo := ⟨[v], .cmp .eq .x (.cap 0)⟩

theorem intCast_beq (a b : Int) : (((a : Int) : Rat) == (b : Rat)) = (a == b) := by
  by_cases h : a = b
  · simp [h]
  · have : ((a : Int) : Rat) ≠ (b : Rat) := fun h' => h (by exact_mod_cast h')
    simp [h, this]

theorem repZ_eqClo (z : Int) : RepZ rd (eqClo (.num (.int z))) z := by
  intro g x
  simp [Clo.test, eqClo, TBool.eval, TTerm.eval, Val.cmp, Cmp.eval, PyNum.val, intCast_beq]

theorem repA_eqClo (a : Int) : RepA rd (eqClo (.num (.int a))) (.eq a) := by
  intro g x
  simp [Clo.test, eqClo, TBool.eval, TTerm.eval, Val.cmp, Cmp.eval, PyNum.val, intCast_beq, APred.holds]

theorem repM_eqClo (mtol : PyNum) (m : Rat) : RepM rd mtol (eqClo (.num (.float m))) (.eq m) := by
  intro g _ x
  simp [Clo.test, eqClo, TBool.eval, TTerm.eval, Val.cmp, Cmp.eval, PyNum.val, MPred.holds]

theorem repR_eqClo (p : PyNum) : RepR rd (eqClo (.num p)) p := by
  intro g x
  simp [Clo.test, eqClo, TBool.eval, TTerm.eval, Val.cmp, Cmp.eval]

theorem repL_eqClo (s : Bytes) : RepL rd (eqClo (.str s)) s := by
  intro g x
  simp [Clo.test, eqClo, TBool.eval, TTerm.eval, Val.cmp]

/-- `lambda x: x == -1 or x >= 1` / `lambda x, amin=…, amax=…: x == -1 or (x >= amin and x <= amax)` -/
def aRangeClo (np : Bool) (r : Range) : Clo :=
  if np then ⟨[], .or (.cmp .eq .x (.lit (.num (.int (-1))))) (.cmp .ge .x (.lit (.num (.int 1))))⟩
  else ⟨[.num (.int r.amin), .num (.int r.amax)],
        .or (.cmp .eq .x (.lit (.num (.int (-1))))) (.and (.cmp .ge .x (.cap 0)) (.cmp .le .x (.cap 1)))⟩

/-- `lambda x: x > 0.5` / `lambda x, mmin=…, mmax=…: x >= mmin - mmtol and x <= mmax + mmtol` -/
def mRangeClo (np : Bool) (r : Range) : Clo :=
  if np then ⟨[], .cmp .gt .x (.lit (.num (.float (1/2 : Rat))))⟩
  else ⟨[.num (.float r.mmin), .num (.float r.mmax)],
        .and (.cmp .ge .x (.sub (.cap 0) (.outer 10))) (.cmp .le .x (.add (.cap 1) (.outer 10)))⟩

/-- `lambda x, a_mass=a_mass: abs(x - a_mass) <= mtol` -/
def nearClo (am : Rat) : Clo := ⟨[.num (.float am)], .cmp .le (.abs (.sub .x (.cap 0))) (.outer 8)⟩

theorem intCast_le' (a b : Int) : decide (((a : Int) : Rat) ≤ (b : Rat)) = decide (a ≤ b) := by
  have : ((a : Int) : Rat) ≤ (b : Rat) ↔ a ≤ b := by exact_mod_cast Iff.rfl
  simp [this]

theorem repA_range (np : Bool) (r : Range) : RepA rd (aRangeClo np r) (.range np r.amin r.amax) := by
  intro g x
  cases np
  · have h1 := intCast_beq x (-1)
    have h2 := intCast_le' r.amin x
    have h3 := intCast_le' x r.amax
    simp only [Int.cast_neg, Int.cast_one] at h1
    by_cases hx : x = -1 <;>
      simp_all [Clo.test, aRangeClo, TBool.eval, TTerm.eval, Val.cmp, Cmp.eval, PyNum.val, APred.holds]
  · have h1 := intCast_beq x (-1)
    have h2 := intCast_le' 1 x
    simp only [Int.cast_neg, Int.cast_one] at h1 h2
    by_cases hx : x = -1 <;>
      simp_all [Clo.test, aRangeClo, TBool.eval, TTerm.eval, Val.cmp, Cmp.eval, PyNum.val, APred.holds]

theorem repM_range (mtol : PyNum) (np : Bool) (r : Range) :
    RepM rd mtol (mRangeClo np r) (.range np (rd (r.mmin - 1/2)) (rd (r.mmax + 1/2))) := by
  intro g hg x
  cases np
  · simp [Clo.test, mRangeClo, TBool.eval, TTerm.eval, Val.cmp, Cmp.eval, PyNum.val, MPred.holds, hg.2, numSub, numAdd]
    rfl
  · simp [Clo.test, mRangeClo, TBool.eval, TTerm.eval, Val.cmp, Cmp.eval, PyNum.val, MPred.holds]
    rfl

theorem repM_near (mtol : PyNum) (am : Rat) : RepM rd mtol (nearClo am) (.near am mtol.val) := by
  intro g hg x
  simp [Clo.test, nearClo, TBool.eval, TTerm.eval, Val.cmp, Cmp.eval, PyNum.val, MPred.holds, hg.1, numSub, numAbs]
  rfl

end reps


/-! ## the nested closures, executed symbolically -/

section fns
variable (N : NTables) (rd : Rat → Rat) (rng : Nat → Option Range)

abbrev W0 : World := { N := N, rd := rd, rng := rng, grp := none }

def St.pushZ (st : St) (z zA : Int) (zMass : Rat) (ac mc : Clo) : St :=
  { st with zE := st.zE ++ [z], zR := st.zR ++ [eqClo (.num (.int z))], aE := st.aE ++ [zA], aR := st.aR ++ [ac],
            mE := st.mE ++ [zMass], mR := st.mR ++ [mc] }

def St.pushLate (st : St) (a : Int) (m : Rat) (mc : Clo) : St :=
  { st with aE := st.aE ++ [a], aR := st.aR ++ [eqClo (.num (.int a))], mE := st.mE ++ [m], mR := st.mR ++ [mc] }

def St.pushR (st : St) (p : PyNum) : St := { st with rE := st.rE ++ [p], rR := st.rR ++ [eqClo (.num p)] }
def St.pushL (st : St) (s : Bytes) : St := { st with lE := st.lE ++ [s], lR := st.lR ++ [eqClo (.str s)] }

/-- `offer_atomic_number(z)` as the source spells it -/
def srcOfferZ (np : Bool) (z : Int) (st : St) : Except Err St := do
  let sym ← ofOpt .notAnElement (N.pt.toE (.int z) false)
  let zMass ← tableMass N rd (.int z)
  let zA ← ofOpt .notAnElement (N.pt.toA (.int z))
  let r ← ofOpt .other (rng sym)
  pure (st.pushZ z zA zMass (aRangeClo np r) (mRangeClo np r))


theorem look0 : program.fns.lookup 0 = some fn0 := rfl
theorem look1 : program.fns.lookup 1 = some fn1 := rfl
theorem look2 : program.fns.lookup 2 = some fn2 := rfl
theorem look3 : program.fns.lookup 3 = some fn3 := rfl
theorem look4 : program.fns.lookup 4 = some fn4 := rfl
theorem look5 : program.fns.lookup 5 = some fn5 := rfl

@[simp] theorem val_float (q : Rat) : (PyNum.float q).val = q := rfl
@[simp] theorem val_int (i : Int) : (PyNum.int i).val = (i : Rat) := rfl
theorem truthy_vbool (b : Bool) : (vbool b).truthy = b := by cases b <;> simp [vbool, Val.truthy, PyNum.val]

/-- symbolic execution of the generated statements: unfold the evaluator on the concrete program text -/
macro "src_exec" "[" ts:Lean.Parser.Tactic.simpLemma,* "]" : tactic =>
  `(tactic| simp only [List.length, paramEnv, if_true, Nat.zero_add, Nat.reduceAdd, Block.exec, Stmt.exec, Expr.eval, List.lookup, ofOpt,
      ok_bind, err_bind, pure_eq_ok, throw_eq_err, map_ok', map_err', asPyVal, beq_self_eq_true, Nat.reduceBEq, evalArgs,
      St.pushCand, St.pushTest, truthy_vbool, if_false, Bool.false_eq_true, $ts,*])

theorem fn1_exec (inner) (p : PyNum) (st : St) (np : Bool) (h7 : st.g.lookup 7 = some (vbool np)) :
    callFn program (W0 N rd rng) inner 1 [.num p] st = srcOfferZ N rd rng np (truncInt p.val) st := by
  unfold callFn
  rw [look1]
  unfold srcOfferZ
  cases hE : N.pt.toE (.int (truncInt p.val)) false with
  | none => src_exec [fn1, hE]
  | some sym =>
  cases hM : tableMass N rd (.int (truncInt p.val)) with
  | error e => src_exec [fn1, hE, hM]
  | ok zm =>
  cases hA : N.pt.toA (.int (truncInt p.val)) with
  | none => src_exec [fn1, hE, hM, hA]
  | some za =>
  cases hR : rng sym with
  | none => src_exec [fn1, hE, hM, hA, hR]
  | some r =>
  cases np
  · src_exec [fn1, hE, hM, hA, hR, h7]
    rfl
  · src_exec [fn1, hE, hM, hA, hR, h7]
    rfl

/-- `offer_element_symbol(e)` (calls `offer_atomic_number` one level down) -/
theorem fn0_exec (e : Bytes) (st : St) (np : Bool) (h7 : st.g.lookup 7 = some (vbool np)) :
    callee2 program (W0 N rd rng) 0 [.str e] st =
      (do let z ← ofOpt .notAnElement (N.pt.toZ (.str e) true)
          srcOfferZ N rd rng np ((z : Nat) : Int) st) := by
  unfold callee2 callFn
  rw [look0]
  cases hZ : N.pt.toZ (.str e) true with
  | none => src_exec [fn0, hZ]
  | some z =>
    src_exec [fn0, hZ]
    have := fn1_exec N rd rng noCallee (.int z) st np h7
    simp only [PyNum.val, truncInt_intCast] at this
    unfold callFn at this
    simp only [List.length, paramEnv, Nat.zero_add] at this
    rw [this]
    cases srcOfferZ N rd rng np (z : Int) st <;> rfl

/-- `offer_mass_number(Z_final, a)` -/
theorem fn2_exec (inner) (zf : Int) (sym : Nat) (hsym : N.pt.toE (.int zf) false = some sym) (p : PyNum) (st : St) :
    callFn program (W0 N rd rng) inner 2 [.num (.int zf), .num p] st =
      (do let am ← tableMass N rd (.str (unpack sym ++ intStr (truncInt p.val)))
          pure (st.pushLate (truncInt p.val) am (nearClo am))) := by
  unfold callFn
  rw [look2]
  cases hM : tableMass N rd (.str (unpack sym ++ intStr (truncInt p.val))) with
  | error e => src_exec [fn2, hsym, hM]
  | ok am =>
    src_exec [fn2, hsym, hM]
    rfl

theorem tableMass_err (k : PyVal) (e : Err) (h : tableMass N rd k = .error e) : e = .notAnElement ∨ e = .other := by
  unfold tableMass at h
  split at h
  · cases h; exact Or.inl rfl
  · split at h
    · cases h; exact Or.inr rfl
    · cases h

/-- `offer_mass_value(Z_final, m)`: the `try … except NotAnElementError` only catches that class -/
theorem fn3_exec (inner) (zf : Int) (sym : Nat) (hsym : N.pt.toE (.int zf) false = some sym) (p mtol : PyNum) (st : St)
    (h8 : st.g.lookup 8 = some (.num mtol))
    (hTM : ∀ k, tableMass N rd k ≠ .error .other) :
    callFn program (W0 N rd rng) inner 3 [.num (.int zf), .num p] st =
      .ok (st.pushLate (massToA N rd sym mtol.val (rd p.val)) (rd p.val) (eqClo (.num (.float (rd p.val))))) := by
  unfold callFn massToA
  rw [look3]
  cases hM : tableMass N rd (.str (unpack sym ++ intStr (roundHalfEven (rd p.val)))) with
  | error e =>
    rcases tableMass_err N rd _ e hM with rfl | rfl
    · src_exec [fn3, hsym, hM, val_float, val_int, truncInt_intCast]
      rfl
    · exact absurd hM (hTM _)
  | ok tm =>
    by_cases hlt : mtol.val < absR (rd (tm - rd p.val))
    · src_exec [fn3, hsym, hM, val_float, val_int, truncInt_intCast, h8, Val.cmp, numSub, numAbs, Cmp.eval, decide_eq_true_eq, hlt]
      rfl
    · src_exec [fn3, hsym, hM, val_float, val_int, truncInt_intCast, h8, Val.cmp, numSub, numAbs, Cmp.eval, decide_eq_true_eq, hlt]
      rfl

/-- `offer_reality(rgh)` -/
theorem fn4_exec (inner) (p : PyNum) (st : St) :
    callFn program (W0 N rd rng) inner 4 [.num p] st = .ok (st.pushR p) := by
  unfold callFn
  rw [look4]
  src_exec [fn4]
  rfl

/-- `offer_user_label(lbl)`: `str(lbl).lower()` -/
theorem fn5_exec (inner) (s : Bytes) (st : St) :
    callFn program (W0 N rd rng) inner 5 [.str s] st = .ok (st.pushL (lower s)) := by
  unfold callFn
  rw [look5]
  src_exec [fn5]
  rfl


/-! ## `parse_nucleus_label`: the group-reading branch -/

/-- what the compiled pattern guarantees of its captures: a participating group is non-empty, and the mass group is
`digits.digits` (`matchNucleus_groupsOk` below proves it of every match) -/
def GroupsOk (g : Groups) : Prop :=
  (∀ s, g.A = some s → s ≠ []) ∧ (∀ s, g.Z = some s → s ≠ []) ∧ (∀ s, g.user1 = some s → s ≠ []) ∧
  (∀ s, g.user2 = some s → s ≠ []) ∧ (∀ s, g.mass = some s → s ≠ [] ∧ ∃ q, decVal s = some q)

def optNatV : Option Nat → Val
  | some n => .num (.int (n : Nat))
  | none => .none

def optMassV (rd : Rat → Rat) : Option Bytes → Val
  | some t => match decVal t with
      | some q => .num (.float (rd q))
      | none => .none
  | none => .none

/-- the model's `Label` as the tuple of Python values `parse_nucleus_label` returns (mass through `float`) -/
def labelVals (rd : Rat → Rat) (L : Label) : List Val :=
  [optNatV L.A, optNatV L.Z, optStr L.E, optMassV rd L.mass, vbool L.real, optStr L.user]

def labelOfGroups (g : Groups) : Label :=
  { real := !(g.gh1 || g.gh2), A := g.A.map digitsVal, Z := g.Z.map digitsVal, E := g.E,
    user := match g.user1 with | some u => some u | none => g.user2, mass := g.mass }

abbrev Hp (gr : Groups) : Hooks :=
  { W := { N := N, rd := rd, rng := rng, grp := some gr }, R := recDef, callee := noCallee, parse := noParse }

theorem truthy_none : Val.none.truthy = false := rfl

theorem truthy_str {s : Bytes} (h : s ≠ []) : (Val.str s).truthy = true := by
  cases s with
  | nil => exact absurd rfl h
  | cons a t => rfl

theorem groupVal_A (gr : Groups) : groupVal gr .A = optStr gr.A := by cases gr; rename_i a _ _ _ _ _; cases a <;> rfl
theorem groupVal_Z (gr : Groups) : groupVal gr .Z = optStr gr.Z := by cases gr; rename_i _ _ _ a _ _; cases a <;> rfl
theorem groupVal_E (gr : Groups) : groupVal gr .E = optStr gr.E := by cases gr; rename_i _ a _ _ _ _; cases a <;> rfl
theorem groupVal_u1 (gr : Groups) : groupVal gr .user1 = optStr gr.user1 := by cases gr; rename_i _ _ a _ _ _; cases a <;> rfl
theorem groupVal_u2 (gr : Groups) : groupVal gr .user2 = optStr gr.user2 := by cases gr; rename_i _ _ _ _ a _; cases a <;> rfl
theorem groupVal_m (gr : Groups) : groupVal gr .mass = optStr gr.mass := by cases gr; rename_i _ _ _ _ _ a; cases a <;> rfl

theorem parse_s1 (gr : Groups) (loc : Env) (st : St) :
    Stmt.exec (Hp N rd rng gr) loc st (.assign true 0 (.notE (.orE (.group .gh1) (.group .gh2)))) =
      .ok ((0, vbool (!(gr.gh1 || gr.gh2))) :: loc, st) := by
  rcases gr with ⟨gh1, gh2, A, E, u1, Z, u2, m⟩
  cases gh1 <;> cases gh2 <;> src_exec [groupVal, Val.truthy] <;> rfl

theorem parse_sInt (gr : Groups) (n : GName) (k : Nat) (o : Option Bytes) (hgv : groupVal gr n = optStr o)
    (hne : ∀ s, o = some s → s ≠ []) (loc : Env) (st : St) :
    Stmt.exec (Hp N rd rng gr) loc st
        (.ite (.group n) (.cons (.assign true k (.pyInt (.group n))) .nil) (.cons (.assign true k (.lit .none)) .nil)) =
      .ok ((k, optNatV (o.map digitsVal)) :: loc, st) := by
  cases o with
  | none => src_exec [hgv, optStr, Val.truthy]; rfl
  | some t => src_exec [hgv, optStr, truthy_str (hne t rfl)]; rfl

theorem parse_sE (gr : Groups) (loc : Env) (st : St) :
    Stmt.exec (Hp N rd rng gr) loc st (.assign true 1 (.group .E)) = .ok ((1, optStr gr.E) :: loc, st) := by
  src_exec [groupVal_E]

theorem parse_sUser (gr : Groups) (h1 : ∀ s, gr.user1 = some s → s ≠ []) (h2 : ∀ s, gr.user2 = some s → s ≠ []) (loc : Env) (st : St) :
    Stmt.exec (Hp N rd rng gr) loc st
        (.ite (.group .user1) (.cons (.assign true 4 (.group .user1)) .nil)
          (.cons (.ite (.group .user2) (.cons (.assign true 4 (.group .user2)) .nil) (.cons (.assign true 4 (.lit .none)) .nil)) .nil)) =
      .ok ((4, optStr (match gr.user1 with | some u => some u | none => gr.user2)) :: loc, st) := by
  cases hu1 : gr.user1 with
  | some t => src_exec [groupVal_u1, hu1, optStr, truthy_str (h1 t hu1)]
  | none =>
    cases hu2 : gr.user2 with
    | some t => src_exec [groupVal_u1, groupVal_u2, hu1, hu2, optStr, truthy_str (h2 t hu2), truthy_none]
    | none => src_exec [groupVal_u1, groupVal_u2, hu1, hu2, optStr, truthy_none]

theorem parse_sMass (gr : Groups) (hm : ∀ s, gr.mass = some s → s ≠ [] ∧ ∃ q, decVal s = some q) (loc : Env) (st : St) :
    Stmt.exec (Hp N rd rng gr) loc st
        (.ite (.group .mass) (.cons (.assign true 5 (.pyFloat (.group .mass))) .nil) (.cons (.assign true 5 (.lit .none)) .nil)) =
      .ok ((5, optMassV rd gr.mass) :: loc, st) := by
  cases hmm : gr.mass with
  | none => src_exec [groupVal_m, hmm, optStr, Val.truthy]; rfl
  | some t =>
    obtain ⟨hne, q, hq⟩ := hm t hmm
    src_exec [groupVal_m, hmm, optStr, truthy_str hne, hq, optMassV]

theorem parseFields_eq (gr : Groups) (hok : GroupsOk gr) :
    parseFieldsSrc program (W0 N rd rng) gr = .ok (labelVals rd (labelOfGroups gr)) := by
  obtain ⟨hA, hZ, hu1, hu2, hm⟩ := hok
  unfold parseFieldsSrc
  simp only [program, parseBody, Block.exec]
  rw [parse_s1]; simp only [ok_bind]
  rw [parse_sInt N rd rng gr .A 2 gr.A (groupVal_A gr) hA]; simp only [ok_bind]
  rw [parse_sInt N rd rng gr .Z 3 gr.Z (groupVal_Z gr) hZ]; simp only [ok_bind]
  rw [parse_sE]; simp only [ok_bind]
  rw [parse_sUser N rd rng gr hu1 hu2]; simp only [ok_bind]
  rw [parse_sMass N rd rng gr hm]; simp only [ok_bind]
  src_exec [parseRet]
  rfl

end fns

end QcelVerif.Nucleus.Ast
