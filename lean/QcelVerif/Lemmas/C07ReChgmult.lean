import QcelVerif.Lemmas.C07ReShapes
import QcelVerif.Props.C07
/-!
C07 — CHGMULT lines: `cgmp = \A(?P<chg>NUMBER)SEP(?P<mult>\d+)\Z` (psi4) and `xyz2 = \A CHGMULT` (prefix match, xyz+ title line).

Everything here is stated relative to `NumExt`: "the ways NUMBER's body can match from a cursor are exactly the splits of the rest
into a token accepted by M1's `isNumber` and what follows" — proved as `numberBody_mem` in `Lemmas/C07ReNumber.lean` and
discharged in `Props/C07Regex.lean`.
-/
namespace QcelVerif.MolText
open QcelVerif.Regex QcelVerif.Gen

/-- the extent lemma of NUMBER (statement; proved in `Lemmas/C07ReNumber.lean`) -/
def NumExt : Prop :=
  ∀ (s : Str) (st x : St), st.rest = toBytes s →
    (x ∈ numberBody.ms st ↔ ∃ t r, s = t ++ r ∧ isNumber t = true ∧ x = st.adv (toBytes t) (toBytes r))

def nsep (c : Char) : Bool := !isSep c

/-! ## hand side: `splitSep` by maximal runs -/

theorem splitSep_sep_cons (c : Char) (t : Str) (hc : isSep c = true) : splitSep (c :: t) = [] :: splitSep (t.dropWhile isSep) := by
  induction t generalizing c with
  | nil => simp [splitSep, hc]
  | cons d t ih =>
    obtain ⟨h, r, hr⟩ := splitSep_exists (d :: t)
    by_cases hd : isSep d = true
    · have := ih d hd
      rw [splitSep, hr]
      simp only [hc, hd, if_true, List.dropWhile_cons]
      rw [← this, hr]
    · have hd' : isSep d = false := by simpa using hd
      rw [splitSep, hr]
      simp [hc, hd', hr]

/-- the first field is the separator-free prefix; the rest is the split of what follows the next separator run -/
theorem splitSep_unfold (s : Str) :
    splitSep s = s.takeWhile nsep :: (if s.dropWhile nsep = [] then [] else splitSep ((s.dropWhile nsep).dropWhile isSep)) := by
  induction s with
  | nil => simp [splitSep]
  | cons c t ih =>
    by_cases hc : isSep c = true
    · rw [splitSep_sep_cons c t hc]
      simp [nsep, hc, List.dropWhile_cons]
    · have hc' : isSep c = false := by simpa using hc
      obtain ⟨h, r, hr⟩ := splitSep_exists t
      rw [splitSep, hr]
      rw [hr] at ih
      injection ih with h1 h2
      simp [nsep, hc', List.dropWhile_cons, h1, h2]

theorem isSep_nat (c : Char) : isSep c = (c.toNat == 32 || c.toNat == 9 || c.toNat == 44) := by
  simp only [isSep, beq_lit, Char.reduceToNat]

theorem digit_not_sep {c : Char} (h : c.isDigit = true) : isSep c = false := by
  rw [isDigit_nat] at h
  rw [isSep_nat]
  simp only [isDigitC, Bool.and_eq_true, decide_eq_true_eq] at h
  rw [Bool.eq_false_iff]
  simp only [ne_eq, Bool.or_eq_true, beq_iff_eq]
  omega

theorem expChar_not_sep {c : Char} (h : isExpChar c = true) : isSep c = false := by
  simp only [isExpChar, Bool.or_eq_true, beq_iff_eq] at h
  rcases h with ((h | h) | h) | h <;> subst h <;> decide

theorem allDigits_not_sep {d : Str} (h : allDigits d = true) : ∀ c ∈ d, isSep c = false := by
  intro c hc
  simp only [allDigits, List.all_eq_true] at h
  exact digit_not_sep (h c hc)

theorem parseExp_no_sep {e : Str} {v : Option (Bool × Str)} (h : parseExp e = some v) : ∀ c ∈ e, isSep c = false := by
  cases e with
  | nil => intro c hc; simp at hc
  | cons a r =>
    simp only [parseExp] at h
    by_cases ha : isExpChar a = true
    · simp only [ha, if_true] at h
      intro c hc
      simp only [List.mem_cons] at hc
      rcases hc with rfl | hc
      · exact expChar_not_sep ha
      · split at h
        · rename_i d
          split at h
          · rename_i hd
            simp only [Bool.and_eq_true] at hd
            simp only [List.mem_cons] at hc
            rcases hc with rfl | hc
            · decide
            · exact allDigits_not_sep hd.1 c hc
          · simp at h
        · rename_i d
          split at h
          · rename_i hd
            simp only [Bool.and_eq_true] at hd
            simp only [List.mem_cons] at hc
            rcases hc with rfl | hc
            · decide
            · exact allDigits_not_sep hd.1 c hc
          · simp at h
        · split at h
          · rename_i hd
            simp only [Bool.and_eq_true] at hd
            exact allDigits_not_sep hd.1 c hc
          · simp at h
    · simp [ha] at h

/-- a token accepted by NUMBER holds no separator character and is not empty -/
theorem isNumber_no_sep {t : Str} (h : isNumber t = true) : ∀ c ∈ t, isSep c = false := by
  intro c hc
  simp only [isNumber, parseNumber] at h
  have hsplit : t = t.takeWhile isMantChar ++ t.dropWhile isMantChar := (List.takeWhile_append_dropWhile).symm
  rw [hsplit, List.mem_append] at hc
  rcases hc with hc | hc
  · exact mant_not_sep (List.all_eq_true.mp List.all_takeWhile c hc)
  · cases hm : parseMant (t.takeWhile isMantChar) with
    | none => simp [hm] at h
    | some m =>
      cases he : parseExp (t.dropWhile isMantChar) with
      | none => simp [hm, he] at h
      | some v => exact parseExp_no_sep he c hc

theorem isNumber_ne_nil {t : Str} (h : isNumber t = true) : t ≠ [] := by
  intro ht; subst ht; simp [isNumber, parseNumber, parseMant] at h

/-- uniqueness of the decomposition `token ++ separator run ++ rest` -/
theorem decomp_unique {s t sp r : Str} (hs : s = t ++ sp ++ r) (ht : ∀ c ∈ t, isSep c = false) (hsp0 : sp ≠ [])
    (hsp : ∀ c ∈ sp, isSep c = true) (hr : r = [] ∨ ∃ d u, r = d :: u ∧ isSep d = false) :
    t = s.takeWhile nsep ∧ sp ++ r = s.dropWhile nsep ∧ sp = (s.dropWhile nsep).takeWhile isSep ∧ r = (s.dropWhile nsep).dropWhile isSep := by
  obtain ⟨c0, sp', rfl⟩ : ∃ c0 sp', sp = c0 :: sp' := by
    cases sp with
    | nil => exact absurd rfl hsp0
    | cons a b => exact ⟨a, b, rfl⟩
  have hc0 : isSep c0 = true := hsp c0 (by simp)
  have ht' : ∀ c ∈ t, nsep c = true := fun c hc => by simp [nsep, ht c hc]
  have h1 : s.takeWhile nsep = t := by
    rw [hs, List.append_assoc]
    exact tw_app t _ ht' (Or.inr ⟨c0, sp' ++ r, rfl, by simp [nsep, hc0]⟩)
  have h2 : s.dropWhile nsep = (c0 :: sp') ++ r := by
    rw [hs, List.append_assoc]
    exact dw_app t _ ht' (Or.inr ⟨c0, sp' ++ r, rfl, by simp [nsep, hc0]⟩)
  refine ⟨h1.symm, h2.symm, ?_, ?_⟩
  · rw [h2]; exact (tw_app _ r hsp hr).symm
  · rw [h2]; exact (dw_app _ r hsp hr).symm

theorem dropWhile_head_not {p : Char → Bool} : ∀ {l : Str} {c : Char} {u : Str}, l.dropWhile p = c :: u → p c = false
  | [], _, _, h => by simp at h
  | a :: l, c, u, h => by
    by_cases ha : p a = true
    · rw [List.dropWhile_cons_of_pos ha] at h; exact dropWhile_head_not h
    · rw [List.dropWhile_cons_of_neg ha] at h
      injection h with h1 _
      subst h1; simpa using ha

/-! ## regex side: one-character class repetitions and NUMBER on M1's strings -/

/-- greedy `[class]+` on the image of an M1 string, the class being the M1 predicate `q` -/
theorem plus_mem_str {neg : Bool} {items : List Item} {q : Char → Bool} (hq : ∀ c, clsMem neg items c.toNat = q c)
    (r : Str) (m x : St) (hm : m.rest = toBytes r) :
    x ∈ (Re.rep 1 none true (.cls neg items)).ms m ↔
      ∃ a b, a ≠ [] ∧ r = a ++ b ∧ (∀ c ∈ a, q c = true) ∧ x = m.adv (toBytes a) (toBytes b) := by
  rw [mem_ms_plus]
  constructor
  · rintro ⟨a, b, ha, hab, hall, rfl⟩
    rw [hm] at hab
    obtain ⟨a', b', rfl, rfl, rfl⟩ := toBytes_eq_append hab
    exact ⟨a', b', by simpa [toBytes_eq_nil] using ha, rfl, (all_toBytes _ _ hq a').mp hall, rfl⟩
  · rintro ⟨a, b, ha, rfl, hall, rfl⟩
    exact ⟨toBytes a, toBytes b, by simpa [toBytes_eq_nil] using ha, by simp [hm], (all_toBytes _ _ hq a).mpr hall, rfl⟩

/-- the state after `(?P<chg>(NUMBER))` consumed the token `t`: groups 2 and 1 hold it -/
def afterChg (st : St) (t r : Str) : St := St.capture 1 st (St.capture 2 st (st.adv (toBytes t) (toBytes r)))

theorem chg_mem (hn : NumExt) (s : Str) (st x : St) (hs : st.rest = toBytes s) :
    x ∈ (Re.group 1 (.group 2 numberBody)).ms st ↔ ∃ t r, s = t ++ r ∧ isNumber t = true ∧ x = afterChg st t r := by
  simp only [mem_ms_group, hn s st _ hs]
  constructor
  · rintro ⟨m, ⟨m', ⟨t, r, h1, h2, rfl⟩, rfl⟩, rfl⟩
    exact ⟨t, r, h1, h2, rfl⟩
  · rintro ⟨t, r, h1, h2, rfl⟩
    exact ⟨_, ⟨_, ⟨t, r, h1, h2, rfl⟩, rfl⟩, rfl⟩

@[simp] theorem afterChg_rest (st : St) (t r : Str) : (afterChg st t r).rest = toBytes r := rfl

/-- the state after `(?P<chg>(NUMBER)) SEP` -/
def afterSep (st : St) (t sp r : Str) : St := (afterChg st t (sp ++ r)).adv (toBytes sp) (toBytes r)

@[simp] theorem afterSep_rest (st : St) (t sp r : Str) : (afterSep st t sp r).rest = toBytes r := rfl

theorem chgsep_mem (hn : NumExt) (K : Re) (s : Str) (st x : St) (hs : st.rest = toBytes s) :
    x ∈ (Re.seq (.group 1 (.group 2 numberBody)) (.seq sepPlus K)).ms st ↔
      ∃ t sp r, s = t ++ sp ++ r ∧ isNumber t = true ∧ sp ≠ [] ∧ (∀ c ∈ sp, isSep c = true) ∧ x ∈ K.ms (afterSep st t sp r) := by
  simp only [mem_ms_seq, chg_mem hn s st _ hs]
  constructor
  · rintro ⟨m, ⟨t, r, rfl, h2, rfl⟩, m2, hm2, hx⟩
    rw [sepPlus, plus_mem_str cls_sep r _ _ (afterChg_rest st t r)] at hm2
    obtain ⟨sp, r2, h3, rfl, h4, rfl⟩ := hm2
    exact ⟨t, sp, r2, by simp, h2, h3, h4, hx⟩
  · rintro ⟨t, sp, r, rfl, h2, h3, h4, hx⟩
    refine ⟨afterChg st t (sp ++ r), ⟨t, sp ++ r, by simp, h2, rfl⟩, afterSep st t sp r, ?_, hx⟩
    rw [sepPlus, plus_mem_str cls_sep (sp ++ r) _ _ (afterChg_rest st t (sp ++ r))]
    exact ⟨sp, r, h3, rfl, h4, rfl⟩

/-- `(?P<mult>\d+)` from the state after the separator run -/
theorem mult_mem (r : Str) (m x : St) (hm : m.rest = toBytes r) :
    x ∈ (Re.group 3 digits1).ms m ↔
      ∃ d r3, d ≠ [] ∧ r = d ++ r3 ∧ (∀ c ∈ d, c.isDigit = true) ∧ x = St.capture 3 m (m.adv (toBytes d) (toBytes r3)) := by
  simp only [mem_ms_group, digits1, plus_mem_str cls_digit r m _ hm]
  constructor
  · rintro ⟨m', ⟨d, r3, h1, h2, h3, rfl⟩, rfl⟩; exact ⟨d, r3, h1, h2, h3, rfl⟩
  · rintro ⟨d, r3, h1, h2, h3, rfl⟩; exact ⟨_, ⟨d, r3, h1, h2, h3, rfl⟩, rfl⟩

/-- the final state of a CHGMULT match: charge token `t`, separator run `sp`, multiplicity digits `d`, rest `r3` -/
def chgmultEnd (st : St) (t sp d r3 : Str) : St :=
  St.capture 3 (afterSep st t sp (d ++ r3)) ((afterSep st t sp (d ++ r3)).adv (toBytes d) (toBytes r3))

theorem chgmultEnd_rest (st : St) (t sp d r3 : Str) : (chgmultEnd st t sp d r3).rest = toBytes r3 := rfl

theorem chgmultEnd_chg (p : Option Nat) (t sp d r3 : Str) :
    (chgmultEnd ⟨p, toBytes (t ++ sp ++ (d ++ r3)), []⟩ t sp d r3).group 1 = some (toBytes t) := by
  simp only [chgmultEnd, afterSep, afterChg, St.group, capture_caps', adv_caps', adv_rest', List.lookup]
  simp [takeDiff_append']

theorem chgmultEnd_mult (p : Option Nat) (t sp d r3 : Str) :
    (chgmultEnd ⟨p, toBytes (t ++ sp ++ (d ++ r3)), []⟩ t sp d r3).group 3 = some (toBytes d) := by
  simp only [chgmultEnd, afterSep, afterChg, St.group, capture_caps', adv_caps', adv_rest', List.lookup]
  simp [takeDiff_append']

/-! ## M1's reading of a CHGMULT line by maximal runs -/

def chgTok (s : Str) : Str := s.takeWhile nsep
def afterTok (s : Str) : Str := s.dropWhile nsep
def sepRun (s : Str) : Str := (afterTok s).takeWhile isSep
def afterSepS (s : Str) : Str := (afterTok s).dropWhile isSep

theorem decomp_s (s : Str) : s = chgTok s ++ sepRun s ++ afterSepS s := by
  simp [chgTok, sepRun, afterSepS, afterTok, List.append_assoc]

theorem sepRun_all (s : Str) : ∀ c ∈ sepRun s, isSep c = true := fun c hc => List.all_eq_true.mp List.all_takeWhile c hc

theorem sepRun_ne_nil {s : Str} (h : afterTok s ≠ []) : sepRun s ≠ [] := by
  unfold sepRun
  cases hr : afterTok s with
  | nil => exact absurd hr h
  | cons c u =>
    have : nsep c = false := dropWhile_head_not (p := nsep) hr
    have hc : isSep c = true := by simpa [nsep] using this
    simp [List.takeWhile_cons, hc]

theorem afterSepS_head {s : Str} : afterSepS s = [] ∨ ∃ d u, afterSepS s = d :: u ∧ isSep d = false := by
  cases h : afterSepS s with
  | nil => exact Or.inl rfl
  | cons d u => exact Or.inr ⟨d, u, rfl, dropWhile_head_not (p := isSep) h⟩

/-- any decomposition token ++ separator run ++ (digits ++ rest) is the one by maximal runs -/
theorem decomp_digits {s t sp d r3 : Str} (hs : s = t ++ sp ++ (d ++ r3)) (ht : isNumber t = true) (hsp0 : sp ≠ [])
    (hsp : ∀ c ∈ sp, isSep c = true) (hd0 : d ≠ []) (hd : ∀ c ∈ d, c.isDigit = true) :
    t = chgTok s ∧ sp = sepRun s ∧ d ++ r3 = afterSepS s ∧ afterTok s ≠ [] := by
  obtain ⟨d0, d', rfl⟩ : ∃ d0 d', d = d0 :: d' := by
    cases d with
    | nil => exact absurd rfl hd0
    | cons a b => exact ⟨a, b, rfl⟩
  have := decomp_unique hs (isNumber_no_sep ht) hsp0 hsp (Or.inr ⟨d0, d' ++ r3, rfl, digit_not_sep (hd d0 (by simp))⟩)
  refine ⟨this.1, this.2.2.1, this.2.2.2, ?_⟩
  intro h
  have h2 := this.2.1
  rw [show s.dropWhile nsep = afterTok s from rfl, h] at h2
  cases sp with
  | nil => exact hsp0 rfl
  | cons a b => simp at h2

/-! ## cgmp = `\A(?P<chg>NUMBER)SEP(?P<mult>\d+)\Z` -/

def CgmpCond (s : Str) : Prop :=
  isNumber (chgTok s) = true ∧ afterTok s ≠ [] ∧ afterSepS s ≠ [] ∧ allDigits (afterSepS s) = true

instance (s : Str) : Decidable (CgmpCond s) := by unfold CgmpCond; exact inferInstance

theorem cgmp_mem (hn : NumExt) (s : Str) (x : St) :
    x ∈ FromStringRegex.cgmp.ms (St.init (toBytes s)) ↔
      CgmpCond s ∧ x = chgmultEnd (St.init (toBytes s)) (chgTok s) (sepRun s) (afterSepS s) [] := by
  rw [cgmp_shape, mem_ms_seq]
  simp only [mem_ms_bos]
  constructor
  · rintro ⟨m, ⟨_, rfl⟩, hx⟩
    rw [chgsep_mem hn _ s _ _ rfl] at hx
    obtain ⟨t, sp, r, hs, ht, hsp0, hsp, hx⟩ := hx
    rw [mem_ms_seq] at hx
    obtain ⟨m3, hm3, hx⟩ := hx
    rw [mult_mem r _ _ (afterSep_rest _ t sp r)] at hm3
    obtain ⟨d, r3, hd0, rfl, hd, rfl⟩ := hm3
    rw [mem_ms_eos] at hx
    obtain ⟨hr3, rfl⟩ := hx
    have hr3' : r3 = [] := by
      have : toBytes r3 = [] := hr3
      exact toBytes_eq_nil.mp this
    subst hr3'
    obtain ⟨e1, e2, e3, e4⟩ := decomp_digits hs ht hsp0 hsp hd0 hd
    simp only [List.append_nil] at e3
    refine ⟨⟨e1 ▸ ht, e4, e3 ▸ hd0, ?_⟩, ?_⟩
    · rw [← e3]; simpa [allDigits, List.all_eq_true] using hd
    · rw [← e1, ← e2, ← e3]; rfl
  · rintro ⟨⟨h1, h2, h3, h4⟩, rfl⟩
    refine ⟨St.init (toBytes s), ⟨rfl, rfl⟩, ?_⟩
    rw [chgsep_mem hn _ s _ _ rfl]
    refine ⟨chgTok s, sepRun s, afterSepS s, decomp_s s, h1, sepRun_ne_nil h2, sepRun_all s, ?_⟩
    rw [mem_ms_seq]
    refine ⟨chgmultEnd (St.init (toBytes s)) (chgTok s) (sepRun s) (afterSepS s) [], ?_, ?_⟩
    · rw [mult_mem (afterSepS s) _ _ (afterSep_rest _ _ _ _)]
      refine ⟨afterSepS s, [], h3, by simp, ?_, ?_⟩
      · simpa [allDigits, List.all_eq_true] using h4
      · simp [chgmultEnd]
    · rw [mem_ms_eos]; exact ⟨rfl, rfl⟩


theorem chgmultEnd_chg' (s t sp d r3 : Str) (hs : s = t ++ sp ++ (d ++ r3)) :
    grp (chgmultEnd (St.init (toBytes s)) t sp d r3) 1 = some t := by
  have := chgmultEnd_chg none t sp d r3
  rw [← hs] at this
  simp [grp, St.init, this, ofBytes_toBytes]

theorem chgmultEnd_mult' (s t sp d r3 : Str) (hs : s = t ++ sp ++ (d ++ r3)) :
    grp (chgmultEnd (St.init (toBytes s)) t sp d r3) 3 = some d := by
  have := chgmultEnd_mult none t sp d r3
  rw [← hs] at this
  simp [grp, St.init, this, ofBytes_toBytes]

theorem cgmpRe_eq (hn : NumExt) (s : Str) : cgmpRe s = if CgmpCond s then some (chgTok s, afterSepS s) else none := by
  unfold cgmpRe
  rw [matchPrefix_eq_head, head?_of_mem_iff (cgmp_mem hn s)]
  by_cases h : CgmpCond s
  · rw [if_pos h, if_pos h]
    have hs : s = chgTok s ++ sepRun s ++ (afterSepS s ++ []) := by simpa using decomp_s s
    simp only [Option.bind_some, cgmp_groups.1, cgmp_groups.2, chgmultEnd_chg' s _ _ _ _ hs, chgmultEnd_mult' s _ _ _ _ hs]
  · rw [if_neg h, if_neg h]; rfl

theorem classifyRest_ne_cgmp (s : Str) (c : NumParts) (m : Str) : classifyRest s ≠ .cgmp c m := by
  intro h
  unfold classifyRest at h
  dsimp only at h
  split at h
  · cases h
  split at h
  · cases h
  split at h
  · cases h
  split at h
  · cases h
  split at h
  · cases h
  split at h
  · cases h
  split at h
  · split at h <;> cases h
  · split at h
    · split at h <;> cases h
    · cases h
  · cases h


theorem classify_cgmp_iff (s : Str) (cn : NumParts) (m : Str) :
    classify s = .cgmp cn m ↔ s ≠ [] ∧ ∃ c, splitSep s = [c, m] ∧ parseNumber c = some cn ∧ allDigits m = true ∧ m ≠ [] := by
  unfold classify
  by_cases hs : s = []
  · subst hs; simp
  · have hse : s.isEmpty = false := by simpa [List.isEmpty_iff] using hs
    simp only [hse, Bool.false_eq_true, if_false, ne_eq, hs, not_false_eq_true, true_and]
    generalize splitSep s = T
    rcases T with _ | ⟨a, _ | ⟨b, _ | ⟨c, _ | ⟨d, _ | ⟨e, T⟩⟩⟩⟩⟩
    · simp [classifyRest_ne_cgmp]
    · simp [classifyRest_ne_cgmp]
    · simp only [List.cons.injEq, and_true]
      cases hp : parseNumber a with
      | none => simp [classifyRest_ne_cgmp, hp]
      | some pn =>
        by_cases hd : (allDigits b && !b.isEmpty) = true
        · simp only [hd, if_true, Line.cgmp.injEq]
          simp only [Bool.and_eq_true, Bool.not_eq_true', List.isEmpty_eq_false_iff] at hd
          constructor
          · rintro ⟨rfl, rfl⟩; exact ⟨a, ⟨rfl, rfl⟩, by simp [hp], hd.1, hd.2⟩
          · rintro ⟨c, ⟨rfl, rfl⟩, h2, _, _⟩
            rw [hp] at h2; injection h2 with h2; exact ⟨h2, rfl⟩
        · simp only [hd, classifyRest_ne_cgmp, false_iff, Bool.false_eq_true, if_false]
          rintro ⟨c, ⟨rfl, rfl⟩, _, h3, h4⟩
          simp [h3, h4] at hd
    · simp [classifyRest_ne_cgmp]
    · simp only [List.cons.injEq, reduceCtorEq, and_false, false_and, exists_false, iff_false]
      split <;> simp [classifyRest_ne_cgmp]
    · simp [classifyRest_ne_cgmp]

theorem splitSep_two (s c m : Str) (h : splitSep s = [c, m]) :
    c = chgTok s ∧ afterTok s ≠ [] ∧ m = afterSepS s ∧ (afterSepS s).dropWhile nsep = [] := by
  rw [splitSep_unfold s] at h
  by_cases h2 : s.dropWhile nsep = []
  · simp [h2] at h
  · simp only [h2, if_false, List.cons.injEq] at h
    obtain ⟨h1, h3⟩ := h
    rw [splitSep_unfold] at h3
    by_cases h4 : ((s.dropWhile nsep).dropWhile isSep).dropWhile nsep = []
    · simp only [h4, if_true, List.cons.injEq, and_true] at h3
      have : ((s.dropWhile nsep).dropWhile isSep).takeWhile nsep = (s.dropWhile nsep).dropWhile isSep := by
        have := List.takeWhile_append_dropWhile (p := nsep) (l := (s.dropWhile nsep).dropWhile isSep)
        rw [h4, List.append_nil] at this
        exact this
      exact ⟨h1.symm, h2, by rw [← h3, this]; rfl, h4⟩
    · simp only [h4, if_false, List.cons.injEq] at h3
      exact absurd h3.2 (splitSep_ne_nil _)

theorem cgmpHand_eq (s : Str) : cgmpHand s = if CgmpCond s then some (chgTok s, afterSepS s) else none := by
  by_cases h : CgmpCond s
  · rw [if_pos h]
    obtain ⟨h1, h2, h3, h4⟩ := h
    have hsplit : splitSep s = [chgTok s, afterSepS s] := by
      rw [splitSep_unfold s]
      have h2' : s.dropWhile nsep ≠ [] := h2
      simp only [h2', if_false]
      have := splitSep_tok_append (afterSepS s) [] [] [] (allDigits_not_sep h4) (by simp [splitSep])
      simp only [List.append_nil] at this
      exact congrArg _ this
    have hs : s ≠ [] := by
      intro h0; subst h0; exact h2 rfl
    cases hp : parseNumber (chgTok s) with
    | none => simp [isNumber, hp] at h1
    | some cn =>
      have := (classify_cgmp_iff s cn (afterSepS s)).mpr ⟨hs, chgTok s, hsplit, hp, h4, h3⟩
      simp [cgmpHand, this, hsplit]
  · rw [if_neg h]
    unfold cgmpHand
    split
    · rename_i cn m hcl
      exfalso
      obtain ⟨_, c, h1, h2, h3, h4⟩ := (classify_cgmp_iff s cn m).mp hcl
      obtain ⟨e1, e2, e3, _⟩ := splitSep_two s c m h1
      exact h ⟨by rw [← e1]; simp [isNumber, h2], e2, e3 ▸ h4, e3 ▸ h3⟩
    · rfl

theorem cgmp_eq_regex_of (hn : NumExt) (s : Str) : cgmpRe s = cgmpHand s := by
  rw [cgmpRe_eq hn, cgmpHand_eq]


/-! ## xyz2 = `\A` CHGMULT (prefix match): the first way to match takes the longest multiplicity digits -/

def multTok (s : Str) : Str := (afterSepS s).takeWhile Char.isDigit
def afterMult (s : Str) : Str := (afterSepS s).dropWhile Char.isDigit

def Xyz2Cond (s : Str) : Prop := isNumber (chgTok s) = true ∧ afterTok s ≠ [] ∧ multTok s ≠ []

instance (s : Str) : Decidable (Xyz2Cond s) := by unfold Xyz2Cond; exact inferInstance

theorem xyz2Hand_eq (s : Str) : xyz2Hand s = if Xyz2Cond s then some (chgTok s, multTok s) else none := by
  unfold xyz2Hand matchXyz2 Xyz2Cond
  have hns : nsep = fun c => !isSep c := rfl
  simp only [chgTok, afterTok, multTok, afterSepS, hns]
  split
  · rename_i hp
    simp [isNumber, hp]
  · rename_i c hp
    split
    · rename_i hr
      simp [hr]
    · rename_i a b hr
      split
      · rename_i hm
        have : List.takeWhile Char.isDigit (List.dropWhile isSep (List.dropWhile (fun c => !isSep c) s)) = [] := by
          simpa [List.isEmpty_iff] using hm
        simp [this]
      · rename_i hm
        have : List.takeWhile Char.isDigit (List.dropWhile isSep (List.dropWhile (fun c => !isSep c) s)) ≠ [] := by
          simpa [List.isEmpty_iff] using hm
        rw [hr] at this
        simp [isNumber, hp, hr, this]

theorem head?_flatMap_head {α β} {l : List α} {a : α} (h : l.head? = some a) (f : α → List β)
    (hne : ∀ b ∈ l, f b ≠ [] → b = a) : (l.flatMap f).head? = (f a).head? := by
  cases l with
  | nil => simp at h
  | cons a' l' =>
    simp only [List.head?_cons, Option.some.injEq] at h
    subst h
    rw [head?_flatMap_cons]
    by_cases hfa : f a' = []
    · have : l'.flatMap f = [] := by
        apply flatMap_eq_nil_of_all
        intro b hb
        by_cases hfb : f b = []
        · exact hfb
        · have := hne b (by simp [hb]) hfb
          subst this; exact absurd hfa hfb
      simp [hfa, this]
    · cases hh : f a' with
      | nil => exact absurd hh hfa
      | cons x xs => simp

theorem afterTok_split (s : Str) : afterTok s = sepRun s ++ afterSepS s := by
  simp [sepRun, afterSepS]

theorem afterSepS_split (s : Str) : afterSepS s = multTok s ++ afterMult s := by
  simp [multTok, afterMult]

/-- any successful CHGMULT prefix match decomposes the line by maximal runs (only the multiplicity digits may stop early) -/
theorem chgmult_mem_decomp (hn : NumExt) (s : Str) (y : St) (hy : y ∈ chgmultRe.ms (St.init (toBytes s))) :
    ∃ d r3, d ≠ [] ∧ (∀ c ∈ d, c.isDigit = true) ∧ afterSepS s = d ++ r3 ∧ isNumber (chgTok s) = true ∧ afterTok s ≠ [] := by
  rw [chgmultRe, chgsep_mem hn _ s _ _ rfl] at hy
  obtain ⟨t, sp, r, hs, ht, hsp0, hsp, hy⟩ := hy
  rw [mult_mem r _ _ (afterSep_rest _ t sp r)] at hy
  obtain ⟨d, r3, hd0, rfl, hd, rfl⟩ := hy
  obtain ⟨e1, e2, e3, e4⟩ := decomp_digits hs ht hsp0 hsp hd0 hd
  exact ⟨d, r3, hd0, hd, e3.symm, e1 ▸ ht, e4⟩

theorem xyz2_cond_of_mem (hn : NumExt) (s : Str) (y : St) (hy : y ∈ chgmultRe.ms (St.init (toBytes s))) : Xyz2Cond s := by
  obtain ⟨d, r3, hd0, hd, e3, h1, h2⟩ := chgmult_mem_decomp hn s y hy
  refine ⟨h1, h2, ?_⟩
  unfold multTok
  rw [e3, List.takeWhile_append_of_pos hd]
  intro h
  exact hd0 (List.append_eq_nil_iff.mp h).1

/-- the state after the charge token by maximal runs -/
def M0 (s : Str) : St := afterChg (St.init (toBytes s)) (chgTok s) (afterTok s)
def M2 (s : Str) : St := afterSep (St.init (toBytes s)) (chgTok s) (sepRun s) (afterSepS s)

theorem M2_eq (s : Str) : M2 s = (M0 s).adv (toBytes (sepRun s)) (toBytes (afterSepS s)) := by
  simp only [M2, M0, afterSep, afterTok_split s]

theorem sepPlus_head (s : Str) (h : afterTok s ≠ []) : (sepPlus.ms (M0 s)).head? = some (M2 s) := by
  rw [sepPlus, ms_plus_head, M2_eq]
  have hr : (M0 s).rest = toBytes (afterTok s) := rfl
  rw [hr, takeWhile_toBytes _ _ cls_sep, dropWhile_toBytes _ _ cls_sep]
  have : (toBytes (List.takeWhile isSep (afterTok s))).isEmpty = false := by
    have := sepRun_ne_nil h
    cases hh : toBytes (List.takeWhile isSep (afterTok s)) with
    | nil => exact absurd (toBytes_eq_nil.mp hh) this
    | cons _ _ => rfl
  rw [this]; rfl

theorem G3_head (s : Str) (h : multTok s ≠ []) :
    ((Re.group 3 digits1).ms (M2 s)).head? =
      some (chgmultEnd (St.init (toBytes s)) (chgTok s) (sepRun s) (multTok s) (afterMult s)) := by
  show ((digits1.ms (M2 s)).map (St.capture 3 (M2 s))).head? = _
  rw [List.head?_map, digits1, ms_plus_head]
  have hr : (M2 s).rest = toBytes (afterSepS s) := rfl
  rw [hr, takeWhile_toBytes _ _ cls_digit, dropWhile_toBytes _ _ cls_digit]
  have : (toBytes (List.takeWhile Char.isDigit (afterSepS s))).isEmpty = false := by
    cases hh : toBytes (List.takeWhile Char.isDigit (afterSepS s)) with
    | nil => exact absurd (toBytes_eq_nil.mp hh) h
    | cons _ _ => rfl
  rw [this]
  simp only [Bool.false_eq_true, if_false, Option.map_some, chgmultEnd, M2, ← afterSepS_split s]
  rfl

theorem F_M0_head (s : Str) (h2 : afterTok s ≠ []) (h3 : multTok s ≠ []) :
    ((Re.seq sepPlus (.group 3 digits1)).ms (M0 s)).head? =
      some (chgmultEnd (St.init (toBytes s)) (chgTok s) (sepRun s) (multTok s) (afterMult s)) := by
  show ((sepPlus.ms (M0 s)).flatMap fun m => (Re.group 3 digits1).ms m).head? = _
  rw [head?_flatMap_head (sepPlus_head s h2), G3_head s h3]
  intro b hb hne
  rw [sepPlus, plus_mem_str cls_sep (afterTok s) _ _ rfl] at hb
  obtain ⟨sp, r2, hsp0, hr, hsp, rfl⟩ := hb
  obtain ⟨y, hy⟩ := List.exists_mem_of_ne_nil _ hne
  rw [mult_mem r2 _ _ rfl] at hy
  obtain ⟨d, r3, hd0, rfl, hd, _⟩ := hy
  obtain ⟨d0, d', rfl⟩ : ∃ d0 d', d = d0 :: d' := by
    cases d with
    | nil => exact absurd rfl hd0
    | cons a b => exact ⟨a, b, rfl⟩
  have hstop : (d0 :: d') ++ r3 = [] ∨ ∃ x u, (d0 :: d') ++ r3 = x :: u ∧ isSep x = false :=
    Or.inr ⟨d0, d' ++ r3, rfl, digit_not_sep (hd d0 (by simp))⟩
  have e1 : sepRun s = sp := by unfold sepRun; rw [hr]; exact tw_app sp _ hsp hstop
  have e2 : afterSepS s = (d0 :: d') ++ r3 := by unfold afterSepS; rw [hr]; exact dw_app sp _ hsp hstop
  rw [M2_eq, e1, e2]

theorem xyz2_ms (s : Str) : FromStringRegex.xyz2.ms (St.init (toBytes s)) = chgmultRe.ms (St.init (toBytes s)) := by
  rw [xyz2_shape]
  simp [Re.ms, holdsAt, St.init]

theorem M0_mem (hn : NumExt) (s : Str) (h1 : isNumber (chgTok s) = true) :
    M0 s ∈ (Re.group 1 (.group 2 numberBody)).ms (St.init (toBytes s)) := by
  rw [chg_mem hn s _ _ rfl]
  exact ⟨chgTok s, afterTok s, by simp [chgTok, afterTok], h1, rfl⟩

theorem xyz2_head (hn : NumExt) (s : Str) :
    (FromStringRegex.xyz2.ms (St.init (toBytes s))).head? =
      if Xyz2Cond s then some (chgmultEnd (St.init (toBytes s)) (chgTok s) (sepRun s) (multTok s) (afterMult s)) else none := by
  rw [xyz2_ms]
  by_cases hc : Xyz2Cond s
  · rw [if_pos hc]
    obtain ⟨h1, h2, h3⟩ := hc
    show (((Re.group 1 (.group 2 numberBody)).ms (St.init (toBytes s))).flatMap
      fun m => (Re.seq sepPlus (.group 3 digits1)).ms m).head? = _
    apply head?_flatMap_of_all
    · intro m hm
      by_cases hF : (Re.seq sepPlus (.group 3 digits1)).ms m = []
      · exact Or.inl hF
      · right
        rw [chg_mem hn s _ _ rfl] at hm
        obtain ⟨t, r, hs, ht, rfl⟩ := hm
        obtain ⟨y, hy⟩ := List.exists_mem_of_ne_nil _ hF
        rw [mem_ms_seq] at hy
        obtain ⟨m2, hm2, hy⟩ := hy
        rw [sepPlus, plus_mem_str cls_sep r _ _ rfl] at hm2
        obtain ⟨sp, r2, hsp0, rfl, hsp, rfl⟩ := hm2
        rw [mult_mem r2 _ _ rfl] at hy
        obtain ⟨d, r3, hd0, rfl, hd, _⟩ := hy
        have hs' : s = t ++ sp ++ (d ++ r3) := by rw [hs]; simp
        obtain ⟨e1, e2, e3, _⟩ := decomp_digits hs' ht hsp0 hsp hd0 hd
        have : afterChg (St.init (toBytes s)) t (sp ++ (d ++ r3)) = M0 s := by
          rw [M0, afterTok_split s, ← e1, ← e2, ← e3]
        rw [this]
        exact F_M0_head s h2 h3
    · refine ⟨M0 s, M0_mem hn s h1, ?_⟩
      intro h
      have := F_M0_head s h2 h3
      rw [h] at this
      simp at this
  · rw [if_neg hc]
    have : chgmultRe.ms (St.init (toBytes s)) = [] := by
      apply List.eq_nil_iff_forall_not_mem.mpr
      intro y hy
      exact hc (xyz2_cond_of_mem hn s y hy)
    rw [this]; rfl

theorem xyz2Re_eq (hn : NumExt) (s : Str) : xyz2Re s = if Xyz2Cond s then some (chgTok s, multTok s) else none := by
  unfold xyz2Re
  rw [matchPrefix_eq_head, xyz2_head hn s]
  by_cases h : Xyz2Cond s
  · rw [if_pos h, if_pos h]
    have hs : s = chgTok s ++ sepRun s ++ (multTok s ++ afterMult s) := by
      rw [← afterSepS_split]; exact decomp_s s
    simp only [Option.bind_some, xyz2_groups.1, xyz2_groups.2, chgmultEnd_chg' s _ _ _ _ hs, chgmultEnd_mult' s _ _ _ _ hs]
  · rw [if_neg h, if_neg h]; rfl

theorem xyz2_eq_regex_of (hn : NumExt) (s : Str) : xyz2Re s = xyz2Hand s := by
  rw [xyz2Re_eq hn, xyz2Hand_eq]


end QcelVerif.MolText
