import QcelVerif.Lemmas.C07ReXyz1
import QcelVerif.Lemmas.C07ReChgmult
/-! bohrang = `\Aunits?[\s=]+((?P<ubohr>(bohr|au|a.u.))|(?P<uang>(ang|angstrom)))\Z` under IGNORECASE, read as `process_bohrang` reads it
(`if group("uang"): Angstrom elif group("ubohr"): Bohr`), = M1's `classify` answering `.units`, for every line without a newline.

Route: every way the generated AST matches cuts the line into the keyword, the optional `s`, a `[\s=]` run and a unit word matched up
to `\Z` (`bohrang_decomp`), the unit word being one M1's `classifyUnits` accepts with the same answer (`unitsG_sound`; backtracking
over the optional `s` and over shorter `[\s=]` runs is harmless because a unit word starts with `a` or `b`, `HeadAB`); on such a line the
token branches of `classify` cannot fire (`classify_kw`: a field starting `unit` is neither a NUCLEUS nor a NUMBER) and
`classifyRest` reaches `classifyUnits` (`classifyRest_units_of`).  Conversely `.units` can only come from `classifyUnits`
(`classify_units_inv`, `classifyRest_units_inv`, `classifyUnits_inv`) and such a line is matched (`bohrang_complete`,
`unitsG_complete` — here the dots of `a.u.` need "no newline").  No length bounds. -/
namespace QcelVerif.MolText
open QcelVerif.Regex QcelVerif.Gen

/-! ## stages -/
def ciL (k : Nat) : Re := .cls false [.ch k, .ch (k - 32)]
def dotNN : Re := .cls true [.ch 10]
def optS : Re := .rep 0 (some 1) true (ciL 115)
def wsEq1 : Re := .rep 1 none true (.cls false [.space, .ch 61])
def wordADotUDot : Re := .seq (ciL 97) (.seq dotNN (.seq (ciL 117) dotNN))
def strom : Re := .seq (ciL 115) (.seq (ciL 116) (.seq (ciL 114) (.seq (ciL 111) (ciL 109))))
def wordAngstromQ : Re := .seq (ciL 97) (.seq (ciL 110) (.seq (ciL 103) (.alt .eps strom)))
def unitsG : Re :=
  .group 1 (.alt (.group 2 (.group 3 (.alt wordBohr (.alt wordAu wordADotUDot)))) (.group 4 (.group 5 wordAngstromQ)))

theorem bohrang_shape : FromStringRegex.bohrang =
    .seq .bos (.seq (ciL 117) (.seq (ciL 110) (.seq (ciL 105) (.seq (ciL 116) (.seq optS (.seq wsEq1 (.seq unitsG .eos))))))) := rfl
theorem bohrang_groups : FromStringRegex.bohrangG.ubohr = 2 ∧ FromStringRegex.bohrangG.uang = 4 := ⟨rfl, rfl⟩

theorem mem_ciL (k : Nat) (hk : 97 ≤ k ∧ k ≤ 122) {st x : St} {U : Str} (hU : st.rest = toBytes U) :
    x ∈ (ciL k).ms st ↔
      ∃ C T, U = C :: T ∧ C.toLower.toNat = k ∧ x = { st with prev := some C.toNat, rest := toBytes T } := mem_ci k hk hU

theorem mem_dot {st x : St} {U : Str} (hU : st.rest = toBytes U) :
    x ∈ dotNN.ms st ↔ ∃ C T, U = C :: T ∧ C ≠ '\n' ∧ x = { st with prev := some C.toNat, rest := toBytes T } := by
  rw [dotNN, mem_ms_cls]
  constructor
  · rintro ⟨c, t, h1, h2, rfl⟩
    rw [hU] at h1
    cases U with
    | nil => simp at h1
    | cons C T =>
      simp only [toBytes_cons, List.cons.injEq] at h1
      obtain ⟨rfl, rfl⟩ := h1
      rw [cls_not_ch] at h2
      refine ⟨C, T, rfl, ?_, rfl⟩
      rintro rfl
      simp at h2
  · rintro ⟨C, T, rfl, h2, rfl⟩
    refine ⟨C.toNat, toBytes T, by simpa using hU, ?_, rfl⟩
    rw [cls_not_ch]
    simp only [bne_iff_ne, ne_eq]
    intro h
    exact h2 (toNat_inj h)

theorem wordADot_sound {st x : St} {U : Str} (hU : st.rest = toBytes U) (hx : x ∈ wordADotUDot.ms st) (hr : x.rest = []) :
    (∃ c d, lowerS U = ['a', c, 'u', d]) ∧ x.caps = st.caps := by
  unfold wordADotUDot at hx
  obtain ⟨m1, h1, hx⟩ := mem_ms_seq.mp hx
  obtain ⟨C1, T1, rfl, e1, rfl⟩ := (mem_ciL 97 (by omega) hU).mp h1
  obtain ⟨m2, h2, hx⟩ := mem_ms_seq.mp hx
  obtain ⟨C2, T2, rfl, e2, rfl⟩ := (mem_dot rfl).mp h2
  obtain ⟨m3, h3, hx⟩ := mem_ms_seq.mp hx
  obtain ⟨C3, T3, rfl, e3, rfl⟩ := (mem_ciL 117 (by omega) rfl).mp h3
  obtain ⟨C4, T4, rfl, e4, rfl⟩ := (mem_dot rfl).mp hx
  have hT : T4 = [] := toBytes_eq_nil.mp hr
  subst hT
  refine ⟨?_, rfl⟩
  have f1 : C1.toLower = 'a' := toNat_inj e1
  have f3 : C3.toLower = 'u' := toNat_inj e3
  exact ⟨C2.toLower, C4.toLower, by simp [lowerS, f1, f3]⟩

theorem wordADot_complete {st : St} {U : Str} (hU : st.rest = toBytes U) (h : ∃ c d, lowerS U = ['a', c, 'u', d])
    (hnl : ∀ c ∈ U, c ≠ '\n') : ∃ x, x ∈ wordADotUDot.ms st ∧ x.rest = [] ∧ x.caps = st.caps := by
  obtain ⟨c, d, h⟩ := h
  match U, h with
  | [C1, C2, C3, C4], h =>
    simp [lowerS] at h
    obtain ⟨f1, _, f3, _⟩ := h
    unfold wordADotUDot
    refine ⟨{ st with prev := some C4.toNat, rest := [] }, ?_, rfl, rfl⟩
    refine mem_ms_seq.mpr ⟨_, (mem_ciL 97 (by omega) hU).mpr ⟨C1, _, rfl, by rw [f1]; rfl, rfl⟩, ?_⟩
    refine mem_ms_seq.mpr ⟨_, (mem_dot rfl).mpr ⟨C2, _, rfl, hnl C2 (by simp), rfl⟩, ?_⟩
    refine mem_ms_seq.mpr ⟨_, (mem_ciL 117 (by omega) rfl).mpr ⟨C3, _, rfl, by rw [f3]; rfl, rfl⟩, ?_⟩
    exact (mem_dot rfl).mpr ⟨C4, _, rfl, hnl C4 (by simp), rfl⟩
  | [], h => simp [lowerS] at h
  | [_], h => simp [lowerS] at h
  | [_, _], h => simp [lowerS] at h
  | [_, _, _], h => simp [lowerS] at h
  | _ :: _ :: _ :: _ :: _ :: _, h => simp [lowerS] at h

theorem wordAngstromQ_sound {st x : St} {U : Str} (hU : st.rest = toBytes U) (hx : x ∈ wordAngstromQ.ms st) (hr : x.rest = []) :
    (lowerS U = "ang".toList ∨ lowerS U = "angstrom".toList) ∧ x.caps = st.caps := by
  unfold wordAngstromQ at hx
  obtain ⟨m1, h1, hx⟩ := mem_ms_seq.mp hx
  obtain ⟨C1, T1, rfl, e1, rfl⟩ := (mem_ciL 97 (by omega) hU).mp h1
  obtain ⟨m2, h2, hx⟩ := mem_ms_seq.mp hx
  obtain ⟨C2, T2, rfl, e2, rfl⟩ := (mem_ciL 110 (by omega) rfl).mp h2
  obtain ⟨m3, h3, hx⟩ := mem_ms_seq.mp hx
  obtain ⟨C3, T3, rfl, e3, rfl⟩ := (mem_ciL 103 (by omega) rfl).mp h3
  have f1 : C1.toLower = 'a' := toNat_inj e1
  have f2 : C2.toLower = 'n' := toNat_inj e2
  have f3 : C3.toLower = 'g' := toNat_inj e3
  rcases mem_ms_alt.mp hx with hx | hx
  · have := mem_ms_eps.mp hx
    subst this
    have hT : T3 = [] := toBytes_eq_nil.mp hr
    subst hT
    exact ⟨Or.inl (by simp [lowerS, f1, f2, f3]), rfl⟩
  · unfold strom at hx
    obtain ⟨m4, h4, hx⟩ := mem_ms_seq.mp hx
    obtain ⟨C4, T4, rfl, e4, rfl⟩ := (mem_ciL 115 (by omega) rfl).mp h4
    obtain ⟨m5, h5, hx⟩ := mem_ms_seq.mp hx
    obtain ⟨C5, T5, rfl, e5, rfl⟩ := (mem_ciL 116 (by omega) rfl).mp h5
    obtain ⟨m6, h6, hx⟩ := mem_ms_seq.mp hx
    obtain ⟨C6, T6, rfl, e6, rfl⟩ := (mem_ciL 114 (by omega) rfl).mp h6
    obtain ⟨m7, h7, hx⟩ := mem_ms_seq.mp hx
    obtain ⟨C7, T7, rfl, e7, rfl⟩ := (mem_ciL 111 (by omega) rfl).mp h7
    obtain ⟨C8, T8, rfl, e8, rfl⟩ := (mem_ciL 109 (by omega) rfl).mp hx
    have hT : T8 = [] := toBytes_eq_nil.mp hr
    subst hT
    have f4 : C4.toLower = 's' := toNat_inj e4
    have f5 : C5.toLower = 't' := toNat_inj e5
    have f6 : C6.toLower = 'r' := toNat_inj e6
    have f7 : C7.toLower = 'o' := toNat_inj e7
    have f8 : C8.toLower = 'm' := toNat_inj e8
    exact ⟨Or.inr (by simp [lowerS, f1, f2, f3, f4, f5, f6, f7, f8]), rfl⟩

theorem wordAngstromQ_complete {st : St} {U : Str} (hU : st.rest = toBytes U)
    (h : lowerS U = "ang".toList ∨ lowerS U = "angstrom".toList) :
    ∃ x, x ∈ wordAngstromQ.ms st ∧ x.rest = [] ∧ x.caps = st.caps := by
  rcases h with h | h
  · match U, h with
    | [C1, C2, C3], h =>
      simp [lowerS] at h
      obtain ⟨f1, f2, f3⟩ := h
      unfold wordAngstromQ
      refine ⟨{ st with prev := some C3.toNat, rest := [] }, ?_, rfl, rfl⟩
      refine mem_ms_seq.mpr ⟨_, (mem_ciL 97 (by omega) hU).mpr ⟨C1, _, rfl, by rw [f1]; rfl, rfl⟩, ?_⟩
      refine mem_ms_seq.mpr ⟨_, (mem_ciL 110 (by omega) rfl).mpr ⟨C2, _, rfl, by rw [f2]; rfl, rfl⟩, ?_⟩
      refine mem_ms_seq.mpr ⟨_, (mem_ciL 103 (by omega) rfl).mpr ⟨C3, _, rfl, by rw [f3]; rfl, rfl⟩, ?_⟩
      exact mem_ms_alt.mpr (Or.inl (mem_ms_eps.mpr rfl))
    | [], h => simp [lowerS] at h
    | [_], h => simp [lowerS] at h
    | [_, _], h => simp [lowerS] at h
    | _ :: _ :: _ :: _ :: _, h => simp [lowerS] at h
  · match U, h with
    | [C1, C2, C3, C4, C5, C6, C7, C8], h =>
      simp [lowerS] at h
      obtain ⟨f1, f2, f3, f4, f5, f6, f7, f8⟩ := h
      unfold wordAngstromQ strom
      refine ⟨{ st with prev := some C8.toNat, rest := [] }, ?_, rfl, rfl⟩
      refine mem_ms_seq.mpr ⟨_, (mem_ciL 97 (by omega) hU).mpr ⟨C1, _, rfl, by rw [f1]; rfl, rfl⟩, ?_⟩
      refine mem_ms_seq.mpr ⟨_, (mem_ciL 110 (by omega) rfl).mpr ⟨C2, _, rfl, by rw [f2]; rfl, rfl⟩, ?_⟩
      refine mem_ms_seq.mpr ⟨_, (mem_ciL 103 (by omega) rfl).mpr ⟨C3, _, rfl, by rw [f3]; rfl, rfl⟩, ?_⟩
      refine mem_ms_alt.mpr (Or.inr ?_)
      refine mem_ms_seq.mpr ⟨_, (mem_ciL 115 (by omega) rfl).mpr ⟨C4, _, rfl, by rw [f4]; rfl, rfl⟩, ?_⟩
      refine mem_ms_seq.mpr ⟨_, (mem_ciL 116 (by omega) rfl).mpr ⟨C5, _, rfl, by rw [f5]; rfl, rfl⟩, ?_⟩
      refine mem_ms_seq.mpr ⟨_, (mem_ciL 114 (by omega) rfl).mpr ⟨C6, _, rfl, by rw [f6]; rfl, rfl⟩, ?_⟩
      refine mem_ms_seq.mpr ⟨_, (mem_ciL 111 (by omega) rfl).mpr ⟨C7, _, rfl, by rw [f7]; rfl, rfl⟩, ?_⟩
      exact (mem_ciL 109 (by omega) rfl).mpr ⟨C8, _, rfl, by rw [f8]; rfl, rfl⟩
    | [], h => simp [lowerS] at h
    | [_], h => simp [lowerS] at h
    | [_, _], h => simp [lowerS] at h
    | [_, _, _], h => simp [lowerS] at h
    | [_, _, _, _], h => simp [lowerS] at h
    | [_, _, _, _, _], h => simp [lowerS] at h
    | [_, _, _, _, _, _], h => simp [lowerS] at h
    | [_, _, _, _, _, _, _], h => simp [lowerS] at h
    | _ :: _ :: _ :: _ :: _ :: _ :: _ :: _ :: _ :: _, h => simp [lowerS] at h

/-! ## the hand recogniser of the unit word (on the lower-cased text) -/

def dropS (r : Str) : Str := match r with | 's' :: r' => r' | _ => r

def unitWordHand (u : Str) : Option Bool :=
  if u == "bohr".toList || u == "au".toList then some true
  else if u == "ang".toList || u == "angstrom".toList then some false
  else match u with
    | ['a', _, 'u', _] => some true
    | _ => none

theorem classifyUnits_unit (r : Str) :
    classifyUnits ('u' :: 'n' :: 'i' :: 't' :: r) = (match afterKw (dropS r) with | none => none | some u => unitWordHand u) := rfl

theorem classifyUnits_shape {l : Str} {b : Bool} (h : classifyUnits l = some b) : ∃ r, l = 'u' :: 'n' :: 'i' :: 't' :: r := by
  unfold classifyUnits at h
  split at h
  · exact ⟨_, rfl⟩
  · cases h

theorem dropS_ne (c : Char) (r : Str) (h : c ≠ 's') : dropS (c :: r) = c :: r := by
  unfold dropS
  split
  · rename_i h2; injection h2 with h2; exact absurd h2 h
  · rfl

theorem uw_bohr : unitWordHand "bohr".toList = some true := rfl
theorem uw_au : unitWordHand "au".toList = some true := rfl
theorem uw_ang : unitWordHand "ang".toList = some false := rfl
theorem uw_angstrom : unitWordHand "angstrom".toList = some false := rfl
theorem uw_adot (c d : Char) : unitWordHand ['a', c, 'u', d] = some true := by
  unfold unitWordHand
  simp

theorem uw_cases {u : Str} (h : unitWordHand u ≠ none) :
    u = "bohr".toList ∨ u = "au".toList ∨ (∃ c d, u = ['a', c, 'u', d]) ∨ u = "ang".toList ∨ u = "angstrom".toList := by
  unfold unitWordHand at h
  split at h
  · rename_i h1; simp at h1; rcases h1 with h1 | h1
    · exact Or.inl h1
    · exact Or.inr (Or.inl h1)
  · split at h
    · rename_i h1; simp at h1; rcases h1 with h1 | h1
      · exact Or.inr (Or.inr (Or.inr (Or.inl h1)))
      · exact Or.inr (Or.inr (Or.inr (Or.inr h1)))
    · split at h
      · exact Or.inr (Or.inr (Or.inl ⟨_, _, rfl⟩))
      · exact absurd rfl h

/-! ## the unit group followed by `\Z` -/

/-- what `process_bohrang` reads off a match -/
def bohrangOf (st : St) : Option Bool :=
  if truthy st 4 then some false else if truthy st 2 then some true else none

/-- the first character of a unit word: a letter `a` or `b` -/
def HeadAB (U : Str) : Prop := ∃ C T, U = C :: T ∧ (C.toLower = 'a' ∨ C.toLower = 'b')

theorem headAB_of_lower {U : Str} {c : Char} {t : Str} (h : lowerS U = c :: t) (hc : c = 'a' ∨ c = 'b') : HeadAB U := by
  cases U with
  | nil => simp [lowerS] at h
  | cons C T =>
    simp only [lowerS, List.map_cons, List.cons.injEq] at h
    exact ⟨C, T, rfl, by rw [h.1]; exact hc⟩

theorem unitsG_sound {m x : St} {U : Str} (hU : m.rest = toBytes U) (hc : m.caps = [])
    (hx : x ∈ unitsG.ms m) (hr : x.rest = []) :
    unitWordHand (lowerS U) = bohrangOf x ∧ bohrangOf x ≠ none ∧ HeadAB U := by
  rw [unitsG] at hx
  obtain ⟨y, hy, rfl⟩ := mem_ms_group.mp hx
  rcases mem_ms_alt.mp hy with hy | hy
  · obtain ⟨y2, hy2, rfl⟩ := mem_ms_group.mp hy
    obtain ⟨y3, hy3, rfl⟩ := mem_ms_group.mp hy2
    have hr' : y3.rest = [] := hr
    have key : ∀ (hl : unitWordHand (lowerS U) = some true) (hcaps : y3.caps = m.caps) (hh : HeadAB U),
        unitWordHand (lowerS U) = bohrangOf (St.capture 1 m (St.capture 2 m (St.capture 3 m y3))) ∧
        bohrangOf (St.capture 1 m (St.capture 2 m (St.capture 3 m y3))) ≠ none ∧ HeadAB U := by
      intro hl hcaps hh
      obtain ⟨C, T, rfl, _⟩ := hh
      have : bohrangOf (St.capture 1 m (St.capture 2 m (St.capture 3 m y3))) = some true := by
        simp [bohrangOf, truthy, St.group, List.lookup, hcaps, hc, hr', hU, takeDiff_nil]
      rw [this, hl]
      exact ⟨rfl, by simp, ⟨C, T, rfl, by assumption⟩⟩
    rcases mem_ms_alt.mp hy3 with hw | hw
    · obtain ⟨hl, hcaps⟩ := wordBohr_sound hU hw hr'
      exact key (by rw [hl]; rfl) hcaps (headAB_of_lower hl (Or.inr rfl))
    · rcases mem_ms_alt.mp hw with hw | hw
      · obtain ⟨hl, hcaps⟩ := wordAu_sound hU hw hr'
        exact key (by rw [hl]; rfl) hcaps (headAB_of_lower hl (Or.inl rfl))
      · obtain ⟨⟨c, d, hl⟩, hcaps⟩ := wordADot_sound hU hw hr'
        exact key (by rw [hl]; exact uw_adot c d) hcaps (headAB_of_lower hl (Or.inl rfl))
  · obtain ⟨y4, hy4, rfl⟩ := mem_ms_group.mp hy
    obtain ⟨y5, hy5, rfl⟩ := mem_ms_group.mp hy4
    have hr' : y5.rest = [] := hr
    obtain ⟨hl, hcaps⟩ := wordAngstromQ_sound hU hy5 hr'
    have hh : HeadAB U := by
      rcases hl with hl | hl
      · exact headAB_of_lower hl (Or.inl rfl)
      · exact headAB_of_lower hl (Or.inl rfl)
    have hl' : unitWordHand (lowerS U) = some false := by
      rcases hl with hl | hl <;> rw [hl] <;> rfl
    obtain ⟨C, T, rfl, hCT⟩ := hh
    have : bohrangOf (St.capture 1 m (St.capture 4 m (St.capture 5 m y5))) = some false := by
      simp [bohrangOf, truthy, St.group, List.lookup, hcaps, hc, hr', hU, takeDiff_nil]
    rw [this, hl']
    exact ⟨rfl, by simp, ⟨C, T, rfl, hCT⟩⟩

theorem unitsG_complete {m : St} {U : Str} (hU : m.rest = toBytes U) (h : unitWordHand (lowerS U) ≠ none)
    (hnl : ∀ c ∈ U, c ≠ '\n') : ∃ x, x ∈ unitsG.ms m ∧ x.rest = [] := by
  rw [unitsG]
  simp only [mem_ms_group, mem_ms_alt]
  rcases uw_cases h with h1 | h1 | h1 | h1 | h1
  · obtain ⟨y, hy, hyr, _⟩ := wordBohr_complete hU h1
    exact ⟨_, ⟨_, Or.inl ⟨_, ⟨_, Or.inl hy, rfl⟩, rfl⟩, rfl⟩, hyr⟩
  · obtain ⟨y, hy, hyr, _⟩ := wordAu_complete hU h1
    exact ⟨_, ⟨_, Or.inl ⟨_, ⟨_, Or.inr (Or.inl hy), rfl⟩, rfl⟩, rfl⟩, hyr⟩
  · obtain ⟨y, hy, hyr, _⟩ := wordADot_complete hU h1 hnl
    exact ⟨_, ⟨_, Or.inl ⟨_, ⟨_, Or.inr (Or.inr hy), rfl⟩, rfl⟩, rfl⟩, hyr⟩
  · obtain ⟨y, hy, hyr, _⟩ := wordAngstromQ_complete hU (Or.inl h1)
    exact ⟨_, ⟨_, Or.inr ⟨_, ⟨_, hy, rfl⟩, rfl⟩, rfl⟩, hyr⟩
  · obtain ⟨y, hy, hyr, _⟩ := wordAngstromQ_complete hU (Or.inr h1)
    exact ⟨_, ⟨_, Or.inr ⟨_, ⟨_, hy, rfl⟩, rfl⟩, rfl⟩, hyr⟩

/-! ## characters -/

theorem ci_ge {c : Char} {k : Nat} (hk : 97 ≤ k) (h : c.toLower.toNat = k) : 65 ≤ c.toNat := by
  rw [toLower_nat] at h
  split at h <;> omega

theorem hi_wsEq (c : Char) (h : 65 ≤ c.toNat) : isWsEq c = false := by
  rw [← cls_wsEq]
  simp only [clsMem, Item.mem, isSpaceC, List.any_cons, List.any_nil, Bool.or_false]
  simp; omega

theorem hi_sep (c : Char) (h : 65 ≤ c.toNat) : isSep c = false := by
  rw [isSep_nat]
  simp; omega

theorem hi_mant (c : Char) (h : 65 ≤ c.toNat) : isMantChar c = false := by
  have hd : c.isDigit = false := (upper_not_wsComma_digit c h).2
  simp only [isMantChar, hd, beq_lit, Char.reduceToNat]
  simp; omega

theorem isWsEq_lower (c : Char) : isWsEq c.toLower = isWsEq c := by
  by_cases h : 65 ≤ c.toNat ∧ c.toNat ≤ 90
  · have h2 : 65 ≤ c.toLower.toNat := by rw [toLower_nat, if_pos h]; omega
    rw [hi_wsEq _ h2, hi_wsEq _ h.1]
  · have : c.toLower = c := toNat_inj (by rw [toLower_nat, if_neg h])
    rw [this]

theorem lower_of_wsEq {c : Char} (h : isWsEq c = true) : c.toLower = c := by
  by_cases h2 : 65 ≤ c.toNat ∧ c.toNat ≤ 90
  · rw [hi_wsEq _ h2.1] at h; cases h
  · exact toNat_inj (by rw [toLower_nat, if_neg h2])

theorem dropWhile_lower (R : Str) : (lowerS R).dropWhile isWsEq = lowerS (R.dropWhile isWsEq) := by
  induction R with
  | nil => rfl
  | cons c t ih =>
    simp only [lowerS, List.map_cons, List.dropWhile_cons, isWsEq_lower]
    cases isWsEq c
    · simp
    · simpa [lowerS] using ih

theorem letter_alpha {c : Char} {k : Nat} (hk : 97 ≤ k ∧ k ≤ 122) (h : c.toLower.toNat = k) : c.isAlpha = true := by
  rw [isAlpha_nat]
  rw [toLower_nat] at h
  simp only [isAlphaC, Bool.or_eq_true, Bool.and_eq_true, decide_eq_true_eq]
  split at h <;> omega

theorem parseNumber_kw (C : Char) (F : Str) (h : 65 ≤ C.toNat) : parseNumber (C :: F) = none := by
  simp [parseNumber, hi_mant C h, parseMant]

theorem parseNucleus_kw (C1 C2 C3 C4 : Char) (F : Str) (h1 : C1.toLower = 'u') (h2 : C2.toLower = 'n') (h3 : C3.toLower = 'i')
    (h4 : C4.toLower = 't') : parseNucleus (C1 :: C2 :: C3 :: C4 :: F) = none := by
  have g1 : 65 ≤ C1.toNat := ci_ge (k := 117) (by omega) (by rw [h1]; rfl)
  have g2 : 65 ≤ C2.toNat := ci_ge (k := 110) (by omega) (by rw [h2]; rfl)
  have g3 : 65 ≤ C3.toNat := ci_ge (k := 105) (by omega) (by rw [h3]; rfl)
  have g4 : 65 ≤ C4.toNat := ci_ge (k := 116) (by omega) (by rw [h4]; rfl)
  have a1 : C1.isAlpha = true := letter_alpha (k := 117) (by omega) (by rw [h1]; rfl)
  have a2 : C2.isAlpha = true := letter_alpha (k := 110) (by omega) (by rw [h2]; rfl)
  have a3 : C3.isAlpha = true := letter_alpha (k := 105) (by omega) (by rw [h3]; rfl)
  have a4 : C4.isAlpha = true := letter_alpha (k := 116) (by omega) (by rw [h4]; rfl)
  have d1 : C1.isDigit = false := (upper_not_wsComma_digit C1 g1).2
  have n1 : (C1 != '@') = true := by rw [bne_iff_ne]; rintro rfl; simp at g1
  have n2 : (C2 != '@') = true := by rw [bne_iff_ne]; rintro rfl; simp at g2
  have n3 : (C3 != '@') = true := by rw [bne_iff_ne]; rintro rfl; simp at g3
  have n4 : (C4 != '@') = true := by rw [bne_iff_ne]; rintro rfl; simp at g4
  have e1 : (C1 == '@') = false := by simpa [bne] using n1
  have hg : isGhPrefix (C1 :: C2 :: C3 :: C4 :: F) = false := by
    simp [isGhPrefix, h1]
  simp only [parseNucleus, e1, hg, Bool.false_eq_true, if_false]
  unfold parseCore
  simp only [List.takeWhile_cons, n1, n2, n3, n4, if_true]
  cases parseMass (List.dropWhile (fun x => x != '@') (C1 :: C2 :: C3 :: C4 :: F)) with
  | none => rfl
  | some mass =>
    simp [d1, a1, a2, a3, a4]

theorem classify_kw (C1 C2 C3 C4 : Char) (R : Str) (h1 : C1.toLower = 'u') (h2 : C2.toLower = 'n') (h3 : C3.toLower = 'i')
    (h4 : C4.toLower = 't') : classify (C1 :: C2 :: C3 :: C4 :: R) = classifyRest (C1 :: C2 :: C3 :: C4 :: R) := by
  have g1 : 65 ≤ C1.toNat := ci_ge (k := 117) (by omega) (by rw [h1]; rfl)
  have g2 : 65 ≤ C2.toNat := ci_ge (k := 110) (by omega) (by rw [h2]; rfl)
  have g3 : 65 ≤ C3.toNat := ci_ge (k := 105) (by omega) (by rw [h3]; rfl)
  have g4 : 65 ≤ C4.toNat := ci_ge (k := 116) (by omega) (by rw [h4]; rfl)
  have hsp : splitSep (C1 :: C2 :: C3 :: C4 :: R) = (C1 :: C2 :: C3 :: C4 :: R.takeWhile nsep) ::
      (if (C1 :: C2 :: C3 :: C4 :: R).dropWhile nsep = [] then [] else splitSep (((C1 :: C2 :: C3 :: C4 :: R).dropWhile nsep).dropWhile isSep)) := by
    rw [splitSep_unfold]
    simp [nsep, hi_sep _ g1, hi_sep _ g2, hi_sep _ g3, hi_sep _ g4]
  unfold classify
  rw [hsp]
  generalize (if (C1 :: C2 :: C3 :: C4 :: R).dropWhile nsep = [] then [] else
    splitSep (((C1 :: C2 :: C3 :: C4 :: R).dropWhile nsep).dropWhile isSep)) = T
  have hnum := parseNumber_kw C1 (C2 :: C3 :: C4 :: R.takeWhile nsep) g1
  have hnuc := parseNucleus_kw C1 C2 C3 C4 (R.takeWhile nsep) h1 h2 h3 h4
  rcases T with _ | ⟨b, _ | ⟨c, _ | ⟨d, _ | ⟨e, T⟩⟩⟩⟩
  · simp
  · simp [hnum]
  · simp
  · simp [hnuc]
  · simp

theorem classify_units_inv {s : Str} {b : Bool} (h : classify s = .units b) : classifyRest s = .units b := by
  unfold classify at h
  split at h
  · cases h
  · split at h
    · split at h
      · cases h
      · exact h
    · split at h
      · split at h
        · cases h
        · exact h
      · exact h
    · exact h

theorem classifyRest_units_inv {s : Str} {b : Bool} (h : classifyRest s = .units b) : classifyUnits (lowerS s) = some b := by
  unfold classifyRest at h
  dsimp only at h
  split at h
  · cases h
  split at h
  · cases h
  split at h
  · cases h
  split at h
  · cases h
  split at h
  · rename_i b' hb
    injection h with h
    rw [hb, h]
  split at h
  · cases h
  split at h
  · split at h <;> cases h
  · split at h
    · split at h <;> cases h
    · cases h
  · cases h

theorem classifyRest_units_of (C : Char) (R : Str) (hC : C.toLower = 'u') {b : Bool} (h : classifyUnits (lowerS (C :: R)) = some b) :
    classifyRest (C :: R) = .units b := by
  have hC' : C ≠ '-' := by rintro rfl; simp at hC
  simp only [lowerS, List.map_cons, hC] at h
  unfold classifyRest
  simp [h, lowerS, hC, hC']

/-- the optional `s` of `units?` -/
def OptS (S : Str) : Prop := S = [] ∨ ∃ c, S = [c] ∧ c.toLower = 's'

theorem headAB_not {U : Str} (h : HeadAB U) : ∃ C T, U = C :: T ∧ isWsEq C = false ∧ C.toLower ≠ 's' := by
  obtain ⟨C, T, rfl, hC⟩ := h
  refine ⟨C, T, rfl, ?_, ?_⟩
  · apply hi_wsEq
    rcases hC with hC | hC
    · exact ci_ge (k := 97) (by omega) (by rw [hC]; rfl)
    · exact ci_ge (k := 98) (by omega) (by rw [hC]; rfl)
  · rcases hC with hC | hC <;> rw [hC] <;> decide

/-- M1's `classifyUnits` on a line cut as the regex cuts it -/
theorem classifyUnits_decomp (C1 C2 C3 C4 : Char) (S W U : Str) (h1 : C1.toLower = 'u') (h2 : C2.toLower = 'n')
    (h3 : C3.toLower = 'i') (h4 : C4.toLower = 't') (hS : OptS S) (hW0 : W ≠ []) (hW : ∀ c ∈ W, isWsEq c = true) (hU : HeadAB U) :
    classifyUnits (lowerS (C1 :: C2 :: C3 :: C4 :: (S ++ (W ++ U)))) = unitWordHand (lowerS U) := by
  obtain ⟨C, T, rfl, hCw, hCs⟩ := headAB_not hU
  obtain ⟨w, W', rfl⟩ : ∃ w W', W = w :: W' := by
    cases W with
    | nil => exact absurd rfl hW0
    | cons a b => exact ⟨a, b, rfl⟩
  have hw : isWsEq w = true := hW w (by simp)
  have hwl : w.toLower = w := lower_of_wsEq hw
  have hdrop : dropS (lowerS (S ++ (w :: W' ++ C :: T))) = lowerS (w :: W' ++ C :: T) := by
    rcases hS with rfl | ⟨c, rfl, hc⟩
    · simp only [List.nil_append, lowerS, List.map_cons, List.cons_append, hwl]
      apply dropS_ne
      rintro rfl
      exact absurd hw (by decide)
    · simp only [lowerS, List.map_cons, List.cons_append, List.nil_append, hc]
      rfl
  have hak : afterKw (lowerS (w :: W' ++ C :: T)) = some (lowerS (C :: T)) := by
    have hd := dropWhile_lower (w :: W' ++ C :: T)
    have := (takeDrop_stop (p := isWsEq) (A := w :: W') (R := C :: T) hW (by
      intro c t h; injection h with h _; subst h; exact hCw)).2
    rw [this] at hd
    simp only [lowerS, List.cons_append, List.map_cons] at hd ⊢
    simp only [afterKw, isWsEq_lower, hw, if_true]
    rw [hd]
  have : lowerS (C1 :: C2 :: C3 :: C4 :: (S ++ (w :: W' ++ C :: T))) = 'u' :: 'n' :: 'i' :: 't' :: lowerS (S ++ (w :: W' ++ C :: T)) := by
    simp [lowerS, h1, h2, h3, h4]
  rw [this, classifyUnits_unit, hdrop, hak]

theorem lowerS_cons_inv {s : Str} {c : Char} {r : Str} (h : lowerS s = c :: r) : ∃ C R, s = C :: R ∧ C.toLower = c ∧ lowerS R = r := by
  cases s with
  | nil => simp [lowerS] at h
  | cons C R =>
    simp only [lowerS, List.map_cons, List.cons.injEq] at h
    exact ⟨C, R, rfl, h.1, h.2⟩

/-- conversely: what `classifyUnits` accepts is cut that way -/
theorem classifyUnits_inv {s : Str} {b : Bool} (h : classifyUnits (lowerS s) = some b) :
    ∃ C1 C2 C3 C4 S W U, s = C1 :: C2 :: C3 :: C4 :: (S ++ (W ++ U)) ∧ C1.toLower = 'u' ∧ C2.toLower = 'n' ∧ C3.toLower = 'i' ∧
      C4.toLower = 't' ∧ OptS S ∧ W ≠ [] ∧ (∀ c ∈ W, isWsEq c = true) ∧ unitWordHand (lowerS U) = some b := by
  obtain ⟨r, hr⟩ := classifyUnits_shape h
  obtain ⟨C1, R1, rfl, h1, hr⟩ := lowerS_cons_inv hr
  obtain ⟨C2, R2, rfl, h2, hr⟩ := lowerS_cons_inv hr
  obtain ⟨C3, R3, rfl, h3, hr⟩ := lowerS_cons_inv hr
  obtain ⟨C4, R, rfl, h4, hr⟩ := lowerS_cons_inv hr
  have hl : lowerS (C1 :: C2 :: C3 :: C4 :: R) = 'u' :: 'n' :: 'i' :: 't' :: lowerS R := by
    simp [lowerS, h1, h2, h3, h4]
  rw [hl, classifyUnits_unit] at h
  -- the optional `s`
  have hS : ∃ S R', R = S ++ R' ∧ OptS S ∧ dropS (lowerS R) = lowerS R' := by
    cases R with
    | nil => exact ⟨[], [], rfl, Or.inl rfl, rfl⟩
    | cons c R' =>
      by_cases hc : c.toLower = 's'
      · exact ⟨[c], R', rfl, Or.inr ⟨c, rfl, hc⟩, by simp only [lowerS, List.map_cons, hc]; rfl⟩
      · exact ⟨[], c :: R', rfl, Or.inl rfl, by simp only [lowerS, List.map_cons]; exact dropS_ne _ _ hc⟩
  obtain ⟨S, R', rfl, hS, hd⟩ := hS
  rw [hd] at h
  cases R' with
  | nil => simp [lowerS, afterKw] at h
  | cons d R'' =>
    by_cases hdw : isWsEq d = true
    · have hak : afterKw (lowerS (d :: R'')) = some (lowerS ((d :: R'').dropWhile isWsEq)) := by
        rw [← dropWhile_lower]
        simp only [lowerS, List.map_cons, afterKw, isWsEq_lower, hdw, if_true]
      rw [hak] at h
      refine ⟨C1, C2, C3, C4, S, (d :: R'').takeWhile isWsEq, (d :: R'').dropWhile isWsEq, ?_, h1, h2, h3, h4, hS, ?_, ?_, h⟩
      · rw [List.takeWhile_append_dropWhile]
      · simp [hdw]
      · intro c hc; exact of_mem_takeWhile hc
    · have hdw' : isWsEq d = false := by simpa using hdw
      simp [lowerS, afterKw, isWsEq_lower, hdw'] at h

/-! ## the whole pattern -/

/-- every way `bohrang` matches cuts the line into keyword, optional `s`, a `[\s=]` run and a unit word matched up to `\Z` -/
theorem bohrang_decomp (s : Str) (x : St) (hx : x ∈ FromStringRegex.bohrang.ms (St.init (toBytes s))) :
    ∃ C1 C2 C3 C4 S W U m, s = C1 :: C2 :: C3 :: C4 :: (S ++ (W ++ U)) ∧ C1.toLower = 'u' ∧ C2.toLower = 'n' ∧ C3.toLower = 'i' ∧
      C4.toLower = 't' ∧ OptS S ∧ W ≠ [] ∧ (∀ c ∈ W, isWsEq c = true) ∧ m.rest = toBytes U ∧ m.caps = [] ∧
      x ∈ unitsG.ms m ∧ x.rest = [] := by
  rw [bohrang_shape] at hx
  obtain ⟨m0, h0, hx⟩ := mem_ms_seq.mp hx
  obtain ⟨_, rfl⟩ := mem_ms_bos.mp h0
  obtain ⟨m1, h1, hx⟩ := mem_ms_seq.mp hx
  obtain ⟨C1, T1, rfl, e1, rfl⟩ := (mem_ciL 117 (by omega) (U := s) rfl).mp h1
  obtain ⟨m2, h2, hx⟩ := mem_ms_seq.mp hx
  obtain ⟨C2, T2, rfl, e2, rfl⟩ := (mem_ciL 110 (by omega) rfl).mp h2
  obtain ⟨m3, h3, hx⟩ := mem_ms_seq.mp hx
  obtain ⟨C3, T3, rfl, e3, rfl⟩ := (mem_ciL 105 (by omega) rfl).mp h3
  obtain ⟨m4, h4, hx⟩ := mem_ms_seq.mp hx
  obtain ⟨C4, T4, rfl, e4, rfl⟩ := (mem_ciL 116 (by omega) rfl).mp h4
  have f1 : C1.toLower = 'u' := toNat_inj e1
  have f2 : C2.toLower = 'n' := toNat_inj e2
  have f3 : C3.toLower = 'i' := toNat_inj e3
  have f4 : C4.toLower = 't' := toNat_inj e4
  obtain ⟨m5, h5, hx⟩ := mem_ms_seq.mp hx
  obtain ⟨m6, h6, hx⟩ := mem_ms_seq.mp hx
  obtain ⟨m7, h7, hx⟩ := mem_ms_seq.mp hx
  obtain ⟨hr, rfl⟩ := mem_ms_eos.mp hx
  rw [optS, mem_ms_opt] at h5
  rcases h5 with h5 | rfl
  · obtain ⟨c, T5, rfl, e5, rfl⟩ := (mem_ciL 115 (by omega) rfl).mp h5
    rw [wsEq1, plus_mem_str cls_wsEq T5 _ _ rfl] at h6
    obtain ⟨W, U, hW0, rfl, hW, rfl⟩ := h6
    exact ⟨C1, C2, C3, C4, [c], W, U, _, rfl, f1, f2, f3, f4, Or.inr ⟨c, rfl, toNat_inj e5⟩, hW0, hW, rfl, rfl, h7, hr⟩
  · rw [wsEq1, plus_mem_str cls_wsEq T4 _ _ rfl] at h6
    obtain ⟨W, U, hW0, rfl, hW, rfl⟩ := h6
    exact ⟨C1, C2, C3, C4, [], W, U, _, rfl, f1, f2, f3, f4, Or.inl rfl, hW0, hW, rfl, rfl, h7, hr⟩

/-- a line cut that way whose unit word matches up to `\Z` is matched by `bohrang` -/
theorem bohrang_complete (C1 C2 C3 C4 : Char) (S W U : Str) (h1 : C1.toLower = 'u') (h2 : C2.toLower = 'n')
    (h3 : C3.toLower = 'i') (h4 : C4.toLower = 't') (hS : OptS S) (hW0 : W ≠ []) (hW : ∀ c ∈ W, isWsEq c = true)
    (hu : ∀ m : St, m.rest = toBytes U → ∃ x, x ∈ unitsG.ms m ∧ x.rest = []) :
    ∃ x, x ∈ FromStringRegex.bohrang.ms (St.init (toBytes (C1 :: C2 :: C3 :: C4 :: (S ++ (W ++ U))))) := by
  rw [bohrang_shape]
  have tail : ∀ m5 : St, m5.rest = toBytes (W ++ U) → ∃ x, x ∈ (Re.seq wsEq1 (.seq unitsG .eos)).ms m5 := by
    intro m5 hm5
    obtain ⟨x, hx, hr⟩ := hu (m5.adv (toBytes W) (toBytes U)) rfl
    refine ⟨x, mem_ms_seq.mpr ⟨_, ?_, mem_ms_seq.mpr ⟨x, hx, mem_ms_eos.mpr ⟨hr, rfl⟩⟩⟩⟩
    rw [wsEq1, plus_mem_str cls_wsEq (W ++ U) _ _ hm5]
    exact ⟨W, U, hW0, rfl, hW, rfl⟩
  have pre : ∀ m4 : St, m4.rest = toBytes (S ++ (W ++ U)) → ∃ x, x ∈ (Re.seq optS (.seq wsEq1 (.seq unitsG .eos))).ms m4 := by
    intro m4 hm4
    rcases hS with rfl | ⟨c, rfl, hc⟩
    · obtain ⟨x, hx⟩ := tail m4 hm4
      exact ⟨x, mem_ms_seq.mpr ⟨m4, by rw [optS, mem_ms_opt]; exact Or.inr rfl, hx⟩⟩
    · obtain ⟨x, hx⟩ := tail { m4 with prev := some c.toNat, rest := toBytes (W ++ U) } rfl
      refine ⟨x, mem_ms_seq.mpr ⟨_, ?_, hx⟩⟩
      rw [optS, mem_ms_opt]
      exact Or.inl ((mem_ciL 115 (by omega) hm4).mpr ⟨c, _, rfl, by rw [hc]; rfl, rfl⟩)
  obtain ⟨x, hx⟩ := pre { (St.init (toBytes (C1 :: C2 :: C3 :: C4 :: (S ++ (W ++ U))))) with
    prev := some C4.toNat, rest := toBytes (S ++ (W ++ U)) } rfl
  refine ⟨x, mem_ms_seq.mpr ⟨_, mem_ms_bos.mpr ⟨rfl, rfl⟩, ?_⟩⟩
  refine mem_ms_seq.mpr ⟨_, (mem_ciL 117 (by omega) rfl).mpr ⟨C1, _, rfl, by rw [h1]; rfl, rfl⟩, ?_⟩
  refine mem_ms_seq.mpr ⟨_, (mem_ciL 110 (by omega) rfl).mpr ⟨C2, _, rfl, by rw [h2]; rfl, rfl⟩, ?_⟩
  refine mem_ms_seq.mpr ⟨_, (mem_ciL 105 (by omega) rfl).mpr ⟨C3, _, rfl, by rw [h3]; rfl, rfl⟩, ?_⟩
  refine mem_ms_seq.mpr ⟨_, (mem_ciL 116 (by omega) rfl).mpr ⟨C4, _, rfl, by rw [h4]; rfl, rfl⟩, ?_⟩
  exact hx

/-! ## the two sides -/

theorem units_sound (s : Str) (x : St) (hx : x ∈ FromStringRegex.bohrang.ms (St.init (toBytes s))) :
    unitsHand s = some (bohrangOf x) := by
  obtain ⟨C1, C2, C3, C4, S, W, U, m, rfl, h1, h2, h3, h4, hS, hW0, hW, hmU, hmc, hxu, hr⟩ := bohrang_decomp s x hx
  obtain ⟨hl, hne, hAB⟩ := unitsG_sound hmU hmc hxu hr
  have hcu := classifyUnits_decomp C1 C2 C3 C4 S W U h1 h2 h3 h4 hS hW0 hW hAB
  rw [hl] at hcu
  cases hb : bohrangOf x with
  | none => exact absurd hb hne
  | some b =>
    rw [hb] at hcu
    have := classifyRest_units_of C1 _ h1 hcu
    rw [← classify_kw C1 C2 C3 C4 _ h1 h2 h3 h4] at this
    simp [unitsHand, this]

theorem units_complete (s : Str) (hnl : ∀ c ∈ s, c ≠ '\n') (h : unitsHand s ≠ none) :
    ∃ x, x ∈ FromStringRegex.bohrang.ms (St.init (toBytes s)) := by
  have hb : ∃ b, classify s = .units b := by
    unfold unitsHand at h
    split at h
    · exact ⟨_, by assumption⟩
    · exact absurd rfl h
  obtain ⟨b, hb⟩ := hb
  obtain ⟨C1, C2, C3, C4, S, W, U, rfl, h1, h2, h3, h4, hS, hW0, hW, hu⟩ :=
    classifyUnits_inv (classifyRest_units_inv (classify_units_inv hb))
  apply bohrang_complete C1 C2 C3 C4 S W U h1 h2 h3 h4 hS hW0 hW
  intro m hm
  apply unitsG_complete hm (by rw [hu]; simp)
  intro c hc
  exact hnl c (by simp [hc])

/-- **bohrang**: `\Aunits?[\s=]+((?P<ubohr>(bohr|au|a.u.))|(?P<uang>(ang|angstrom)))\Z` under IGNORECASE, by the generic engine on
the generated AST and read through the named groups as `process_bohrang` reads them, is M1's `classify` answering `.units`, for
every line without a newline (lines come from `str.split("\n")`; the hand recogniser takes ANY character for the dots of `a.u.`) -/
theorem units_eq_regex (s : Str) (hnl : ∀ c ∈ s, c ≠ '\n') : unitsRe s = unitsHand s := by
  unfold unitsRe
  rw [matchPrefix_eq_head]
  cases hms : FromStringRegex.bohrang.ms (St.init (toBytes s)) with
  | nil =>
    by_cases h : unitsHand s = none
    · rw [h]; rfl
    · obtain ⟨x, hx⟩ := units_complete s hnl h
      rw [hms] at hx
      simp at hx
  | cons x l =>
    have := units_sound s x (by rw [hms]; simp)
    rw [this]
    rfl

/-- the hypothesis is needed: the hand recogniser accepts a newline for the dots of `a.u.`, the regex does not -/
example : unitsRe "units a\nu\n".toList ≠ unitsHand "units a\nu\n".toList := by decide

end QcelVerif.MolText
