import QcelVerif.Model.NucleusShipped
/-!
Inversion lemmas for the C06 model: what a successful stage of `reconcileWith` tells us.
-/
namespace QcelVerif.Nucleus
open QcelVerif QcelVerif.PStr QcelVerif.PT

theorem bind_ok {ε α β} {x : Except ε α} {f : α → Except ε β} {b : β} :
    (x >>= f) = .ok b ↔ ∃ a, x = .ok a ∧ f a = .ok b := by
  cases x with
  | error e => simp [bind, Except.bind]
  | ok a => simp [bind, Except.bind]

theorem ofOpt_ok {α} {e : Err} {o : Option α} {a : α} : ofOpt e o = .ok a ↔ o = some a := by
  cases o <;> simp [ofOpt]

theorem map_ok {ε α β} {x : Except ε α} {f : α → β} {b : β} :
    (f <$> x) = .ok b ↔ ∃ a, x = .ok a ∧ f a = b := by
  cases x with
  | error e => simp [Functor.map, Except.map]
  | ok a => simp [Functor.map, Except.map]

/-- `mapM` over the zero-or-one element list of an optional clue -/
theorem mapM_optList_ok {α β} {x : Option α} {f : α → Except Err β} {l : List β}
    (h : (optList x).mapM f = .ok l) :
    (x = none ∧ l = []) ∨ ∃ a b, x = some a ∧ f a = .ok b ∧ l = [b] := by
  cases x with
  | none =>
    simp only [optList, List.mapM_nil, pure, Except.pure, Except.ok.injEq] at h
    exact Or.inl ⟨rfl, h.symm⟩
  | some a =>
    simp only [optList, List.mapM_cons, List.mapM_nil, bind_ok, pure, Except.pure, Except.ok.injEq] at h
    obtain ⟨b, hb, _, rfl, rfl⟩ := h
    exact Or.inr ⟨a, b, rfl, hb, rfl⟩

/-- `mapM` in `Except`: every result comes from an argument … -/
theorem mapM_ok_of_mem_right {α β} {f : α → Except Err β} :
    ∀ {l : List α} {r : List β}, l.mapM f = .ok r → ∀ b ∈ r, ∃ a ∈ l, f a = .ok b
  | [], r, h, b, hb => by
      simp only [List.mapM_nil, pure, Except.pure, Except.ok.injEq] at h
      subst h; cases hb
  | a :: t, r, h, b, hb => by
      simp only [List.mapM_cons, bind_ok, pure, Except.pure, Except.ok.injEq] at h
      obtain ⟨b', hb', r', hr', rfl⟩ := h
      rcases List.mem_cons.mp hb with rfl | hb
      · exact ⟨a, List.mem_cons_self, hb'⟩
      · obtain ⟨a', ha', hf⟩ := mapM_ok_of_mem_right hr' b hb
        exact ⟨a', List.mem_cons_of_mem _ ha', hf⟩

/-- … and every argument produced a result -/
theorem mapM_ok_of_mem_left {α β} {f : α → Except Err β} :
    ∀ {l : List α} {r : List β}, l.mapM f = .ok r → ∀ a ∈ l, ∃ b ∈ r, f a = .ok b
  | [], r, _, a, ha => by cases ha
  | a0 :: t, r, h, a, ha => by
      simp only [List.mapM_cons, bind_ok, pure, Except.pure, Except.ok.injEq] at h
      obtain ⟨b', hb', r', hr', rfl⟩ := h
      rcases List.mem_cons.mp ha with rfl | ha
      · exact ⟨b', List.mem_cons_self, hb'⟩
      · obtain ⟨b, hb, hf⟩ := mapM_ok_of_mem_left hr' a ha
        exact ⟨b, List.mem_cons_of_mem _ hb, hf⟩

theorem mapM_ok_nil_iff {α β} {f : α → Except Err β} {l : List α} {r : List β}
    (h : l.mapM f = .ok r) : r = [] ↔ l = [] := by
  cases l with
  | nil =>
    simp only [List.mapM_nil, pure, Except.pure, Except.ok.injEq] at h
    simp [← h]
  | cons a t =>
    simp only [List.mapM_cons, bind_ok, pure, Except.pure, Except.ok.injEq] at h
    obtain ⟨b', _, r', _, rfl⟩ := h
    simp

theorem firstPassing_some {α π} {holds : π → α → Bool} {c : List α} {p : List π} {x : α}
    (h : firstPassing holds c p = some x) : x ∈ c ∧ ∀ q ∈ p, holds q x = true := by
  unfold firstPassing at h
  refine ⟨List.mem_of_find?_eq_some h, ?_⟩
  have := List.find?_some h
  simpa [List.all_eq_true] using this

/-- if some candidate passes every test, the search does not fail, and what it returns passes too -/
theorem firstPassing_of_mem {α π} {holds : π → α → Bool} {c : List α} {p : List π} {x : α}
    (hx : x ∈ c) (hp : ∀ q ∈ p, holds q x = true) : ∃ y, firstPassing holds c p = some y := by
  unfold firstPassing
  cases h : c.find? (fun c => p.all fun q => holds q c) with
  | some y => exact ⟨y, rfl⟩
  | none =>
    rw [List.find?_eq_none] at h
    have := h x hx
    simp [List.all_eq_true] at this
    obtain ⟨q, hq, hf⟩ := this
    rw [hp q hq] at hf; cases hf

theorem reconcileWith_ok {N : NTables} {rd rng i o} (h : reconcileWith N rd rng i = .ok o) :
    ∃ zo lab clues late,
      zStage N rd rng i = .ok (zo, lab) ∧
      firstPassing (fun (p c : Int) => c == p) (zo.map (·.z)) (zo.map (·.z)) = some o.Z ∧
      N.pt.toE (.int o.Z) false = some o.E ∧
      cluesOf rd i lab = .ok clues ∧
      clues.mapM (offerClue N rd o.E i.mtol.val) = .ok late ∧
      firstPassing (MPred.holds rd) (zo.map (·.zMass) ++ late.map (·.m)) (zo.map (·.mPred) ++ late.map (·.mPred)) = some o.mass ∧
      firstPassing APred.holds (zo.map (·.zA) ++ late.map (·.a)) (zo.map (·.aPred) ++ late.map (·.aPred)) = some o.A ∧
      firstPassing (fun (p c : PyNum) => c.val == p.val) (PyNum.bool true :: realClues i lab) (realClues i lab) = some o.real ∧
      firstPassing (fun (p c : Bytes) => c == p) ([] :: userClues i lab) (userClues i lab) = some o.user := by
  unfold reconcileWith at h
  simp only [bind_ok, ofOpt_ok] at h
  obtain ⟨⟨zo, lab⟩, h1, zf, h2, sym, h3, clues, h4, late, h5, mf, h6, af, h7, rf, h8, uf, h9, h10⟩ := h
  simp only [pure, Except.pure, Except.ok.injEq] at h10
  subst h10
  exact ⟨zo, lab, clues, late, h1, h2, h3, h4, h5, h6, h7, h8, h9⟩

/-- what a successful `offer_atomic_number(z)` recorded -/
theorem offerZ_ok {N : NTables} {rd rng np z x} (h : offerZ N rd rng np z = .ok x) :
    x.z = z ∧ N.pt.toE (.int z) false = some x.sym ∧ tableMass N rd (.int z) = .ok x.zMass ∧
    (∃ a : Nat, N.pt.toA (.int z) = some a ∧ x.zA = (a : Int)) ∧
    ∃ r, rng x.sym = some r ∧ x.aPred = .range np r.amin r.amax ∧
      x.mPred = .range np (rd (r.mmin - 1/2)) (rd (r.mmax + 1/2)) := by
  unfold offerZ at h
  simp only [bind_ok, ofOpt_ok] at h
  obtain ⟨sym, h1, zm, h2, za, h3, r, h4, h5⟩ := h
  simp only [pure, Except.pure, Except.ok.injEq] at h5
  subst h5
  exact ⟨rfl, h1, h2, ⟨za, h3, rfl⟩, r, h4, rfl, rfl⟩

theorem offerE_ok {N : NTables} {rd rng np e x} (h : offerE N rd rng np e = .ok x) :
    ∃ z : Nat, N.pt.toZ (.str e) true = some z ∧ offerZ N rd rng np (z : Int) = .ok x := by
  unfold offerE at h
  simp only [bind_ok, ofOpt_ok] at h
  exact h

/-- the first stage, inverted: each present element clue contributed exactly one offer, in source order -/
theorem zStage_ok {N : NTables} {rd rng i zo lab} (h : zStage N rd rng i = .ok (zo, lab)) :
    ∃ o1 o2 o3 o4,
      (optList i.Z).mapM (fun z => offerZ N rd rng i.nonphysical (truncInt z.val)) = .ok o1 ∧
      (optList i.E).mapM (fun e => offerE N rd rng i.nonphysical e) = .ok o2 ∧
      labelOf i = .ok lab ∧
      (optList (lab.bind (·.Z))).mapM (fun (z : Nat) => offerZ N rd rng i.nonphysical (z : Int)) = .ok o3 ∧
      (optList (lab.bind (·.E))).mapM (fun e => offerE N rd rng i.nonphysical e) = .ok o4 ∧
      zo = o1 ++ o2 ++ o3 ++ o4 := by
  unfold zStage at h
  simp only [bind_ok] at h
  obtain ⟨o1, h1, o2, h2, lab', h3, o3, h4, o4, h5, h6⟩ := h
  simp only [pure, Except.pure, Except.ok.injEq, Prod.mk.injEq] at h6
  obtain ⟨rfl, rfl⟩ := h6
  exact ⟨o1, o2, o3, o4, h1, h2, h3, h4, h5, rfl⟩

/-- every recorded offer is `offer_atomic_number` of its own atomic number -/
theorem zStage_offers {N : NTables} {rd rng i zo lab} (h : zStage N rd rng i = .ok (zo, lab)) :
    ∀ x ∈ zo, offerZ N rd rng i.nonphysical x.z = .ok x := by
  obtain ⟨o1, o2, o3, o4, h1, h2, _, h3, h4, rfl⟩ := zStage_ok h
  intro x hx
  simp only [List.mem_append] at hx
  rcases hx with ((hx | hx) | hx) | hx
  · rcases mapM_optList_ok h1 with ⟨_, rfl⟩ | ⟨a, b, _, hb, rfl⟩
    · cases hx
    · simp at hx; subst hx; rw [(offerZ_ok hb).1]; exact hb
  · rcases mapM_optList_ok h2 with ⟨_, rfl⟩ | ⟨a, b, _, hb, rfl⟩
    · cases hx
    · simp at hx; subst hx
      obtain ⟨z, _, hz⟩ := offerE_ok hb
      rw [(offerZ_ok hz).1]; exact hz
  · rcases mapM_optList_ok h3 with ⟨_, rfl⟩ | ⟨a, b, _, hb, rfl⟩
    · cases hx
    · simp at hx; subst hx; rw [(offerZ_ok hb).1]; exact hb
  · rcases mapM_optList_ok h4 with ⟨_, rfl⟩ | ⟨a, b, _, hb, rfl⟩
    · cases hx
    · simp at hx; subst hx
      obtain ⟨z, _, hz⟩ := offerE_ok hb
      rw [(offerZ_ok hz).1]; exact hz

end QcelVerif.Nucleus
