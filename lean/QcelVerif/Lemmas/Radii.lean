import QcelVerif.Model.Radii
/-! Helper lemmas for C17 (list folds of the radius table; not property statements). -/
namespace QcelVerif.Radii
open QcelVerif QcelVerif.PStr QcelVerif.PT

theorem hasLabel_mem {t : Table} {s : Bytes} (h : hasLabel t s = true) : ∃ p ∈ t, p.1 = s := by
  unfold hasLabel at h
  rw [List.any_eq_true] at h
  obtain ⟨p, hp, he⟩ := h
  exact ⟨p, hp, by simpa using he⟩

/-- generic fold: "last match wins" returns the start value or the value of a member -/
theorem foldl_last_mem {α β : Type} (c : α → Bool) (v : α → β) (l : List α) (acc : Option β) (d : β)
    (h : l.foldl (fun a p => if c p then some (v p) else a) acc = some d) :
    acc = some d ∨ ∃ p ∈ l, c p = true ∧ v p = d := by
  induction l generalizing acc with
  | nil => exact Or.inl h
  | cons x xs ih =>
    simp only [List.foldl_cons] at h
    rcases ih _ h with h1 | ⟨p, hp, hc, hv⟩
    · by_cases hx : c x = true
      · simp only [hx, ↓reduceIte] at h1
        exact Or.inr ⟨x, List.mem_cons_self, hx, Option.some.inj h1⟩
      · simp only [hx] at h1
        exact Or.inl h1
    · exact Or.inr ⟨p, List.mem_cons_of_mem _ hp, hc, hv⟩

/-- generic fold: a matching member makes the result `some` -/
theorem foldl_last_isSome {α β : Type} (c : α → Bool) (v : α → β) (l : List α) (acc : Option β)
    (h : acc.isSome = true ∨ ∃ p ∈ l, c p = true) :
    (l.foldl (fun a p => if c p then some (v p) else a) acc).isSome = true := by
  induction l generalizing acc with
  | nil =>
    rcases h with h | ⟨p, hp, _⟩
    · exact h
    · cases hp
  | cons x xs ih =>
    simp only [List.foldl_cons]
    apply ih
    by_cases hx : c x = true
    · left; simp [hx]
    · rcases h with h | ⟨p, hp, hc⟩
      · left; simpa [hx] using h
      · rcases List.mem_cons.mp hp with rfl | hp'
        · exact absurd hc hx
        · exact Or.inr ⟨p, hp', hc⟩

theorem lookupK_mem {t : Table} {k : Nat} {d : Datum} (h : lookupK t k = some d) :
    ∃ p ∈ t, pack p.1 = k ∧ p.2 = d := by
  unfold lookupK at h
  rcases foldl_last_mem (fun p : Bytes × Datum => pack p.1 == k) (fun p => p.2) t none d h with h1 | ⟨p, hp, hc, hv⟩
  · cases h1
  · exact ⟨p, hp, by simpa using hc, hv⟩

theorem lookupK_isSome_of_label {t : Table} {s : Bytes} (h : hasLabel t s = true) :
    (lookupK t (pack s)).isSome = true := by
  obtain ⟨p, hp, he⟩ := hasLabel_mem h
  unfold lookupK
  exact foldl_last_isSome (fun p : Bytes × Datum => pack p.1 == pack s) (fun p => p.2) t none
    (Or.inr ⟨p, hp, by simp [he]⟩)

end QcelVerif.Radii
