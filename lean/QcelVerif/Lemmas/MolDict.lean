import QcelVerif.Model.MolDict
import QcelVerif.Lemmas.MolSchema
/-!
Helper lemmas for C09 (c) (`Model/MolDict.lean`); nothing here is a property statement.

`filteredOf` is the closed form of `_filter_defaults` on a dictionary that has every key it pops (what
`to_schema` writes): `filterDefaults_full`.
-/
namespace QcelVerif.MolDict
open QcelVerif.MolSchema

section
variable {K : Type} [DecidableEq K]

/-- `_filter_defaults` in closed form -/
def filteredOf (massOf : String → K) (d : MolDict K) : MolDict K :=
  { d with
    atomicNumbers := none
    massNumbers := if dfltMasses massOf d then none else d.massNumbers
    masses := if dfltMasses massOf d then none else d.masses
    real := if allReal d then none else d.real
    atomLabels := if noLabels d then none else d.atomLabels
    fragments := if oneFragment d then none else d.fragments
    fragCharges := if oneFragment d then none else d.fragCharges
    fragMults := if oneFragment d then none else d.fragMults }

/-- a dictionary with every key `_filter_defaults` reads or pops -/
structure Full (d : MolDict K) : Prop where
  symbols : d.symbols.isSome = true
  atomicNumbers : d.atomicNumbers.isSome = true
  masses : d.masses.isSome = true
  massNumbers : d.massNumbers.isSome = true
  real : d.real.isSome = true
  atomLabels : d.atomLabels.isSome = true
  fragments : d.fragments.isSome = true
  fragCharges : d.fragCharges.isSome = true
  fragMults : d.fragMults.isSome = true

theorem filterDefaults_full (massOf : String → K) (d : MolDict K) (h : Full d) :
    filterDefaults massOf d = .ok (filteredOf massOf d) := by
  obtain ⟨h1, h2, h3, h4, h5, h6, h7, h8, h9⟩ := h
  cases d with
  | mk symbols geometry masses atomicNumbers massNumbers atomLabels real name comment charge mult fragments
      fragCharges fragMults fixCom fixOri fixSym connectivity validated =>
  simp only at h1 h2 h3 h4 h5 h6 h7 h8 h9
  obtain ⟨sy, rfl⟩ := Option.isSome_iff_exists.1 h1
  obtain ⟨an, rfl⟩ := Option.isSome_iff_exists.1 h2
  obtain ⟨ms, rfl⟩ := Option.isSome_iff_exists.1 h3
  obtain ⟨mn, rfl⟩ := Option.isSome_iff_exists.1 h4
  obtain ⟨re, rfl⟩ := Option.isSome_iff_exists.1 h5
  obtain ⟨lb, rfl⟩ := Option.isSome_iff_exists.1 h6
  obtain ⟨fr, rfl⟩ := Option.isSome_iff_exists.1 h7
  obtain ⟨fc, rfl⟩ := Option.isSome_iff_exists.1 h8
  obtain ⟨fm, rfl⟩ := Option.isSome_iff_exists.1 h9
  unfold filterDefaults filteredOf dfltMasses allReal noLabels oneFragment
  simp only [Option.getD_some, Option.some.injEq, decide_eq_true_eq]
  have e1 : (sy.map massOf = ms) = (ms = sy.map massOf) := propext eq_comm
  simp only [e1]
  by_cases c1 : ms = sy.map massOf <;> by_cases c2 : re.all id = true <;>
    by_cases c3 : lb = List.replicate sy.length "" <;> by_cases c4 : fr = [arangeI sy.length] <;>
    simp [c1, c2, c3, c4]

end

/-! list facts used by the accessor lemmas -/

theorem all_id_eq_replicate : ∀ (l : List Bool), l.all id = true → l = List.replicate l.length true
  | [], _ => rfl
  | b :: t, h => by
    simp only [List.all_cons, Bool.and_eq_true, id] at h
    rw [List.length_cons, List.replicate_succ, ← all_id_eq_replicate t h.2, h.1]

theorem map_const_true {α : Type} (l : List α) : l.map (fun _ => true) = List.replicate l.length true := by
  induction l with
  | nil => rfl
  | cons a t ih => simp [List.replicate_succ, ih]

/-- the molecule dictionary `to_schema` writes has every key `_filter_defaults` pops -/
theorem full_molDict {K : Type} [Mul K] [DecidableEq K] (dflt : K) (fg : List String → String) (r : Molrec K) :
    Full (molDict dflt fg r) :=
  ⟨rfl, rfl, rfl, rfl, rfl, rfl, rfl, rfl, rfl⟩

end QcelVerif.MolDict
