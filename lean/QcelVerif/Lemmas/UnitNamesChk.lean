import QcelVerif.Gen.UnitNames
/-!
C03, text level: the check that is kernel-evaluated for every listed spelling of every table unit over the regenerated
name set of the registry (`Gen/UnitNames.lean`), and the explicit table of collisions.  Core Lean only.
-/
namespace QcelVerif.Units.Text
open QcelVerif.PStr (Bytes)

/-- the spellings (of `allSpellings`) that pint's rule resolves to *another* registry unit, with the canonical key the rule picks:
    `fm` fermi (exact name before femto+`m`), `nmi` nautical_mile, `au` astronomical_unit, `dau` deci+`au` (prefix `d` comes before
    `da` in the registry), `amps` atto+`mps` (the plural suffix is tried after all prefixes), `damps` deca+`mps`,
    `hbar` / `hbars` dirac_constant -/
def collisionTable : List (Spelling × Bytes) :=
  [(⟨-15, .meter, [102,109]⟩, [102,101,114,109,105]),
   (⟨-9, .mile, [110,109,105]⟩, [110,97,117,116,105,99,97,108,95,109,105,108,101]),
   (⟨-18, .amu, [97,117]⟩, [97,115,116,114,111,110,111,109,105,99,97,108,95,117,110,105,116]),
   (⟨1, .amu, [100,97,117]⟩, [100,101,99,105,97,115,116,114,111,110,111,109,105,99,97,108,95,117,110,105,116]),
   (⟨0, .ampere, [97,109,112,115]⟩, [97,116,116,111,109,101,116,101,114,95,112,101,114,95,115,101,99,111,110,100]),
   (⟨-1, .ampere, [100,97,109,112,115]⟩, [100,101,99,97,109,101,116,101,114,95,112,101,114,95,115,101,99,111,110,100]),
   (⟨2, .bar, [104,98,97,114]⟩, [100,105,114,97,99,95,99,111,110,115,116,97,110,116]),
   (⟨2, .bar, [104,98,97,114,115]⟩, [100,105,114,97,99,95,99,111,110,115,116,97,110,116])]

def isCollision (s : Spelling) : Bool := collisionTable.any (fun c => beqB c.1.name s.name)

/-- the spelling resolves, by pint's rule over the registry's name set, to exactly the (power of ten, table unit) it was written for -/
def okS (s : Spelling) : Bool :=
  match resolveUnit Gen.nameReg s.name with
  | .ok (p, x) => decide (p = s.p) && decide (x = s.x)
  | .error _ => false

def chk (s : Spelling) : Bool := isCollision s || okS s

/-- a collision row: it is one of the listed spellings, the rule picks the stated key, and that key is not the table unit -/
def chkCollision (c : Spelling × Bytes) : Bool :=
  (match resolveKey Gen.nameReg c.1.name with
   | .ok k => beqB k c.2
   | .error _ => false) && !okS c.1 && (spellingsOf c.1.x).any (fun s => decide (s = c.1))

theorem okS_iff (s : Spelling) : okS s = true ↔ resolveUnit Gen.nameReg s.name = .ok (s.p, s.x) := by
  unfold okS
  cases h : resolveUnit Gen.nameReg s.name with
  | error e => simp
  | ok v =>
    obtain ⟨p, x⟩ := v
    simp only [Bool.and_eq_true, decide_eq_true_eq, Except.ok.injEq, Prod.mk.injEq]

end QcelVerif.Units.Text
