import QcelVerif.Lemmas.C07ReXyz1
import QcelVerif.Lemmas.C07ReChgmult
/-!
C07 — the keyword lines of `_filter_universals`:

    com      = `\A(no_com|nocom)\Z`                  IGNORECASE
    orient   = `\A(no_reorient|noreorient)\Z`        IGNORECASE
    symmetry = `\Asymmetry[\s=]+(?P<pg>\w+)\Z`       IGNORECASE

The generic engine run on the generated ASTs (`comRe`, `orientRe`, `symRe`) is what M1's line classifier `classify` answers
(`comHand`, `orientHand`, `symHand`), for EVERY string, no length bound.

Route: a case-folded literal word is a chain of one-character classes (`litK`, `litC`); the ways such a chain matches from a cursor
are the splits `word' ++ rest` with `lowerS word' = word` (`litK_sound`, `litK_complete`).  On the hand side the token branches of
`classify` (atom line, CHGMULT line) cannot fire on a line that the keyword regexes accept (`classify_eq_rest`), and
`classifyRest` walks its `if` chain.
-/
namespace QcelVerif.MolText
open QcelVerif.Regex QcelVerif.Gen

-- helpers live in `QcelVerif.MolText.Kw` (no clashes with sibling modules); the deliverables are exported to `QcelVerif.MolText`
namespace Kw

/-! ## a literal character / word under IGNORECASE, as the translator emits it -/

/-- one literal character: a lower-case letter is folded to the pair `[k, k-32]`, any other character stands alone -/
def litC (k : Nat) : Re := if 97 ≤ k ∧ k ≤ 122 then .cls false [.ch k, .ch (k - 32)] else .cls false [.ch k]

/-- the literal word `ks`, then `r` -/
def litK : List Nat → Re → Re
  | [], r => r
  | k :: ks, r => .seq (litC k) (litK ks r)

/-- `[\s=]+` -/
def wsEq1 : Re := .rep 1 none true (.cls false [.space, .ch 61])
/-- `\w+` -/
def word1 : Re := .rep 1 none true (.cls false [.word])

/-! ## (0) shapes -/

/-- `\A(no(?:_com|com))\Z` — CPython's parser factors the common prefix `no` -/
theorem _root_.QcelVerif.MolText.com_shape : FromStringRegex.com =
    .seq .bos (.seq (.group 1 (litK [110, 111] (.alt (litK [95, 99, 111] (litC 109)) (litK [99, 111] (litC 109))))) .eos) := rfl

theorem _root_.QcelVerif.MolText.orient_shape : FromStringRegex.orient =
    .seq .bos (.seq (.group 1 (litK [110, 111]
      (.alt (litK [95, 114, 101, 111, 114, 105, 101, 110] (litC 116)) (litK [114, 101, 111, 114, 105, 101, 110] (litC 116))))) .eos) := rfl

theorem _root_.QcelVerif.MolText.symmetry_shape : FromStringRegex.symmetry =
    .seq .bos (litK [115, 121, 109, 109, 101, 116, 114, 121] (.seq wsEq1 (.seq (.group 1 word1) .eos))) := rfl

theorem symmetry_group : FromStringRegex.symmetryG.pg = 1 := rfl

/-! ## characters -/

/-- a literal that is no upper-case letter: the class the translator emits holds exactly the characters that lower-case to it -/
theorem cls_lit (c : Char) (k : Nat) (hk : k < 65 ∨ 90 < k) (hk' : ¬ (97 ≤ k ∧ k ≤ 122)) :
    clsMem false [.ch k] c.toNat = (c.toLower.toNat == k) := by
  rw [toLower_nat]
  simp only [clsMem, Item.mem, List.any_cons, List.any_nil, Bool.or_false]
  rw [Bool.eq_iff_iff]
  by_cases h : 65 ≤ c.toNat ∧ c.toNat ≤ 90
  · simp only [h, and_self, if_true, bne_iff_ne, ne_eq, Bool.not_eq_false, beq_iff_eq]
    omega
  · simp only [h, if_false, bne_iff_ne, ne_eq, Bool.not_eq_false, beq_iff_eq]

theorem mem_litC (k : Nat) (hk : k < 65 ∨ 90 < k) {st x : St} {U : Str} (hU : st.rest = toBytes U) :
    x ∈ (litC k).ms st ↔
      ∃ C T, U = C :: T ∧ C.toLower.toNat = k ∧ x = { st with prev := some C.toNat, rest := toBytes T } := by
  unfold litC
  split
  · rename_i h; exact mem_ci k h hU
  · rename_i h
    rw [mem_ms_cls]
    constructor
    · rintro ⟨c, t, h1, h2, rfl⟩
      rw [hU] at h1
      cases U with
      | nil => simp at h1
      | cons C T =>
        simp only [toBytes_cons, List.cons.injEq] at h1
        obtain ⟨rfl, rfl⟩ := h1
        rw [cls_lit _ _ hk h] at h2
        exact ⟨C, T, rfl, by simpa using h2, rfl⟩
    · rintro ⟨C, T, rfl, h2, rfl⟩
      exact ⟨C.toNat, toBytes T, by simpa using hU, by rw [cls_lit _ _ hk h]; simpa using h2, rfl⟩

/-- every way the word `ks` (then `r`) matches: a prefix of the text that lower-cases to `ks`, then `r` from behind it -/
theorem litK_sound (r : Re) : ∀ (ks : List Nat), (∀ k ∈ ks, k < 65 ∨ 90 < k) → ∀ {st x : St} {U : Str}, st.rest = toBytes U →
    x ∈ (litK ks r).ms st → ∃ A T m, U = A ++ T ∧ toBytes (lowerS A) = ks ∧ m.rest = toBytes T ∧ x ∈ r.ms m
  | [], _, st, x, U, hU, hx => ⟨[], U, st, rfl, rfl, hU, hx⟩
  | k :: ks, hks, st, x, U, hU, hx => by
    simp only [litK] at hx
    obtain ⟨m1, h1, hx⟩ := mem_ms_seq.mp hx
    obtain ⟨C, T1, rfl, e, rfl⟩ := (mem_litC k (hks k (by simp)) hU).mp h1
    obtain ⟨A, T, m, rfl, hA, hm, hx⟩ := litK_sound r ks (fun j hj => hks j (by simp [hj])) (U := T1) rfl hx
    exact ⟨C :: A, T, m, rfl, by simp [lowerS, e] at hA ⊢; exact hA, hm, hx⟩

theorem litK_complete (r : Re) : ∀ (ks : List Nat), (∀ k ∈ ks, k < 65 ∨ 90 < k) → ∀ {st : St} {A T : Str}, st.rest = toBytes (A ++ T) →
    toBytes (lowerS A) = ks → ∃ m, m.rest = toBytes T ∧ ∀ x, x ∈ r.ms m → x ∈ (litK ks r).ms st
  | [], _, st, A, T, hU, hA => by
    have : A = [] := by
      cases A with
      | nil => rfl
      | cons c t => simp [lowerS] at hA
    subst this
    exact ⟨st, hU, fun x hx => hx⟩
  | k :: ks, hks, st, A, T, hU, hA => by
    cases A with
    | nil => simp [lowerS] at hA
    | cons C A' =>
      simp only [lowerS, List.map_cons, toBytes_cons, List.cons.injEq] at hA
      obtain ⟨m, hm, hall⟩ := litK_complete r ks (fun j hj => hks j (by simp [hj]))
        (st := { st with prev := some C.toNat, rest := toBytes (A' ++ T) }) (A := A') (T := T) rfl hA.2
      refine ⟨m, hm, fun x hx => ?_⟩
      simp only [litK]
      exact mem_ms_seq.mpr ⟨_, (mem_litC k (hks k (by simp)) hU).mpr ⟨C, A' ++ T, rfl, hA.1, rfl⟩, hall x hx⟩

/-! ## regex side of `com` / `orient`: a two-word keyword pattern -/

theorem lowerB_split {U : Str} {x y : List Nat} (h : toBytes (lowerS U) = x ++ y) :
    ∃ A B, U = A ++ B ∧ toBytes (lowerS A) = x ∧ toBytes (lowerS B) = y := by
  simp only [toBytes, lowerS, List.map_map] at h ⊢
  exact List.map_eq_append_iff.mp h

theorem lowerB_append (A B : Str) : toBytes (lowerS (A ++ B)) = toBytes (lowerS A) ++ toBytes (lowerS B) := by
  simp [toBytes, lowerS]

theorem litK_end_sound (ks : List Nat) (k : Nat) (hks : ∀ j ∈ ks, j < 65 ∨ 90 < j) (hk : k < 65 ∨ 90 < k) {st x : St} {U : Str}
    (hU : st.rest = toBytes U) (hx : x ∈ (litK ks (litC k)).ms st) (hr : x.rest = []) : toBytes (lowerS U) = ks ++ [k] := by
  obtain ⟨A, T, m, rfl, hA, hm, hx⟩ := litK_sound _ ks hks hU hx
  obtain ⟨C, T', rfl, e, rfl⟩ := (mem_litC k hk hm).mp hx
  have : T' = [] := toBytes_eq_nil.mp hr
  subst this
  rw [lowerB_append, hA]
  simp [lowerS, e]

theorem litK_end_complete (ks : List Nat) (k : Nat) (hks : ∀ j ∈ ks, j < 65 ∨ 90 < j) (hk : k < 65 ∨ 90 < k) {st : St} {U : Str}
    (hU : st.rest = toBytes U) (h : toBytes (lowerS U) = ks ++ [k]) : ∃ x, x ∈ (litK ks (litC k)).ms st ∧ x.rest = [] := by
  obtain ⟨A, B, rfl, hA, hB⟩ := lowerB_split h
  obtain ⟨m, hm, hall⟩ := litK_complete (litC k) ks hks hU hA
  match B, hB with
  | [C], hB =>
    simp [lowerS] at hB
    exact ⟨_, hall _ ((mem_litC k hk hm).mpr ⟨C, [], rfl, hB, rfl⟩), rfl⟩
  | [], hB => simp [lowerS] at hB
  | _ :: _ :: _, hB => simp [lowerS] at hB

/-- `\A(p(?:a1 z1|a2 z2))\Z` -/
def kw2 (p a1 : List Nat) (z1 : Nat) (a2 : List Nat) (z2 : Nat) : Re :=
  .seq .bos (.seq (.group 1 (litK p (.alt (litK a1 (litC z1)) (litK a2 (litC z2))))) .eos)

abbrev okL (ks : List Nat) : Prop := ∀ j ∈ ks, j < 65 ∨ 90 < j

theorem kw2_sound {p a1 a2 : List Nat} {z1 z2 : Nat} (hp : okL p) (h1 : okL a1) (h2 : okL a2) (hz1 : z1 < 65 ∨ 90 < z1)
    (hz2 : z2 < 65 ∨ 90 < z2) (s : Str) (x : St) (hx : x ∈ (kw2 p a1 z1 a2 z2).ms (St.init (toBytes s))) :
    toBytes (lowerS s) = p ++ (a1 ++ [z1]) ∨ toBytes (lowerS s) = p ++ (a2 ++ [z2]) := by
  unfold kw2 at hx
  obtain ⟨m0, h0, hx⟩ := mem_ms_seq.mp hx
  obtain ⟨_, rfl⟩ := mem_ms_bos.mp h0
  obtain ⟨m1, hg, hx⟩ := mem_ms_seq.mp hx
  obtain ⟨hr, rfl⟩ := mem_ms_eos.mp hx
  obtain ⟨y, hy, rfl⟩ := mem_ms_group.mp hg
  have hr' : y.rest = [] := hr
  obtain ⟨A, T, m, rfl, hA, hm, hy⟩ := litK_sound _ p hp (st := St.init (toBytes s)) (U := s) rfl hy
  rw [lowerB_append, hA]
  rcases mem_ms_alt.mp hy with hy | hy
  · left; rw [litK_end_sound a1 z1 h1 hz1 hm hy hr']
  · right; rw [litK_end_sound a2 z2 h2 hz2 hm hy hr']

theorem kw2_complete {p a1 a2 : List Nat} {z1 z2 : Nat} (hp : okL p) (h1 : okL a1) (h2 : okL a2) (hz1 : z1 < 65 ∨ 90 < z1)
    (hz2 : z2 < 65 ∨ 90 < z2) (s : Str)
    (h : toBytes (lowerS s) = p ++ (a1 ++ [z1]) ∨ toBytes (lowerS s) = p ++ (a2 ++ [z2])) :
    ∃ x, x ∈ (kw2 p a1 z1 a2 z2).ms (St.init (toBytes s)) := by
  unfold kw2
  have key : ∃ y, y ∈ (litK p (.alt (litK a1 (litC z1)) (litK a2 (litC z2)))).ms (St.init (toBytes s)) ∧ y.rest = [] := by
    rcases h with h | h
    · obtain ⟨A, B, rfl, hA, hB⟩ := lowerB_split h
      obtain ⟨m, hm, hall⟩ := litK_complete (.alt (litK a1 (litC z1)) (litK a2 (litC z2))) p hp (st := St.init (toBytes (A ++ B))) rfl hA
      obtain ⟨y, hy, hyr⟩ := litK_end_complete a1 z1 h1 hz1 hm hB
      exact ⟨y, hall y (mem_ms_alt.mpr (Or.inl hy)), hyr⟩
    · obtain ⟨A, B, rfl, hA, hB⟩ := lowerB_split h
      obtain ⟨m, hm, hall⟩ := litK_complete (.alt (litK a1 (litC z1)) (litK a2 (litC z2))) p hp (st := St.init (toBytes (A ++ B))) rfl hA
      obtain ⟨y, hy, hyr⟩ := litK_end_complete a2 z2 h2 hz2 hm hB
      exact ⟨y, hall y (mem_ms_alt.mpr (Or.inr hy)), hyr⟩
  obtain ⟨y, hy, hyr⟩ := key
  exact ⟨_, mem_ms_seq.mpr ⟨_, mem_ms_bos.mpr ⟨rfl, rfl⟩, mem_ms_seq.mpr ⟨_, mem_ms_group.mpr ⟨y, hy, rfl⟩, mem_ms_eos.mpr ⟨hyr, rfl⟩⟩⟩⟩

theorem kw2_isSome {p a1 a2 : List Nat} {z1 z2 : Nat} (hp : okL p) (h1 : okL a1) (h2 : okL a2) (hz1 : z1 < 65 ∨ 90 < z1)
    (hz2 : z2 < 65 ∨ 90 < z2) (s : Str) :
    ((kw2 p a1 z1 a2 z2).matchPrefix (toBytes s)).isSome = true ↔
      (toBytes (lowerS s) = p ++ (a1 ++ [z1]) ∨ toBytes (lowerS s) = p ++ (a2 ++ [z2])) := by
  rw [matchPrefix_eq_head]
  constructor
  · intro h
    cases hms : (kw2 p a1 z1 a2 z2).ms (St.init (toBytes s)) with
    | nil => rw [hms] at h; simp at h
    | cons x l => exact kw2_sound hp h1 h2 hz1 hz2 s x (by rw [hms]; simp)
  · intro h
    obtain ⟨x, hx⟩ := kw2_complete hp h1 h2 hz1 hz2 s h
    cases hms : (kw2 p a1 z1 a2 z2).ms (St.init (toBytes s)) with
    | nil => rw [hms] at hx; simp at hx
    | cons x l => rfl

theorem bytes_word (s : Str) (w : String) : toBytes (lowerS s) = toBytes w.toList ↔ lowerS s = w.toList :=
  ⟨toBytes_inj, fun h => by rw [h]⟩

theorem comRe_iff (s : Str) : comRe s = true ↔ (lowerS s = "no_com".toList ∨ lowerS s = "nocom".toList) := by
  unfold comRe
  rw [com_shape]
  rw [← bytes_word, ← bytes_word]
  exact kw2_isSome (by decide) (by decide) (by decide) (by decide) (by decide) s

theorem orientRe_iff (s : Str) : orientRe s = true ↔ (lowerS s = "no_reorient".toList ∨ lowerS s = "noreorient".toList) := by
  unfold orientRe
  rw [orient_shape]
  rw [← bytes_word, ← bytes_word]
  exact kw2_isSome (by decide) (by decide) (by decide) (by decide) (by decide) s

/-! ## hand side: `classify` on keyword lines -/

theorem classify_cases (s : Str) :
    classify s = .blank ∨ (∃ n x y z, classify s = .atom n x y z) ∨ (∃ c m, classify s = .cgmp c m) ∨ classify s = classifyRest s := by
  unfold classify
  split
  · exact Or.inl rfl
  · split
    · split
      · exact Or.inr (Or.inl ⟨_, _, _, _, rfl⟩)
      · exact Or.inr (Or.inr (Or.inr rfl))
    · split
      · split
        · exact Or.inr (Or.inr (Or.inl ⟨_, _, rfl⟩))
        · exact Or.inr (Or.inr (Or.inr rfl))
      · exact Or.inr (Or.inr (Or.inr rfl))
    · exact Or.inr (Or.inr (Or.inr rfl))

/-- a keyword answer of `classify` is `classifyRest`'s -/
theorem classify_kw {s : Str} {L : Line} (h : classify s = L) (h0 : L ≠ .blank) (h1 : ∀ n x y z, L ≠ .atom n x y z)
    (h2 : ∀ c m, L ≠ .cgmp c m) : classifyRest s = L := by
  rcases classify_cases s with h' | ⟨n, x, y, z, h'⟩ | ⟨c, m, h'⟩ | h'
  · exact absurd (h.symm.trans h') h0
  · exact absurd (h.symm.trans h') (h1 _ _ _ _)
  · exact absurd (h.symm.trans h') (h2 _ _)
  · rw [← h', h]

/-- a line without separator characters is a single field: the token branches do not apply -/
theorem classify_one_field {s : Str} (hs : s ≠ []) (h : ∀ c ∈ s, isSep c = false) : classify s = classifyRest s := by
  have hsp : splitSep s = [s] := by
    have := splitSep_tok_append s [] [] [] h (by simp [splitSep])
    simpa using this
  unfold classify
  have hse : s.isEmpty = false := by simpa [List.isEmpty_iff] using hs
  simp only [hse, Bool.false_eq_true, if_false, hsp]

theorem isSep_toLower (c : Char) : isSep c.toLower = isSep c := by
  rw [isSep_nat, isSep_nat, toLower_nat]
  split
  · rename_i h
    rw [Bool.eq_iff_iff]
    simp only [Bool.or_eq_true, beq_iff_eq]
    omega
  · rfl

theorem lowerS_no_sep {s w : Str} (h : lowerS s = w) (hw : ∀ c ∈ w, isSep c = false) : ∀ c ∈ s, isSep c = false := by
  intro c hc
  rw [← isSep_toLower]
  apply hw
  rw [← h]
  exact List.mem_map.mpr ⟨c, hc, rfl⟩

theorem lowerS_ne_nil {s w : Str} (h : lowerS s = w) (hw : w ≠ []) : s ≠ [] := by
  intro hs; subst hs; exact hw h.symm

def comCond (s : Str) : Bool := lowerS s == "no_com".toList || lowerS s == "nocom".toList
def orientCond (s : Str) : Bool := lowerS s == "no_reorient".toList || lowerS s == "noreorient".toList

theorem classifyRest_com_iff (s : Str) : classifyRest s = .com ↔ comCond s = true := by
  unfold classifyRest comCond
  dsimp only
  constructor
  · intro h
    split at h
    · assumption
    split at h
    · cases h
    split at h
    · cases h
    split at h
    · cases h
    split at h
    · cases h
    split at h
    · cases h
    split at h
    · split at h <;> cases h
    · split at h
      · split at h <;> cases h
      · cases h
    · cases h
  · intro h
    rw [if_pos h]

theorem classifyRest_orient_iff (s : Str) : classifyRest s = .orient ↔ (comCond s = false ∧ orientCond s = true) := by
  unfold classifyRest comCond orientCond
  dsimp only
  constructor
  · intro h
    split at h
    · cases h
    rename_i h0
    split at h
    · exact ⟨by simpa using h0, by assumption⟩
    split at h
    · cases h
    split at h
    · cases h
    split at h
    · cases h
    split at h
    · cases h
    split at h
    · split at h <;> cases h
    · split at h
      · split at h <;> cases h
      · cases h
    · cases h
  · rintro ⟨h0, h1⟩
    rw [if_neg (by rw [h0]; exact Bool.false_ne_true), if_pos h1]

theorem comCond_no_sep {s : Str} (h : comCond s = true) : s ≠ [] ∧ ∀ c ∈ s, isSep c = false := by
  simp only [comCond, Bool.or_eq_true, beq_iff_eq] at h
  rcases h with h | h
  · exact ⟨lowerS_ne_nil h (by decide), lowerS_no_sep h (by decide)⟩
  · exact ⟨lowerS_ne_nil h (by decide), lowerS_no_sep h (by decide)⟩

theorem orientCond_no_sep {s : Str} (h : orientCond s = true) : s ≠ [] ∧ ∀ c ∈ s, isSep c = false := by
  simp only [orientCond, Bool.or_eq_true, beq_iff_eq] at h
  rcases h with h | h
  · exact ⟨lowerS_ne_nil h (by decide), lowerS_no_sep h (by decide)⟩
  · exact ⟨lowerS_ne_nil h (by decide), lowerS_no_sep h (by decide)⟩

theorem orientCond_not_com {s : Str} (h : orientCond s = true) : comCond s = false := by
  simp only [orientCond, Bool.or_eq_true, beq_iff_eq] at h
  unfold comCond
  rcases h with h | h <;> rw [h] <;> decide

theorem comHand_eq (s : Str) : comHand s = comCond s := by
  unfold comHand
  rw [Bool.eq_iff_iff, beq_iff_eq]
  constructor
  · intro h
    exact (classifyRest_com_iff s).mp (classify_kw h (by simp) (by simp) (by simp))
  · intro h
    obtain ⟨h1, h2⟩ := comCond_no_sep h
    rw [classify_one_field h1 h2]
    exact (classifyRest_com_iff s).mpr h

theorem orientHand_eq (s : Str) : orientHand s = orientCond s := by
  unfold orientHand
  rw [Bool.eq_iff_iff, beq_iff_eq]
  constructor
  · intro h
    exact ((classifyRest_orient_iff s).mp (classify_kw h (by simp) (by simp) (by simp))).2
  · intro h
    obtain ⟨h1, h2⟩ := orientCond_no_sep h
    rw [classify_one_field h1 h2]
    exact (classifyRest_orient_iff s).mpr ⟨orientCond_not_com h, h⟩

/-- **com**: `\A(no_com|nocom)\Z` under IGNORECASE, by the generic engine on the generated AST, is what `classify` answers -/
theorem _root_.QcelVerif.MolText.com_eq_regex (s : Str) : comRe s = comHand s := by
  rw [comHand_eq, Bool.eq_iff_iff, comRe_iff]
  simp [comCond]

/-- **orient**: `\A(no_reorient|noreorient)\Z` under IGNORECASE -/
theorem _root_.QcelVerif.MolText.orient_eq_regex (s : Str) : orientRe s = orientHand s := by
  rw [orientHand_eq, Bool.eq_iff_iff, orientRe_iff]
  simp [orientCond]

/-! ## letters -/

def IsLetter (c : Char) : Prop := (65 ≤ c.toNat ∧ c.toNat ≤ 90) ∨ (97 ≤ c.toNat ∧ c.toNat ≤ 122)

theorem letter_of_lower {c : Char} {d : Char} (h : c.toLower = d) (hd : 97 ≤ d.toNat ∧ d.toNat ≤ 122) : IsLetter c := by
  have h' : c.toLower.toNat = d.toNat := by rw [h]
  rw [toLower_nat] at h'
  unfold IsLetter
  split at h' <;> omega

theorem letter_alpha {c : Char} (h : IsLetter c) : c.isAlpha = true := by
  rw [isAlpha_nat]
  unfold IsLetter at h
  simp only [isAlphaC, Bool.or_eq_true, Bool.and_eq_true, decide_eq_true_eq]
  exact h

theorem letter_not_digit {c : Char} (h : IsLetter c) : c.isDigit = false := by
  rw [isDigit_nat, Bool.eq_false_iff]
  unfold IsLetter at h
  simp only [isDigitC, ne_eq, Bool.and_eq_true, decide_eq_true_eq]
  omega

theorem letter_not_sep {c : Char} (h : IsLetter c) : isSep c = false := by
  rw [isSep_nat, Bool.eq_false_iff]
  unfold IsLetter at h
  simp only [ne_eq, Bool.or_eq_true, beq_iff_eq]
  omega

theorem letter_ne {c : Char} (h : IsLetter c) (d : Char) (hd : d.toNat < 65) : (c == d) = false := by
  rw [beq_lit, Bool.eq_false_iff]
  unfold IsLetter at h
  simp only [ne_eq, beq_iff_eq]
  omega

theorem letter_not_mant {c : Char} (h : IsLetter c) : isMantChar c = false := by
  simp [isMantChar, letter_not_digit h, letter_ne h '.' (by decide), letter_ne h '+' (by decide), letter_ne h '-' (by decide)]

theorem parseNumber_letter {c : Char} (X : Str) (h : IsLetter c) : parseNumber (c :: X) = none := by
  simp [parseNumber, letter_not_mant h, parseMant]

theorem parseCore_letters (g : Bool) {c1 c2 c3 c4 : Char} (X : Str) (h1 : IsLetter c1) (h2 : IsLetter c2) (h3 : IsLetter c3) (h4 : IsLetter c4) :
    parseCore g (c1 :: c2 :: c3 :: c4 :: X) = none := by
  have a1 : (c1 != '@') = true := by simp [bne, letter_ne h1 '@' (by decide)]
  have a2 : (c2 != '@') = true := by simp [bne, letter_ne h2 '@' (by decide)]
  have a3 : (c3 != '@') = true := by simp [bne, letter_ne h3 '@' (by decide)]
  have a4 : (c4 != '@') = true := by simp [bne, letter_ne h4 '@' (by decide)]
  unfold parseCore
  simp only [List.takeWhile_cons, List.dropWhile_cons, a1, a2, a3, a4, if_true, letter_not_digit h1, letter_alpha h1, letter_alpha h2,
    letter_alpha h3, letter_alpha h4, Bool.false_eq_true, if_false]
  split
  · rfl
  · simp

theorem parseNucleus_letters {c1 c2 c3 c4 : Char} (X : Str) (h1 : IsLetter c1) (h2 : IsLetter c2) (h3 : IsLetter c3) (h4 : IsLetter c4) :
    parseNucleus (c1 :: c2 :: c3 :: c4 :: X) = none := by
  unfold parseNucleus
  simp only [letter_ne h1 '@' (by decide), isGhPrefix, letter_ne h3 '(' (by decide), Bool.and_false, Bool.false_eq_true, if_false]
  exact parseCore_letters false X h1 h2 h3 h4


/-! ## hand side of `symmetry` -/

/-- the token branches of `classify` need a NUMBER (two fields) or a NUCLEUS (four fields) in front -/
theorem classify_eq_rest {s : Str} (hs : s ≠ []) (hnum : parseNumber (s.takeWhile nsep) = none)
    (hnuc : parseNucleus (s.takeWhile nsep) = none) : classify s = classifyRest s := by
  unfold classify
  have hse : s.isEmpty = false := by simpa [List.isEmpty_iff] using hs
  simp only [hse, Bool.false_eq_true, if_false]
  rw [splitSep_unfold s]
  generalize (if s.dropWhile nsep = [] then [] else splitSep ((s.dropWhile nsep).dropWhile isSep)) = T
  rcases T with _ | ⟨b, _ | ⟨c, _ | ⟨d, _ | ⟨e, T⟩⟩⟩⟩
  · rfl
  · simp only [hnum]
  · rfl
  · simp only [hnuc]
  · rfl

def symWord : Str := ['s', 'y', 'm', 'm', 'e', 't', 'r', 'y']

/-- a line whose lower-casing starts with `symmetry` -/
theorem sym_prefix {s r : Str} (h : lowerS s = symWord ++ r) :
    ∃ c1 c2 c3 c4 X, s = c1 :: c2 :: c3 :: c4 :: X ∧ IsLetter c1 ∧ IsLetter c2 ∧ IsLetter c3 ∧ IsLetter c4 := by
  match s, h with
  | c1 :: c2 :: c3 :: c4 :: X, h =>
    simp only [lowerS, symWord, List.map_cons] at h
    have h' : c1.toLower = 's' ∧ c2.toLower = 'y' ∧ c3.toLower = 'm' ∧ c4.toLower = 'm' := by
      injection h with e1 h; injection h with e2 h; injection h with e3 h; injection h with e4 h
      exact ⟨e1, e2, e3, e4⟩
    exact ⟨c1, c2, c3, c4, X, rfl, letter_of_lower h'.1 (by decide), letter_of_lower h'.2.1 (by decide),
      letter_of_lower h'.2.2.1 (by decide), letter_of_lower h'.2.2.2 (by decide)⟩
  | [], h => simp [lowerS, symWord] at h
  | [_], h => simp [lowerS, symWord] at h
  | [_, _], h => simp [lowerS, symWord] at h
  | [_, _, _], h => simp [lowerS, symWord] at h

theorem classify_sym_line {s r : Str} (h : lowerS s = symWord ++ r) : classify s = classifyRest s := by
  obtain ⟨c1, c2, c3, c4, X, rfl, h1, h2, h3, h4⟩ := sym_prefix h
  have n1 : nsep c1 = true := by simp [nsep, letter_not_sep h1]
  have n2 : nsep c2 = true := by simp [nsep, letter_not_sep h2]
  have n3 : nsep c3 = true := by simp [nsep, letter_not_sep h3]
  have n4 : nsep c4 = true := by simp [nsep, letter_not_sep h4]
  have ht : (c1 :: c2 :: c3 :: c4 :: X).takeWhile nsep = c1 :: c2 :: c3 :: c4 :: X.takeWhile nsep := by
    simp [n1, n2, n3, n4]
  apply classify_eq_rest (by simp)
  · rw [ht]; exact parseNumber_letter _ h1
  · rw [ht]; exact parseNucleus_letters _ h1 h2 h3 h4

theorem classifySym_prefix {s pg : Str} (h : classifySym s = some pg) : ∃ r, lowerS s = symWord ++ r := by
  unfold classifySym at h
  dsimp only at h
  split at h
  · rename_i r heq; exact ⟨r, heq⟩
  · cases h

theorem classifyRest_sym_of {s pg : Str} (h : classifyRest s = .sym pg) : classifySym s = some pg := by
  unfold classifyRest at h
  dsimp only at h
  split at h
  · cases h
  split at h
  · cases h
  split at h
  · cases h
  split at h
  · cases h
  split at h
  · cases h
  split at h
  · rename_i pg' heq
    injection h with h
    rw [heq, h]
  split at h
  · split at h <;> cases h
  · split at h
    · split at h <;> cases h
    · cases h
  · cases h

theorem classifyUnits_s (r : Str) : classifyUnits ('s' :: r) = none := by
  unfold classifyUnits
  split
  · rename_i heq
    injection heq with h1 _
    exact absurd h1 (by decide)
  · rfl

theorem classifyRest_sym {s pg : Str} (h : classifySym s = some pg) : classifyRest s = .sym pg := by
  obtain ⟨r, hl⟩ := classifySym_prefix h
  have hs2 : ¬ (s == "--".toList) = true := by
    intro h2
    rw [beq_iff_eq] at h2
    rw [h2] at hl
    simp [lowerS, symWord] at hl
  have e1 : ¬ (symWord ++ r == "no_com".toList || symWord ++ r == "nocom".toList) = true := by simp [symWord]
  have e2 : ¬ (symWord ++ r == "no_reorient".toList || symWord ++ r == "noreorient".toList) = true := by simp [symWord]
  have e3 : ¬ (List.take 7 (symWord ++ r) == "pubchem".toList) = true := by simp [symWord]
  have e4 : classifyUnits (symWord ++ r) = none := classifyUnits_s _
  unfold classifyRest
  dsimp only
  rw [hl, if_neg e1, if_neg e2, if_neg hs2, if_neg e3, e4, h]

theorem symHand_eq (s : Str) : symHand s = classifySym s := by
  unfold symHand
  cases hc : classifySym s with
  | some pg =>
    obtain ⟨r, hl⟩ := classifySym_prefix hc
    rw [classify_sym_line hl, classifyRest_sym hc]
  | none =>
    split
    · rename_i pg hcl
      have := classifyRest_sym_of (classify_kw hcl (by simp) (by simp) (by simp))
      rw [hc] at this
      cases this
    · rfl

/-! ## regex side of `symmetry` -/

theorem isWsEq_toLower (c : Char) : isWsEq c.toLower = isWsEq c := by
  rw [← cls_wsEq, ← cls_wsEq, toLower_nat]
  split
  · rename_i h
    simp only [clsMem, Item.mem, isSpaceC, List.any_cons, List.any_nil, Bool.or_false]
    rw [Bool.eq_iff_iff]
    simp
    omega
  · rfl

theorem isWord_toLower (c : Char) : isWord c.toLower = isWord c := by
  rw [isWord_nat, isWord_nat, toLower_nat]
  split
  · rename_i h
    simp only [isWordC, isAlphaC, isDigitC]
    rw [Bool.eq_iff_iff]
    simp
    omega
  · rfl

theorem word_not_wsEq {c : Char} (h : isWord c = true) : isWsEq c = false := by
  rw [← cls_wsEq]
  rw [isWord_nat] at h
  simp only [isWordC, isAlphaC, isDigitC] at h
  simp only [clsMem, Item.mem, isSpaceC, List.any_cons, List.any_nil, Bool.or_false]
  simp at h ⊢
  omega

/-- the decomposition both sides agree on: keyword, `[\s=]+` run, point-group word -/
def SymSplit (s K W P : Str) : Prop :=
  s = K ++ (W ++ P) ∧ lowerS K = symWord ∧ W ≠ [] ∧ (∀ c ∈ W, isWsEq c = true) ∧ P ≠ [] ∧ (∀ c ∈ P, isWord c = true)

theorem symWord_bytes (K : Str) : toBytes (lowerS K) = [115, 121, 109, 109, 101, 116, 114, 121] ↔ lowerS K = symWord :=
  ⟨fun h => toBytes_inj (b := symWord) h, fun h => by rw [h]; rfl⟩

theorem sym_sound (s : Str) (x : St) (hx : x ∈ FromStringRegex.symmetry.ms (St.init (toBytes s))) :
    ∃ K W P, SymSplit s K W P ∧ grp x 1 = some P := by
  rw [symmetry_shape] at hx
  obtain ⟨m0, h0, hx⟩ := mem_ms_seq.mp hx
  obtain ⟨_, rfl⟩ := mem_ms_bos.mp h0
  obtain ⟨K, T, m, rfl, hK, hm, hx⟩ := litK_sound _ _ (by decide) (st := St.init (toBytes s)) (U := s) rfl hx
  obtain ⟨m2, h2, hx⟩ := mem_ms_seq.mp hx
  rw [wsEq1, plus_mem_str cls_wsEq T m m2 hm] at h2
  obtain ⟨W, B, hW0, rfl, hW, rfl⟩ := h2
  obtain ⟨m3, h3, hx⟩ := mem_ms_seq.mp hx
  obtain ⟨hr, rfl⟩ := mem_ms_eos.mp hx
  obtain ⟨y, hy, rfl⟩ := mem_ms_group.mp h3
  rw [word1, plus_mem_str cls_word B _ y rfl] at hy
  obtain ⟨P, R, hP0, rfl, hP, rfl⟩ := hy
  have hR : R = [] := toBytes_eq_nil.mp hr
  subst hR
  refine ⟨K, W, P, ⟨by simp, (symWord_bytes K).mp hK, hW0, hW, hP0, hP⟩, ?_⟩
  simp [grp, St.group, takeDiff_nil, ofBytes_toBytes]

theorem sym_complete (s K W P : Str) (h : SymSplit s K W P) : ∃ x, x ∈ FromStringRegex.symmetry.ms (St.init (toBytes s)) := by
  obtain ⟨rfl, hK, hW0, hW, hP0, hP⟩ := h
  rw [symmetry_shape]
  obtain ⟨m, hm, hall⟩ := litK_complete (.seq wsEq1 (.seq (.group 1 word1) .eos)) _ (by decide)
    (st := St.init (toBytes (K ++ (W ++ P)))) (A := K) (T := W ++ P) rfl ((symWord_bytes K).mpr hK)
  have hin : ∃ x, x ∈ (Re.seq wsEq1 (.seq (.group 1 word1) .eos)).ms m := by
    refine ⟨St.capture 1 (m.adv (toBytes W) (toBytes P)) ((m.adv (toBytes W) (toBytes P)).adv (toBytes P) (toBytes [])),
      mem_ms_seq.mpr ⟨m.adv (toBytes W) (toBytes P), ?_, mem_ms_seq.mpr ⟨_, mem_ms_group.mpr
        ⟨(m.adv (toBytes W) (toBytes P)).adv (toBytes P) (toBytes []), ?_, rfl⟩, mem_ms_eos.mpr ⟨rfl, rfl⟩⟩⟩⟩
    · rw [wsEq1, plus_mem_str cls_wsEq (W ++ P) m _ hm]
      exact ⟨W, P, hW0, rfl, hW, rfl⟩
    · rw [word1, plus_mem_str cls_word P _ _ rfl]
      exact ⟨P, [], hP0, by simp, hP, rfl⟩
  obtain ⟨x, hx⟩ := hin
  exact ⟨x, mem_ms_seq.mpr ⟨_, mem_ms_bos.mpr ⟨rfl, rfl⟩, hall x hx⟩⟩

theorem lowerS_append (a b : Str) : lowerS (a ++ b) = lowerS a ++ lowerS b := by simp [lowerS]

theorem afterKw_run (W P : Str) (hW0 : W ≠ []) (hW : ∀ c ∈ W, isWsEq c = true) (hP : ∀ c ∈ P, isWord c = true) :
    afterKw (lowerS W ++ lowerS P) = some (lowerS P) := by
  have hW' : ∀ c ∈ lowerS W, isWsEq c = true := by
    intro c hc
    obtain ⟨d, hd, rfl⟩ := List.mem_map.mp hc
    rw [isWsEq_toLower]; exact hW d hd
  have hstop : lowerS P = [] ∨ ∃ d t, lowerS P = d :: t ∧ isWsEq d = false := by
    cases P with
    | nil => exact Or.inl rfl
    | cons p P' =>
      exact Or.inr ⟨p.toLower, lowerS P', rfl, word_not_wsEq (by rw [isWord_toLower]; exact hP p (by simp))⟩
  have hd := dw_app (p := isWsEq) (lowerS W) (lowerS P) hW' hstop
  cases W with
  | nil => exact absurd rfl hW0
  | cons w W' =>
    have hw : isWsEq w.toLower = true := hW' _ (by simp [lowerS])
    simp only [lowerS, List.map_cons, List.cons_append, afterKw, hw, if_true] at hd ⊢
    rw [hd]

theorem classifySym_split {s K W P : Str} (h : SymSplit s K W P) : classifySym s = some (lowerS P) := by
  obtain ⟨rfl, hK, hW0, hW, hP0, hP⟩ := h
  unfold classifySym
  dsimp only
  rw [lowerS_append, lowerS_append, hK]
  show (match afterKw (lowerS W ++ lowerS P) with
    | none => none
    | some pg => if (!pg.isEmpty && pg.all isWord) = true then some pg else none) = _
  rw [afterKw_run W P hW0 hW hP]
  have h1 : (lowerS P).isEmpty = false := by
    cases P with
    | nil => exact absurd rfl hP0
    | cons _ _ => rfl
  have h2 : (lowerS P).all isWord = true := by
    rw [List.all_eq_true]
    intro c hc
    obtain ⟨d, hd, rfl⟩ := List.mem_map.mp hc
    rw [isWord_toLower]; exact hP d hd
  simp [h1, h2]

theorem classifySym_decomp {s pg : Str} (h : classifySym s = some pg) : ∃ K W P, SymSplit s K W P := by
  obtain ⟨r, hl⟩ := classifySym_prefix h
  obtain ⟨K, R, rfl, hK, hR⟩ : ∃ K R, s = K ++ R ∧ lowerS K = symWord ∧ lowerS R = r := by
    unfold lowerS at hl ⊢
    exact List.map_eq_append_iff.mp hl
  subst hR
  unfold classifySym at h
  dsimp only at h
  rw [lowerS_append, hK] at h
  change (match afterKw (lowerS R) with
    | none => none
    | some pg => if (!pg.isEmpty && pg.all isWord) = true then some pg else none) = _ at h
  have hfun : (isWsEq ∘ Char.toLower) = isWsEq := funext isWsEq_toLower
  cases R with
  | nil => simp [lowerS, afterKw] at h
  | cons c R' =>
    by_cases hc : isWsEq c = true
    · have hc' : isWsEq c.toLower = true := by rw [isWsEq_toLower]; exact hc
      have hdw : (lowerS (c :: R')).dropWhile isWsEq = lowerS ((c :: R').dropWhile isWsEq) := by
        unfold lowerS; rw [List.dropWhile_map, hfun]
      have hak : afterKw (lowerS (c :: R')) = some (lowerS ((c :: R').dropWhile isWsEq)) := by
        rw [← hdw]
        simp only [lowerS, List.map_cons, afterKw, hc', if_true]
      rw [hak] at h
      dsimp only at h
      split at h
      · rename_i hcond
        simp only [Bool.and_eq_true, Bool.not_eq_true', List.all_eq_true] at hcond
        refine ⟨K, (c :: R').takeWhile isWsEq, (c :: R').dropWhile isWsEq, ?_, hK, ?_, ?_, ?_, ?_⟩
        · rw [List.takeWhile_append_dropWhile]
        · simp [hc]
        · intro d hd; exact of_mem_takeWhile hd
        · intro hP; rw [hP] at hcond; simp [lowerS] at hcond
        · intro d hd
          rw [← isWord_toLower]
          exact hcond.2 _ (List.mem_map.mpr ⟨d, hd, rfl⟩)
      · cases h
    · have hc' : isWsEq c.toLower = false := by rw [isWsEq_toLower]; simpa using hc
      simp [lowerS, afterKw, hc'] at h

theorem symRe_eq (s : Str) : symRe s = classifySym s := by
  unfold symRe
  rw [matchPrefix_eq_head, symmetry_group]
  cases hms : FromStringRegex.symmetry.ms (St.init (toBytes s)) with
  | nil =>
    cases hc : classifySym s with
    | none => rfl
    | some pg =>
      obtain ⟨K, W, P, hsp⟩ := classifySym_decomp hc
      obtain ⟨x, hx⟩ := sym_complete s K W P hsp
      rw [hms] at hx
      simp at hx
  | cons x l =>
    obtain ⟨K, W, P, hsp, hg⟩ := sym_sound s x (by rw [hms]; simp)
    rw [classifySym_split hsp]
    simp [hg]

/-- **symmetry**: `\Asymmetry[\s=]+(?P<pg>\w+)\Z` under IGNORECASE, by the generic engine on the generated AST and read as
`process_symmetry` reads it (`group("pg").lower()`), is what `classify` answers, for every string -/
theorem _root_.QcelVerif.MolText.sym_eq_regex (s : Str) : symRe s = symHand s := by
  rw [symRe_eq, symHand_eq]

end Kw

end QcelVerif.MolText
