import QcelVerif.Lemmas.ReconC06
import QcelVerif.Props.C06Shipped
/-!
# C04 ∘ C06 — `from_arrays` with the C06 model of `reconcile_nucleus` as its per-atom reconciler

`Props/C04.lean` proves `from_arrays_inv`, `from_arrays_idempotent`, `from_schema_inv` for ANY
reconciler under the hypotheses `NucSound env.recon valid` / `NucIdem env.recon`.  Here the
reconciler is the C06 model (`Model/ReconC06.lean`: `reconOfC06 rd` = `reconcile shippedN rd` behind
the adapter `toInput` / `toNuc` / `errOf`) and the hypotheses are discharged as far as they are TRUE:

  * `NucSound` — in full, for any rounding function (`recon_c06_sound_shipped`; the only fact about
    the table is `shipped_coherent`, a kernel evaluation over the generated table).  Hence
    `from_arrays_inv_c06`, `from_schema_inv_c06` are unconditional.
  * `NucIdem` — is FALSE for the C06 model over the shipped table (`recon_c06_not_idem`: `A=2, Z=1`,
    `mtol = 2` is answered `(2, 1, 'H', mass(H1))`, which fed back is a ValidationError; the code does
    the same).  What is proved is idempotence for atoms that are *self-consistent*
    (`SelfConsistent`: the mass is a rounded number and re-derives the atom's own mass number —
    C06's `reconcile_idem_partial`), and that an atom IS self-consistent whenever a mass clue was
    supplied (`recon_c06_idem_mass_clue`, C06's `reconcile_idem_mass_clue`).  Since a fed-back record
    supplies every mass, `from_arrays` is a projection from the second pass on, whatever the first
    input was (`from_arrays_second_pass_c06`).  An atom is also self-consistent when there was no
    isotope information at all (default isotope; `selfConsistent_of_default`, with the table-wide
    kernel check `shipped_default_rederives`), which makes the fixed point unconditional for plain
    molecules under `rd64` (`from_arrays_idempotent_c06_plain`).  The uncovered class is: a mass
    number supplied WITHOUT a mass (isotope by `elea` or by label).

Residual hypotheses, stated on each theorem: `hodd : ∀ x, rd (-x) = -(rd x)` (proved for the driver's
`rd64`: `rd64_odd`) and, where a mass clue is used, `hidem : ∀ x, rd (rd x) = rd x` (a rounded
number rounds to itself; NOT proved for `rd64` here — `rd64` is tied to CPython's `float()` by C06's
`D` lines).

PROPERTY-THEOREMS:
  recon_c06_sound  recon_c06_sound_shipped  recon_c06_respects_clues
  recon_c06_idem_partial  recon_c06_idem_mass_clue  recon_c06_idem_on_feedback  recon_c06_not_idem
  from_arrays_inv_c06  from_schema_inv_c06
  from_arrays_idempotent_c06_partial  from_arrays_idempotent_c06_masses  from_arrays_second_pass_c06
  from_arrays_idempotent_c06_plain  shipped_default_rederives
  recon_c06_idem_mass_clue_fix  from_arrays_idempotent_c06_masses_fix  from_arrays_second_pass_c06_rd64
  from_arrays_not_idempotent_c06  rd64_odd  driver_recon_eq  selfConsistentB_iff
-/
namespace QcelVerif.FromArrays
open QcelVerif QcelVerif.PStr QcelVerif.Nucleus

/-! ## soundness: `NucSound` discharged -/

/-- C06's validity of one atom of a record validated with settings `st`: it is the image of a C06
output `(A, Z, E, mass, real, tag)` such that
 1. `(Z, E)` is a row of the periodic table,
 2. `A = −1`, or `E + str(A)` is a tabulated nuclide whose mass is the atom's mass or is
    (float-evaluated) within `mtol` of it,
 3. unless `nonphysical`: `A = −1` or inside the element's tabulated mass-number range and
    `fl(mmin − 0.5) ≤ mass ≤ fl(mmax + 0.5)`; with `nonphysical`: `A = −1 ∨ A ≥ 1`, `mass > 0.5`,
 4. `real` is a `bool` and the tag is lower-case. -/
def ValidC06 (N : NTables) (rd : Rat → Rat) (rng : Nat → Option Range) (st : NucSettings) (u : Nuc) : Prop :=
  ∃ o : Output, u = toNuc o ∧
    N.pt.toE (.int o.Z) false = some o.E ∧
    (o.A = -1 ∨ ∃ tm, tableMass N rd (.str (unpack o.E ++ intStr o.A)) = .ok tm ∧
        (tm = o.mass ∨ absR (rd (tm - o.mass)) ≤ st.mtol ∨ absR (rd (o.mass - tm)) ≤ st.mtol)) ∧
    (∃ r, rng o.E = some r ∧
        (if st.nonphysical then (o.A = -1 ∨ 1 ≤ o.A) ∧ 1/2 < o.mass
         else (o.A = -1 ∨ (r.amin ≤ o.A ∧ o.A ≤ r.amax)) ∧
              rd (r.mmin - 1/2) ≤ o.mass ∧ o.mass ≤ rd (r.mmax + 1/2))) ∧
    (∃ b, o.real = .bool b) ∧ PStr.lower o.user = o.user

/-- what a successful call of the adapted reconciler is -/
theorem reconOfC06With_ok {N : NTables} {rd rng} {st : NucSettings} {c : Clue} {u : Nuc}
    (h : reconOfC06With N rd rng st c = .ok u) :
    ∃ o, reconcileWith N rd rng (toInput st c) = .ok o ∧ u = toNuc o := by
  unfold reconOfC06With at h
  split at h
  · rename_i o ho
    cases h
    exact ⟨o, ho, rfl⟩
  · cases h

/-- **`NucSound` for the C06 model** — any table coherent at its default isotopes, any rounding
function, any range table. -/
theorem recon_c06_sound (N : NTables) (rd : Rat → Rat) (rng : Nat → Option Range) (hcoh : DefaultCoherent N) :
    NucSound (reconOfC06With N rd rng) (ValidC06 N rd rng) := by
  intro st c u h
  obtain ⟨o, ho, rfl⟩ := reconOfC06With_ok h
  obtain ⟨h1, _, _, _, h5, h6, _, _, h9⟩ := reconcile_sound N rd rng hcoh _ o ho
  refine ⟨o, rfl, h1, h5, h6, real_is_bool ho, ?_⟩
  rw [h9]; exact lower_expectedUser _

/-- **`NucSound` for the C06 model over the shipped table**: no hypothesis left. -/
theorem recon_c06_sound_shipped (rd : Rat → Rat) :
    NucSound (reconOfC06 rd) (ValidC06 shippedN rd (elRange shippedN rd)) :=
  recon_c06_sound shippedN rd _ shipped_coherent.1

/-- **Every supplied clue is kept** (the clue-dependent clauses of `reconcile_sound`, which
`NucSound`'s clue-free `valid` cannot express): a supplied `Z`, `A`, `mass` (as `float(mass)`), `real`
is the answer's; without a real clue and without a label consulted as nucleus specification the atom
is real. -/
theorem recon_c06_respects_clues (N : NTables) (rd : Rat → Rat) (rng : Nat → Option Range) (hcoh : DefaultCoherent N)
    (st : NucSettings) (c : Clue) (u : Nuc) (h : reconOfC06With N rd rng st c = .ok u) :
    (∀ z, c.Z = some z → u.Z = z) ∧ (∀ a, c.A = some a → u.A = a) ∧ (∀ m, c.mass = some m → u.mass = rd m) ∧
    (∀ b, c.real = some b → u.real = b) ∧
    (c.real = none → (st.speclabel = false ∨ c.label = none) → u.real = true) := by
  obtain ⟨o, ho, rfl⟩ := reconOfC06With_ok h
  obtain ⟨_, h2, h3, h4, _, _, h7, h8, _⟩ := reconcile_sound N rd rng hcoh _ o ho
  refine ⟨?_, ?_, ?_, ?_, ?_⟩
  · intro z hz
    exact (h2 z (Or.inl ⟨.int z, by simp [toInput, hz], truncInt_intCast z⟩)).symm
  · intro a ha
    exact (h3 a (Or.inl ⟨.int a, by simp [toInput, ha], truncInt_intCast a⟩)).symm
  · intro m hm
    exact (h4 (rd m) (Or.inl ⟨.float m, by simp [toInput, hm], rfl⟩)).symm
  · intro b hb
    have := h7 (PyNum.bool b).val (Or.inl ⟨.bool b, by simp [toInput, hb], rfl⟩)
    obtain ⟨b', hb'⟩ := real_is_bool ho
    show realOf o.real = b
    rw [hb'] at this ⊢
    rw [realOf_bool]
    cases b <;> cases b' <;> simp [PyNum.val] at this ⊢
  · intro hr hl
    have : o.real = .bool true := by
      apply h8
      rintro v (⟨p, hp, _⟩ | ⟨L, ⟨hs, l, hl', _⟩, _⟩)
      · simp [toInput, hr] at hp
      · rcases hl with hl | hl
        · simp [toInput, hl] at hs
        · simp [toInput, hl] at hl'
    show realOf o.real = true
    rw [this]; rfl

/-! ## idempotence: `NucIdem` as far as it is true -/

/-- every atomic number that resolves has a symbol that resolves back to it (strict mode) -/
def ElementRoundTrips (N : NTables) : Prop :=
  ∀ (z : Int) (sym : Nat), N.pt.toE (.int z) false = some sym →
    N.pt.toZ (.str (unpack sym)) true = some z.toNat ∧ 0 ≤ z

theorem shipped_roundtrips : ElementRoundTrips shippedN := shipped_coherent.2.1

/-- an atom of a record whose mass is a rounded number and re-derives the atom's own mass number:
`round(mass)` names the nuclide `E + str(round(mass))` whose mass is (float-evaluated) within `mtol`,
and `A` is that number — or there is no such nuclide and `A = −1`.  (Decidable, per atom.) -/
def SelfConsistent (N : NTables) (rd : Rat → Rat) (mtol : Rat) (u : Nuc) : Prop :=
  rd u.mass = u.mass ∧ massToAStr N rd u.E mtol u.mass = u.A

/-- the driver's test (`Driver/C04b.lean`, ops `FAq` / `FSq`) decides `SelfConsistent` -/
theorem selfConsistentB_iff (N : NTables) (rd : Rat → Rat) (mtol : Rat) (u : Nuc) :
    selfConsistentB N rd mtol u = true ↔ SelfConsistent N rd mtol u := by
  simp [selfConsistentB, SelfConsistent]

/-- **`NucIdem` for self-consistent answers — PARTIAL.**  An answer of the C06 model that is
`SelfConsistent`, fed back as clues with `speclabel = False` (same `nonphysical`, `mtol`), is answered
by itself.  Any coherent table whose elements round-trip, any odd rounding function.
-- FULL: `NucIdem (reconOfC06With N rd rng)`, i.e. the same without the `SelfConsistent` hypothesis.
-- That is false of the model (and of the code) for windows wide enough to reach a neighbouring
-- nuclide: `recon_c06_not_idem` (shipped table, A=2, Z=1, mtol=2).  `SelfConsistent` is proved to hold
-- whenever a mass clue was supplied (`recon_c06_idem_mass_clue`); without one it would follow for
-- `0 ≤ mtol ≤ 1/4` from `shipped_coherent` (every tabulated mass within 1/4 u of its mass number) and
-- monotonicity of `rd`, which C06 has not formalised (see `reconcile_idem_partial`). -/
theorem recon_c06_idem_partial (N : NTables) (rd : Rat → Rat) (rng : Nat → Option Range)
    (hcoh : DefaultCoherent N) (hrt : ElementRoundTrips N) (hodd : ∀ x, rd (-x) = -(rd x))
    (st : NucSettings) (c : Clue) (u : Nuc) (h : reconOfC06With N rd rng st c = .ok u)
    (hsc : SelfConsistent N rd st.mtol u) :
    reconOfC06With N rd rng { st with speclabel := false } (clueOf u) = .ok u := by
  obtain ⟨o, ho, rfl⟩ := reconOfC06With_ok h
  obtain ⟨hrd, hre⟩ := hsc
  rw [massToAStr_toNuc] at hre
  have hE := (reconcile_sound N rd rng hcoh _ o ho).1
  obtain ⟨o', ho', heq⟩ := reconcile_idem_partial N rd rng hcoh hodd (toInput st c) o ho (hrt o.Z o.E hE) hrd hre
  unfold reconOfC06With
  rw [toInput_clueOf hcoh ho, ho']
  exact congrArg Except.ok (toNuc_congr heq)

/-- a supplied mass (argument or label) whose float value `m` is a fixed point of `rd` makes the answer
self-consistent -/
theorem selfConsistent_of_mass_clue (N : NTables) (rd : Rat → Rat) (rng : Nat → Option Range)
    (hcoh : DefaultCoherent N)
    (st : NucSettings) (c : Clue) (u : Nuc) (h : reconOfC06With N rd rng st c = .ok u)
    (m : Rat) (hM : ClaimsMass rd (toInput st c) m) (hfix : rd m = m) : SelfConsistent N rd st.mtol u := by
  obtain ⟨o, ho, rfl⟩ := reconOfC06With_ok h
  have hmass : m = o.mass := (reconcile_sound N rd rng hcoh _ o ho).2.2.2.1 m hM
  refine ⟨by show rd o.mass = o.mass; rw [← hmass]; exact hfix, ?_⟩
  rw [massToAStr_toNuc]
  obtain ⟨zo, lab, clues, late, hz, _, _, hc, hlate, _, ha, _, _⟩ := reconcileWith_ok ho
  obtain ⟨_, _, _, _, _, _, hlab, _, _, _⟩ := zStage_ok hz
  obtain ⟨_, hall_a⟩ := firstPassing_some ha
  obtain ⟨L, hL, hoL⟩ := mapM_ok_of_mem_left hlate _ (clue_of_ClaimsMass hlab hc hM)
  obtain ⟨_, hp, _, _⟩ := offerClue_massValue hoL
  have h1 := hall_a L.aPred (List.mem_append.mpr (Or.inr (List.mem_map.mpr ⟨L, hL, rfl⟩)))
  rw [hp] at h1
  simp [APred.holds] at h1
  rw [← hmass]; exact h1.symm

/-- **`NucIdem` when a mass was supplied** whose float value rounds to itself (`rd (rd m) = rd m`; true of
every `m` when `rd` is idempotent, and of every `m` that is already a double): the answer fed back is
answered by itself; no hypothesis on the answer. -/
theorem recon_c06_idem_mass_clue_fix (N : NTables) (rd : Rat → Rat) (rng : Nat → Option Range)
    (hcoh : DefaultCoherent N) (hrt : ElementRoundTrips N) (hodd : ∀ x, rd (-x) = -(rd x))
    (st : NucSettings) (c : Clue) (u : Nuc) (h : reconOfC06With N rd rng st c = .ok u)
    (m : Rat) (hcm : c.mass = some m) (hfix : rd (rd m) = rd m) :
    reconOfC06With N rd rng { st with speclabel := false } (clueOf u) = .ok u :=
  recon_c06_idem_partial N rd rng hcoh hrt hodd st c u h
    (selfConsistent_of_mass_clue N rd rng hcoh st c u h (rd m)
      (Or.inl ⟨.float m, by simp [toInput, hcm], rfl⟩) hfix)

/-- **`NucIdem` when a mass was supplied — full** (idempotent rounding function). -/
theorem recon_c06_idem_mass_clue (N : NTables) (rd : Rat → Rat) (rng : Nat → Option Range)
    (hcoh : DefaultCoherent N) (hrt : ElementRoundTrips N)
    (hodd : ∀ x, rd (-x) = -(rd x)) (hidem : ∀ x, rd (rd x) = rd x)
    (st : NucSettings) (c : Clue) (u : Nuc) (h : reconOfC06With N rd rng st c = .ok u)
    (hm : c.mass ≠ none) :
    reconOfC06With N rd rng { st with speclabel := false } (clueOf u) = .ok u := by
  cases hcm : c.mass with
  | none => exact absurd hcm hm
  | some m => exact recon_c06_idem_mass_clue_fix N rd rng hcoh hrt hodd st c u h m hcm (hidem m)

/-- **`NucIdem` on everything that is itself a fed-back answer — full.**  `clueOf v` always carries
a mass, so whatever is answered to the clues of a record atom is reproduced from then on. -/
theorem recon_c06_idem_on_feedback (N : NTables) (rd : Rat → Rat) (rng : Nat → Option Range)
    (hcoh : DefaultCoherent N) (hrt : ElementRoundTrips N)
    (hodd : ∀ x, rd (-x) = -(rd x)) (hidem : ∀ x, rd (rd x) = rd x)
    (st : NucSettings) (v u : Nuc) (h : reconOfC06With N rd rng st (clueOf v) = .ok u) :
    reconOfC06With N rd rng { st with speclabel := false } (clueOf u) = .ok u :=
  recon_c06_idem_mass_clue N rd rng hcoh hrt hodd hidem st (clueOf v) u h (by simp [clueOf])

/-! ### no isotope information at all: the default isotope is self-consistent -/

/-- the table's default isotopes re-derive themselves: for every element, the (rounded) default mass
rounds half-even to the default mass number and is a fixed point of `rd` -/
def DefaultReDerives (N : NTables) (rd : Rat → Rat) : Prop :=
  ∀ (z : Int) (sym a : Nat) (m : Rat), N.pt.toE (.int z) false = some sym → N.pt.toA (.int z) = some a →
    tableMass N rd (.int z) = .ok m → roundHalfEven m = (a : Int) ∧ rd m = m

/-- without any mass-number or mass clue (argument or label) the answer — the default isotope,
`reconcile_default` — is self-consistent for every `mtol ≥ 0` -/
theorem selfConsistent_of_default (N : NTables) (rd : Rat → Rat) (rng : Nat → Option Range)
    (hcoh : DefaultCoherent N) (hdef : DefaultReDerives N rd) (hodd : ∀ x, rd (-x) = -(rd x))
    (st : NucSettings) (c : Clue) (u : Nuc) (h : reconOfC06With N rd rng st c = .ok u)
    (hA : ∀ a, ¬ ClaimsA (toInput st c) a) (hM : ∀ m, ¬ ClaimsMass rd (toInput st c) m) (hmtol : 0 ≤ st.mtol) :
    SelfConsistent N rd st.mtol u := by
  obtain ⟨o, ho, rfl⟩ := reconOfC06With_ok h
  obtain ⟨⟨a, ha, hoA⟩, hm⟩ := reconcile_default N rd rng _ o ho hA hM
  have hE := (reconcile_sound N rd rng hcoh _ o ho).1
  obtain ⟨hround, hfix⟩ := hdef o.Z o.E a o.mass hE ha hm
  refine ⟨hfix, ?_⟩
  rw [massToAStr_toNuc]
  have hkey : tableMass N rd (.str (unpack o.E ++ intStr (roundHalfEven o.mass))) = .ok o.mass := by
    rw [hround]
    unfold tableMass at hm ⊢
    rw [hcoh o.Z o.E a hE ha]; exact hm
  have hz : rd (o.mass - o.mass) = 0 := by
    have h0 : o.mass - o.mass = 0 := by grind
    have := hodd 0
    rw [h0]; grind
  unfold massToA
  simp only [hkey, hz]
  have : ¬ st.mtol < absR 0 := by unfold absR; grind
  rw [if_neg this, hround]
  exact hoA.symm

/-- no `A`, no `mass`, and the label (if any) not consulted as a nucleus specification: no isotope clue -/
theorem no_isotope_clue {st : NucSettings} {c : Clue} {rd : Rat → Rat} (hA : c.A = none) (hM : c.mass = none)
    (hl : st.speclabel = false ∨ c.label = none) :
    (∀ a, ¬ ClaimsA (toInput st c) a) ∧ (∀ m, ¬ ClaimsMass rd (toInput st c) m) := by
  have nolabel : ∀ L, ¬ LabelIs (toInput st c) L := by
    rintro L ⟨hs, l, hl', _⟩
    rcases hl with hl | hl
    · simp [toInput, hl] at hs
    · simp [toInput, hl] at hl'
  constructor
  · rintro a (⟨p, hp, _⟩ | ⟨L, _, hL, _⟩)
    · simp [toInput, hA] at hp
    · exact nolabel L hL
  · rintro m (⟨p, hp, _⟩ | ⟨L, _, _, hL, _⟩)
    · simp [toInput, hM] at hp
    · exact nolabel L hL

/-! ## `rd64` -/

/-- the driver's rounding function is odd (`hodd` discharged for `rd64`) -/
theorem rd64_odd (x : Rat) : rd64 (-x) = -(rd64 x) := by
  by_cases h0 : x = 0
  · subst h0; decide +kernel
  · have hn0 : -x ≠ 0 := by grind
    unfold rd64
    simp only [h0, hn0, if_false]
    by_cases hneg : x < 0
    · have hpos : ¬ (-x < 0) := by grind
      simp only [hneg, hpos, if_true, if_false, Rat.neg_neg]
    · have hpos : -x < 0 := by grind
      simp only [hneg, hpos, if_true, if_false, Rat.neg_neg]

/-- the reconciler that `Driver/C04b.lean` runs (memoised range table) is `reconOfC06 rd64` -/
theorem driver_recon_eq (syms : List Nat) :
    reconOfC06With shippedN rd64 (lookupRange shippedN rd64 (memoRange shippedN rd64 syms)) = reconOfC06 rd64 := by
  unfold reconOfC06
  congr 1
  funext s
  exact lookupRange_memo shippedN rd64 syms s

/-! ## the C04 theorems with the C06 model plugged in -/

/-- **Invariant, unconditional.**  Whenever `from_arrays` with the C06 model of `reconcile_nucleus`
over the shipped periodic table succeeds, the record satisfies C04's invariant with every atom valid
in C06's sense (`ValidC06`) — any rounding function, any Å→a₀ factor, any number of atoms. -/
theorem from_arrays_inv_c06 (rd : Rat → Rat) (angToAu : Rat) (i : Inp) (r : Molrec)
    (h : fromArrays (envC06 rd angToAu) i = .ok r) :
    Inv (ValidC06 shippedN rd (elRange shippedN rd)) angToAu (nucSettings i) i.tooclose r :=
  from_arrays_inv (envC06 rd angToAu) _ (recon_c06_sound_shipped rd) i r h

/-- **Invariant through `from_schema`, unconditional.** -/
theorem from_schema_inv_c06 (rd : Rat → Rat) (angToAu : Rat) (s : Schema) (r : Molrec)
    (h : fromSchema (envC06 rd angToAu) s = .ok r) :
    Inv (ValidC06 shippedN rd (elRange shippedN rd)) angToAu
      { speclabel := false, nonphysical := s.body.nonphysical, mtol := dfltMtol } dfltTooclose r ∧
    r.units = sBohr :=
  from_schema_inv (envC06 rd angToAu) _ (recon_c06_sound_shipped rd) s r h

/-- every atom of a returned record is an answer of the reconciler to some clue, under the call's settings -/
theorem recNucs_answers {env : Env} {i : Inp} {r : Molrec} (h : fromArrays env i = .ok r) :
    ∀ u ∈ recNucs r, ∃ c, c ∈ clues (nucArrays (r.geom.length / 3) i).elea (nucArrays (r.geom.length / 3) i).elez
        (nucArrays (r.geom.length / 3) i).elem (nucArrays (r.geom.length / 3) i).mass
        (nucArrays (r.geom.length / 3) i).real (nucArrays (r.geom.length / 3) i).elbl ∧
      env.recon (nucSettings i) c = .ok u := by
  intro u hu
  obtain ⟨_, hm⟩ := validateNuclei_ok (recNucs_of_ok h)
  exact mapE_ok_mem hm u hu

/-- **Fixed point — PARTIAL.**  A record returned by `from_arrays` (C06 model over the shipped table)
all of whose atoms are `SelfConsistent` for the call's `mtol`, passed through `from_arrays` again
(`speclabel=False`), is returned unchanged.
-- FULL: the same without `hself`; false in general (`from_arrays_not_idempotent_c06`), true when all
-- masses were supplied (`from_arrays_idempotent_c06_masses`) and hence for every record that has
-- itself been through `from_arrays` once (`from_arrays_second_pass_c06`). -/
theorem from_arrays_idempotent_c06_partial (rd : Rat → Rat) (hodd : ∀ x, rd (-x) = -(rd x)) (angToAu : Rat)
    (i : Inp) (r : Molrec) (h : fromArrays (envC06 rd angToAu) i = .ok r)
    (hself : ∀ u ∈ recNucs r, SelfConsistent shippedN rd i.mtol u) :
    fromArrays (envC06 rd angToAu) (asInput i r) = .ok r := by
  apply from_arrays_idempotent_of _ i r h
  intro u hu
  obtain ⟨c, _, hc⟩ := recNucs_answers h u hu
  exact recon_c06_idem_partial shippedN rd _ shipped_coherent.1 shipped_roundtrips hodd (nucSettings i) c u hc
    (hself u hu)

theorem clues_fields_mem : ∀ (a z : List (Option Int)) (e : List (Option String)) (m : List (Option Rat))
    (r : List (Option Bool)) (l : List (Option String)), ∀ c ∈ clues a z e m r l, c.A ∈ a ∧ c.mass ∈ m ∧ c.label ∈ l
  | a :: as, z :: zs, e :: es, m :: ms, r :: rs, l :: ls, c, hc => by
      simp only [clues, List.mem_cons] at hc ⊢
      rcases hc with rfl | hc
      · exact ⟨Or.inl rfl, Or.inl rfl, Or.inl rfl⟩
      · have := clues_fields_mem as zs es ms rs ls c hc
        exact ⟨Or.inr this.1, Or.inr this.2.1, Or.inr this.2.2⟩
  | [], _, _, _, _, _, c, hc => by simp [clues] at hc
  | _ :: _, [], _, _, _, _, c, hc => by simp [clues] at hc
  | _ :: _, _ :: _, [], _, _, _, c, hc => by simp [clues] at hc
  | _ :: _, _ :: _, _ :: _, [], _, _, c, hc => by simp [clues] at hc
  | _ :: _, _ :: _, _ :: _, _ :: _, [], _, c, hc => by simp [clues] at hc
  | _ :: _, _ :: _, _ :: _, _ :: _, _ :: _, [], c, hc => by simp [clues] at hc

/-- **Fixed point when every mass was supplied** and each supplied mass rounds to itself
(`rd (rd m) = rd m`, e.g. because it is already a double). -/
theorem from_arrays_idempotent_c06_masses_fix (rd : Rat → Rat) (hodd : ∀ x, rd (-x) = -(rd x)) (angToAu : Rat)
    (i : Inp) (r : Molrec) (h : fromArrays (envC06 rd angToAu) i = .ok r)
    (l : List (Option Rat)) (hl : i.mass = some l) (hall : ∀ x ∈ l, ∃ m, x = some m ∧ rd (rd m) = rd m) :
    fromArrays (envC06 rd angToAu) (asInput i r) = .ok r := by
  apply from_arrays_idempotent_of _ i r h
  intro u hu
  obtain ⟨c, hc, hcu⟩ := recNucs_answers h u hu
  have hm := (clues_fields_mem _ _ _ _ _ _ c hc).2.1
  simp only [nucArrays, hl, fillNone] at hm
  obtain ⟨m, hcm, hfix⟩ := hall _ hm
  exact recon_c06_idem_mass_clue_fix shippedN rd _ shipped_coherent.1 shipped_roundtrips hodd
    (nucSettings i) c u hcu m hcm hfix

/-- **Fixed point when every mass was supplied — full** (for an odd, idempotent rounding function). -/
theorem from_arrays_idempotent_c06_masses (rd : Rat → Rat) (hodd : ∀ x, rd (-x) = -(rd x))
    (hidem : ∀ x, rd (rd x) = rd x) (angToAu : Rat)
    (i : Inp) (r : Molrec) (h : fromArrays (envC06 rd angToAu) i = .ok r)
    (l : List (Option Rat)) (hl : i.mass = some l) (hall : ∀ x ∈ l, x ≠ none) :
    fromArrays (envC06 rd angToAu) (asInput i r) = .ok r := by
  apply from_arrays_idempotent_c06_masses_fix rd hodd angToAu i r h l hl
  intro x hx
  cases x with
  | none => exact absurd rfl (hall _ hx)
  | some m => exact ⟨m, rfl, hidem m⟩

/-- **From the second pass on `from_arrays` is a projection — full.**  Whatever the first input was:
if a record `r` fed back (`speclabel=False`) is accepted as `r'`, then `r'` fed back is returned
unchanged (`r` need not come from `from_arrays`, and `r'` may differ from `r`). -/
theorem from_arrays_second_pass_c06 (rd : Rat → Rat) (hodd : ∀ x, rd (-x) = -(rd x))
    (hidem : ∀ x, rd (rd x) = rd x) (angToAu : Rat)
    (i : Inp) (r r' : Molrec) (h : fromArrays (envC06 rd angToAu) (asInput i r) = .ok r') :
    fromArrays (envC06 rd angToAu) (asInput i r') = .ok r' :=
  from_arrays_idempotent_c06_masses rd hodd hidem angToAu (asInput i r) r' h
    (r.mass.map some) rfl (by intro x hx; obtain ⟨m, _, rfl⟩ := List.mem_map.mp hx; simp)

/-- **The same for `rd64`, no hypothesis on the rounding function left**: the masses of the record that is
fed back are binary64 numbers (`rd64 m = m`; decidable on the record, and what a record holds in the
implementation). -/
theorem from_arrays_second_pass_c06_rd64 (angToAu : Rat)
    (i : Inp) (r r' : Molrec) (h : fromArrays (envC06 rd64 angToAu) (asInput i r) = .ok r')
    (hd : ∀ m ∈ r.mass, rd64 m = m) :
    fromArrays (envC06 rd64 angToAu) (asInput i r') = .ok r' :=
  from_arrays_idempotent_c06_masses_fix rd64 rd64_odd angToAu (asInput i r) r' h
    (r.mass.map some) rfl (by
      intro x hx
      obtain ⟨m, hm, rfl⟩ := List.mem_map.mp hx
      exact ⟨m, rfl, by rw [hd m hm, hd m hm]⟩)

/-! ### plain molecules (no isotope information): unconditional for `rd64` on the shipped table -/

/-- element row check: the default mass under `rd64` rounds half-even to the default mass number and is a double -/
def defaultRowOk (r : Nat × Nat × Nat) : Bool :=
  match shippedN.pt.toA (.int (r.1 : Int)), tableMass shippedN rd64 (.int (r.1 : Int)) with
  | some a, .ok m => roundHalfEven m == (a : Int) && rd64 m == m
  | _, _ => false

theorem shipped_default_rows : Gen.PT.elements.all defaultRowOk = true := by decide +kernel

/-- **The shipped default isotopes re-derive themselves under `rd64`** [decide +kernel over the element rows] -/
theorem shipped_default_rederives : DefaultReDerives shippedN rd64 := by
  intro z sym a m hE hA hm
  obtain ⟨r, hr, hz⟩ := row_of_toE hE
  have hok := (List.all_eq_true.mp shipped_default_rows) r hr
  unfold defaultRowOk at hok
  simp only [hz, hA, hm, Bool.and_eq_true, beq_iff_eq] at hok
  exact hok

/-- **Fixed point for inputs without isotope information — full, no residual hypothesis** (`rd64`, shipped
table): no `elea`, no `mass`, labels (if any) not consulted as nucleus specifications, `mtol ≥ 0`.  Every
atom is then its element's default isotope, which re-derives itself (`shipped_default_rederives`). -/
theorem from_arrays_idempotent_c06_plain (angToAu : Rat) (i : Inp) (r : Molrec)
    (h : fromArrays (envC06 rd64 angToAu) i = .ok r)
    (hA : i.elea = none) (hM : i.mass = none) (hl : i.speclabel = false ∨ i.elbl = none) (hmtol : 0 ≤ i.mtol) :
    fromArrays (envC06 rd64 angToAu) (asInput i r) = .ok r := by
  apply from_arrays_idempotent_c06_partial rd64 rd64_odd angToAu i r h
  intro u hu
  obtain ⟨c, hc, hcu⟩ := recNucs_answers h u hu
  obtain ⟨h1, h2, h3⟩ := clues_fields_mem _ _ _ _ _ _ c hc
  simp only [nucArrays, hA, hM, fillNone, eleaNorm, List.map_replicate, List.mem_replicate] at h1 h2
  have hcA : c.A = none := by
    have := h1.2; simpa using this
  have hlab : (nucSettings i).speclabel = false ∨ c.label = none := by
    rcases hl with hl | hl
    · exact Or.inl hl
    · right
      simp only [nucArrays, hl, fillNone, List.mem_replicate] at h3
      exact h3.2
  obtain ⟨nA, nM⟩ := no_isotope_clue (rd := rd64) hcA h2.2 hlab
  exact selfConsistent_of_default shippedN rd64 _ shipped_coherent.1 shipped_default_rederives rd64_odd
    (nucSettings i) c u hcu nA nM hmtol

/-! ## why `NucIdem` / the unconditional fixed point cannot be had: a kernel-checked counter-example
on the shipped table (replayed on the implementation: `from_arrays(geom=[0,0,0], elea=[2], elez=[1],
mtol=2, units='Bohr')` returns `A=2, mass=1.00782503223` and feeding that record back raises
`ValidationError: Inconsistent or unspecified mass number`).  Such windows (`mtol > 0.25 u`) are outside
the quantifier of C06's feedback clause. -/

set_option maxRecDepth 100000

instance : DecidableEq (Except Err Nuc) := fun a b =>
  match a, b with
  | .ok x, .ok y => if h : x = y then isTrue (h ▸ rfl) else isFalse (fun e => h (Except.ok.inj e))
  | .error x, .error y => if h : x = y then isTrue (h ▸ rfl) else isFalse (fun e => h (Except.error.inj e))
  | .ok _, .error _ => isFalse (fun e => by cases e)
  | .error _, .ok _ => isFalse (fun e => by cases e)

/-- `A=2, Z=1` with `mtol = 2`, `speclabel=True` -/
def wideSt : NucSettings := { speclabel := true, nonphysical := false, mtol := 2 }
def wideClue : Clue := { A := some 2, Z := some 1, E := none, mass := none, real := none, label := none }
/-- the answer: deuterium's mass number with the mass of H1 (`float("1.00782503223")`) -/
def wideNuc : Nuc :=
  { A := 2, Z := 1, E := "H", mass := 2269420219802843 / 2251799813685248, real := true, label := "" }

/-- **`NucIdem (reconOfC06 rd64)` is false** [decide +kernel: the whole C06 model under `rd64` on the
generated table, behind the adapter]. -/
theorem recon_c06_not_idem : ¬ NucIdem (reconOfC06 rd64) := by
  intro h
  have h1 : reconOfC06 rd64 wideSt wideClue = .ok wideNuc := by decide +kernel
  have h2 : reconOfC06 rd64 { wideSt with speclabel := false } (clueOf wideNuc) = .error .validation := by
    decide +kernel
  rw [h _ _ _ h1] at h2
  cases h2

/-- one hydrogen atom at the origin, `elea=[2]`, `elez=[1]`, `mtol=2` -/
def wideInp : Inp :=
  { geom := some [0, 0, 0], elea := some [some 2], elez := some [some 1], elem := none, mass := none,
    real := none, elbl := none, name := none, comment := none, units := "Bohr".toList, iutau := none,
    fixCom := .none, fixOrient := .none, fixSymm := none, seps := none, fc := none, fm := none,
    c := none, m := none, conn := none, minimal := false, speclabel := true,
    nonphysical := false, mtol := 2, tooclose := 1 / 10, zgf := false }

def wideRec : Molrec :=
  { units := sBohr, iutau := none, name := none, comment := none, conn := none,
    geom := [0, 0, 0], elea := [2], elez := [1], elem := ["H"], mass := [2269420219802843 / 2251799813685248],
    real := [true], elbl := [""], seps := [], c := 0, fc := [0], m := 2, fm := [2],
    fixCom := false, fixOrient := false, fixSymm := none }

/-- **`from_arrays` is not a fixed point for wide windows** [decide +kernel: the whole pipeline —
`from_arrays` model with the C06 model under `rd64` on the generated table]: the record is returned,
and fed back it is refused. -/
theorem from_arrays_not_idempotent_c06 :
    fromArrays (envC06 rd64 1) wideInp = .ok wideRec ∧
    fromArrays (envC06 rd64 1) (asInput wideInp wideRec) = .error .validation := by
  constructor <;> decide +kernel

/-! ## non-vacuity (tests, labelled as tests): the hypotheses are met by non-trivial values -/

/-- water-like input: `O`, `H`, and a deuterium given by label with its mass (`speclabel=True`), default `mtol` -/
def hdoInp : Inp :=
  { geom := some [0, 0, 0, 0, 0, 2, 0, 2, 0], elea := none, elez := some [some 8, none, none],
    elem := some [none, some "h", none], mass := none, real := none,
    elbl := some [none, none, some "@2H_x@2.014101778"],
    name := none, comment := none, units := "bohr".toList, iutau := none,
    fixCom := .none, fixOrient := .none, fixSymm := none, seps := some [2], fc := none, fm := none,
    c := none, m := none, conn := none, minimal := false, speclabel := true,
    nonphysical := false, mtol := dfltMtol, tooclose := dfltTooclose, zgf := false }

def hdoRec : Molrec :=
  { units := sBohr, iutau := none, name := none, comment := none, conn := none,
    geom := [0, 0, 0, 0, 0, 2, 0, 2, 0], elea := [16, 1, 2], elez := [8, 1, 1], elem := ["O", "H", "H"],
    mass := [4502168220032397 / 281474976710656, 2269420219802843 / 2251799813685248, 4535354008443527 / 2251799813685248],
    real := [true, true, false], elbl := ["", "", "_x"], seps := [2], c := 0, fc := [0, 0], m := 2, fm := [2, 1],
    fixCom := false, fixOrient := false, fixSymm := none }

/-- test [decide +kernel]: the whole pipeline accepts it … -/
theorem hdo_ok : fromArrays (envC06 rd64 1) hdoInp = .ok hdoRec := by decide +kernel

/-- test [decide +kernel]: … every atom of the record is `SelfConsistent` (the hypothesis of
`from_arrays_idempotent_c06_partial` is satisfiable by a 3-atom, 2-fragment record with an isotope and a ghost) … -/
theorem hdo_selfConsistent : ∀ u ∈ recNucs hdoRec, SelfConsistent shippedN rd64 hdoInp.mtol u := by
  have h : (recNucs hdoRec).all (selfConsistentB shippedN rd64 hdoInp.mtol) = true := by decide +kernel
  intro u hu
  exact (selfConsistentB_iff _ _ _ u).mp ((List.all_eq_true.mp h) u hu)

/-- … so the record fed back is returned unchanged — by the theorem, not by evaluation -/
example : fromArrays (envC06 rd64 1) (asInput hdoInp hdoRec) = .ok hdoRec :=
  from_arrays_idempotent_c06_partial rd64 rd64_odd 1 hdoInp hdoRec hdo_ok hdo_selfConsistent

/-- test: the invariant for that record, by the theorem -/
example : Inv (ValidC06 shippedN rd64 (elRange shippedN rd64)) 1 (nucSettings hdoInp) hdoInp.tooclose hdoRec :=
  from_arrays_inv_c06 rd64 1 hdoInp hdoRec hdo_ok

/-- tests: refusals propagate through the adapter with their classes -/
example : reconOfC06 rd64 wideSt { wideClue with Z := some 7 } = .error (.other "NotAnElement") := by decide +kernel
example : reconOfC06 rd64 wideSt { wideClue with E := some "He" } = .error .validation := by decide +kernel
example : reconOfC06 rd64 wideSt { wideClue with label := some "2h)" } = .error .validation := by decide +kernel

end QcelVerif.FromArrays
