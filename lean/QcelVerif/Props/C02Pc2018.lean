import QcelVerif.Props.C02Pred
/-! C02: table-wide theorems about `PhysicalConstantsContext("CODATA2018").pc`. -/
namespace QcelVerif.Constants
open QcelVerif
set_option maxRecDepth 100000

def renamesOk (pc : PC) : Bool :=
  allPairs (renameOk pc Gen.Codata2014.shipped Gen.Codata2018.shipped) renameMap

def pcChecks2018 (pc : PC) : Bool :=
  (allRows (rowEntryOk pc Gen.Codata2018.doi) Gen.Codata2018.shipped && aliasChecks pc) &&
  (renamesOk pc && derivedChecks pc)

theorem pcChecks2018_holds : withPC pc2018 pcChecks2018 = true := by decide +kernel

/-- **Every published 2018 constant is retrievable** under its lower-cased NIST name (hence under any
casing) with label = NIST name, the shipped unit, `Decimal(value)` digit for digit, comment
`uncertainty=<u>` and the set's doi — and by `shipped_eq_nist_2018` these are NIST's.  In
particular none of the 26 legacy names or 30 aliases added later overwrites a published row. -/
theorem constants_retrievable_2018 :
    withPC pc2018 (fun pc => allRows (rowEntryOk pc Gen.Codata2018.doi) Gen.Codata2018.shipped) = true :=
  withPC_and_left (withPC_and_left pcChecks2018_holds)

/-- **The 27 convenience aliases follow the documented definitions (2018)** — same statement as
`aliases_follow_spec_2014`, where the documentation's 2014 names (`Planck constant over 2 pi`,
`electric constant`, `molar Planck constant times c`) denote the legacy entries of the 2018 context. -/
theorem aliases_follow_spec_2018 : withPC pc2018 aliasChecks = true :=
  withPC_and_right (withPC_and_left pcChecks2018_holds)

/-- **The 26 renamed constants stay retrievable under their 2014 names with the 2018 values**: for
every pair of the rename map the old name (a published 2014 name, absent from the 2018 table)
retrieves a Datum labelled with the old name whose Decimal, units, comment and doi are those of the
2018 entry of the new name (a published 2018 name). -/
theorem renames_2018 : withPC pc2018 renamesOk = true :=
  withPC_and_left (withPC_and_right pcChecks2018_holds)

/-- **The three constants NIST dropped after 2014 follow their definitions on 2018 values**:
`molar Planck constant times c` = N_A h · c exactly; `Faraday constant for conventional electric
current` = F / C_90 and `elementary charge over h` = (e/ħ)/(2·π₃₆) in decimal arithmetic digit for
digit and within 2·10⁻²⁷ (relative) of the exact quotient. -/
theorem legacy_derived_2018 : withPC pc2018 derivedChecks = true :=
  withPC_and_right (withPC_and_right pcChecks2018_holds)

/-- test (not a property): the rename map has 26 entries, the alias table 27, the derived table 3 -/
example : renameMap.length = 26 ∧ aliasSpec.length = 27 ∧ derived2018.length = 3 ∧ exactAliases.length = 24 := by decide

end QcelVerif.Constants
