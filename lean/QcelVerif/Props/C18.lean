import QcelVerif.Lemmas.Measure
import Mathlib.Tactic.NormNum
/-!
# C18 — distances, angles, dihedrals and guessed bonds depend only on shape: property theorems

Model: `Model/Measure.lean`.  All theorems hold over every commutative ring / field / ordered
field `K` (so over ℝ, and over ℚ where the driver executes the model) and for every input — no
bound on coordinates or on the number of atoms.

What is proved is about the exact *arguments* of the final transcendental step
(`sqrt`, `arccos`, `arctan2`); that step itself is run-time and is only checked differentially
(`harness/c18.py`).  The code-shaped functions `dihedralXY` / `angleCos` take the run-time norm
as a parameter `n` with `n * n = |·|²`.

PROPERTY-THEOREMS:
  dist_rigid_invariant  angle_args_rigid_invariant  dihedral_args_motion
  dihedral_xy_rigid_invariant  dihedral_xy_reflection  dihedral_xy_reversal
  dihedral_projection_irrelevant  dihedralXY_eq_args  dihedral_textbook
  angle_textbook  angleCos_from_args  distSq_nonneg_zero  sqrt_lt_iff
  connectivity_exact  connectivity_sorted  connectivity_rigid_invariant  connectivity_relabel
  forms_agree_distance  forms_agree_measure  quatRot_isRotation  householder_isReflection
-/
set_option linter.unusedSectionVars false
namespace QcelVerif.Measure
open V3

/-! ## rigid motions exist in exact rational arithmetic (used by the correspondence) -/
section field
variable {K : Type} [Field K]

/-- `U(q)/|q|²` is a proper rotation for every non-null quaternion -/
theorem quatRot_isRotation (a b c d : K) (h : a * a + b * b + c * c + d * d ≠ 0) :
    (quatRot a b c d).IsRotation := by
  refine ⟨?_, ?_⟩
  · unfold M3.IsOrthogonal
    ext <;> simp only [quatRot, M3.mul, M3.transpose, M3.one] <;>
      (generalize hs : a * a + b * b + c * c + d * d = s at h ⊢
       field_simp
       subst hs
       ring)
  · simp only [quatRot, M3.det, M3.row1, M3.row2, M3.row3, V3.dot, V3.cross]
    generalize hs : a * a + b * b + c * c + d * d = s at h ⊢
    field_simp
    subst hs
    ring

/-- a Householder matrix is orthogonal with determinant −1 -/
theorem householder_isReflection (h : V3 K) (h0 : nsq h ≠ 0) : (householder h).IsReflection := by
  have h0' : h.x * h.x + h.y * h.y + h.z * h.z ≠ 0 := h0
  refine ⟨?_, ?_⟩
  · unfold M3.IsOrthogonal
    ext <;> simp only [householder, M3.mul, M3.transpose, M3.one, V3.nsq, V3.dot] <;>
      (generalize hs : h.x * h.x + h.y * h.y + h.z * h.z = s at h0' ⊢
       field_simp
       subst hs
       ring)
  · simp only [householder, M3.det, M3.row1, M3.row2, M3.row3, V3.dot, V3.cross, V3.nsq]
    generalize hs : h.x * h.x + h.y * h.y + h.z * h.z = s at h0' ⊢
    field_simp
    subst hs
    ring

end field

/-! ## invariance of the arguments -/
section ring
variable {K : Type} [CommRing K]

/-- squared distance is unchanged by `p ↦ R p + t`, `R Rᵀ = I` (rotation or reflection) -/
theorem dist_rigid_invariant (T : Motion K) (h : T.R.IsOrthogonal) (p q : V3 K) :
    distSq (T.apply p) (T.apply q) = distSq p q := distSq_motion h p q

/-- the pair feeding `arccos` is unchanged -/
theorem angle_args_rigid_invariant (T : Motion K) (h : T.R.IsOrthogonal) (p1 p2 p3 : V3 K) :
    angleArgs (T.apply p1) (T.apply p2) (T.apply p3) = angleArgs p1 p2 p3 := by
  unfold angleArgs
  simp only [apply_sub, V3.nsq, dot_mulVec h]

/-- the sqrt-free dihedral arguments: `XN`, `N` unchanged, `Y ↦ det R · Y` -/
theorem dihedral_args_motion (T : Motion K) (h : T.R.IsOrthogonal) (p1 p2 p3 p4 : V3 K) :
    dihedralArgs (T.apply p1) (T.apply p2) (T.apply p3) (T.apply p4)
      = ((dihedralArgs p1 p2 p3 p4).1, T.R.det * (dihedralArgs p1 p2 p3 p4).2.1,
         (dihedralArgs p1 p2 p3 p4).2.2) := dihedralArgs_motion h p1 p2 p3 p4

end ring

section field
variable {K : Type} [Field K]

/-- `compute_dihedral`'s `(x, y)` as coded is unchanged by proper rotations and translations;
the norm of the central bond is unchanged as well, so the same run-time `n` serves both sides. -/
theorem dihedral_xy_rigid_invariant (T : Motion K) (h : T.R.IsRotation) (n : K)
    (p1 p2 p3 p4 : V3 K) :
    dihedralXY n (T.apply p1) (T.apply p2) (T.apply p3) (T.apply p4) = dihedralXY n p1 p2 p3 p4 ∧
    nsq (T.apply p3 - T.apply p2) = nsq (p3 - p2) := by
  refine ⟨?_, ?_⟩
  · rw [dihedralXY_motion h.1, h.2, one_mul]
  · unfold V3.nsq
    rw [apply_sub, dot_mulVec h.1]

/-- under an improper orthogonal map `x` is unchanged and `y` changes sign
(so `arctan2(y, x)` changes sign) -/
theorem dihedral_xy_reflection (T : Motion K) (h : T.R.IsReflection) (n : K)
    (p1 p2 p3 p4 : V3 K) :
    dihedralXY n (T.apply p1) (T.apply p2) (T.apply p3) (T.apply p4)
      = ((dihedralXY n p1 p2 p3 p4).1, -(dihedralXY n p1 p2 p3 p4).2) := by
  rw [dihedralXY_motion h.1, h.2, neg_one_mul]

/-- the coded `(x, y)` in terms of the sqrt-free arguments: `x = XN / N`, `y = Y / n` -/
theorem dihedralXY_eq_args (n : K) (p1 p2 p3 p4 : V3 K)
    (hn : n * n = nsq (p3 - p2)) (h0 : n ≠ 0) :
    dihedralXY n p1 p2 p3 p4 =
      ((dihedralArgs p1 p2 p3 p4).1 / (dihedralArgs p1 p2 p3 p4).2.2,
       (dihedralArgs p1 p2 p3 p4).2.1 / n) := by
  rw [dihedralXY_eq_gen]
  exact dihedralXYGen_eq_args _ n p1 p2 p3 p4 hn h0

/-- whatever multiple `c` of the unit central vector is removed from `v1` — the code removes
`(v1·v1)`, the textbook `(v1·v̂2)` — the result is the same, *provided* `n` really is the norm. -/
theorem dihedral_projection_irrelevant (c n : K) (p1 p2 p3 p4 : V3 K)
    (hn : n * n = nsq (p3 - p2)) (h0 : n ≠ 0) :
    dihedralXYGen c n p1 p2 p3 p4 = dihedralXY n p1 p2 p3 p4 ∧
    dihedralXYTextbook n p1 p2 p3 p4 = dihedralXY n p1 p2 p3 p4 := by
  refine ⟨?_, ?_⟩
  · rw [dihedralXY_eq_args n p1 p2 p3 p4 hn h0, dihedralXYGen_eq_args c n p1 p2 p3 p4 hn h0]
  · rw [dihedralXYTextbook_eq_gen, dihedralXY_eq_args n p1 p2 p3 p4 hn h0,
      dihedralXYGen_eq_args _ n p1 p2 p3 p4 hn h0]

/-- listing the four points backwards gives the same `(x, y)` -/
theorem dihedral_xy_reversal (n : K) (p1 p2 p3 p4 : V3 K)
    (hn : n * n = nsq (p3 - p2)) (h0 : n ≠ 0) :
    dihedralXY n p4 p3 p2 p1 = dihedralXY n p1 p2 p3 p4 := by
  have hn' : n * n = nsq (p2 - p3) := by
    rw [hn]; v3_unfold; ring
  rw [dihedralXY_eq_args n p4 p3 p2 p1 hn' h0, dihedralXY_eq_args n p1 p2 p3 p4 hn h0,
    dihedralArgs_reversal]

/-- agreement with the textbook (IUPAC) definition: with `b1 = p2−p1`, `b2 = p3−p2`, `b3 = p4−p3`
`N·x = (b1×b2)·(b2×b3)` and `N·y = |b2|·(b1·(b2×b3))`, `N = |b2|² ≠ 0`. -/
theorem dihedral_textbook (n : K) (p1 p2 p3 p4 : V3 K)
    (hn : n * n = nsq (p3 - p2)) (h0 : n ≠ 0) :
    nsq (p3 - p2) * (dihedralXY n p1 p2 p3 p4).1
        = dot (cross (p2 - p1) (p3 - p2)) (cross (p3 - p2) (p4 - p3)) ∧
    nsq (p3 - p2) * (dihedralXY n p1 p2 p3 p4).2
        = n * dot (p2 - p1) (cross (p3 - p2) (p4 - p3)) := by
  obtain ⟨t1, t2, t3⟩ := dihedralArgs_textbook p1 p2 p3 p4
  rw [dihedralXY_eq_args n p1 p2 p3 p4 hn h0, ← t1, ← t2]
  have hN : (dihedralArgs p1 p2 p3 p4).2.2 ≠ 0 := by
    rw [t3, ← hn]; exact mul_ne_zero h0 h0
  refine ⟨?_, ?_⟩
  · simp only
    rw [← t3]
    field_simp
  · simp only
    rw [← hn]
    field_simp

end field

/-! ## distance, angle: ranges and textbook form -/
section ordered
variable {K : Type} [Field K] [LinearOrder K] [IsStrictOrderedRing K]

/-- `d² ≥ 0`, `d² = 0` iff the points coincide, `d²` is symmetric -/
theorem distSq_nonneg_zero (p q : V3 K) :
    0 ≤ distSq p q ∧ (distSq p q = 0 ↔ p = q) ∧ distSq p q = distSq q p := by
  refine ⟨nsq_nonneg _, ⟨fun h => ?_, fun h => ?_⟩, distSq_comm p q⟩
  · obtain ⟨hx, hy, hz⟩ := nsq_eq_zero (a := p - q) h
    simp only [V3.sub_x, V3.sub_y, V3.sub_z, sub_eq_zero] at hx hy hz
    exact V3.ext hx hy hz
  · subst h
    v3_unfold
    ring

/-- ties the squared test of the model to the `sqrt` test of the code -/
theorem sqrt_lt_iff (s d2 c : K) (hs : 0 ≤ s) (h : s * s = d2) :
    s < c ↔ 0 < c ∧ d2 < c * c := by
  subst h
  constructor
  · intro hc
    exact ⟨lt_of_le_of_lt hs hc, by nlinarith⟩
  · rintro ⟨hc, hlt⟩
    by_contra hn
    push Not at hn
    nlinarith

/-- with `n12`, `n23` the (positive) norms: the clip is inactive, the value is the cosine of the
*exterior* angle, its negative is the textbook cosine at the vertex `p2`, and it lies in `[−1, 1]`
(so `π − arccos(·) = arccos(−·) ∈ [0, π]` is the textbook angle). -/
theorem angle_textbook (n12 n23 : K) (p1 p2 p3 : V3 K) (h12 : 0 < n12) (h23 : 0 < n23)
    (e12 : n12 * n12 = nsq (p1 - p2)) (e23 : n23 * n23 = nsq (p2 - p3)) :
    angleCos n12 n23 p1 p2 p3 = dot (p1 - p2) (p2 - p3) / (n12 * n23) ∧
    -(angleCos n12 n23 p1 p2 p3) = dot (p1 - p2) (p3 - p2) / (n12 * n23) ∧
    -1 ≤ angleCos n12 n23 p1 p2 p3 ∧ angleCos n12 n23 p1 p2 p3 ≤ 1 := by
  have hD : 0 < n12 * n23 := mul_pos h12 h23
  have hcs := cauchy_schwarz (p1 - p2) (p2 - p3)
  rw [← e12, ← e23] at hcs
  have h1 : dot (p1 - p2) (p2 - p3) ≤ n12 * n23 := by
    by_contra hc
    push Not at hc
    nlinarith
  have h2 : -(n12 * n23) ≤ dot (p1 - p2) (p2 - p3) := by
    by_contra hc
    push Not at hc
    nlinarith
  have hle : dot (p1 - p2) (p2 - p3) / (n12 * n23) ≤ 1 := (div_le_one hD).mpr h1
  have hge : -1 ≤ dot (p1 - p2) (p2 - p3) / (n12 * n23) := by
    rw [le_div_iff₀ hD]
    linarith
  have hval : angleCos n12 n23 p1 p2 p3 = dot (p1 - p2) (p2 - p3) / (n12 * n23) := by
    unfold angleCos clip
    simp only
    rw [max_eq_left hge, min_eq_left hle]
  refine ⟨hval, ?_, ?_, ?_⟩
  · rw [hval, ← neg_div]
    congr 1
    v3_unfold
    ring
  · rw [hval]; exact hge
  · rw [hval]; exact hle

/-- `cosine_angle = dot / √nn`: it is determined by the model's pair `(dot, nn)` -/
theorem angleCos_from_args (n12 n23 : K) (p1 p2 p3 : V3 K) (h12 : 0 < n12) (h23 : 0 < n23)
    (e12 : n12 * n12 = nsq (p1 - p2)) (e23 : n23 * n23 = nsq (p2 - p3)) :
    angleCos n12 n23 p1 p2 p3 * (n12 * n23) = (angleArgs p1 p2 p3).1 ∧
    (n12 * n23) * (n12 * n23) = (angleArgs p1 p2 p3).2 ∧ 0 < n12 * n23 := by
  have hD : 0 < n12 * n23 := mul_pos h12 h23
  obtain ⟨hval, -, -, -⟩ := angle_textbook n12 n23 p1 p2 p3 h12 h23 e12 e23
  refine ⟨?_, ?_, hD⟩
  · rw [hval]
    unfold angleArgs
    simp only
    field_simp
  · unfold angleArgs
    simp only
    rw [← e12, ← e23]
    ring

/-! ## guessed connectivity -/

/-- **exactness**: `(i, j)` is listed iff `i < j`, both atoms exist, and
`d² < ((rᵢ + rⱼ)·thr)²` with a positive cutoff (i.e. `d < (rᵢ + rⱼ)·thr`, see `sqrt_lt_iff`). -/
theorem connectivity_exact (thr : K) (atoms : List (Atom K)) (i j : Nat) :
    (i, j) ∈ guessConnectivity thr atoms ↔
      i < j ∧ ∃ a b, atoms[i]? = some a ∧ atoms[j]? = some b ∧
        0 < (a.r + b.r) * thr ∧
        distSq a.p b.p < ((a.r + b.r) * thr) * ((a.r + b.r) * thr) := by
  unfold guessConnectivity
  rw [mem_connFrom]
  constructor
  · rintro ⟨k, m, a, b, hi, hj, hk, hm, hb⟩
    have hi' : i = k := by omega
    subst hi'
    have hj' : j = i + 1 + m := by omega
    subst hj'
    exact ⟨by omega, a, b, hk, hm, (bonded_iff thr a b).mp hb⟩
  · rintro ⟨hij, a, b, ha, hb, hc⟩
    refine ⟨i, j - i - 1, a, b, by omega, by omega, ha, ?_, (bonded_iff thr a b).mpr hc⟩
    have : i + 1 + (j - i - 1) = j := by omega
    rw [this]
    exact hb

/-- the list is strictly increasing lexicographically: no duplicates, and (with
`connectivity_exact`) completely determined by the criterion -/
theorem connectivity_sorted (thr : K) (atoms : List (Atom K)) :
    (guessConnectivity thr atoms).Pairwise lexLt := connFrom_sorted thr atoms 0

/-- unchanged by every orthogonal motion of the geometry (proper or improper) -/
theorem connectivity_rigid_invariant (T : Motion K) (h : T.R.IsOrthogonal) (thr : K)
    (atoms : List (Atom K)) :
    guessConnectivity thr (atoms.map (Atom.move T)) = guessConnectivity thr atoms :=
  connFrom_move h thr atoms 0

/-- relabelling: if `atoms'` carries atom `k` of `atoms` at position `σ k` (σ injective on the
index range) then bonds correspond, re-sorted within the pair. Together with
`connectivity_sorted` this is `guess (σ·mol) = sort (σ (guess mol))`. -/
theorem connectivity_relabel (thr : K) (atoms atoms' : List (Atom K)) (σ : Nat → Nat)
    (hσ : ∀ k a, atoms[k]? = some a → atoms'[σ k]? = some a)
    (hinj : ∀ i j, i < atoms.length → j < atoms.length → σ i = σ j → i = j)
    (i j : Nat) (hij : i < j) (hj : j < atoms.length) :
    (i, j) ∈ guessConnectivity thr atoms ↔
      (min (σ i) (σ j), max (σ i) (σ j)) ∈ guessConnectivity thr atoms' := by
  have hi : i < atoms.length := by omega
  have hne : σ i ≠ σ j := fun e => by have := hinj i j hi hj e; omega
  have hai : atoms[i]? = some atoms[i] := List.getElem?_eq_getElem hi
  have haj : atoms[j]? = some atoms[j] := List.getElem?_eq_getElem hj
  have hsi := hσ i _ hai
  have hsj := hσ j _ haj
  rw [connectivity_exact, connectivity_exact]
  rcases Nat.lt_or_gt_of_ne hne with hlt | hgt
  · rw [min_eq_left (le_of_lt hlt), max_eq_right (le_of_lt hlt)]
    constructor
    · rintro ⟨_, a, b, ha, hb, hc⟩
      rw [hai] at ha; rw [haj] at hb
      cases ha; cases hb
      exact ⟨hlt, _, _, hsi, hsj, hc⟩
    · rintro ⟨_, a, b, ha, hb, hc⟩
      rw [hsi] at ha; rw [hsj] at hb
      cases ha; cases hb
      exact ⟨hij, _, _, hai, haj, hc⟩
  · rw [min_eq_right (le_of_lt hgt), max_eq_left (le_of_lt hgt)]
    constructor
    · rintro ⟨_, a, b, ha, hb, hc⟩
      rw [hai] at ha; rw [haj] at hb
      cases ha; cases hb
      refine ⟨hgt, _, _, hsj, hsi, ?_⟩
      have := (bonded_iff thr atoms[i] atoms[j]).mpr hc
      rw [bonded_symm] at this
      exact (bonded_iff thr _ _).mp this
    · rintro ⟨_, a, b, ha, hb, hc⟩
      rw [hsj] at ha; rw [hsi] at hb
      cases ha; cases hb
      refine ⟨hij, _, _, hai, haj, ?_⟩
      have := (bonded_iff thr atoms[j] atoms[i]).mpr hc
      rw [bonded_symm] at this
      exact (bonded_iff thr _ _).mp this

end ordered

/-! ## agreement of the row-wise, matrix and index-based forms -/
section ring
variable {K : Type} [CommRing K]

theorem pyIndex_nat (coords : List (V3 K)) (i : Nat) (p : V3 K) (h : coords[i]? = some p) :
    pyIndex coords (i : Int) = .ok p := by
  unfold pyIndex
  simp [h]

theorem lt_of_getElem? {α : Type} {l : List α} {i : Nat} {p : α} (h : l[i]? = some p) :
    i < l.length := by
  by_contra hc
  rw [List.getElem?_eq_none (by omega)] at h
  cases h

/-- row `i` of the batched `compute_distance`, entry `(i, i)` of `distance_matrix` and the
index-based `measure_coordinates` all give `distSq` of the same two points -/
theorem forms_agree_distance (a b : List (V3 K)) (hl : a.length = b.length) (i : Nat) (p q : V3 K)
    (ha : a[i]? = some p) (hb : b[i]? = some q) :
    computeDistanceSq a b = .ok (List.zipWith distSq a b) ∧
    (List.zipWith distSq a b)[i]? = some (distSq p q) ∧
    ((distanceMatrixSq a b)[i]?.bind (·[i]?)) = some (distSq p q) := by
  refine ⟨?_, ?_, ?_⟩
  · unfold computeDistanceSq bcast
    simp [hl]
    rfl
  · simp [List.getElem?_zipWith, ha, hb]
  · unfold distanceMatrixSq
    simp [List.getElem?_map, ha, hb]

/-- the index-based form on valid indices is the row-wise form on the picked points -/
theorem forms_agree_measure (coords : List (V3 K)) (i j k l : Nat) (p q r s : V3 K)
    (hi : coords[i]? = some p) (hj : coords[j]? = some q) (hk : coords[k]? = some r)
    (hl : coords[l]? = some s) :
    measureOne coords [(i : Int), j] = .ok (.dist (distSq p q)) ∧
    measureOne coords [(i : Int), j, k]
      = .ok (.angle (angleArgs p q r).1 (angleArgs p q r).2) ∧
    measureOne coords [(i : Int), j, k, l]
      = .ok (.dihedral (dihedralArgs p q r s).1 (dihedralArgs p q r s).2.1
          (dihedralArgs p q r s).2.2) := by
  have li := lt_of_getElem? hi
  have lj := lt_of_getElem? hj
  have lk := lt_of_getElem? hk
  have ll := lt_of_getElem? hl
  refine ⟨?_, ?_, ?_⟩ <;>
  · unfold measureOne
    simp only [List.any_cons, List.any_nil, Bool.or_false, Bool.or_eq_true, decide_eq_true_eq,
      Int.ofNat_le]
    rw [if_neg (by omega)]
    simp only [pyIndex_nat coords i p hi, pyIndex_nat coords j q hj, pyIndex_nat coords k r hk,
      pyIndex_nat coords l s hl]
    rfl

end ring

/-! ## non-vacuity: the hypotheses are met by non-trivial values (these are tests) -/
section examples

/-- a rational proper rotation that is not a coordinate permutation -/
example : (quatRot (1 : ℚ) 2 3 4).IsRotation := quatRot_isRotation _ _ _ _ (by norm_num)

example : (householder (⟨1, 2, 2⟩ : V3 ℚ)).IsReflection :=
  householder_isReflection _ (by norm_num [V3.nsq, V3.dot])

/-- `n = 5` is the norm of the central bond `(0,3,4)`: hypotheses of the dihedral theorems -/
example : (5 : ℚ) * 5 = nsq ((⟨0, 3, 4⟩ : V3 ℚ) - ⟨0, 0, 0⟩) ∧ (5 : ℚ) ≠ 0 := by
  refine ⟨?_, by norm_num⟩
  v3_unfold
  norm_num

/-- TEST: a non-planar dihedral whose coded `(x, y)` has both components non-zero -/
example : dihedralXY (5 : ℚ) ⟨1, 1/2, 0⟩ ⟨0, 0, 0⟩ ⟨0, 3, 4⟩ ⟨1, 3, 5⟩ = (19 / 25, -1) := by
  unfold dihedralXY
  refine Prod.ext ?_ ?_ <;> v3_unfold <;> norm_num

/-- TEST: the sqrt-free arguments of the same four points (what the driver prints: `19:-5:25`) -/
example : dihedralArgs (⟨1, 1/2, 0⟩ : V3 ℚ) ⟨0, 0, 0⟩ ⟨0, 3, 4⟩ ⟨1, 3, 5⟩ = (19, -5, 25) := by
  unfold dihedralArgs
  refine Prod.ext ?_ (Prod.ext ?_ ?_) <;> v3_unfold <;> norm_num

/-- hypotheses of `angle_textbook`: norms 5 and 13 of `(3,4,0)` and `(0,−5,−12)` -/
example : (5 : ℚ) * 5 = nsq ((⟨3, 4, 0⟩ : V3 ℚ) - ⟨0, 0, 0⟩) ∧
    (13 : ℚ) * 13 = nsq ((⟨0, 0, 0⟩ : V3 ℚ) - ⟨0, 5, 12⟩) := by
  refine ⟨?_, ?_⟩ <;> v3_unfold <;> norm_num

/-- hypotheses of `connectivity_relabel`: a 3-cycle on three atoms -/
example : ∃ (atoms atoms' : List (Atom ℚ)) (σ : Nat → Nat),
    (∀ k a, atoms[k]? = some a → atoms'[σ k]? = some a) ∧
    (∀ i j, i < atoms.length → j < atoms.length → σ i = σ j → i = j) ∧
    (0, 1) ∈ guessConnectivity (6 / 5 : ℚ) atoms ∧ (0, 2) ∉ guessConnectivity (6 / 5 : ℚ) atoms := by
  refine ⟨[⟨1/2, ⟨0, 0, 0⟩⟩, ⟨1/2, ⟨1, 0, 0⟩⟩, ⟨1/2, ⟨0, 3, 0⟩⟩],
    [⟨1/2, ⟨0, 3, 0⟩⟩, ⟨1/2, ⟨0, 0, 0⟩⟩, ⟨1/2, ⟨1, 0, 0⟩⟩], fun k => (k + 1) % 3, ?_, ?_, ?_, ?_⟩
  · intro k a h
    match k, h with
    | 0, h => simpa using h
    | 1, h => simpa using h
    | 2, h => simpa using h
    | k + 3, h => simp at h
  · intro i j hi hj h
    simp only [List.length_cons, List.length_nil] at hi hj
    have h' : (i + 1) % 3 = (j + 1) % 3 := h
    omega
  · rw [connectivity_exact]
    refine ⟨by omega, _, _, rfl, rfl, ?_, ?_⟩ <;> v3_unfold <;> norm_num
  · rw [connectivity_exact]
    rintro ⟨_, a, b, ha, hb, _, hlt⟩
    simp at ha hb
    subst ha; subst hb
    revert hlt
    v3_unfold
    norm_num

end examples

end QcelVerif.Measure
