import QcelVerif.Props.C17Factor
import QcelVerif.Model.UnitText
import QcelVerif.Gen.UnitNames
/-!
# C17 — the five unit TEXTS read as the unit expressions the factor model uses (link to C03's string front end)

Manifest (namespace `QcelVerif.Radii`): unit_texts_parse, factor_of_texts

`Model/RadiiFactor.lean` writes down by hand which unit expression each text of the quantifier denotes
(`LUnit.expr`: "pm" = pico·meter, …).  C03 has a model of the path a `str` argument takes through
`conversion_factor` (`Model/UnitText.lean`: pint's preprocessor, tokenizer, tree builder, `_eval_token`, and the
name resolution `get_name` over the NAME SET OF THE LIVE REGISTRY, regenerated on every run into
`Gen/UnitNames.lean` by `harness/c03.py:gen_unit_names`, which C17's TRANSLATORS call).  Here that model is
evaluated by the kernel on the five texts: each reads — both as pint evaluates it (`parseImpl`) and as it is
meant (`parseText`) — as exactly `LUnit.expr`, so `conversion_factor(<text>, <text>)` of C03's code model on
STRINGS (`convArgs (parseImpl reg) (convImpl cd)`, the definiens of `Units.Text.convImplText`) is the exact
ratio of `factor_is_si_ratio`.  (Only `Model/UnitText.lean` and the generated name set are imported, not
C03's 8869-spelling theorems.)
-/
namespace QcelVerif.Radii
open QcelVerif QcelVerif.PStr QcelVerif.Units.Text

/-- (power of ten, table unit) of each text -/
def LUnit.pb : LUnit → Int × Units.Base
  | .bohr => (0, .bohr)
  | .angstrom => (0, .angstrom)
  | .pm => (-12, .meter)
  | .nm => (-9, .meter)
  | .m => (0, .meter)

theorem expr_eq_pb (u : LUnit) : u.expr = .unit u.pb.1 u.pb.2 := by cases u <;> rfl

/-- the front end's answer is exactly the prefixed table unit `(p, b)` -/
def isUnitExpr (p : Int) (b : Units.Base) : Except TErr Units.Expr → Bool
  | .ok (.unit p' b') => decide (p' = p) && decide (b' = b)
  | _ => false

theorem eq_of_isUnitExpr {p : Int} {b : Units.Base} {r : Except TErr Units.Expr} (h : isUnitExpr p b r = true) :
    r = .ok (.unit p b) := by
  unfold isUnitExpr at h
  split at h
  · next p' b' =>
    simp only [Bool.and_eq_true, decide_eq_true_eq] at h
    rw [h.1, h.2]
  · cases h

theorem unit_texts_chk :
    LUnit.all.all (fun u =>
      isUnitExpr u.pb.1 u.pb.2 (parseImpl Units.Gen.nameReg u.name) &&
      isUnitExpr u.pb.1 u.pb.2 (parseText Units.Gen.nameReg u.name)) = true := by decide +kernel

/-- **Each of the five unit texts is read as the unit expression the factor model assigns to it** — by pint's
own evaluation order and by the intended reading — over the regenerated registry name set ("pm" resolves to
pico + meter and to no other registry key, "m" to meter, "bohr" and "angstrom" to the units `ureg.py` /
`default_en.txt` define). -/
theorem unit_texts_parse (u : LUnit) :
    parseImpl Units.Gen.nameReg u.name = .ok u.expr ∧ parseText Units.Gen.nameReg u.name = .ok u.expr := by
  have h := unit_texts_chk
  rw [List.all_eq_true] at h
  have hu := h u (by cases u <;> simp [LUnit.all])
  simp only [Bool.and_eq_true] at hu
  rw [expr_eq_pb]
  exact ⟨eq_of_isUnitExpr hu.1, eq_of_isUnitExpr hu.2⟩

/-- **`conversion_factor(src_text, dst_text)` of C03's code model on strings is the exact SI ratio** for every
ordered pair of the five texts and every positive CODATA set: parse both strings (`parseImpl`), then the code
model `convImpl` (pint's container arithmetic and context graph) — equal to the SI model `conv` read on the
intended meaning of the texts. -/
theorem factor_of_texts {cd : Units.Codata} (hp : cd.Pos) (s d : LUnit) :
    convArgs (parseImpl Units.Gen.nameReg) (Units.convImpl cd) (.str s.name) (.str d.name) = .ok (lmag cd s / lmag cd d) ∧
    convArgs (parseText Units.Gen.nameReg) (Units.conv cd) (.str s.name) (.str d.name) = .ok (lmag cd s / lmag cd d) := by
  have hs := unit_texts_parse s
  have hd := unit_texts_parse d
  have hI : Units.convImpl cd s.expr d.expr = .ok (lmag cd s / lmag cd d) := by
    rw [convModel_is_convImpl hp, factor_is_si_ratio]
  have hC : Units.conv cd s.expr d.expr = .ok (lmag cd s / lmag cd d) := factor_is_si_ratio cd s d
  constructor
  · unfold convArgs
    simp only [argExpr, hs.1, hd.1, Except.map, isDecimalQty, Bool.or_self, Bool.false_eq_true, if_false, hI]
  · unfold convArgs
    simp only [argExpr, hs.2, hd.2, Except.map, isDecimalQty, Bool.or_self, Bool.false_eq_true, if_false, hC]

example : Units.Gen.codata2014.Pos ∧ Units.Gen.codata2018.Pos := ⟨Units.codata2014_pos, Units.codata2018_pos⟩

end QcelVerif.Radii
