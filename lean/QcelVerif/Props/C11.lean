import QcelVerif.Lemmas.Hash
import QcelVerif.Props.C11Preimage
import Mathlib.Tactic.Ring
import Mathlib.Algebra.Order.Ring.Abs
/-!
# C11 — the molecular hash is a canonical identity for the molecule: property theorems

Model: `Model/Hash.lean` (`canon` = the data `get_hash` serialises after `float_prep`, `preimage` =
the concatenated `json.dumps`, `hash = sha1 ∘ preimage`, `prepBonds` = the stored connectivity).
All theorems hold for molecules of any size.  Parameters and what is assumed of them:
  * `P.fl`    — rounding of `x * 10**k` to a double inside `np.around`; `FlOk`: within 1/256 for `|y| ≤ 2^45`;
  * `P.reprF`, `P.reprB` — CPython `repr(float)`; `Params.Ok`: injective, non-empty, no `,` `[` `]`;
  * `P.sha1`  — SHA-1; injectivity on preimages is an explicit hypothesis where the "only if" needs it;
  * `P.massOf` — `periodictable.to_mass` (C01), arbitrary.

PROPERTY-THEOREMS (audited): hash_of_canon hash_indep_nonhash hash_sign_of_zero prepArr_small_zero
  round_stable hash_noise prep_idempotent construct_hash sortBy_sorted_perm sortBy_unique
  bonds_order_free prepBonds_eq_iff bonds_first_atom_sort_not_order_free canon_eq_iff_fields_agree
  zero_band_counterexample hash_eq_iff_fields_agree round_separates single_edit_changes_canon
  discrete_edit_changes_canon   (+ preimage_injective, preimage_collision_unvalidated in C11Preimage)
-/
namespace QcelVerif.Hash

/-! ## 1. equal canonical data, equal hash — and what canonical data ignores -/

/-- `canon a = canon b → hash a = hash b`, unconditionally. -/
theorem hash_of_canon {D} (P : Params D) (a b : Mol) (h : canon P a = canon P b) : hash P a = hash P b := by
  unfold hash; rw [h]

/-- `==` is hash equality (molecule.py:590). -/
theorem molEq_iff {D} [DecidableEq D] (P : Params D) (a b : Mol) : molEq P a b = true ↔ hash P a = hash P b := by
  simp [molEq]

/-- Fields outside `hash_fields` never matter. -/
theorem hash_indep_nonhash {D} (P : Params D) (m : Mol) (o : Other) : hash P { m with other := o } = hash P m := rfl

/-! ### `float_prep` depends on the rounded integer only -/

def flipBand (k : Nat) (r : Rd) : Rd := if zeroBand k r then ⟨false, 0⟩ else r

/-- the scaled value is below `2^45` rounding units (geometry: `|x| < 3.5e5` bohr) -/
def Bdd (k : Nat) (x : Dbl) : Prop := |x.toRat * (10 : Rat) ^ k| ≤ 2 ^ 45

theorem zeroBand_zero (k : Nat) (b : Bool) : zeroBand k ⟨b, 0⟩ = true := by
  simp [zeroBand]

theorem isNeg_core (k : Nat) (x : Dbl) (n : Int) (hn : n ≠ 0)
    (e : (n : Rat) - (1/2 + 1/256) ≤ x.toRat * (10 : Rat) ^ k ∧ x.toRat * (10 : Rat) ^ k ≤ (n : Rat) + (1/2 + 1/256)) :
    x.isNeg = (Rd.ofInt n).neg := by
  have hp : (0 : Rat) < (10 : Rat) ^ k := by positivity
  cases x with
  | negZero =>
    exfalso
    simp only [Dbl.toRat, zero_mul] at e
    have h1 : (n : Rat) < 1 := by linarith [e.1]
    have h2 : (-1 : Rat) < n := by linarith [e.2]
    have h1' : n < 1 := by exact_mod_cast h1
    have h2' : -1 < n := by exact_mod_cast h2
    omega
  | val q =>
    simp only [Dbl.isNeg, Dbl.toRat] at *
    by_cases hq : q < 0
    · have hy : q * (10 : Rat) ^ k < 0 := mul_neg_of_neg_of_pos hq hp
      have h1 : (n : Rat) < 1 := by linarith [e.1]
      have h1' : n < 1 := by exact_mod_cast h1
      have : n < 0 := by omega
      simp [Rd.ofInt, hq, this]
    · have hy : 0 ≤ q * (10 : Rat) ^ k := mul_nonneg (not_lt.mp hq) hp.le
      have h2 : (-1 : Rat) < n := by linarith [e.2]
      have h2' : -1 < n := by exact_mod_cast h2
      have : ¬ n < 0 := by omega
      simp [Rd.ofInt, hq, this]

/-- array branch: `float_prep(x)` is the zero-flip of the rounded integer -/
theorem prepArr_eq {fl : Rat → Rat} (hfl : FlOk fl) (k : Nat) (x : Dbl) (hx : Bdd k x) :
    prepArr fl k x = flipBand k (Rd.ofInt (roundTo fl k x)) := by
  unfold prepArr around flipBand
  by_cases hn : roundTo fl k x = 0
  · simp [hn, Rd.ofInt, zeroBand_zero]
  · have hs := isNeg_core k x (roundTo fl k x) hn (rint_fl_err hfl _ hx)
    have e : (⟨x.isNeg, (roundTo fl k x).natAbs⟩ : Rd) = Rd.ofInt (roundTo fl k x) := by rw [hs]; rfl
    rw [e]

/-- scalar branch: `float_prep(x)` is the rounded integer (no band) -/
theorem prepScalar_eq (k : Nat) (x : Dbl) : prepScalar k x = Rd.ofInt (roundTo id k x) := by
  unfold prepScalar around
  by_cases hn : roundTo id k x = 0
  · simp [hn, Rd.ofInt]
  · have e := rint_err (x.toRat * (10 : Rat) ^ k)
    have hs := isNeg_core k x (roundTo id k x) hn (by
      unfold roundTo; simp only [id]; constructor <;> linarith [e.1, e.2])
    have hm : (roundTo id k x).natAbs ≠ 0 := by omega
    have e : (⟨x.isNeg, (roundTo id k x).natAbs⟩ : Rd) = Rd.ofInt (roundTo id k x) := by rw [hs]; rfl
    rw [if_neg hm, e]

theorem Rd.ofInt_inj {a b : Int} (h : Rd.ofInt a = Rd.ofInt b) : a = b := by
  simp only [Rd.ofInt, Rd.mk.injEq, decide_eq_decide] at h
  omega

/-! ### sign of zero, sub-rounding magnitudes -/

def Dbl.posZero : Dbl → Dbl
  | .negZero => .val 0
  | x => x

theorem roundTo_posZero (fl : Rat → Rat) (k : Nat) (x : Dbl) : roundTo fl k x.posZero = roundTo fl k x := by
  cases x <;> simp [Dbl.posZero, roundTo, Dbl.toRat]

theorem bdd_posZero (k : Nat) (x : Dbl) : Bdd k x.posZero ↔ Bdd k x := by
  cases x <;> simp [Dbl.posZero, Bdd, Dbl.toRat]

/-- every float of the molecule with `-0.0` replaced by `+0.0` -/
def Mol.posZeros (m : Mol) : Mol :=
  { m with
    masses := m.masses.map (·.map Dbl.posZero)
    charge := m.charge.posZero
    geometry := m.geometry.map Dbl.posZero
    fragCharges := m.fragCharges.map (·.map Dbl.posZero) }

/-- all array entries the hash rounds are below `2^45` rounding units -/
structure Mol.Bounded {D} (P : Params D) (m : Mol) : Prop where
  masses : ∀ x ∈ m.massesR P.massOf, Bdd MASS_NOISE x
  geometry : ∀ x ∈ m.geometry, Bdd GEOMETRY_NOISE x
  fragCharges : ∀ x ∈ m.fragChargesR, Bdd CHARGE_NOISE x

theorem map_prepArr_posZero {fl : Rat → Rat} (hfl : FlOk fl) (k : Nat) (l : List Dbl) (hl : ∀ x ∈ l, Bdd k x) :
    (l.map Dbl.posZero).map (prepArr fl k) = l.map (prepArr fl k) := by
  rw [List.map_map]
  apply List.map_congr_left
  intro x hx
  simp only [Function.comp]
  rw [prepArr_eq hfl k _ ((bdd_posZero k x).mpr (hl x hx)), prepArr_eq hfl k x (hl x hx), roundTo_posZero]

/-- **The hash does not depend on the sign of zero** (geometry, masses, charge, fragment charges). -/
theorem hash_sign_of_zero {D} (P : Params D) (hfl : FlOk P.fl) (m : Mol) (hm : m.Bounded P) :
    hash P m.posZeros = hash P m := by
  apply hash_of_canon
  have hc : prepScalar CHARGE_NOISE m.charge.posZero = prepScalar CHARGE_NOISE m.charge := by
    rw [prepScalar_eq, prepScalar_eq, roundTo_posZero]
  have hmass : (m.posZeros.massesR P.massOf).map (prepArr P.fl MASS_NOISE) = (m.massesR P.massOf).map (prepArr P.fl MASS_NOISE) := by
    have hb := hm.masses
    unfold Mol.massesR Mol.posZeros at *
    cases hmm : m.masses with
    | none => simp
    | some l =>
      simp only [hmm, Option.map_some] at hb ⊢
      exact map_prepArr_posZero hfl _ l hb
  have hfc : (m.posZeros.fragChargesR).map (prepArr P.fl CHARGE_NOISE) = m.fragChargesR.map (prepArr P.fl CHARGE_NOISE) := by
    have hb := hm.fragCharges
    unfold Mol.fragChargesR Mol.posZeros at *
    cases hmm : m.fragCharges with
    | none =>
      simp only [hmm, Option.map_none] at hb ⊢
      exact map_prepArr_posZero hfl _ [m.charge] hb
    | some l =>
      simp only [hmm, Option.map_some] at hb ⊢
      exact map_prepArr_posZero hfl _ l hb
  have hg := map_prepArr_posZero hfl GEOMETRY_NOISE m.geometry hm.geometry
  unfold canon
  simp only [Canon.mk.injEq]
  refine ⟨rfl, hmass, hc, rfl, rfl, hg, rfl, hfc, rfl, rfl⟩

/-- An array entry of sub-rounding magnitude (`|x|·10^k < 1/2 − 1/256`; geometry: `|x| < 4.96e-9`) is hashed
as `+0.0`, whatever its sign. -/
theorem prepArr_small_zero {fl : Rat → Rat} (hfl : FlOk fl) (k : Nat) (q : Rat)
    (h : |q * (10 : Rat) ^ k| < 1/2 - 1/256) : prepArr fl k (.val q) = ⟨false, 0⟩ := by
  have hb : Bdd k (.val q) := by
    unfold Bdd; simp only [Dbl.toRat]
    have : (1:Rat)/2 - 1/256 ≤ 2 ^ 45 := by norm_num
    linarith
  have h' := abs_lt.mp h
  have : roundTo fl k (.val q) = 0 := by
    unfold roundTo; simp only [Dbl.toRat]
    exact rint_fl_near hfl _ 0 hb (by push_cast; linarith [h'.1]) (by push_cast; linarith [h'.2])
  rw [prepArr_eq hfl k _ hb, this]
  simp [flipBand, Rd.ofInt, zeroBand_zero]

/-! ### sub-rounding noise away from a rounding boundary -/

/-- `x·10^k` is within 0.48 of the integer `n` (not near a rounding boundary), the noise `d` is at most
1/100 of a unit (geometry: `|d| ≤ 1e-10`): `x + d` and `x` round to the same `n`. -/
theorem round_stable {fl : Rat → Rat} (hfl : FlOk fl) (k : Nat) (x d : Rat) (n : Int)
    (hb : |x * (10 : Rat) ^ k| ≤ 2 ^ 45 - 1)
    (hn : |x * (10 : Rat) ^ k - n| ≤ 48 / 100) (hd : |d| * (10 : Rat) ^ k ≤ 1 / 100) :
    roundTo fl k (.val (x + d)) = n ∧ roundTo fl k (.val x) = n ∧
      prepArr fl k (.val (x + d)) = prepArr fl k (.val x) := by
  have hp : (0 : Rat) < (10 : Rat) ^ k := by positivity
  have hd' : |d * (10 : Rat) ^ k| ≤ 1 / 100 := by rw [abs_mul, abs_of_pos hp]; exact hd
  have e1 := abs_le.mp hn
  have e2 := abs_le.mp hd'
  have e3 := abs_le.mp hb
  have hbx : Bdd k (.val x) := by unfold Bdd; simp only [Dbl.toRat]; linarith
  have hbxd : Bdd k (.val (x + d)) := by
    unfold Bdd; simp only [Dbl.toRat]
    rw [add_mul]; apply abs_le.mpr; constructor <;> linarith [e2.1, e2.2, e3.1, e3.2]
  have r1 : roundTo fl k (.val (x + d)) = n := by
    show rintHE (fl ((x + d) * (10 : Rat) ^ k)) = n
    have hb' : |(x + d) * (10 : Rat) ^ k| ≤ 2 ^ 45 := hbxd
    apply rint_fl_near hfl _ n hb' <;> rw [add_mul] <;> linarith [e1.1, e1.2, e2.1, e2.2]
  have r2 : roundTo fl k (.val x) = n := by
    show rintHE (fl (x * (10 : Rat) ^ k)) = n
    have hb' : |x * (10 : Rat) ^ k| ≤ 2 ^ 45 := hbx
    apply rint_fl_near hfl _ n hb' <;> linarith [e1.1, e1.2]
  refine ⟨r1, r2, ?_⟩
  rw [prepArr_eq hfl k _ hbxd, prepArr_eq hfl k _ hbx, r1, r2]

/-- geometry entries related by sub-rounding noise away from rounding boundaries -/
def NoiseClose (x y : Dbl) : Prop :=
  ∃ (q d : Rat) (n : Int), x = .val q ∧ y = .val (q + d) ∧ |q * (10 : Rat) ^ 8| ≤ 2 ^ 45 - 1 ∧
    |q * (10 : Rat) ^ 8 - n| ≤ 48 / 100 ∧ |d| ≤ 1 / 10 ^ 10

/-- **Noise ≤ 1e-10 on coordinates that are not near a rounding boundary never changes the hash.** -/
theorem noise_map {fl : Rat → Rat} (hfl : FlOk fl) (g g' : List Dbl) (h : List.Forall₂ NoiseClose g g') :
    g'.map (prepArr fl GEOMETRY_NOISE) = g.map (prepArr fl GEOMETRY_NOISE) := by
  induction h with
  | nil => rfl
  | cons hxy _ ih =>
    obtain ⟨q, d, n, rfl, rfl, hb, hn, hd⟩ := hxy
    simp only [List.map_cons, ih, List.cons.injEq, and_true]
    have : |d| * (10 : Rat) ^ 8 ≤ 1 / 100 := by
      have : |d| * (10 : Rat) ^ 8 ≤ 1 / 10 ^ 10 * (10 : Rat) ^ 8 := by
        apply mul_le_mul_of_nonneg_right hd; positivity
      norm_num at this ⊢; linarith
    exact (round_stable hfl 8 q d n hb hn this).2.2

theorem hash_noise {D} (P : Params D) (hfl : FlOk P.fl) (m : Mol) (g' : List Dbl)
    (h : List.Forall₂ NoiseClose m.geometry g') : hash P { m with geometry := g' } = hash P m := by
  apply hash_of_canon
  show ({ canon P m with geometry := g'.map (prepArr P.fl GEOMETRY_NOISE) } : Canon) = canon P m
  rw [noise_map hfl _ _ h]
  rfl

/-- `canon` reads the molecule through these ten accessors only -/
theorem canon_congr {D} (P : Params D) (a b : Mol)
    (h1 : a.symbols = b.symbols) (h2 : a.massesR P.massOf = b.massesR P.massOf) (h3 : a.charge = b.charge)
    (h4 : a.mult = b.mult) (h5 : a.realR = b.realR)
    (h6 : a.geometry.map (prepArr P.fl GEOMETRY_NOISE) = b.geometry.map (prepArr P.fl GEOMETRY_NOISE))
    (h7 : a.fragmentsR = b.fragmentsR) (h8 : a.fragChargesR = b.fragChargesR) (h9 : a.fragMultsR = b.fragMultsR)
    (h10 : a.connectivity = b.connectivity) : canon P a = canon P b := by
  unfold canon
  rw [h1, h2, h3, h4, h5, h6, h7, h8, h9, h10]

/-! ### construction-time rounding is invisible to the hash -/

/-- Re-rounding a stored coordinate (`get_hash` after the constructor's `float_prep`) changes nothing. -/
theorem prep_idempotent {fl : Rat → Rat} (hfl : FlOk fl) (k : Nat) (x : Dbl) (hx : Bdd k x)
    (hm : ((prepArr fl k x).mag : Rat) ≤ 2 ^ 45) :
    prepArr fl k ((prepArr fl k x).toDbl k) = prepArr fl k x := by
  have hp : (0 : Rat) < (10 : Rat) ^ k := by positivity
  have hp' : ((10 : Rat) ^ k) ≠ 0 := ne_of_gt hp
  rw [prepArr_eq hfl k x hx] at hm ⊢
  generalize roundTo fl k x = n at *
  unfold flipBand at hm ⊢
  by_cases hz : zeroBand k (Rd.ofInt n) = true
  · -- stored as +0.0
    simp only [hz, if_true]
    have hb0 : Bdd k (Dbl.val 0) := by unfold Bdd; simp [Dbl.toRat]
    have : roundTo fl k (Dbl.val 0) = 0 := by
      unfold roundTo; simp only [Dbl.toRat, zero_mul]
      exact rint_fl_near hfl 0 0 (by simp) (by norm_num) (by norm_num)
    have e0 : (⟨false, 0⟩ : Rd).toDbl k = .val 0 := by simp [Rd.toDbl]
    rw [e0, prepArr_eq hfl k _ hb0, this]
    simp [flipBand, Rd.ofInt, zeroBand_zero]
  · simp only [hz, if_false, Bool.false_eq_true] at hm ⊢
    have hn0 : n ≠ 0 := by
      intro h0; subst h0; exact hz (by simp [Rd.ofInt, zeroBand_zero])
    have hmag : (Rd.ofInt n).mag ≠ 0 := by simp only [Rd.ofInt]; omega
    -- the stored value is exactly n / 10^k
    have hval : (Rd.ofInt n).toDbl k = .val ((n : Rat) / (10 : Rat) ^ k) := by
      simp only [Rd.toDbl, hmag, if_false]
      congr 1
      simp only [Rd.ofInt]
      by_cases hneg : n < 0
      · simp only [hneg, decide_true, if_true]
        have h1 : (((n.natAbs : Nat) : Int) : Rat) = ((-n : Int) : Rat) := by
          rw [show ((n.natAbs : Nat) : Int) = -n by omega]
        have : ((n.natAbs : Nat) : Rat) = -(n : Rat) := by simpa using h1
        rw [this]; ring
      · simp only [hneg, decide_false, if_false, Bool.false_eq_true]
        have h1 : (((n.natAbs : Nat) : Int) : Rat) = ((n : Int) : Rat) := by
          rw [show ((n.natAbs : Nat) : Int) = n by omega]
        have : ((n.natAbs : Nat) : Rat) = (n : Rat) := by simpa using h1
        rw [this]
    have habs : |(n : Rat)| ≤ 2 ^ 45 := by
      have : |(n : Rat)| = ((Rd.ofInt n).mag : Rat) := by
        simp only [Rd.ofInt]
        rw [← Int.cast_abs, Int.abs_eq_natAbs, Int.cast_natCast]
      rw [this]; exact hm
    have hb : Bdd k (.val ((n : Rat) / (10 : Rat) ^ k)) := by
      unfold Bdd; simp only [Dbl.toRat]; rw [div_mul_cancel₀ _ hp']; exact habs
    have hr : roundTo fl k (.val ((n : Rat) / (10 : Rat) ^ k)) = n := by
      unfold roundTo; simp only [Dbl.toRat]; rw [div_mul_cancel₀ _ hp']
      exact rint_fl_near hfl _ n habs (by linarith) (by linarith)
    rw [hval, prepArr_eq hfl k _ hb, hr]
    simp [flipBand, hz]

theorem map_map_prep (fl : Rat → Rat) (k : Nat) (l : List Dbl)
    (h : ∀ x ∈ l, prepArr fl k ((prepArr fl k x).toDbl k) = prepArr fl k x) :
    (l.map (fun x => (prepArr fl k x).toDbl k)).map (prepArr fl k) = l.map (prepArr fl k) := by
  induction l with
  | nil => rfl
  | cons a t ih =>
    rw [List.map_cons, List.map_cons, List.map_cons, h a (by simp), ih (fun x hx => h x (List.mem_cons_of_mem _ hx))]

/-- **Building a molecule (geometry pre-rounded and stored, bonds canonicalised) gives the hash of the
un-rounded geometry with canonical bonds**: `float_prep` at construction is invisible to `get_hash`. -/
theorem construct_hash {D} (P : Params D) (hfl : FlOk P.fl) (m : Mol)
    (hg : ∀ x ∈ m.geometry, Bdd GEOMETRY_NOISE x ∧ ((prepArr P.fl GEOMETRY_NOISE x).mag : Rat) ≤ 2 ^ 45) :
    hash P (construct P.fl m) = hash P { m with connectivity := m.connectivity.map prepBonds } := by
  apply hash_of_canon
  have : (m.geometry.map (fun x => (prepArr P.fl GEOMETRY_NOISE x).toDbl GEOMETRY_NOISE)).map (prepArr P.fl GEOMETRY_NOISE)
      = m.geometry.map (prepArr P.fl GEOMETRY_NOISE) :=
    map_map_prep P.fl GEOMETRY_NOISE m.geometry (fun x hx => prep_idempotent hfl GEOMETRY_NOISE x (hg x hx).1 (hg x hx).2)
  exact canon_congr P _ _ rfl rfl rfl rfl rfl this rfl rfl rfl rfl

/-! ## 2. bonds: order and orientation of the listing are immaterial -/

/-- the model's sort returns a sorted permutation of its input … -/
theorem sortBy_sorted_perm {α : Type} {le : α → α → Bool} (h : TotalOrder le) (l : List α) :
    Sorted le (sortBy le l) ∧ (sortBy le l).Perm l :=
  ⟨sortBy_sorted h l, sortBy_perm l⟩

/-- … and that determines it: any sorted permutation of `l` (what `list.sort()` returns) is `sortBy le l`. -/
theorem sortBy_unique {α : Type} {le : α → α → Bool} (h : TotalOrder le) (l l' : List α)
    (hs : Sorted le l') (hp : l'.Perm l) : l' = sortBy le l := by
  rw [← sortBy_of_sorted h l' hs]
  exact sortBy_perm_eq h hp

/-- **Bond lists that agree up to order and orientation are stored identically.** -/
theorem bonds_order_free (bs bs' : List Bond) (h : (bs.map orient).Perm (bs'.map orient)) :
    prepBonds bs = prepBonds bs' :=
  sortBy_perm_eq bondLe_total h

theorem orient_flip (x : Bond) : orient ⟨x.b, x.a, x.order⟩ = orient x := by
  simp [orient, Nat.min_comm, Nat.max_comm]

/-- reversing any bonds and permuting the list — the property's perturbation, literally -/
theorem bonds_permuted_reversed (bs bs' : List Bond) (flip : Bond → Bool)
    (h : bs'.Perm (bs.map (fun x => if flip x then ⟨x.b, x.a, x.order⟩ else x))) : prepBonds bs' = prepBonds bs := by
  apply bonds_order_free
  refine (h.map orient).trans ?_
  rw [List.map_map]
  have : (orient ∘ fun x => if flip x then (⟨x.b, x.a, x.order⟩ : Bond) else x) = orient := by
    funext x; simp only [Function.comp]; split
    · exact orient_flip x
    · rfl
  rw [this]

/-- the stored bond lists are equal exactly when the oriented bonds agree as multisets -/
theorem prepBonds_eq_iff (bs bs' : List Bond) : prepBonds bs = prepBonds bs' ↔ (bs.map orient).Perm (bs'.map orient) := by
  constructor
  · intro h
    have p1 := sortBy_perm (le := bondLe) (bs.map orient)
    have p2 := sortBy_perm (le := bondLe) (bs'.map orient)
    unfold prepBonds at h
    exact p1.symm.trans (h ▸ p2)
  · exact bonds_order_free bs bs'

/-- `conn.sort(key=lambda t: t[0])`, the code before the fix: stable, first atom only -/
def firstAtomLe (x y : Bond) : Bool := decide (x.a ≤ y.a)

/-- counter-example: sorting by the first atom only is not order-free — the bonds `(0,1)`, `(0,2)` listed in the two
orders are stored differently (any bond order `o`), whereas the full sort stores them identically. -/
theorem bonds_first_atom_sort_not_order_free (o : Rat) :
    sortBy firstAtomLe ([⟨0, 1, o⟩, ⟨0, 2, o⟩].map orient) ≠ sortBy firstAtomLe ([⟨0, 2, o⟩, ⟨0, 1, o⟩].map orient)
    ∧ prepBonds [⟨0, 1, o⟩, ⟨0, 2, o⟩] = prepBonds [⟨2, 0, o⟩, ⟨1, 0, o⟩] := by
  constructor
  · simp [sortBy, insertBy, firstAtomLe, orient]
  · apply bonds_order_free
    simp only [List.map_cons, List.map_nil, orient]
    exact List.Perm.swap _ _ _

/-! ## 3. equal canonical data ⇔ the listed fields agree after the documented rounding -/

/-- The ten listed fields agree after rounding to 6 / 4 / 8 decimals (as `np.around` / `round` round). -/
structure FieldsAgree {D} (P : Params D) (a b : Mol) : Prop where
  symbols : a.symbols = b.symbols
  masses : (a.massesR P.massOf).map (roundTo P.fl MASS_NOISE) = (b.massesR P.massOf).map (roundTo P.fl MASS_NOISE)
  charge : roundTo id CHARGE_NOISE a.charge = roundTo id CHARGE_NOISE b.charge
  mult : a.mult = b.mult
  real : a.realR = b.realR
  geometry : a.geometry.map (roundTo P.fl GEOMETRY_NOISE) = b.geometry.map (roundTo P.fl GEOMETRY_NOISE)
  fragments : a.fragmentsR = b.fragmentsR
  fragCharges : a.fragChargesR.map (roundTo P.fl CHARGE_NOISE) = b.fragChargesR.map (roundTo P.fl CHARGE_NOISE)
  fragMults : a.fragMultsR = b.fragMultsR
  connectivity : a.connectivity = b.connectivity

/-- the rounded entry is zero or outside the band `(0, 5^-(k+1))` that `float_prep` zeroes -/
def NoBand (fl : Rat → Rat) (k : Nat) (x : Dbl) : Prop := zeroBand k (Rd.ofInt (roundTo fl k x)) = true → roundTo fl k x = 0

/-- no rounded array entry lies in the zero band -/
structure Mol.NoBand {D} (P : Params D) (m : Mol) : Prop where
  masses : ∀ x ∈ m.massesR P.massOf, Hash.NoBand P.fl MASS_NOISE x
  geometry : ∀ x ∈ m.geometry, Hash.NoBand P.fl GEOMETRY_NOISE x
  fragCharges : ∀ x ∈ m.fragChargesR, Hash.NoBand P.fl CHARGE_NOISE x

theorem prepArr_noBand {fl : Rat → Rat} (hfl : FlOk fl) (k : Nat) (x : Dbl) (hx : Bdd k x) (hb : NoBand fl k x) :
    prepArr fl k x = Rd.ofInt (roundTo fl k x) := by
  rw [prepArr_eq hfl k x hx]
  unfold flipBand
  by_cases hz : zeroBand k (Rd.ofInt (roundTo fl k x)) = true
  · rw [hb hz]; simp [Rd.ofInt, zeroBand_zero]
  · simp [hz]

theorem map_prepArr_eq_iff {fl : Rat → Rat} (hfl : FlOk fl) (k : Nat) :
    ∀ (l l' : List Dbl), (∀ x ∈ l, Bdd k x ∧ NoBand fl k x) → (∀ x ∈ l', Bdd k x ∧ NoBand fl k x) →
      (l.map (prepArr fl k) = l'.map (prepArr fl k) ↔ l.map (roundTo fl k) = l'.map (roundTo fl k))
  | [], [], _, _ => by simp
  | [], _ :: _, _, _ => by simp
  | _ :: _, [], _, _ => by simp
  | x :: l, y :: l', hl, hl' => by
      have ih := map_prepArr_eq_iff hfl k l l' (fun z hz => hl z (List.mem_cons_of_mem _ hz)) (fun z hz => hl' z (List.mem_cons_of_mem _ hz))
      have hx := hl x (by simp)
      have hy := hl' y (by simp)
      simp only [List.map_cons, List.cons.injEq, ih, prepArr_noBand hfl k x hx.1 hx.2, prepArr_noBand hfl k y hy.1 hy.2]
      constructor
      · rintro ⟨h1, h2⟩; exact ⟨Rd.ofInt_inj h1, h2⟩
      · rintro ⟨h1, h2⟩; exact ⟨by rw [h1], h2⟩

/-- **Canonical data are equal exactly when the listed fields agree after the documented rounding** —
provided no rounded array entry lies in `(0, 5^-(k+1))`. -/
theorem canon_eq_iff_fields_agree {D} (P : Params D) (hfl : FlOk P.fl) (a b : Mol)
    (ha : a.Bounded P) (hb : b.Bounded P) (na : a.NoBand P) (nb : b.NoBand P) :
    canon P a = canon P b ↔ FieldsAgree P a b := by
  have i1 := map_prepArr_eq_iff hfl MASS_NOISE _ _ (fun x hx => ⟨ha.masses x hx, na.masses x hx⟩) (fun x hx => ⟨hb.masses x hx, nb.masses x hx⟩)
  have i2 := map_prepArr_eq_iff hfl GEOMETRY_NOISE _ _ (fun x hx => ⟨ha.geometry x hx, na.geometry x hx⟩) (fun x hx => ⟨hb.geometry x hx, nb.geometry x hx⟩)
  have i3 := map_prepArr_eq_iff hfl CHARGE_NOISE _ _ (fun x hx => ⟨ha.fragCharges x hx, na.fragCharges x hx⟩) (fun x hx => ⟨hb.fragCharges x hx, nb.fragCharges x hx⟩)
  have i4 : prepScalar CHARGE_NOISE a.charge = prepScalar CHARGE_NOISE b.charge ↔ roundTo id CHARGE_NOISE a.charge = roundTo id CHARGE_NOISE b.charge := by
    rw [prepScalar_eq, prepScalar_eq]
    exact ⟨Rd.ofInt_inj, fun h => by rw [h]⟩
  unfold canon
  simp only [Canon.mk.injEq]
  constructor
  · rintro ⟨h1, h2, h3, h4, h5, h6, h7, h8, h9, h10⟩
    exact ⟨h1, i1.mp h2, i4.mp h3, h4, h5, i2.mp h6, h7, i3.mp h8, h9, h10⟩
  · rintro ⟨h1, h2, h3, h4, h5, h6, h7, h8, h9, h10⟩
    exact ⟨h1, i1.mpr h2, i4.mpr h3, h4, h5, i2.mpr h6, h7, i3.mpr h8, h9, h10⟩

/-- **The excluded band is necessary** (the defect of `float_prep`): fragment charges `2e-4` / `3e-4`, and
coordinates `1e-7` / `3e-7`, differ after rounding (2 ≠ 3 units, 10 ≠ 30 units) yet `float_prep` maps both to `0.0`. -/
theorem zero_band_counterexample :
    (roundTo id 4 (.val (2 / 10000)) ≠ roundTo id 4 (.val (3 / 10000)) ∧
      prepArr id 4 (.val (2 / 10000)) = prepArr id 4 (.val (3 / 10000))) ∧
    (roundTo id 8 (.val (1 / 10000000)) ≠ roundTo id 8 (.val (3 / 10000000)) ∧
      prepArr id 8 (.val (1 / 10000000)) = prepArr id 8 (.val (3 / 10000000))) := by
  have r1 : roundTo id 4 (.val (2 / 10000)) = 2 := by
    unfold roundTo; simp only [Dbl.toRat, id]; exact rint_near _ 2 (by norm_num) (by norm_num)
  have r2 : roundTo id 4 (.val (3 / 10000)) = 3 := by
    unfold roundTo; simp only [Dbl.toRat, id]; exact rint_near _ 3 (by norm_num) (by norm_num)
  have r3 : roundTo id 8 (.val (1 / 10000000)) = 10 := by
    unfold roundTo; simp only [Dbl.toRat, id]; exact rint_near _ 10 (by norm_num) (by norm_num)
  have r4 : roundTo id 8 (.val (3 / 10000000)) = 30 := by
    unfold roundTo; simp only [Dbl.toRat, id]; exact rint_near _ 30 (by norm_num) (by norm_num)
  have b1 : Bdd 4 (.val (2 / 10000)) := by unfold Bdd; simp only [Dbl.toRat]; rw [abs_le]; constructor <;> norm_num
  have b2 : Bdd 4 (.val (3 / 10000)) := by unfold Bdd; simp only [Dbl.toRat]; rw [abs_le]; constructor <;> norm_num
  have b3 : Bdd 8 (.val (1 / 10000000)) := by unfold Bdd; simp only [Dbl.toRat]; rw [abs_le]; constructor <;> norm_num
  have b4 : Bdd 8 (.val (3 / 10000000)) := by unfold Bdd; simp only [Dbl.toRat]; rw [abs_le]; constructor <;> norm_num
  refine ⟨⟨by rw [r1, r2]; decide, ?_⟩, ⟨by rw [r3, r4]; decide, ?_⟩⟩
  · rw [prepArr_eq flOk_id 4 _ b1, prepArr_eq flOk_id 4 _ b2, r1, r2]
    simp [flipBand, zeroBand, Rd.ofInt]
  · rw [prepArr_eq flOk_id 8 _ b3, prepArr_eq flOk_id 8 _ b4, r3, r4]
    simp [flipBand, zeroBand, Rd.ofInt]

/-- the validated-molecule invariants, on the molecule -/
def Mol.Valid {D} (P : Params D) (m : Mol) : Prop := (canon P m).Valid

/-- **hash equal ⇔ listed fields agree after rounding** (validated, bounded, out of the zero band; float
printing as assumed in `Params.Ok`; SHA-1 injective on the two preimages — the collision-freeness assumption). -/
theorem hash_eq_iff_fields_agree {D} (P : Params D) (hP : P.Ok) (hfl : FlOk P.fl) (a b : Mol)
    (hsha : P.sha1 (preimage P (canon P a)) = P.sha1 (preimage P (canon P b)) → preimage P (canon P a) = preimage P (canon P b))
    (va : a.Valid P) (vb : b.Valid P) (ha : a.Bounded P) (hb : b.Bounded P) (na : a.NoBand P) (nb : b.NoBand P) :
    hash P a = hash P b ↔ FieldsAgree P a b := by
  rw [← canon_eq_iff_fields_agree P hfl a b ha hb na nb]
  constructor
  · intro h
    exact preimage_injective P hP _ _ va vb (hsha h)
  · exact hash_of_canon P a b

/-! ## 4. an edit above the rounding unit changes the canonical data -/

/-- values more than (1 + 1/64) rounding units apart round differently -/
theorem round_separates {fl : Rat → Rat} (hfl : FlOk fl) (k : Nat) (x y : Rat)
    (hx : Bdd k (.val x)) (hy : Bdd k (.val y)) (h : 1 + 1 / 64 ≤ |x - y| * (10 : Rat) ^ k) :
    roundTo fl k (.val x) ≠ roundTo fl k (.val y) := by
  intro he
  have hp : (0 : Rat) < (10 : Rat) ^ k := by positivity
  have ex := rint_fl_err hfl _ hx
  have ey := rint_fl_err hfl _ hy
  unfold roundTo at he
  simp only [Dbl.toRat] at ex ey he
  rw [he] at ex
  have : |x - y| * (10 : Rat) ^ k = |x * (10 : Rat) ^ k - y * (10 : Rat) ^ k| := by
    rw [← sub_mul, abs_mul, abs_of_pos hp]
  rw [this] at h
  have := abs_le.mpr (show -(1 + 1/128 : Rat) ≤ x * (10 : Rat) ^ k - y * (10 : Rat) ^ k ∧ x * (10 : Rat) ^ k - y * (10 : Rat) ^ k ≤ 1 + 1/128 by
    constructor <;> linarith [ex.1, ex.2, ey.1, ey.2])
  linarith

/-- **One coordinate moved by more than the rounding unit changes the canonical data** (hence, by
`preimage_injective`, the preimage; and the hash unless SHA-1 collides) — outside the zero band. -/
theorem single_edit_changes_canon {D} (P : Params D) (hfl : FlOk P.fl) (m : Mol) (l₁ l₂ : List Dbl) (x y : Rat)
    (hgeo : m.geometry = l₁ ++ .val x :: l₂)
    (hedit : 1 + 1 / 64 ≤ |x - y| * (10 : Rat) ^ 8)
    (b : Mol) (hb : b = { m with geometry := l₁ ++ .val y :: l₂ })
    (bm : m.Bounded P) (bb : b.Bounded P) (nm : m.NoBand P) (nb : b.NoBand P) :
    canon P m ≠ canon P b := by
  intro h
  have fa := (canon_eq_iff_fields_agree P hfl m b bm bb nm nb).mp h
  have hg := fa.geometry
  rw [hgeo, hb] at hg
  simp only [List.map_append, List.map_cons] at hg
  have hx : Bdd GEOMETRY_NOISE (.val x) := bm.geometry _ (by rw [hgeo]; simp)
  have hy : Bdd GEOMETRY_NOISE (.val y) := bb.geometry _ (by rw [hb]; simp)
  have := List.append_cancel_left hg
  exact round_separates hfl 8 x y hx hy hedit (List.cons.inj this).1

/-- **A change of any discrete listed field changes the canonical data.** -/
theorem discrete_edit_changes_canon {D} (P : Params D) (a b : Mol)
    (h : a.symbols ≠ b.symbols ∨ a.mult ≠ b.mult ∨ a.realR ≠ b.realR ∨ a.fragmentsR ≠ b.fragmentsR ∨
      a.fragMultsR ≠ b.fragMultsR ∨ a.connectivity ≠ b.connectivity) : canon P a ≠ canon P b := by
  intro he
  unfold canon at he
  simp only [Canon.mk.injEq] at he
  obtain ⟨h1, _, _, h4, h5, _, h7, _, h9, h10⟩ := he
  rcases h with h | h | h | h | h | h
  · exact h h1
  · exact h h4
  · exact h h5
  · exact h h7
  · exact h h9
  · exact h h10

end QcelVerif.Hash
