import QcelVerif.Lemmas.NucleusRegex
/-!
# C06 — the label grammar is the one in the source

`Gen/NucleusRegex.lean` is regenerated on every run from `qcelemental/molparse/regex.py` and the compile site in
`nucleus.py` (CPython's own parse tree of `\A` NUCLEUS `\Z` under IGNORECASE | VERBOSE).  The theorems below tie the
hand-written recogniser of `Model/Nucleus.lean` — the one every other C06 theorem and the C04/C07 models reason about —
to the generic regex engine run on that generated AST, for **every** byte string (no length bound):

  * `Regex.bt_eq_findSome` (Lemmas/RegexEngine)  the backtracking engine returns the first success of the
                              list-of-successes semantics (any AST, any continuation, any state)
  * `allMatches_eq_regex`     the hand recogniser explores exactly the regex's matches, in the same order, with the same
                              eight named groups
  * `matchNucleus_eq_regex`   hence `_nucleus.match` by the engine on the generated AST = the hand recogniser
  * `parseLabel_eq_regex`     hence `parse_nucleus_label` through the generated regex = the hand `parseLabel`
  * `generated_wf`            the generated ASTs (NUCLEUS, NUMBER, CHGMULT) repeat no nullable body, so the engine's
                              fuel never truncates a repetition (the translator refuses such patterns as well)

What stays differential: that the engine + translator reproduce CPython's `re` (P lines three-way, X lines on NUMBER and
CHGMULT), ASCII only.
-/
namespace QcelVerif.Nucleus
open QcelVerif QcelVerif.PStr QcelVerif.Regex

/-- `_nucleus.match(label)` computed by the generic engine on the AST generated from regex.py equals the hand-written
recogniser, for every byte string -/
theorem matchNucleus_eq_regex (s : Bytes) : matchNucleusRe s = matchNucleus s := by
  unfold matchNucleusRe matchNucleus
  rw [matchPrefix_eq_head, ← List.head?_map, allMatches_eq_regex]

/-- `parse_nucleus_label` through the generated regex equals the hand model's `parseLabel`, for every byte string -/
theorem parseLabel_eq_regex (s : Bytes) : parseLabelRe s = parseLabel s := by
  rw [parseLabel_eq_map, ← matchNucleus_eq_regex]
  rfl

/-- a label the generated regex does not match is exactly a label the hand recogniser rejects (the
"Nucleus label is not parseable" ValidationError of `unparseable_label`) -/
theorem unparseable_iff_regex (s : Bytes) :
    parseLabel s = none ↔ Gen.NucleusRegex.nucleus.ms (St.init s) = [] := by
  rw [← parseLabel_eq_regex]
  unfold parseLabelRe matchNucleusRe
  rw [Option.map_eq_none_iff, Option.map_eq_none_iff, matchPrefix_none]

/-- the generated ASTs repeat no nullable body -/
theorem generated_wf :
    Gen.NucleusRegex.nucleus.wf = true ∧ Gen.NucleusRegex.number.wf = true ∧ Gen.NucleusRegex.chgmult.wf = true := by
  decide

/-! tests (concrete evaluations of the engine on the generated AST, `decide`) -/

-- test: '@13C_tag@13.003' -> gh1, A = '13', E = 'C', user1 = '_tag', mass = '13.003'
example : matchNucleusRe [64, 49, 51, 67, 95, 116, 97, 103, 64, 49, 51, 46, 48, 48, 51]
    = some { gh1 := true, gh2 := false, A := some [49, 51], E := some [67], user1 := some [95, 116, 97, 103], Z := none,
             user2 := none, mass := some [49, 51, 46, 48, 48, 51] } := by decide
-- test: 'Gh(H' (unclosed ghost) is not parseable
example : matchNucleusRe [71, 104, 40, 72] = none := by decide
-- test (non-vacuity of `unparseable_iff_regex`, both directions): '' has no match, 'H' has one
example : Gen.NucleusRegex.nucleus.ms (St.init []) = [] := by decide
example : Gen.NucleusRegex.nucleus.ms (St.init [72]) ≠ [] := by decide

end QcelVerif.Nucleus
