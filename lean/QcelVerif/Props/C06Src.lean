import QcelVerif.Lemmas.NucleusSrc

set_option linter.constructorNameAsVariable false
set_option linter.unusedSimpArgs false
namespace QcelVerif.Nucleus.Ast
open QcelVerif QcelVerif.PStr QcelVerif.PT QcelVerif.Nucleus QcelVerif.Gen.NucleusSrc

section main
variable (N : NTables) (rd : Rat → Rat) (rng : Nat → Option Range)

/-- the hooks `reconcileSrc` runs the body with -/
abbrev H0 : Hooks :=
  { W := W0 N rd rng, R := program.recDef, callee := callee2 program (W0 N rd rng), parse := parseSrc program (W0 N rd rng) }

/-- the evaluator's state represents the model's evidence: candidates equal, tests pairwise equivalent -/
structure Inv (mtol : PyNum) (st : St) (zo : List ZOffer) (late : List Late) (rc : List PyNum) (uc : List Bytes) : Prop where
  zE : st.zE = zo.map (·.z)
  zR : Reps (RepZ rd) st.zR (zo.map (·.z))
  aE : st.aE = zo.map (·.zA) ++ late.map (·.a)
  aR : Reps (RepA rd) st.aR (zo.map (·.aPred) ++ late.map (·.aPred))
  mE : st.mE = zo.map (·.zMass) ++ late.map (·.m)
  mR : Reps (RepM rd mtol) st.mR (zo.map (·.mPred) ++ late.map (·.mPred))
  rE : st.rE = PyNum.bool true :: rc
  rR : Reps (RepR rd) st.rR rc
  lE : st.lE = [] :: uc
  lR : Reps (RepL rd) st.lR uc

theorem srcOfferZ_spec (mtol : PyNum) (np : Bool) (z : Int) (st : St) (zo rc uc) (hinv : Inv rd mtol st zo [] rc uc) :
    match offerZ N rd rng np z with
    | .error e => srcOfferZ N rd rng np z st = .error e
    | .ok o => ∃ st', srcOfferZ N rd rng np z st = .ok st' ∧ st'.g = st.g ∧ Inv rd mtol st' (zo ++ [o]) [] rc uc := by
  unfold offerZ srcOfferZ
  cases hE : N.pt.toE (.int z) false with
  | none => simp [ofOpt]
  | some sym =>
  cases hM : tableMass N rd (.int z) with
  | error e => simp [ofOpt]
  | ok zm =>
  cases hA : N.pt.toA (.int z) with
  | none => simp [ofOpt]
  | some za =>
  cases hR : rng sym with
  | none => simp [ofOpt, hR]
  | some r =>
    simp only [ofOpt, hR, ok_bind, pure_eq_ok]
    refine ⟨_, rfl, rfl, ?_⟩
    constructor
    · simp [St.pushZ, hinv.zE]
    · simp only [St.pushZ, List.map_append, List.map_cons, List.map_nil]
      exact Reps.append hinv.zR (Reps.single (repZ_eqClo rd z))
    · simp [St.pushZ, hinv.aE]
    · have := hinv.aR
      simp only [List.map_nil, List.append_nil] at this
      simp only [St.pushZ, List.map_append, List.map_cons, List.map_nil, List.append_nil]
      exact Reps.append this (Reps.single (repA_range rd np r))
    · simp [St.pushZ, hinv.mE]
    · have := hinv.mR
      simp only [List.map_nil, List.append_nil] at this
      simp only [St.pushZ, List.map_append, List.map_cons, List.map_nil, List.append_nil]
      exact Reps.append this (Reps.single (repM_range rd mtol np r))
    · exact hinv.rE
    · exact hinv.rR
    · exact hinv.lE
    · exact hinv.lR

theorem ne_none_optNum (v : PyNum) : (Val.num v != Val.none) = true := by simp
theorem truthy_true : (vbool true).truthy = true := truthy_vbool true
theorem truthy_false : (vbool false).truthy = false := truthy_vbool false

/-- `if <k> is not None: offer_atomic_number(<k>)` -/
theorem step_Z (mtol : PyNum) (np : Bool) (k : Nat) (v : Option PyNum) (st : St) (loc : Env) (zo rc uc)
    (hk : st.g.lookup k = some (optNum v)) (h7 : st.g.lookup 7 = some (vbool np)) (hinv : Inv rd mtol st zo [] rc uc) :
    match (optList v).mapM (fun z => offerZ N rd rng np (truncInt z.val)) with
    | .error e => Stmt.exec (H0 N rd rng) loc st (.ite (.isNotNone (.glob k)) (.cons (.call 1 [.glob k]) .nil) .nil) = .error e
    | .ok os => ∃ st', Stmt.exec (H0 N rd rng) loc st (.ite (.isNotNone (.glob k)) (.cons (.call 1 [.glob k]) .nil) .nil) = .ok (loc, st') ∧
        st'.g = st.g ∧ Inv rd mtol st' (zo ++ os) [] rc uc := by
  cases v with
  | none =>
    simp only [optList, List.mapM_nil, pure_eq_ok]
    refine ⟨st, ?_, rfl, by simpa using hinv⟩
    src_exec [hk, optNum, vbool]
    rfl
  | some p =>
    have hs := srcOfferZ_spec N rd rng mtol np (truncInt p.val) st zo rc uc hinv
    have hc : callee2 program (W0 N rd rng) 1 [.num p] st = srcOfferZ N rd rng np (truncInt p.val) st := fn1_exec N rd rng _ p st np h7
    simp only [optList, List.mapM_cons, List.mapM_nil]
    cases ho : offerZ N rd rng np (truncInt p.val) with
    | error e =>
      rw [ho] at hs
      simp only [err_bind]
      src_exec [hk, optNum, ne_none_optNum, truthy_true, hc, hs]
    | ok o =>
      rw [ho] at hs
      obtain ⟨st', he, hg, hi⟩ := hs
      simp only [ok_bind, pure_eq_ok]
      refine ⟨st', ?_, hg, hi⟩
      src_exec [hk, optNum, ne_none_optNum, truthy_true, hc, he]


theorem ne_none_str (v : Bytes) : (Val.str v != Val.none) = true := by simp
theorem none_ne_none : (Val.none != Val.none) = false := by simp

/-- `if <k> is not None: offer_element_symbol(<k>)` -/
theorem step_E (mtol : PyNum) (np : Bool) (k : Nat) (v : Option Bytes) (st : St) (loc : Env) (zo rc uc)
    (hk : st.g.lookup k = some (optStr v)) (h7 : st.g.lookup 7 = some (vbool np)) (hinv : Inv rd mtol st zo [] rc uc) :
    match (optList v).mapM (fun e => offerE N rd rng np e) with
    | .error e => Stmt.exec (H0 N rd rng) loc st (.ite (.isNotNone (.glob k)) (.cons (.call 0 [.glob k]) .nil) .nil) = .error e
    | .ok os => ∃ st', Stmt.exec (H0 N rd rng) loc st (.ite (.isNotNone (.glob k)) (.cons (.call 0 [.glob k]) .nil) .nil) = .ok (loc, st') ∧
        st'.g = st.g ∧ Inv rd mtol st' (zo ++ os) [] rc uc := by
  cases v with
  | none =>
    simp only [optList, List.mapM_nil, pure_eq_ok]
    refine ⟨st, ?_, rfl, by simpa using hinv⟩
    src_exec [hk, optStr, none_ne_none, truthy_false]
  | some e =>
    have hc := fn0_exec N rd rng e st np h7
    simp only [optList, List.mapM_cons, List.mapM_nil]
    unfold offerE
    cases hZ : N.pt.toZ (.str e) true with
    | none =>
      simp only [hZ, ofOpt, err_bind] at hc ⊢
      src_exec [hk, optStr, ne_none_str, truthy_true, hc]
    | some z =>
      simp only [hZ, ofOpt, ok_bind] at hc ⊢
      have hs := srcOfferZ_spec N rd rng mtol np (z : Int) st zo rc uc hinv
      cases ho : offerZ N rd rng np (z : Int) with
      | error e =>
        rw [ho] at hs
        simp only [err_bind]
        src_exec [hk, optStr, ne_none_str, truthy_true, hc, hs]
      | ok o =>
        rw [ho] at hs
        obtain ⟨st', he, hg, hi⟩ := hs
        simp only [ok_bind, pure_eq_ok]
        refine ⟨st', ?_, hg, hi⟩
        src_exec [hk, optStr, ne_none_str, truthy_true, hc, he]

theorem inv_pushLate {mtol : PyNum} {st : St} {zo late rc uc} (hinv : Inv rd mtol st zo late rc uc) (l : Late) (mc : Clo)
    (hA : l.aPred = .eq l.a) (hM : RepM rd mtol mc l.mPred) :
    Inv rd mtol (st.pushLate l.a l.m mc) zo (late ++ [l]) rc uc := by
  constructor
  · exact hinv.zE
  · exact hinv.zR
  · simp [St.pushLate, hinv.aE]
  · simp only [St.pushLate, List.map_append, List.map_cons, List.map_nil, ← List.append_assoc]
    refine Reps.append hinv.aR (Reps.single ?_)
    rw [hA]; exact repA_eqClo rd l.a
  · simp [St.pushLate, hinv.mE]
  · simp only [St.pushLate, List.map_append, List.map_cons, List.map_nil, ← List.append_assoc]
    exact Reps.append hinv.mR (Reps.single hM)
  · exact hinv.rE
  · exact hinv.rR
  · exact hinv.lE
  · exact hinv.lR

/-- `if <k> is not None: offer_mass_number(Z_final, <k>)` -/
theorem step_A (mtol : PyNum) (zf : Int) (sym : Nat) (hsym : N.pt.toE (.int zf) false = some sym) (k : Nat) (v : Option PyNum)
    (st : St) (loc : Env) (zo late rc uc)
    (hk : st.g.lookup k = some (optNum v)) (h17 : st.g.lookup 17 = some (.num (.int zf))) (hinv : Inv rd mtol st zo late rc uc) :
    match (optList v).mapM (fun a => offerClue N rd sym mtol.val (.massNumber (truncInt a.val))) with
    | .error e => Stmt.exec (H0 N rd rng) loc st (.ite (.isNotNone (.glob k)) (.cons (.call 2 [.glob 17, .glob k]) .nil) .nil) = .error e
    | .ok ls => ∃ st', Stmt.exec (H0 N rd rng) loc st (.ite (.isNotNone (.glob k)) (.cons (.call 2 [.glob 17, .glob k]) .nil) .nil) = .ok (loc, st') ∧
        st'.g = st.g ∧ Inv rd mtol st' zo (late ++ ls) rc uc := by
  cases v with
  | none =>
    simp only [optList, List.mapM_nil, pure_eq_ok]
    refine ⟨st, ?_, rfl, by simpa using hinv⟩
    src_exec [hk, optNum, none_ne_none, truthy_false]
  | some p =>
    have hc : callee2 program (W0 N rd rng) 2 [.num (.int zf), .num p] st = _ := fn2_exec N rd rng _ zf sym hsym p st
    simp only [optList, List.mapM_cons, List.mapM_nil, offerClue]
    cases hM : tableMass N rd (.str (unpack sym ++ intStr (truncInt p.val))) with
    | error e =>
      simp only [hM, err_bind] at hc ⊢
      src_exec [hk, h17, optNum, ne_none_optNum, truthy_true, hc]
    | ok am =>
      simp only [hM, ok_bind, pure_eq_ok] at hc ⊢
      refine ⟨st.pushLate (truncInt p.val) am (nearClo am), ?_, rfl, inv_pushLate rd hinv ⟨truncInt p.val, .eq (truncInt p.val), am, .near am mtol.val⟩ (nearClo am) rfl (repM_near rd mtol am)⟩
      src_exec [hk, h17, optNum, ne_none_optNum, truthy_true, hc]

/-- `if <k> is not None: offer_mass_value(Z_final, <k>)` -/
theorem step_M (mtol : PyNum) (zf : Int) (sym : Nat) (hsym : N.pt.toE (.int zf) false = some sym) (k : Nat) (v : Option PyNum)
    (st : St) (loc : Env) (zo late rc uc) (hTM : ∀ k, tableMass N rd k ≠ .error .other)
    (hk : st.g.lookup k = some (optNum v)) (h17 : st.g.lookup 17 = some (.num (.int zf))) (h8 : st.g.lookup 8 = some (.num mtol))
    (hinv : Inv rd mtol st zo late rc uc) :
    ∃ st' ls, (optList v).mapM (fun m => offerClue N rd sym mtol.val (.massValue (rd m.val))) = .ok ls ∧
      Stmt.exec (H0 N rd rng) loc st (.ite (.isNotNone (.glob k)) (.cons (.call 3 [.glob 17, .glob k]) .nil) .nil) = .ok (loc, st') ∧
        st'.g = st.g ∧ Inv rd mtol st' zo (late ++ ls) rc uc := by
  cases v with
  | none =>
    refine ⟨st, [], rfl, ?_, rfl, by simpa using hinv⟩
    src_exec [hk, optNum, none_ne_none, truthy_false]
  | some p =>
    have hc : callee2 program (W0 N rd rng) 3 [.num (.int zf), .num p] st = _ := fn3_exec N rd rng _ zf sym hsym p mtol st h8 hTM
    refine ⟨st.pushLate (massToA N rd sym mtol.val (rd p.val)) (rd p.val) (eqClo (.num (.float (rd p.val)))),
      [⟨massToA N rd sym mtol.val (rd p.val), .eq (massToA N rd sym mtol.val (rd p.val)), rd p.val, .eq (rd p.val)⟩], rfl, ?_, rfl,
      inv_pushLate rd hinv ⟨massToA N rd sym mtol.val (rd p.val), .eq _, rd p.val, .eq (rd p.val)⟩ _ rfl (repM_eqClo rd mtol _)⟩
    src_exec [hk, h17, optNum, ne_none_optNum, truthy_true, hc]

theorem inv_pushR {mtol : PyNum} {st : St} {zo late rc uc} (hinv : Inv rd mtol st zo late rc uc) (p : PyNum) :
    Inv rd mtol (st.pushR p) zo late (rc ++ [p]) uc := by
  constructor
  · exact hinv.zE
  · exact hinv.zR
  · exact hinv.aE
  · exact hinv.aR
  · exact hinv.mE
  · exact hinv.mR
  · simp [St.pushR, hinv.rE]
  · exact Reps.append hinv.rR (Reps.single (repR_eqClo rd p))
  · exact hinv.lE
  · exact hinv.lR

theorem inv_pushL {mtol : PyNum} {st : St} {zo late rc uc} (hinv : Inv rd mtol st zo late rc uc) (s : Bytes) :
    Inv rd mtol (st.pushL s) zo late rc (uc ++ [s]) := by
  constructor
  · exact hinv.zE
  · exact hinv.zR
  · exact hinv.aE
  · exact hinv.aR
  · exact hinv.mE
  · exact hinv.mR
  · exact hinv.rE
  · exact hinv.rR
  · simp [St.pushL, hinv.lE]
  · exact Reps.append hinv.lR (Reps.single (repL_eqClo rd s))

/-- `if <k> is not None: offer_reality(<k>)` -/
theorem step_R (mtol : PyNum) (k : Nat) (v : Option PyNum) (st : St) (loc : Env) (zo late rc uc)
    (hk : st.g.lookup k = some (optNum v)) (hinv : Inv rd mtol st zo late rc uc) :
    ∃ st', Stmt.exec (H0 N rd rng) loc st (.ite (.isNotNone (.glob k)) (.cons (.call 4 [.glob k]) .nil) .nil) = .ok (loc, st') ∧
        st'.g = st.g ∧ Inv rd mtol st' zo late (rc ++ optList v) uc := by
  cases v with
  | none =>
    refine ⟨st, ?_, rfl, by simpa [optList] using hinv⟩
    src_exec [hk, optNum, none_ne_none, truthy_false]
  | some p =>
    have hc : callee2 program (W0 N rd rng) 4 [.num p] st = _ := fn4_exec N rd rng _ p st
    refine ⟨st.pushR p, ?_, rfl, inv_pushR rd hinv p⟩
    src_exec [hk, optNum, ne_none_optNum, truthy_true, hc]

/-- `offer_reality(<k>)` -/
theorem step_R' (mtol : PyNum) (k : Nat) (p : PyNum) (st : St) (loc : Env) (zo late rc uc)
    (hk : st.g.lookup k = some (.num p)) (hinv : Inv rd mtol st zo late rc uc) :
    ∃ st', Stmt.exec (H0 N rd rng) loc st (.call 4 [.glob k]) = .ok (loc, st') ∧ st'.g = st.g ∧ Inv rd mtol st' zo late (rc ++ [p]) uc := by
  have hc : callee2 program (W0 N rd rng) 4 [.num p] st = _ := fn4_exec N rd rng _ p st
  refine ⟨st.pushR p, ?_, rfl, inv_pushR rd hinv p⟩
  src_exec [hk, hc]

/-- `if <k> is not None: offer_user_label(<k>)` -/
theorem step_L (mtol : PyNum) (k : Nat) (v : Option Bytes) (st : St) (loc : Env) (zo late rc uc)
    (hk : st.g.lookup k = some (optStr v)) (hinv : Inv rd mtol st zo late rc uc) :
    ∃ st', Stmt.exec (H0 N rd rng) loc st (.ite (.isNotNone (.glob k)) (.cons (.call 5 [.glob k]) .nil) .nil) = .ok (loc, st') ∧
        st'.g = st.g ∧ Inv rd mtol st' zo late rc (uc ++ (optList v).map lower) := by
  cases v with
  | none =>
    refine ⟨st, ?_, rfl, by simpa [optList] using hinv⟩
    src_exec [hk, optStr, none_ne_none, truthy_false]
  | some s =>
    have hc : callee2 program (W0 N rd rng) 5 [.str s] st = _ := fn5_exec N rd rng _ s st
    refine ⟨st.pushL (lower s), ?_, rfl, inv_pushL rd hinv (lower s)⟩
    src_exec [hk, optStr, ne_none_str, truthy_true, hc]

/-- `offer_user_label(<k>)` -/
theorem step_L' (mtol : PyNum) (k : Nat) (s : Bytes) (st : St) (loc : Env) (zo late rc uc)
    (hk : st.g.lookup k = some (.str s)) (hinv : Inv rd mtol st zo late rc uc) :
    ∃ st', Stmt.exec (H0 N rd rng) loc st (.call 5 [.glob k]) = .ok (loc, st') ∧ st'.g = st.g ∧ Inv rd mtol st' zo late rc (uc ++ [lower s]) := by
  have hc : callee2 program (W0 N rd rng) 5 [.str s] st = _ := fn5_exec N rd rng _ s st
  refine ⟨st.pushL (lower s), ?_, rfl, inv_pushL rd hinv (lower s)⟩
  src_exec [hk, hc]


/-! ## the nested `reconcile` on the represented evidence -/

theorem recDef_eq : program.recDef = ⟨true, true⟩ := rfl

theorem rec_z (mtol : PyNum) (st : St) (zo late rc uc) (hinv : Inv rd mtol st zo late rc uc) (k : Nat) (f : Feature) :
    St.reconcile program.recDef rd st k f .z =
      (ofOpt (.validation f) (firstPassing (fun (p c : Int) => c == p) (zo.map (·.z)) (zo.map (·.z)))).map
        (fun v => { st with g := (k, .num (.int v)) :: st.g }) := by
  have h := firstPassingSrc_eq rd st.g (fun (i : Int) => Val.num (.int i)) (fun (p c : Int) => c == p) st.zR (zo.map (·.z))
    (fun x => runTests_of_reps rd st.g (RepZ rd) (fun (i : Int) => Val.num (.int i)) (fun (p c : Int) => c == p) x (fun c p hr => hr st.g x) _ _ hinv.zR) st.zE
  unfold St.reconcile
  rw [recDef_eq, h, hinv.zE]
  cases firstPassing (fun (p c : Int) => c == p) (zo.map (·.z)) (zo.map (·.z)) <;> rfl

theorem rec_a (mtol : PyNum) (st : St) (zo late rc uc) (hinv : Inv rd mtol st zo late rc uc) (k : Nat) (f : Feature) :
    St.reconcile program.recDef rd st k f .a =
      (ofOpt (.validation f) (firstPassing APred.holds (zo.map (·.zA) ++ late.map (·.a)) (zo.map (·.aPred) ++ late.map (·.aPred)))).map
        (fun v => { st with g := (k, .num (.int v)) :: st.g }) := by
  have h := firstPassingSrc_eq rd st.g (fun (i : Int) => Val.num (.int i)) APred.holds st.aR (zo.map (·.aPred) ++ late.map (·.aPred))
    (fun x => runTests_of_reps rd st.g (RepA rd) (fun (i : Int) => Val.num (.int i)) APred.holds x (fun c p hr => hr st.g x) _ _ hinv.aR) st.aE
  unfold St.reconcile
  rw [recDef_eq, h, hinv.aE]
  cases firstPassing APred.holds (zo.map (·.zA) ++ late.map (·.a)) (zo.map (·.aPred) ++ late.map (·.aPred)) <;> rfl

theorem rec_m (mtol : PyNum) (st : St) (zo late rc uc) (hinv : Inv rd mtol st zo late rc uc) (hg : GOk mtol st.g) (k : Nat) (f : Feature) :
    St.reconcile program.recDef rd st k f .m =
      (ofOpt (.validation f) (firstPassing (MPred.holds rd) (zo.map (·.zMass) ++ late.map (·.m)) (zo.map (·.mPred) ++ late.map (·.mPred)))).map
        (fun v => { st with g := (k, .num (.float v)) :: st.g }) := by
  have h := firstPassingSrc_eq rd st.g (fun (q : Rat) => Val.num (.float q)) (MPred.holds rd) st.mR (zo.map (·.mPred) ++ late.map (·.mPred))
    (fun x => runTests_of_reps rd st.g (RepM rd mtol) (fun (q : Rat) => Val.num (.float q)) (MPred.holds rd) x (fun c p hr => hr st.g hg x) _ _ hinv.mR) st.mE
  unfold St.reconcile
  rw [recDef_eq, h, hinv.mE]
  cases firstPassing (MPred.holds rd) (zo.map (·.zMass) ++ late.map (·.m)) (zo.map (·.mPred) ++ late.map (·.mPred)) <;> rfl

theorem rec_r (mtol : PyNum) (st : St) (zo late rc uc) (hinv : Inv rd mtol st zo late rc uc) (k : Nat) (f : Feature) :
    St.reconcile program.recDef rd st k f .r =
      (ofOpt (.validation f) (firstPassing (fun (p c : PyNum) => c.val == p.val) (PyNum.bool true :: rc) rc)).map
        (fun v => { st with g := (k, .num v) :: st.g }) := by
  have h := firstPassingSrc_eq rd st.g (fun (p : PyNum) => Val.num p) (fun (p c : PyNum) => c.val == p.val) st.rR rc
    (fun x => runTests_of_reps rd st.g (RepR rd) (fun (p : PyNum) => Val.num p) (fun (p c : PyNum) => c.val == p.val) x (fun c p hr => hr st.g x) _ _ hinv.rR) st.rE
  unfold St.reconcile
  rw [recDef_eq, h, hinv.rE]
  cases firstPassing (fun (p c : PyNum) => c.val == p.val) (PyNum.bool true :: rc) rc <;> rfl

theorem rec_l (mtol : PyNum) (st : St) (zo late rc uc) (hinv : Inv rd mtol st zo late rc uc) (k : Nat) (f : Feature) :
    St.reconcile program.recDef rd st k f .l =
      (ofOpt (.validation f) (firstPassing (fun (p c : Bytes) => c == p) ([] :: uc) uc)).map
        (fun v => { st with g := (k, .str v) :: st.g }) := by
  have h := firstPassingSrc_eq rd st.g (fun (s : Bytes) => Val.str s) (fun (p c : Bytes) => c == p) st.lR uc
    (fun x => runTests_of_reps rd st.g (RepL rd) (fun (s : Bytes) => Val.str s) (fun (p c : Bytes) => c == p) x (fun c p hr => hr st.g x) _ _ hinv.lR) st.lE
  unfold St.reconcile
  rw [recDef_eq, h, hinv.lE]
  cases firstPassing (fun (p c : Bytes) => c == p) ([] :: uc) uc <;> rfl

/-- `Inv` does not look at the frame -/
theorem Inv.frame {mtol : PyNum} {st : St} {zo late rc uc} (hinv : Inv rd mtol st zo late rc uc) (g : Env) :
    Inv rd mtol { st with g := g } zo late rc uc :=
  ⟨hinv.zE, hinv.zR, hinv.aE, hinv.aR, hinv.mE, hinv.mR, hinv.rE, hinv.rR, hinv.lE, hinv.lR⟩


/-! ## one-level unfoldings of the evaluator (so that the step lemmas can be applied statement by statement) -/

theorem exec_ite (H : Hooks) (loc st c t e) : Stmt.exec H loc st (.ite c t e) =
    (do let v ← c.eval H.W st.g loc; if v.truthy then t.exec H loc st else e.exec H loc st) := by rw [Stmt.exec]
theorem exec_cons (H : Hooks) (loc st s b) : Block.exec H loc st (.cons s b) =
    (do let r ← s.exec H loc st; b.exec H r.1 r.2) := by rw [Block.exec]
theorem exec_nil (H : Hooks) (loc st) : Block.exec H loc st .nil = .ok (loc, st) := by rw [Block.exec]
theorem exec_unpack (H : Hooks) (loc st ts a) : Stmt.exec H loc st (.unpackParse ts a) =
    (do let v ← a.eval H.W st.g loc; let vs ← H.parse v; let g' ← bindAll ts vs st.g; pure (loc, { st with g := g' })) := by rw [Stmt.exec]
theorem exec_reconcile (H : Hooks) (loc st k l f) : Stmt.exec H loc st (.reconcile k l f) =
    (do let st' ← st.reconcile H.R H.W.rd k f l; pure (loc, st')) := by rw [Stmt.exec]
theorem exec_assignF (H : Hooks) (loc st k e) : Stmt.exec H loc st (.assign false k e) =
    (do let v ← e.eval H.W st.g loc; pure (loc, { st with g := (k, v) :: st.g })) := by rw [Stmt.exec]
theorem exec_initCands (H : Hooks) (loc st l vs) : Stmt.exec H loc st (.initCands l vs) =
    (do let st' ← st.setCands l vs; pure (loc, st')) := by rw [Stmt.exec]
theorem exec_initTests (H : Hooks) (loc st l) : Stmt.exec H loc st (.initTests l) = .ok (loc, st.clearTests l) := by rw [Stmt.exec]

theorem parseLabel_eq (l : Bytes) : parseLabel l = (matchNucleus l).map labelOfGroups := rfl

/-- the frame after `lbl_A, …, lbl_user = parse_nucleus_label(label)` -/
def labG (rd : Rat → Rat) (lab : Option Label) (g : Env) : Env :=
  match lab with
  | none => g
  | some L => (16, optStr L.user) :: (15, vbool L.real) :: (14, optMassV rd L.mass) :: (13, optStr L.E) :: (12, optNatV L.Z) ::
      (11, optNatV L.A) :: g

theorem mapM_labZ (np : Bool) (o : Option Nat) :
    (optList (o.map (fun (n : Nat) => PyNum.int (n : Int)))).mapM (fun z => offerZ N rd rng np (truncInt z.val)) =
      (optList o).mapM (fun (z : Nat) => offerZ N rd rng np (z : Int)) := by
  cases o with
  | none => rfl
  | some n =>
    have : truncInt ((PyNum.int (n : Int)).val) = (n : Int) := truncInt_intCast _
    show List.mapM _ [PyNum.int (n : Int)] = List.mapM _ [n]
    simp only [List.mapM_cons, List.mapM_nil, this]

theorem optNatV_eq (o : Option Nat) : optNatV o = optNum (o.map (fun (n : Nat) => PyNum.int (n : Int))) := by cases o <;> rfl

/-- the label block of the first stage (nucleus.py: `if label is not None and speclabel is True: …`) -/
theorem step_label1 (i : Input) (st : St) (zo rc uc)
    (hG : ∀ l g, i.label = some l → matchNucleus l = some g → GroupsOk g)
    (h5 : st.g.lookup 5 = some (optStr i.label)) (h6 : st.g.lookup 6 = some (vbool i.speclabel))
    (h7 : st.g.lookup 7 = some (vbool i.nonphysical)) (hinv : Inv rd i.mtol st zo [] rc uc) :
    match labelOf i with
    | .error e => Stmt.exec (H0 N rd rng) [] st
        (.ite (.andE (.isNotNone (.glob 5)) (.isTrue (.glob 6)))
          (.cons (.unpackParse [11, 12, 13, 14, 15, 16] (.glob 5))
            (.cons (.ite (.isNotNone (.glob 12)) (.cons (.call 1 [.glob 12]) .nil) .nil)
              (.cons (.ite (.isNotNone (.glob 13)) (.cons (.call 0 [.glob 13]) .nil) .nil) .nil))) .nil) = .error e
    | .ok lab =>
      match (optList (lab.bind (·.Z))).mapM (fun (z : Nat) => offerZ N rd rng i.nonphysical (z : Int)) with
      | .error e => Stmt.exec (H0 N rd rng) [] st
          (.ite (.andE (.isNotNone (.glob 5)) (.isTrue (.glob 6)))
            (.cons (.unpackParse [11, 12, 13, 14, 15, 16] (.glob 5))
              (.cons (.ite (.isNotNone (.glob 12)) (.cons (.call 1 [.glob 12]) .nil) .nil)
                (.cons (.ite (.isNotNone (.glob 13)) (.cons (.call 0 [.glob 13]) .nil) .nil) .nil))) .nil) = .error e
      | .ok o3 =>
        match (optList (lab.bind (·.E))).mapM (fun e => offerE N rd rng i.nonphysical e) with
        | .error e => Stmt.exec (H0 N rd rng) [] st
            (.ite (.andE (.isNotNone (.glob 5)) (.isTrue (.glob 6)))
              (.cons (.unpackParse [11, 12, 13, 14, 15, 16] (.glob 5))
                (.cons (.ite (.isNotNone (.glob 12)) (.cons (.call 1 [.glob 12]) .nil) .nil)
                  (.cons (.ite (.isNotNone (.glob 13)) (.cons (.call 0 [.glob 13]) .nil) .nil) .nil))) .nil) = .error e
        | .ok o4 => ∃ st', Stmt.exec (H0 N rd rng) [] st
            (.ite (.andE (.isNotNone (.glob 5)) (.isTrue (.glob 6)))
              (.cons (.unpackParse [11, 12, 13, 14, 15, 16] (.glob 5))
                (.cons (.ite (.isNotNone (.glob 12)) (.cons (.call 1 [.glob 12]) .nil) .nil)
                  (.cons (.ite (.isNotNone (.glob 13)) (.cons (.call 0 [.glob 13]) .nil) .nil) .nil))) .nil) = .ok ([], st') ∧
            st'.g = labG rd lab st.g ∧ Inv rd i.mtol st' (zo ++ o3 ++ o4) [] rc uc := by
  rw [exec_ite]
  unfold labelOf
  cases hl : i.label with
  | none =>
    rw [hl] at h5
    simp only [Expr.eval, ofOpt, h5, h6, optStr, ok_bind, pure_eq_ok, none_ne_none, truthy_false, Bool.false_eq_true, if_false, exec_nil,
      Option.bind, optList, List.mapM_nil]
    exact ⟨st, rfl, rfl, by simpa using hinv⟩
  | some l =>
    rw [hl] at h5
    cases hs : i.speclabel with
    | false =>
      rw [hs] at h6
      simp only [Expr.eval, ofOpt, h5, h6, optStr, ok_bind, pure_eq_ok, ne_none_str, truthy_true, if_true, vbool, exec_nil]
      simp only [Option.bind, optList, List.mapM_nil, pure_eq_ok]
      refine ⟨st, ?_, rfl, by simpa using hinv⟩
      simp [Val.truthy, PyNum.val]
    | true =>
      rw [hs] at h6
      have hvb : (vbool true == Val.num (PyNum.bool true)) = true := by decide
      simp only [Expr.eval, ofOpt, h5, h6, optStr, ok_bind, pure_eq_ok, ne_none_str, truthy_true, if_true, hvb, exec_cons, exec_unpack]
      simp only [parseSrc, parseLabel_eq]
      cases hm : matchNucleus l with
      | none => simp only [Option.map, ofOpt, err_bind, map_err']; rfl
      | some gr =>
        have hpf := parseFields_eq N rd rng gr (hG l gr hl hm)
        simp only [hpf, Option.map, ofOpt, map_ok', ok_bind, bindAll, labelVals, pure_eq_ok, Option.bind]
        generalize hL : labelOfGroups gr = L
        -- the frame after the tuple assignment
        let st1 : St := { st with g := labG rd (some L) st.g }
        have hinv1 : Inv rd i.mtol st1 zo [] rc uc := hinv.frame rd _
        have hk12 : st1.g.lookup 12 = some (optNum (L.Z.map (fun (n : Nat) => PyNum.int (n : Int)))) := by
          rw [← optNatV_eq]; rfl
        have h71 : st1.g.lookup 7 = some (vbool i.nonphysical) := by
          show List.lookup 7 (labG rd (some L) st.g) = _
          simp only [labG, List.lookup, Nat.reduceBEq, h7]
        have hz := step_Z N rd rng i.mtol i.nonphysical 12 (L.Z.map (fun (n : Nat) => PyNum.int (n : Int))) st1 [] zo rc uc hk12 h71 hinv1
        rw [mapM_labZ] at hz
        cases h3 : (optList L.Z).mapM (fun (z : Nat) => offerZ N rd rng i.nonphysical (z : Int)) with
        | error e =>
          rw [h3] at hz
          simp only at hz ⊢
          show (do let r ← Stmt.exec (H0 N rd rng) [] st1 _; _) = _
          rw [hz]; rfl
        | ok o3 =>
          rw [h3] at hz
          obtain ⟨st2, he2, hg2, hinv2⟩ := hz
          simp only
          have hk13 : st2.g.lookup 13 = some (optStr L.E) := by rw [hg2]; rfl
          have h72 : st2.g.lookup 7 = some (vbool i.nonphysical) := by rw [hg2]; exact h71
          have hE := step_E N rd rng i.mtol i.nonphysical 13 L.E st2 [] (zo ++ o3) rc uc hk13 h72 hinv2
          cases h4 : (optList L.E).mapM (fun e => offerE N rd rng i.nonphysical e) with
          | error e =>
            rw [h4] at hE
            simp only at hE ⊢
            show (do let r ← Stmt.exec (H0 N rd rng) [] st1 _; _) = _
            rw [he2]; simp only [ok_bind, exec_cons]; rw [hE]; rfl
          | ok o4 =>
            rw [h4] at hE
            obtain ⟨st3, he3, hg3, hinv3⟩ := hE
            simp only
            refine ⟨st3, ?_, by rw [hg3, hg2], hinv3⟩
            show (do let r ← Stmt.exec (H0 N rd rng) [] st1 _; _) = _
            rw [he2]; simp only [ok_bind, exec_cons]; rw [he3]; rfl


theorem mapM_labA (sym : Nat) (mtol : Rat) (o : Option Nat) :
    (optList (o.map (fun (n : Nat) => PyNum.int (n : Int)))).mapM (fun a => offerClue N rd sym mtol (.massNumber (truncInt a.val))) =
      (optList o).mapM (fun (a : Nat) => offerClue N rd sym mtol (.massNumber (a : Int))) := by
  cases o with
  | none => rfl
  | some n =>
    have : truncInt ((PyNum.int (n : Int)).val) = (n : Int) := truncInt_intCast _
    show List.mapM _ [PyNum.int (n : Int)] = List.mapM _ [n]
    simp only [List.mapM_cons, List.mapM_nil, this]

/-- what the label's `@mass` contributes (the captured text always parses: `GroupsOk`) -/
def labLate (sym : Nat) (mtol : Rat) (lab : Option Label) : List Late :=
  match lab.bind (·.mass) with
  | none => []
  | some t => match decVal t with
    | some q => [⟨massToA N rd sym mtol (rd q), .eq (massToA N rd sym mtol (rd q)), rd q, .eq (rd q)⟩]
    | none => []

theorem optMassV_eq (o : Option Bytes) : optMassV rd o = optNum ((o.bind decVal).map (fun q => PyNum.float (rd q))) := by
  cases o with
  | none => rfl
  | some t => simp only [optMassV, Option.bind]; cases decVal t <;> rfl

/-- the label block of the second stage (nucleus.py: `if label is not None: if speclabel: … else: offer_user_label(label)`) -/
theorem step_label2 (hidem : ∀ q, rd (rd q) = rd q) (hTM : ∀ k, tableMass N rd k ≠ .error .other)
    (i : Input) (lab : Option Label) (hlab : labelOf i = .ok lab) (zf : Int) (sym : Nat)
    (hsym : N.pt.toE (.int zf) false = some sym) (st : St) (zo late rc uc)
    (h5 : st.g.lookup 5 = some (optStr i.label)) (h6 : st.g.lookup 6 = some (vbool i.speclabel))
    (h8 : st.g.lookup 8 = some (.num i.mtol)) (h17 : st.g.lookup 17 = some (.num (.int zf)))
    (hL : ∀ L, lab = some L → st.g.lookup 11 = some (optNatV L.A) ∧ st.g.lookup 14 = some (optMassV rd L.mass) ∧
      st.g.lookup 15 = some (vbool L.real) ∧ st.g.lookup 16 = some (optStr L.user))
    (hinv : Inv rd i.mtol st zo late rc uc) :
    match (optList (lab.bind (·.A))).mapM (fun (a : Nat) => offerClue N rd sym i.mtol.val (.massNumber (a : Int))) with
    | .error e => Stmt.exec (H0 N rd rng) [] st
        (.ite (.isNotNone (.glob 5))
          (.cons (.ite (.glob 6)
            (.cons (.call 4 [.glob 15])
              (.cons (.ite (.isNotNone (.glob 11)) (.cons (.call 2 [.glob 17, .glob 11]) .nil) .nil)
                (.cons (.ite (.isNotNone (.glob 14)) (.cons (.call 3 [.glob 17, .glob 14]) .nil) .nil)
                  (.cons (.ite (.isNotNone (.glob 16)) (.cons (.call 5 [.glob 16]) .nil) .nil) .nil))))
            (.cons (.call 5 [.glob 5]) .nil)) .nil) .nil) = .error e
    | .ok l3 => ∃ st', Stmt.exec (H0 N rd rng) [] st
        (.ite (.isNotNone (.glob 5))
          (.cons (.ite (.glob 6)
            (.cons (.call 4 [.glob 15])
              (.cons (.ite (.isNotNone (.glob 11)) (.cons (.call 2 [.glob 17, .glob 11]) .nil) .nil)
                (.cons (.ite (.isNotNone (.glob 14)) (.cons (.call 3 [.glob 17, .glob 14]) .nil) .nil)
                  (.cons (.ite (.isNotNone (.glob 16)) (.cons (.call 5 [.glob 16]) .nil) .nil) .nil))))
            (.cons (.call 5 [.glob 5]) .nil)) .nil) .nil) = .ok ([], st') ∧ st'.g = st.g ∧
        Inv rd i.mtol st' zo (late ++ l3 ++ labLate N rd sym i.mtol.val lab)
          (rc ++ (optList lab).map (fun l => PyNum.bool l.real)) (uc ++ userClues i lab) := by
  rw [exec_ite]
  unfold labelOf at hlab
  unfold userClues
  cases hl : i.label with
  | none =>
    rw [hl] at h5 hlab
    simp only at hlab
    cases hlab
    simp only [Expr.eval, ofOpt, h5, optStr, ok_bind, pure_eq_ok, none_ne_none, truthy_false, Bool.false_eq_true, if_false, exec_nil,
      Option.bind, optList, List.mapM_nil, labLate]
    exact ⟨st, rfl, rfl, by simpa using hinv⟩
  | some l =>
    rw [hl] at h5 hlab
    cases hs : i.speclabel with
    | false =>
      rw [hs] at h6 hlab
      simp only at hlab
      cases hlab
      simp only [Expr.eval, ofOpt, h5, optStr, ok_bind, pure_eq_ok, ne_none_str, truthy_true, if_true, exec_cons, exec_nil, exec_ite, h6,
        truthy_false, Bool.false_eq_true, if_false, Option.bind, optList, List.mapM_nil, labLate, List.map_nil, List.append_nil]
      obtain ⟨st', he, hg, hi⟩ := step_L' N rd rng i.mtol 5 l st [] zo late rc uc h5 hinv
      refine ⟨st', ?_, hg, by simpa using hi⟩
      rw [he]; rfl
    | true =>
      rw [hs] at h6 hlab
      simp only at hlab
      cases hp : parseLabel l with
      | none => rw [hp] at hlab; cases hlab
      | some L =>
        rw [hp] at hlab
        cases hlab
        obtain ⟨h11, h14, h15, h16⟩ := hL L rfl
        simp only [Expr.eval, ofOpt, h5, optStr, ok_bind, pure_eq_ok, ne_none_str, truthy_true, if_true,
          Option.bind, optList, List.map_cons, List.map_nil]
        rw [exec_cons, exec_ite]
        simp only [Expr.eval, ofOpt, h6, ok_bind, truthy_true, if_true, exec_cons, exec_nil]
        -- offer_reality(lbl_real)
        obtain ⟨st1, he1, hg1, hi1⟩ := step_R' N rd rng i.mtol 15 (.bool L.real) st [] zo late rc uc h15 hinv
        rw [he1]; simp only [ok_bind]
        -- if lbl_A is not None: offer_mass_number(Z_final, lbl_A)
        have hA := step_A N rd rng i.mtol zf sym hsym 11 (L.A.map (fun (n : Nat) => PyNum.int (n : Int))) st1 [] zo late (rc ++ [.bool L.real]) uc
          (by rw [hg1, ← optNatV_eq]; exact h11) (by rw [hg1]; exact h17) hi1
        rw [mapM_labA] at hA
        cases h3 : (optList L.A).mapM (fun (a : Nat) => offerClue N rd sym i.mtol.val (.massNumber (a : Int))) with
        | error e =>
          rw [h3] at hA
          simp only [optList] at hA h3 ⊢
          rw [h3]
          simp only
          rw [hA]; rfl
        | ok l3 =>
          rw [h3] at hA
          obtain ⟨st2, he2, hg2, hi2⟩ := hA
          simp only [optList] at h3 ⊢
          rw [h3]
          simp only
          rw [he2]; simp only [ok_bind]
          -- if lbl_mass is not None: offer_mass_value(Z_final, lbl_mass)
          obtain ⟨st3, l4, hl4, he3, hg3, hi3⟩ := step_M N rd rng i.mtol zf sym hsym 14
            ((L.mass.bind decVal).map (fun q => PyNum.float (rd q))) st2 [] zo (late ++ l3) (rc ++ [.bool L.real]) uc hTM
            (by rw [hg2, hg1, ← optMassV_eq]; exact h14) (by rw [hg2, hg1]; exact h17) (by rw [hg2, hg1]; exact h8) hi2
          rw [he3]; simp only [ok_bind]
          -- if lbl_user is not None: offer_user_label(lbl_user)
          obtain ⟨st4, he4, hg4, hi4⟩ := step_L N rd rng i.mtol 16 L.user st3 [] zo (late ++ l3 ++ l4) (rc ++ [.bool L.real]) uc
            (by rw [hg3, hg2, hg1]; exact h16) hi3
          rw [he4]; simp only [ok_bind]
          refine ⟨st4, rfl, by rw [hg4, hg3, hg2, hg1], ?_⟩
          have hl4' : l4 = labLate N rd sym i.mtol.val (some L) := by
            unfold labLate
            simp only [Option.bind]
            cases hm : L.mass with
            | none => rw [hm] at hl4; simp only [Option.bind, Option.map, optList, List.mapM_nil, pure_eq_ok] at hl4; cases hl4; rfl
            | some t =>
              rw [hm] at hl4
              simp only [Option.bind] at hl4 ⊢
              cases hd : decVal t with
              | none => rw [hd] at hl4; simp only [Option.map, optList, List.mapM_nil, pure_eq_ok] at hl4; cases hl4; rfl
              | some q =>
                rw [hd] at hl4
                simp only [Option.map, optList, List.mapM_cons, List.mapM_nil, offerClue, val_float, hidem, ok_bind, pure_eq_ok] at hl4
                cases hl4; rfl
          rw [← hl4']
          simpa [optList] using hi4


/-! ## the model, re-associated into the source's statement order -/

theorem late_split {β} (i : Input) (lab : Option Label) (sym : Nat) (rest : List Late → Except Err β)
    (hdec : ∀ t, lab.bind (·.mass) = some t → ∃ q, decVal t = some q) :
    (do let clues ← cluesOf rd i lab
        let late ← clues.mapM (offerClue N rd sym i.mtol.val)
        rest late) =
    (do let l1 ← (optList i.A).mapM (fun a => offerClue N rd sym i.mtol.val (.massNumber (truncInt a.val)))
        let l2 ← (optList i.mass).mapM (fun m => offerClue N rd sym i.mtol.val (.massValue (rd m.val)))
        let l3 ← (optList (lab.bind (·.A))).mapM (fun (a : Nat) => offerClue N rd sym i.mtol.val (.massNumber (a : Int)))
        rest (l1 ++ l2 ++ l3 ++ labLate N rd sym i.mtol.val lab)) := by
  unfold cluesOf labLate
  cases hm : lab.bind (·.mass) with
  | none =>
    cases i.A <;> cases i.mass <;> cases lab.bind (·.A) <;>
      simp [optList, labelMass, offerClue, bind_assoc]
  | some t =>
    obtain ⟨q, hq⟩ := hdec t hm
    cases i.A <;> cases i.mass <;> cases lab.bind (·.A) <;>
      simp [optList, labelMass, offerClue, bind_assoc, hq]

/-- `reconcileWith` after its first stage -/
def modelTail (i : Input) (zo : List ZOffer) (lab : Option Label) : Except Err Output := do
  let zc := zo.map (·.z)
  let zf ← ofOpt (.validation .atomicNumber) (firstPassing (fun (p c : Int) => c == p) zc zc)
  let sym ← ofOpt .notAnElement (N.pt.toE (.int zf) false)
  let clues ← cluesOf rd i lab
  let late ← clues.mapM (offerClue N rd sym i.mtol.val)
  let mf ← ofOpt (.validation .mass)
    (firstPassing (MPred.holds rd) (zo.map (·.zMass) ++ late.map (·.m)) (zo.map (·.mPred) ++ late.map (·.mPred)))
  let af ← ofOpt (.validation .massNumber)
    (firstPassing APred.holds (zo.map (·.zA) ++ late.map (·.a)) (zo.map (·.aPred) ++ late.map (·.aPred)))
  let rc := realClues i lab
  let rf ← ofOpt (.validation .realGhost)
    (firstPassing (fun (p c : PyNum) => c.val == p.val) (PyNum.bool true :: rc) rc)
  let uc := userClues i lab
  let uf ← ofOpt (.validation .userLabel) (firstPassing (fun (p c : Bytes) => c == p) ([] :: uc) uc)
  pure { A := af, Z := zf, E := sym, mass := mf, real := rf, user := uf }

theorem reconcileWith_unfold (i : Input) : reconcileWith N rd rng i = (do
    let o1 ← (optList i.Z).mapM fun z => offerZ N rd rng i.nonphysical (truncInt z.val)
    let o2 ← (optList i.E).mapM fun e => offerE N rd rng i.nonphysical e
    let lab ← labelOf i
    let o3 ← (optList (lab.bind (·.Z))).mapM fun (z : Nat) => offerZ N rd rng i.nonphysical (z : Int)
    let o4 ← (optList (lab.bind (·.E))).mapM fun e => offerE N rd rng i.nonphysical e
    modelTail N rd i (o1 ++ o2 ++ o3 ++ o4) lab) := by
  simp only [reconcileWith, zStage, modelTail, bind_assoc, pure_bind]

theorem lab_dec (i : Input) (lab : Option Label) (hlab : labelOf i = .ok lab)
    (hG : ∀ l g, i.label = some l → matchNucleus l = some g → GroupsOk g) :
    ∀ t, lab.bind (·.mass) = some t → ∃ q, decVal t = some q := by
  intro t ht
  unfold labelOf at hlab
  cases hl : i.label with
  | none => rw [hl] at hlab; cases hlab; cases ht
  | some l =>
    rw [hl] at hlab
    cases hs : i.speclabel with
    | false => rw [hs] at hlab; cases hlab; cases ht
    | true =>
      rw [hs] at hlab
      simp only [parseLabel_eq] at hlab
      cases hm : matchNucleus l with
      | none => rw [hm] at hlab; cases hlab
      | some gr =>
        rw [hm] at hlab
        cases hlab
        exact ((hG l gr hl hm).2.2.2.2 t ht).2


/-- **The source-derived procedure is the model.**  For every table, every idempotent rounding function (`float(x)` of a
float is that float), every per-element range table and EVERY clue tuple: the evaluator run on the statements regenerated
from nucleus.py returns exactly what `reconcileWith` returns — the same tuple or the same error (class and feature).
Hypotheses: the table's mass strings parse (`hTM`: `to_mass` never fails with anything but NotAnElementError; the model maps
any failure inside `offer_mass_value`'s `try` to -1, the source only catches NotAnElementError) and the pattern's captures
are well-formed (`hG`, proved of every match below: `matchNucleus_groupsOk`). -/
theorem reconcileSrc_eq_model (hidem : ∀ q, rd (rd q) = rd q) (hTM : ∀ k, tableMass N rd k ≠ .error .other) (i : Input)
    (hG : ∀ l g, i.label = some l → matchNucleus l = some g → GroupsOk g) :
    reconcileSrc program N rd rng i = reconcileWith N rd rng i := by
  unfold reconcileSrc
  simp only [show program.body = body from rfl, show program.ret = ret from rfl, body]
  simp only [exec_cons, exec_nil, exec_initCands, exec_initTests, exec_assignF, St.setCands, St.clearTests, List.mapM_cons, List.mapM_nil,
    ok_bind, pure_eq_ok, Expr.eval]
  rw [reconcileWith_unfold]
  obtain ⟨st0, hst0⟩ : ∃ s : St, s = { g := (10, Val.num (PyNum.float (1 / 2))) :: frameOf i, zE := [], zR := [], aE := [], aR := [], mE := [], mR := [], rE := [PyNum.bool true], rR := [], lE := [[]], lR := [] } := ⟨_, rfl⟩
  rw [← hst0]
  have hg0 : st0.g = (10, Val.num (PyNum.float (1 / 2))) :: frameOf i := by rw [hst0]
  have hinv0 : Inv rd i.mtol st0 [] [] [] [] := by
    rw [hst0]; exact ⟨rfl, trivial, rfl, trivial, rfl, trivial, rfl, trivial, rfl, trivial⟩
  -- if Z is not None: offer_atomic_number(Z)
  have hz := step_Z N rd rng i.mtol i.nonphysical 1 i.Z st0 [] [] [] [] (by rw [hg0]; rfl) (by rw [hg0]; rfl) hinv0
  cases h1 : (optList i.Z).mapM (fun z => offerZ N rd rng i.nonphysical (truncInt z.val)) with
  | error e => rw [h1] at hz; simp only at hz; rw [hz]; rfl
  | ok o1 =>
  rw [h1] at hz
  obtain ⟨st1, he1, hg1, hinv1⟩ := hz
  rw [he1]; simp only [ok_bind]
  -- if E is not None: offer_element_symbol(E)
  have hE := step_E N rd rng i.mtol i.nonphysical 2 i.E st1 [] ([] ++ o1) [] [] (by rw [hg1, hg0]; rfl) (by rw [hg1, hg0]; rfl) hinv1
  cases h2 : (optList i.E).mapM (fun e => offerE N rd rng i.nonphysical e) with
  | error e => rw [h2] at hE; simp only at hE; rw [hE]; rfl
  | ok o2 =>
  rw [h2] at hE
  obtain ⟨st2, he2, hg2, hinv2⟩ := hE
  rw [he2]; simp only [ok_bind]
  -- if label is not None and speclabel is True: …
  have hL := step_label1 N rd rng i st2 ([] ++ o1 ++ o2) [] [] hG (by rw [hg2, hg1, hg0]; rfl) (by rw [hg2, hg1, hg0]; rfl)
    (by rw [hg2, hg1, hg0]; rfl) hinv2
  cases hlab : labelOf i with
  | error e => rw [hlab] at hL; simp only at hL; rw [hL]; rfl
  | ok lab =>
  rw [hlab] at hL; simp only at hL
  simp only [ok_bind]
  cases h3 : (optList (lab.bind (·.Z))).mapM (fun (z : Nat) => offerZ N rd rng i.nonphysical (z : Int)) with
  | error e => rw [h3] at hL; simp only at hL; rw [hL]; rfl
  | ok o3 =>
  rw [h3] at hL; simp only at hL
  cases h4 : (optList (lab.bind (·.E))).mapM (fun e => offerE N rd rng i.nonphysical e) with
  | error e => rw [h4] at hL; simp only at hL; rw [hL]; rfl
  | ok o4 =>
  rw [h4] at hL
  obtain ⟨st3, he3, hg3, hinv3⟩ := hL
  rw [he3]; simp only [ok_bind]
  simp only [List.nil_append] at hinv3
  -- Z_final = reconcile(Z_exact, Z_range, "atomic number")
  rw [exec_reconcile]; simp only []
  rw [rec_z rd i.mtol st3 _ _ _ _ hinv3]
  unfold modelTail; simp only []
  cases hzf : firstPassing (fun (p c : Int) => c == p) ((o1 ++ o2 ++ o3 ++ o4).map (·.z)) ((o1 ++ o2 ++ o3 ++ o4).map (·.z)) with
  | none => simp only [ofOpt, map_err', err_bind]
  | some zf =>
  simp only [ofOpt, map_ok', ok_bind, List.lookup, beq_self_eq_true, asPyVal]
  simp only [pure_eq_ok, ok_bind, List.lookup, beq_self_eq_true]
  cases hsym : N.pt.toE (.int zf) false with
  | none => simp only [err_bind]
  | some sym =>
  simp only [ok_bind]
  rw [late_split N rd i lab sym _ (lab_dec i lab hlab hG)]
  have hG3 : st3.g = labG rd lab ((10, Val.num (PyNum.float (1 / 2))) :: frameOf i) := by rw [hg3, hg2, hg1, hg0]
  have hk0 : List.lookup 0 ((18, Val.sym sym) :: (17, Val.num (PyNum.int zf)) :: st3.g) = some (optNum i.A) := by
    rw [hG3]; cases lab <;> rfl
  have hk3 : List.lookup 3 ((18, Val.sym sym) :: (17, Val.num (PyNum.int zf)) :: st3.g) = some (optNum i.mass) := by
    rw [hG3]; cases lab <;> rfl
  have hk4 : List.lookup 4 ((18, Val.sym sym) :: (17, Val.num (PyNum.int zf)) :: st3.g) = some (optNum i.real) := by
    rw [hG3]; cases lab <;> rfl
  have hk5 : List.lookup 5 ((18, Val.sym sym) :: (17, Val.num (PyNum.int zf)) :: st3.g) = some (optStr i.label) := by
    rw [hG3]; cases lab <;> rfl
  have hk6 : List.lookup 6 ((18, Val.sym sym) :: (17, Val.num (PyNum.int zf)) :: st3.g) = some (vbool i.speclabel) := by
    rw [hG3]; cases lab <;> rfl
  have hk8 : List.lookup 8 ((18, Val.sym sym) :: (17, Val.num (PyNum.int zf)) :: st3.g) = some (Val.num i.mtol) := by
    rw [hG3]; cases lab <;> rfl
  have hk10 : List.lookup 10 ((18, Val.sym sym) :: (17, Val.num (PyNum.int zf)) :: st3.g) = some (Val.num (PyNum.float (1 / 2))) := by
    rw [hG3]; cases lab <;> rfl
  have hk17 : List.lookup 17 ((18, Val.sym sym) :: (17, Val.num (PyNum.int zf)) :: st3.g) = some (Val.num (PyNum.int zf)) := rfl
  have hkL : ∀ L, lab = some L →
      List.lookup 11 ((18, Val.sym sym) :: (17, Val.num (PyNum.int zf)) :: st3.g) = some (optNatV L.A) ∧
      List.lookup 14 ((18, Val.sym sym) :: (17, Val.num (PyNum.int zf)) :: st3.g) = some (optMassV rd L.mass) ∧
      List.lookup 15 ((18, Val.sym sym) :: (17, Val.num (PyNum.int zf)) :: st3.g) = some (vbool L.real) ∧
      List.lookup 16 ((18, Val.sym sym) :: (17, Val.num (PyNum.int zf)) :: st3.g) = some (optStr L.user) := by
    intro L hL
    rw [hG3, hL]
    exact ⟨rfl, rfl, rfl, rfl⟩
  -- if A is not None: offer_mass_number(Z_final, A)
  have hA := step_A N rd rng i.mtol zf sym hsym 0 i.A { st3 with g := (18, Val.sym sym) :: (17, Val.num (PyNum.int zf)) :: st3.g } []
    (o1 ++ o2 ++ o3 ++ o4) [] [] [] hk0 hk17 (hinv3.frame rd _)
  cases h5 : (optList i.A).mapM (fun a => offerClue N rd sym i.mtol.val (.massNumber (truncInt a.val))) with
  | error e => rw [h5] at hA; simp only at hA; rw [hA]; rfl
  | ok l1 =>
  rw [h5] at hA
  obtain ⟨st5, he5, hg5, hinv5⟩ := hA
  rw [he5]; simp only [ok_bind]
  -- if mass is not None: offer_mass_value(Z_final, mass)
  obtain ⟨st6, l2, hl2, he6, hg6, hinv6⟩ := step_M N rd rng i.mtol zf sym hsym 3 i.mass st5 [] _ _ _ _ hTM
    (by rw [hg5]; exact hk3) (by rw [hg5]; exact hk17) (by rw [hg5]; exact hk8) hinv5
  rw [he6, hl2]; simp only [ok_bind]
  -- if real is not None: offer_reality(real)
  obtain ⟨st7, he7, hg7, hinv7⟩ := step_R N rd rng i.mtol 4 i.real st6 [] _ _ _ _ (by rw [hg6, hg5]; exact hk4) hinv6
  rw [he7]; simp only [ok_bind]
  -- if label is not None: …
  have hL2 := step_label2 N rd rng hidem hTM i lab hlab zf sym hsym st7 _ _ _ _
    (by rw [hg7, hg6, hg5]; exact hk5) (by rw [hg7, hg6, hg5]; exact hk6) (by rw [hg7, hg6, hg5]; exact hk8)
    (by rw [hg7, hg6, hg5]; exact hk17) (by rw [hg7, hg6, hg5]; exact hkL) hinv7
  cases h7 : (optList (lab.bind (·.A))).mapM (fun (a : Nat) => offerClue N rd sym i.mtol.val (.massNumber (a : Int))) with
  | error e => rw [h7] at hL2; simp only at hL2; rw [hL2]; rfl
  | ok l3 =>
  rw [h7] at hL2
  obtain ⟨st8, he8, hg8, hinv8⟩ := hL2
  rw [he8]; simp only [ok_bind]
  simp only [List.nil_append] at hinv8
  have hgok : GOk i.mtol st8.g := by rw [hg8, hg7, hg6, hg5]; exact ⟨hk8, hk10⟩
  simp only [realClues]
  -- mass_final = reconcile(m_exact, m_range, "mass")
  rw [exec_reconcile]; simp only []
  rw [rec_m rd i.mtol st8 _ _ _ _ hinv8 hgok]
  generalize firstPassing (MPred.holds rd) _ _ = fm
  cases fm with
  | none => simp only [ofOpt, map_err', err_bind]
  | some mf =>
  simp only [ofOpt, map_ok', ok_bind, pure_eq_ok]
  -- A_final = reconcile(A_exact, A_range, "mass number")
  rw [exec_reconcile]; simp only []
  rw [rec_a rd i.mtol _ _ _ _ _ (hinv8.frame rd _)]
  generalize firstPassing APred.holds _ _ = fa
  cases fa with
  | none => simp only [ofOpt, map_err', err_bind]
  | some af =>
  simp only [ofOpt, map_ok', ok_bind, pure_eq_ok]
  -- real_final = reconcile(r_exact, r_range, "real/ghost")
  rw [exec_reconcile]; simp only []
  rw [rec_r rd i.mtol _ _ _ _ _ (hinv8.frame rd _)]
  generalize firstPassing (fun (p c : PyNum) => c.val == p.val) _ _ = fr
  cases fr with
  | none => simp only [ofOpt, map_err', err_bind]
  | some rf =>
  simp only [ofOpt, map_ok', ok_bind, pure_eq_ok]
  -- user_final = reconcile(l_exact, l_range, "user label")
  rw [exec_reconcile]; simp only []
  rw [rec_l rd i.mtol _ _ _ _ _ (hinv8.frame rd _)]
  generalize firstPassing (fun (p c : Bytes) => c == p) _ _ = fu
  cases fu with
  | none => simp only [ofOpt, map_err', err_bind]
  | some uf =>
  simp only [ofOpt, map_ok', ok_bind, pure_eq_ok]
  -- return (A_final, Z_final, E_final, mass_final, real_final, user_final)
  simp only [hg8, hg7, hg6, hg5, ret, evalArgs, Expr.eval, ofOpt, List.lookup, beq_self_eq_true, Nat.reduceBEq, ok_bind, pure_eq_ok, toOutput]

end main
end QcelVerif.Nucleus.Ast
