import QcelVerif.Gen.HashSrc
import QcelVerif.Props.C11Concrete
/-!
# C11 — the hand model computes what the SOURCE-DERIVED terms compute

`Gen/HashSrc.lean` is rewritten on every run by `harness/c11_src.py:gen_hash_src`, which reads by python `ast`
(never by importing): the body of `float_prep`, the loop of `Molecule.get_hash` (+ `hash_fields`), `Molecule.__eq__`
and the `geometry_noise` default / rounding branch of `Molecule.__init__` in `qcelemental/models/molecule.py`, and the
`connectivity` block of `qcelemental/molparse/from_arrays.py`; each is emitted as a term of the small syntax of
`Model/HashAst.lean`, whose evaluator (`Src.floatPrep`, `Src.srcPreimage`, `Src.srcHash`, `Src.srcMolEq`,
`Src.srcPrepBonds`, `Src.srcConstruct`) is generic.

This file proves, for ALL inputs, that the evaluator AT THE GENERATED TERMS equals `Model/Hash.lean`'s
`prepArr` / `prepScalar` / `preimage ∘ canon` / `hash` / `molEq` / `prepBonds` / `construct`, and restates the
headline theorems of `Props/C11.lean` / `Props/C11Concrete.lean` over the source-derived functions.  A change of any
of the four regions in the source changes a generated term and breaks an obligation here, whether or not a generated
molecule exposes it.

PROPERTY-THEOREMS: src_translated src_prepArr_eq src_prepScalar_eq src_prep_typeError src_preimage_eq src_hash_eq
  src_digest_sha1_utf8 src_molEq_eq src_prepBonds_eq src_prepBonds_rejects src_construct_eq
  src_hash_eq_iff_fields_agree src_hash_indep_nonhash src_hash_sign_of_zero src_hash_noise
  src_bonds_permuted_reversed src_construct_hash
-/
namespace QcelVerif.Hash
open Src

/-- the translator recognised every region (otherwise it emits inert terms and `false` here) -/
theorem src_translated : Gen.translationOk = true := rfl

/-! ## 1. `float_prep` -/

/-- the zero band written in the source, `|x| < 5 ** (-(around + 1))` on a value rounded to `k` decimals, is the model's -/
theorem src_zeroBand_eq (k : Nat) (r : Rd) :
    (Val.rd k r).below k (.pow 5 (.neg (.add .around (.lit 1)))) = zeroBand k r := by
  have h1 : ¬ (0 : Int) ≤ -((k : Int) + 1) := by omega
  have h2 : (-(-((k : Int) + 1))).toNat = k + 1 := by omega
  simp only [Val.below, ThrE.eval, IntE.eval, h1, if_false, h2, zeroBand]
  congr 1
  apply propext
  constructor
  · intro h
    have : ((r.mag * 5 ^ (k + 1) : Nat) : Int) < ((10 ^ k : Nat) : Int) := by push_cast; simpa using h
    exact_mod_cast this
  · intro h
    have : ((r.mag * 5 ^ (k + 1) : Nat) : Int) < ((10 ^ k : Nat) : Int) := by exact_mod_cast h
    push_cast at this; simpa using this

theorem src_body_arr : Gen.floatPrep.body? .ndarray = Gen.floatPrep.body? .list := by
  simp [Gen.floatPrep, PrepFn.body?]

/-- the body the source runs on an array, entry by entry, is `prepArr` -/
theorem src_arrBody_run (fl : Rat → Rat) (k : Nat) (x : Dbl) :
    (Gen.floatPrep.body? .ndarray).map (fun b => runBody fl k b (.raw x)) = some (.rd k (prepArr fl k x)) := by
  simp [Gen.floatPrep, PrepFn.body?, runBody, runStmt, Val.toDbl, prepArr, src_zeroBand_eq, Val.setZero]
  split <;> rfl

/-- the body the source runs on a scalar is `prepScalar` -/
theorem src_scalarBody_run (k : Nat) (fl : Rat → Rat) (x : Dbl) :
    (Gen.floatPrep.body? .float).map (fun b => runBody fl k b (.raw x)) = some (.rd k (prepScalar k x)) := by
  simp [Gen.floatPrep, PrepFn.body?, runBody, runStmt, Val.toDbl, prepScalar, Val.isZero, Val.setZero]
  split <;> rfl

/-- **source-derived `float_prep`, list / ndarray argument = the model's `prepArr`, for every double and every `around`** -/
theorem src_prepArr_eq (fl : Rat → Rat) (k : Nat) (x : Dbl) :
    floatPrep Gen.floatPrep fl k .ndarray x = some (.rd k (prepArr fl k x))
    ∧ floatPrep Gen.floatPrep fl k .list x = some (.rd k (prepArr fl k x)) := by
  refine ⟨src_arrBody_run fl k x, ?_⟩
  unfold floatPrep
  rw [← src_body_arr]
  exact src_arrBody_run fl k x

/-- **source-derived `float_prep`, float / int argument = the model's `prepScalar`** -/
theorem src_prepScalar_eq (fl : Rat → Rat) (k : Nat) (x : Dbl) :
    floatPrep Gen.floatPrep fl k .float x = some (.rd k (prepScalar k x))
    ∧ floatPrep Gen.floatPrep fl k .int x = some (.rd k (prepScalar k x)) := by
  refine ⟨src_scalarBody_run k fl x, ?_⟩
  simp [floatPrep, Gen.floatPrep, PrepFn.body?, runBody, runStmt, Val.toDbl, prepScalar, Val.isZero, Val.setZero]
  split <;> rfl

/-- any other class: `TypeError` -/
theorem src_prep_typeError (fl : Rat → Rat) (k : Nat) (x : Dbl) : floatPrep Gen.floatPrep fl k .other x = none := by
  simp [floatPrep, Gen.floatPrep, PrepFn.body?]

/-- test: `-0.0` through the array branch at 8 decimals is `+0.0` -/
example : floatPrep Gen.floatPrep id 8 .ndarray .negZero = some (.rd 8 ⟨false, 0⟩) := by decide +kernel

/-! ## 2. `get_hash` -/

theorem renderElems_map {α β} (f : β → List Char) (g : α → β) : ∀ l : List α,
    renderElems f (l.map g) = renderElems (fun a => f (g a)) l
  | [] => rfl
  | [_] => rfl
  | a :: b :: t => by
    have ih := renderElems_map f g (b :: t)
    simp only [List.map_cons] at ih ⊢
    simp only [renderElems, ih]

theorem renderList_map {α β} (f : β → List Char) (g : α → β) (l : List α) :
    renderList f (l.map g) = renderList (fun a => f (g a)) l := by
  simp only [renderList, renderElems_map]

/-- an array field the source routes through `float_prep(·, k)` -/
theorem src_applyPrep_floats (fl : Rat → Rat) (k : Nat) (ty : PyType) (hty : ty = .ndarray ∨ ty = .list) (l : List Dbl) :
    applyPrep Gen.floatPrep fl k (.floats ty (l.map .raw)) = .floats .ndarray (l.map (fun x => .rd k (prepArr fl k x))) := by
  have hb : Gen.floatPrep.body? ty = Gen.floatPrep.body? .ndarray := by
    rcases hty with rfl | rfl
    · rfl
    · exact src_body_arr.symm
  simp only [applyPrep, hb]
  cases h : Gen.floatPrep.body? .ndarray with
  | none => have := src_arrBody_run fl k (.val 0); rw [h] at this; simp at this
  | some b =>
    simp only [List.map_map]
    congr 1
    apply List.map_congr_left
    intro x _
    have := src_arrBody_run fl k x
    rw [h] at this
    simpa using this

theorem src_applyPrep_float (fl : Rat → Rat) (k : Nat) (x : Dbl) :
    applyPrep Gen.floatPrep fl k (.float (.raw x)) = .float (.rd k (prepScalar k x)) := by
  simp only [applyPrep]
  cases h : Gen.floatPrep.body? .float with
  | none => have := src_scalarBody_run k fl x; rw [h] at this; simp at this
  | some b =>
    have := src_scalarBody_run k fl x
    rw [h] at this
    simpa using this

section fields
variable {D : Type} (P : Params D) (rr : Dbl → List Char) (m : Mol)

theorem src_dump_symbols : dumps P rr Gen.getHash.dumps (srcFieldVal Gen.floatPrep Gen.getHash P m .symbols)
    = renderList showStr m.symbols := by
  simp [Gen.getHash, srcFieldVal, FieldTest.holds, getField, dumps, FieldVal.hasNdarray]

theorem src_dump_masses : dumps P rr Gen.getHash.dumps (srcFieldVal Gen.floatPrep Gen.getHash P m .masses)
    = renderList (P.reprF MASS_NOISE) ((m.massesR P.massOf).map (prepArr P.fl MASS_NOISE)) := by
  have : srcFieldVal Gen.floatPrep Gen.getHash P m .masses
      = applyPrep Gen.floatPrep P.fl 6 (.floats .ndarray ((m.massesR P.massOf).map .raw)) := by
    simp [Gen.getHash, srcFieldVal, FieldTest.holds, getField]
  rw [this, src_applyPrep_floats _ _ _ (Or.inl rfl)]
  simp [Gen.getHash, dumps, FieldVal.hasNdarray, renderList_map, renderVal, MASS_NOISE]

theorem src_dump_charge : dumps P rr Gen.getHash.dumps (srcFieldVal Gen.floatPrep Gen.getHash P m .molecular_charge)
    = P.reprF CHARGE_NOISE (prepScalar CHARGE_NOISE m.charge) := by
  have : srcFieldVal Gen.floatPrep Gen.getHash P m .molecular_charge
      = applyPrep Gen.floatPrep P.fl 4 (.float (.raw m.charge)) := by
    simp [Gen.getHash, srcFieldVal, FieldTest.holds, getField]
  rw [this, src_applyPrep_float]
  simp [Gen.getHash, dumps, FieldVal.hasNdarray, renderVal, CHARGE_NOISE]

theorem src_dump_mult : dumps P rr Gen.getHash.dumps (srcFieldVal Gen.floatPrep Gen.getHash P m .molecular_multiplicity)
    = showInt m.mult := by
  simp [Gen.getHash, srcFieldVal, FieldTest.holds, getField, dumps, FieldVal.hasNdarray]

theorem src_dump_real : dumps P rr Gen.getHash.dumps (srcFieldVal Gen.floatPrep Gen.getHash P m .real)
    = renderList showBool m.realR := by
  simp [Gen.getHash, srcFieldVal, FieldTest.holds, getField, dumps, FieldVal.hasNdarray]

theorem src_dump_geometry : dumps P rr Gen.getHash.dumps (srcFieldVal Gen.floatPrep Gen.getHash P m .geometry)
    = renderList (P.reprF GEOMETRY_NOISE) (m.geometry.map (prepArr P.fl GEOMETRY_NOISE)) := by
  have : srcFieldVal Gen.floatPrep Gen.getHash P m .geometry
      = applyPrep Gen.floatPrep P.fl 8 (.floats .ndarray (m.geometry.map .raw)) := by
    simp [Gen.getHash, srcFieldVal, FieldTest.holds, getField]
  rw [this, src_applyPrep_floats _ _ _ (Or.inl rfl)]
  simp [Gen.getHash, dumps, FieldVal.hasNdarray, renderList_map, renderVal, GEOMETRY_NOISE]

theorem src_dump_fragments : dumps P rr Gen.getHash.dumps (srcFieldVal Gen.floatPrep Gen.getHash P m .fragments)
    = renderList (renderList showInt) m.fragmentsR := by
  simp [Gen.getHash, srcFieldVal, FieldTest.holds, getField, dumps, FieldVal.hasNdarray]

theorem src_dump_fragCharges : dumps P rr Gen.getHash.dumps (srcFieldVal Gen.floatPrep Gen.getHash P m .fragment_charges)
    = renderList (P.reprF CHARGE_NOISE) (m.fragChargesR.map (prepArr P.fl CHARGE_NOISE)) := by
  have : srcFieldVal Gen.floatPrep Gen.getHash P m .fragment_charges
      = applyPrep Gen.floatPrep P.fl 4 (.floats .list (m.fragChargesR.map .raw)) := by
    simp [Gen.getHash, srcFieldVal, FieldTest.holds, getField]
  rw [this, src_applyPrep_floats _ _ _ (Or.inr rfl)]
  simp [Gen.getHash, dumps, FieldVal.hasNdarray, renderList_map, renderVal, CHARGE_NOISE]

theorem src_dump_fragMults : dumps P rr Gen.getHash.dumps (srcFieldVal Gen.floatPrep Gen.getHash P m .fragment_multiplicities)
    = renderList showInt m.fragMultsR := by
  simp [Gen.getHash, srcFieldVal, FieldTest.holds, getField, dumps, FieldVal.hasNdarray]

theorem src_dump_connectivity : dumps P rr Gen.getHash.dumps (srcFieldVal Gen.floatPrep Gen.getHash P m .connectivity)
    = renderConn P.reprB m.connectivity := by
  simp [Gen.getHash, srcFieldVal, FieldTest.holds, getField, dumps, FieldVal.hasNdarray]

theorem src_fields : Gen.getHash.fields = [.symbols, .masses, .molecular_charge, .molecular_multiplicity, .real, .geometry,
    .fragments, .fragment_charges, .fragment_multiplicities, .connectivity] := by
  simp [Gen.getHash]

/-- **the string the source's loop concatenates (fields of `hash_fields` in source order, each through the first
matching branch of the `if/elif` chain, `json.dumps`-ed) is the model's `preimage (canon m)`** — for every molecule,
every mass table / rounding / printing parameter, and whatever `repr` of an un-prepped double would print -/
theorem src_preimage_eq : srcPreimage Gen.floatPrep Gen.getHash P rr m = preimage P (canon P m) := by
  unfold srcPreimage
  rw [src_fields]
  simp only [List.map_cons, List.map_nil, List.flatten_cons, List.flatten_nil, List.append_nil,
    src_dump_symbols, src_dump_masses, src_dump_charge, src_dump_mult, src_dump_real, src_dump_geometry,
    src_dump_fragments, src_dump_fragCharges, src_dump_fragMults, src_dump_connectivity]
  rfl

/-- **source-derived `get_hash()` = the model's `hash`** -/
theorem src_hash_eq : srcHash Gen.floatPrep Gen.getHash P rr m = hash P m := by
  unfold srcHash hash
  rw [src_preimage_eq]

end fields

/-- the digest is `hashlib.sha1().hexdigest()` over `concat.encode("utf-8")`, `sort_keys` is not passed and the
`default=lambda x: x.ravel().tolist()` hook is -/
theorem src_digest_sha1_utf8 : Gen.getHash.digestSha1Hex = true ∧ Gen.getHash.encodingUtf8 = true
    ∧ Gen.getHash.dumps.sortKeys = false ∧ Gen.getHash.dumps.defaultRavelTolist = true := by
  simp [Gen.getHash]

/-! ## 3. `__eq__` -/

/-- **source-derived `a == b` (two Molecule objects) never raises and is the model's `molEq`: equality of the two
`get_hash()` values, left operand `self`, right operand `other`**.
Scope note: like `molEq`, this covers the `isinstance(other, Molecule)` branch; the dict branch
(`other = Molecule(orient=False, **other)`) is recorded by the translator (`src_eq_accepts_dict`) and exercised by the oracle
(`a == b.dict()` forms) only — validation of a dict is C04's subject. -/
theorem src_molEq_eq {D} [DecidableEq D] (P : Params D) (rr : Dbl → List Char) (a b : Mol) :
    srcMolEq Gen.floatPrep Gen.getHash Gen.eqFn P rr a b = some (molEq P a b) := by
  simp [srcMolEq, Gen.eqFn, src_hash_eq, molEq]

/-- `__eq__` also accepts a dict (re-validated with `orient=False`) -/
theorem src_eq_accepts_dict : Gen.eqFn.acceptsDict = true := by simp [Gen.eqFn]

/-! ## 4. bond canonicalisation and construction-time rounding -/

theorem src_connOne_ok (x : Bond) (h : 0 ≤ x.order ∧ x.order ≤ 5) : connOne Gen.connFn x.toRaw = .ok (orient x) := by
  obtain ⟨h0, h5⟩ := h
  have e0 : ¬ x.order < 0 := not_lt.mpr h0
  have e5 : ¬ (5 : Rat) < x.order := not_lt.mpr h5
  have a0 : ¬ ((x.a : Int) < 0) := by omega
  have b0 : ¬ ((x.b : Int) < 0) := by omega
  have m1 : (min (x.a : Int) (x.b : Int)).toNat = min x.a x.b := by omega
  have m2 : (max (x.a : Int) (x.b : Int)).toNat = max x.a x.b := by omega
  simp [connOne, Gen.connFn, Bond.toRaw, BCheck.fires, IdxE.eval, OrdE.eval, orient, e0, e5, m1, m2, a0, b0,
    List.findIdx?_cons]

theorem src_connAll_ok : ∀ (bs : List Bond), (∀ b ∈ bs, 0 ≤ b.order ∧ b.order ≤ 5) →
    connAll Gen.connFn (bs.map Bond.toRaw) = .ok (bs.map orient)
  | [], _ => rfl
  | x :: t, h => by
    have hx := src_connOne_ok x (h x (by simp))
    have ht := src_connAll_ok t (fun b hb => h b (by simp [hb]))
    simp only [List.map_cons, connAll, hx, ht]

theorem src_sort_le : Gen.connFn.sort.le = bondLe := by
  funext x y
  simp [Gen.connFn, SortSpec.le]

/-- **source-derived bond canonicalisation = the model's `prepBonds`** on every bond list with orders in [0, 5]
(indices are naturals by the type of `Bond`): `(int(min), int(max), float(order))` per entry in source order, then the
plain `conn.sort()` (whole-tuple order) -/
theorem src_prepBonds_eq (bs : List Bond) (h : ∀ b ∈ bs, 0 ≤ b.order ∧ b.order ≤ 5) :
    srcPrepBonds Gen.connFn (bs.map Bond.toRaw) = .ok (prepBonds bs) := by
  simp only [srcPrepBonds, src_connAll_ok bs h, src_sort_le, prepBonds]

/-- non-vacuity of `src_prepBonds_eq` (test): two bonds given reversed and out of order -/
example : srcPrepBonds Gen.connFn [⟨3, 1, 2⟩, ⟨1, 0, 1⟩] = .ok [⟨0, 1, 1⟩, ⟨1, 3, 2⟩] := by decide +kernel

/-- **the validations, in source order**: an entry with a negative first index, negative second index, or an order
outside [0, 5] is refused by check 0 / 1 / 2 (first one that fires), whatever follows in the list.
Scope note: `RawBond` has integer indices, so the `not float(atN).is_integer()` half of the first two checks can never
fire here; a non-integral index is outside the model (and outside the generators). -/
theorem src_prepBonds_rejects (x : RawBond) (t : List RawBond) :
    (x.at1 < 0 → srcPrepBonds Gen.connFn (x :: t) = .error 0)
    ∧ (0 ≤ x.at1 → x.at2 < 0 → srcPrepBonds Gen.connFn (x :: t) = .error 1)
    ∧ (0 ≤ x.at1 → 0 ≤ x.at2 → (x.order < 0 ∨ 5 < x.order) → srcPrepBonds Gen.connFn (x :: t) = .error 2) := by
  refine ⟨fun h => ?_, fun h1 h2 => ?_, fun h1 h2 h3 => ?_⟩
  · simp [srcPrepBonds, connAll, connOne, Gen.connFn, BCheck.fires, List.findIdx?_cons, h]
  · have : ¬ x.at1 < 0 := by omega
    simp [srcPrepBonds, connAll, connOne, Gen.connFn, BCheck.fires, List.findIdx?_cons, this, h2]
  · have a1 : ¬ x.at1 < 0 := by omega
    have a2 : ¬ x.at2 < 0 := by omega
    have : (decide (x.order < 0) || decide (5 < x.order)) = true := by
      rcases h3 with h | h <;> simp [h]
    simp [srcPrepBonds, connAll, connOne, Gen.connFn, BCheck.fires, List.findIdx?_cons, a1, a2, this]

/-- non-vacuity (test): a bond of order 6 is refused by the third check -/
example : srcPrepBonds Gen.connFn [⟨0, 1, 6⟩] = .error 2 := by decide +kernel

/-- the default rounding of the constructor is the value of `GEOMETRY_NOISE` the hash uses -/
theorem src_cons_default : Gen.consFn.defaultConst = .GEOMETRY_NOISE ∧ Gen.consFn.defaultNoise = GEOMETRY_NOISE
    ∧ Gen.consFn.prepOnValidate = true := by
  simp [Gen.consFn, GEOMETRY_NOISE]

/-- **source-derived construction (`geometry_noise` default popped from kwargs, `float_prep(values["geometry"],
geometry_noise)` on the validate branch, bonds through the `connectivity` block) = the model's `construct`**, for every
molecule whose bond orders lie in [0, 5] -/
theorem src_construct_eq (fl : Rat → Rat) (m : Mol)
    (h : ∀ l, m.connectivity = some l → ∀ b ∈ l, 0 ≤ b.order ∧ b.order ≤ 5) :
    srcConstruct Gen.floatPrep Gen.consFn Gen.connFn fl m = some (construct fl m) := by
  have hg : (Gen.floatPrep.body? .ndarray).map
        (fun b => m.geometry.map (fun x => (runBody fl Gen.consFn.defaultNoise b (.raw x)).toDbl))
      = some (m.geometry.map (fun x => (prepArr fl GEOMETRY_NOISE x).toDbl GEOMETRY_NOISE)) := by
    cases hb : Gen.floatPrep.body? .ndarray with
    | none => have := src_arrBody_run fl 8 (.val 0); rw [hb] at this; simp at this
    | some b =>
      simp only [Option.map_some, Option.some.injEq]
      apply List.map_congr_left
      intro x _
      have := src_arrBody_run fl 8 x
      rw [hb] at this
      simp only [Option.map_some, Option.some.injEq] at this
      show (runBody fl 8 b (.raw x)).toDbl = _
      rw [this]
      rfl
  unfold srcConstruct
  simp only [src_cons_default.2.2, if_true, hg]
  cases hc : m.connectivity with
  | none => simp [construct, hc]
  | some l =>
    simp only [src_prepBonds_eq l (h l hc)]
    simp [construct, hc]

/-- non-vacuity of `src_construct_eq` / `src_construct_hash` (test): a bond list inside the accepted range, given reversed -/
example : ∀ l, (some [(⟨1, 0, 3 / 2⟩ : Bond), ⟨2, 0, 1⟩] : Option (List Bond)) = some l → ∀ b ∈ l, 0 ≤ b.order ∧ b.order ≤ 5 := by
  intro l h b hb
  cases h
  simp only [List.mem_cons, List.not_mem_nil, or_false] at hb
  rcases hb with rfl | rfl <;> constructor <;> norm_num

/-- test: the source-derived constructor on such a molecule — coordinate 1/3 stored as 0.33333333, `-0.0` as `+0.0`, the
bonds oriented and sorted -/
example : (srcConstruct Gen.floatPrep Gen.consFn Gen.connFn id
      { symbols := [], masses := none, charge := .val 0, mult := 1, real := none, geometry := [.val (1 / 3), .negZero],
        fragments := none, fragCharges := none, fragMults := none, connectivity := some [⟨1, 0, 3 / 2⟩, ⟨2, 0, 1⟩] }).map
      (fun s => (s.geometry, s.connectivity))
    = some ([.val (33333333 / 100000000), .val 0], some [⟨0, 1, 3 / 2⟩, ⟨0, 2, 1⟩]) := by decide +kernel

/-! ## 5. the headline theorems, over the source-derived functions -/

section headline
variable {D : Type} (massOf : List Char → Dbl) (sha1 : List Char → D) (rr : Dbl → List Char)

local notation "CP" => concreteParams massOf sha1
local notation "srcH" => srcHash Gen.floatPrep Gen.getHash (concreteParams massOf sha1) rr

/-- **source-derived hash equal ⇔ listed fields agree after the documented rounding** (validated, bounded, out of the
zero band, at the concrete rounding and printers; SHA-1 not colliding on the two SOURCE-DERIVED preimages) -/
theorem src_hash_eq_iff_fields_agree (a b : Mol)
    (hsha : sha1 (srcPreimage Gen.floatPrep Gen.getHash CP rr a) = sha1 (srcPreimage Gen.floatPrep Gen.getHash CP rr b) →
      srcPreimage Gen.floatPrep Gen.getHash CP rr a = srcPreimage Gen.floatPrep Gen.getHash CP rr b)
    (va : a.Valid CP) (vb : b.Valid CP)
    (pa : (canon CP a).BondsIn DecPrintable) (pb : (canon CP b).BondsIn DecPrintable)
    (ha : a.Bounded CP) (hb : b.Bounded CP) (na : a.NoBand CP) (nb : b.NoBand CP) :
    srcH a = srcH b ↔ FieldsAgree CP a b := by
  rw [src_hash_eq, src_hash_eq]
  rw [src_preimage_eq, src_preimage_eq] at hsha
  exact hash_eq_iff_fields_agree_concrete massOf sha1 a b hsha va vb pa pb ha hb na nb

/-- non-vacuity of `src_hash_eq_iff_fields_agree`: its hypotheses are, proposition by proposition, those of
`hash_eq_iff_fields_agree_concrete` (the SHA-1 hypothesis after rewriting with `src_preimage_eq`), whose satisfiability is
shown in `Props/C11Examples.lean` / `Props/C11Concrete.lean`; in particular it is not vacuous on `a = b` -/
example (a : Mol) :
    (sha1 (srcPreimage Gen.floatPrep Gen.getHash CP rr a) = sha1 (srcPreimage Gen.floatPrep Gen.getHash CP rr a) →
      srcPreimage Gen.floatPrep Gen.getHash CP rr a = srcPreimage Gen.floatPrep Gen.getHash CP rr a) := fun _ => rfl

/-- source-derived `==` ⇔ listed fields agree (same hypotheses) -/
theorem src_eq_iff_fields_agree [DecidableEq D] (a b : Mol)
    (hsha : sha1 (srcPreimage Gen.floatPrep Gen.getHash CP rr a) = sha1 (srcPreimage Gen.floatPrep Gen.getHash CP rr b) →
      srcPreimage Gen.floatPrep Gen.getHash CP rr a = srcPreimage Gen.floatPrep Gen.getHash CP rr b)
    (va : a.Valid CP) (vb : b.Valid CP)
    (pa : (canon CP a).BondsIn DecPrintable) (pb : (canon CP b).BondsIn DecPrintable)
    (ha : a.Bounded CP) (hb : b.Bounded CP) (na : a.NoBand CP) (nb : b.NoBand CP) :
    srcMolEq Gen.floatPrep Gen.getHash Gen.eqFn CP rr a b = some true ↔ FieldsAgree CP a b := by
  rw [src_molEq_eq, Option.some.injEq, molEq_iff]
  rw [src_preimage_eq, src_preimage_eq] at hsha
  exact hash_eq_iff_fields_agree_concrete massOf sha1 a b hsha va vb pa pb ha hb na nb

/-- **independence from the unlisted fields**: name, comment, labels, identifiers, provenance, extras, frame flags, id -/
theorem src_hash_indep_nonhash {D'} (P : Params D') (m : Mol) (o : Other) :
    srcHash Gen.floatPrep Gen.getHash P rr { m with other := o } = srcHash Gen.floatPrep Gen.getHash P rr m := by
  rw [src_hash_eq, src_hash_eq]
  exact hash_indep_nonhash P m o

/-- **sign of zero** -/
theorem src_hash_sign_of_zero (m : Mol) (hm : m.Bounded CP) : srcH m.posZeros = srcH m := by
  rw [src_hash_eq, src_hash_eq]
  exact hash_sign_of_zero_concrete massOf sha1 m hm

/-- **sub-rounding noise away from rounding boundaries** -/
theorem src_hash_noise (m : Mol) (g' : List Dbl) (h : List.Forall₂ NoiseClose m.geometry g') :
    srcH { m with geometry := g' } = srcH m := by
  rw [src_hash_eq, src_hash_eq]
  exact hash_noise_concrete massOf sha1 m g' h

/-- **order and orientation of the bond list**: reverse any bonds, permute the list — the source-derived stored
connectivity is the same (orders in [0, 5]) -/
theorem src_bonds_permuted_reversed (bs bs' : List Bond) (flip : Bond → Bool)
    (hb : ∀ b ∈ bs, 0 ≤ b.order ∧ b.order ≤ 5)
    (h : bs'.Perm (bs.map (fun x => if flip x then ⟨x.b, x.a, x.order⟩ else x))) :
    srcPrepBonds Gen.connFn (bs'.map Bond.toRaw) = srcPrepBonds Gen.connFn (bs.map Bond.toRaw) := by
  have hb' : ∀ b ∈ bs', 0 ≤ b.order ∧ b.order ≤ 5 := by
    intro b hbm
    have := (h.mem_iff).mp hbm
    rw [List.mem_map] at this
    obtain ⟨x, hx, rfl⟩ := this
    split
    · exact hb x hx
    · exact hb x hx
  rw [src_prepBonds_eq bs hb, src_prepBonds_eq bs' hb', bonds_permuted_reversed bs bs' flip h]

/-- non-vacuity of `src_bonds_permuted_reversed`: its hypotheses hold of a two-bond list with one bond reversed and the
list swapped -/
example : (∀ b ∈ ([⟨0, 1, 2⟩, ⟨1, 2, 1⟩] : List Bond), 0 ≤ b.order ∧ b.order ≤ 5)
    ∧ ([⟨2, 1, 1⟩, ⟨0, 1, 2⟩] : List Bond).Perm
        (([⟨0, 1, 2⟩, ⟨1, 2, 1⟩] : List Bond).map (fun x => if x.a == 1 then ⟨x.b, x.a, x.order⟩ else x)) := by
  refine ⟨?_, by decide⟩
  intro b hb
  simp only [List.mem_cons, List.not_mem_nil, or_false] at hb
  rcases hb with rfl | rfl <;> constructor <;> norm_num

/-- the same, evaluated (test) -/
example : srcPrepBonds Gen.connFn (([⟨2, 1, 1⟩, ⟨1, 0, 2⟩] : List Bond).map Bond.toRaw)
    = srcPrepBonds Gen.connFn (([⟨0, 1, 2⟩, ⟨1, 2, 1⟩] : List Bond).map Bond.toRaw) := by decide +kernel

/-- **construction rounding is invisible to the hash**, source-derived on both sides -/
theorem src_construct_hash (m : Mol)
    (hc : ∀ l, m.connectivity = some l → ∀ b ∈ l, 0 ≤ b.order ∧ b.order ≤ 5)
    (hg : ∀ x ∈ m.geometry, Bdd GEOMETRY_NOISE x ∧ ((prepArr rndDouble GEOMETRY_NOISE x).mag : Rat) ≤ 2 ^ 45) :
    (srcConstruct Gen.floatPrep Gen.consFn Gen.connFn rndDouble m).map srcH
      = some (srcH { m with connectivity := m.connectivity.map prepBonds }) := by
  rw [src_construct_eq rndDouble m hc, Option.map_some, src_hash_eq, src_hash_eq]
  exact congrArg some (construct_hash_concrete massOf sha1 m hg)

end headline

end QcelVerif.Hash
