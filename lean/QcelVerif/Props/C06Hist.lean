import QcelVerif.Props.C06Sound
/-!
# C06 — the result cache: Python-equality respect, LRU transparency, history independence
-/
namespace QcelVerif.Nucleus
open QcelVerif QcelVerif.PStr QcelVerif.PT

/-! ## a memo table in front of any function -/

namespace Lru
variable {κ ν ε : Type}

/-- every stored value is (equivalent to) what the function returns for the stored key -/
def Inv (f : κ → Except ε ν) (R : Except ε ν → Except ε ν → Prop) (c : Lru κ ν) : Prop :=
  ∀ e ∈ c.entries, R (.ok e.2) (f e.1)

theorem call_spec (keq : κ → κ → Bool) (f : κ → Except ε ν) (R : Except ε ν → Except ε ν → Prop)
    (hrefl : ∀ x, R x x) (htrans : ∀ x y z, R x y → R y z → R x z)
    (hresp : ∀ k k', keq k k' = true → R (f k) (f k'))
    (c : Lru κ ν) (hc : Inv f R c) (k : κ) :
    R (call keq f c k).2 (f k) ∧ Inv f R (call keq f c k).1 := by
  unfold call
  cases hfind : c.entries.find? (fun e => keq e.1 k) with
  | some e =>
    have hmem := List.mem_of_find?_eq_some hfind
    have hk := List.find?_some hfind
    refine ⟨htrans _ _ _ (hc e hmem) (hresp _ _ hk), ?_⟩
    intro e' he'
    simp only [List.mem_cons] at he'
    rcases he' with rfl | he'
    · exact hc _ hmem
    · exact hc _ (List.mem_filter.mp he').1
  | none =>
    cases hf : f k with
    | error x => simp only; exact ⟨hrefl _, hc⟩
    | ok v =>
      simp only
      refine ⟨hrefl _, ?_⟩
      intro e' he'
      have := List.mem_of_mem_take he'
      simp only [List.mem_cons] at this
      rcases this with rfl | h'
      · simp only; rw [hf]; exact hrefl _
      · exact hc _ h'

end Lru

/-- **LRU transparency.**  For any function `f` that respects the key equivalence `keq` up to a
reflexive–transitive relation `R` on results, any capacity, any starting table satisfying the
invariant (in particular the empty one) and ANY history of `call` / `clear` operations — hits,
misses, refreshes, evictions, exceptions — every call returns a result `R`-equivalent to `f k`. -/
theorem lru_transparent {κ ν ε : Type} (keq : κ → κ → Bool) (f : κ → Except ε ν)
    (R : Except ε ν → Except ε ν → Prop)
    (hrefl : ∀ x, R x x) (htrans : ∀ x y z, R x y → R y z → R x z)
    (hresp : ∀ k k', keq k k' = true → R (f k) (f k')) :
    ∀ (hist : List (Op κ)) (c : Lru κ ν), Lru.Inv f R c →
      ∀ p ∈ Lru.run keq f c hist, R p.2 (f p.1) := by
  intro hist
  induction hist with
  | nil => intro c _ p hp; cases hp
  | cons op t ih =>
    intro c hc p hp
    cases op with
    | clear =>
      simp only [Lru.run] at hp
      exact ih _ (by intro e he; cases he) p hp
    | call k =>
      simp only [Lru.run, List.mem_cons] at hp
      obtain ⟨h1, h2⟩ := Lru.call_spec keq f R hrefl htrans hresp c hc k
      rcases hp with rfl | hp
      · exact h1
      · exact ih _ h2 p hp

/-- the empty table satisfies the invariant -/
theorem Lru.inv_empty {κ ν ε : Type} (f : κ → Except ε ν) (R) (cap : Nat) :
    Lru.Inv f R ({ cap := cap, entries := [] } : Lru κ ν) := by
  intro e he; cases he

/-- the table never holds more than `cap` entries after a miss, and never grows on a hit -/
theorem Lru.call_size {κ ν ε : Type} (keq : κ → κ → Bool) (f : κ → Except ε ν) (c : Lru κ ν) (k : κ)
    (h : c.entries.length ≤ c.cap) : (Lru.call keq f c k).1.entries.length ≤ (Lru.call keq f c k).1.cap := by
  unfold Lru.call
  cases hfind : c.entries.find? (fun e => keq e.1 k) with
  | some e =>
    simp only [List.length_cons]
    have hmem := List.mem_of_find?_eq_some hfind
    have hk := List.find?_some hfind
    have : (c.entries.filter (fun e' => !keq e'.1 k)).length < c.entries.length := by
      have h1 := List.length_filter_le (fun e' : κ × ν => !keq e'.1 k) c.entries
      rcases Nat.lt_or_ge (c.entries.filter (fun e' => !keq e'.1 k)).length c.entries.length with h2 | h2
      · exact h2
      · have heq : (c.entries.filter (fun e' => !keq e'.1 k)).length = c.entries.length := Nat.le_antisymm h1 h2
        have := (List.length_filter_eq_length_iff.mp heq) e hmem
        simp [hk] at this
    omega
  | none =>
    cases hf : f k with
    | error x => simpa using h
    | ok v => simp only [List.length_take]; omega

/-! ## Python equality of results -/

/-- `==` on what a call produces: same exception, or tuples equal under `==` (`real` by value) -/
def ResEq : Except Err Output → Except Err Output → Prop
  | .ok a, .ok b => Output.pyEq a b = true
  | .error e, .error e' => e = e'
  | _, _ => False

theorem Output.pyEq_iff (a b : Output) :
    Output.pyEq a b = true ↔ a.A = b.A ∧ a.Z = b.Z ∧ a.E = b.E ∧ a.mass = b.mass ∧ a.real.val = b.real.val ∧ a.user = b.user := by
  simp [Output.pyEq, and_assoc]

theorem ResEq.refl (x : Except Err Output) : ResEq x x := by
  cases x with
  | error e => rfl
  | ok a => simp [ResEq, Output.pyEq_iff]

theorem ResEq.trans (x y z : Except Err Output) (h1 : ResEq x y) (h2 : ResEq y z) : ResEq x z := by
  cases x <;> cases y <;> cases z <;> simp only [ResEq] at h1 h2 ⊢
  · exact h1.trans h2
  · rw [Output.pyEq_iff] at h1 h2 ⊢
    obtain ⟨a1, a2, a3, a4, a5, a6⟩ := h1
    obtain ⟨b1, b2, b3, b4, b5, b6⟩ := h2
    exact ⟨a1.trans b1, a2.trans b2, a3.trans b3, a4.trans b4, a5.trans b5, a6.trans b6⟩

theorem optNumEq_iff (a b : Option PyNum) : optNumEq a b = true ↔ a.map PyNum.val = b.map PyNum.val := by
  cases a <;> cases b <;> simp [optNumEq]

theorem Input.pyEq_iff (i j : Input) :
    Input.pyEq i j = true ↔
      i.A.map PyNum.val = j.A.map PyNum.val ∧ i.Z.map PyNum.val = j.Z.map PyNum.val ∧ i.E = j.E ∧
      i.mass.map PyNum.val = j.mass.map PyNum.val ∧ i.real.map PyNum.val = j.real.map PyNum.val ∧
      i.label = j.label ∧ i.speclabel = j.speclabel ∧ i.nonphysical = j.nonphysical ∧ i.mtol.val = j.mtol.val := by
  simp [Input.pyEq, optNumEq_iff, and_assoc]

/-- a list built from an optional number through its value only -/
theorem optList_map_val {β} (a b : Option PyNum) (h : a.map PyNum.val = b.map PyNum.val) (g : Rat → β) :
    (optList a).map (fun p => g p.val) = (optList b).map (fun p => g p.val) := by
  cases a <;> cases b <;> simp [optList] at h ⊢
  rw [h]

theorem optList_mapM_val {β} (a b : Option PyNum) (h : a.map PyNum.val = b.map PyNum.val) (g : Rat → Except Err β) :
    (optList a).mapM (fun p => g p.val) = (optList b).mapM (fun p => g p.val) := by
  cases a <;> cases b <;> simp [optList] at h ⊢
  rw [h]

theorem zStage_congr (N : NTables) (rd rng) (i j : Input) (h : Input.pyEq i j = true) :
    zStage N rd rng i = zStage N rd rng j := by
  obtain ⟨_, hZ, hE, _, _, hl, hs, hn, _⟩ := (Input.pyEq_iff i j).mp h
  have hlab : labelOf i = labelOf j := by unfold labelOf; rw [hl, hs]
  unfold zStage
  rw [hlab, hE, hn, optList_mapM_val i.Z j.Z hZ (fun v => offerZ N rd rng j.nonphysical (truncInt v))]

theorem cluesOf_congr (rd) (i j : Input) (lab) (h : Input.pyEq i j = true) :
    cluesOf rd i lab = cluesOf rd j lab := by
  obtain ⟨hA, _, _, hM, _, _, _, _, _⟩ := (Input.pyEq_iff i j).mp h
  unfold cluesOf
  rw [optList_map_val i.A j.A hA (fun v => Clue.massNumber (truncInt v)),
      optList_map_val i.mass j.mass hM (fun v => Clue.massValue (rd v))]

theorem userClues_congr (i j : Input) (lab) (h : Input.pyEq i j = true) : userClues i lab = userClues j lab := by
  obtain ⟨_, _, _, _, _, hl, hs, _, _⟩ := (Input.pyEq_iff i j).mp h
  unfold userClues; rw [hl, hs]

/-- the real/ghost searches of two `==` inputs return `==` values (or both fail) -/
theorem realFinal_congr (i j : Input) (lab : Option Label) (h : Input.pyEq i j = true) :
    (firstPassing (fun (p c : PyNum) => c.val == p.val) (PyNum.bool true :: realClues i lab) (realClues i lab)).map PyNum.val =
    (firstPassing (fun (p c : PyNum) => c.val == p.val) (PyNum.bool true :: realClues j lab) (realClues j lab)).map PyNum.val := by
  obtain ⟨_, _, _, _, hR, _, _, _, _⟩ := (Input.pyEq_iff i j).mp h
  unfold realClues
  cases hi : i.real with
  | none =>
    cases hj : j.real with
    | none => rfl
    | some b => rw [hi, hj] at hR; simp at hR
  | some a =>
    cases hj : j.real with
    | none => rw [hi, hj] at hR; simp at hR
    | some b =>
      rw [hi, hj] at hR
      simp only [Option.map_some, Option.some.injEq] at hR
      simp only [optList, List.cons_append, List.nil_append, firstPassing, List.all_cons, List.find?_cons, hR]
      split
      · rfl
      · split
        · simp [hR]
        · rfl

theorem bind_ResEq {α} (x : Except Err α) (g g' : α → Except Err Output) (h : ∀ a, ResEq (g a) (g' a)) :
    ResEq (x >>= g) (x >>= g') := by
  cases x with
  | error e => simp [bind, Except.bind, ResEq]
  | ok a => simpa [bind, Except.bind] using h a

/-- **The function respects Python equality of its arguments**: inputs that `lru_cache` cannot tell
apart (`1 == 1.0 == True` on A, Z, mass, real, mtol) give `==` results. -/
theorem reconcile_respects_pyEq (N : NTables) (rd : Rat → Rat) (rng : Nat → Option Range) (i j : Input)
    (h : Input.pyEq i j = true) : ResEq (reconcileWith N rd rng i) (reconcileWith N rd rng j) := by
  have hmt : i.mtol.val = j.mtol.val := ((Input.pyEq_iff i j).mp h).2.2.2.2.2.2.2.2
  unfold reconcileWith
  rw [zStage_congr N rd rng i j h]
  apply bind_ResEq; rintro ⟨zo, lab⟩
  simp only
  apply bind_ResEq; intro zf
  apply bind_ResEq; intro sym
  rw [cluesOf_congr rd i j lab h]
  apply bind_ResEq; intro clues
  rw [hmt]
  apply bind_ResEq; intro late
  apply bind_ResEq; intro mf
  apply bind_ResEq; intro af
  rw [userClues_congr i j lab h]
  have hr := realFinal_congr i j lab h
  cases h1 : firstPassing (fun (p c : PyNum) => c.val == p.val) (PyNum.bool true :: realClues i lab) (realClues i lab) with
  | none =>
    cases h2 : firstPassing (fun (p c : PyNum) => c.val == p.val) (PyNum.bool true :: realClues j lab) (realClues j lab) with
    | none => exact ResEq.refl _
    | some b => rw [h1, h2] at hr; simp at hr
  | some a =>
    cases h2 : firstPassing (fun (p c : PyNum) => c.val == p.val) (PyNum.bool true :: realClues j lab) (realClues j lab) with
    | none => rw [h1, h2] at hr; simp at hr
    | some b =>
      rw [h1, h2] at hr
      simp only [Option.map_some, Option.some.injEq] at hr
      simp only [ofOpt, bind, Except.bind]
      cases firstPassing (fun (p c : Bytes) => c == p) ([] :: userClues j lab) (userClues j lab) with
      | none => simp [ResEq]
      | some u => simp [ResEq, pure, Except.pure, Output.pyEq_iff, hr]

/-- **History independence.**  `reconcile_nucleus` behind its 512-entry memo table: whatever calls
(and `cache_clear()`s) came before, every call returns a result `==` to the direct, uncached call. -/
theorem history_independent (N : NTables) (rd : Rat → Rat) (rng : Nat → Option Range)
    (hist : List (Op Input)) :
    ∀ p ∈ Lru.run Input.pyEq (reconcileWith N rd rng) { cap := 512, entries := [] } hist,
      ResEq p.2 (reconcileWith N rd rng p.1) :=
  lru_transparent Input.pyEq (reconcileWith N rd rng) ResEq ResEq.refl ResEq.trans
    (reconcile_respects_pyEq N rd rng) hist _ (Lru.inv_empty _ _ _)

end QcelVerif.Nucleus
