import QcelVerif.Props.C16
import QcelVerif.Props.C16Unique
import QcelVerif.Model.OrientAst
import QcelVerif.Gen.OrientSrc
import QcelVerif.Model.OrientSrc
import Mathlib.Tactic.Ring
import Mathlib.Tactic.FieldSimp

/-!
# C16 — the orientation code regenerated from `molecule.py` equals the hand model `Model/Orient.lean`

`Gen/OrientSrc.lean` is rewritten on every run by `harness/c16_src.py` from `qcelemental/models/molecule.py`
(`Molecule._orient_molecule_internal`, `Molecule._inertial_tensor`, `float_prep`, `GEOMETRY_NOISE`); its terms are evaluated by
`Model/OrientAst.lean`.  Here the evaluator is instantiated at any linearly ordered field (`fieldOps`) and

1. every stage is proved equal to the hand model for ALL inputs and ALL `eigh` outputs:
   `src_inertia_eq` (`_inertial_tensor` = `inertia`), `src_centre_eq` / `src_centred_eq` (centre of mass, with `np.average`'s
   refusals), `src_tensorStage_eq` (tensor handed to `eigh` = `orientTensor`), `src_rot_eq` (`np.dot(new_geometry, evecs)` as a
   general array product = `rotate`), `body_step` / `src_phase_eq` (the in-place phase loop = the sign-tracking `phase`, with or
   without the `break`: `src_break_irrelevant`), `src_afterEigh_eq` (everything after `eigh` = `orientCore`), `srcNoise_eq`,
   `src_prep_eq` (`float_prep`'s array branch = `floatPrepK`);
2. the headline theorems are restated over the source-derived functions: `src_com_origin`, `src_isometry`, `src_isometry_get`,
   `src_inertia_diagonal`, `src_phase_convention`, `src_idempotent`, `src_rigid_invariant`, `src_inputs_only`;
3. what the driver executes (`Model/OrientSrc.lean`, Mathlib-free, core `Rat`) is tied to 1.: `ratOps_eq`, `driver_src_eq_model`,
   `driver_prep_eq`.

`np.linalg.eigh` stays an opaque step: its second output `V` is universally quantified.  A source change that alters any translated
construct changes `Gen/OrientSrc.lean`, and the proofs below (which unfold the generated term) stop checking.
-/

namespace QcelVerif.Orient
open QcelVerif.OrientAst
open QcelVerif.Gen.OrientSrc (orient)

section Ordered
variable {K : Type} [Field K] [LinearOrder K] [IsStrictOrderedRing K]

/-- the scalar operations of any linearly ordered field -/
def fieldOps (K : Type) [Field K] [LinearOrder K] : Ops K where
  add := (· + ·)
  sub := (· - ·)
  mul := (· * ·)
  div := (· / ·)
  abs := fun a => |a|
  ofInt := fun i => (i : K)
  lt := fun a b => decide (a < b)
  le := fun a b => decide (a ≤ b)
  eqb := fun a b => decide (a = b)

def ofV3 (p : V3 K) : P3 K := ⟨p.x, p.y, p.z⟩
def toV3 (p : P3 K) : V3 K := ⟨p.x, p.y, p.z⟩
def ofM3 (A : M3 K) : T3 K := ⟨A.xx, A.xy, A.xz, A.yx, A.yy, A.yz, A.zx, A.zy, A.zz⟩
def toM3 (A : T3 K) : M3 K := ⟨A.xx, A.xy, A.xz, A.yx, A.yy, A.yz, A.zx, A.zy, A.zz⟩

@[simp] theorem toV3_ofV3 (p : V3 K) : toV3 (ofV3 p) = p := rfl
@[simp] theorem ofV3_toV3 (p : P3 K) : ofV3 (toV3 p) = p := rfl
@[simp] theorem toM3_ofM3 (A : M3 K) : toM3 (ofM3 A) = A := rfl
theorem map_toV3_ofV3 (g : List (V3 K)) : (g.map ofV3).map toV3 = g := by simp [List.map_map, Function.comp_def]
theorem map_ofV3_toV3 (g : List (P3 K)) : (g.map toV3).map ofV3 = g := by simp [List.map_map, Function.comp_def]

/-- errors of the hand model as errors of the source evaluator -/
def cvtErr : QcelVerif.Orient.Err → QcelVerif.OrientAst.Err
  | .zeroDivision => .zeroDivision
  | .shape => .shape

def cvt : Except QcelVerif.Orient.Err (List (V3 K)) → Except QcelVerif.OrientAst.Err (List (P3 K))
  | .ok g => .ok (g.map ofV3)
  | .error e => .error (cvtErr e)

/-! ## sums -/

theorem sumL_massSum (ms : List K) : sumL (fieldOps K) ms = massSum ms := by
  induction ms with
  | nil => simp [sumL, massSum, fieldOps]
  | cons m t ih => simp only [sumL, massSum, ← ih]; rfl

theorem sumL_w1 (f : V3 K → K) : ∀ (ms : List K) (g : List (V3 K)),
    sumL (fieldOps K) (List.zipWith (fieldOps K).mul ms (g.map f)) = wsumF f ms g
  | [], _ => by simp [sumL, wsumF, fieldOps]
  | _ :: _, [] => by simp [sumL, wsumF, fieldOps]
  | m :: ms, p :: g => by
      simp only [List.map_cons, List.zipWith_cons_cons, sumL, wsumF, sumL_w1 f ms g]; rfl

theorem sumL_w2 (f1 f2 : V3 K → K) : ∀ (ms : List K) (g : List (V3 K)),
    sumL (fieldOps K) (List.zipWith (fieldOps K).mul (List.zipWith (fieldOps K).mul ms (g.map f1)) (g.map f2))
      = wsumF (fun p => f1 p * f2 p) ms g
  | [], _ => by simp [sumL, wsumF, fieldOps]
  | _ :: _, [] => by simp [sumL, wsumF, fieldOps]
  | m :: ms, p :: g => by
      simp only [List.map_cons, List.zipWith_cons_cons, sumL, wsumF, sumL_w2 f1 f2 ms g]
      show m * f1 p * f2 p + _ = _
      ring

theorem sumL_w3 (f1 f2 : V3 K → K) : ∀ (ms : List K) (g : List (V3 K)),
    sumL (fieldOps K) (List.zipWith (fieldOps K).mul ms
        (List.zipWith (fieldOps K).add (g.map f1) (g.map f2)))
      = wsumF (fun p => f1 p + f2 p) ms g
  | [], _ => by simp [sumL, wsumF, fieldOps]
  | _ :: _, [] => by simp [sumL, wsumF, fieldOps]
  | m :: ms, p :: g => by
      simp only [List.map_cons, List.zipWith_cons_cons, sumL, wsumF, sumL_w3 f1 f2 ms g]; rfl

theorem wsumF_congr {f f' : V3 K → K} (h : ∀ p, f p = f' p) (ms : List K) (g : List (V3 K)) : wsumF f ms g = wsumF f' ms g := by
  have : f = f' := funext h
  rw [this]

/-! ## the inertia tensor -/

/-- **`_inertial_tensor` as read from the source = `inertia`** — for all weights and geometries -/
theorem src_inertia_eq (ms : List K) (g : List (V3 K)) :
    evalTensor (fieldOps K) orient.tensor ms (g.map ofV3) = ofM3 (inertia ms g) := by
  simp only [orient, evalTensor, List.foldl_cons, List.foldl_nil, T3.set, evalSE, evalCE, List.map_map]
  simp only [sumL_w2, sumL_w3]
  simp only [inertia, ofM3]
  congr 1 <;> first
    | (apply wsumF_congr; intro p; simp [Function.comp_def, ofV3, P3.comp, npow, fieldOps]; try ring)
    | (show ((-1 : Int) : K) * _ = -1 * _
       congr 1
       simp)

/-! ## the centre of mass -/

theorem psum_wsum : ∀ (ms : List K) (g : List (V3 K)),
    psum (fieldOps K) (List.zipWith (fun m p => (⟨(fieldOps K).mul m p.x, (fieldOps K).mul m p.y, (fieldOps K).mul m p.z⟩ : P3 K))
      ms (g.map ofV3)) = ofV3 (wsum ms g)
  | [], _ => by simp [psum, wsum, V3.zero, ofV3, fieldOps]
  | _ :: _, [] => by simp [psum, wsum, V3.zero, ofV3, fieldOps]
  | m :: ms, p :: g => by
      simp only [List.map_cons, List.zipWith_cons_cons, psum, wsum, psum_wsum ms g]; rfl

/-- **the centring vector as read from the source = `com`**, with the two refusals of `np.average` -/
theorem src_centre_eq (ms : List K) (xs : List (V3 K)) :
    evalCentre (fieldOps K) ms (xs.map ofV3) orient.centre =
      if ms.length ≠ xs.length then .error .shape
      else if massSum ms = 0 then .error .zeroDivision else .ok (ofV3 (com ms xs)) := by
  simp only [orient, evalCentre, List.length_map, sumL_massSum, psum_wsum]
  by_cases h1 : ms.length = xs.length
  · by_cases h2 : massSum ms = 0
    · simp [h1, h2, fieldOps]
    · simp only [h1, h2, fieldOps, ne_eq, not_true_eq_false, if_false, Int.cast_zero, decide_false, Bool.false_eq_true]
      simp only [com, V3.smul, ofV3]
      congr 2 <;> ring
  · simp [h1]

theorem subRow_eq (g : List (V3 K)) (c : V3 K) :
    subRow (fieldOps K) (g.map ofV3) (ofV3 c) = (g.map (fun p => V3.sub p c)).map ofV3 := by
  simp only [subRow, List.map_map]
  rfl

/-- **the centred geometry as read from the source = `center`** -/
theorem src_centred_eq (ms : List K) (xs : List (V3 K)) :
    centred (fieldOps K) orient ms (xs.map ofV3) =
      if ms.length ≠ xs.length then .error .shape
      else if massSum ms = 0 then .error .zeroDivision else .ok ((center ms xs).map ofV3) := by
  unfold centred
  rw [src_centre_eq]
  split_ifs <;> simp [subRow_eq, center]

/-- **the tensor handed to `eigh` as read from the source = `orientTensor`** -/
theorem src_tensorStage_eq (ms : List K) (xs : List (V3 K)) :
    evalTensorStage (fieldOps K) orient ms (xs.map ofV3) =
      if ms.length ≠ xs.length then .error .shape
      else if massSum ms = 0 then .error .zeroDivision else .ok (ofM3 (orientTensor ms xs)) := by
  unfold evalTensorStage
  rw [src_centred_eq]
  split_ifs <;> simp [src_inertia_eq, orientTensor]

/-! ## the rotation -/

theorem transposeN_V (V : M3 K) :
    transposeN (fieldOps K) 3 (ofM3 V).toRows = [[V.xx, V.yx, V.zx], [V.xy, V.yy, V.zy], [V.xz, V.yz, V.zz]] := by
  simp [transposeN, T3.toRows, ofM3, List.range_succ]

theorem toP3s_map {α : Type} (f : α → P3 K) (r : α → List K) (h : ∀ a, r a = [(f a).x, (f a).y, (f a).z]) :
    ∀ l : List α, toP3s (l.map r) = .ok (l.map f)
  | [] => rfl
  | a :: l => by
      simp only [List.map_cons, h a, toP3s, toP3s_map f r h l]

theorem toP3s_rows (V : M3 K) (g : List (V3 K)) :
    toP3s (matmul (fieldOps K) ((g.map ofV3).map P3.toRow) 3 (ofM3 V).toRows) = .ok ((rotate g V).map ofV3) := by
  simp only [matmul, transposeN_V, rotate, List.map_map]
  apply toP3s_map
  intro p
  simp only [Function.comp_def, ofV3, P3.toRow, sumL, List.map_cons, List.map_nil, List.zipWith_cons_cons,
    List.zipWith_nil_right, V3.mulMat, fieldOps, Int.cast_zero, add_zero]
  congr 1
  · ring
  · congr 1
    · ring
    · congr 1; ring

/-- **`new_geometry = np.dot(new_geometry, evecs)` as read from the source = `rotate`** -/
theorem src_rot_eq (g : List (V3 K)) (V : M3 K) :
    evalRot (fieldOps K) orient (g.map ofV3) (ofM3 V) = .ok ((rotate g V).map ofV3) := by
  simp only [evalRot, orient, evalME, if_true]
  exact toP3s_rows V g

/-! ## the phase loop: the in-place loop of the source = the sign-tracking fold of the hand model -/

/-- the hand model's fold state: per column `(phase_check[x], sign applied so far)` -/
abbrev St (K : Type) := (Bool × K) × (Bool × K) × (Bool × K)

/-- the state of the source's loop that corresponds to the hand model's state `st`: the array holds the ORIGINAL rows with
the column signs applied (that is what the in-place `*= -1` leaves behind) -/
def conc (g0 : List (V3 K)) (st : St K) (val : K) : PState K :=
  ⟨st.1.1, st.2.1.1, st.2.2.1, (g0.map (V3.flip st.1.2 st.2.1.2 st.2.2.2)).map ofV3, val, false⟩

def rowStep (noise : K) (st : St K) (r : V3 K) : St K :=
  (colStep noise st.1 r.x, colStep noise st.2.1 r.y, colStep noise st.2.2 r.z)

def stepCol (noise : K) (st : St K) (r : V3 K) : Ax → St K
  | .a0 => (colStep noise st.1 r.x, st.2.1, st.2.2)
  | .a1 => (st.1, colStep noise st.2.1 r.y, st.2.2)
  | .a2 => (st.1, st.2.1, colStep noise st.2.2 r.z)

def allSet (st : St K) : Prop := st.1.1 = true ∧ st.2.1.1 = true ∧ st.2.2.1 = true

theorem mulcol0 (g0 : List (V3 K)) (a b c : K) :
    ((g0.map (V3.flip a b c)).map ofV3).map (fun p => mulComp (fieldOps K) ((fieldOps K).ofInt (-1)) p 0)
      = (g0.map (V3.flip (-a) b c)).map ofV3 := by
  simp only [List.map_map]; apply List.map_congr_left; intro p _
  simp [mulComp, ofV3, V3.flip, fieldOps]
theorem mulcol1 (g0 : List (V3 K)) (a b c : K) :
    ((g0.map (V3.flip a b c)).map ofV3).map (fun p => mulComp (fieldOps K) ((fieldOps K).ofInt (-1)) p 1)
      = (g0.map (V3.flip a (-b) c)).map ofV3 := by
  simp only [List.map_map]; apply List.map_congr_left; intro p _
  simp [mulComp, ofV3, V3.flip, fieldOps]
theorem mulcol2 (g0 : List (V3 K)) (a b c : K) :
    ((g0.map (V3.flip a b c)).map ofV3).map (fun p => mulComp (fieldOps K) ((fieldOps K).ofInt (-1)) p 2)
      = (g0.map (V3.flip a b (-c))).map ofV3 := by
  simp only [List.map_map]; apply List.map_congr_left; intro p _
  simp [mulComp, ofV3, V3.flip, fieldOps]

/-- one pass of the inner-loop body of the source for column `x` at atom `num` = one `colStep` of the hand model on that column -/
theorem body_step (noise : K) (g0 : List (V3 K)) (num : Nat) (r : V3 K) (h : g0[num]? = some r) (x : Ax) (st : St K) (v : K) :
    ∃ v', evalBody (fieldOps K) noise num x orient.body (conc g0 st v) = conc g0 (stepCol noise st r x) v' := by
  obtain ⟨⟨f0, s0⟩, ⟨f1, s1⟩, ⟨f2, s2⟩⟩ := st
  cases x
  · cases f0
    · by_cases ha : |s0 * r.x| < noise
      · exact ⟨s0 * r.x, by simp [orient, evalBody, conc, PState.flag, PState.setFlag, idxVal, Ax.toNat, getEntry, compN?, h, ofV3, V3.flip, cmpB, fieldOps, stepCol, colStep, mulAxis, mulComp, -abs_mul, ha]⟩
      · by_cases hn : s0 * r.x < 0
        · exact ⟨s0 * r.x, by simp [orient, evalBody, conc, PState.flag, PState.setFlag, idxVal, Ax.toNat, getEntry, compN?, h, ofV3, V3.flip, cmpB, fieldOps, stepCol, colStep, mulAxis, mulComp, -abs_mul, ha, hn]⟩
        · exact ⟨s0 * r.x, by simp [orient, evalBody, conc, PState.flag, PState.setFlag, idxVal, Ax.toNat, getEntry, compN?, h, ofV3, V3.flip, cmpB, fieldOps, stepCol, colStep, mulAxis, mulComp, -abs_mul, ha, hn]⟩
    · exact ⟨v, by simp [orient, evalBody, conc, PState.flag, stepCol, colStep]⟩
  · cases f1
    · by_cases ha : |s1 * r.y| < noise
      · exact ⟨s1 * r.y, by simp [orient, evalBody, conc, PState.flag, PState.setFlag, idxVal, Ax.toNat, getEntry, compN?, h, ofV3, V3.flip, cmpB, fieldOps, stepCol, colStep, mulAxis, mulComp, -abs_mul, ha]⟩
      · by_cases hn : s1 * r.y < 0
        · exact ⟨s1 * r.y, by simp [orient, evalBody, conc, PState.flag, PState.setFlag, idxVal, Ax.toNat, getEntry, compN?, h, ofV3, V3.flip, cmpB, fieldOps, stepCol, colStep, mulAxis, mulComp, -abs_mul, ha, hn]⟩
        · exact ⟨s1 * r.y, by simp [orient, evalBody, conc, PState.flag, PState.setFlag, idxVal, Ax.toNat, getEntry, compN?, h, ofV3, V3.flip, cmpB, fieldOps, stepCol, colStep, mulAxis, mulComp, -abs_mul, ha, hn]⟩
    · exact ⟨v, by simp [orient, evalBody, conc, PState.flag, stepCol, colStep]⟩
  · cases f2
    · by_cases ha : |s2 * r.z| < noise
      · exact ⟨s2 * r.z, by simp [orient, evalBody, conc, PState.flag, PState.setFlag, idxVal, Ax.toNat, getEntry, compN?, h, ofV3, V3.flip, cmpB, fieldOps, stepCol, colStep, mulAxis, mulComp, -abs_mul, ha]⟩
      · by_cases hn : s2 * r.z < 0
        · exact ⟨s2 * r.z, by simp [orient, evalBody, conc, PState.flag, PState.setFlag, idxVal, Ax.toNat, getEntry, compN?, h, ofV3, V3.flip, cmpB, fieldOps, stepCol, colStep, mulAxis, mulComp, -abs_mul, ha, hn]⟩
        · exact ⟨s2 * r.z, by simp [orient, evalBody, conc, PState.flag, PState.setFlag, idxVal, Ax.toNat, getEntry, compN?, h, ofV3, V3.flip, cmpB, fieldOps, stepCol, colStep, mulAxis, mulComp, -abs_mul, ha, hn]⟩
    · exact ⟨v, by simp [orient, evalBody, conc, PState.flag, stepCol, colStep]⟩

/-- `for x in range(3): <body>` at atom `num` = the hand model's row step -/
theorem inner_step (noise : K) (g0 : List (V3 K)) (num : Nat) (r : V3 K) (h : g0[num]? = some r) (st : St K) (v : K) :
    ∃ v', evalInner (fieldOps K) noise orient.body num (conc g0 st v) = conc g0 (rowStep noise st r) v' := by
  obtain ⟨v1, h1⟩ := body_step noise g0 num r h .a0 st v
  obtain ⟨v2, h2⟩ := body_step noise g0 num r h .a1 (stepCol noise st r .a0) v1
  obtain ⟨v3, h3⟩ := body_step noise g0 num r h .a2 (stepCol noise (stepCol noise st r .a0) r .a1) v2
  refine ⟨v3, ?_⟩
  have hc : ∀ (st : St K) (v : K), (conc g0 st v).err = false := fun _ _ => rfl
  simp only [evalInner, List.foldl_cons, List.foldl_nil, hc, h1, h2, h3, Bool.false_eq_true, if_false]
  rfl

/-- once all three flags are set an iteration changes nothing: this is why the `break` of the source only skips no-ops -/
theorem rowStep_allSet (noise : K) (st : St K) (r : V3 K) (h : allSet st) : rowStep noise st r = st := by
  obtain ⟨⟨f0, s0⟩, ⟨f1, s1⟩, ⟨f2, s2⟩⟩ := st
  obtain ⟨h0, h1, h2⟩ := h
  simp only at h0 h1 h2
  subst h0 h1 h2
  simp [rowStep, colStep]

def rowStepO (noise : K) (st : St K) : Option (V3 K) → St K
  | some r => rowStep noise st r
  | none => st

theorem outer_fold (noise : K) (hb : Bool) (g0 : List (V3 K)) :
    ∀ (idxs : List Nat), (∀ i ∈ idxs, i < g0.length) → ∀ (st : St K) (v : K) (d : Bool), (d = true → allSet st) →
      ∃ v' d', idxs.foldl (evalOuterStep (fieldOps K) noise orient.body hb) (conc g0 st v, d)
        = (conc g0 (idxs.foldl (fun st i => rowStepO noise st g0[i]?) st) v', d')
  | [], _, st, v, d, _ => ⟨v, d, rfl⟩
  | i :: idxs, hi, st, v, d, hd => by
      have hlt : i < g0.length := hi i (by simp)
      have hget : g0[i]? = some g0[i] := List.getElem?_eq_getElem hlt
      have hi' : ∀ j ∈ idxs, j < g0.length := fun j hj => hi j (by simp [hj])
      simp only [List.foldl_cons, hget, rowStepO]
      cases d
      · obtain ⟨v1, h1⟩ := inner_step noise g0 i g0[i] hget st v
        have e : evalOuterStep (fieldOps K) noise orient.body hb (conc g0 st v, false) i
            = (conc g0 (rowStep noise st g0[i]) v1,
                hb && (rowStep noise st g0[i]).1.1 && (rowStep noise st g0[i]).2.1.1 && (rowStep noise st g0[i]).2.2.1) := by
          simp only [evalOuterStep, h1]
          simp [conc]
        rw [e]
        apply outer_fold noise hb g0 idxs hi'
        intro hd'
        simp only [Bool.and_eq_true] at hd'
        exact ⟨hd'.1.1.2, hd'.1.2, hd'.2⟩
      · have e : evalOuterStep (fieldOps K) noise orient.body hb (conc g0 st v, true) i = (conc g0 st v, true) := by
          simp [evalOuterStep]
        rw [e, rowStep_allSet noise st g0[i] (hd rfl)]
        exact outer_fold noise hb g0 idxs hi' st v true hd

theorem foldl_range_get {α σ : Type} (hh : σ → Option α → σ) : ∀ (l : List α) (init : σ),
    (List.range l.length).foldl (fun st i => hh st l[i]?) init = l.foldl (fun st r => hh st (some r)) init
  | [], _ => rfl
  | a :: l, init => by
      simp only [List.length_cons, List.range_succ_eq_map, List.foldl_cons, List.foldl_map, List.getElem?_cons_zero,
        List.getElem?_cons_succ]
      exact foldl_range_get hh l _

theorem conc_init (g : List (V3 K)) (v : K) :
    (⟨false, false, false, g.map ofV3, v, false⟩ : PState K) = conc g ((false, 1), (false, 1), (false, 1)) v := by
  have : g.map (V3.flip (1 : K) 1 1) = g := by
    conv_rhs => rw [← List.map_id g]
    apply List.map_congr_left; intro p _; simp [V3.flip]
  simp only [conc, this]

/-- **the phase loop as read from the source — in-place column negation, both strict tests, with or without the `break` —
returns exactly `phase noise g`** (for every threshold, every geometry) -/
theorem src_phase_eq (noise : K) (hb : Bool) (g : List (V3 K)) :
    evalPhase (fieldOps K) noise orient.body hb (g.map ofV3) = .ok ((phase noise g).map ofV3) := by
  obtain ⟨v', d', h⟩ := outer_fold noise hb g (List.range g.length) (by simp)
    ((false, 1), (false, 1), (false, 1)) ((fieldOps K).ofInt 0) false (by simp)
  unfold evalPhase
  simp only [List.length_map, conc_init, h, foldl_range_get (fun st o => rowStepO noise st o) g]
  simp [conc, phase, phaseLoop, rowStepO, rowStep]

/-! ## the whole function -/

/-- `geom_noise = 10 ** (-GEOMETRY_NOISE)` as read from the source -/
def srcNoise (K : Type) [Field K] [LinearOrder K] : K := noiseOf (fieldOps K) orient

theorem srcNoise_eq : srcNoise K = 1 / 100000000 := by
  simp only [srcNoise, noiseOf, orient, fieldOps]
  norm_num

theorem srcNoise_pos : (0 : K) < srcNoise K := by
  rw [srcNoise_eq]; norm_num

/-- **everything after the `eigh` call, as read from the source, = `orientCore`** — for ALL masses, geometries and ALL
eigh outputs `V`, errors included -/
theorem src_afterEigh_eq (ms : List K) (xs : List (V3 K)) (V : M3 K) :
    evalAfterEigh (fieldOps K) orient ms (xs.map ofV3) (ofM3 V) = cvt (orientCore (srcNoise K) ms xs V) := by
  unfold evalAfterEigh orientCore
  rw [src_centred_eq]
  split_ifs
  · rfl
  · rfl
  · simp only [src_rot_eq, srcNoise, cvt]
    exact src_phase_eq _ _ _

/-- a successful run of the source-derived function is a successful run of the hand model -/
theorem src_ok {ms : List K} {xs : List (V3 K)} {V : M3 K} {out : List (P3 K)}
    (h : evalAfterEigh (fieldOps K) orient ms (xs.map ofV3) (ofM3 V) = .ok out) :
    orientCore (srcNoise K) ms xs V = .ok (out.map toV3) := by
  rw [src_afterEigh_eq] at h
  cases hc : orientCore (srcNoise K) ms xs V with
  | error e => rw [hc] at h; simp [cvt] at h
  | ok g =>
    rw [hc] at h
    simp only [cvt, Except.ok.injEq] at h
    subst h
    rw [map_toV3_ofV3]

theorem src_tensor_ok {ms : List K} {xs : List (V3 K)} {T : T3 K}
    (h : evalTensorStage (fieldOps K) orient ms (xs.map ofV3) = .ok T) : toM3 T = orientTensor ms xs := by
  rw [src_tensorStage_eq] at h
  split_ifs at h
  simp only [Except.ok.injEq] at h
  subst h
  rfl

theorem src_out_length {ms : List K} {xs : List (V3 K)} {V : M3 K} {out : List (P3 K)}
    (h : evalAfterEigh (fieldOps K) orient ms (xs.map ofV3) (ofM3 V) = .ok out) : out.length = xs.length := by
  obtain ⟨_, _, e⟩ := orientCore_ok (src_ok h)
  have := congrArg List.length e
  simpa [phase, rotate, center] using this

/-! ## the headline theorems, restated over the source-derived functions -/

/-- **Centre of mass at the origin** (source-derived): the centring vector the source computes for its own output is `0` -/
theorem src_com_origin {ms : List K} {xs : List (V3 K)} {V : M3 K} {out : List (P3 K)}
    (h : evalAfterEigh (fieldOps K) orient ms (xs.map ofV3) (ofM3 V) = .ok out) :
    evalCentre (fieldOps K) ms out orient.centre = .ok ⟨0, 0, 0⟩ := by
  have h' := src_ok h
  obtain ⟨hl, hM, _⟩ := orientCore_ok h'
  have hz := orient_com_zero h'
  have hlen : ms.length = (out.map toV3).length := by rw [List.length_map, src_out_length h]; exact hl
  rw [← map_ofV3_toV3 out, src_centre_eq, if_neg (by simpa using hlen), if_neg hM]
  simp [com, hz, V3.smul, V3.zero, ofV3]

/-- **No distortion** (source-derived): with `V Vᵀ = 1` the output is the image of the input under one map preserving every
squared interatomic distance -/
theorem src_isometry {ms : List K} {xs : List (V3 K)} {V : M3 K} {out : List (P3 K)}
    (hV : M3.mul V (M3.tr V) = M3.one)
    (h : evalAfterEigh (fieldOps K) orient ms (xs.map ofV3) (ofM3 V) = .ok out) :
    ∃ f : V3 K → V3 K, out.map toV3 = xs.map f ∧ ∀ p q, V3.distSq (f p) (f q) = V3.distSq p q :=
  orient_isometry hV (src_ok h)

/-- indexed form: every interatomic squared distance is preserved -/
theorem src_isometry_get {ms : List K} {xs : List (V3 K)} {V : M3 K} {out : List (P3 K)}
    (hV : M3.mul V (M3.tr V) = M3.one)
    (h : evalAfterEigh (fieldOps K) orient ms (xs.map ofV3) (ofM3 V) = .ok out)
    (i j : Nat) (hi : i < xs.length) (hj : j < xs.length) :
    ∃ (hi' : i < out.length) (hj' : j < out.length), V3.distSq (toV3 out[i]) (toV3 out[j]) = V3.distSq xs[i] xs[j] := by
  obtain ⟨hi', hj', e⟩ := orient_isometry_get hV (src_ok h) i j hi hj
  refine ⟨by simpa using hi', by simpa using hj', ?_⟩
  simpa using e

/-- **Diagonal inertia tensor, ascending moments** (source-derived on both sides): `T` = the tensor the source hands to
`eigh`; under the certified relations `Orth V`, `Vᵀ T V = diag l`, the tensor the source's `_inertial_tensor` computes for
the returned geometry is exactly `diag l`, and with `l` ascending the moments ascend -/
theorem src_inertia_diagonal {ms : List K} {xs : List (V3 K)} {V : M3 K} {out : List (P3 K)} {T : T3 K} {l : V3 K}
    (hT : evalTensorStage (fieldOps K) orient ms (xs.map ofV3) = .ok T)
    (hV : Orth V) (hD : M3.mul (M3.mul (M3.tr V) (toM3 T)) V = M3.diag l.x l.y l.z)
    (h : evalAfterEigh (fieldOps K) orient ms (xs.map ofV3) (ofM3 V) = .ok out) :
    evalTensor (fieldOps K) orient.tensor ms out = ofM3 (M3.diag l.x l.y l.z) ∧
      (l.x ≤ l.y → l.y ≤ l.z →
        (evalTensor (fieldOps K) orient.tensor ms out).xx ≤ (evalTensor (fieldOps K) orient.tensor ms out).yy ∧
        (evalTensor (fieldOps K) orient.tensor ms out).yy ≤ (evalTensor (fieldOps K) orient.tensor ms out).zz) := by
  rw [src_tensor_ok hT] at hD
  obtain ⟨e, _⟩ := orient_inertia_diagonal hV hD (src_ok h)
  have e2 : evalTensor (fieldOps K) orient.tensor ms out = ofM3 (M3.diag l.x l.y l.z) := by
    rw [← map_ofV3_toV3 out, src_inertia_eq, e]
  refine ⟨e2, fun h1 h2 => ?_⟩
  rw [e2]
  exact ⟨h1, h2⟩

/-- **Sign convention** (source-derived): in each column of the returned geometry, every entry before the first off-plane
one is within `geom_noise` and that first off-plane entry is `≥ geom_noise > 0` -/
theorem src_phase_convention {ms : List K} {xs : List (V3 K)} {V : M3 K} {out : List (P3 K)}
    (h : evalAfterEigh (fieldOps K) orient ms (xs.map ofV3) (ofM3 V) = .ok out)
    (proj : V3 K → K) (hproj : proj = (·.x) ∨ proj = (·.y) ∨ proj = (·.z))
    (pre : List K) (v : K) (suf : List K)
    (hcol : (out.map toV3).map proj = pre ++ v :: suf) (hpre : ∀ u ∈ pre, |u| < srcNoise K) (hv : ¬ |v| < srcNoise K) :
    srcNoise K ≤ v ∧ 0 < v := by
  obtain ⟨_, _, e⟩ := orientCore_ok (src_ok h)
  rw [e] at hcol
  have := phase_convention _ proj hproj pre v suf hcol hpre hv
  exact ⟨this, lt_of_lt_of_le srcNoise_pos this⟩

/-- **Idempotence** (source-derived, exact arithmetic): exact certificate `(V, l)` for the tensor the source hands to `eigh`
for `xs`, distinct moments, `out` the returned geometry, ANY exact certificate `(V2, l2)` for the tensor the source hands to
`eigh` for `out`, every column of `out` has an off-plane atom → the source-derived function returns `out` unchanged -/
theorem src_idempotent {ms : List K} {xs : List (V3 K)} {V V2 : M3 K} {l l2 : V3 K} {out : List (P3 K)} {T T2 : T3 K}
    (hT : evalTensorStage (fieldOps K) orient ms (xs.map ofV3) = .ok T)
    (hc : isEigFrame (toM3 T) V l 0 0 = true) (hxy : l.x < l.y) (hyz : l.y < l.z)
    (h : evalAfterEigh (fieldOps K) orient ms (xs.map ofV3) (ofM3 V) = .ok out)
    (hT2 : evalTensorStage (fieldOps K) orient ms out = .ok T2)
    (hc2 : isEigFrame (toM3 T2) V2 l2 0 0 = true)
    (hox : HasOff (srcNoise K) ((out.map toV3).map (·.x))) (hoy : HasOff (srcNoise K) ((out.map toV3).map (·.y)))
    (hoz : HasOff (srcNoise K) ((out.map toV3).map (·.z))) :
    evalAfterEigh (fieldOps K) orient ms out (ofM3 V2) = .ok out := by
  rw [src_tensor_ok hT] at hc
  rw [← map_ofV3_toV3 out] at hT2
  rw [src_tensor_ok hT2] at hc2
  have := orient_idempotent srcNoise_pos hc hxy hyz (src_ok h) hc2 hox hoy hoz
  conv_lhs => rw [← map_ofV3_toV3 out]
  rw [src_afterEigh_eq, this, cvt, map_ofV3_toV3]

/-- **Rigid copies orient to the same coordinates** (source-derived, exact arithmetic): `y = xR + t`, `R` orthogonal; ANY
exact certificates for the tensors the source hands to `eigh` for `x` and for `y`, distinct moments, an off-plane atom in
every column → the source-derived function returns the same geometry for both -/
theorem src_rigid_invariant {ms : List K} {xs : List (V3 K)} {R V V' : M3 K} (t : V3 K) {l l' : V3 K} {T T' : T3 K}
    (hl : ms.length = xs.length) (hM : massSum ms ≠ 0) (hR : Orth R)
    (hT : evalTensorStage (fieldOps K) orient ms (xs.map ofV3) = .ok T)
    (hT' : evalTensorStage (fieldOps K) orient ms ((xs.map (fun p => V3.add (V3.mulMat p R) t)).map ofV3) = .ok T')
    (hc : isEigFrame (toM3 T) V l 0 0 = true) (hc' : isEigFrame (toM3 T') V' l' 0 0 = true)
    (hxy : l.x < l.y) (hyz : l.y < l.z)
    (hox : HasOff (srcNoise K) ((rotate (center ms xs) V).map (·.x)))
    (hoy : HasOff (srcNoise K) ((rotate (center ms xs) V).map (·.y)))
    (hoz : HasOff (srcNoise K) ((rotate (center ms xs) V).map (·.z))) :
    evalAfterEigh (fieldOps K) orient ms ((xs.map (fun p => V3.add (V3.mulMat p R) t)).map ofV3) (ofM3 V')
      = evalAfterEigh (fieldOps K) orient ms (xs.map ofV3) (ofM3 V) := by
  rw [src_tensor_ok hT] at hc
  rw [src_tensor_ok hT'] at hc'
  rw [src_afterEigh_eq, src_afterEigh_eq, orient_rigid_invariant srcNoise_pos t hl hM hR hc hc' hxy hyz hox hoy hoz]

/-- the non-geometric fields: the source-derived function has no access to them (its inputs are masses, geometry, evecs) —
`nongeometric_untouched` of Props/C16.lean is about the wrapper `orientMol`, which stays hand-modelled. -/
theorem src_inputs_only (ms : List K) (xs : List (V3 K)) (V : M3 K) :
    evalAfterEigh (fieldOps K) orient ms (xs.map ofV3) (ofM3 V)
      = match orientMol (α := Unit) (srcNoise K) ⟨ms, xs, ()⟩ V with
        | .ok m => .ok (m.geometry.map ofV3)
        | .error e => .error (cvtErr e) := by
  rw [src_afterEigh_eq]
  unfold orientMol
  cases orientCore (srcNoise K) ms xs V <;> rfl

end Ordered

/-! ## `float_prep` (array branch) -/
section Floor
variable {K : Type} [Field K] [LinearOrder K] [IsStrictOrderedRing K] [FloorRing K]
open QcelVerif.Gen.OrientSrc (prep)

theorem band_iff (d : Nat) (k : Int) :
    |(k : K) / (10 : K) ^ d| < 1 / (5 : K) ^ (d + 1) ↔ k.natAbs * 5 ^ (d + 1) < 10 ^ d := by
  have h10 : (0 : K) < (10 : K) ^ d := by positivity
  have h5 : (0 : K) < (5 : K) ^ (d + 1) := by positivity
  rw [abs_div, abs_of_pos h10, div_lt_div_iff₀ h10 h5, one_mul]
  have e : |(k : K)| = ((k.natAbs : Nat) : K) := by
    rw [← Int.cast_abs, Int.abs_eq_natAbs, Int.cast_natCast]
  rw [e]
  have : ((k.natAbs : Nat) : K) * (5 : K) ^ (d + 1) = ((k.natAbs * 5 ^ (d + 1) : Nat) : K) := by push_cast; ring
  rw [this]
  have : (10 : K) ^ d = ((10 ^ d : Nat) : K) := by push_cast; ring
  rw [this, Nat.cast_lt]

/-- **`float_prep`'s array branch as read from the source** (`np.around(array, around)` = `rint(v·10^d)/10^d`, then entries with
`np.abs(array) < 5 ** (-(around + 1))` set to `0`) **= `floatPrepK`**, the integer number of units of `10^-d` the hand model
returns — for every `d` and every value -/
theorem src_prep_eq (d : Nat) (v : K) :
    evalPrep (fieldOps K) roundHalfEven prep d v = ((floatPrepK d v : Int) : K) / (10 : K) ^ d := by
  simp only [evalPrep, prep, if_true, cmpB, fieldOps, floatPrepK]
  have e10 : (((10 ^ d : Nat) : Int) : K) = (10 : K) ^ d := by push_cast; ring
  have e5 : (((5 ^ (d + 1) : Nat) : Int) : K) = (5 : K) ^ (d + 1) := by push_cast; ring
  rw [e10, e5]
  simp only [Int.cast_one, Int.cast_zero, decide_eq_true_eq, band_iff]
  split_ifs <;> simp

end Floor

/-! ## what the driver runs is what the theorems are about -/

/-- the Mathlib-free operations record the driver evaluates the regenerated code with is the field record at `ℚ` -/
theorem ratOps_eq : QcelVerif.OrientSrc.ratOps = fieldOps ℚ := by
  unfold QcelVerif.OrientSrc.ratOps fieldOps
  congr 1
  · funext a
    split_ifs with h
    · exact (abs_of_neg h).symm
    · exact (abs_of_nonneg (not_lt.mp h)).symm

/-- **three-way, proved side**: the functions the driver compares with the hand model on every captured call
(`srcCentre`, `srcTensor`, `srcRotated`, `srcOrient` of `Model/OrientSrc.lean`) equal the hand model for ALL inputs -/
theorem driver_src_eq_model (ms : List ℚ) (xs : List (V3 ℚ)) (V : M3 ℚ) :
    QcelVerif.OrientSrc.srcOrient ms (xs.map ofV3) (ofM3 V) = cvt (orientCore (1 / 100000000) ms xs V) ∧
    QcelVerif.OrientSrc.srcTensor ms (xs.map ofV3) =
      (if ms.length ≠ xs.length then .error .shape
       else if massSum ms = 0 then .error .zeroDivision else .ok (ofM3 (orientTensor ms xs))) ∧
    QcelVerif.OrientSrc.srcCentre ms (xs.map ofV3) =
      (if ms.length ≠ xs.length then .error .shape
       else if massSum ms = 0 then .error .zeroDivision else .ok (ofV3 (com ms xs))) ∧
    QcelVerif.OrientSrc.srcRotated ms (xs.map ofV3) (ofM3 V) =
      (if ms.length ≠ xs.length then .error .shape
       else if massSum ms = 0 then .error .zeroDivision else .ok ((rotate (center ms xs) V).map ofV3)) ∧
    QcelVerif.OrientSrc.srcNoiseQ = 1 / 100000000 := by
  unfold QcelVerif.OrientSrc.srcOrient QcelVerif.OrientSrc.srcTensor QcelVerif.OrientSrc.srcCentre
    QcelVerif.OrientSrc.srcRotated QcelVerif.OrientSrc.srcNoiseQ
  rw [ratOps_eq]
  refine ⟨?_, src_tensorStage_eq ms xs, src_centre_eq ms xs, ?_, srcNoise_eq⟩
  · rw [src_afterEigh_eq, srcNoise_eq]
  · rw [src_centred_eq]
    split_ifs
    · rfl
    · rfl
    · exact src_rot_eq _ _

theorem rintQ_eq (t : ℚ) : QcelVerif.OrientSrc.rintQ t = roundHalfEven t := by
  unfold QcelVerif.OrientSrc.rintQ roundHalfEven
  rfl

/-- three-way, proved side, rounding: the source-derived `float_prep` entry the driver compares equals the hand model's -/
theorem driver_prep_eq (d : Nat) (v : ℚ) :
    QcelVerif.OrientSrc.srcPrep d v = ((floatPrepK d v : Int) : ℚ) / (10 : ℚ) ^ d := by
  unfold QcelVerif.OrientSrc.srcPrep
  rw [ratOps_eq, show QcelVerif.OrientSrc.rintQ = roundHalfEven from funext rintQ_eq]
  exact src_prep_eq d v

/-- the `break` of the source only skips iterations that change nothing: with and without it the loop returns the same -/
theorem src_break_irrelevant {K : Type} [Field K] [LinearOrder K] [IsStrictOrderedRing K] (noise : K) (g : List (V3 K)) :
    evalPhase (fieldOps K) noise orient.body true (g.map ofV3) = evalPhase (fieldOps K) noise orient.body false (g.map ofV3) := by
  rw [src_phase_eq, src_phase_eq]

/-! ## tests (kernel-evaluated, concrete): the hypotheses above are satisfiable -/

/-- test: the source-derived tensor stage on the bent triatomic of Props/C16.lean -/
example : evalTensorStage (fieldOps ℚ) orient exMs (exXs.map ofV3) = .ok (ofM3 (M3.diag 2 16 18)) := by decide +kernel
/-- test: … and `V = 1` is an exact eigen-frame of it with distinct ascending moments -/
example : isEigFrame (toM3 (ofM3 (M3.diag (2 : ℚ) 16 18))) M3.one ⟨2, 16, 18⟩ 0 0 = true := by decide +kernel
/-- test: the source-derived function returns a geometry (both columns flipped) -/
example : evalAfterEigh (fieldOps ℚ) orient exMs (exXs.map ofV3) (ofM3 M3.one) = .ok [⟨2, 1, 0⟩, ⟨2, -1, 0⟩, ⟨-2, 0, 0⟩] := by
  decide +kernel
/-- test: second pass with `V2 = diag(-1, 1, 1)` returns it unchanged (instance of `src_idempotent`'s conclusion) -/
example : evalAfterEigh (fieldOps ℚ) orient exMs [⟨2, 1, 0⟩, ⟨2, -1, 0⟩, ⟨-2, 0, 0⟩] (ofM3 (M3.diag (-1) 1 1))
    = .ok [⟨2, 1, 0⟩, ⟨2, -1, 0⟩, ⟨-2, 0, 0⟩] := by decide +kernel
/-- test: zero total mass is refused with ZeroDivision, a length mismatch with Shape -/
example : evalAfterEigh (fieldOps ℚ) orient [1, -1] ([⟨0, 0, 0⟩, ⟨1, 0, 0⟩] : List (P3 ℚ)) (ofM3 M3.one) = .error .zeroDivision := by
  decide +kernel
example : evalAfterEigh (fieldOps ℚ) orient [1] ([⟨0, 0, 0⟩, ⟨1, 0, 0⟩] : List (P3 ℚ)) (ofM3 M3.one) = .error .shape := by
  decide +kernel
/-- test: a column with an off-plane atom exists in the example output (HasOff is satisfiable) -/
example : HasOff (srcNoise ℚ) (([⟨2, 1, 0⟩, ⟨2, -1, 0⟩, ⟨-2, 0, 0⟩] : List (V3 ℚ)).map (·.x)) :=
  ⟨2, by simp, by rw [srcNoise_eq]; norm_num⟩

end QcelVerif.Orient
