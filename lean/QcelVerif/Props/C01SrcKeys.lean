import QcelVerif.Model.PTShipped
import QcelVerif.Lemmas.PeriodicSrc
/-! C01 (source-derived dictionaries): the one table-wide kernel evaluation they need, in its own module so that
lake builds it in parallel with the other table theorems. -/
namespace QcelVerif.PT.Src
open QcelVerif
set_option maxRecDepth 100000

/-- **The generated search tree has no key of its own**: its keys, in order, are the nuclide labels of the
data file's `EA` array, sorted (so every key of the tree is the label of some row) [decide +kernel]. -/
theorem tree_keys_are_row_keys :
    msort (Gen.PT.nuclides.map (·.1)) = Gen.PT.tree.toList.map (·.1) := by decide +kernel

end QcelVerif.PT.Src
