import QcelVerif.Model.FromArrays
import QcelVerif.Gen.SrcConsts
import QcelVerif.Props.ConstTieLib
/-!
# C04 — the constants, defaults and literal lists hard-coded in `Model/FromArrays.lean` are those of the source

`Gen/SrcConsts.lean` is rewritten on every run by `tools/gen_srcconsts.py`, which re-reads
`qcelemental/molparse/from_arrays.py` and `from_schema.py` of the working tree by `ast` (never by importing).
Each theorem below ties one generated value to the model: to the model's own definition by name where it has
one (`dfltTooclose`, `dfltMtol`, `sAngstrom`, `sBohr`, `dfltIutau`), else to the *behaviour* of the model
function that carries the literal inline (`anyTooClose`, `normBond`, `validateUnits`, `fromSchema`), stated for
all inputs.  A changed default, window, bond-order bound, accepted unit spelling or `from_schema` keyword in the
source breaks a proof obligation of this file, whether or not a generated molecule exposes the change.
Core Lean only.

PROPERTY-THEOREMS: float_literals_ok tooclose_default_matches_source mtol_default_matches_source
  overlap_screen_matches_source units_accepted_matches_source units_refused_outside_source_list
  iutau_window_matches_source bohr_factor_matches_source bondorder_range_matches_source
  from_schema_call_matches_source
-/
namespace QcelVerif.FromArrays
open QcelVerif QcelVerif.ConstTie

/-- every float literal read from from_arrays.py: decimal text, exact value, nearest double and the double's value
belong together (so `…_f64` below is the double a correctly rounding `float()` reads) -/
theorem float_literals_ok :
    FloatLit.ok Src.from_arrays.tooclose Src.from_arrays.tooclose_dec Src.from_arrays.tooclose_bits Src.from_arrays.tooclose_f64 = true ∧
    FloatLit.ok Src.from_arrays.mtol Src.from_arrays.mtol_dec Src.from_arrays.mtol_bits Src.from_arrays.mtol_f64 = true ∧
    FloatLit.ok Src.units.iutau_window Src.units.iutau_window_dec Src.units.iutau_window_bits Src.units.iutau_window_f64 = true ∧
    FloatLit.ok Src.units.bohr_factor Src.units.bohr_factor_dec Src.units.bohr_factor_bits Src.units.bohr_factor_f64 = true := by
  decide +kernel

/-- `tooclose=0.1`: the model's default is the double of the literal in `from_arrays`' signature, and
`from_input_arrays` and `validate_and_fill_geometry` declare the same default -/
theorem tooclose_default_matches_source :
    dfltTooclose = Src.from_arrays.tooclose_f64 ∧
    Src.from_input_arrays.tooclose_f64 = Src.from_arrays.tooclose_f64 ∧
    Src.geometry.tooclose_f64 = Src.from_arrays.tooclose_f64 := by
  decide +kernel

/-- `mtol=1.0e-3`: likewise (`from_arrays`, `from_input_arrays`, `validate_and_fill_nuclei`) -/
theorem mtol_default_matches_source :
    dfltMtol = Src.from_arrays.mtol_f64 ∧
    Src.from_input_arrays.mtol_f64 = Src.from_arrays.mtol_f64 ∧
    Src.nuclei.mtol_f64 = Src.from_arrays.mtol_f64 := by
  decide +kernel

/-- the overlap screen: the source tests `dists < tooclose ** 2` (strictly, squared distances); the model's
`anyTooClose` flags a pair exactly when its squared distance is strictly below `tc * tc` -/
theorem overlap_screen_matches_source (tc : Rat) (p q : R3) :
    anyTooClose tc [p, q] = decide (dist2 p q < tc * tc) ∧
    Src.geometry.metric_power = 2 ∧ Src.geometry.refuses_strictly_below = true := by
  refine ⟨?_, by decide, by decide⟩
  simp [anyTooClose]

/-- test (boundary, at the source's default): two atoms exactly `tooclose` apart are accepted … -/
example : anyTooClose Src.from_arrays.tooclose_f64 [(0, 0, 0), (Src.from_arrays.tooclose_f64, 0, 0)] = false := by
  decide +kernel
/-- … test: and refused one part in 2^60 closer -/
example : anyTooClose Src.from_arrays.tooclose_f64
    [(0, 0, 0), (Src.from_arrays.tooclose_f64 - 1 / 1152921504606846976, 0, 0)] = true := by decide +kernel

/-- the unit spellings the model accepts (after `capitalize`) are the source's list, in its order -/
theorem units_accepted_matches_source :
    [sAngstrom, sBohr] = Src.units.accepted.map String.toList ∧
    sAngstrom = Src.units.units.toList ∧ Src.from_arrays.units = Src.units.units ∧
    Src.from_input_arrays.units = Src.units.units := by
  decide

/-- … and nothing else: a unit word outside the source's list is refused, never repaired -/
theorem units_refused_outside_source_list (a : Rat) (i : Inp)
    (h : capitalize i.units ∉ Src.units.accepted.map String.toList) :
    (validateUnits a i).toOption = none := by
  rw [← units_accepted_matches_source.1] at h
  have h1 : capitalize i.units ≠ sAngstrom := fun e => h (by simp [e])
  have h2 : capitalize i.units ≠ sBohr := fun e => h (by simp [e])
  unfold validateUnits
  cases validateConn i.conn with
  | error e => rfl
  | ok c => simp [h1, h2, Except.toOption]

/-- test (non-vacuity): `"nm"` is outside the list -/
example : capitalize "nm".toList ∉ Src.units.accepted.map String.toList := by decide

/-- the `input_units_to_au` window: with an accepted unit word and valid connectivity, a supplied factor `x` is
accepted exactly when `|x − default| < w`, `w` the source's literal (the model compares exactly, with the decimal) -/
theorem iutau_window_matches_source (a x : Rat) (i : Inp) (c : Option (List Bond))
    (hc : validateConn i.conn = .ok c) (hx : i.iutau = some x)
    (hu : capitalize i.units ∈ Src.units.accepted.map String.toList) :
    validateUnits a i =
      if absRat (x - dfltIutau a (capitalize i.units)) < Src.units.iutau_window
      then .ok { units := capitalize i.units, iutau := some x, conn := c } else .error .validation := by
  rw [← units_accepted_matches_source.1] at hu
  have hu' : capitalize i.units = sAngstrom ∨ capitalize i.units = sBohr := by simpa using hu
  have hw : Src.units.iutau_window = 1 / 20 := by decide +kernel
  unfold validateUnits
  simp [hc, hx, hu', hw]

/-- test (non-vacuity of the window theorem's hypotheses, and the edge itself is outside) -/
example : absRat ((1 : Rat) + Src.units.iutau_window - dfltIutau 2 sBohr) < Src.units.iutau_window ↔ False := by
  decide +kernel

/-- `iutau = 1.0` for Bohr -/
theorem bohr_factor_matches_source (a : Rat) : dfltIutau a sBohr = Src.units.bohr_factor_f64 := by
  have : Src.units.bohr_factor_f64 = 1 := by decide +kernel
  simp [dfltIutau, this]

/-- the bond-order range `[lo, hi]` and the atom-index floor: for integer-valued atom indices the model refuses a
bond exactly when an index is below the source's floor or the order is outside the source's closed range -/
theorem bondorder_range_matches_source (a b : Int) (o : Rat) :
    normBond (.mk (some a) (some b) o) =
      if a < Src.units.at1_min ∨ b < Src.units.at2_min ∨ o < (Src.units.bondorder_min : Int) ∨ o > (Src.units.bondorder_max : Int)
      then .error .validation else .ok (min a.toNat b.toNat, max a.toNat b.toNat, o) := by
  have h1 : Src.units.at1_min = 0 := by decide
  have h2 : Src.units.at2_min = 0 := by decide
  have h3 : ((Src.units.bondorder_min : Int) : Rat) = 0 := by decide +kernel
  have h4 : ((Src.units.bondorder_max : Int) : Rat) = 5 := by decide +kernel
  simp only [normBond, h1, h2, h3, h4]
  by_cases ha : a < 0 <;> by_cases hb : b < 0 <;> by_cases ho : (o < 0 ∨ o > 5) <;> simp [ha, hb, ho]

/-- tests: order 5 accepted, 5 + 1/2^40 refused, 0 accepted -/
example : (normBond (.mk (some 0) (some 1) (Src.units.bondorder_max : Int))).toOption = some (0, 1, 5) := by decide +kernel
example : (normBond (.mk (some 0) (some 1) ((Src.units.bondorder_max : Int) + 1 / 1099511627776))).toOption = none := by
  decide +kernel
example : (normBond (.mk (some 0) (some 1) (Src.units.bondorder_min : Int))).toOption = some (0, 1, 0) := by decide +kernel

/-- `from_schema`'s call of `from_arrays`: `units="Bohr"`, `input_units_to_au=None`, `speclabel=False`, and — because
the call passes no `tooclose=`, `mtol=`, `zero_ghost_fragments=`, `missing_enabled_return=` — `from_arrays`' defaults.
The model's `fromSchema`, on a recognised schema whose fragment pattern is contiguous, is `fromArrays` on exactly
these settings read from the source -/
theorem from_schema_call_matches_source (env : Env) (s : Schema) (cg : Contig)
    (hrec : (((startsWith (s.schemaName.getD []) "qc_schema".toList || startsWith (s.schemaName.getD []) "qcschema".toList)
              && s.schemaVersion == some 1)
            || (startsWith (s.schemaName.getD []) "qcschema_molecule".toList && s.schemaVersion == some 2)) = true)
    (hcg : contiguize (s.fragments.getD [List.range ((s.body.elem.getD []).length)]) s.body = .ok cg) :
    fromSchema env s =
      fromArrays env { s.body with
        units := Src.from_schema.call_units.toList, iutau := none, seps := some cg.seps
        minimal := false, speclabel := Src.from_schema.call_speclabel, zgf := Src.from_arrays.zero_ghost_fragments
        mtol := Src.from_arrays.mtol_f64, tooclose := Src.from_arrays.tooclose_f64 } ∧
    Src.from_schema.call_uses_defaults = true ∧ Src.from_schema.call_input_units_to_au = none := by
  have hu : Src.from_schema.call_units.toList = sBohr := by decide
  have hs : Src.from_schema.call_speclabel = false := by decide
  have hz : Src.from_arrays.zero_ghost_fragments = false := by decide
  refine ⟨?_, by decide, by decide⟩
  rw [hu, hs, hz, ← tooclose_default_matches_source.1, ← mtol_default_matches_source.1]
  unfold fromSchema
  simp only [hrec, hcg, Bool.not_true, Bool.false_eq_true, ↓reduceIte]

end QcelVerif.FromArrays
