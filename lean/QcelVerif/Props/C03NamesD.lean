import QcelVerif.Lemmas.UnitNamesChk
/-! C03 text level: every listed spelling of these table units resolves to its unit over the regenerated registry names
(kernel evaluation, one table unit per lemma; the collisions are the eight of `collisionTable`).  Helper lemmas for `Props/C03Text.lean`. -/
namespace QcelVerif.Units.Text

theorem sp_au_hyper1 : (spellingsOf (.au .hyper1)).all chk = true := by decide +kernel
theorem sp_au_hyper2 : (spellingsOf (.au .hyper2)).all chk = true := by decide +kernel
theorem sp_au_action : (spellingsOf (.au .action)).all chk = true := by decide +kernel
theorem sp_au_chargeDensity : (spellingsOf (.au .chargeDensity)).all chk = true := by decide +kernel
theorem sp_au_current : (spellingsOf (.au .current)).all chk = true := by decide +kernel
theorem sp_au_dipole : (spellingsOf (.au .dipole)).all chk = true := by decide +kernel
theorem sp_au_efield : (spellingsOf (.au .efield)).all chk = true := by decide +kernel
theorem sp_au_efg : (spellingsOf (.au .efg)).all chk = true := by decide +kernel
theorem sp_au_polarizability : (spellingsOf (.au .polarizability)).all chk = true := by decide +kernel
theorem sp_au_potential : (spellingsOf (.au .potential)).all chk = true := by decide +kernel

end QcelVerif.Units.Text
