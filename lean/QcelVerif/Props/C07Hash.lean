import QcelVerif.Props.C07E2E
import QcelVerif.Props.C11
/-!
# C07 (b) — the record read back has the same canonical fields (C11), hence the same hash

`Props/C07E2E.lean` shows that a validated record `r` written as text and read back is `r` with the text's unit and the
printed coordinates (and without name / comment / connectivity / `input_units_to_au` / `fix_symmetry`).  Here the record is
looked at the way `Molecule.get_hash` looks at a molecule (`Model/Hash.lean`, C11): symbols, masses, charge, multiplicity,
real flags, geometry IN BOHR, fragments, fragment charges and multiplicities, connectivity — each through `float_prep`.

The geometry in bohr is a separate argument (`gB`): for a Bohr text it is the record's own `geom`, for an Angstrom text
`to_schema` multiplies by the Å→a₀ factor first (one more float operation, a parameter like `float()`).

PROPERTY-THEOREMS: roundtrip_same_canon roundtrip_same_hash printed_same_prep
-/
namespace QcelVerif.TextToMol
open QcelVerif QcelVerif.FromArrays QcelVerif.Hash

/-- the molecule `get_hash` sees for a validated record whose coordinates in bohr are `gB` -/
def molOfRec (r : Molrec) (gB : List Rat) : Hash.Mol :=
  { symbols := r.elem.map String.toList
    masses := some (r.mass.map Dbl.val)
    charge := .val (r.c : Rat)
    mult := r.m
    real := some r.real
    geometry := gB.map Dbl.val
    fragments := some (npSplit ((List.range r.elem.length).map fun (k : Nat) => (k : Int)) r.seps)
    fragCharges := some (r.fc.map fun (c : Int) => Dbl.val (c : Rat))
    fragMults := some r.fm
    connectivity := r.conn.map (·.map fun b => (⟨b.1, b.2.1, b.2.2⟩ : Hash.Bond)) }

/-- what a text round trip returns for `r` (`Props/C07E2E.lean`, conclusion of `read_write_validated_*`) -/
def readBack (r : Molrec) (units : List Char) (g : List Rat) (com orient : Bool) (symm : Option (List Char)) : Molrec :=
  { r with units := units, iutau := none, name := none, comment := none, conn := none, geom := g,
           fixCom := com, fixOrient := orient, fixSymm := symm }

/-- every printed coordinate has the same `float_prep` image (8 decimals, zero band) as the stored one -/
def SamePrep (fl : Rat → Rat) (gB gB' : List Rat) : Prop :=
  gB'.map (fun x => prepArr fl GEOMETRY_NOISE (.val x)) = gB.map (fun x => prepArr fl GEOMETRY_NOISE (.val x))

/-- **(b) same canonical fields.**  For a record without connectivity (no text format carries bonds): if every coordinate
read back has the same 8-decimal `float_prep` image as the stored one (`SamePrep`, in bohr), the molecule read back has the
same canonical hash fields as the original - whatever the text's unit, name, comment, frame flags were. -/
theorem roundtrip_same_canon {D} (P : Params D) (r : Molrec) (hconn : r.conn = none)
    (units : List Char) (g : List Rat) (com orient : Bool) (symm : Option (List Char))
    (gB gB' : List Rat) (h : SamePrep P.fl gB gB') :
    canon P (molOfRec (readBack r units g com orient symm) gB') = canon P (molOfRec r gB) := by
  apply canon_congr <;> try rfl
  · simpa [molOfRec, readBack, SamePrep, List.map_map, Function.comp_def] using h
  · simp [molOfRec, readBack, hconn]

/-- **(b) same hash** (C11 `hash_of_canon`). -/
theorem roundtrip_same_hash {D} (P : Params D) (r : Molrec) (hconn : r.conn = none)
    (units : List Char) (g : List Rat) (com orient : Bool) (symm : Option (List Char))
    (gB gB' : List Rat) (h : SamePrep P.fl gB gB') :
    hash P (molOfRec (readBack r units g com orient symm) gB') = hash P (molOfRec r gB) :=
  hash_of_canon P _ _ (roundtrip_same_canon P r hconn units g com orient symm gB gB' h)

/-- **When the printed precision is enough.**  If each coordinate read back differs from the stored one by at most
`10⁻¹⁰` bohr (a print with ≥ 10 decimals in bohr: `½·10⁻¹⁰ + ½ulp`), and the stored coordinate is not within `0.02·10⁻⁸` of
an 8-decimal rounding boundary (and below 2⁴⁵·10⁻⁸ in size), the two have the same `float_prep` image (C11 `round_stable`).
-- FULL: the same for 8 and 9 printed decimals needs the margin `½·10⁻ᵖ` instead of `0.02·10⁻⁸`; `round_stable` is stated for
-- the 0.48 / 0.01 split only.  The harness oracle (`hash_stable`) demands hash equality under the exact margin for 8..14. -/
theorem printed_same_prep {fl : Rat → Rat} (hfl : FlOk fl) :
    ∀ (gB gB' : List Rat), List.Forall₂ (fun x x' => ∃ n : Int, |x * (10 : Rat) ^ 8| ≤ 2 ^ 45 - 1 ∧
        |x * (10 : Rat) ^ 8 - n| ≤ 48 / 100 ∧ |x' - x| * (10 : Rat) ^ 8 ≤ 1 / 100) gB gB' → SamePrep fl gB gB'
  | _, _, .nil => rfl
  | _, _, .cons (a := x) (b := x') ⟨n, hb, hn, hd⟩ t => by
      have ih := printed_same_prep hfl _ _ t
      unfold SamePrep at ih ⊢
      have h := (round_stable hfl 8 x (x' - x) n hb hn hd).2.2
      have hx : x + (x' - x) = x' := by ring
      rw [hx] at h
      simp only [List.map_cons, GEOMETRY_NOISE] at ih ⊢
      rw [ih, h]

/-- non-vacuity (test): a coordinate 1.23456789012 printed with 10 decimals -/
example : List.Forall₂ (fun x x' => ∃ n : Int, |x * (10 : Rat) ^ 8| ≤ 2 ^ 45 - 1 ∧
    |x * (10 : Rat) ^ 8 - n| ≤ 48 / 100 ∧ |x' - x| * (10 : Rat) ^ 8 ≤ 1 / 100)
    [(123456789012 : Rat) / 10 ^ 11] [(12345678901 : Rat) / 10 ^ 10] := by
  refine .cons ⟨123456789, ?_, ?_, ?_⟩ .nil <;> norm_num [abs_le]

end QcelVerif.TextToMol
