import QcelVerif.Props.C06ElemPred
/-! C06: table-wide instances (kernel evaluation of the whole model under rd64), half A of the element rows. -/
namespace QcelVerif.Nucleus
open QcelVerif
set_option maxRecDepth 100000
theorem elements_default_A : (Gen.PT.elements.take 59).all elementDefaultOk = true := by decide +kernel
end QcelVerif.Nucleus
