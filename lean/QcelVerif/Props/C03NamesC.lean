import QcelVerif.Lemmas.UnitNamesChk
/-! C03 text level: every listed spelling of these table units resolves to its unit over the regenerated registry names
(kernel evaluation, one table unit per lemma; the collisions are the eight of `collisionTable`).  Helper lemmas for `Props/C03Text.lean`. -/
namespace QcelVerif.Units.Text

theorem sp_debye : (spellingsOf .debye).all chk = true := by decide +kernel
theorem sp_newton : (spellingsOf .newton).all chk = true := by decide +kernel
theorem sp_dyne : (spellingsOf .dyne).all chk = true := by decide +kernel
theorem sp_pascal : (spellingsOf .pascal).all chk = true := by decide +kernel
theorem sp_bar : (spellingsOf .bar).all chk = true := by decide +kernel
theorem sp_atm : (spellingsOf .atm).all chk = true := by decide +kernel
theorem sp_torr : (spellingsOf .torr).all chk = true := by decide +kernel
theorem sp_volt : (spellingsOf .volt).all chk = true := by decide +kernel
theorem sp_tesla : (spellingsOf .tesla).all chk = true := by decide +kernel
theorem sp_farad : (spellingsOf .farad).all chk = true := by decide +kernel
theorem sp_watt : (spellingsOf .watt).all chk = true := by decide +kernel
theorem sp_auPressure : (spellingsOf .auPressure).all chk = true := by decide +kernel

end QcelVerif.Units.Text
