import QcelVerif.Model.Serialize
import QcelVerif.Lemmas.Serialize
import QcelVerif.Lemmas.SerializeMsgpack
import QcelVerif.Gen.SerTables
/-!
# C10 — every model and array survives every serialisation encoding

Property theorems about the model `Model/Serialize.lean` (for ALL inputs; no size bounds).
Manifest (harness/c10.py:THEOREMS lists the same 13 names):
  unhex_hex, beNat_beBytes, msgpack_roundtrip_partial (PARTIAL, see its `-- FULL:` block),
  ext_envelope_roundtrip_msgpack, ext_envelope_roundtrip_json, jsonext_roundtrip,
  flat_reshape_roundtrip, flat_reshape_refuses,
  auto_decoder_reads_writer, explicit_reader_reads_writer, suffix_reader_reads_writer, tables_match_source,
  jsonext_text_not_read_by_auto (a recorded negative boundary)
Not proved (stated as FULL in the partial's comment): the msgpack byte-stream round trip over whole trees and
`reserialise_identical`.
-/
namespace QcelVerif.Ser

/-! ## hex (json-ext `data` field: `bytes.hex()` / `bytes.fromhex`) -/

/-- `bytes.fromhex(b.hex()) == b` for every byte string -/
theorem unhex_hex : ∀ bs : Bytes, unhex (hex bs) = some bs
  | [] => by simp [hex, unhex]
  | b :: t => by
    have hb : b.toNat < 256 := b.toNat_lt
    have h1 : b.toNat / 16 < 16 := by omega
    have h2 : b.toNat % 16 < 16 := by omega
    simp only [hex, unhex, unhex_hex_digit _ h1, unhex_hex_digit _ h2, unhex_hex t, ofNat_div_mod,
      Option.bind_eq_bind, Option.bind_some, Option.pure_def]

/-- TEST (concrete): the lower-case digits Python writes, and upper-case accepted on input -/
example : hex [0x00, 0x0f, 0xa5, 0xff] = "000fa5ff".toList := by decide
example : unhex "A5ff".toList = some [0xa5, 0xff] := by decide
example : unhex "abc".toList = none := by decide

/-! ## big-endian fixed-width fields (every msgpack length and integer field) -/

/-- a `k`-byte big-endian field holds any `n < 256^k` exactly -/
theorem beNat_beBytes (k n : Nat) (h : n < 256 ^ k) : beNat (beBytes k n) = n := by
  rw [beNat_beBytes_mod, Nat.mod_eq_of_lt h]

/-- non-vacuity: 65535 fits a 2-byte field, and the bytes are the ones msgpack writes -/
example : beBytes 2 65535 = [0xff, 0xff] ∧ beNat (beBytes 2 65535) = 65535 := by decide

/-! ## flat encodings: `ravel().tolist()` then the models' reshape validators
(molecule.py:386-393 `(N,3)`; results.py:263-305 `(3,)`,`(3,3)`,`(nat,3)`,`(3nat,3nat)`; 447-491 `(nbf,nbf)`,`(nbf,-1)`; align.py `(3,3)`) -/

/-- reshaping the ravelled rows back to `(n, m)` restores exactly the rows, for every `n × m` row list -/
theorem flat_reshape_roundtrip {α : Type} (n m : Nat) (rows : List (List α))
    (hn : rows.length = n) (hm : ∀ r ∈ rows, r.length = m) :
    reshapeRows n m (ravel rows) = some rows := by
  subst hn
  simp [reshapeRows, ravel, length_flatten_rows m rows hm, chunk_flatten m rows hm]

/-- a flat list of the wrong size is refused (the validators raise "must be castable to shape") -/
theorem flat_reshape_refuses {α : Type} (n m : Nat) (flat : List α) (h : flat.length ≠ n * m) :
    reshapeRows n m flat = none := by
  simp [reshapeRows, h]

/-- non-vacuity: a 2×3 geometry; and the empty `(0,3)` case -/
example : reshapeRows 2 3 (ravel [[1, 2, 3], [4, 5, 6]]) = some [[1, 2, 3], [4, 5, 6]] := by decide
example : reshapeRows 0 3 (ravel ([] : List (List Nat))) = some [] := by decide

/-! ## the ndarray envelopes of the two -ext encodings (serialization.py:44-49,73-78 and 130-135,145-150)

`ndWF dt shape data` : rank ≥ 1 and `len(data) = itemsize(dt) · ∏ shape` — what `np.ascontiguousarray(a).tobytes()` of a
real array always satisfies, including every zero-extent shape. -/

/-- msgpack-ext: `msgpackext_decode` applied to the envelope `msgpackext_encode` built gives back the same
dtype, shape and bytes — rank 1 (no `shape` key) and rank > 1 alike, empty arrays included -/
theorem ext_envelope_roundtrip_msgpack (dt data : Bytes) (shape : List Nat) (h : ndWF dt shape data)
    (l : List (Val × Val)) (hl : ndEnvelope dt shape data = .map l) :
    mpHook l = .ok (.nd dt shape data) := by
  obtain ⟨hrank, isz, hisz, hpos, hlen⟩ := h
  obtain ⟨hmod, hdiv⟩ := wf_arith hpos hlen
  obtain ⟨k, rfl⟩ : ∃ k, isz = k + 1 := ⟨isz - 1, by omega⟩
  simp only [ndEnvelope, Val.map.injEq] at hl
  subst hl
  by_cases hr : shape.length > 1
  · simp (config := { decide := true }) [mpHook, lookupBin, hr, hisz, hmod, hdiv, shapeOfVals_map]
  · obtain ⟨n, rfl⟩ := singleton_of_length shape hrank hr
    simp (config := { decide := true }) [mpHook, lookupBin, hisz, hmod, hdiv, prodL_singleton] at *

/-- msgpack-ext, what is proved at the byte level (PARTIAL): every fixed-width length/integer field the encoder writes
reads back exactly (`beNat (beBytes k n) = n` for `n < 256^k`, all widths), a positive fixint decodes to itself leaving
the rest of the stream, and the object hook restores any well-formed array from its envelope.

-- FULL: `∀ v, MWF v → mpDecode (mpEnc v) = .ok v` over byte streams (ints in [-2^63, 2^64), str/bin/array/map lengths
-- < 2^32, no user key b"_nd_", well-formed array leaves at any depth), and its corollary
-- `reserialise_identical : mpDecode (mpEnc v) = .ok v' → mpEnc v' = mpEnc v`.
-- MISSING: the per-head decode lemmas for the remaining ~25 head forms of `mpDec` (each a ~30-deep `if` chain on a symbolic
-- head byte) and the mutual induction over `mpEnc/mpEncL/mpEncP` with the fuel bound `size v ≤ (mpEnc v).length`.
-- The byte level is instead tied DIFFERENTIALLY: the implementation's msgpack-ext bytes equal `mpEnc` byte-for-byte and
-- `mpDecode` equals `msgpack.loads` + hook on every generated payload (all int/str/bin/array/map width boundaries). -/
theorem msgpack_roundtrip_partial :
    (∀ k n : Nat, n < 256 ^ k → beNat (beBytes k n) = n) ∧
    (∀ (f n : Nat) (rest : Bytes), n < 128 → mpDec (f + 1) (mpInt (n : Int) ++ rest) = .ok (.int n, rest)) ∧
    (∀ (dt data : Bytes) (shape : List Nat), ndWF dt shape data → ∀ l, ndEnvelope dt shape data = .map l →
        mpHook l = .ok (.nd dt shape data)) := by
  refine ⟨beNat_beBytes, ?_, ext_envelope_roundtrip_msgpack⟩
  intro f n rest h
  have : mpInt (n : Int) = [UInt8.ofNat n] := by
    simp [mpInt, h]
  rw [this]
  exact mpDec_posfix f n rest h

/-- json-ext: `jsonext_decode` applied to the envelope `JSONExtArrayEncoder.default` built (data hex-encoded)
gives back the same dtype, shape and bytes -/
theorem ext_envelope_roundtrip_json (dt data : Bytes) (shape : List Nat) (h : ndWF dt shape data)
    (l : List (Val × Val)) (hl : jxEnvelope dt shape data = .map l) :
    jxHook l = .ok (.nd dt shape data) := by
  obtain ⟨hrank, isz, hisz, hpos, hlen⟩ := h
  obtain ⟨hmod, hdiv⟩ := wf_arith hpos hlen
  obtain ⟨k, rfl⟩ : ∃ k, isz = k + 1 := ⟨isz - 1, by omega⟩
  have hhex : unhex (bytesToChars (hexBytes data)) = some data := by
    rw [bytesToChars_hexBytes, unhex_hex]
  simp only [jxEnvelope, Val.map.injEq] at hl
  subst hl
  by_cases hr : shape.length > 1
  · simp (config := { decide := true }) [jxHook, lookupStr, hr, hisz, hmod, hdiv, hhex, shapeOfVals_map]
  · obtain ⟨n, rfl⟩ := singleton_of_length shape hrank hr
    simp (config := { decide := true }) [jxHook, lookupStr, hisz, hmod, hdiv, hhex, prodL_singleton] at *

/-- non-vacuity: a (2,0,3) float64 array (empty, non-trivial shape), a big-endian int32 vector and a rank-2 unicode
array are well-formed -/
example : ndWF (asciiBytes "<f8") [2, 0, 3] [] := ⟨by decide, 8, by decide, by decide, by decide⟩
example : ndWF (asciiBytes ">i4") [2] [0, 0, 0, 1, 0, 0, 0, 2] := ⟨by decide, 4, by decide, by decide, by decide⟩
example : ndWF (asciiBytes "<U1") [1, 2] [97, 0, 0, 0, 98, 0, 0, 0] := ⟨by decide, 4, by decide, by decide, by decide⟩

/-! ## json-ext over whole payload trees (value level: what `json.dumps` is handed / what `json.loads` hands the hook)

`JWF v`: every ndarray leaf is well-formed (rank ≥ 1, size matches) and no user dict has a key `"_nd_"` (the hook treats
any such dict as an envelope — outside the property, see ASSUMPTIONS). No bound on depth, width or sizes. -/

inductive JWF : Val → Prop
  | nil : JWF .nil
  | bool (b) : JWF (.bool b)
  | int (i) : JWF (.int i)
  | f64 (b) : JWF (.f64 b)
  | str (s) : JWF (.str s)
  | bin (b) : JWF (.bin b)
  | arr (l) : (∀ x ∈ l, JWF x) → JWF (.arr l)
  | map (l) : lookupStr "_nd_" l = none → (∀ p ∈ l, JWF p.2) → JWF (.map l)
  | nd (dt shape data) : ndWF dt shape data → JWF (.nd dt shape data)

theorem jxDecL_ints : ∀ shape : List Nat,
    jxDecL (shape.map fun (n : Nat) => Val.int (n : Int)) = .ok (shape.map fun (n : Nat) => Val.int (n : Int))
  | [] => by simp [jxDecL]
  | n :: t => by simp [jxDecL, jxDec, jxDecL_ints t, Except.map]

/-- decoding the values of an envelope leaves them alone (they are a bool, two strings and a list of ints) -/
theorem jxDecP_envelope (dt data : Bytes) (shape : List Nat) (l : List (Val × Val))
    (hl : jxEnvelope dt shape data = .map l) : jxDecP l = .ok l := by
  simp only [jxEnvelope, Val.map.injEq] at hl
  subst hl
  by_cases hr : shape.length > 1 <;> simp [hr, jxDecP, jxDec, jxDecL_ints, Except.map]

mutual
  /-- **json-ext round trip over trees**: arrays nested at any depth in dicts/lists come back with the same dtype,
  shape and bytes, and everything else comes back unchanged -/
  theorem jsonext_roundtrip : ∀ v : Val, JWF v → jxDec (jxEnc v) = .ok v
    | .nil, _ => by simp [jxEnc, jxDec]
    | .bool _, _ => by simp [jxEnc, jxDec]
    | .int _, _ => by simp [jxEnc, jxDec]
    | .f64 _, _ => by simp [jxEnc, jxDec]
    | .str _, _ => by simp [jxEnc, jxDec]
    | .bin _, _ => by simp [jxEnc, jxDec]
    | .arr l, h => by
      have hl : ∀ x ∈ l, JWF x := by cases h; assumption
      simp [jxEnc, jxDec, jsonext_roundtripL l hl, Except.map]
    | .map l, h => by
      have ⟨hk, hl⟩ : lookupStr "_nd_" l = none ∧ ∀ p ∈ l, JWF p.2 := by cases h; exact ⟨‹_›, ‹_›⟩
      simp [jxEnc, jxDec, jsonext_roundtripP l hl, jxHook, hk]
    | .nd dt shape data, h => by
      have hwf : ndWF dt shape data := by cases h; assumption
      simp only [jxEnc]
      cases henv : jxEnvelope dt shape data with
      | map l =>
        simp only [jxDec, jxDecP_envelope dt data shape l henv]
        exact ext_envelope_roundtrip_json dt data shape hwf l henv
      | _ => simp [jxEnvelope] at henv
  theorem jsonext_roundtripL : ∀ l : List Val, (∀ x ∈ l, JWF x) → jxDecL (jxEncL l) = .ok l
    | [], _ => by simp [jxEncL, jxDecL]
    | v :: t, h => by
      have hv : JWF v := h v (List.mem_cons_self ..)
      have ht : ∀ x ∈ t, JWF x := fun x hx => h x (List.mem_cons_of_mem _ hx)
      simp [jxEncL, jxDecL, jsonext_roundtrip v hv, jsonext_roundtripL t ht, Except.map]
  theorem jsonext_roundtripP : ∀ l : List (Val × Val), (∀ p ∈ l, JWF p.2) → jxDecP (jxEncP l) = .ok l
    | [], _ => by simp [jxEncP, jxDecP]
    | (k, v) :: t, h => by
      have hv : JWF v := h (k, v) (List.mem_cons_self ..)
      have ht : ∀ p ∈ t, JWF p.2 := fun p hp => h p (List.mem_cons_of_mem _ hp)
      simp [jxEncP, jxDecP, jsonext_roundtrip v hv, jsonext_roundtripP t ht, Except.map]
end

/-- non-vacuity: a payload with an empty (0,3) array nested two levels deep beside scalars is well-formed -/
example : JWF (.map [(.str (asciiBytes "p"), .arr [.nd (asciiBytes "<f8") [0, 3] [], .map [(.str (asciiBytes "q"), .int 1)]]),
                     (.str (asciiBytes "z"), .nil)]) := by
  refine .map _ (by decide) ?_
  intro p hp
  simp at hp
  rcases hp with rfl | rfl
  · refine .arr _ ?_
    intro x hx
    simp at hx
    rcases hx with rfl | rfl
    · exact .nd _ _ _ ⟨by decide, 8, by decide, by decide, by decide⟩
    · exact .map _ (by decide) (by intro p hp; simp at hp; subst hp; exact .int 1)
  · exact .nil

/-! ## decision tables -/

/-- the automatic choice of `parse_raw` (str → json, bytes → msgpack-ext) picks a reader that reads what the writer
the property names for that payload type wrote; and the bytes reader also reads plain msgpack -/
theorem auto_decoder_reads_writer :
    reads (readerOf (autoEnc .str)) .json = true ∧
    reads (readerOf (autoEnc .bytes)) .msgpackExt = true ∧
    reads (readerOf (autoEnc .bytes)) .msgpack = true ∧
    (∀ e : Enc, e.payloadTy = .bytes → reads (readerOf (autoEnc e.payloadTy)) e = true) := by
  refine ⟨by decide, by decide, by decide, ?_⟩
  intro e h; cases e <;> simp_all [Enc.payloadTy] <;> decide

/-- every explicit encoding's reader reads that encoding's writer (`parse_raw(serialize(e), encoding=e)`) -/
theorem explicit_reader_reads_writer : ∀ e : Enc, reads (readerOf e) e = true := by
  intro e; cases e <;> decide

/-- boundary (negative): json-ext *text* is a str, the automatic choice for str is json, and that reader does not
decode the array envelopes — recorded, not claimed as a round trip -/
theorem jsonext_text_not_read_by_auto :
    Enc.jsonExt.payloadTy = .str ∧ reads (readerOf (autoEnc Enc.jsonExt.payloadTy)) .jsonExt = false := by
  decide

/-- the hand-written dispatch tables of the model are the tables extracted from the working tree -/
theorem tables_match_source :
    (∀ p ∈ Gen.autoTable, autoEnc p.1 = p.2) ∧
    (∀ p ∈ Gen.readerTable, readerOf p.1 = p.2) ∧
    (∀ p ∈ Gen.writerTable, p.1 = p.2) ∧
    Gen.autoTable.length = 2 ∧ Gen.readerTable.length = 4 ∧ Gen.writerTable.length = 4 := by
  decide

/-- for every suffix that `Molecule.to_file` writes with a serialisation encoding, the reader `Molecule.from_file`
picks, and the reader `ProtoModel.parse_file` picks, read what was written (tables extracted from source) -/
theorem suffix_reader_reads_writer :
    (∀ p ∈ Gen.molFileTable, reads p.2 p.1 = true) ∧ (∀ p ∈ Gen.parseFileTable, reads p.2 p.1 = true) ∧
    Gen.molFileTable ≠ [] ∧ Gen.parseFileTable ≠ [] := by
  decide

end QcelVerif.Ser
